package c43

// Generation of code buffers + cursor positions, and of the op line: the
// tables (printable runes, pure values of the variables in the code, home
// directories, the listing of the directory the typed prefix points into, the
// names the interpreter enumerates) that are the model's parameters.

import (
	"io/fs"
	"os"
	"path/filepath"
	"sort"
	"strconv"
	"strings"
	"unicode"
	"unicode/utf8"

	"src.elv.sh/pkg/edit/complete"
	"src.elv.sh/pkg/eval/vals"
	"src.elv.sh/pkg/fsutil"
	"src.elv.sh/pkg/parse"
	"verifharness/common"
)

// ---- typed words ------------------------------------------------------------

func quoteSingleOpen(s string) string { return "'" + strings.ReplaceAll(s, "'", "''") }

func quoteDoubleOpen(s string) string {
	var sb strings.Builder
	sb.WriteByte('"')
	for i := 0; i < len(s); i++ {
		switch c := s[i]; c {
		case '"', '\\':
			sb.WriteByte('\\')
			sb.WriteByte(c)
		case '\n':
			sb.WriteString(`\n`)
		case '\t':
			sb.WriteString(`\t`)
		case 0x1b:
			sb.WriteString(`\e`)
		default:
			sb.WriteByte(c)
		}
	}
	return sb.String()
}

// typeWord writes the string s in one of the styles.
func typeWord(r *common.Rand, s string, style int) string {
	switch style {
	case 0: // bare
		return s
	case 1:
		return quoteSingleOpen(s)
	case 2:
		return quoteSingleOpen(s) + "'"
	case 3:
		return quoteDoubleOpen(s)
	case 4:
		return quoteDoubleOpen(s) + `"`
	default: // split: first part bare, rest quoted
		k := r.Range(0, len(s))
		for k > 0 && k < len(s) && !utf8.RuneStart(s[k]) {
			k--
		}
		if i := strings.Index(s, base); i >= 0 && k > i && k < i+len(base) {
			k = i + len(base) // the root path stays in one piece (it is replaced by /R in the op)
		}
		if r.Bool() {
			return s[:k] + quoteSingleOpen(s[k:]) + common.Pick(r, []string{"", "'"})
		}
		return s[:k] + quoteDoubleOpen(s[k:]) + common.Pick(r, []string{"", `"`})
	}
}

// cutPrefix picks a prefix of s (mostly at a rune boundary).
func cutPrefix(r *common.Rand, s string) string {
	var k int
	switch r.Intn(6) {
	case 0:
		k = 0
	case 1:
		k = len(s)
	case 2:
		k = 1
	default:
		k = r.Range(0, len(s))
	}
	if k > len(s) {
		k = len(s)
	}
	if r.Chance(9, 10) {
		for k > 0 && k < len(s) && !utf8.RuneStart(s[k]) {
			k--
		}
	}
	return s[:k]
}

type genCtx struct {
	r  *common.Rand
	w  *world
	ag []string // candidates of the custom arg generator (nil = default)
}

// target picks the name the user is "typing" and the directory spelling.
// The result is (bareDirPart, quotablePart): bareDirPart must stay outside
// quotes to keep its meaning (~/, $d/).
func (g *genCtx) target(kind string) (outside, inside string) {
	r := g.r
	if kind == "index" {
		keys := g.w.varVals("m")
		if len(keys) > 0 && r.Chance(4, 5) {
			return "", cutPrefix(r, common.Pick(r, keys))
		}
		return "", cutPrefix(r, randName(r))
	}
	if len(g.ag) > 0 && kind == "arg" && r.Chance(4, 5) {
		return "", cutPrefix(r, decodeRaw(common.Pick(r, g.ag)).String())
	}
	type sp struct{ outside, inside, rel string }
	sps := []sp{
		{"", "", "c"}, {"", "", "c"}, {"", "", "c"}, {"", "./", "c"}, {"", "sub/", "c/sub"}, {"", "./sub/", "c/sub"},
		{"", "lnk/", "c/sub"}, {"", "d r/", "c/d r"}, {"", "~/", "c/~"}, {"~/", "", "h"}, {"~", "/", "h"}, {"$d/", "", "c/sub"},
		{"$abs/", "", "c"}, {"", placeholder + "/c/", "c"}, {"", placeholder + "/h/", "h"}, {"", "../c/", "c"}, {"", "sub//", "c/sub"},
		{"", "nodir/", "c/nodir"}, {"~nosuchuser/", "", "h"}, {"$x", "", "c"}, {"$nosuch/", "", "c"}, {"$li/", "", "c"},
		{"", "../h/", "h"},
	}
	if kind == "cmd" {
		sps = []sp{{"", "./", "c"}, {"", "sub/", "c/sub"}, {"~/", "", "h"}, {"", "../c/", "c"}, {"", "", "c"}, {"$d/", "", "c/sub"}}
	}
	s := common.Pick(r, sps)
	names := g.w.names(s.rel)
	var name string
	switch {
	case len(names) > 0 && r.Chance(5, 6):
		name = cutPrefix(r, common.Pick(r, names))
	case r.Chance(1, 2):
		name = cutPrefix(r, randName(r))
	}
	if kind == "cmd" && s.inside == "" && s.outside == "" {
		name = cutPrefix(r, common.Pick(r, []string{"echo", "put", "xcmd", "x cmd", "x'q", "e:xcmd", "str:join", "if", "nosuchcmd", "..", "e:", "var"}))
	}
	return s.outside, strings.ReplaceAll(s.inside, placeholder, base) + name
}

// word returns the typed text of a partial word.
func (g *genCtx) word(kind string) string {
	r := g.r
	outside, inside := g.target(kind)
	style := common.Pick(r, []int{0, 0, 0, 1, 1, 2, 3, 3, 4, 5})
	if inside == "" && r.Chance(2, 3) {
		return outside
	}
	if outside != "" && r.Chance(1, 6) {
		// the expanding part inside the quotes: a literal
		return typeWord(r, outside+inside, style)
	}
	return outside + typeWord(r, inside, style)
}

var tails = []string{"", "", "", "", "", "", "xyz", "'q'", "{a,b}", "$x", " more", " 'more' args", ")", "}", "]", " | cat", "; next", "\nnext",
	" # c", " > f", "*", "/", "[0]", "\"", "'", ">f", " &", "&"}

type tmpl struct {
	pre  string
	kind string
}

var tmpls = []tmpl{
	// arguments
	{"ls ", "arg"}, {"ls ", "arg"}, {"ls ", "arg"}, {"ls a ", "arg"}, {"e:ls -l ", "arg"}, {"ls 'a b' ", "arg"}, {"echo (ls ", "arg"},
	{"a | b ", "arg"}, {"a; b ", "arg"}, {"a\nb ", "arg"}, {"{ ls ", "arg"}, {"if $true { cat ", "arg"}, {"ls &opt=v ", "arg"},
	{"for x [a b] { cat ", "arg"}, {"ls ^\n  ", "arg"}, {"ls # c\n cat ", "arg"}, {"ls   ", "arg"}, {"ls\t", "arg"}, {"ls >f ", "arg"},
	{"ls $x ", "arg"}, {"ls ~ ", "arg"}, {"ls {a,b} ", "arg"}, {"sudo ", "arg"}, {"$x ", "arg"}, {"{|a| ls ", "arg"}, {"ls [a b] ", "arg"},
	{"ls é ", "arg"}, {"ls \xff ", "arg"},
	// insertion point in a comment
	{"ls # c ", "arg"}, {"ls #", "arg"}, {"ls a # c", "arg"}, {"ls # é\n # d ", "arg"}, {"# c ", "cmd"}, {"a | # c ", "cmd"},
	{"cat > # c", "redir"}, {"put $m[ # c", "index"}, {"put [a # c\n ", "arg"}, {"ls # c\r", "arg"},
	// redirections
	{"cat > ", "redir"}, {"cat >", "redir"}, {"cat <", "redir"}, {"cat >> ", "redir"}, {"cat 2> ", "redir"}, {"cat a>", "redir"},
	{"cat <> ", "redir"}, {"cat >&", "redir"}, {"cat a b 3>", "redir"}, {"cat >\t", "redir"},
	// commands
	{"", "cmd"}, {"", "cmd"}, {"a | ", "cmd"}, {"a; ", "cmd"}, {"a\n", "cmd"}, {"(", "cmd"}, {"echo (", "cmd"}, {"{ ", "cmd"}, {"?(", "cmd"},
	{"  ", "cmd"}, {"a |", "cmd"}, {"ls a &", "cmd"}, {"ls a & ", "cmd"}, {"a | b &", "cmd"}, {"echo (ls)", "cmd"}, {"put ?(ls)", "cmd"},
	{"{ ls }", "cmd"}, {"put $m[a]", "index"}, {"ls ^", "arg"}, {"ls a ^", "arg"}, {"if $true { ", "cmd"}, {"{|x| ", "cmd"}, {"{|", "cmd"},
	// indices
	{"put $m[", "index"}, {"put $m[ ", "index"}, {"put $m[a ", "index"}, {"echo $m[", "index"}, {"put $x[", "index"}, {"put $nosuch[", "index"},
	{"put $li[", "index"}, {"put $m[a][", "index"}, {"put abc[", "index"}, {"put $nu[", "index"}, {"put $m[\n", "index"}, {"$m[", "index"},
	{"put $@m[", "index"},
	// variables
	{"put $", "var"}, {"put $", "var"}, {"echo a$", "var"}, {"put $@", "var"}, {"put [$", "var"}, {"{|ab cd| put $", "var"}, {"var ab cd = 1 2; put $", "var"},
	{"fn ff { }; $", "var"}, {"put $'", "var"}, {"put $\"", "var"}, {"cat > $", "var"},
	// set / tmp / del / var
	{"set ", "setarg"}, {"set x ", "setarg"}, {"set x = ", "arg"}, {"set x =", "setarg"}, {"tmp x = ", "arg"}, {"tmp ", "setarg"},
	{"del ", "setarg"}, {"var nn = ", "arg"}, {"set x y = a ", "arg"}, {"set @", "setarg"}, {"set = ", "arg"},
}

var varWords = []string{"", "x", "a", "ab", "E:", "E:HOM", "E:VH", "e:", "e:x", "str:", "str:jo", "@x", "@", "m", "nosuch", "nosuch:", "hx",
	"a b", "pa", ":x", "E:VH_HOSTILE", "ff~", "edit:", "x:y:", "a:b"}

func (g *genCtx) varWord() string {
	r := g.r
	s := common.Pick(r, varWords)
	switch r.Intn(8) {
	case 0:
		return quoteSingleOpen(s)
	case 1:
		return quoteDoubleOpen(s)
	case 2:
		return quoteSingleOpen(s) + "'"
	}
	return s
}

// genCode makes one buffer and cursor position.
func (g *genCtx) genCode() (string, int) {
	r := g.r
	t := common.Pick(r, tmpls)
	var w string
	switch t.kind {
	case "var":
		w = g.varWord()
	case "setarg":
		if r.Bool() {
			w = g.varWord()
		} else {
			w = g.word("arg")
		}
	default:
		w = g.word(t.kind)
	}
	tail := common.Pick(r, tails)
	code := t.pre + w + tail
	dot := len(t.pre) + len(w)
	switch r.Intn(12) {
	case 0:
		dot = r.Range(0, len(code))
	case 1:
		dot = len(t.pre) + r.Range(0, len(w))
	case 2:
		dot = len(code)
	}
	return code, dot
}

var mutSyms = []string{" ", "'", "\"", "$", "~", "/", ".", ">", "<", "[", "]", "(", ")", "{", "}", "#", "|", ";", "\n", "&", "=", ",", "*", "?",
	"^", "\\", "a", "f", "@", ":", "\xff", "é", "\t", "\r"}

func mutate(r *common.Rand, code string) string {
	for n := r.Range(1, 3); n > 0; n-- {
		k := r.Range(0, len(code))
		if i := strings.Index(code, base); i >= 0 && k >= i && k < i+len(base) {
			continue // keep the root path intact (it is replaced by /R in the op)
		}
		switch r.Intn(3) {
		case 0:
			if k < len(code) {
				code = code[:k] + code[k+1:]
			}
		case 1:
			code = code[:k] + common.Pick(r, mutSyms) + code[k:]
		default:
			if k < len(code) {
				code = code[:k] + common.Pick(r, mutSyms) + code[k+1:]
			}
		}
	}
	return code
}

// ---- the op line ----------------------------------------------------------------

// recorder captures what the completers hand to the Filterer.
type recorder struct {
	called   bool
	ctxName  string
	seed     string
	raw      []complete.RawItem
	agCalled bool
}

func argGenFor(items []string, rec *recorder) complete.ArgGenerator {
	return func(args []string) ([]complete.RawItem, error) {
		if rec != nil {
			rec.agCalled = true
		}
		if items == nil {
			return complete.GenerateFileNames(args)
		}
		out := make([]complete.RawItem, len(items))
		for i, it := range items {
			out[i] = decodeRaw(it)
		}
		return out, nil
	}
}

// raw items travel as "P/hex", "N/hex" (only from the interpreter), "C/hex/hex".
func decodeRaw(s string) complete.RawItem {
	f := strings.Split(s, "/")
	switch f[0] {
	case "C":
		return complete.ComplexItem{Stem: common.Unhex(f[1]), CodeSuffix: common.Unhex(f[2])}
	default:
		return complete.PlainItem(common.Unhex(f[1]))
	}
}

func encodeRaw(it complete.RawItem) string {
	switch it := it.(type) {
	case complete.PlainItem:
		return "P/" + common.Hex(canon(string(it)))
	case complete.ComplexItem:
		return "C/" + common.Hex(canon(it.Stem)) + "/" + common.Hex(it.CodeSuffix)
	default: // noQuoteItem
		return "N/" + common.Hex(canon(it.String()))
	}
}

func walk(n parse.Node, f func(parse.Node)) {
	f(n)
	for _, ch := range parse.Children(n) {
		walk(ch, f)
	}
}

// printableOf adds the printable runes decodable at any offset of s.
func printableOf(set map[rune]bool, s string) {
	for i := 0; i < len(s); i++ {
		r, _ := utf8.DecodeRuneInString(s[i:])
		if unicode.IsPrint(r) {
			set[r] = true
		}
	}
}

// listing gives the dirs-table entry for dirToRead (relative to the cwd).
func listing(dir, dirToRead string) string {
	files, err := os.ReadDir(dirToRead)
	if err != nil {
		return common.Hex(canon(dirToRead)) + "=E"
	}
	var es []string
	for _, file := range files {
		fl := ""
		stat, err := file.Info()
		if err != nil {
			fl = "n"
		} else {
			if stat.IsDir() {
				fl += "d"
			}
			if stat.Mode()&os.ModeSymlink != 0 {
				fl += "l"
				if st, err := os.Stat(dir + file.Name()); err == nil && st.IsDir() {
					fl += "t"
				}
			}
			if fsutil.IsExecutable(stat) {
				fl += "x"
			}
		}
		if fl == "" {
			fl = "."
		}
		es = append(es, common.Hex(file.Name())+"/"+fl)
	}
	if len(es) == 0 {
		return common.Hex(canon(dirToRead)) + "=L"
	}
	return common.Hex(canon(dirToRead)) + "=L:" + strings.Join(es, ",")
}

func joinOrDash(l []string, sep string) string {
	if len(l) == 0 {
		return "-"
	}
	return strings.Join(l, sep)
}

// stringKeys is generateIndices' view of a value.
func stringKeys(v any) []string {
	var ks []string
	vals.IterateKeys(v, func(k any) bool {
		if s, ok := k.(string); ok {
			ks = append(ks, s)
		}
		return true
	})
	return ks
}

// makeOp builds the op line for (code, dot) in the current world.
func makeOp(r *common.Rand, lv *live, kindOp string, code string, dot int, ag []string) []string {
	ev := lv.ev
	// a cursor inside the root path has no counterpart in the canonical code
	// (where the path is /R): move it to the end of the buffer
	for i := strings.Index(code, base); i >= 0; {
		if dot > i && dot <= i+len(base) {
			dot = len(code) // (at the end of the path the seed would be R itself, and its directory R's parent)
		}
		j := strings.Index(code[i+1:], base)
		if j < 0 {
			break
		}
		i += 1 + j
	}
	printable := map[rune]bool{}
	add := func(s string) { printableOf(printable, s) }
	add(code)
	tree, _ := parse.Parse(parse.Source{Name: "[gen]", Code: code}, parse.Config{})

	// variables in the code
	var varsT []string
	seenVar := map[string]bool{}
	unames := map[string]bool{"": true}
	walk(tree.Root, func(n parse.Node) {
		switch n := n.(type) {
		case *parse.Primary:
			if n.Type == parse.Variable && !seenVar[n.Value] {
				seenVar[n.Value] = true
				switch v := ev.PurelyEvalPrimary(n).(type) {
				case nil:
				case string:
					varsT = append(varsT, common.Hex(n.Value)+"=S:"+common.Hex(canon(v)))
					add(canon(v))
				default:
					ks := stringKeys(v)
					if len(ks) == 0 {
						varsT = append(varsT, common.Hex(n.Value)+"=K")
					} else {
						hs := make([]string, len(ks))
						for i, k := range ks {
							hs[i] = common.Hex(canon(k))
							add(canon(k))
						}
						varsT = append(varsT, common.Hex(n.Value)+"=K:"+strings.Join(hs, ","))
					}
				}
			}
		case *parse.Compound:
			// user names a leading tilde may be asked to resolve: the literal text
			// of every prefix of the compound, up to the first slash
			if len(n.Indexings) > 0 && n.Indexings[0].Head != nil && n.Indexings[0].Head.Type == parse.Tilde {
				head := ""
				for _, in := range n.Indexings[1:] {
					if in.Head == nil {
						break
					}
					switch in.Head.Type {
					case parse.Bareword, parse.SingleQuoted, parse.DoubleQuoted:
						head += in.Head.Value
					case parse.Variable:
						if s, ok := ev.PurelyEvalPrimary(in.Head).(string); ok {
							head += s
						}
					}
					u := head
					if i := strings.Index(u, "/"); i >= 0 {
						u = u[:i]
					}
					unames[u] = true
				}
			}
		}
	})
	var homesT []string
	var us []string
	for u := range unames {
		us = append(us, u)
	}
	sort.Strings(us)
	for _, u := range us {
		if h, err := fsutil.GetHome(u); err == nil {
			homesT = append(homesT, common.Hex(u)+"="+common.Hex(canon(h)))
			add(canon(h))
		}
	}

	// what the completers see: run the real algorithm once with a recording Filterer
	rec := &recorder{}
	cfg := complete.Config{
		Filterer: func(ctxName, seed string, items []complete.RawItem) []complete.RawItem {
			rec.called, rec.ctxName, rec.seed, rec.raw = true, ctxName, seed, items
			return complete.FilterPrefix(ctxName, seed, items)
		},
		ArgGenerator: argGenFor(ag, rec),
	}
	common.Guard(10e9, func() string {
		complete.Complete(complete.CodeBuffer{Content: code, Dot: dot}, ev, cfg)
		return ""
	})
	dirsT := "-"
	namesT := "-"
	if rec.called {
		add(canon(rec.seed))
		dir, _ := filepath.Split(rec.seed)
		dirToRead := dir
		if dirToRead == "" {
			dirToRead = "."
		}
		dirsT = listing(dir, dirToRead)
		if files, err := os.ReadDir(dirToRead); err == nil {
			for _, f := range files {
				add(f.Name())
			}
		}
		fromNames := rec.ctxName == "variable" || (rec.ctxName == "command" && !fsutil.DontSearch(rec.seed)) ||
			(rec.ctxName == "argument" && !rec.agCalled)
		if fromNames {
			var ns []string
			first := ""
			if rec.seed != "" {
				first = rec.seed[:1]
			}
			for _, it := range rec.raw {
				s := it.String()
				// the model filters by the whole seed; sending only the names that share
				// its first byte (plus a few that do not) keeps the op lines short
				if strings.HasPrefix(s, first) || r.Chance(1, 40) {
					ns = append(ns, encodeRaw(it))
					add(canon(s))
				}
			}
			namesT = joinOrDash(ns, ",")
		}
	}
	agT := "D"
	if ag != nil {
		agT = "L"
		if len(ag) > 0 {
			agT = "L:" + strings.Join(ag, ",")
		}
		for _, it := range ag {
			ri := decodeRaw(it)
			add(ri.String())
		}
	}
	var ps []int
	for p := range printable {
		ps = append(ps, int(p))
	}
	sort.Ints(ps)
	pss := make([]string, len(ps))
	for i, p := range ps {
		pss[i] = strconv.Itoa(p)
	}
	return []string{kindOp, common.Hex(canon(code)), strconv.Itoa(canonDot(code, dot)), joinOrDash(pss, ","), joinOrDash(varsT, ";"),
		joinOrDash(homesT, ";"), dirsT, agT, namesT, lv.desc}
}

// canonDot moves the cursor along with the R → /R replacement in the code.
func canonDot(code string, dot int) int {
	if dot < 0 || dot > len(code) {
		return dot
	}
	return len(canon(code[:dot])) + 0
}

var _ fs.FileInfo
