// Package c09: correspondence and oracle for C09 (eq is an equivalence,
// compare a consistent preorder, compare &total a total preorder).
package c09

import (
	"fmt"
	"math"
	"math/big"
	"strings"
	"sync"

	"src.elv.sh/pkg/eval"
	"src.elv.sh/pkg/eval/vals"
	. "verifharness/c08"
	"verifharness/common"
)

func init() { common.Register("C09", run) }

func run(c *common.Ctx) error {
	s := &common.Std{
		Rule: "triples (a,b,c); all 9 ordered pairs are evaluated (eq, compare, compare &total, and < <= == on number pairs). " +
			"Sources: every unordered pair of the atom list; every unordered triple of the limit numbers (2^53, 2^63, 2^64, ±0, NaN, ±Inf in all " +
			"representations); lists also built as slices of longer lists (token l); random triples of numbers clustered around one precision limit in mixed representations; lists sharing prefixes; " +
			"strings; twins; random structured values. non-trivial = not all three of one trivial kind; distinct by op line",
		ExhaustiveNote: "all unordered pairs of atoms; all unordered triples of the limit numbers",
		Gen:            gen,
		Impl:           impl,
		Oracle:         oracle,
		Tag:            tag,
	}
	return s.Run(c)
}

func pow2(k uint) *big.Int { return new(big.Int).Lsh(big.NewInt(1), k) }

func limitNums() []*V {
	p53, p63, p64 := pow2(53), pow2(63), pow2(64)
	one := big.NewInt(1)
	return []*V{
		Num(p53), Float(1 << 53), Num(new(big.Int).Add(p53, one)), Num(new(big.Int).Sub(p53, one)), Float(1<<53 + 2),
		RatS("18014398509481985/2"), Num(p63), Float(1 << 63), Int(math.MaxInt64), Num(p64), Float(1 << 64),
		Num(new(big.Int).Add(p64, one)), Float(math.Inf(1)), Float(math.Inf(-1)), Float(math.NaN()),
		Float(0), Float(math.Copysign(0, -1)), Int(0), Num(pow2(1024)), Float(math.MaxFloat64), Float(1e30),
		Int(math.MinInt64), Float(-(1 << 63)), RatS("1/3"), Float(1.0 / 3),
	}
}

func cluster(r *common.Rand) [3]*V {
	var out [3]*V
	exps := []uint{0, 24, 53, 53, 53, 54, 63, 63, 64, 100, 1023, 1024}
	e := common.Pick(r, exps)
	neg := r.Bool()
	for i := range out {
		n := new(big.Int).Add(pow2(e), big.NewInt(int64(r.Range(-2, 2))))
		if e == 0 {
			n = big.NewInt(int64(r.Range(-1, 1)))
		}
		if neg {
			n.Neg(n)
		}
		switch r.Intn(7) {
		case 0, 1, 2:
			out[i] = Num(n)
		case 3, 4:
			f, _ := new(big.Float).SetInt(n).Float64()
			if r.Chance(1, 4) {
				f = math.Float64frombits(math.Float64bits(f) + uint64(r.Intn(3)) - 1)
			}
			out[i] = Float(f)
		case 5:
			x := new(big.Rat).SetInt(n)
			x.Add(x, big.NewRat(int64(r.Range(1, 3)), 4))
			out[i] = RatV(x)
		default:
			out[i] = RandNumNear(r)
		}
	}
	return out
}

func emit3(emit func(...string), ranks string, a, b, c *V) {
	emit("cmp", ranks, a.Enc(), b.Enc(), c.Enc())
}

func gen(c *common.Ctx, emit func(...string)) {
	InitPool()
	r := c.Rand
	ranks := RanksField()
	atoms := Atoms()
	for i, a := range atoms {
		for _, b := range atoms[i:] {
			emit3(emit, ranks, a, b, a)
		}
	}
	lim := limitNums()
	for i, a := range lim {
		for j, b := range lim[i:] {
			for _, cc := range lim[i+j:] {
				emit3(emit, ranks, a, b, cc)
			}
		}
	}
	for i := c.Scale(12000, 400000); i > 0; i-- {
		t := cluster(r)
		emit3(emit, ranks, t[0], t[1], t[2])
	}
	// lists sharing prefixes, ending in clustered numbers or other things
	for i := c.Scale(4000, 100000); i > 0; i-- {
		t := cluster(r)
		var pre []*V
		for k := r.Intn(3); k > 0; k-- {
			pre = append(pre, RandValue(r, 1))
		}
		var out [3]*V
		for j := range out {
			l := List()
			for _, p := range pre {
				l.Elems = append(l.Elems, Twin(r, p))
			}
			switch r.Intn(4) {
			case 0:
			case 1:
				l.Elems = append(l.Elems, t[j], RandValue(r, 1))
			default:
				l.Elems = append(l.Elems, t[j])
			}
			l.Sl = r.Intn(3) == 0
			out[j] = l
		}
		emit3(emit, ranks, out[0], out[1], out[2])
	}
	// lists with values of different types at the same position, nested up
	// to two levels: the total order must look inside
	for i := c.Scale(1500, 60000); i > 0; i-- {
		x := RandValue(r, 1)
		y := RandValue(r, 1)
		z := Twin(r, x)
		if r.Bool() {
			z = RandValue(r, 1)
		}
		var pre []*V
		for k := r.Intn(2); k > 0; k-- {
			pre = append(pre, RandValue(r, 1))
		}
		wrap := func(e *V) *V {
			l := List()
			for _, p := range pre {
				l.Elems = append(l.Elems, Twin(r, p))
			}
			l.Elems = append(l.Elems, e)
			l.Sl = r.Intn(4) == 0
			return l
		}
		a, b, cc := wrap(x), wrap(y), wrap(z)
		if r.Intn(3) == 0 {
			a, b, cc = List(a), List(b), List(cc)
		}
		emit3(emit, ranks, a, b, cc)
	}
	// strings
	for i := c.Scale(500, 30000); i > 0; i-- {
		emit3(emit, ranks, Str(RandStr(r)), Str(RandStr(r)), Str(RandStr(r)))
	}
	// twins and random structured values
	for i := c.Scale(6000, 200000); i > 0; i-- {
		a := RandValue(r, 3)
		var b, cc *V
		switch r.Intn(3) {
		case 0:
			b, cc = Twin(r, a), Twin(r, a)
		case 1:
			b, cc = Twin(r, a), RandValue(r, 3)
		default:
			b, cc = RandValue(r, 2), RandValue(r, 2)
		}
		emit3(emit, ranks, a, b, cc)
	}
}

// ---- implementation -----------------------------------------------------------

var (
	probeOnce      sync.Once
	fnProbe, fnNum eval.Callable
)

func initProbes() {
	InitPool()
	probeOnce.Do(func() {
		_, err := EvalCode(`
fn c09-probe {|a b|
  eq $a $b
  try { compare $a $b } catch { put E }
  try { compare &total $a $b } catch { put E }
}
fn c09-num {|a b| < $a $b; <= $a $b; == $a $b }`)
		if err != nil {
			panic(err)
		}
		fnProbe, fnNum = GlobalFn("c09-probe"), GlobalFn("c09-num")
	})
}

func ordChar(o vals.Ordering) string {
	switch o {
	case vals.CmpLess:
		return "<"
	case vals.CmpEqual:
		return "="
	case vals.CmpMore:
		return ">"
	}
	return "?"
}

func b2s(b any) string {
	if b == true {
		return "t"
	}
	if b == false {
		return "f"
	}
	return "!"
}

func isNum(x any) bool {
	switch x.(type) {
	case int, *big.Int, *big.Rat, float64:
		return true
	}
	return false
}

var cmpS = map[vals.Ordering]string{vals.CmpLess: "-1", vals.CmpEqual: "0", vals.CmpMore: "1", vals.CmpUncomparable: "E"}

// pairLine: the builtins' answers.  Values holding a number in a
// non-canonical representation cannot exist inside the language (variable
// reads normalise), so for them (canonical = false) the builtin commands are
// called directly with the Go values instead of through elvish code.
func pairLine(a, b any, canonical bool) string {
	if !canonical {
		one := func(name string, opts map[string]any) string {
			res, err := CallFnOpts(BuiltinFn(name), opts, a, b)
			if err != nil || len(res) != 1 {
				return "E"
			}
			if bv, ok := res[0].(bool); ok {
				return b2s(bv)
			}
			return fmt.Sprint(res[0])
		}
		n := "-"
		if isNum(a) && isNum(b) {
			n = one("<", nil) + one("<=", nil) + one("==", nil)
		}
		return fmt.Sprintf("%s%s%s/%s/%s/%s", one("eq", nil), ordChar(vals.Cmp(a, b)), ordChar(vals.CmpTotal(a, b)),
			one("compare", nil), one("compare", map[string]any{"total": true}), n)
	}
	res, err := CallFn(fnProbe, a, b)
	if err != nil || len(res) != 3 {
		return fmt.Sprintf("probe-error:%v", err)
	}
	n := "-"
	if isNum(a) && isNum(b) {
		nr, err := CallFn(fnNum, a, b)
		if err != nil || len(nr) != 3 {
			return fmt.Sprintf("num-error:%v", err)
		}
		n = b2s(nr[0]) + b2s(nr[1]) + b2s(nr[2])
	}
	return fmt.Sprintf("%s%s%s/%v/%v/%s", b2s(res[0]), ordChar(vals.Cmp(a, b)), ordChar(vals.CmpTotal(a, b)), res[1], res[2], n)
}

func impl(_ any, f []string) string {
	initProbes()
	if f[0] != "cmp" {
		return "bad-op"
	}
	if f[1] != "-" && f[1] != RanksField() {
		return "stale-type-ranks (op recorded by another harness binary); current: " + RanksField()
	}
	ds := []*V{Parse(f[2]), Parse(f[3]), Parse(f[4])}
	vs := []any{ds[0].Go(), ds[1].Go(), ds[2].Go()}
	var out []string
	for i, x := range vs {
		for j, y := range vs {
			out = append(out, pairLine(x, y, ds[i].Canonical() && ds[j].Canonical()))
		}
	}
	return strings.Join(out, " ")
}

// ---- oracle ---------------------------------------------------------------------

// exactValue: the mathematical value of a number: kind 0 NaN, 1 -Inf, 2 finite, 3 +Inf.
func exactValue(x any) (kind int, r *big.Rat) {
	switch x := x.(type) {
	case int:
		return 2, new(big.Rat).SetInt64(int64(x))
	case *big.Int:
		return 2, new(big.Rat).SetInt(x)
	case *big.Rat:
		return 2, x
	case float64:
		switch {
		case math.IsNaN(x):
			return 0, nil
		case math.IsInf(x, -1):
			return 1, nil
		case math.IsInf(x, 1):
			return 3, nil
		}
		return 2, new(big.Rat).SetFloat64(x)
	}
	panic("not a number")
}

// byValue: documented order of numbers: NaN = NaN < everything else, by value.
func byValue(a, b any) vals.Ordering {
	ka, ra := exactValue(a)
	kb, rb := exactValue(b)
	c := 0
	if ka != kb {
		c = ka - kb
	} else if ka == 2 {
		c = ra.Cmp(rb)
	}
	switch {
	case c < 0:
		return vals.CmpLess
	case c > 0:
		return vals.CmpMore
	}
	return vals.CmpEqual
}

// inexactlyConverted: an exact number that ConvertToFloat64 does not convert exactly.
func inexactlyConverted(x any) bool {
	switch x.(type) {
	case int, *big.Int, *big.Rat:
		f := vals.ConvertToFloat64(x)
		if math.IsInf(f, 0) {
			return true
		}
		_, r := exactValue(x)
		return new(big.Rat).SetFloat64(f).Cmp(r) != 0
	}
	return false
}

// mixedBeyond: the triple holds (anywhere, nested) an inexact number together
// with an exact number that is not exactly representable as float64 by
// ConvertToFloat64 — the class of the known finding.
func mixedBeyond(vs []*V) bool {
	hasFloat, hasBad := false, false
	for _, v := range vs {
		v.Walk(func(w *V) {
			switch w.K {
			case 'F':
				hasFloat = true
			case 'i', 'I', 'r':
				if inexactlyConverted(w.Go()) {
					hasBad = true
				}
			}
		})
	}
	return hasFloat && hasBad
}

func flip(o vals.Ordering) vals.Ordering {
	switch o {
	case vals.CmpLess:
		return vals.CmpMore
	case vals.CmpMore:
		return vals.CmpLess
	}
	return o
}

// refCmp is the documented order evaluated directly: numbers by value,
// strings by bytes, false < true, lists lexicographically, everything else
// equal iff eq; uncomparable otherwise.
func refCmp(a, b any) vals.Ordering {
	switch a := a.(type) {
	case nil:
		if b == nil {
			return vals.CmpEqual
		}
		return vals.CmpUncomparable
	case bool:
		if b, ok := b.(bool); ok {
			switch {
			case a == b:
				return vals.CmpEqual
			case !a:
				return vals.CmpLess
			}
			return vals.CmpMore
		}
		return vals.CmpUncomparable
	case string:
		if b, ok := b.(string); ok {
			switch c := strings.Compare(a, b); {
			case c < 0:
				return vals.CmpLess
			case c > 0:
				return vals.CmpMore
			}
			return vals.CmpEqual
		}
		return vals.CmpUncomparable
	case vals.List:
		if b, ok := b.(vals.List); ok {
			for i := 0; i < a.Len() && i < b.Len(); i++ {
				x, _ := a.Index(i)
				y, _ := b.Index(i)
				if o := refCmp(x, y); o != vals.CmpEqual {
					return o
				}
			}
			switch {
			case a.Len() < b.Len():
				return vals.CmpLess
			case a.Len() > b.Len():
				return vals.CmpMore
			}
			return vals.CmpEqual
		}
		return vals.CmpUncomparable
	}
	if isNum(a) {
		if isNum(b) {
			return byValue(a, b)
		}
		return vals.CmpUncomparable
	}
	if vals.Equal(a, b) {
		return vals.CmpEqual
	}
	return vals.CmpUncomparable
}

var (
	typeOrderMu sync.Mutex
	typeOrder   = map[[2]int]vals.Ordering{}
)

func tagOf(v *V) int {
	switch v.K {
	case 'n':
		return 0
	case 't', 'f':
		return 1
	case 'i', 'I', 'r', 'F':
		return 2
	case 's':
		return 3
	case 'L':
		return 4
	case 'M', 'S':
		return 5
	}
	if v.T == KExtCmd || v.T == KKey {
		// struct-shaped Go types: vals.IsFieldMap is true, cmp.go's typeOf
		// files them under the map type
		return 5
	}
	return 6 + v.T
}

// lexTotal is what compare &total must say about two lists: the first
// position where the elements are not equal under compare &total decides
// (the documentation: "compared lexicographically by elements, with elements
// compared recursively"), then the lengths.
func lexTotal(a, b *V) vals.Ordering {
	for k := 0; k < len(a.Elems) && k < len(b.Elems); k++ {
		if o := vals.CmpTotal(a.Elems[k].Go(), b.Elems[k].Go()); o != vals.CmpEqual {
			return o
		}
	}
	switch {
	case len(a.Elems) < len(b.Elems):
		return vals.CmpLess
	case len(a.Elems) > len(b.Elems):
		return vals.CmpMore
	}
	return vals.CmpEqual
}

func oracle(_ any, f []string, out string) (string, string) {
	initProbes()
	if out == "PANIC" || out == "TIMEOUT" {
		return "crash", out
	}
	if f[0] != "cmp" || strings.HasPrefix(out, "stale-type-ranks") {
		return "", ""
	}
	ds := []*V{Parse(f[2]), Parse(f[3]), Parse(f[4])}
	vs := []any{ds[0].Go(), ds[1].Go(), ds[2].Go()}
	var E [3][3]bool
	var C, T, R [3][3]vals.Ordering
	for i, x := range vs {
		for j, y := range vs {
			E[i][j], C[i][j], T[i][j], R[i][j] = vals.Equal(x, y), vals.Cmp(x, y), vals.CmpTotal(x, y), refCmp(x, y)
		}
	}
	// the builtins must say the same as the functions (impl printed the builtins' answers)
	for k, p := range strings.Split(out, " ") {
		i, j := k/3, k%3
		want := fmt.Sprintf("%s%s%s/", b2s(E[i][j]), ordChar(C[i][j]), ordChar(T[i][j]))
		want += cmpS[C[i][j]] + "/" + cmpS[T[i][j]] + "/"
		if !strings.HasPrefix(p, want) {
			return "builtin-mismatch", fmt.Sprintf("pair (%d,%d): builtins %s, functions %s", i, j, p, want)
		}
		if n := p[len(want):]; n != "-" {
			x, y := vs[i], vs[j]
			kx, _ := exactValue(x)
			ky, _ := exactValue(y)
			if kx != 0 && ky != 0 { // NaN: all three false, checked by the model side
				wantN := b2s(C[i][j] == vals.CmpLess) + b2s(C[i][j] != vals.CmpMore) + b2s(C[i][j] == vals.CmpEqual)
				if n != wantN {
					return "num-builtins-disagree-with-compare", fmt.Sprintf("pair (%d,%d): < <= == give %s, compare gives %s", i, j, n, ordChar(C[i][j]))
				}
			} else if n != "fff" {
				return "nan-comparison-true", fmt.Sprintf("pair (%d,%d): < <= == with NaN give %s", i, j, n)
			}
		}
	}
	known := func(cls, detail string) (string, string) {
		if mixedBeyond(ds) {
			differs := false
			for i := range vs {
				for j := range vs {
					if C[i][j] != R[i][j] {
						differs = true
					}
				}
			}
			if differs {
				return "mixed-exact-inexact-beyond-2p53", cls + ": " + detail
			}
		}
		return cls, detail
	}
	for i := range vs {
		nan := ds[i].ContainsNaN()
		if E[i][i] == nan {
			return "eq-reflexivity", fmt.Sprintf("value #%d: contains NaN %v, eq to itself %v", i, nan, E[i][i])
		}
		for j := range vs {
			if E[i][j] != E[j][i] {
				return "eq-not-symmetric", fmt.Sprintf("(%d,%d)", i, j)
			}
			if E[i][j] && C[i][j] != vals.CmpEqual {
				return "eq-but-compare-nonzero", fmt.Sprintf("(%d,%d): compare %s", i, j, ordChar(C[i][j]))
			}
			if C[i][j] != flip(C[j][i]) {
				return "compare-not-antisymmetric", fmt.Sprintf("(%d,%d): %s vs %s", i, j, ordChar(C[i][j]), ordChar(C[j][i]))
			}
			if T[i][j] == vals.CmpUncomparable || T[i][j] != flip(T[j][i]) {
				return "total-not-antisymmetric", fmt.Sprintf("(%d,%d): %s vs %s", i, j, ordChar(T[i][j]), ordChar(T[j][i]))
			}
			if C[i][j] != vals.CmpUncomparable && T[i][j] != C[i][j] {
				return "total-disagrees-with-compare", fmt.Sprintf("(%d,%d): compare %s total %s", i, j, ordChar(C[i][j]), ordChar(T[i][j]))
			}
			if ds[i].K == 'L' && ds[j].K == 'L' {
				if want := lexTotal(ds[i], ds[j]); T[i][j] != want {
					return "total-list-not-lexicographic", fmt.Sprintf("(%d,%d): total %s, lexicographic by the elements' total order %s",
						i, j, ordChar(T[i][j]), ordChar(want))
				}
			}
			ti, tj := tagOf(ds[i]), tagOf(ds[j])
			if ti != tj {
				if T[i][j] == vals.CmpEqual {
					return "total-merges-types", fmt.Sprintf("(%d,%d)", i, j)
				}
				typeOrderMu.Lock()
				prev, seen := typeOrder[[2]int{ti, tj}]
				typeOrder[[2]int{ti, tj}] = T[i][j]
				typeOrderMu.Unlock()
				if seen && prev != T[i][j] {
					return "total-type-order-inconsistent", fmt.Sprintf("types %d,%d ordered %s before, %s now", ti, tj, ordChar(prev), ordChar(T[i][j]))
				}
			}
			if C[i][j] != R[i][j] {
				return known("compare-not-documented-order", fmt.Sprintf("(%d,%d): compare %s, documented order %s", i, j, ordChar(C[i][j]), ordChar(R[i][j])))
			}
			for k := range vs {
				if E[i][j] && E[j][k] && !E[i][k] {
					return "eq-not-transitive", fmt.Sprintf("(%d,%d,%d)", i, j, k)
				}
				for _, M := range []*[3][3]vals.Ordering{&C, &T} {
					name := "compare"
					if M == &T {
						name = "total"
					}
					le := func(o vals.Ordering) bool { return o == vals.CmpLess || o == vals.CmpEqual }
					if le(M[i][j]) && le(M[j][k]) {
						want := vals.CmpEqual
						if M[i][j] == vals.CmpLess || M[j][k] == vals.CmpLess {
							want = vals.CmpLess
						}
						if M[i][k] != want {
							return known(name+"-not-transitive", fmt.Sprintf("(%d,%d,%d): %s %s then %s", i, j, k,
								ordChar(M[i][j]), ordChar(M[j][k]), ordChar(M[i][k])))
						}
					}
				}
			}
		}
	}
	return "", ""
}

func tag(f []string, out string) string {
	if f[0] != "cmp" {
		return ""
	}
	ds := []*V{Parse(f[2]), Parse(f[3]), Parse(f[4])}
	kinds := map[string]bool{}
	for _, d := range ds {
		kinds[d.KindName()] = true
	}
	var t []string
	for _, k := range []string{"nil", "bool", "int", "bigint", "rat", "float", "str", "list", "map", "fieldmap", "ref"} {
		if kinds[k] {
			t = append(t, k)
		}
	}
	s := strings.Join(t, "+")
	if s == "nil" || s == "bool" {
		return ""
	}
	if mixedBeyond(ds) {
		s += "/mixed-beyond-2p53"
	}
	if strings.Contains(out, "?") {
		s += "/uncomparable"
	}
	return s
}
