package c21

// The oracle reads the event log the real interpreter produced and checks
// C21's claims on it directly:
//
//   - with: when its body has finished (however it exited) every assignment
//     that succeeded is undone, in reverse order, each exactly once, with the
//     value the head variable had before (or Unset for a previously unset
//     unsettable variable);
//   - tmp: the same when the enclosing function finishes;
//   - defer: each registered callback starts exactly once, in reverse
//     registration order, interleaved with the tmp restores of the same
//     function, when the function finishes and before its caller goes on;
//   - reporting: the exception a function / with reports is the body's if the
//     body failed, else the first failing restore / callback in execution
//     order, else none.
//
// It is an acceptor: it walks the program and the log together, taking the
// results of the scheduled Set/Unset failures from the log, and stops at the
// first event that the claims do not allow.

import (
	"fmt"
	"strconv"
	"strings"
)

type violation struct{ class, detail string }

type item struct {
	kind byte // 'r' restore value, 'u' unset, 'c' callback
	x    int
	v    val
	cb   *stmt
}

type chk struct {
	p     *program
	evs   []string
	pos   int
	store []slot
	next  int
	feat  map[string]int
	isCB  map[int]bool
}

func (c *chk) cur() string {
	if c.pos < len(c.evs) {
		return c.evs[c.pos]
	}
	return "<end of log>"
}

func (c *chk) mismatch(class, want string) {
	got := c.cur()
	if class == "" {
		class = "trace-shape"
		switch {
		case strings.HasPrefix(got, "S") || strings.HasPrefix(got, "X"):
			class = "stray-restore"
		case strings.HasPrefix(got, "E"):
			var g, k int
			fmt.Sscanf(got, "E%d.%d", &g, &k)
			if c.isCB[k] {
				class = "defer-run"
			}
		}
	}
	lo := c.pos - 6
	if lo < 0 {
		lo = 0
	}
	panic(violation{class, fmt.Sprintf("log position %d: expected %s, got %s (…%s)", c.pos, want, got,
		strings.Join(c.evs[lo:c.pos], " "))})
}

func (c *chk) expect(class, want string) {
	if c.cur() != want {
		c.mismatch(class, want)
	}
	c.pos++
}

func (c *chk) logged(x int) bool { k := c.p.decls[x].kind; return k == 'L' || k == 'U' }

func (c *chk) unsettable(x int) bool { k := c.p.decls[x].kind; return k == 'U' || k == 'E' }

// varSet: the head variable x must now be Set to v; the log says whether the
// scheduled failure hit.
func (c *chk) varSet(class string, x int, v val) bool {
	if c.logged(x) {
		tok := fmt.Sprintf("S%d=%s", x, v)
		switch c.cur() {
		case tok + "+":
			c.pos++
		case tok + "!":
			c.pos++
			return false
		default:
			c.mismatch(class, tok+"+/!")
		}
	}
	c.store[x] = slot{true, v}
	return true
}

func (c *chk) varUnset(class string, x int) bool {
	if c.logged(x) {
		tok := fmt.Sprintf("X%d", x)
		switch c.cur() {
		case tok + "+":
			c.pos++
		case tok + "!":
			c.pos++
			return false
		default:
			c.mismatch(class, tok+"+/!")
		}
	}
	c.store[x] = slot{}
	return true
}

// index is vals.Index for the values in play, from its documentation: a list
// by a decimal integer (negative from the end), a map by key, a string by a
// byte offset.  Slices (a..b) are not generated.
func listIndex(n int, i string) (int, bool) {
	k, err := strconv.Atoi(i)
	if err != nil {
		return 0, false
	}
	if k < 0 {
		k += n
	}
	return k, k >= 0 && k < n
}

func index(c val, i string) (val, bool) {
	switch c.kind {
	case 'l':
		k, ok := listIndex(len(c.xs), i)
		if !ok {
			return val{}, false
		}
		return c.xs[k], true
	case 'm':
		for j, key := range c.keys {
			if key == i {
				return c.vs[j], true
			}
		}
	case 's': // (ASCII strings only are generated) one character
		k, ok := listIndex(len(c.s), i)
		if !ok {
			return val{}, false
		}
		return sv(c.s[k : k+1]), true
	}
	return val{}, false
}

// assocIn: a = (assoc $a i₁ (assoc $a[i₁] i₂ (… v))), the nested assoc of the
// documentation of element assignment.
func assocIn(c val, idx []string, v val) (val, bool) {
	inner := v
	if len(idx) > 1 {
		sub, ok := index(c, idx[0])
		if !ok {
			return val{}, false
		}
		inner, ok = assocIn(sub, idx[1:], v)
		if !ok {
			return val{}, false
		}
	}
	switch c.kind {
	case 'l':
		k, ok := listIndex(len(c.xs), idx[0])
		if !ok {
			return val{}, false
		}
		out := lv(append([]val(nil), c.xs...)...)
		out.xs[k] = inner
		return out, true
	case 'm':
		out := val{kind: 'm', keys: append([]string(nil), c.keys...), vs: append([]val(nil), c.vs...)}
		out.mapSet(idx[0], inner)
		return out, true
	case 's': // the character is replaced by a string
		k, ok := listIndex(len(c.s), idx[0])
		if !ok || inner.kind != 's' {
			return val{}, false
		}
		return sv(c.s[:k] + inner.s + c.s[k+1:]), true
	}
	return val{}, false
}

// pathOk: all indices but the last can be looked up.
func pathOk(c val, idx []string) bool {
	for _, i := range idx[:len(idx)-1] {
		sub, ok := index(c, i)
		if !ok {
			return false
		}
		c = sub
	}
	return true
}

func (c *chk) content(x int) val {
	if !c.store[x].set {
		return sv("") // an unset U / E variable reads as the empty string
	}
	return c.store[x].v
}

// doAssign follows one `lhs… = rhs…`; successful assignments push what must be
// undone onto *undo (nil for a plain set) — one entry per lvalue.
func (c *chk) doAssign(g group, undo *[]item, what string) string {
	// a bad index chain in any lvalue is reported before anything is assigned
	for _, l := range g.lvs {
		if l.elem() && !pathOk(c.content(l.x), l.idx) {
			return "elemerr"
		}
	}
	vs, fits := g.restValues()
	if !fits {
		return "arity"
	}
	if g.rest >= 0 {
		c.feat["rest lvalue "+what]++
	}
	for i, l := range g.lvs {
		it := item{kind: 'r', x: l.x, v: c.store[l.x].v}
		if !c.store[l.x].set {
			it.kind = 'u'
		}
		nv := vs[i]
		if l.elem() {
			// element assignment works on the variable's value at the time of this Set
			var ok bool
			nv, ok = assocIn(c.content(l.x), l.idx, vs[i])
			if !ok {
				return "elemerr"
			}
			c.feat["elem "+what]++
			if len(l.idx) > 1 {
				c.feat["multi-level elem "+what]++
			}
			if c.content(l.x).kind == 'm' {
				c.feat["map elem "+what]++
			}
		}
		if !c.varSet("assignment", l.x, nv) {
			return fmt.Sprintf("setfail:%d", l.x)
		}
		if undo != nil {
			*undo = append(*undo, it)
		}
	}
	return "ok"
}

// undoAll: everything on the list must now happen, last first, each once.
func (c *chk) undoAll(items []item, restoreClass string) string {
	first := "ok"
	for i := len(items) - 1; i >= 0; i-- {
		it := items[i]
		out := "ok"
		switch it.kind {
		case 'r':
			if !c.varSet(restoreClass, it.x, it.v) {
				out = fmt.Sprintf("restorefail:%d", it.x)
			}
		case 'u':
			c.feat["restore by unset"]++
			if !c.varUnset(restoreClass, it.x) {
				out = fmt.Sprintf("unsetfail:%d", it.x)
			}
		case 'c':
			out = c.call("defer-run", it.cb.k, it.cb.body, false)
		}
		if out != "ok" {
			if first == "ok" {
				first = out
			} else {
				c.feat["later clean-up failure dropped"]++
			}
		}
	}
	return first
}

func short(o string) string {
	if i := strings.IndexByte(o, ':'); i >= 0 {
		return o[:i]
	}
	return o
}

func (c *chk) call(enterClass string, k int, body []*stmt, isFn bool) string {
	g := c.next
	c.expect(enterClass, fmt.Sprintf("E%d.%d", g, k))
	c.next++
	var items []item
	out := c.stmts(g, body, &items)
	if isFn && out == "return" {
		out = "ok"
		c.feat["return caught by fn"]++
	}
	dout := c.undoAll(items, "tmp-restore")
	d := "none"
	if len(items) > 0 {
		d = "ok"
		if dout != "ok" {
			d = "fail"
		}
	}
	c.feat[fmt.Sprintf("function body=%s cleanup=%s", short(out), d)]++
	if out == "ok" {
		return dout
	}
	return out
}

func (c *chk) stmts(g int, body []*stmt, items *[]item) string {
	for _, s := range body {
		c.expect("", fmt.Sprintf("@%d.%d", g, s.k))
		out := "ok"
		switch s.op {
		case 'P':
			c.expect("observed-value", fmt.Sprintf("V%d=%s", s.x, c.store[s.x]))
		case 'A':
			if s.tmp {
				out = c.doAssign(s.groups[0], items, "tmp")
			} else {
				out = c.doAssign(s.groups[0], nil, "set")
			}
		case 'W':
			var undo []item
			for _, gr := range s.groups {
				if out = c.doAssign(gr, &undo, "with"); out != "ok" {
					break
				}
			}
			if out != "ok" {
				c.feat["with assignment-failed"]++
				c.undoAll(undo, "with-restore")
				break
			}
			bout := c.call("", s.k, s.body, false)
			rout := c.undoAll(undo, "with-restore")
			r := "ok"
			if rout != "ok" {
				r = "fail"
			}
			c.feat[fmt.Sprintf("with body=%s restores=%s", short(bout), r)]++
			out = bout
			if bout == "ok" {
				out = rout
			}
		case 'D':
			*items = append(*items, item{kind: 'c', cb: s})
		case 'F':
			out = fmt.Sprintf("fail:%d", s.n)
		case 'B':
			out = "break"
		case 'C':
			out = "continue"
		case 'R':
			out = "return"
		case 'K':
			out = c.call("", s.k, s.body, s.n == 1)
		case 'L':
		loop:
			for i := 0; i < s.n; i++ {
				switch o := c.call("loop-iteration", s.k, s.body, false); o {
				case "ok", "continue":
				case "break":
					break loop
				default:
					out = o
					break loop
				}
			}
		case 'I':
			if s.n <= 2 {
				c.feat["if body"]++
				out = c.call("", s.k, s.body, false)
			}
		case 'H':
		wloop:
			for i := 0; i < s.n; i++ {
				c.feat["while body"]++
				switch o := c.call("loop-iteration", s.k, s.body, false); o {
				case "ok", "continue":
				case "break":
					break wloop
				default:
					out = o
					break wloop
				}
			}
		case 'T':
			o := c.call("", s.k, s.body, false)
			want := fmt.Sprintf("C%d.%d:%s", g, s.k, o)
			if got := c.cur(); got != want && strings.HasPrefix(got, fmt.Sprintf("C%d.%d:", g, s.k)) {
				c.mismatch(reportClass(o, got[strings.IndexByte(got, ':')+1:]), want)
			}
			c.expect("", want)
		}
		if out != "ok" {
			return out
		}
	}
	return "ok"
}

func reportClass(want, got string) string {
	isCleanup := func(s string) bool {
		return strings.HasPrefix(s, "restorefail") || strings.HasPrefix(s, "unsetfail")
	}
	switch {
	case got == "okexc":
		return "defer-ok-exception"
	case want != "ok" && got == "ok":
		return "exception-lost"
	case want != "ok" && isCleanup(got) && !isCleanup(want):
		return "exception-masked"
	}
	return "exception-report"
}

func oracle(f []string, out string, feat map[string]int) (class, detail string) {
	p, err := parseProgram(f)
	if err != nil {
		if out != "bad-op" {
			return "bad-op-accepted", out
		}
		return "", ""
	}
	if f[0] == "acc" {
		return "", "" // the op compares the two acceptors; nothing to check on the real code
	}
	if out == "PANIC" || out == "TIMEOUT" {
		return "crash", out
	}
	parts := strings.SplitN(out, "|", 3)
	if len(parts) != 3 {
		return "bad-output", out
	}
	c := &chk{p: p, feat: feat, isCB: map[int]bool{}}
	if parts[2] != "-" {
		c.evs = strings.Fields(parts[2])
	}
	var walk func(b []*stmt)
	walk = func(b []*stmt) {
		for _, s := range b {
			if s.op == 'D' {
				c.isCB[s.k] = true
			}
			walk(s.body)
		}
	}
	walk(p.body)
	for _, d := range p.decls {
		c.store = append(c.store, d.init)
	}
	defer func() {
		if r := recover(); r != nil {
			v, ok := r.(violation)
			if !ok {
				panic(r)
			}
			class, detail = v.class, v.detail+"\n"+p.source()
		}
	}()
	want := c.call("", 0, p.body, true)
	if c.pos != len(c.evs) {
		c.mismatch("", "<end of log>")
	}
	if want != parts[0] {
		panic(violation{reportClass(want, parts[0]), fmt.Sprintf("main reported %s, expected %s", parts[0], want)})
	}
	fin := make([]string, len(c.store))
	for i, s := range c.store {
		fin[i] = s.String()
	}
	if strings.Join(fin, ",") != parts[1] {
		panic(violation{"final-store", fmt.Sprintf("final values %s, expected %s", parts[1], strings.Join(fin, ","))})
	}
	return "", ""
}
