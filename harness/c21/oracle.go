package c21

// The oracle reads the event log the real interpreter produced and checks
// C21's claims on it directly:
//
//   - with: when its body has finished (however it exited) every assignment
//     that succeeded is undone, in reverse order, each exactly once, with the
//     value the head variable had before (or Unset for a previously unset
//     unsettable variable);
//   - tmp: the same when the enclosing function finishes;
//   - defer: each registered callback starts exactly once, in reverse
//     registration order, interleaved with the tmp restores of the same
//     function, when the function finishes and before its caller goes on;
//   - reporting: the exception a function / with reports is the body's if the
//     body failed, else the first failing restore / callback in execution
//     order, else none.
//
// It is an acceptor: it walks the program and the log together, taking the
// results of the scheduled Set/Unset failures from the log, and stops at the
// first event that the claims do not allow.

import (
	"fmt"
	"strings"
)

type violation struct{ class, detail string }

type item struct {
	kind byte // 'r' restore value, 'u' unset, 'c' callback
	x    int
	v    val
	cb   *stmt
}

type chk struct {
	p     *program
	evs   []string
	pos   int
	store []slot
	next  int
	feat  map[string]int
	isCB  map[int]bool
}

func (c *chk) cur() string {
	if c.pos < len(c.evs) {
		return c.evs[c.pos]
	}
	return "<end of log>"
}

func (c *chk) mismatch(class, want string) {
	got := c.cur()
	if class == "" {
		class = "trace-shape"
		switch {
		case strings.HasPrefix(got, "S") || strings.HasPrefix(got, "X"):
			class = "stray-restore"
		case strings.HasPrefix(got, "E"):
			var g, k int
			fmt.Sscanf(got, "E%d.%d", &g, &k)
			if c.isCB[k] {
				class = "defer-run"
			}
		}
	}
	lo := c.pos - 6
	if lo < 0 {
		lo = 0
	}
	panic(violation{class, fmt.Sprintf("log position %d: expected %s, got %s (…%s)", c.pos, want, got,
		strings.Join(c.evs[lo:c.pos], " "))})
}

func (c *chk) expect(class, want string) {
	if c.cur() != want {
		c.mismatch(class, want)
	}
	c.pos++
}

func (c *chk) logged(x int) bool { k := c.p.decls[x].kind; return k == 'L' || k == 'U' }

func (c *chk) unsettable(x int) bool { k := c.p.decls[x].kind; return k == 'U' || k == 'E' }

// varSet: the head variable x must now be Set to v; the log says whether the
// scheduled failure hit.
func (c *chk) varSet(class string, x int, v val) bool {
	if c.logged(x) {
		tok := fmt.Sprintf("S%d=%s", x, v)
		switch c.cur() {
		case tok + "+":
			c.pos++
		case tok + "!":
			c.pos++
			return false
		default:
			c.mismatch(class, tok+"+/!")
		}
	}
	c.store[x] = slot{true, v}
	return true
}

func (c *chk) varUnset(class string, x int) bool {
	if c.logged(x) {
		tok := fmt.Sprintf("X%d", x)
		switch c.cur() {
		case tok + "+":
			c.pos++
		case tok + "!":
			c.pos++
			return false
		default:
			c.mismatch(class, tok+"+/!")
		}
	}
	c.store[x] = slot{}
	return true
}

// doAssign follows one `lhs… = rhs…`; successful assignments push what must be
// undone onto *undo (nil for a plain set).
func (c *chk) doAssign(g group, undo *[]item, what string) string {
	if len(g.lvs) != len(g.vals) {
		return "arity"
	}
	for i, l := range g.lvs {
		it := item{kind: 'r', x: l.x, v: c.store[l.x].v}
		if !c.store[l.x].set {
			it.kind = 'u'
		}
		nv := g.vals[i]
		if l.elem {
			// element assignment works on the variable's value at the time of this Set
			b := c.store[l.x]
			if !b.set || !b.v.list || l.i >= len(b.v.xs) {
				return "elemerr"
			}
			nv = val{list: true, xs: append([]int(nil), b.v.xs...)}
			nv.xs[l.i] = g.vals[i].n
			c.feat["elem "+what]++
		}
		if !c.varSet("assignment", l.x, nv) {
			return fmt.Sprintf("setfail:%d", l.x)
		}
		if undo != nil {
			*undo = append(*undo, it)
		}
	}
	return "ok"
}

// undoAll: everything on the list must now happen, last first, each once.
func (c *chk) undoAll(items []item, restoreClass string) string {
	first := "ok"
	for i := len(items) - 1; i >= 0; i-- {
		it := items[i]
		out := "ok"
		switch it.kind {
		case 'r':
			if !c.varSet(restoreClass, it.x, it.v) {
				out = fmt.Sprintf("restorefail:%d", it.x)
			}
		case 'u':
			c.feat["restore by unset"]++
			if !c.varUnset(restoreClass, it.x) {
				out = fmt.Sprintf("unsetfail:%d", it.x)
			}
		case 'c':
			out = c.call("defer-run", it.cb.k, it.cb.body, false)
		}
		if out != "ok" {
			if first == "ok" {
				first = out
			} else {
				c.feat["later clean-up failure dropped"]++
			}
		}
	}
	return first
}

func short(o string) string {
	if i := strings.IndexByte(o, ':'); i >= 0 {
		return o[:i]
	}
	return o
}

func (c *chk) call(enterClass string, k int, body []*stmt, isFn bool) string {
	g := c.next
	c.expect(enterClass, fmt.Sprintf("E%d.%d", g, k))
	c.next++
	var items []item
	out := c.stmts(g, body, &items)
	if isFn && out == "return" {
		out = "ok"
		c.feat["return caught by fn"]++
	}
	dout := c.undoAll(items, "tmp-restore")
	d := "none"
	if len(items) > 0 {
		d = "ok"
		if dout != "ok" {
			d = "fail"
		}
	}
	c.feat[fmt.Sprintf("function body=%s cleanup=%s", short(out), d)]++
	if out == "ok" {
		return dout
	}
	return out
}

func (c *chk) stmts(g int, body []*stmt, items *[]item) string {
	for _, s := range body {
		c.expect("", fmt.Sprintf("@%d.%d", g, s.k))
		out := "ok"
		switch s.op {
		case 'P':
			c.expect("observed-value", fmt.Sprintf("V%d=%s", s.x, c.store[s.x]))
		case 'A':
			if s.tmp {
				out = c.doAssign(s.groups[0], items, "tmp")
			} else {
				out = c.doAssign(s.groups[0], nil, "set")
			}
		case 'W':
			var undo []item
			for _, gr := range s.groups {
				if out = c.doAssign(gr, &undo, "with"); out != "ok" {
					break
				}
			}
			if out != "ok" {
				c.feat["with assignment-failed"]++
				c.undoAll(undo, "with-restore")
				break
			}
			bout := c.call("", s.k, s.body, false)
			rout := c.undoAll(undo, "with-restore")
			r := "ok"
			if rout != "ok" {
				r = "fail"
			}
			c.feat[fmt.Sprintf("with body=%s restores=%s", short(bout), r)]++
			out = bout
			if bout == "ok" {
				out = rout
			}
		case 'D':
			*items = append(*items, item{kind: 'c', cb: s})
		case 'F':
			out = fmt.Sprintf("fail:%d", s.n)
		case 'B':
			out = "break"
		case 'C':
			out = "continue"
		case 'R':
			out = "return"
		case 'K':
			out = c.call("", s.k, s.body, s.n == 1)
		case 'L':
		loop:
			for i := 0; i < s.n; i++ {
				switch o := c.call("loop-iteration", s.k, s.body, false); o {
				case "ok", "continue":
				case "break":
					break loop
				default:
					out = o
					break loop
				}
			}
		case 'T':
			o := c.call("", s.k, s.body, false)
			want := fmt.Sprintf("C%d.%d:%s", g, s.k, o)
			if got := c.cur(); got != want && strings.HasPrefix(got, fmt.Sprintf("C%d.%d:", g, s.k)) {
				c.mismatch(reportClass(o, got[strings.IndexByte(got, ':')+1:]), want)
			}
			c.expect("", want)
		}
		if out != "ok" {
			return out
		}
	}
	return "ok"
}

func reportClass(want, got string) string {
	isCleanup := func(s string) bool {
		return strings.HasPrefix(s, "restorefail") || strings.HasPrefix(s, "unsetfail")
	}
	switch {
	case got == "okexc":
		return "defer-ok-exception"
	case want != "ok" && got == "ok":
		return "exception-lost"
	case want != "ok" && isCleanup(got) && !isCleanup(want):
		return "exception-masked"
	}
	return "exception-report"
}

func oracle(f []string, out string, feat map[string]int) (class, detail string) {
	p, err := parseProgram(f)
	if err != nil {
		if out != "bad-op" {
			return "bad-op-accepted", out
		}
		return "", ""
	}
	if out == "PANIC" || out == "TIMEOUT" {
		return "crash", out
	}
	parts := strings.SplitN(out, "|", 3)
	if len(parts) != 3 {
		return "bad-output", out
	}
	c := &chk{p: p, feat: feat, isCB: map[int]bool{}}
	if parts[2] != "-" {
		c.evs = strings.Fields(parts[2])
	}
	var walk func(b []*stmt)
	walk = func(b []*stmt) {
		for _, s := range b {
			if s.op == 'D' {
				c.isCB[s.k] = true
			}
			walk(s.body)
		}
	}
	walk(p.body)
	for _, d := range p.decls {
		c.store = append(c.store, d.init)
	}
	defer func() {
		if r := recover(); r != nil {
			v, ok := r.(violation)
			if !ok {
				panic(r)
			}
			class, detail = v.class, v.detail+"\n"+p.source()
		}
	}()
	want := c.call("", 0, p.body, true)
	if c.pos != len(c.evs) {
		c.mismatch("", "<end of log>")
	}
	if want != parts[0] {
		panic(violation{reportClass(want, parts[0]), fmt.Sprintf("main reported %s, expected %s", parts[0], want)})
	}
	fin := make([]string, len(c.store))
	for i, s := range c.store {
		fin[i] = s.String()
	}
	if strings.Join(fin, ",") != parts[1] {
		panic(violation{"final-store", fmt.Sprintf("final values %s, expected %s", parts[1], strings.Join(fin, ","))})
	}
	return "", ""
}
