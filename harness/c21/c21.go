// Package c21: correspondence and oracle for C21 (tmp / with / defer restore
// and clean up on every exit path).
package c21

import (
	"fmt"
	"strconv"
	"strings"

	"verifharness/common"
)

func init() { common.Register("C21", run) }

type gen struct {
	r     *common.Rand
	decls []varDecl
	k     int
}

func (g *gen) id() int { g.k++; return g.k }

func (g *gen) scalar() val { return nv(g.r.Range(0, 9)) }

func (g *gen) listVal() val {
	v := lv()
	for n := g.r.Range(0, 3); n > 0; n-- {
		v.xs = append(v.xs, g.scalar())
	}
	return v
}

var mapKeys = []string{"a", "b", "c"}

// value: a scalar, a list or a map, nested up to `depth`.
func (g *gen) value(depth int) val {
	c := g.r.Intn(10)
	switch {
	case depth == 0 || c < 4:
		if g.r.Chance(1, 6) {
			return sv(mapKeys[g.r.Intn(3)] + strconv.Itoa(g.r.Range(10, 99)))
		}
		return g.scalar()
	case c < 8:
		v := lv()
		for n := g.r.Range(0, 3); n > 0; n-- {
			v.xs = append(v.xs, g.value(depth-1))
		}
		return v
	}
	v := val{kind: 'm'}
	for n := g.r.Range(0, 3); n > 0; n-- {
		v.mapSet(mapKeys[g.r.Intn(3)], g.value(depth-1))
	}
	return v
}

func (g *gen) decl() varDecl {
	kind := "LLLUUEO"[g.r.Intn(7)]
	var init slot
	shape := g.r.Intn(6) // 0-2 scalar, 3 flat list, 4-5 nested value
	if kind == 'E' {
		shape = 0
	}
	if (kind == 'U' || kind == 'E') && g.r.Chance(1, 2) {
		// starts unset
	} else if shape == 3 {
		init = slot{true, g.listVal()}
		if len(init.v.xs) == 0 {
			init.v.xs = []val{g.scalar()}
		}
	} else if shape >= 4 {
		v := g.value(2)
		if v.kind == 's' {
			v = lv(g.value(1), g.value(1))
		}
		init = slot{true, v}
	} else {
		init = slot{true, g.scalar()}
	}
	var mask uint
	if kind == 'L' || kind == 'U' {
		switch g.r.Intn(4) {
		case 0: // never fails
		case 1: // one failing call among the first six
			mask = 1 << uint(g.r.Intn(6))
		case 2:
			mask = uint(g.r.Intn(256))
		case 3:
			mask = uint(g.r.Intn(1<<12)) & uint(g.r.Intn(1<<12))
		}
	}
	return declFor(kind, init, mask)
}

// path: an index path into v that mostly exists (so that multi-level and map
// element assignments usually succeed), sometimes leaving it.
func (g *gen) path(v val) []string {
	var idx []string
	for {
		switch {
		case g.r.Chance(1, 8) || v.kind == 's' && len(idx) > 0:
			idx = append(idx, []string{"0", "1", "5", "-1", "a", "zz"}[g.r.Intn(6)])
			return idx
		case v.kind == 'l' && len(v.xs) > 0:
			k := g.r.Intn(len(v.xs))
			if g.r.Chance(1, 5) {
				idx = append(idx, strconv.Itoa(k-len(v.xs)))
			} else {
				idx = append(idx, strconv.Itoa(k))
			}
			v = v.xs[k]
		case v.kind == 'm' && len(v.keys) > 0 && g.r.Chance(3, 4):
			k := g.r.Intn(len(v.keys))
			idx = append(idx, v.keys[k])
			v = v.vs[k]
		case v.kind == 'm':
			idx = append(idx, mapKeys[g.r.Intn(3)])
			return idx
		default:
			idx = append(idx, strconv.Itoa(g.r.Range(0, 3)))
			return idx
		}
		if len(idx) >= 3 || g.r.Chance(1, 2) {
			return idx
		}
	}
}

func (g *gen) group() group {
	gr := group{rest: -1}
	n := 1
	if g.r.Chance(1, 4) {
		n = g.r.Range(2, 3)
	}
	for i := 0; i < n; i++ {
		x := g.r.Intn(len(g.decls))
		d := g.decls[x]
		isEnv := d.kind == 'E'
		container := d.init.set && d.init.v.kind != 's'
		switch {
		case !isEnv && (container && g.r.Chance(1, 2) || g.r.Chance(1, 12)):
			cur := sv("")
			if d.init.set {
				cur = d.init.v
			}
			gr.lvs = append(gr.lvs, lval{x: x, idx: g.path(cur)})
			if g.r.Chance(1, 4) {
				gr.vals = append(gr.vals, g.value(1))
			} else {
				gr.vals = append(gr.vals, g.scalar())
			}
		default:
			gr.lvs = append(gr.lvs, lval{x: x})
			switch {
			case isEnv || !container && g.r.Chance(5, 6):
				gr.vals = append(gr.vals, g.scalar())
			case d.init.set && d.init.v.flat():
				gr.vals = append(gr.vals, g.listVal())
			default:
				gr.vals = append(gr.vals, g.value(2))
			}
		}
	}
	if g.r.Chance(1, 6) { // a rest lvalue, with 0–3 values for it
		var cand []int
		for i, l := range gr.lvs {
			if g.decls[l.x].kind != 'E' {
				cand = append(cand, i)
			}
		}
		if len(cand) > 0 {
			gr.rest = cand[g.r.Intn(len(cand))]
			extra := g.r.Range(-1, 2)
			var vs []val
			vs = append(vs, gr.vals[:gr.rest]...)
			for j := 0; j < 1+extra; j++ {
				vs = append(vs, g.scalar())
			}
			vs = append(vs, gr.vals[gr.rest+1:]...)
			gr.vals = vs
		}
	}
	if g.r.Chance(1, 25) { // arity mismatch
		if g.r.Bool() && len(gr.vals) > 0 {
			gr.vals = gr.vals[:len(gr.vals)-1]
		} else {
			gr.vals = append(gr.vals, g.scalar())
		}
	}
	return gr
}

// block generates a function body.  inLoop biases towards break/continue.
func (g *gen) block(depth int, budget *int) []*stmt {
	var out []*stmt
	n := g.r.Range(1, 5)
	for i := 0; i < n && *budget > 0; i++ {
		*budget--
		s := &stmt{k: g.id()}
		c := g.r.Intn(100)
		nest := depth < 4
		switch {
		case c < 8:
			s.op = 'M'
		case c < 18:
			s.op, s.x = 'P', g.r.Intn(len(g.decls))
		case c < 34:
			s.op, s.tmp, s.groups = 'A', true, []group{g.group()}
		case c < 40:
			s.op, s.groups = 'A', []group{g.group()}
		case c < 52 && nest:
			s.op = 'W'
			for m := g.r.Range(1, 3); m > 0; m-- {
				s.groups = append(s.groups, g.group())
				if g.r.Chance(2, 3) {
					break
				}
			}
			s.body = g.block(depth+1, budget)
		case c < 66 && nest:
			s.op = 'D'
			s.body = g.block(depth+1, budget)
		case c < 72:
			s.op, s.n = 'F', g.r.Range(0, 9)
		case c < 75:
			s.op = 'B'
		case c < 78:
			s.op = 'C'
		case c < 81:
			s.op = 'R'
		case c < 87 && nest:
			s.op, s.n = 'K', g.r.Intn(2)
			s.body = g.block(depth+1, budget)
		case c < 91 && nest:
			s.op, s.n = 'L', g.r.Range(0, 3)
			s.body = g.block(depth+1, budget)
		case c < 93 && nest:
			s.op, s.n = 'H', g.r.Range(0, 3)
			s.body = g.block(depth+1, budget)
		case c < 96 && nest:
			s.op, s.n = 'I', g.r.Intn(4)
			s.body = g.block(depth+1, budget)
		case nest:
			s.op = 'T'
			s.body = g.block(depth+1, budget)
		default:
			s.op = 'M'
		}
		out = append(out, s)
		if strings.ContainsRune("FBCR", rune(s.op)) && g.r.Chance(3, 4) {
			break // statements after an unconditional exit are dead; keep a few
		}
	}
	return out
}

func (g *gen) program(size int) *program {
	g.k = 0
	g.decls = nil
	for n := g.r.Range(1, 4); n > 0; n-- {
		g.decls = append(g.decls, g.decl())
	}
	budget := size
	return &program{g.decls, g.block(0, &budget)}
}

func run(c *common.Ctx) error {
	feat := map[string]int{}
	c.Extra["features"] = feat
	s := &common.Std{
		Rule: "random programs over 1–4 variables (logged/failing, unsettable, real E:, ordinary; strings, nested lists, maps) whose function bodies nest " +
			"tmp/with/defer/call/for/while/if/try up to depth 5 and leave by every exit path; lvalues are variables, multi-level elements of lists/maps/strings, " +
			"rest lvalues; Set/Unset failures scheduled per call index; plus `acc` ops: the Lean acceptor against the Go oracle on real and damaged logs; " +
			"non-trivial = at least one tmp, with or defer executed; distinct by op line",
		Gen: func(c *common.Ctx, emit func(...string)) {
			g := &gen{r: c.Rand}
			n := c.Scale(5000, 200000)
			for i := 0; i < n; i++ {
				size := 6
				switch {
				case i%3 == 1:
					size = 14
				case i%3 == 2:
					size = 30
				}
				p := g.program(size)
				emit(p.fields()...)
				if i%5 == 0 {
					// the two acceptors (Go oracle, Lean Spec.accepts) on the real log and on a damaged one
					f := p.fields()
					out := execute(p).line()
					emit("acc", f[1], f[2], out)
					if bad := damage(c.Rand, out); bad != out {
						emit("acc", f[1], f[2], bad)
					}
				}
			}
		},
		Impl: func(x any, f []string) string {
			if len(f) == 4 && f[0] == "acc" {
				return implAcc(f)
			}
			return impl(x, f)
		},
		Oracle: func(_ any, f []string, out string) (string, string) {
			return oracle(f, out, feat)
		},
		Tag: tag,
	}
	return s.Run(c)
}

// tag: how the top-level function ended and whether its clean-up failed.
func tag(f []string, out string) string {
	if f[0] == "acc" {
		return "acc " + out
	}
	if out == "bad-op" || out == "PANIC" || out == "TIMEOUT" {
		return out
	}
	if !strings.ContainsAny(f[2], "ADW") {
		return ""
	}
	p := strings.SplitN(out, "|", 3)
	o := p[0]
	if i := strings.IndexByte(o, ':'); i >= 0 {
		o = o[:i]
	}
	t := "main=" + o
	if len(p) == 3 {
		switch {
		case strings.Contains(p[2], "!"):
			t += ",set-failure"
		}
	}
	return t
}

// implAcc: the Go oracle's verdict on a given output text.
func implAcc(f []string) string {
	if _, err := parseProgram(f[:3]); err != nil {
		return "bad-op"
	}
	cls, _ := oracle([]string{"run", f[1], f[2]}, f[3], map[string]int{})
	if cls == "" {
		return "accept"
	}
	return "reject"
}

// damage: one small change of a run's text — drop / double / swap log entries,
// flip a Set result, change a value, the outcome or the final store.
func damage(r *common.Rand, out string) string {
	parts := strings.SplitN(out, "|", 3)
	if len(parts) != 3 {
		return out
	}
	evs := strings.Fields(parts[2])
	if parts[2] == "-" {
		evs = nil
	}
	switch c := r.Intn(8); {
	case c == 0:
		if parts[0] == "ok" {
			parts[0] = "fail:1"
		} else {
			parts[0] = "ok"
		}
	case c == 1:
		parts[1] += "9"
	case len(evs) == 0:
		evs = append(evs, "@0.1")
	case c == 2:
		i := r.Intn(len(evs))
		evs = append(evs[:i:i], evs[i+1:]...)
	case c == 3:
		i := r.Intn(len(evs))
		evs = append(evs[:i+1:i+1], evs[i:]...)
	case c == 4 && len(evs) > 1:
		i := r.Intn(len(evs) - 1)
		evs[i], evs[i+1] = evs[i+1], evs[i]
	case c == 5:
		i := r.Intn(len(evs))
		switch {
		case strings.HasSuffix(evs[i], "+"):
			evs[i] = evs[i][:len(evs[i])-1] + "!"
		case strings.HasSuffix(evs[i], "!"):
			evs[i] = evs[i][:len(evs[i])-1] + "+"
		default:
			evs[i] += "1"
		}
	default:
		// drop the last Set/Unset of the log (a missing restore)
		for i := len(evs) - 1; i >= 0; i-- {
			if evs[i][0] == 'S' || evs[i][0] == 'X' {
				evs = append(evs[:i:i], evs[i+1:]...)
				break
			}
		}
	}
	parts[2] = strings.Join(evs, " ")
	if len(evs) == 0 {
		parts[2] = "-"
	}
	return strings.Join(parts, "|")
}

var _ = fmt.Sprint
