// Package c21: correspondence and oracle for C21 (tmp / with / defer restore
// and clean up on every exit path).
package c21

import (
	"fmt"
	"strings"

	"verifharness/common"
)

func init() { common.Register("C21", run) }

type gen struct {
	r     *common.Rand
	decls []varDecl
	k     int
}

func (g *gen) id() int { g.k++; return g.k }

func (g *gen) scalar() val { return val{n: g.r.Range(0, 9)} }

func (g *gen) listVal() val {
	v := val{list: true}
	for n := g.r.Range(0, 3); n > 0; n-- {
		v.xs = append(v.xs, g.r.Range(0, 9))
	}
	return v
}

func (g *gen) decl() varDecl {
	d := varDecl{kind: "LLLUUEO"[g.r.Intn(7)]}
	if d.kind != 'E' {
		d.list = g.r.Chance(1, 3)
	}
	if (d.kind == 'U' || d.kind == 'E') && g.r.Chance(1, 2) {
		// starts unset
	} else if d.list {
		d.init = slot{true, g.listVal()}
		if len(d.init.v.xs) == 0 {
			d.init.v.xs = []int{g.r.Range(0, 9)}
		}
	} else {
		d.init = slot{true, g.scalar()}
	}
	if d.kind == 'L' || d.kind == 'U' {
		switch g.r.Intn(4) {
		case 0: // never fails
		case 1: // one failing call among the first six
			d.mask = 1 << uint(g.r.Intn(6))
		case 2:
			d.mask = uint(g.r.Intn(256))
		case 3:
			d.mask = uint(g.r.Intn(1<<12)) & uint(g.r.Intn(1<<12))
		}
	}
	return d
}

func (g *gen) group() group {
	var gr group
	n := 1
	if g.r.Chance(1, 4) {
		n = g.r.Range(2, 3)
	}
	for i := 0; i < n; i++ {
		x := g.r.Intn(len(g.decls))
		d := g.decls[x]
		if d.list && g.r.Chance(1, 2) {
			gr.lvs = append(gr.lvs, lval{x: x, elem: true, i: g.r.Range(0, 3)})
			gr.vals = append(gr.vals, g.scalar())
		} else {
			gr.lvs = append(gr.lvs, lval{x: x})
			if d.list {
				gr.vals = append(gr.vals, g.listVal())
			} else {
				gr.vals = append(gr.vals, g.scalar())
			}
		}
	}
	if g.r.Chance(1, 25) { // arity mismatch
		if g.r.Bool() {
			gr.vals = gr.vals[:len(gr.vals)-1]
		} else {
			gr.vals = append(gr.vals, g.scalar())
		}
	}
	return gr
}

// block generates a function body.  inLoop biases towards break/continue.
func (g *gen) block(depth int, budget *int) []*stmt {
	var out []*stmt
	n := g.r.Range(1, 5)
	for i := 0; i < n && *budget > 0; i++ {
		*budget--
		s := &stmt{k: g.id()}
		c := g.r.Intn(100)
		nest := depth < 4
		switch {
		case c < 8:
			s.op = 'M'
		case c < 18:
			s.op, s.x = 'P', g.r.Intn(len(g.decls))
		case c < 34:
			s.op, s.tmp, s.groups = 'A', true, []group{g.group()}
		case c < 40:
			s.op, s.groups = 'A', []group{g.group()}
		case c < 52 && nest:
			s.op = 'W'
			for m := g.r.Range(1, 3); m > 0; m-- {
				s.groups = append(s.groups, g.group())
				if g.r.Chance(2, 3) {
					break
				}
			}
			s.body = g.block(depth+1, budget)
		case c < 66 && nest:
			s.op = 'D'
			s.body = g.block(depth+1, budget)
		case c < 72:
			s.op, s.n = 'F', g.r.Range(0, 9)
		case c < 75:
			s.op = 'B'
		case c < 78:
			s.op = 'C'
		case c < 81:
			s.op = 'R'
		case c < 88 && nest:
			s.op, s.n = 'K', g.r.Intn(2)
			s.body = g.block(depth+1, budget)
		case c < 94 && nest:
			s.op, s.n = 'L', g.r.Range(0, 3)
			s.body = g.block(depth+1, budget)
		case nest:
			s.op = 'T'
			s.body = g.block(depth+1, budget)
		default:
			s.op = 'M'
		}
		out = append(out, s)
		if strings.ContainsRune("FBCR", rune(s.op)) && g.r.Chance(3, 4) {
			break // statements after an unconditional exit are dead; keep a few
		}
	}
	return out
}

func (g *gen) program(size int) *program {
	g.k = 0
	g.decls = nil
	for n := g.r.Range(1, 4); n > 0; n-- {
		g.decls = append(g.decls, g.decl())
	}
	budget := size
	return &program{g.decls, g.block(0, &budget)}
}

func run(c *common.Ctx) error {
	feat := map[string]int{}
	c.Extra["features"] = feat
	s := &common.Std{
		Rule: "random programs over 1–4 variables (logged/failing, unsettable, real E:, ordinary) whose function bodies nest " +
			"tmp/with/defer/call/for/try up to depth 5 and leave by every exit path; Set/Unset failures scheduled per call index; " +
			"non-trivial = at least one tmp, with or defer executed; distinct by op line",
		Gen: func(c *common.Ctx, emit func(...string)) {
			g := &gen{r: c.Rand}
			n := c.Scale(5000, 200000)
			for i := 0; i < n; i++ {
				size := 6
				switch {
				case i%3 == 1:
					size = 14
				case i%3 == 2:
					size = 30
				}
				emit(g.program(size).fields()...)
			}
		},
		Impl: impl,
		Oracle: func(_ any, f []string, out string) (string, string) {
			return oracle(f, out, feat)
		},
		Tag: tag,
	}
	return s.Run(c)
}

// tag: how the top-level function ended and whether its clean-up failed.
func tag(f []string, out string) string {
	if out == "bad-op" || out == "PANIC" || out == "TIMEOUT" {
		return out
	}
	if !strings.ContainsAny(f[2], "ADW") {
		return ""
	}
	p := strings.SplitN(out, "|", 3)
	o := p[0]
	if i := strings.IndexByte(o, ':'); i >= 0 {
		o = o[:i]
	}
	t := "main=" + o
	if len(p) == 3 {
		switch {
		case strings.Contains(p[2], "!"):
			t += ",set-failure"
		}
	}
	return t
}

var _ = fmt.Sprint
