package c21

// Program representation shared by generator, implementation runner and
// oracle: a tiny language of function bodies nesting tmp / with / defer with
// every exit path.  The op line carries it as a token stream; the Lean driver
// parses the same tokens.

import (
	"fmt"
	"strconv"
	"strings"
)

// val is a scalar (decimal string in elvish) or a list of scalars.
type val struct {
	list bool
	n    int
	xs   []int
}

func (v val) String() string {
	if !v.list {
		return strconv.Itoa(v.n)
	}
	if len(v.xs) == 0 {
		return "e"
	}
	p := make([]string, len(v.xs))
	for i, x := range v.xs {
		p[i] = strconv.Itoa(x)
	}
	return strings.Join(p, ".")
}

func (v val) elvish() string {
	if !v.list {
		return strconv.Itoa(v.n)
	}
	p := make([]string, len(v.xs))
	for i, x := range v.xs {
		p[i] = strconv.Itoa(x)
	}
	return "[" + strings.Join(p, " ") + "]"
}

func (v val) eq(w val) bool { return v.String() == w.String() && v.list == w.list }

func parseVal(list bool, s string) (val, error) {
	if !list {
		n, err := strconv.Atoi(s)
		return val{n: n}, err
	}
	v := val{list: true}
	if s == "e" {
		return v, nil
	}
	for _, p := range strings.Split(s, ".") {
		n, err := strconv.Atoi(p)
		if err != nil {
			return v, err
		}
		v.xs = append(v.xs, n)
	}
	return v, nil
}

// slot is a variable's content: unset (only U and E kinds) or a value.
type slot struct {
	set bool
	v   val
}

func (s slot) String() string {
	if !s.set {
		return "-"
	}
	return s.v.String()
}

// varDecl declares one variable of the program's universe.
//
//	L  harness variable, every Set is logged and may fail (bit i of mask = the i-th call fails)
//	U  like L but also implements vars.UnsettableVar (Unset / IsSet); Unset calls share the counter
//	E  a real environment variable E:C21_<x> (unlogged, never fails)
//	O  an ordinary elvish variable declared with `var` (unlogged, never fails)
type varDecl struct {
	kind byte
	list bool
	init slot
	mask uint
}

func (d varDecl) String() string {
	t := "s"
	if d.list {
		t = "l"
	}
	return fmt.Sprintf("%c:%s:%s:%d", d.kind, t, d.init, d.mask)
}

func varName(decls []varDecl, x int) string {
	switch decls[x].kind {
	case 'L':
		return fmt.Sprintf("l%d", x)
	case 'U':
		return fmt.Sprintf("u%d", x)
	case 'E':
		return fmt.Sprintf("E:C21_%d", x)
	}
	return fmt.Sprintf("o%d", x)
}

func parseDecls(s string) ([]varDecl, error) {
	var out []varDecl
	for _, e := range strings.Split(s, ",") {
		p := strings.Split(e, ":")
		if len(p) != 4 || len(p[0]) != 1 || !strings.Contains("LUEO", p[0]) {
			return nil, fmt.Errorf("bad decl %q", e)
		}
		d := varDecl{kind: p[0][0], list: p[1] == "l"}
		if p[2] != "-" {
			v, err := parseVal(d.list, p[2])
			if err != nil {
				return nil, err
			}
			d.init = slot{true, v}
		}
		m, err := strconv.Atoi(p[3])
		if err != nil {
			return nil, err
		}
		d.mask = uint(m)
		// only unsettable variables can start unset; environment variables hold strings
		if !d.init.set && (d.kind == 'L' || d.kind == 'O') || d.list && d.kind == 'E' {
			return nil, fmt.Errorf("bad decl %q", e)
		}
		out = append(out, d)
	}
	return out, nil
}

type lval struct {
	x    int
	elem bool
	i    int
}

type group struct {
	lvs  []lval
	vals []val
}

// stmt: op is one of
//
//	M mark            P peek x          A assignment (tmp or set)
//	W with            D defer           F fail n     B break  C continue  R return
//	K call (n=1: through `fn`, n=0: lambda)          L for (n iterations)   T try
type stmt struct {
	op     byte
	k      int
	x      int
	tmp    bool
	groups []group
	n      int
	body   []*stmt
}

func (g group) tokens(out *[]string) {
	*out = append(*out, strconv.Itoa(len(g.lvs)))
	for _, l := range g.lvs {
		if l.elem {
			*out = append(*out, "e", strconv.Itoa(l.x), strconv.Itoa(l.i))
		} else {
			*out = append(*out, "v", strconv.Itoa(l.x))
		}
	}
	*out = append(*out, strconv.Itoa(len(g.vals)))
	for _, v := range g.vals {
		if v.list {
			*out = append(*out, "l", strconv.Itoa(len(v.xs)))
			for _, x := range v.xs {
				*out = append(*out, strconv.Itoa(x))
			}
		} else {
			*out = append(*out, "n", strconv.Itoa(v.n))
		}
	}
}

func blockTokens(body []*stmt, out *[]string) {
	*out = append(*out, strconv.Itoa(len(body)))
	for _, s := range body {
		s.tokens(out)
	}
}

func (s *stmt) tokens(out *[]string) {
	*out = append(*out, string(s.op), strconv.Itoa(s.k))
	switch s.op {
	case 'P':
		*out = append(*out, strconv.Itoa(s.x))
	case 'A':
		if s.tmp {
			*out = append(*out, "t")
		} else {
			*out = append(*out, "s")
		}
		s.groups[0].tokens(out)
	case 'W':
		*out = append(*out, strconv.Itoa(len(s.groups)))
		for _, g := range s.groups {
			g.tokens(out)
		}
		blockTokens(s.body, out)
	case 'D', 'T':
		blockTokens(s.body, out)
	case 'F':
		*out = append(*out, strconv.Itoa(s.n))
	case 'K', 'L':
		*out = append(*out, strconv.Itoa(s.n))
		blockTokens(s.body, out)
	}
}

type tokReader struct {
	t   []string
	pos int
	err error
}

func (r *tokReader) next() string {
	if r.pos >= len(r.t) {
		r.err = fmt.Errorf("unexpected end of tokens")
		return ""
	}
	r.pos++
	return r.t[r.pos-1]
}

func (r *tokReader) int() int {
	s := r.next()
	n, err := strconv.Atoi(s)
	if err != nil && r.err == nil {
		r.err = err
	}
	if n < 0 || n > 1000 {
		if r.err == nil {
			r.err = fmt.Errorf("number out of range")
		}
		return 0
	}
	return n
}

func (r *tokReader) group() group {
	var g group
	for n := r.int(); n > 0 && r.err == nil; n-- {
		switch r.next() {
		case "v":
			g.lvs = append(g.lvs, lval{x: r.int()})
		case "e":
			x := r.int()
			g.lvs = append(g.lvs, lval{x: x, elem: true, i: r.int()})
		default:
			r.err = fmt.Errorf("bad lvalue")
		}
	}
	for n := r.int(); n > 0 && r.err == nil; n-- {
		switch r.next() {
		case "n":
			g.vals = append(g.vals, val{n: r.int()})
		case "l":
			v := val{list: true}
			for m := r.int(); m > 0 && r.err == nil; m-- {
				v.xs = append(v.xs, r.int())
			}
			g.vals = append(g.vals, v)
		default:
			r.err = fmt.Errorf("bad value")
		}
	}
	return g
}

func (r *tokReader) block() []*stmt {
	var out []*stmt
	for n := r.int(); n > 0 && r.err == nil; n-- {
		out = append(out, r.stmt())
	}
	return out
}

func (r *tokReader) stmt() *stmt {
	op := r.next()
	if len(op) != 1 {
		r.err = fmt.Errorf("bad op %q", op)
		return &stmt{op: 'M'}
	}
	s := &stmt{op: op[0], k: r.int()}
	switch s.op {
	case 'M', 'B', 'C', 'R':
	case 'P':
		s.x = r.int()
	case 'A':
		s.tmp = r.next() == "t"
		s.groups = []group{r.group()}
	case 'W':
		for n := r.int(); n > 0 && r.err == nil; n-- {
			s.groups = append(s.groups, r.group())
		}
		s.body = r.block()
	case 'D', 'T':
		s.body = r.block()
	case 'F':
		s.n = r.int()
	case 'K', 'L':
		s.n = r.int()
		s.body = r.block()
	default:
		r.err = fmt.Errorf("bad op %q", op)
	}
	return s
}

type program struct {
	decls []varDecl
	body  []*stmt
}

func (p *program) fields() []string {
	d := make([]string, len(p.decls))
	for i, x := range p.decls {
		d[i] = x.String()
	}
	var toks []string
	blockTokens(p.body, &toks)
	return []string{"run", strings.Join(d, ","), strings.Join(toks, " ")}
}

// wellTyped mirrors the Lean driver's check: scalar variables only get
// scalars, list variables only lists, element assignment only on list
// variables and only with scalar values.  (Elvish itself is untyped; the
// restriction keeps string-splicing element assignment out of the model.)
func (p *program) wellTyped() bool {
	ok := true
	var walk func(b []*stmt)
	chk := func(g group) {
		for _, l := range g.lvs {
			if l.x >= len(p.decls) || (l.elem && !p.decls[l.x].list) {
				ok = false
			}
		}
		if len(g.lvs) == len(g.vals) && ok {
			for i, l := range g.lvs {
				if l.elem && g.vals[i].list || !l.elem && g.vals[i].list != p.decls[l.x].list {
					ok = false
				}
			}
		}
	}
	walk = func(b []*stmt) {
		for _, s := range b {
			if s.op == 'P' && s.x >= len(p.decls) {
				ok = false
			}
			for _, g := range s.groups {
				chk(g)
			}
			walk(s.body)
		}
	}
	walk(p.body)
	return ok
}

func parseProgram(f []string) (*program, error) {
	if len(f) != 3 || f[0] != "run" {
		return nil, fmt.Errorf("bad op")
	}
	d, err := parseDecls(f[1])
	if err != nil {
		return nil, err
	}
	r := &tokReader{t: strings.Fields(f[2])}
	body := r.block()
	if r.err != nil {
		return nil, r.err
	}
	if r.pos != len(r.t) {
		return nil, fmt.Errorf("trailing tokens")
	}
	p := &program{d, body}
	if !p.wellTyped() {
		return nil, fmt.Errorf("ill-typed")
	}
	return p, nil
}

// ---- elvish source ---------------------------------------------------------

func (p *program) lvText(l lval) string {
	n := varName(p.decls, l.x)
	if l.elem {
		return fmt.Sprintf("%s[%d]", n, l.i)
	}
	return n
}

func (p *program) groupText(g group) string {
	var sb strings.Builder
	for _, l := range g.lvs {
		sb.WriteString(p.lvText(l))
		sb.WriteByte(' ')
	}
	sb.WriteByte('=')
	for _, v := range g.vals {
		sb.WriteByte(' ')
		sb.WriteString(v.elvish())
	}
	return sb.String()
}

// emitBlock writes the inside of a lambda: the frame announces itself with
// `enter`, which hands out the dynamic frame id used by the `at` events.
func (p *program) emitBlock(sb *strings.Builder, body []*stmt, k, d int) {
	ind := strings.Repeat("  ", d+1)
	fmt.Fprintf(sb, "%svar f%d = (enter %d)\n", ind, d, k)
	for _, s := range body {
		fv := fmt.Sprintf("$f%d", d)
		if s.op == 'P' {
			fmt.Fprintf(sb, "%speek %s %d %d\n", ind, fv, s.k, s.x)
			continue
		}
		fmt.Fprintf(sb, "%sat %s %d\n", ind, fv, s.k)
		switch s.op {
		case 'A':
			kw := "set"
			if s.tmp {
				kw = "tmp"
			}
			fmt.Fprintf(sb, "%s%s %s\n", ind, kw, p.groupText(s.groups[0]))
		case 'W':
			if len(s.groups) == 1 && s.k%2 == 0 && len(s.groups[0].lvs) > 0 && !s.groups[0].lvs[0].elem {
				// (the unbracketed form rejects an element as its first lvalue at compile time)
				fmt.Fprintf(sb, "%swith %s {\n", ind, p.groupText(s.groups[0]))
			} else {
				fmt.Fprintf(sb, "%swith", ind)
				for _, g := range s.groups {
					fmt.Fprintf(sb, " [%s]", p.groupText(g))
				}
				sb.WriteString(" {\n")
			}
			p.emitBlock(sb, s.body, s.k, d+1)
			fmt.Fprintf(sb, "%s}\n", ind)
		case 'D':
			fmt.Fprintf(sb, "%sdefer {\n", ind)
			p.emitBlock(sb, s.body, s.k, d+1)
			fmt.Fprintf(sb, "%s}\n", ind)
		case 'F':
			fmt.Fprintf(sb, "%sfail %d\n", ind, s.n)
		case 'B':
			fmt.Fprintf(sb, "%sbreak\n", ind)
		case 'C':
			fmt.Fprintf(sb, "%scontinue\n", ind)
		case 'R':
			fmt.Fprintf(sb, "%sreturn\n", ind)
		case 'K':
			if s.n == 1 {
				fmt.Fprintf(sb, "%sfn g%d {\n", ind, s.k)
				p.emitBlock(sb, s.body, s.k, d+1)
				fmt.Fprintf(sb, "%s}\n%sg%d\n", ind, ind, s.k)
			} else {
				fmt.Fprintf(sb, "%s{\n", ind)
				p.emitBlock(sb, s.body, s.k, d+1)
				fmt.Fprintf(sb, "%s}\n", ind)
			}
		case 'L':
			fmt.Fprintf(sb, "%sfor _ [%s] {\n", ind, strings.TrimSpace(strings.Repeat("a ", s.n)))
			p.emitBlock(sb, s.body, s.k, d+1)
			fmt.Fprintf(sb, "%s}\n", ind)
		case 'T':
			fmt.Fprintf(sb, "%stry {\n", ind)
			p.emitBlock(sb, s.body, s.k, d+1)
			fmt.Fprintf(sb, "%s} catch e { caught %s %d $e } else { caught %s %d $ok }\n", ind, fv, s.k, fv, s.k)
		}
	}
}

func (p *program) source() string {
	var sb strings.Builder
	sb.WriteString("fn main {\n")
	p.emitBlock(&sb, p.body, 0, 0)
	sb.WriteString("}\nmain\n")
	return sb.String()
}
