package c21

// Program representation shared by generator, implementation runner and
// oracle: a tiny language of function bodies nesting tmp / with / defer with
// every exit path.  The op line carries it as a token stream; the Lean driver
// parses the same tokens.

import (
	"fmt"
	"sort"
	"strconv"
	"strings"

	"src.elv.sh/pkg/parse"
)

// val is an elvish value of the generated programs: a string, a list or a map
// with string keys (nested at will).
type val struct {
	kind byte // 's', 'l', 'm'
	s    string
	xs   []val
	keys []string
	vs   []val
}

func sv(s string) val { return val{kind: 's', s: s} }
func nv(n int) val    { return sv(strconv.Itoa(n)) }
func lv(xs ...val) val {
	return val{kind: 'l', xs: xs}
}

func showStr(s string) string {
	if s == "" {
		return "''"
	}
	return s
}

// String is the canonical text (the Lean side's showVal): a string as itself,
// [a;b] for a list, {k=v;…} for a map with the entries ordered by key.
func (v val) String() string {
	switch v.kind {
	case 'l':
		p := make([]string, len(v.xs))
		for i, x := range v.xs {
			p[i] = x.String()
		}
		return "[" + strings.Join(p, ";") + "]"
	case 'm':
		type kv struct{ k, v string }
		es := make([]kv, len(v.keys))
		for i, k := range v.keys {
			es[i] = kv{showStr(k), v.vs[i].String()}
		}
		sort.Slice(es, func(i, j int) bool { return es[i].k < es[j].k })
		p := make([]string, len(es))
		for i, e := range es {
			p[i] = e.k + "=" + e.v
		}
		return "{" + strings.Join(p, ";") + "}"
	}
	return showStr(v.s)
}

func (v val) elvish() string {
	switch v.kind {
	case 'l':
		p := make([]string, len(v.xs))
		for i, x := range v.xs {
			p[i] = x.elvish()
		}
		return "[" + strings.Join(p, " ") + "]"
	case 'm':
		if len(v.keys) == 0 {
			return "[&]"
		}
		p := make([]string, len(v.keys))
		for i, k := range v.keys {
			p[i] = "&" + parse.Quote(k) + "=" + v.vs[i].elvish()
		}
		return "[" + strings.Join(p, " ") + "]"
	}
	return parse.Quote(v.s)
}

func (v val) flat() bool {
	for _, x := range v.xs {
		if x.kind != 's' {
			return false
		}
	}
	return v.kind == 'l'
}

// tokens: `n <str>` | `l <m> <str>…` | `L <m> <val>…` | `m <m> (<key> <val>)…`
func (v val) tokens(out *[]string) {
	switch {
	case v.kind == 's':
		*out = append(*out, "n", v.s)
	case v.flat():
		*out = append(*out, "l", strconv.Itoa(len(v.xs)))
		for _, x := range v.xs {
			*out = append(*out, x.s)
		}
	case v.kind == 'l':
		*out = append(*out, "L", strconv.Itoa(len(v.xs)))
		for _, x := range v.xs {
			x.tokens(out)
		}
	default:
		*out = append(*out, "m", strconv.Itoa(len(v.keys)))
		for i, k := range v.keys {
			*out = append(*out, k)
			v.vs[i].tokens(out)
		}
	}
}

// mapSet: later entries win, as in a map literal.
func (v *val) mapSet(k string, x val) {
	for i, k2 := range v.keys {
		if k2 == k {
			v.vs[i] = x
			return
		}
	}
	v.keys = append(v.keys, k)
	v.vs = append(v.vs, x)
}

func parseOldVal(list bool, s string) (val, error) {
	if !list {
		return sv(s), nil
	}
	v := lv()
	if s == "e" {
		return v, nil
	}
	for _, p := range strings.Split(s, ".") {
		v.xs = append(v.xs, sv(p))
	}
	return v, nil
}

// slot is a variable's content: unset (only U and E kinds) or a value.
type slot struct {
	set bool
	v   val
}

func (s slot) String() string {
	if !s.set {
		return "-"
	}
	return s.v.String()
}

// varDecl declares one variable of the program's universe.
//
//	L  harness variable, every Set is logged and may fail (bit i of mask = the i-th call fails)
//	U  like L but also implements vars.UnsettableVar (Unset / IsSet); Unset calls share the counter
//	E  a real environment variable E:C21_<x> (unlogged, never fails)
//	O  an ordinary elvish variable declared with `var` (unlogged, never fails)
type varDecl struct {
	kind byte
	typ  byte // how the initial value is written: 's' string, 'l' flat list (1.2.3 / e), 'x' value tokens joined by '/'
	init slot
	mask uint
}

func (d varDecl) String() string {
	txt := "-"
	if d.init.set {
		switch d.typ {
		case 's':
			txt = d.init.v.s
		case 'l':
			txt = "e"
			if len(d.init.v.xs) > 0 {
				p := make([]string, len(d.init.v.xs))
				for i, x := range d.init.v.xs {
					p[i] = x.s
				}
				txt = strings.Join(p, ".")
			}
		default:
			var t []string
			d.init.v.tokens(&t)
			txt = strings.Join(t, "/")
		}
	}
	return fmt.Sprintf("%c:%c:%s:%d", d.kind, d.typ, txt, d.mask)
}

// declFor picks the way of writing the initial value.
func declFor(kind byte, init slot, mask uint) varDecl {
	d := varDecl{kind: kind, typ: 's', init: init, mask: mask}
	if init.set {
		switch {
		case init.v.kind == 's':
		case init.v.flat():
			d.typ = 'l'
		default:
			d.typ = 'x'
		}
	}
	return d
}

func varName(decls []varDecl, x int) string {
	switch decls[x].kind {
	case 'L':
		return fmt.Sprintf("l%d", x)
	case 'U':
		return fmt.Sprintf("u%d", x)
	case 'E':
		return fmt.Sprintf("E:C21_%d", x)
	}
	return fmt.Sprintf("o%d", x)
}

func parseDecls(s string) ([]varDecl, error) {
	var out []varDecl
	for _, e := range strings.Split(s, ",") {
		p := strings.Split(e, ":")
		if len(p) != 4 || len(p[0]) != 1 || !strings.Contains("LUEO", p[0]) || len(p[1]) != 1 || !strings.Contains("slx", p[1]) {
			return nil, fmt.Errorf("bad decl %q", e)
		}
		d := varDecl{kind: p[0][0], typ: p[1][0]}
		if p[2] != "-" {
			var v val
			if d.typ == 'x' {
				r := &tokReader{t: strings.Split(p[2], "/")}
				v = r.val()
				if r.err != nil || r.pos != len(r.t) {
					return nil, fmt.Errorf("bad decl %q", e)
				}
			} else {
				v, _ = parseOldVal(d.typ == 'l', p[2])
			}
			d.init = slot{true, v}
		}
		m, err := strconv.Atoi(p[3])
		if err != nil || m < 0 {
			return nil, fmt.Errorf("bad decl %q", e)
		}
		d.mask = uint(m)
		// only unsettable variables can start unset; environment variables hold strings
		if !d.init.set && (d.kind == 'L' || d.kind == 'O') || d.init.set && d.init.v.kind != 's' && d.kind == 'E' {
			return nil, fmt.Errorf("bad decl %q", e)
		}
		out = append(out, d)
	}
	return out, nil
}

// lval: variable x, or its element x[idx[0]]…[idx[n-1]].
type lval struct {
	x   int
	idx []string
}

func (l lval) elem() bool { return len(l.idx) > 0 }

// group: `lvs… = vals…`; rest = position of the `@` lvalue or -1.
type group struct {
	lvs  []lval
	rest int
	vals []val
}

// restValues: which value each lvalue gets (false = arity mismatch).
func (g group) restValues() ([]val, bool) {
	nv := len(g.lvs)
	if g.rest < 0 {
		return g.vals, nv == len(g.vals)
	}
	if len(g.vals) < nv-1 {
		return nil, false
	}
	m := len(g.vals) + 1 - nv
	var out []val
	out = append(out, g.vals[:g.rest]...)
	out = append(out, lv(append([]val(nil), g.vals[g.rest:g.rest+m]...)...))
	out = append(out, g.vals[g.rest+m:]...)
	return out, true
}

// stmt: op is one of
//
//	M mark            P peek x          A assignment (tmp or set)
//	W with            D defer           F fail n     B break  C continue  R return
//	K call (n=1: through `fn`, n=0: lambda)          L for (n iterations)   T try
//	I if (n = shape: 0 if-true, 1 else, 2 elif, 3 not taken)                 H while (n iterations)
type stmt struct {
	op     byte
	k      int
	x      int
	tmp    bool
	groups []group
	n      int
	body   []*stmt
}

func (g group) tokens(out *[]string) {
	*out = append(*out, strconv.Itoa(len(g.lvs)))
	for i, l := range g.lvs {
		if i == g.rest {
			*out = append(*out, "@")
		}
		switch len(l.idx) {
		case 0:
			*out = append(*out, "v", strconv.Itoa(l.x))
		case 1:
			*out = append(*out, "e", strconv.Itoa(l.x), l.idx[0])
		default:
			*out = append(*out, "i", strconv.Itoa(l.x), strconv.Itoa(len(l.idx)))
			*out = append(*out, l.idx...)
		}
	}
	*out = append(*out, strconv.Itoa(len(g.vals)))
	for _, v := range g.vals {
		v.tokens(out)
	}
}

func blockTokens(body []*stmt, out *[]string) {
	*out = append(*out, strconv.Itoa(len(body)))
	for _, s := range body {
		s.tokens(out)
	}
}

func (s *stmt) tokens(out *[]string) {
	*out = append(*out, string(s.op), strconv.Itoa(s.k))
	switch s.op {
	case 'P':
		*out = append(*out, strconv.Itoa(s.x))
	case 'A':
		if s.tmp {
			*out = append(*out, "t")
		} else {
			*out = append(*out, "s")
		}
		s.groups[0].tokens(out)
	case 'W':
		*out = append(*out, strconv.Itoa(len(s.groups)))
		for _, g := range s.groups {
			g.tokens(out)
		}
		blockTokens(s.body, out)
	case 'D', 'T':
		blockTokens(s.body, out)
	case 'F':
		*out = append(*out, strconv.Itoa(s.n))
	case 'K', 'L', 'I', 'H':
		*out = append(*out, strconv.Itoa(s.n))
		blockTokens(s.body, out)
	}
}

type tokReader struct {
	t     []string
	pos   int
	err   error
	depth int
}

func (r *tokReader) next() string {
	if r.pos >= len(r.t) {
		r.err = fmt.Errorf("unexpected end of tokens")
		return ""
	}
	r.pos++
	return r.t[r.pos-1]
}

func (r *tokReader) int() int {
	s := r.next()
	n, err := strconv.Atoi(s)
	if err != nil && r.err == nil {
		r.err = err
	}
	if n < 0 || n > 1000 {
		if r.err == nil {
			r.err = fmt.Errorf("number out of range")
		}
		return 0
	}
	return n
}

func (r *tokReader) val() val {
	r.depth++
	defer func() { r.depth-- }()
	if r.depth > 50 {
		r.err = fmt.Errorf("value too deep")
		return val{}
	}
	switch r.next() {
	case "n":
		return sv(r.next())
	case "l":
		v := lv()
		for m := r.int(); m > 0 && r.err == nil; m-- {
			v.xs = append(v.xs, sv(r.next()))
		}
		return v
	case "L":
		v := lv()
		for m := r.int(); m > 0 && r.err == nil; m-- {
			v.xs = append(v.xs, r.val())
		}
		return v
	case "m":
		v := val{kind: 'm'}
		for m := r.int(); m > 0 && r.err == nil; m-- {
			k := r.next()
			v.mapSet(k, r.val())
		}
		return v
	}
	if r.err == nil {
		r.err = fmt.Errorf("bad value")
	}
	return val{}
}

func (r *tokReader) group() group {
	g := group{rest: -1}
	for n, i := r.int(), 0; n > 0 && r.err == nil; n, i = n-1, i+1 {
		t := r.next()
		if t == "@" {
			if g.rest >= 0 {
				r.err = fmt.Errorf("two rest lvalues")
			}
			g.rest = i
			t = r.next()
		}
		switch t {
		case "v":
			g.lvs = append(g.lvs, lval{x: r.int()})
		case "e":
			x := r.int()
			g.lvs = append(g.lvs, lval{x: x, idx: []string{r.next()}})
		case "i":
			l := lval{x: r.int()}
			for m := r.int(); m > 0 && r.err == nil; m-- {
				l.idx = append(l.idx, r.next())
			}
			if len(l.idx) == 0 && r.err == nil {
				r.err = fmt.Errorf("no index")
			}
			g.lvs = append(g.lvs, l)
		default:
			if r.err == nil {
				r.err = fmt.Errorf("bad lvalue")
			}
		}
	}
	for n := r.int(); n > 0 && r.err == nil; n-- {
		g.vals = append(g.vals, r.val())
	}
	return g
}

func (r *tokReader) block() []*stmt {
	var out []*stmt
	for n := r.int(); n > 0 && r.err == nil; n-- {
		out = append(out, r.stmt())
	}
	return out
}

func (r *tokReader) stmt() *stmt {
	op := r.next()
	if len(op) != 1 {
		r.err = fmt.Errorf("bad op %q", op)
		return &stmt{op: 'M'}
	}
	s := &stmt{op: op[0], k: r.int()}
	switch s.op {
	case 'M', 'B', 'C', 'R':
	case 'P':
		s.x = r.int()
	case 'A':
		s.tmp = r.next() == "t"
		s.groups = []group{r.group()}
	case 'W':
		for n := r.int(); n > 0 && r.err == nil; n-- {
			s.groups = append(s.groups, r.group())
		}
		s.body = r.block()
	case 'D', 'T':
		s.body = r.block()
	case 'F':
		s.n = r.int()
	case 'K', 'L', 'I', 'H':
		s.n = r.int()
		s.body = r.block()
	default:
		r.err = fmt.Errorf("bad op %q", op)
	}
	return s
}

type program struct {
	decls []varDecl
	body  []*stmt
}

func (p *program) fields() []string {
	d := make([]string, len(p.decls))
	for i, x := range p.decls {
		d[i] = x.String()
	}
	var toks []string
	blockTokens(p.body, &toks)
	return []string{"run", strings.Join(d, ","), strings.Join(toks, " ")}
}

// wellTyped mirrors the Lean driver's check: variables are declared; an
// environment variable is only assigned as a whole, with a string, and is not
// a rest lvalue (envVariable.Set refuses other values — not modelled).
func (p *program) wellTyped() bool {
	ok := true
	var walk func(b []*stmt)
	isEnv := func(x int) bool { return p.decls[x].kind == 'E' }
	chk := func(g group) {
		for i, l := range g.lvs {
			if l.x >= len(p.decls) {
				ok = false
				return
			}
			if isEnv(l.x) && (l.elem() || i == g.rest) {
				ok = false
			}
		}
		if vs, fits := g.restValues(); fits {
			for i, l := range g.lvs {
				if isEnv(l.x) && vs[i].kind != 's' {
					ok = false
				}
			}
		}
	}
	walk = func(b []*stmt) {
		for _, s := range b {
			if s.op == 'P' && s.x >= len(p.decls) {
				ok = false
			}
			for _, g := range s.groups {
				chk(g)
			}
			walk(s.body)
		}
	}
	walk(p.body)
	return ok
}

func parseProgram(f []string) (*program, error) {
	if len(f) < 3 || f[0] != "run" && f[0] != "acc" {
		return nil, fmt.Errorf("bad op")
	}
	d, err := parseDecls(f[1])
	if err != nil {
		return nil, err
	}
	r := &tokReader{t: strings.Fields(f[2])}
	body := r.block()
	if r.err != nil {
		return nil, r.err
	}
	if r.pos != len(r.t) {
		return nil, fmt.Errorf("trailing tokens")
	}
	p := &program{d, body}
	if !p.wellTyped() {
		return nil, fmt.Errorf("ill-typed")
	}
	return p, nil
}

// ---- elvish source ---------------------------------------------------------

func (p *program) lvText(l lval) string {
	n := varName(p.decls, l.x)
	for _, i := range l.idx {
		n += "[" + parse.Quote(i) + "]"
	}
	return n
}

func (p *program) groupText(g group) string {
	var sb strings.Builder
	for i, l := range g.lvs {
		if i == g.rest {
			sb.WriteByte('@')
		}
		sb.WriteString(p.lvText(l))
		sb.WriteByte(' ')
	}
	sb.WriteByte('=')
	for _, v := range g.vals {
		sb.WriteByte(' ')
		sb.WriteString(v.elvish())
	}
	return sb.String()
}

// emitBlock writes the inside of a lambda: the frame announces itself with
// `enter`, which hands out the dynamic frame id used by the `at` events.
func (p *program) emitBlock(sb *strings.Builder, body []*stmt, k, d int) {
	ind := strings.Repeat("  ", d+1)
	fmt.Fprintf(sb, "%svar f%d = (enter %d)\n", ind, d, k)
	for _, s := range body {
		fv := fmt.Sprintf("$f%d", d)
		if s.op == 'P' {
			fmt.Fprintf(sb, "%speek %s %d %d\n", ind, fv, s.k, s.x)
			continue
		}
		fmt.Fprintf(sb, "%sat %s %d\n", ind, fv, s.k)
		switch s.op {
		case 'A':
			kw := "set"
			if s.tmp {
				kw = "tmp"
			}
			fmt.Fprintf(sb, "%s%s %s\n", ind, kw, p.groupText(s.groups[0]))
		case 'W':
			if len(s.groups) == 1 && s.k%2 == 0 && len(s.groups[0].lvs) > 0 && !s.groups[0].lvs[0].elem() {
				// (the unbracketed form rejects an element as its first lvalue at compile time)
				fmt.Fprintf(sb, "%swith %s {\n", ind, p.groupText(s.groups[0]))
			} else {
				fmt.Fprintf(sb, "%swith", ind)
				for _, g := range s.groups {
					fmt.Fprintf(sb, " [%s]", p.groupText(g))
				}
				sb.WriteString(" {\n")
			}
			p.emitBlock(sb, s.body, s.k, d+1)
			fmt.Fprintf(sb, "%s}\n", ind)
		case 'D':
			fmt.Fprintf(sb, "%sdefer {\n", ind)
			p.emitBlock(sb, s.body, s.k, d+1)
			fmt.Fprintf(sb, "%s}\n", ind)
		case 'F':
			fmt.Fprintf(sb, "%sfail %d\n", ind, s.n)
		case 'B':
			fmt.Fprintf(sb, "%sbreak\n", ind)
		case 'C':
			fmt.Fprintf(sb, "%scontinue\n", ind)
		case 'R':
			fmt.Fprintf(sb, "%sreturn\n", ind)
		case 'K':
			if s.n == 1 {
				fmt.Fprintf(sb, "%sfn g%d {\n", ind, s.k)
				p.emitBlock(sb, s.body, s.k, d+1)
				fmt.Fprintf(sb, "%s}\n%sg%d\n", ind, ind, s.k)
			} else {
				fmt.Fprintf(sb, "%s{\n", ind)
				p.emitBlock(sb, s.body, s.k, d+1)
				fmt.Fprintf(sb, "%s}\n", ind)
			}
		case 'L':
			fmt.Fprintf(sb, "%sfor _ [%s] {\n", ind, strings.TrimSpace(strings.Repeat("a ", s.n)))
			p.emitBlock(sb, s.body, s.k, d+1)
			fmt.Fprintf(sb, "%s}\n", ind)
		case 'I':
			switch s.n {
			case 0:
				fmt.Fprintf(sb, "%sif $true {\n", ind)
			case 1:
				fmt.Fprintf(sb, "%sif $false { } else {\n", ind)
			case 2:
				fmt.Fprintf(sb, "%sif $false { } elif $true {\n", ind)
			default:
				fmt.Fprintf(sb, "%sif $false {\n", ind)
			}
			p.emitBlock(sb, s.body, s.k, d+1)
			if s.n == 2 {
				fmt.Fprintf(sb, "%s} else { }\n", ind)
			} else {
				fmt.Fprintf(sb, "%s}\n", ind)
			}
		case 'H':
			fmt.Fprintf(sb, "%svar w%d = (ticker %d)\n%swhile ($w%d) {\n", ind, s.k, s.n, ind, s.k)
			p.emitBlock(sb, s.body, s.k, d+1)
			fmt.Fprintf(sb, "%s}\n", ind)
		case 'T':
			fmt.Fprintf(sb, "%stry {\n", ind)
			p.emitBlock(sb, s.body, s.k, d+1)
			fmt.Fprintf(sb, "%s} catch e { caught %s %d $e } else { caught %s %d $ok }\n", ind, fv, s.k, fv, s.k)
		}
	}
}

func (p *program) source() string {
	var sb strings.Builder
	sb.WriteString("fn main {\n")
	p.emitBlock(&sb, p.body, 0, 0)
	sb.WriteString("}\nmain\n")
	return sb.String()
}
