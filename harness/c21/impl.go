package c21

// Runs a generated program on the real interpreter (in-process Evaler) with
// logging / failing variables, and renders outcome, final store and event
// log canonically.

import (
	"errors"
	"fmt"
	"os"
	"strconv"
	"strings"

	"src.elv.sh/pkg/eval"
	"src.elv.sh/pkg/eval/errs"
	"src.elv.sh/pkg/eval/vals"
	"src.elv.sh/pkg/eval/vars"
	"src.elv.sh/pkg/parse"
)

// setErr is the error a harness variable returns from a scheduled failure.
type setErr struct{ x int }

func (e setErr) Error() string { return fmt.Sprintf("c21: scheduled failure of variable %d", e.x) }

type runState struct {
	p    *program
	log  []string
	next int
	lv   []*logVar
	ov   []vars.Var // ordinary variables (what `var` creates: vars.FromInit)
}

// One interpreter for the whole run; every program gets a fresh global
// namespace (EvalCfg.Global), so programs do not see each other.
var sharedEvaler = eval.NewEvaler()

// logVar is an elvish variable whose Set calls are logged and fail on schedule.
type logVar struct {
	r     *runState
	x     int
	cur   slot
	calls uint
	mask  uint
}

func (v *logVar) scheduled() bool {
	f := v.calls < 32 && v.mask>>v.calls&1 == 1
	v.calls++
	return f
}

func toVal(a any) (val, bool) {
	switch a := a.(type) {
	case string:
		return sv(a), true
	case vals.List:
		v := lv()
		ok := true
		for it := a.Iterator(); it.HasElem(); it.Next() {
			x, isVal := toVal(it.Elem())
			if !isVal {
				ok = false
				break
			}
			v.xs = append(v.xs, x)
		}
		return v, ok
	case vals.Map:
		v := val{kind: 'm'}
		ok := true
		for it := a.Iterator(); it.HasElem(); it.Next() {
			k, x := it.Elem()
			ks, isStr := k.(string)
			xv, isVal := toVal(x)
			if !isStr || !isVal {
				ok = false
				break
			}
			v.mapSet(ks, xv)
		}
		return v, ok
	}
	return val{}, false
}

func fromVal(v val) any {
	switch v.kind {
	case 'l':
		xs := make([]any, len(v.xs))
		for i, x := range v.xs {
			xs[i] = fromVal(x)
		}
		return vals.MakeList(xs...)
	case 'm':
		var kv []any
		for i, k := range v.keys {
			kv = append(kv, k, fromVal(v.vs[i]))
		}
		return vals.MakeMap(kv...)
	}
	return v.s
}

func (v *logVar) Set(a any) error {
	nv, ok := toVal(a)
	txt := "?"
	if ok {
		txt = nv.String()
	}
	if v.scheduled() || !ok {
		v.r.log = append(v.r.log, fmt.Sprintf("S%d=%s!", v.x, txt))
		return setErr{v.x}
	}
	v.cur = slot{true, nv}
	v.r.log = append(v.r.log, fmt.Sprintf("S%d=%s+", v.x, txt))
	return nil
}

func (v *logVar) Get() any {
	if !v.cur.set {
		return ""
	}
	return fromVal(v.cur.v)
}

// uLogVar additionally can be unset, like an environment variable.
type uLogVar struct{ *logVar }

func (v uLogVar) IsSet() bool { return v.cur.set }

func (v uLogVar) Unset() error {
	if v.scheduled() {
		v.r.log = append(v.r.log, fmt.Sprintf("X%d!", v.x))
		return setErr{v.x}
	}
	v.cur = slot{}
	v.r.log = append(v.r.log, fmt.Sprintf("X%d+", v.x))
	return nil
}

var _ vars.UnsettableVar = uLogVar{}

// cause maps an exception (or nil) to the small enum shared with the model.
func cause(err error) string {
	if err == nil {
		return "ok"
	}
	var r error = err
	if exc, ok := err.(eval.Exception); ok {
		r = exc.Reason()
		if r == nil {
			return "okexc" // a non-nil exception whose reason is nil
		}
	}
	switch r := r.(type) {
	case eval.FailError:
		return "fail:" + vals.ToString(r.Content)
	case eval.Flow:
		return r.Error()
	case setErr:
		return fmt.Sprintf("setfail:%d", r.x)
	case errs.ArityMismatch:
		return "arity"
	case errs.OutOfRange, errs.BadValue:
		return "elemerr"
	}
	var se setErr
	if errors.As(r, &se) {
		switch {
		case strings.HasPrefix(r.Error(), "restore variable: "):
			return fmt.Sprintf("restorefail:%d", se.x)
		case strings.HasPrefix(r.Error(), "unset variable: "):
			return fmt.Sprintf("unsetfail:%d", se.x)
		}
	}
	for _, m := range []string{"index", "assoc", "no such key", "not indexable", "must be", "slice"} {
		if strings.Contains(r.Error(), m) {
			return "elemerr"
		}
	}
	return "other:" + strings.ReplaceAll(r.Error(), " ", "_")
}

func (r *runState) slotOf(x int) slot {
	d := r.p.decls[x]
	switch d.kind {
	case 'L', 'U':
		return r.lv[x].cur
	case 'E':
		s, ok := os.LookupEnv(fmt.Sprintf("C21_%d", x))
		if !ok {
			return slot{}
		}
		return slot{true, sv(s)}
	}
	vr := r.ov[x]
	if vr == nil {
		return slot{}
	}
	v, ok := toVal(vr.Get())
	if !ok {
		return slot{true, sv("?")}
	}
	return slot{true, v}
}

type result struct {
	outcome string
	final   []slot
	log     []string
	src     string
}

func (res result) line() string {
	f := make([]string, len(res.final))
	for i, s := range res.final {
		f[i] = s.String()
	}
	lg := strings.Join(res.log, " ")
	if lg == "" {
		lg = "-"
	}
	return res.outcome + "|" + strings.Join(f, ",") + "|" + lg
}

func execute(p *program) result {
	r := &runState{p: p, lv: make([]*logVar, len(p.decls)), ov: make([]vars.Var, len(p.decls))}
	nb := eval.BuildNs()
	for x, d := range p.decls {
		switch d.kind {
		case 'L':
			r.lv[x] = &logVar{r: r, x: x, cur: d.init, mask: d.mask}
			nb.AddVar(fmt.Sprintf("l%d", x), r.lv[x])
		case 'U':
			r.lv[x] = &logVar{r: r, x: x, cur: d.init, mask: d.mask}
			nb.AddVar(fmt.Sprintf("u%d", x), uLogVar{r.lv[x]})
		case 'E':
			name := fmt.Sprintf("C21_%d", x)
			if d.init.set {
				os.Setenv(name, d.init.v.s)
			} else {
				os.Unsetenv(name)
			}
			defer os.Unsetenv(name)
		case 'O':
			r.ov[x] = vars.FromInit(fromVal(d.init.v))
			nb.AddVar(fmt.Sprintf("o%d", x), r.ov[x])
		}
	}
	nb.AddGoFns(map[string]any{
		"enter": func(k int) string {
			g := r.next
			r.next++
			r.log = append(r.log, fmt.Sprintf("E%d.%d", g, k))
			return strconv.Itoa(g)
		},
		// ticker n: a condition for `while` that holds n times
		"ticker": func(n int) eval.Callable {
			left := n
			return eval.NewGoFn("tick", func() bool {
				left--
				return left >= 0
			})
		},
		"at": func(g string, k int) {
			r.log = append(r.log, fmt.Sprintf("@%s.%d", g, k))
		},
		"peek": func(g string, k, x int) {
			r.log = append(r.log, fmt.Sprintf("@%s.%d", g, k), fmt.Sprintf("V%d=%s", x, r.slotOf(x)))
		},
		"caught": func(g string, k int, e any) {
			c := "?"
			switch e := e.(type) {
			case eval.Exception:
				c = cause(e)
				if e.Reason() == nil {
					c = "ok" // $ok itself
					if e != eval.OK {
						c = "okexc"
					}
				}
			}
			r.log = append(r.log, fmt.Sprintf("C%s.%d:%s", g, k, c))
		},
	})
	src := p.source()
	err := sharedEvaler.Eval(parse.Source{Name: "[c21]", Code: src}, eval.EvalCfg{Global: nb.Ns()})
	res := result{outcome: cause(err), log: r.log, src: src}
	if err != nil {
		if _, ok := err.(eval.Exception); !ok {
			res.outcome = "noexc:" + strings.ReplaceAll(strings.ReplaceAll(err.Error(), " ", "_"), "\n", "/")
		}
	}
	for x := range p.decls {
		res.final = append(res.final, r.slotOf(x))
	}
	return res
}

func impl(_ any, f []string) string {
	p, err := parseProgram(f)
	if err != nil {
		return "bad-op"
	}
	return execute(p).line()
}
