// Package common is the shared runtime of the correspondence harness: a
// seeded PRNG, the line protocol, panic/timeout guards and the standard
// gen → impl → oracle run loop that writes ops.txt, impl.out, oracle.out and
// stats.json into the scratch directory given by the check script.
package common

import (
	"bufio"
	"encoding/hex"
	"encoding/json"
	"flag"
	"fmt"
	"os"
	"path/filepath"
	"sort"
	"strings"
	"time"
)

// Rand is splitmix64; every random choice of a run derives from one state.
type Rand struct{ s uint64 }

func NewRand(seed uint64) *Rand {
	// hash the seed so that adjacent seeds give unrelated streams (not the
	// same stream shifted by a few draws)
	z := seed + 0x9E3779B97F4A7C15
	z = (z ^ (z >> 30)) * 0xBF58476D1CE4E5B9
	z = (z ^ (z >> 27)) * 0x94D049BB133111EB
	z ^= z >> 31
	return &Rand{z ^ 0x5851F42D4C957F2D}
}

func (r *Rand) U64() uint64 {
	r.s += 0x9E3779B97F4A7C15
	z := r.s
	z = (z ^ (z >> 30)) * 0xBF58476D1CE4E5B9
	z = (z ^ (z >> 27)) * 0x94D049BB133111EB
	return z ^ (z >> 31)
}

// Intn returns a number in [0,n).
func (r *Rand) Intn(n int) int {
	if n <= 0 {
		return 0
	}
	return int(r.U64() % uint64(n))
}

// Range returns a number in [lo,hi].
func (r *Rand) Range(lo, hi int) int { return lo + r.Intn(hi-lo+1) }

func (r *Rand) Bool() bool { return r.U64()&1 == 1 }

// Chance is true with probability num/den.
func (r *Rand) Chance(num, den int) bool { return r.Intn(den) < num }

// Pick returns a random element.
func Pick[T any](r *Rand, xs []T) T { return xs[r.Intn(len(xs))] }

// Hex encodes a byte string for the line protocol ("-" for empty).
func Hex(s string) string {
	if s == "" {
		return "-"
	}
	return hex.EncodeToString([]byte(s))
}

// Unhex decodes Hex.
func Unhex(s string) string {
	if s == "-" {
		return ""
	}
	b, err := hex.DecodeString(s)
	if err != nil {
		panic("bad hex field: " + s)
	}
	return string(b)
}

// Ctx is one run of one property's harness.
type Ctx struct {
	Prop   string
	Seed   uint64
	Tier   string // "quick" | "thorough"
	Dir    string // scratch dir (outside /repo and /verif)
	OpsIn  string // replay: read ops from this file instead of generating
	Corpus string // ops to run first (minimised past failures, counterexample witnesses)
	Rand   *Rand
	Extra  map[string]any // extra keys for stats.json
}

func (c *Ctx) Thorough() bool { return c.Tier == "thorough" }

// Scale picks the case count for the tier.
func (c *Ctx) Scale(quick, thorough int) int {
	if c.Thorough() {
		return thorough
	}
	return quick
}

// Guard runs f, turning a Go panic into the canonical outcome "PANIC" and a
// hang into "TIMEOUT"; the panic message is returned separately.
func Guard(timeout time.Duration, f func() string) (out string, panicMsg string) {
	type res struct{ out, msg string }
	ch := make(chan res, 1)
	go func() {
		defer func() {
			if r := recover(); r != nil {
				ch <- res{"PANIC", fmt.Sprint(r)}
			}
		}()
		ch <- res{f(), ""}
	}()
	select {
	case r := <-ch:
		return r.out, r.msg
	case <-time.After(timeout):
		return "TIMEOUT", "timeout after " + timeout.String()
	}
}

// Std is the standard shape of a property harness.
type Std struct {
	// Gen emits op lines (already tab-joined by emit).
	Gen func(c *Ctx, emit func(fields ...string))
	// NewState makes the per-run implementation state (may be nil).
	NewState func(c *Ctx) any
	// Impl executes one op on the real code; its result is the canonical line
	// the Lean driver must reproduce.
	Impl func(st any, f []string) string
	// Oracle evaluates the property's predicate directly on the real code for
	// the same op.  class == "" means the property held on this op.
	Oracle func(st any, f []string, implOut string) (class, detail string)
	// Tag names the branch/kind an op exercised ("" = trivial case).
	Tag func(f []string, implOut string) string
	// Rule describes generation and what counts as distinct non-trivial.
	Rule string
	// Exhaustive says the generated space was enumerated completely.
	Exhaustive bool
	// Timeout per op (default 20 s).
	Timeout time.Duration
	// ExhaustiveNote describes which sub-domain was enumerated exhaustively.
	ExhaustiveNote string
}

// Stats is written to stats.json.
type Stats struct {
	Evaluations        int            `json:"evaluations"`
	DistinctNontrivial int            `json:"distinct_nontrivial"`
	Rule               string         `json:"rule"`
	Tags               map[string]int `json:"tags"`
	Samples            []string       `json:"samples"`
	Exhaustive         bool           `json:"exhaustive"`
	ExhaustiveNote     string         `json:"exhaustive_note,omitempty"`
	OracleFailures     int            `json:"oracle_failures"`
	Extra              map[string]any `json:"extra,omitempty"`
}

// Run executes the standard loop.
func (s *Std) Run(c *Ctx) error {
	var ops []string
	if c.OpsIn != "" {
		data, err := os.ReadFile(c.OpsIn)
		if err != nil {
			return err
		}
		for _, l := range strings.Split(strings.TrimRight(string(data), "\n"), "\n") {
			if l != "" {
				ops = append(ops, l)
			}
		}
	} else {
		if c.Corpus != "" {
			data, err := os.ReadFile(c.Corpus)
			if err != nil {
				return err
			}
			for _, l := range strings.Split(string(data), "\n") {
				if l != "" && !strings.HasPrefix(l, "#") {
					ops = append(ops, l)
				}
			}
		}
		s.Gen(c, func(fields ...string) {
			for _, f := range fields {
				if f == "" || strings.ContainsAny(f, "\t\n") {
					panic(fmt.Sprintf("bad op field %q", f))
				}
			}
			ops = append(ops, strings.Join(fields, "\t"))
		})
	}
	timeout := s.Timeout
	if timeout == 0 {
		timeout = 20 * time.Second
	}
	opsF, err := os.Create(filepath.Join(c.Dir, "ops.txt"))
	if err != nil {
		return err
	}
	implF, _ := os.Create(filepath.Join(c.Dir, "impl.out"))
	oraF, _ := os.Create(filepath.Join(c.Dir, "oracle.out"))
	opsW, implW, oraW := bufio.NewWriter(opsF), bufio.NewWriter(implF), bufio.NewWriter(oraF)
	var st any
	if s.NewState != nil {
		st = s.NewState(c)
	}
	stats := Stats{Rule: s.Rule, Tags: map[string]int{}, Exhaustive: s.Exhaustive && c.OpsIn == "",
		ExhaustiveNote: s.ExhaustiveNote}
	distinct := map[string]bool{}
	for i, op := range ops {
		f := strings.Split(op, "\t")
		out, pmsg := Guard(timeout, func() string { return s.Impl(st, f) })
		if strings.ContainsAny(out, "\n") {
			out = strings.ReplaceAll(out, "\n", "\\n")
		}
		fmt.Fprintln(opsW, op)
		fmt.Fprintln(implW, out)
		if s.Oracle != nil {
			var class, detail string
			o, pm2 := Guard(timeout, func() string {
				class, detail = s.Oracle(st, f, out)
				return ""
			})
			if o != "" { // the oracle itself panicked or hung on the real code
				class, detail = "oracle-"+strings.ToLower(o), pm2
			}
			if class != "" {
				if pmsg != "" {
					detail += " [panic: " + pmsg + "]"
				}
				fmt.Fprintf(oraW, "%d\t%s\t%s\n", i, class, strings.ReplaceAll(detail, "\n", "\\n"))
				stats.OracleFailures++
			}
		}
		tag := ""
		if s.Tag != nil {
			tag = s.Tag(f, out)
		}
		if tag != "" {
			stats.Tags[tag]++
			if !distinct[op] {
				distinct[op] = true
			}
		} else {
			stats.Tags["(trivial)"]++
		}
		if len(stats.Samples) < 6 && (tag != "" || i < 2) && i%7 == 0 || (len(stats.Samples) == 0 && i == len(ops)-1) {
			stats.Samples = append(stats.Samples, op+"  =>  "+out)
		}
	}
	stats.Evaluations = len(ops)
	stats.DistinctNontrivial = len(distinct)
	stats.Extra = c.Extra
	opsW.Flush()
	implW.Flush()
	oraW.Flush()
	opsF.Close()
	implF.Close()
	oraF.Close()
	return WriteStats(c, &stats)
}

// WriteStats writes stats.json.
func WriteStats(c *Ctx, stats *Stats) error {
	b, err := json.MarshalIndent(stats, "", " ")
	if err != nil {
		return err
	}
	return os.WriteFile(filepath.Join(c.Dir, "stats.json"), b, 0o644)
}

// Runner is what each property package registers.
type Runner func(c *Ctx) error

var registry = map[string]Runner{}

// Register is called from each property package's init.
func Register(id string, r Runner) { registry[id] = r }

// Lookup finds a property's runner.
func Lookup(id string) (Runner, bool) { r, ok := registry[id]; return r, ok }

// IDs lists registered properties.
func IDs() []string {
	var ids []string
	for k := range registry {
		ids = append(ids, k)
	}
	sort.Strings(ids)
	return ids
}

// Main is the entry point shared by the per-property commands cmd/vh-Cxx.
func Main() {
	prop := flag.String("prop", "", "property id")
	seed := flag.Uint64("seed", 1, "PRNG seed")
	tier := flag.String("tier", "quick", "quick|thorough")
	dir := flag.String("dir", "", "scratch directory")
	opsIn := flag.String("ops-in", "", "replay these ops instead of generating")
	corpus := flag.String("corpus", "", "corpus of ops to run before the generated ones")
	list := flag.Bool("list", false, "list registered properties")
	flag.Parse()
	if *list {
		for _, id := range IDs() {
			fmt.Println(id)
		}
		return
	}
	r, ok := Lookup(*prop)
	if !ok {
		fmt.Fprintln(os.Stderr, "vh: no harness registered for", *prop)
		os.Exit(3)
	}
	c := &Ctx{Prop: *prop, Seed: *seed, Tier: *tier, Dir: *dir, OpsIn: *opsIn, Corpus: *corpus,
		Rand: NewRand(*seed), Extra: map[string]any{}}
	if err := r(c); err != nil {
		fmt.Fprintln(os.Stderr, "vh:", err)
		os.Exit(3)
	}
}
