package c17

// Round 2: correspondence ops for the models of pkg/mods/doc/match.go
// (docmerge / docshow / docfind) and of closure[def] / closure[body] (closrc),
// executed on the real code in-process.  The oracle evaluates the property on
// the real code directly: no panic inside the preconditions, and
// sortAndMergeMatches returns ordered, non-overlapping ranges.

import (
	"fmt"
	"sort"
	"strconv"
	"strings"
	"unicode"
	"unicode/utf8"

	"src.elv.sh/pkg/eval"
	"src.elv.sh/pkg/eval/vals"
	"src.elv.sh/pkg/md"
	"src.elv.sh/pkg/mods/doc"
	"verifharness/common"
	"verifharness/evalutil"
)

// hexE encodes a byte string as one non-empty field ("e" = empty).
func hexE(s string) string {
	if s == "" {
		return "e"
	}
	return common.Hex(s)
}

func unhexE(s string) string {
	if s == "e" {
		return ""
	}
	return common.Unhex(s)
}

func fmtRanges(rs [][2]int) string {
	if len(rs) == 0 {
		return "-"
	}
	ss := make([]string, len(rs))
	for i, r := range rs {
		ss[i] = fmt.Sprintf("%d:%d", r[0], r[1])
	}
	return strings.Join(ss, ",")
}

func parseRanges(s string) [][2]int {
	if s == "-" {
		return nil
	}
	var rs [][2]int
	for _, p := range strings.Split(s, ",") {
		a, b, _ := strings.Cut(p, ":")
		x, _ := strconv.Atoi(a)
		y, _ := strconv.Atoi(b)
		rs = append(rs, [2]int{x, y})
	}
	return rs
}

func splitField(s string) []string {
	if s == "-" {
		return nil
	}
	return strings.Split(s, ",")
}

// ---------------------------------------------------------------------------
// generators

// sort.Slice is an insertion sort (stable, like the model's) up to 12
// elements; longer slices get distinct From values so that the order of equal
// keys cannot matter.
const maxStableSort = 12

func genDocMerge(c *common.Ctx, emit func(...string)) {
	// every list of up to 3 valid ranges over 0..hi
	hi := c.Scale(3, 4)
	var all [][2]int
	for f := 0; f <= hi; f++ {
		for t := f; t <= hi; t++ {
			all = append(all, [2]int{f, t})
		}
	}
	for _, a := range all {
		emit("docmerge", fmtRanges([][2]int{a}))
		for _, b := range all {
			emit("docmerge", fmtRanges([][2]int{a, b}))
			for _, d := range all {
				emit("docmerge", fmtRanges([][2]int{a, b, d}))
			}
		}
	}
	emit("docmerge", "-")
	r := c.Rand
	for k := 0; k < c.Scale(1500, 40000); k++ {
		n := r.Range(8, 40)
		cnt := r.Range(1, maxStableSort)
		distinct := false
		if r.Chance(1, 5) {
			cnt = r.Range(13, 40)
			distinct = true
			if n < cnt {
				n = cnt + r.Intn(10)
			}
		}
		var rs [][2]int
		used := map[int]bool{}
		for len(rs) < cnt {
			f := r.Intn(n + 1)
			if distinct {
				if used[f] {
					continue
				}
				used[f] = true
			}
			// short matches mostly, so that nested / chained / disjoint all occur
			t := f + r.Intn(n-f+1)
			if r.Chance(2, 3) && f+4 <= n {
				t = f + r.Intn(4)
			}
			rs = append(rs, [2]int{f, t})
		}
		if !distinct && r.Chance(1, 25) {
			// outside the precondition (From > To, negative): the model follows
			i := r.Intn(len(rs))
			switch r.Intn(3) {
			case 0:
				rs[i][0], rs[i][1] = rs[i][1], rs[i][0]
			case 1:
				rs[i][0] = -r.Range(1, 3)
			default:
				rs[i][1] = rs[i][0] - r.Range(1, 3)
			}
		}
		emit("docmerge", fmtRanges(rs))
	}
}

var docShowPieces = []string{"a", "b", "cd", ". ", ". ", "\n", "\n", ".", " ", "é", "x. y", "\n\n", ". . "}

func randDocText(r *common.Rand, maxPieces int) string {
	var sb strings.Builder
	for k := r.Intn(maxPieces + 1); k > 0; k-- {
		sb.WriteString(docShowPieces[r.Intn(len(docShowPieces))])
	}
	return sb.String()
}

// separated ranges inside a text of n bytes: what sortAndMergeMatches returns
func randSeparated(r *common.Rand, n int) [][2]int {
	var rs [][2]int
	pos := 0
	for pos <= n && len(rs) < 6 {
		f := pos + r.Intn(4)
		if f > n {
			break
		}
		t := f + r.Intn(4)
		if t > n {
			t = n
		}
		rs = append(rs, [2]int{f, t})
		pos = t + 1
		if r.Chance(1, 4) {
			break
		}
	}
	return rs
}

func genDocShow(c *common.Ctx, emit func(...string)) {
	r := c.Rand
	for k := 0; k < c.Scale(2500, 60000); k++ {
		text := randDocText(r, 10)
		code := "0"
		if r.Bool() {
			code = "1"
		}
		var rs [][2]int
		switch {
		case r.Chance(3, 4):
			rs = randSeparated(r, len(text))
		default:
			// arbitrary: touching, overlapping, nested, reversed, out of the text
			for j := r.Intn(4); j > 0; j-- {
				f := r.Range(-1, len(text)+1)
				rs = append(rs, [2]int{f, f + r.Range(-1, 4)})
			}
		}
		emit("docshow", code, hexE(text), fmtRanges(rs))
	}
}

var docWords = []string{"a", "ab", "abc", "b", "bc", "contains", "strings", "all strings", "documentation",
	"whose documentation contains all strings", "x", "xy", "é", "éa", "the", "then", "there"}

func randSentence(r *common.Rand) string {
	var ws []string
	for k := r.Range(1, 6); k > 0; k-- {
		ws = append(ws, docWords[r.Intn(len(docWords))])
	}
	return strings.Join(ws, " ")
}

func randMarkdown(r *common.Rand) string {
	var blocks []string
	for k := r.Range(1, 4); k > 0; k-- {
		switch r.Intn(4) {
		case 0: // code block
			var lines []string
			for j := r.Range(1, 4); j > 0; j-- {
				lines = append(lines, randSentence(r))
			}
			blocks = append(blocks, "```\n"+strings.Join(lines, "\n")+"\n```")
		case 1: // heading
			blocks = append(blocks, "# "+randSentence(r))
		default: // paragraph of sentences over one or more lines, sometimes with a hard break
			var ss []string
			for j := r.Range(1, 4); j > 0; j-- {
				ss = append(ss, randSentence(r)+".")
			}
			sep := []string{" ", "\n", "\\\n"}[r.Intn(3)]
			blocks = append(blocks, strings.Join(ss, sep))
		}
	}
	return strings.Join(blocks, "\n\n")
}

func renderBlocks(markdown string) []md.TextBlock {
	var codec md.TextCodec
	md.Render(markdown, &codec)
	return codec.Blocks()
}

// relatedQueries derives queries from the rendered text: substrings of a block,
// substrings and superstrings of one another, repeated and empty queries, and
// now and then one that matches nowhere.
func relatedQueries(r *common.Rand, blocks []md.TextBlock) []string {
	var qs []string
	if len(blocks) == 0 {
		return []string{"a"}
	}
	sub := func(s string) (string, int, int) {
		if s == "" {
			return "", 0, 0
		}
		f := r.Intn(len(s))
		t := f + r.Intn(len(s)-f+1)
		if r.Chance(2, 3) && f+6 <= len(s) {
			t = f + r.Intn(6)
		}
		return s[f:t], f, t
	}
	n := r.Range(1, 5)
	for len(qs) < n {
		b := blocks[r.Intn(len(blocks))].Text
		q, f, t := sub(b)
		qs = append(qs, q)
		for len(qs) < n && r.Chance(2, 3) {
			switch r.Intn(4) {
			case 0: // inside the previous one
				in, _, _ := sub(q)
				qs = append(qs, in)
			case 1: // containing the previous one
				f2 := f - r.Intn(f+1)
				if f-f2 > 5 {
					f2 = f - r.Intn(5)
				}
				t2 := t + r.Intn(len(b)-t+1)
				if t2-t > 5 {
					t2 = t + r.Intn(5)
				}
				qs = append(qs, b[f2:t2])
			case 2: // starting inside the previous one
				if t > f {
					f2 := f + r.Intn(t-f)
					t2 := f2 + r.Intn(len(b)-f2+1)
					if t2-f2 > 6 {
						t2 = f2 + r.Intn(6)
					}
					qs = append(qs, b[f2:t2])
				}
			default: // after it, in the same block
				if t < len(b) {
					f2 := t + r.Intn(len(b)-t)
					t2 := f2 + r.Intn(len(b)-f2+1)
					if t2-f2 > 6 {
						t2 = f2 + r.Intn(6)
					}
					qs = append(qs, b[f2:t2])
				}
			}
		}
	}
	if r.Chance(1, 12) {
		qs = append(qs, "zzz")
	}
	if r.Chance(1, 10) {
		qs = append(qs, "")
	}
	r2 := qs[:0]
	for _, q := range qs {
		if !strings.ContainsAny(q, "\t") {
			r2 = append(r2, q)
		}
	}
	return r2
}

func fmtBlocks(bs []md.TextBlock) string {
	if len(bs) == 0 {
		return "-"
	}
	ss := make([]string, len(bs))
	for i, b := range bs {
		p := "p"
		if b.Code {
			p = "c"
		}
		s := ""
		if b.Text != "" {
			s = common.Hex(b.Text)
		}
		ss[i] = p + s
	}
	return strings.Join(ss, ",")
}

func fmtQueries(qs []string) string {
	if len(qs) == 0 {
		return "-"
	}
	ss := make([]string, len(qs))
	for i, q := range qs {
		ss[i] = hexE(q)
	}
	return strings.Join(ss, ",")
}

func genDocFind(c *common.Ctx, emit func(...string)) {
	r := c.Rand
	emitOne := func(markdown string, qs []string) {
		emit("docfind", hexE(markdown), fmtBlocks(renderBlocks(markdown)), fmtQueries(qs))
	}
	// the shape of the seeded change: one match containing another, a third
	// starting after the contained one ended but inside the container
	emitOne("Output all symbols whose documentation contains all strings.",
		[]string{"whose documentation contains all strings", "contains", "strings"})
	emitOne("abcdefghijkl", []string{"abcdefghij", "cd", "gh"})
	emitOne("```\nab cd\nef gh\nij\n```", []string{"cd\nef", "d", "gh", "ij"})
	for k := 0; k < c.Scale(2500, 60000); k++ {
		mdText := randMarkdown(r)
		emitOne(mdText, relatedQueries(r, renderBlocks(mdText)))
	}
}

// ---- closrc -------------------------------------------------------------------

var closWords = []string{"a", "bc", "é", "'q r'", "\"d\\n\"", "$nil", "[x y]", "[&k=v]", "a{b,c}", "(put z)", "1.5", "'}'", "'{'", "# no"}

func randLambda(r *common.Rand, depth int) string {
	var sb strings.Builder
	sb.WriteString("{")
	switch r.Intn(5) {
	case 0:
		sb.WriteString("||")
	case 1:
		sb.WriteString("|a|")
	case 2:
		sb.WriteString("|a @b c &o=1|")
	case 3:
		sb.WriteString("| x  &p=[q] |")
	default:
		sb.WriteString([]string{" ", "\n", "\t"}[r.Intn(3)])
	}
	ws := []string{" ", "  ", "\n", " \n ", "; ", " ;", "\t", " ^\n "}
	n := r.Intn(4)
	for k := 0; k < n; k++ {
		sb.WriteString(ws[r.Intn(len(ws))])
		switch {
		case r.Chance(1, 6):
			// a statement of its own: what follows must not become its argument
			sb.WriteString("nop;")
		case r.Chance(1, 8):
			sb.WriteString("# comment } {\n")
		default:
			sb.WriteString("put")
			for j := r.Intn(4); j > 0; j-- {
				sb.WriteString(" ")
				if depth > 0 && r.Chance(1, 3) {
					sb.WriteString(randLambda(r, depth-1))
				} else {
					w := closWords[r.Intn(len(closWords))]
					if w == "# no" {
						w = "no"
					}
					sb.WriteString(w)
				}
			}
		}
	}
	sb.WriteString(ws[r.Intn(len(ws)-1)])
	sb.WriteString("}")
	return sb.String()
}

func genCloSrc(c *common.Ctx, emit func(...string)) {
	r := c.Rand
	fixed := []string{
		"put { }", "put {|a| put $a }", "put {|| }", "put {\n}", "put { put { put { } } }",
		"put {|a @b &o=1| put {|x| nop } é } { }", "put  { put '}' } # trailing", "put {|a|put {|b|put {|c|put $a $b $c}}}",
	}
	for _, s := range fixed {
		emit("closrc", hexE(s), printable(s))
	}
	for k := 0; k < c.Scale(600, 15000); k++ {
		var sb strings.Builder
		sb.WriteString([]string{"", " ", "\n", "# c\n"}[r.Intn(4)])
		sb.WriteString("put")
		for j := r.Range(1, 3); j > 0; j-- {
			sb.WriteString(" " + randLambda(r, 2))
		}
		sb.WriteString([]string{"", " ", "\n", " # end"}[r.Intn(4)])
		emit("closrc", hexE(sb.String()), printable(sb.String()))
	}
}

// printable: the non-ASCII code points of src for which unicode.IsPrint holds
// (the value of the C01 parser model's IsPrint parameter on this source).
func printable(src string) string {
	set := map[rune]bool{}
	for i := 0; i < len(src); i++ {
		r, _ := utf8.DecodeRuneInString(src[i:])
		if r >= 0x80 && unicode.IsPrint(r) {
			set[r] = true
		}
	}
	if len(set) == 0 {
		return "-"
	}
	var l []int
	for r := range set {
		l = append(l, int(r))
	}
	sort.Ints(l)
	ss := make([]string, len(l))
	for i, x := range l {
		ss[i] = strconv.Itoa(x)
	}
	return strings.Join(ss, ",")
}

// ---------------------------------------------------------------------------
// implementation side

func implDocMerge(f []string) string {
	out := doc.VerifSortAndMergeMatches(parseRanges(f[1]))
	return "OK " + fmtRanges(out)
}

func implDocShow(f []string) string {
	return "OK " + hexE(doc.VerifShow(unhexE(f[2]), f[1] == "1", parseRanges(f[3])))
}

func implDocFind(f []string) string {
	markdown := unhexE(f[1])
	if fmtBlocks(renderBlocks(markdown)) != f[2] {
		return "BLOCKS-MISMATCH " + fmtBlocks(renderBlocks(markdown))
	}
	var qs []string
	for _, q := range splitField(f[3]) {
		qs = append(qs, unhexE(q))
	}
	out, ok := doc.VerifMatchShow(markdown, qs)
	if !ok {
		return "NOMATCH"
	}
	return "OK " + fmtQueries(out)
}

// separated reports whether rs is ordered, non-overlapping and inside [0, n]:
// what matchedBlock.Show needs (lastTo <= m.From).  Touching ranges are fine
// for Show; the unchanged sortAndMergeMatches never returns them (the theorem
// proves the strict version).
func separated(rs [][2]int, n int) bool {
	lo := 0
	for _, r := range rs {
		if r[0] < lo || r[1] < r[0] || r[1] > n {
			return false
		}
		lo = r[1]
	}
	return true
}

func oracleDoc(f []string, out, pmsg string) (string, string) {
	crashed := out == "PANIC" || out == "TIMEOUT"
	switch f[0] {
	case "docmerge":
		rs := parseRanges(f[1])
		valid, hi := len(rs) > 0, 0
		for _, r := range rs {
			if r[0] < 0 || r[1] < r[0] {
				valid = false
			}
			if r[1] > hi {
				hi = r[1]
			}
		}
		if !valid {
			return "", ""
		}
		if crashed {
			return "panic-doc-find", "sortAndMergeMatches " + f[1] + ": " + out + " " + pmsg
		}
		merged := parseRanges(strings.TrimPrefix(out, "OK "))
		if len(merged) == 0 || !separated(merged, hi) {
			return "doc-find-overlapping-matches", "sortAndMergeMatches(" + f[1] + ") = " + fmtRanges(merged) +
				": not ordered and non-overlapping (matchedBlock.Show slices Text[lastTo:m.From])"
		}
	case "docshow":
		if crashed && separated(parseRanges(f[3]), len(unhexE(f[2]))) {
			return "panic-doc-find", fmt.Sprintf("matchedBlock.Show text=%q code=%s matches=%s: %s %s", unhexE(f[2]), f[1], f[3], out, pmsg)
		}
	case "docfind":
		if crashed || strings.HasPrefix(out, "BLOCKS-MISMATCH") {
			var qs []string
			for _, q := range splitField(f[3]) {
				qs = append(qs, fmt.Sprintf("%q", unhexE(q)))
			}
			return "panic-doc-find", fmt.Sprintf("doc:find %s on documentation %q: %s %s", strings.Join(qs, " "), unhexE(f[1]), out, pmsg)
		}
	}
	return "", ""
}

func tagDoc(f []string, out string) string {
	switch f[0] {
	case "docmerge":
		if !strings.HasPrefix(out, "OK ") {
			return "docmerge-" + out
		}
		in, res := len(parseRanges(f[1])), len(parseRanges(strings.TrimPrefix(out, "OK ")))
		switch {
		case in == 1:
			return "docmerge-single"
		case res == in:
			return "docmerge-all-disjoint"
		case res == 1:
			return "docmerge-all-merged"
		}
		return "docmerge-some-merged"
	case "docshow":
		if !strings.HasPrefix(out, "OK ") {
			return "docshow-" + out
		}
		t := "docshow-text"
		if f[1] == "1" {
			t = "docshow-code"
		}
		if strings.Contains(unhexE(strings.TrimPrefix(out, "OK ")), "… ") {
			t += "-elided"
		}
		return t
	case "docfind":
		switch {
		case out == "NOMATCH":
			return "docfind-nomatch"
		case strings.HasPrefix(out, "OK "):
			return fmt.Sprintf("docfind-%dq-%dblocks", len(splitField(f[3])), len(splitField(strings.TrimPrefix(out, "OK "))))
		}
		return "docfind-" + strings.Fields(out)[0]
	}
	return ""
}

// implCloSrc evaluates the source (`put <lambda>…`) and walks the closures in
// source order: each closure's [def] and [body], then the closures it outputs
// when called.
func implCloSrc(f []string) string {
	src := unhexE(f[1])
	ev := evalutil.NewEvaler()
	res := evalutil.Eval(ev, src, nil)
	if res.Err != nil {
		return "ERR " + strings.ReplaceAll(res.Err.Error(), "\n", " ")
	}
	var items []string
	var walk func(v any, depth int)
	walk = func(v any, depth int) {
		c, ok := v.(*eval.Closure)
		if !ok {
			return
		}
		d, err1 := vals.Index(c, "def")
		b, err2 := vals.Index(c, "body")
		if err1 != nil || err2 != nil {
			items = append(items, "ERR index")
			return
		}
		items = append(items, "def="+hexE(d.(string))+" body="+hexE(b.(string)))
		if depth > 8 {
			return
		}
		evalutil.SetVars(ev, map[string]any{"c17c": c})
		inner := evalutil.Eval(ev, "$c17c (repeat (count $c17c[arg-names]) $nil)", nil)
		if inner.Err != nil {
			items = append(items, "ERR call "+strings.ReplaceAll(inner.Err.Error(), "\n", " "))
			return
		}
		for _, x := range inner.Values {
			walk(x, depth+1)
		}
	}
	for _, v := range res.Values {
		walk(v, 0)
	}
	return strings.Join(append([]string{strconv.Itoa(len(items))}, items...), " | ")
}
