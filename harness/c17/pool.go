package c17

// Parent side of the worker processes: a small pool of children, each
// executing the ops handed to it in order; a child that dies (Go panic on a
// foreign goroutine, fatal error) or hangs is replaced.

import (
	"bufio"
	"io"
	"os"
	"os/exec"
	"strings"
	"sync"
	"time"

	"verifharness/common"
)

type tailBuf struct {
	mu sync.Mutex
	b  []byte
}

func (t *tailBuf) Write(p []byte) (int, error) {
	t.mu.Lock()
	t.b = append(t.b, p...)
	if len(t.b) > 1<<16 {
		t.b = t.b[len(t.b)-1<<15:]
	}
	t.mu.Unlock()
	return len(p), nil
}

func (t *tailBuf) String() string { t.mu.Lock(); defer t.mu.Unlock(); return string(t.b) }

type child struct {
	cmd    *exec.Cmd
	stdin  io.WriteCloser
	stdout *bufio.Reader
	errBuf *tailBuf
}

// workerTmp, when set, is where the workers make their private directories:
// inside the run's scratch directory, which the check removes - a worker that
// is killed (crash, timeout) cannot remove its own.
var workerTmp string

func startChild(extraEnv ...string) (*child, error) {
	cmd := exec.Command(os.Args[0])
	cmd.Env = append(append(os.Environ(), workerEnv+"=1"), extraEnv...)
	if workerTmp != "" {
		cmd.Env = append(cmd.Env, "TMPDIR="+workerTmp)
	}
	stdin, err := cmd.StdinPipe()
	if err != nil {
		return nil, err
	}
	stdout, err := cmd.StdoutPipe()
	if err != nil {
		return nil, err
	}
	eb := &tailBuf{}
	cmd.Stderr = eb
	if err := cmd.Start(); err != nil {
		return nil, err
	}
	return &child{cmd, stdin, bufio.NewReaderSize(stdout, 1<<20), eb}, nil
}

func (ch *child) kill() {
	ch.stdin.Close()
	ch.cmd.Process.Kill()
	ch.cmd.Wait()
}

// crashLine extracts the Go panic / fatal error message from a stderr tail.
func crashLine(stderr string) string {
	for _, l := range strings.Split(stderr, "\n") {
		if strings.HasPrefix(l, "panic: ") || strings.HasPrefix(l, "fatal error: ") {
			return l
		}
	}
	s := strings.TrimSpace(stderr)
	if len(s) > 300 {
		s = s[len(s)-300:]
	}
	return strings.ReplaceAll(s, "\n", " | ")
}

// runInWorkers evaluates codes[i] in worker processes and returns the raw
// answers ("ok", "exc:…", "PANIC …", "HANG …", "CRASH …").
func runInWorkers(codes []string, nworkers int) []string {
	res := make([]string, len(codes))
	var wg sync.WaitGroup
	next := 0
	var mu sync.Mutex
	take := func() int {
		mu.Lock()
		defer mu.Unlock()
		if next >= len(codes) {
			return -1
		}
		next++
		return next - 1
	}
	for w := 0; w < nworkers; w++ {
		wg.Add(1)
		go func() {
			defer wg.Done()
			var ch *child
			defer func() {
				if ch != nil {
					ch.kill()
				}
			}()
			for {
				i := take()
				if i < 0 {
					return
				}
				if ch == nil {
					var err error
					if ch, err = startChild(); err != nil {
						res[i] = "CRASH cannot start worker: " + err.Error()
						continue
					}
				}
				if _, err := io.WriteString(ch.stdin, common.Hex(codes[i])+"\n"); err != nil {
					ch.kill()
					ch = nil
					res[i] = "CRASH worker not accepting ops: " + err.Error()
					continue
				}
				type rd struct {
					line string
					err  error
				}
				rc := make(chan rd, 1)
				go func(r *bufio.Reader) {
					l, err := r.ReadString('\n')
					rc <- rd{l, err}
				}(ch.stdout)
				select {
				case r := <-rc:
					if r.err != nil {
						ch.cmd.Wait()
						res[i] = "CRASH " + crashLine(ch.errBuf.String())
						ch.kill()
						ch = nil
						continue
					}
					res[i] = strings.TrimRight(r.line, "\n")
					if strings.HasPrefix(res[i], "HANG") || strings.HasPrefix(res[i], "PANIC") {
						ch.kill() // the worker exits after these
						ch = nil
					}
				case <-time.After(confirmHangAfter + 30*time.Second):
					ch.kill()
					ch = nil
					res[i] = "HANG unresponsive worker gave no answer"
				}
			}
		}()
	}
	wg.Wait()
	return res
}

// runAlone evaluates one code alone in a fresh worker with the long budget.
func runAlone(code string) string {
	ch, err := startChild("C17_CONFIRM=1")
	if err != nil {
		return "CRASH cannot start worker: " + err.Error()
	}
	defer ch.kill()
	if _, err := io.WriteString(ch.stdin, common.Hex(code)+"\n"); err != nil {
		return "CRASH worker not accepting ops: " + err.Error()
	}
	type rd struct {
		line string
		err  error
	}
	rc := make(chan rd, 1)
	go func() {
		l, err := ch.stdout.ReadString('\n')
		rc <- rd{l, err}
	}()
	select {
	case r := <-rc:
		if r.err != nil {
			ch.cmd.Wait()
			return "CRASH " + crashLine(ch.errBuf.String())
		}
		return strings.TrimRight(r.line, "\n")
	case <-time.After(confirmHangAfter + 30*time.Second):
		return "HANG unresponsive worker gave no answer"
	}
}

// confirm re-runs, alone and with the long budget, every op that did not end
// or crashed in the shared run.  A hang counts only when it is confirmed; a
// crash counts in any case (its message is evidence enough) and the detail
// says whether it reproduces alone.
func confirm(codes []string, raw []string, nworkers int) (unconfirmed int) {
	var idx []int
	for i, r := range raw {
		if strings.HasPrefix(r, "HANG") || strings.HasPrefix(r, "PANIC") || strings.HasPrefix(r, "CRASH") {
			idx = append(idx, i)
		}
	}
	res := make([]string, len(idx))
	var wg sync.WaitGroup
	sem := make(chan struct{}, nworkers)
	for k, i := range idx {
		wg.Add(1)
		sem <- struct{}{}
		go func(k, i int) {
			defer wg.Done()
			res[k] = runAlone(codes[i])
			<-sem
		}(k, i)
	}
	wg.Wait()
	for k, i := range idx {
		again := res[k]
		bad := strings.HasPrefix(again, "HANG") || strings.HasPrefix(again, "PANIC") || strings.HasPrefix(again, "CRASH")
		switch {
		case strings.HasPrefix(raw[i], "HANG"):
			if !bad {
				unconfirmed++
			}
			raw[i] = again // the confirmation run decides
		case bad:
			raw[i] = again + " [reproduces alone]"
		default:
			raw[i] += " [did not reproduce alone: " + again + "]"
		}
	}
	return unconfirmed
}
