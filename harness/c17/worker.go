package c17

// The exploration worker: a child process (this same binary, re-executed with
// C17_WORKER=<dir>) that evaluates elvish code with the real interpreter, one
// op per line.  The code under check may panic on a goroutine the harness does
// not own, exhaust memory or deadlock; running it in a child keeps the harness
// alive and lets it report exactly the op in flight.
//
// Protocol: parent writes "<hex code>\n"; child answers one line
//   ok | exc:<kind> | PANIC <msg> | HANG blocked|busy <where>
// A panic on another goroutine or a fatal error kills the child; the parent
// then reads the message from the child's stderr.

import (
	"bufio"
	"context"
	"errors"
	"fmt"
	"os"
	"path/filepath"
	"reflect"
	"regexp"
	"runtime"
	"runtime/debug"
	"strings"
	"syscall"
	"time"

	"src.elv.sh/pkg/cli"
	"src.elv.sh/pkg/edit"
	"src.elv.sh/pkg/eval"
	"src.elv.sh/pkg/mods"
	"src.elv.sh/pkg/parse"
	"verifharness/common"
)

const workerEnv = "C17_WORKER"

func init() {
	if os.Getenv(workerEnv) != "" {
		workerMain()
		os.Exit(0)
	}
}

// interruptAfter: well-behaved blocking builtins (sleep, benchmark) return
// when the evaluation is interrupted; hangAfter: an op still running then is a
// hang (all goroutines blocked) or a computation that does not end.
const interruptAfter = 400 * time.Millisecond

var hangAfter = 4 * time.Second

// confirmHangAfter is the budget of the confirmation run of an op that did not
// end within hangAfter (alone in a fresh worker): a loaded machine makes
// evaluations slow, it does not make them hang.
const confirmHangAfter = 20 * time.Second

func init() {
	if os.Getenv("C17_CONFIRM") != "" {
		hangAfter = confirmHangAfter
	}
}

type workerState struct {
	root, work string
	baseEnv    []string
	ev, evEdit *eval.Evaler // reused for opsPerEvaler ops
	evOps      int
	fTime      time.Time
	nullIn     *os.File
	nullOut    *os.File
}

// An Evaler is reused for a few ops (building one costs more than most ops);
// every op gets a fresh global namespace.  The parent re-runs a failing op
// alone in a fresh worker, so a failure that depends on an earlier op is
// recognisable.
const opsPerEvaler = 50

func workerMain() {
	// Bound the address space: a runaway allocation must kill this child, not the machine.
	lim := syscall.Rlimit{Cur: 4 << 30, Max: 4 << 30}
	syscall.Setrlimit(syscall.RLIMIT_AS, &lim)
	debug.SetMaxStack(256 << 20)
	root, err := os.MkdirTemp("", "c17-")
	if err != nil {
		fmt.Println("FATAL", err)
		return
	}
	defer os.RemoveAll(root)
	// two levels deep: relative paths of the value pool stay inside root
	w := &workerState{root: root, work: filepath.Join(root, "a", "b")}
	os.MkdirAll(w.work, 0o755)
	os.MkdirAll(filepath.Join(root, "bin"), 0o755)
	os.MkdirAll(filepath.Join(root, "tmp"), 0o755)
	w.baseEnv = []string{
		"HOME=" + w.work, "PATH=" + filepath.Join(root, "bin"), "TMPDIR=" + filepath.Join(root, "tmp"),
		"XDG_CONFIG_HOME=" + filepath.Join(root, "cfg"), "XDG_DATA_HOME=" + filepath.Join(root, "data"),
		"XDG_STATE_HOME=" + filepath.Join(root, "state"), "XDG_RUNTIME_DIR=" + filepath.Join(root, "run"),
		"LANG=C.UTF-8", "USER=c17",
	}
	w.resetProcess()
	w.nullIn, _ = os.Open(os.DevNull)
	w.nullOut, _ = os.OpenFile(os.DevNull, os.O_WRONLY, 0)
	in := bufio.NewReaderSize(os.Stdin, 1<<20)
	out := bufio.NewWriter(os.Stdout)
	n := 0
	for {
		line, err := in.ReadString('\n')
		line = strings.TrimRight(line, "\n")
		if line != "" {
			res := w.execOp(common.Unhex(line))
			fmt.Fprintln(out, res)
			out.Flush()
			if strings.HasPrefix(res, "HANG") || strings.HasPrefix(res, "PANIC") {
				// goroutines of the aborted op may be left behind: start afresh
				os.RemoveAll(root)
				os.Exit(0)
			}
			n++
			if n%200 == 0 {
				runtime.GC()
			}
		}
		if err != nil {
			return
		}
	}
}

// resetProcess restores the process-wide state an op may have changed.
func (w *workerState) resetProcess() {
	os.Clearenv()
	for _, kv := range w.baseEnv {
		k, v, _ := strings.Cut(kv, "=")
		os.Setenv(k, v)
	}
	os.Chdir(w.work)
	syscall.Umask(0o022)
	// fixtures: f (a small text file), d (a directory), everything else removed
	es, _ := os.ReadDir(w.work)
	if len(es) == 2 && es[0].Name() == "d" && es[1].Name() == "f" {
		fi, err1 := es[1].Info()
		di, err2 := es[0].Info()
		if err1 == nil && err2 == nil && fi.Size() == int64(len(fixtureF)) && fi.Mode().Perm() == 0o644 &&
			di.IsDir() && di.Mode().Perm() == 0o755 && fi.ModTime().Equal(w.fTime) {
			if sub, _ := os.ReadDir(filepath.Join(w.work, "d")); len(sub) == 0 {
				return
			}
		}
	}
	for _, e := range es {
		if e.Name() != "f" && e.Name() != "d" {
			os.Chmod(filepath.Join(w.work, e.Name()), 0o755)
			os.RemoveAll(filepath.Join(w.work, e.Name()))
		}
	}
	os.Chmod(filepath.Join(w.work, "d"), 0o755)
	os.RemoveAll(filepath.Join(w.work, "d"))
	os.Mkdir(filepath.Join(w.work, "d"), 0o755)
	os.Remove(filepath.Join(w.work, "f"))
	os.WriteFile(filepath.Join(w.work, "f"), []byte(fixtureF), 0o644)
	if fi, err := os.Stat(filepath.Join(w.work, "f")); err == nil {
		w.fTime = fi.ModTime()
	}
}

const fixtureF = "line one\nline two\n\xff\xfe bad utf8\n"

// evaler builds an Evaler the way pkg/shell does for a script, plus the
// editor's namespace on a terminal nobody reads (so that `edit:` functions can
// be called) when the code mentions it.
func (w *workerState) evaler(code string) *eval.Evaler {
	if w.evOps >= opsPerEvaler {
		w.ev, w.evEdit, w.evOps = nil, nil, 0
	}
	w.evOps++
	if strings.Contains(code, "edit:") {
		if w.evEdit == nil {
			w.evEdit = eval.NewEvaler()
			mods.AddTo(w.evEdit)
			null, _ := os.OpenFile(os.DevNull, os.O_RDWR, 0)
			ed := edit.NewEditor(cli.NewTTY(null, null), w.evEdit, nil)
			w.evEdit.ExtendBuiltin(eval.BuildNs().AddNs("edit", ed))
		}
		return w.evEdit
	}
	if w.ev == nil {
		w.ev = eval.NewEvaler()
		mods.AddTo(w.ev)
	}
	return w.ev
}

var goroutineHeader = regexp.MustCompile(`(?m)^goroutine (\d+) \[([^\],]+)`)

// classifyHang reads a dump of all goroutines: "busy" when some goroutine
// other than the watchdog is running or runnable, "blocked" when every
// goroutine waits (channel, select, semaphore, IO wait, sleep).
func classifyHang(selfID string) (string, string) {
	buf := make([]byte, 1<<20)
	buf = buf[:runtime.Stack(buf, true)]
	busy := false
	where := ""
	for _, g := range strings.Split(string(buf), "\n\n") {
		m := goroutineHeader.FindStringSubmatch(g)
		if m == nil || m[1] == selfID {
			continue
		}
		if m[2] == "running" || m[2] == "runnable" {
			busy = true
		}
		// first elvish frame of a goroutine that is inside pkg/eval or a module
		if where == "" && strings.Contains(g, "src.elv.sh/pkg/") {
			for _, l := range strings.Split(g, "\n") {
				if strings.HasPrefix(l, "src.elv.sh/pkg/") && !strings.Contains(l, "getBlackholeChan") &&
					!strings.Contains(l, "PipePort") {
					where = m[2] + " in " + strings.SplitN(strings.TrimPrefix(l, "src.elv.sh/pkg/"), "(", 2)[0]
					break
				}
			}
		}
	}
	if busy {
		return "busy", where
	}
	return "blocked", where
}

func goid() string {
	buf := make([]byte, 64)
	buf = buf[:runtime.Stack(buf, false)]
	f := strings.Fields(string(buf))
	if len(f) > 1 {
		return f[1]
	}
	return ""
}

func excKind(err error) string {
	if err == nil {
		return "ok"
	}
	var exc eval.Exception
	if errors.As(err, &exc) {
		r := exc.Reason()
		t := reflect.TypeOf(r)
		if t == nil {
			return "exc:nil"
		}
		name := t.String()
		if name == "*errors.errorString" || name == "*fmt.wrapError" {
			return "exc:error"
		}
		return "exc:" + name
	}
	if parse.UnpackErrors(err) != nil {
		return "parse-error"
	}
	if eval.UnpackCompilationErrors(err) != nil {
		return "compile-error"
	}
	return "err:" + reflect.TypeOf(err).String()
}

func (w *workerState) execOp(code string) (res string) {
	defer w.resetProcess()
	type result struct{ out string }
	done := make(chan result, 1)
	go func() {
		defer func() {
			if r := recover(); r != nil {
				fmt.Fprintln(os.Stderr, "panic (recovered by the worker):", r)
				done <- result{"PANIC " + strings.ReplaceAll(fmt.Sprint(r), "\n", " ")}
			}
		}()
		ev := w.evaler(code)
		// ports made like pkg/shell makes them from the three standard files
		ports, cleanup := eval.PortsFromFiles([3]*os.File{w.nullIn, w.nullOut, w.nullOut}, "▶ ")
		ctx, cancel := context.WithTimeout(context.Background(), interruptAfter)
		err := ev.Eval(parse.Source{Name: "[c17]", Code: code},
			eval.EvalCfg{Ports: ports, Interrupts: ctx,
				Global: eval.BuildNs().Ns()})
		cancel()
		cleanup()
		done <- result{excKind(err)}
	}()
	select {
	case r := <-done:
		return r.out
	case <-time.After(hangAfter):
		kind, where := classifyHang(goid())
		return "HANG " + kind + " " + where
	}
}
