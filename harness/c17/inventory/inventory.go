// Package inventory regenerates the PARTIAL-OPERATION INVENTORY of C17 from
// the working tree of elvish: for the files that define the registered
// builtins and module functions (and the call glue around them) it lists every
// Go operation that can panic or kill the process — index and slice
// expressions, integer division/remainder, unchecked type assertions,
// explicit panic calls, channel sends and closes, and calls into a deny-list
// of panicking library functions.
//
// go/ast + go/parser + go/printer only (no type information): where a type
// would be needed the site is listed anyway and its status in the baseline
// says why it is harmless (e.g. "reviewed:map-index").
//
// A site is keyed by file:function:kind:<expression text>#<n> — NOT by line
// number — so that unrelated edits do not shift it; n counts identical
// expression texts within the function.
package inventory

import (
	"bytes"
	"crypto/sha256"
	"encoding/hex"
	"fmt"
	"go/ast"
	"go/parser"
	"go/printer"
	"go/token"
	"os"
	"path/filepath"
	"reflect"
	"sort"
	"strings"
)

// Site is one partial operation in the source.
type Site struct {
	File string // path relative to the repository root
	Func string // enclosing top-level function ("T.m" for methods, "<global>" otherwise)
	Kind string
	Text string // normalised source text of the expression
	N    int    // ordinal among equal (File, Func, Kind, Text)
	Line int    // informational only
	// Guards is the GUARD FINGERPRINT of the site: the conditions under which
	// control reaches it, as far as the syntax of the enclosing declaration
	// tells — from the outermost to the innermost, the enclosing
	// if/else/switch-case/for/range headers and short-circuit operands, and
	// every `if` / `switch` statement that precedes the site in one of its
	// enclosing blocks (the early exits `if len(xs) != 2 { return }` and the
	// clamps `if i > len(s) { i = len(s) }`).  A site that the baseline lists
	// as reviewed was read WITH these guards in place: the baseline records the
	// fingerprint, and a site whose fingerprint differs is `guard-changed`.
	Guards []string
}

// GuardText is the fingerprint as one line ("-" when the site has no guard).
func (s Site) GuardText() string {
	if len(s.Guards) == 0 {
		return "-"
	}
	return strings.Join(s.Guards, " ;; ")
}

// GuardHash is a short hash of GuardText (what the baseline compares).
func (s Site) GuardHash() string {
	h := sha256.Sum256([]byte(s.GuardText()))
	return hex.EncodeToString(h[:6])
}

// Key is the baseline key of the site.
func (s Site) Key() string {
	return fmt.Sprintf("%s:%s:%s:%s#%d", s.File, s.Func, s.Kind, s.Text, s.N)
}

// Globs are the files in scope, relative to the repository root.
var Globs = []string{
	"pkg/eval/builtin_fn_*.go",
	"pkg/mods/*/*.go",
	"pkg/eval/go_fn.go",
	"pkg/eval/closure.go",
	"pkg/eval/compile_effect.go",
	"pkg/eval/port.go",
	"pkg/eval/options.go",
	"pkg/strutil/subseq.go",
	"pkg/edit/completion.go",
}

// deny-listed library functions: pkg.Func selectors …
var denyQualified = map[string]bool{
	"strings.Repeat": true, "bytes.Repeat": true,
	"regexp.MustCompile": true, "big.NewRat": true,
	"reflect.New": true, "reflect.MakeSlice": true,
	"os.Exit": true, "syscall.Exec": true, "syscall.Kill": true,
	"debug.SetGCPercent": true, "runtime.GC": true,
}

// … and method names that panic on some receivers/arguments whatever the
// package (big.Rat.Inv/Quo/SetFrac, big.Int.Quo/Rem/Div/Mod/Exp/Lsh,
// semaphore.Release).
var denyMethods = map[string]bool{
	"Inv": true, "Quo": true, "SetFrac": true, "QuoRem": true, "DivMod": true,
	"Div": true, "Mod": true, "Rem": true, "Exp": true, "Lsh": true,
	"Release": true, "MustCompile": true,
}

// … and, in files that import "reflect", the reflection calls that panic on a
// value of the wrong kind or a wrong argument vector.
var denyReflectMethods = map[string]bool{"Call": true, "Elem": true, "Index": true, "Field": true, "Interface": true}

// Scan lists the sites of every file in scope, in a deterministic order.
func Scan(repo string) ([]Site, error) {
	var files []string
	seen := map[string]bool{}
	for _, g := range Globs {
		m, err := filepath.Glob(filepath.Join(repo, g))
		if err != nil {
			return nil, err
		}
		for _, f := range m {
			base := filepath.Base(f)
			if strings.HasSuffix(base, "_test.go") || strings.Contains(base, "verif") || seen[f] {
				continue
			}
			seen[f] = true
			files = append(files, f)
		}
	}
	sort.Strings(files)
	if len(files) == 0 {
		return nil, fmt.Errorf("inventory: no source files under %s", repo)
	}
	var sites []Site
	for _, f := range files {
		rel, _ := filepath.Rel(repo, f)
		s, err := scanFile(f, filepath.ToSlash(rel))
		if err != nil {
			return nil, err
		}
		sites = append(sites, s...)
	}
	return sites, nil
}

func scanFile(path, rel string) ([]Site, error) {
	src, err := os.ReadFile(path)
	if err != nil {
		return nil, err
	}
	fset := token.NewFileSet()
	file, err := parser.ParseFile(fset, path, src, parser.SkipObjectResolution)
	if err != nil {
		return nil, err
	}
	// a file compiled only under the verif tag is a hook, not product code
	for _, cg := range file.Comments {
		if cg.Pos() > file.Package {
			break
		}
		for _, c := range cg.List {
			if strings.HasPrefix(c.Text, "//go:build") && strings.Contains(c.Text, "verif") && !strings.Contains(c.Text, "!verif") {
				return nil, nil
			}
		}
	}
	sc := &scanner{fset: fset, rel: rel, maps: mapNames(file), counts: map[string]int{}}
	for _, im := range file.Imports {
		if im.Path.Value == `"reflect"` {
			sc.reflect = true
		}
	}
	for _, d := range file.Decls {
		switch d := d.(type) {
		case *ast.FuncDecl:
			sc.fn = funcName(d)
			if strings.HasPrefix(d.Name.Name, "verif") || strings.HasPrefix(d.Name.Name, "Verif") {
				continue
			}
			if d.Body != nil {
				sc.walk(d.Body)
			}
		case *ast.GenDecl:
			sc.fn = "<global>"
			sc.walk(d)
		}
	}
	return sc.sites, nil
}

func funcName(d *ast.FuncDecl) string {
	if d.Recv == nil || len(d.Recv.List) == 0 {
		return d.Name.Name
	}
	t := d.Recv.List[0].Type
	for {
		switch x := t.(type) {
		case *ast.StarExpr:
			t = x.X
			continue
		case *ast.IndexExpr:
			t = x.X
			continue
		case *ast.Ident:
			return x.Name + "." + d.Name.Name
		}
		return "?." + d.Name.Name
	}
}

// mapNames collects identifiers (variables, fields, parameters) that the file
// declares with a map type, so that m[k] on them is classified "mapindex".
func mapNames(file *ast.File) map[string]bool {
	names := map[string]bool{}
	isMap := func(t ast.Expr) bool {
		_, ok := t.(*ast.MapType)
		return ok
	}
	isMapValue := func(e ast.Expr) bool {
		switch v := e.(type) {
		case *ast.CompositeLit:
			return v.Type != nil && isMap(v.Type)
		case *ast.CallExpr:
			if id, ok := v.Fun.(*ast.Ident); ok && id.Name == "make" && len(v.Args) > 0 {
				return isMap(v.Args[0])
			}
		}
		return false
	}
	ast.Inspect(file, func(n ast.Node) bool {
		switch n := n.(type) {
		case *ast.Field:
			if isMap(n.Type) {
				for _, id := range n.Names {
					names[id.Name] = true
				}
			}
		case *ast.ValueSpec:
			for i, id := range n.Names {
				if (n.Type != nil && isMap(n.Type)) || (i < len(n.Values) && isMapValue(n.Values[i])) {
					names[id.Name] = true
				}
			}
		case *ast.AssignStmt:
			if n.Tok == token.DEFINE && len(n.Lhs) == len(n.Rhs) {
				for i, l := range n.Lhs {
					if id, ok := l.(*ast.Ident); ok && isMapValue(n.Rhs[i]) {
						names[id.Name] = true
					}
				}
			}
		}
		return true
	})
	return names
}

type scanner struct {
	fset    *token.FileSet
	rel     string
	fn      string
	maps    map[string]bool
	reflect bool
	counts  map[string]int
	sites   []Site
	// type assertions that are checked (v, ok := x.(T)) or part of a type switch
	checked map[*ast.TypeAssertExpr]bool
	// ancestors of the node being visited (outermost first), the node itself last
	stack []ast.Node
	// assignments of the declaration being walked, by assigned identifier
	defs map[string][]string
	// the expressions the guards of the current site consist of
	guardNodes []ast.Node
}

func (sc *scanner) text(n ast.Node) string {
	var b bytes.Buffer
	printer.Fprint(&b, sc.fset, n)
	s := strings.Join(strings.Fields(b.String()), " ")
	s = strings.ReplaceAll(s, ":", "∶") // keep ':' as the key separator
	if r := []rune(s); len(r) > 90 {
		s = string(r[:90]) + "…"
	}
	return s
}

func (sc *scanner) add(kind string, n ast.Node) {
	t := sc.text(n)
	k := sc.fn + "\x00" + kind + "\x00" + t
	ord := sc.counts[k]
	sc.counts[k] = ord + 1
	sc.sites = append(sc.sites, Site{File: sc.rel, Func: sc.fn, Kind: kind, Text: t, N: ord,
		Line: sc.fset.Position(n.Pos()).Line, Guards: sc.guards()})
}

// full source text of a node on one line (not truncated: guards are compared)
func (sc *scanner) src(n ast.Node) string {
	if n == nil || reflect.ValueOf(n).IsNil() {
		return ""
	}
	var b bytes.Buffer
	printer.Fprint(&b, sc.fset, n)
	return strings.Join(strings.Fields(b.String()), " ")
}

// terminates: the statement list ends by leaving the enclosing block
// (return / break / continue / goto / panic(…) / os.Exit(…)).
func terminates(list []ast.Stmt) bool {
	if len(list) == 0 {
		return false
	}
	switch s := list[len(list)-1].(type) {
	case *ast.ReturnStmt, *ast.BranchStmt:
		return true
	case *ast.ExprStmt:
		if c, ok := s.X.(*ast.CallExpr); ok {
			if id, ok := c.Fun.(*ast.Ident); ok && id.Name == "panic" {
				return true
			}
			if sel, ok := c.Fun.(*ast.SelectorExpr); ok && sel.Sel.Name == "Exit" {
				return true
			}
		}
	case *ast.BlockStmt:
		return terminates(s.List)
	case *ast.IfStmt:
		if s.Else == nil {
			return false
		}
		eb, ok := s.Else.(*ast.BlockStmt)
		if !ok {
			return terminates(s.Body.List) && terminates([]ast.Stmt{s.Else})
		}
		return terminates(s.Body.List) && terminates(eb.List)
	}
	return false
}

func (sc *scanner) header(init ast.Stmt, cond ast.Expr) string {
	if cond != nil {
		sc.guardNodes = append(sc.guardNodes, cond)
	}
	if init != nil {
		sc.guardNodes = append(sc.guardNodes, init)
	}
	h := sc.src(cond)
	if init != nil {
		h = sc.src(init) + "; " + h
	}
	return h
}

// effect of a branch on what follows it: "→exit" when it leaves, the text of a
// short body (a clamp, a default) otherwise
func (sc *scanner) effect(list []ast.Stmt) string {
	switch {
	case terminates(list):
		return " →exit"
	case len(list) == 1:
		if t := sc.src(list[0]); len(t) <= 80 {
			return " { " + t + " }"
		}
	}
	return " {…}"
}

// preceding describes an if/switch statement that comes before the site in one
// of its enclosing blocks.
func (sc *scanner) preceding(s ast.Stmt) (string, bool) {
	switch s := s.(type) {
	case *ast.IfStmt:
		t := "pre-if " + sc.header(s.Init, s.Cond) + sc.effect(s.Body.List)
		switch e := s.Else.(type) {
		case *ast.BlockStmt:
			t += " else" + sc.effect(e.List)
		case *ast.IfStmt:
			if inner, ok := sc.preceding(e); ok {
				t += " else " + strings.TrimPrefix(inner, "pre-")
			}
		}
		return t, true
	case *ast.SwitchStmt:
		t := "pre-switch " + sc.header(s.Init, s.Tag)
		for _, c := range s.Body.List {
			cc := c.(*ast.CaseClause)
			t += " | " + sc.caseText(cc) + sc.effect(cc.Body)
		}
		return t, true
	case *ast.LabeledStmt:
		return sc.preceding(s.Stmt)
	}
	return "", false
}

func (sc *scanner) caseText(cc *ast.CaseClause) string {
	if cc.List == nil {
		return "default"
	}
	var xs []string
	for _, e := range cc.List {
		xs = append(xs, sc.src(e))
	}
	return "case " + strings.Join(xs, ", ")
}

// guards computes the fingerprint of the node on top of the stack.
func (sc *scanner) guards() []string {
	var gs []string
	sc.guardNodes = sc.guardNodes[:0]
	defer func() { sc.guardNodes = sc.guardNodes[:0] }()
	before := func(list []ast.Stmt, child ast.Node) {
		for _, st := range list {
			if st == child {
				break
			}
			if t, ok := sc.preceding(st); ok {
				gs = append(gs, t)
			}
		}
	}
	for i := 0; i+1 < len(sc.stack); i++ {
		a, child := sc.stack[i], sc.stack[i+1]
		switch a := a.(type) {
		case *ast.BlockStmt:
			before(a.List, child)
		case *ast.IfStmt:
			switch child {
			case ast.Node(a.Body):
				gs = append(gs, "if "+sc.header(a.Init, a.Cond))
			case a.Else:
				gs = append(gs, "else-of "+sc.header(a.Init, a.Cond))
			}
		case *ast.SwitchStmt:
			if child == ast.Node(a.Body) {
				gs = append(gs, "switch "+sc.header(a.Init, a.Tag))
			}
		case *ast.TypeSwitchStmt:
			if child == ast.Node(a.Body) {
				gs = append(gs, "typeswitch "+sc.src(a.Assign))
			}
		case *ast.CaseClause:
			inBody := false
			for _, st := range a.Body {
				if st == child {
					inBody = true
				}
			}
			if !inBody {
				break
			}
			// the clauses tried before this one, then this one
			if i >= 1 {
				if blk, ok := sc.stack[i-1].(*ast.BlockStmt); ok {
					for _, c := range blk.List {
						cc, ok := c.(*ast.CaseClause)
						if !ok || cc == a {
							break
						}
						gs = append(gs, "after-"+sc.caseText(cc))
					}
				}
			}
			gs = append(gs, sc.caseText(a))
			before(a.Body, child)
		case *ast.CommClause:
			before(a.Body, child)
		case *ast.ForStmt:
			if child == ast.Node(a.Body) {
				h := sc.src(a.Cond)
				if a.Init != nil || a.Post != nil {
					h = sc.src(a.Init) + "; " + h + "; " + sc.src(a.Post)
				}
				gs = append(gs, "for "+h)
				if a.Cond != nil {
					sc.guardNodes = append(sc.guardNodes, a.Cond)
				}
			}
		case *ast.RangeStmt:
			if child == ast.Node(a.Body) {
				h := "range " + sc.src(a.X)
				if a.Key != nil {
					kv := sc.src(a.Key)
					if a.Value != nil {
						kv += ", " + sc.src(a.Value)
					}
					h = kv + " " + a.Tok.String() + " " + h
				}
				gs = append(gs, "for "+h)
			}
		case *ast.BinaryExpr:
			if (a.Op == token.LAND || a.Op == token.LOR) && child == ast.Node(a.Y) {
				gs = append(gs, "after "+sc.src(a.X)+" "+a.Op.String())
				sc.guardNodes = append(sc.guardNodes, a.X)
			}
		}
	}
	// where the identifiers of the guards and of the site itself get their
	// values (`isVar := strings.HasPrefix(qname, "$")`, `elems, err :=
	// vals.Collect(v)`): a guard through a variable is only as good as the
	// variable's definition
	if len(sc.stack) > 0 {
		sc.guardNodes = append(sc.guardNodes, sc.stack[len(sc.stack)-1])
	}
	names := map[string]bool{}
	for _, n := range sc.guardNodes {
		ast.Inspect(n, func(m ast.Node) bool {
			switch m := m.(type) {
			case *ast.FuncLit:
				return false
			case *ast.Ident:
				names[m.Name] = true
			}
			return true
		})
	}
	var where []string
	seen := map[string]bool{}
	for name := range names {
		if name == "err" || name == "ok" {
			continue // assigned all over a function; checked right where they are assigned
		}
		for _, d := range sc.defs[name] {
			if !seen[d] {
				seen[d] = true
				where = append(where, "where "+d)
			}
		}
	}
	sort.Strings(where)
	return append(gs, where...)
}

func lastName(e ast.Expr) string {
	switch x := e.(type) {
	case *ast.Ident:
		return x.Name
	case *ast.SelectorExpr:
		return x.Sel.Name
	}
	return ""
}

func isFloaty(e ast.Expr) bool {
	switch x := e.(type) {
	case *ast.BasicLit:
		return x.Kind == token.FLOAT
	case *ast.ParenExpr:
		return isFloaty(x.X)
	case *ast.CallExpr:
		if id, ok := x.Fun.(*ast.Ident); ok && (id.Name == "float64" || id.Name == "float32") {
			return true
		}
		if s, ok := x.Fun.(*ast.SelectorExpr); ok {
			if p, ok := s.X.(*ast.Ident); ok && p.Name == "math" {
				return true
			}
			if s.Sel.Name == "Seconds" || s.Sel.Name == "Float64" {
				return true
			}
		}
	case *ast.BinaryExpr:
		return isFloaty(x.X) || isFloaty(x.Y)
	}
	return false
}

func isConstSize(e ast.Expr) bool {
	switch x := e.(type) {
	case *ast.BasicLit:
		return true
	case *ast.Ident:
		// an upper/lower-case constant cannot be told from a variable without
		// types: treat identifiers as dynamic
		return false
	case *ast.ParenExpr:
		return isConstSize(x.X)
	}
	return false
}

func (sc *scanner) walk(root ast.Node) {
	sc.checked = map[*ast.TypeAssertExpr]bool{}
	sc.defs = map[string][]string{}
	addDef := func(lhs []ast.Expr, n ast.Node) {
		t := sc.src(n)
		if r := []rune(t); len(r) > 160 {
			h := sha256.Sum256([]byte(t))
			t = string(r[:160]) + "…#" + hex.EncodeToString(h[:4])
		}
		for _, l := range lhs {
			if id, ok := l.(*ast.Ident); ok && id.Name != "_" {
				sc.defs[id.Name] = append(sc.defs[id.Name], t)
			}
		}
	}
	ast.Inspect(root, func(n ast.Node) bool {
		switch n := n.(type) {
		case *ast.AssignStmt:
			addDef(n.Lhs, n)
		case *ast.IncDecStmt:
			addDef([]ast.Expr{n.X}, n)
		case *ast.ValueSpec:
			for _, id := range n.Names {
				addDef([]ast.Expr{id}, n)
			}
		}
		return true
	})
	// first pass: mark checked assertions
	ast.Inspect(root, func(n ast.Node) bool {
		switch n := n.(type) {
		case *ast.AssignStmt:
			if len(n.Lhs) == 2 && len(n.Rhs) == 1 {
				if ta, ok := n.Rhs[0].(*ast.TypeAssertExpr); ok {
					sc.checked[ta] = true
				}
			}
		case *ast.ValueSpec:
			if len(n.Names) == 2 && len(n.Values) == 1 {
				if ta, ok := n.Values[0].(*ast.TypeAssertExpr); ok {
					sc.checked[ta] = true
				}
			}
		case *ast.TypeSwitchStmt:
			ast.Inspect(n.Assign, func(m ast.Node) bool {
				if ta, ok := m.(*ast.TypeAssertExpr); ok && ta.Type == nil {
					sc.checked[ta] = true
				}
				return true
			})
		}
		return true
	})
	sc.stack = sc.stack[:0]
	ast.Inspect(root, func(n ast.Node) bool {
		if n == nil {
			sc.stack = sc.stack[:len(sc.stack)-1]
			return true
		}
		sc.stack = append(sc.stack, n)
		switch n := n.(type) {
		case *ast.FuncLit, *ast.FuncDecl:
			// nested literals belong to the enclosing declaration
		case *ast.IndexExpr:
			// generic instantiation f[T] cannot be told apart syntactically; the
			// files in scope have none on the expression level
			if name := lastName(n.X); name != "" && sc.maps[name] {
				sc.add("mapindex", n)
			} else {
				sc.add("index", n)
			}
		case *ast.SliceExpr:
			sc.add("slice", n)
		case *ast.BinaryExpr:
			if (n.Op == token.QUO || n.Op == token.REM) && !isFloaty(n.X) && !isFloaty(n.Y) {
				sc.add("intdiv", n)
			}
		case *ast.AssignStmt:
			if (n.Tok == token.QUO_ASSIGN || n.Tok == token.REM_ASSIGN) && !isFloaty(n.Rhs[0]) {
				sc.add("intdiv", n)
			}
		case *ast.TypeAssertExpr:
			if n.Type != nil && !sc.checked[n] {
				sc.add("assert", n)
			}
		case *ast.SendStmt:
			sc.add("send", n)
		case *ast.CallExpr:
			switch f := n.Fun.(type) {
			case *ast.Ident:
				switch f.Name {
				case "panic":
					sc.add("panic", n)
				case "close":
					sc.add("close", n)
				case "make":
					for _, a := range n.Args[1:] {
						if !isConstSize(a) {
							sc.add("make", n)
							break
						}
					}
				}
			case *ast.SelectorExpr:
				q := ""
				if p, ok := f.X.(*ast.Ident); ok {
					q = p.Name + "." + f.Sel.Name
				}
				switch {
				case denyQualified[q]:
					if q == "regexp.MustCompile" && len(n.Args) == 1 {
						if _, lit := n.Args[0].(*ast.BasicLit); lit {
							break // a literal pattern is checked by the package's tests
						}
					}
					sc.add("libcall", n)
				case denyMethods[f.Sel.Name], sc.reflect && denyReflectMethods[f.Sel.Name]:
					sc.add("libcall", n)
				}
			}
		}
		return true
	})
}

// Entry is one line of the committed baseline.
type Entry struct {
	Key    string
	Status string // covered-by:<theorem> | reviewed:<reason> | uncovered
	// for reviewed sites: the guard fingerprint the review was made with
	// ("" = the baseline records none)
	GuardHash, GuardText string
}

// NeedsGuards: the statuses whose justification is a reading of the code
// around the site (a theorem is tied to the code by the correspondence run
// instead; an uncovered site claims nothing).
func NeedsGuards(status string) bool { return strings.HasPrefix(status, "reviewed:") }

// GuardStatus compares a site of the tree with its baseline entry:
// "" (same guards / not applicable), "guard-changed", "guard-unrecorded".
func GuardStatus(s Site, e Entry) string {
	switch {
	case !NeedsGuards(e.Status):
		return ""
	case e.GuardHash == "":
		return "guard-unrecorded"
	case e.GuardHash != s.GuardHash():
		return "guard-changed"
	}
	return ""
}

// GuardDiff names the guards the baseline has and the tree lacks, and vice versa.
func GuardDiff(s Site, e Entry) string {
	old := map[string]int{}
	var oldList []string
	if e.GuardText != "-" && e.GuardText != "" {
		oldList = strings.Split(e.GuardText, " ;; ")
	}
	for _, g := range oldList {
		old[g]++
	}
	var added []string
	for _, g := range s.Guards {
		if old[g] > 0 {
			old[g]--
		} else {
			added = append(added, g)
		}
	}
	var removed []string
	for _, g := range oldList {
		if old[g] > 0 {
			old[g]--
			removed = append(removed, g)
		}
	}
	q := func(xs []string) string {
		if len(xs) == 0 {
			return "none"
		}
		return "`" + strings.Join(xs, "`, `") + "`"
	}
	if len(added) == 0 && len(removed) == 0 {
		return "the same guards in another order"
	}
	return "guards no longer there: " + q(removed) + "; guards not in the baseline: " + q(added)
}

// FormatEntry is the baseline line of a site with the given status.
func FormatEntry(s Site, status string) string {
	if NeedsGuards(status) {
		return s.Key() + "\t" + status + "\tg=" + s.GuardHash() + "\t" + s.GuardText()
	}
	return s.Key() + "\t" + status
}

// ReadBaselineFull parses harness/c17/inventory_baseline.txt: one site per
// line, "<key>\t<status>[\tg=<guard hash>\t<guard text>]"; lines starting with
// '#' are comments.
func ReadBaselineFull(path string) (map[string]Entry, []string, error) {
	data, err := os.ReadFile(path)
	if err != nil {
		return nil, nil, err
	}
	m := map[string]Entry{}
	var order []string
	for i, l := range strings.Split(string(data), "\n") {
		if l == "" || strings.HasPrefix(l, "#") {
			continue
		}
		p := strings.Split(l, "\t")
		if len(p) < 2 {
			return nil, nil, fmt.Errorf("%s:%d: want <key>TAB<status>", path, i+1)
		}
		st := p[1]
		if !(strings.HasPrefix(st, "covered-by:") || strings.HasPrefix(st, "reviewed:") || st == "uncovered") {
			return nil, nil, fmt.Errorf("%s:%d: bad status %q", path, i+1, st)
		}
		if _, dup := m[p[0]]; dup {
			return nil, nil, fmt.Errorf("%s:%d: duplicate key", path, i+1)
		}
		e := Entry{Key: p[0], Status: st}
		if len(p) >= 3 {
			if !strings.HasPrefix(p[2], "g=") {
				return nil, nil, fmt.Errorf("%s:%d: third column must be g=<guard hash>", path, i+1)
			}
			e.GuardHash = strings.TrimPrefix(p[2], "g=")
			if len(p) >= 4 {
				e.GuardText = p[3]
				// the text is what a reader reviews, the hash is what is compared: they must agree
				h := sha256.Sum256([]byte(e.GuardText))
				if hex.EncodeToString(h[:6]) != e.GuardHash {
					return nil, nil, fmt.Errorf("%s:%d: guard hash does not match the guard text", path, i+1)
				}
			}
		}
		m[p[0]] = e
		order = append(order, p[0])
	}
	return m, order, nil
}

// ReadBaseline returns the statuses only.
func ReadBaseline(path string) (map[string]string, []string, error) {
	full, order, err := ReadBaselineFull(path)
	if err != nil {
		return nil, nil, err
	}
	m := map[string]string{}
	for k, e := range full {
		m[k] = e.Status
	}
	return m, order, nil
}
