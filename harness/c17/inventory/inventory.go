// Package inventory regenerates the PARTIAL-OPERATION INVENTORY of C17 from
// the working tree of elvish: for the files that define the registered
// builtins and module functions (and the call glue around them) it lists every
// Go operation that can panic or kill the process — index and slice
// expressions, integer division/remainder, unchecked type assertions,
// explicit panic calls, channel sends and closes, and calls into a deny-list
// of panicking library functions.
//
// go/ast + go/parser + go/printer only (no type information): where a type
// would be needed the site is listed anyway and its status in the baseline
// says why it is harmless (e.g. "reviewed:map-index").
//
// A site is keyed by file:function:kind:<expression text>#<n> — NOT by line
// number — so that unrelated edits do not shift it; n counts identical
// expression texts within the function.
package inventory

import (
	"bytes"
	"fmt"
	"go/ast"
	"go/parser"
	"go/printer"
	"go/token"
	"os"
	"path/filepath"
	"sort"
	"strings"
)

// Site is one partial operation in the source.
type Site struct {
	File string // path relative to the repository root
	Func string // enclosing top-level function ("T.m" for methods, "<global>" otherwise)
	Kind string
	Text string // normalised source text of the expression
	N    int    // ordinal among equal (File, Func, Kind, Text)
	Line int    // informational only
}

// Key is the baseline key of the site.
func (s Site) Key() string {
	return fmt.Sprintf("%s:%s:%s:%s#%d", s.File, s.Func, s.Kind, s.Text, s.N)
}

// Globs are the files in scope, relative to the repository root.
var Globs = []string{
	"pkg/eval/builtin_fn_*.go",
	"pkg/mods/*/*.go",
	"pkg/eval/go_fn.go",
	"pkg/eval/closure.go",
	"pkg/eval/compile_effect.go",
	"pkg/eval/port.go",
	"pkg/eval/options.go",
	"pkg/strutil/subseq.go",
	"pkg/edit/completion.go",
}

// deny-listed library functions: pkg.Func selectors …
var denyQualified = map[string]bool{
	"strings.Repeat": true, "bytes.Repeat": true,
	"regexp.MustCompile": true, "big.NewRat": true,
	"reflect.New": true, "reflect.MakeSlice": true,
	"os.Exit": true, "syscall.Exec": true, "syscall.Kill": true,
	"debug.SetGCPercent": true, "runtime.GC": true,
}

// … and method names that panic on some receivers/arguments whatever the
// package (big.Rat.Inv/Quo/SetFrac, big.Int.Quo/Rem/Div/Mod/Exp/Lsh,
// semaphore.Release).
var denyMethods = map[string]bool{
	"Inv": true, "Quo": true, "SetFrac": true, "QuoRem": true, "DivMod": true,
	"Div": true, "Mod": true, "Rem": true, "Exp": true, "Lsh": true,
	"Release": true, "MustCompile": true,
}

// … and, in files that import "reflect", the reflection calls that panic on a
// value of the wrong kind or a wrong argument vector.
var denyReflectMethods = map[string]bool{"Call": true, "Elem": true, "Index": true, "Field": true, "Interface": true}

// Scan lists the sites of every file in scope, in a deterministic order.
func Scan(repo string) ([]Site, error) {
	var files []string
	seen := map[string]bool{}
	for _, g := range Globs {
		m, err := filepath.Glob(filepath.Join(repo, g))
		if err != nil {
			return nil, err
		}
		for _, f := range m {
			base := filepath.Base(f)
			if strings.HasSuffix(base, "_test.go") || strings.Contains(base, "verif") || seen[f] {
				continue
			}
			seen[f] = true
			files = append(files, f)
		}
	}
	sort.Strings(files)
	if len(files) == 0 {
		return nil, fmt.Errorf("inventory: no source files under %s", repo)
	}
	var sites []Site
	for _, f := range files {
		rel, _ := filepath.Rel(repo, f)
		s, err := scanFile(f, filepath.ToSlash(rel))
		if err != nil {
			return nil, err
		}
		sites = append(sites, s...)
	}
	return sites, nil
}

func scanFile(path, rel string) ([]Site, error) {
	src, err := os.ReadFile(path)
	if err != nil {
		return nil, err
	}
	fset := token.NewFileSet()
	file, err := parser.ParseFile(fset, path, src, parser.SkipObjectResolution)
	if err != nil {
		return nil, err
	}
	// a file compiled only under the verif tag is a hook, not product code
	for _, cg := range file.Comments {
		if cg.Pos() > file.Package {
			break
		}
		for _, c := range cg.List {
			if strings.HasPrefix(c.Text, "//go:build") && strings.Contains(c.Text, "verif") && !strings.Contains(c.Text, "!verif") {
				return nil, nil
			}
		}
	}
	sc := &scanner{fset: fset, rel: rel, maps: mapNames(file), counts: map[string]int{}}
	for _, im := range file.Imports {
		if im.Path.Value == `"reflect"` {
			sc.reflect = true
		}
	}
	for _, d := range file.Decls {
		switch d := d.(type) {
		case *ast.FuncDecl:
			sc.fn = funcName(d)
			if strings.HasPrefix(d.Name.Name, "verif") || strings.HasPrefix(d.Name.Name, "Verif") {
				continue
			}
			if d.Body != nil {
				sc.walk(d.Body)
			}
		case *ast.GenDecl:
			sc.fn = "<global>"
			sc.walk(d)
		}
	}
	return sc.sites, nil
}

func funcName(d *ast.FuncDecl) string {
	if d.Recv == nil || len(d.Recv.List) == 0 {
		return d.Name.Name
	}
	t := d.Recv.List[0].Type
	for {
		switch x := t.(type) {
		case *ast.StarExpr:
			t = x.X
			continue
		case *ast.IndexExpr:
			t = x.X
			continue
		case *ast.Ident:
			return x.Name + "." + d.Name.Name
		}
		return "?." + d.Name.Name
	}
}

// mapNames collects identifiers (variables, fields, parameters) that the file
// declares with a map type, so that m[k] on them is classified "mapindex".
func mapNames(file *ast.File) map[string]bool {
	names := map[string]bool{}
	isMap := func(t ast.Expr) bool {
		_, ok := t.(*ast.MapType)
		return ok
	}
	isMapValue := func(e ast.Expr) bool {
		switch v := e.(type) {
		case *ast.CompositeLit:
			return v.Type != nil && isMap(v.Type)
		case *ast.CallExpr:
			if id, ok := v.Fun.(*ast.Ident); ok && id.Name == "make" && len(v.Args) > 0 {
				return isMap(v.Args[0])
			}
		}
		return false
	}
	ast.Inspect(file, func(n ast.Node) bool {
		switch n := n.(type) {
		case *ast.Field:
			if isMap(n.Type) {
				for _, id := range n.Names {
					names[id.Name] = true
				}
			}
		case *ast.ValueSpec:
			for i, id := range n.Names {
				if (n.Type != nil && isMap(n.Type)) || (i < len(n.Values) && isMapValue(n.Values[i])) {
					names[id.Name] = true
				}
			}
		case *ast.AssignStmt:
			if n.Tok == token.DEFINE && len(n.Lhs) == len(n.Rhs) {
				for i, l := range n.Lhs {
					if id, ok := l.(*ast.Ident); ok && isMapValue(n.Rhs[i]) {
						names[id.Name] = true
					}
				}
			}
		}
		return true
	})
	return names
}

type scanner struct {
	fset    *token.FileSet
	rel     string
	fn      string
	maps    map[string]bool
	reflect bool
	counts  map[string]int
	sites   []Site
	// type assertions that are checked (v, ok := x.(T)) or part of a type switch
	checked map[*ast.TypeAssertExpr]bool
}

func (sc *scanner) text(n ast.Node) string {
	var b bytes.Buffer
	printer.Fprint(&b, sc.fset, n)
	s := strings.Join(strings.Fields(b.String()), " ")
	s = strings.ReplaceAll(s, ":", "∶") // keep ':' as the key separator
	if r := []rune(s); len(r) > 90 {
		s = string(r[:90]) + "…"
	}
	return s
}

func (sc *scanner) add(kind string, n ast.Node) {
	t := sc.text(n)
	k := sc.fn + "\x00" + kind + "\x00" + t
	ord := sc.counts[k]
	sc.counts[k] = ord + 1
	sc.sites = append(sc.sites, Site{File: sc.rel, Func: sc.fn, Kind: kind, Text: t, N: ord,
		Line: sc.fset.Position(n.Pos()).Line})
}

func lastName(e ast.Expr) string {
	switch x := e.(type) {
	case *ast.Ident:
		return x.Name
	case *ast.SelectorExpr:
		return x.Sel.Name
	}
	return ""
}

func isFloaty(e ast.Expr) bool {
	switch x := e.(type) {
	case *ast.BasicLit:
		return x.Kind == token.FLOAT
	case *ast.ParenExpr:
		return isFloaty(x.X)
	case *ast.CallExpr:
		if id, ok := x.Fun.(*ast.Ident); ok && (id.Name == "float64" || id.Name == "float32") {
			return true
		}
		if s, ok := x.Fun.(*ast.SelectorExpr); ok {
			if p, ok := s.X.(*ast.Ident); ok && p.Name == "math" {
				return true
			}
			if s.Sel.Name == "Seconds" || s.Sel.Name == "Float64" {
				return true
			}
		}
	case *ast.BinaryExpr:
		return isFloaty(x.X) || isFloaty(x.Y)
	}
	return false
}

func isConstSize(e ast.Expr) bool {
	switch x := e.(type) {
	case *ast.BasicLit:
		return true
	case *ast.Ident:
		// an upper/lower-case constant cannot be told from a variable without
		// types: treat identifiers as dynamic
		return false
	case *ast.ParenExpr:
		return isConstSize(x.X)
	}
	return false
}

func (sc *scanner) walk(root ast.Node) {
	sc.checked = map[*ast.TypeAssertExpr]bool{}
	// first pass: mark checked assertions
	ast.Inspect(root, func(n ast.Node) bool {
		switch n := n.(type) {
		case *ast.AssignStmt:
			if len(n.Lhs) == 2 && len(n.Rhs) == 1 {
				if ta, ok := n.Rhs[0].(*ast.TypeAssertExpr); ok {
					sc.checked[ta] = true
				}
			}
		case *ast.ValueSpec:
			if len(n.Names) == 2 && len(n.Values) == 1 {
				if ta, ok := n.Values[0].(*ast.TypeAssertExpr); ok {
					sc.checked[ta] = true
				}
			}
		case *ast.TypeSwitchStmt:
			ast.Inspect(n.Assign, func(m ast.Node) bool {
				if ta, ok := m.(*ast.TypeAssertExpr); ok && ta.Type == nil {
					sc.checked[ta] = true
				}
				return true
			})
		}
		return true
	})
	ast.Inspect(root, func(n ast.Node) bool {
		switch n := n.(type) {
		case *ast.FuncLit, *ast.FuncDecl:
			// nested literals belong to the enclosing declaration
		case *ast.IndexExpr:
			// generic instantiation f[T] cannot be told apart syntactically; the
			// files in scope have none on the expression level
			if name := lastName(n.X); name != "" && sc.maps[name] {
				sc.add("mapindex", n)
			} else {
				sc.add("index", n)
			}
		case *ast.SliceExpr:
			sc.add("slice", n)
		case *ast.BinaryExpr:
			if (n.Op == token.QUO || n.Op == token.REM) && !isFloaty(n.X) && !isFloaty(n.Y) {
				sc.add("intdiv", n)
			}
		case *ast.AssignStmt:
			if (n.Tok == token.QUO_ASSIGN || n.Tok == token.REM_ASSIGN) && !isFloaty(n.Rhs[0]) {
				sc.add("intdiv", n)
			}
		case *ast.TypeAssertExpr:
			if n.Type != nil && !sc.checked[n] {
				sc.add("assert", n)
			}
		case *ast.SendStmt:
			sc.add("send", n)
		case *ast.CallExpr:
			switch f := n.Fun.(type) {
			case *ast.Ident:
				switch f.Name {
				case "panic":
					sc.add("panic", n)
				case "close":
					sc.add("close", n)
				case "make":
					for _, a := range n.Args[1:] {
						if !isConstSize(a) {
							sc.add("make", n)
							break
						}
					}
				}
			case *ast.SelectorExpr:
				q := ""
				if p, ok := f.X.(*ast.Ident); ok {
					q = p.Name + "." + f.Sel.Name
				}
				switch {
				case denyQualified[q]:
					if q == "regexp.MustCompile" && len(n.Args) == 1 {
						if _, lit := n.Args[0].(*ast.BasicLit); lit {
							break // a literal pattern is checked by the package's tests
						}
					}
					sc.add("libcall", n)
				case denyMethods[f.Sel.Name], sc.reflect && denyReflectMethods[f.Sel.Name]:
					sc.add("libcall", n)
				}
			}
		}
		return true
	})
}

// Entry is one line of the committed baseline.
type Entry struct {
	Key    string
	Status string // covered-by:<theorem> | reviewed:<reason> | uncovered
}

// ReadBaseline parses harness/c17/inventory_baseline.txt: one site per line,
// "<key>\t<status>"; lines starting with '#' are comments.
func ReadBaseline(path string) (map[string]string, []string, error) {
	data, err := os.ReadFile(path)
	if err != nil {
		return nil, nil, err
	}
	m := map[string]string{}
	var order []string
	for i, l := range strings.Split(string(data), "\n") {
		if l == "" || strings.HasPrefix(l, "#") {
			continue
		}
		p := strings.Split(l, "\t")
		if len(p) < 2 {
			return nil, nil, fmt.Errorf("%s:%d: want <key>TAB<status>", path, i+1)
		}
		st := p[1]
		if !(strings.HasPrefix(st, "covered-by:") || strings.HasPrefix(st, "reviewed:") || st == "uncovered") {
			return nil, nil, fmt.Errorf("%s:%d: bad status %q", path, i+1, st)
		}
		if _, dup := m[p[0]]; dup {
			return nil, nil, fmt.Errorf("%s:%d: duplicate key", path, i+1)
		}
		m[p[0]] = st
		order = append(order, p[0])
	}
	return m, order, nil
}
