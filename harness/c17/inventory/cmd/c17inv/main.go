// Command c17inv prints the partial-operation inventory of an elvish tree.
//
//	go run ./c17/inventory/cmd/c17inv -repo /repo                     # key, line
//	go run ./c17/inventory/cmd/c17inv -repo /repo -baseline FILE      # key, status (NEW for unknown sites)
//	go run ./c17/inventory/cmd/c17inv -repo /repo -baseline FILE -merge   # rewrite: keep statuses, add new sites as "uncovered", drop stale
package main

import (
	"flag"
	"fmt"
	"os"

	"verifharness/c17/inventory"
)

func main() {
	repo := flag.String("repo", "/repo", "elvish tree")
	base := flag.String("baseline", "", "baseline file")
	merge := flag.Bool("merge", false, "print a merged baseline")
	flag.Parse()
	sites, err := inventory.Scan(*repo)
	if err != nil {
		fmt.Fprintln(os.Stderr, err)
		os.Exit(1)
	}
	var bl map[string]string
	if *base != "" {
		bl, _, err = inventory.ReadBaseline(*base)
		if err != nil {
			fmt.Fprintln(os.Stderr, err)
			os.Exit(1)
		}
	}
	for _, s := range sites {
		switch {
		case bl == nil:
			fmt.Printf("%s\t%s:%d\n", s.Key(), s.File, s.Line)
		case *merge:
			st, ok := bl[s.Key()]
			if !ok {
				st = "uncovered"
			}
			fmt.Printf("%s\t%s\n", s.Key(), st)
		default:
			st, ok := bl[s.Key()]
			if !ok {
				st = "NEW"
			}
			fmt.Printf("%s\t%s\t%s:%d\n", s.Key(), st, s.File, s.Line)
		}
	}
}
