// Command c17inv prints the partial-operation inventory of an elvish tree.
//
//	go run ./c17/inventory/cmd/c17inv -repo /repo                     # key, line
//	go run ./c17/inventory/cmd/c17inv -repo /repo -baseline FILE      # key, status (NEW for unknown sites)
//	go run ./c17/inventory/cmd/c17inv -repo /repo -baseline FILE -merge   # rewrite: keep statuses and recorded guards, add new sites as "uncovered", drop stale
//	… -merge -accept-guards   # also record the CURRENT guard fingerprint of every reviewed site (after re-reading the sites listed as GUARD-CHANGED)
//	go run ./c17/inventory/cmd/c17inv -repo /repo -guards                 # key, guard fingerprint
package main

import (
	"flag"
	"fmt"
	"os"
	"strings"

	"verifharness/c17/inventory"
)

func main() {
	repo := flag.String("repo", "/repo", "elvish tree")
	base := flag.String("baseline", "", "baseline file")
	merge := flag.Bool("merge", false, "print a merged baseline")
	accept := flag.Bool("accept-guards", false, "with -merge: record the current guards of reviewed sites")
	guards := flag.Bool("guards", false, "print the guard fingerprint of every site")
	flag.Parse()
	sites, err := inventory.Scan(*repo)
	if err != nil {
		fmt.Fprintln(os.Stderr, err)
		os.Exit(1)
	}
	var bl map[string]inventory.Entry
	if *base != "" {
		bl, _, err = inventory.ReadBaselineFull(*base)
		if err != nil {
			fmt.Fprintln(os.Stderr, err)
			os.Exit(1)
		}
	}
	for _, s := range sites {
		switch {
		case *guards:
			fmt.Printf("%s\tg=%s\t%s\n", s.Key(), s.GuardHash(), s.GuardText())
		case bl == nil:
			fmt.Printf("%s\t%s:%d\n", s.Key(), s.File, s.Line)
		case *merge:
			e, ok := bl[s.Key()]
			switch {
			case !ok:
				fmt.Printf("%s\tuncovered\n", s.Key())
			case !inventory.NeedsGuards(e.Status):
				fmt.Printf("%s\t%s\n", s.Key(), e.Status)
			case *accept || e.GuardHash == "" && e.GuardText == "":
				fmt.Println(inventory.FormatEntry(s, e.Status))
			default: // keep what the review recorded
				fmt.Printf("%s\t%s\tg=%s\t%s\n", s.Key(), e.Status, e.GuardHash, e.GuardText)
			}
		default:
			e, ok := bl[s.Key()]
			st := e.Status
			if !ok {
				st = "NEW"
			} else if g := inventory.GuardStatus(s, e); g != "" {
				st = strings.ToUpper(g) + " (" + e.Status + "; " + inventory.GuardDiff(s, e) + ")"
			}
			fmt.Printf("%s\t%s\t%s:%d\n", s.Key(), st, s.File, s.Line)
		}
	}
}
