// Package c17: inventory, correspondence and exploration for C17 ("no program
// can crash the interpreter").
//
// Three kinds of ops:
//   - inv …            the regenerated partial-operation inventory of the builtin
//     surface against the committed baseline (obligation: no new site);
//   - gofn/clos/subseq correspondence of the hand-written models of goFn.Call,
//     Closure.Call and strutil.HasSubseq with the real code (in-process);
//   - docmerge/docshow/docfind/closrc (round 2, docmatch.go) the same for
//     pkg/mods/doc/match.go and closure[def]/closure[body];
//   - makemap (makemap.go) the same for `make-map`'s handling of one input pair;
//   - call/form        EXPLORATION (not the proof): every registered builtin and
//     module function with adversarial arguments, and random forms with
//     redirections, evaluated by the real interpreter in worker processes
//     under a watchdog.  These are not correspondence ops (both sides print
//     "explored"); the oracle decides: a crash or a confirmed hang fails.
package c17

import (
	"fmt"
	"os"
	"path/filepath"
	"regexp"
	"runtime"
	"strings"
	"time"

	"verifharness/c17/inventory"
	"verifharness/common"
)

func init() { common.Register("C17", run) }

type opResult struct {
	op, impl, class, detail, tag string
}

func repoDir() string {
	if r := os.Getenv("VERIF_REPO"); r != "" {
		return r
	}
	return "/repo"
}

func rootDir() string {
	if r := os.Getenv("VERIF_ROOT"); r != "" {
		return r
	}
	return "/verif"
}

// reading values from a port that is an OUTPUT of the evaluation (the
// channel of stdout/stderr is never closed while the code runs)
var valueInputFromOutput = regexp.MustCompile(`(^|\s)(0|stdin)?<&(1|2|stdout|stderr)(\s|$)`)

// a background job: `… &` at the end of a pipeline
var backgroundJob = regexp.MustCompile(`(^|\s)&(\s|;|\}|\)|$)`)

func run(c *common.Ctx) error {
	repo := repoDir()
	if c.Dir != "" {
		workerTmp = filepath.Join(c.Dir, "workers")
		os.MkdirAll(workerTmp, 0o755)
	}
	var ops []string
	emit := func(fields ...string) {
		for _, f := range fields {
			if f == "" || strings.ContainsAny(f, "\t\n") {
				panic(fmt.Sprintf("bad op field %q", f))
			}
		}
		ops = append(ops, strings.Join(fields, "\t"))
	}
	// ---- inventory -------------------------------------------------------------
	sites, err := inventory.Scan(repo)
	if err != nil {
		return err
	}
	baseline, order, err := inventory.ReadBaselineFull(filepath.Join(rootDir(), "harness", "c17", "inventory_baseline.txt"))
	if err != nil {
		return err
	}
	current := map[string]inventory.Site{}
	for _, s := range sites {
		current[s.Key()] = s
	}
	statusOf := func(key string) string {
		site, ok := current[key]
		if !ok {
			return "gone"
		}
		if e, ok := baseline[key]; ok {
			// a reviewed site was read with certain guards in place: when they
			// are not the guards of the tree any more the review is void
			if g := inventory.GuardStatus(site, e); g != "" {
				return g
			}
			return e.Status
		}
		return "new"
	}
	// ---- ops ---------------------------------------------------------------------
	var fns []fnInfo
	if c.OpsIn != "" {
		data, err := os.ReadFile(c.OpsIn)
		if err != nil {
			return err
		}
		for _, l := range strings.Split(string(data), "\n") {
			if l != "" {
				ops = append(ops, l)
			}
		}
	} else {
		if c.Corpus != "" {
			data, err := os.ReadFile(c.Corpus)
			if err != nil {
				return err
			}
			for _, l := range strings.Split(string(data), "\n") {
				if l != "" && !strings.HasPrefix(l, "#") {
					ops = append(ops, l)
				}
			}
		}
		for _, s := range sites {
			emit("inv", s.Key(), statusOf(s.Key()))
		}
		genGoFn(c, emit)
		genClosure(c, emit)
		genSubseq(c, emit)
		genDocMerge(c, emit)
		genDocShow(c, emit)
		genDocFind(c, emit)
		genCloSrc(c, emit)
		genMakeMap(c, emit)
		// the enumeration evaluates elvish code in this process: when even that
		// crashes, the same code is handed to a worker so that the crash is
		// reported as the failing input it is
		var surfacePanic any
		func() {
			defer func() { surfacePanic = recover() }()
			fns, err = surface(repo)
		}()
		if surfacePanic != nil {
			fns, err = nil, nil
			emit("form", "enumerate-commands", common.Hex("use str; put $str:; keys $str: | count"))
			emit("form", "enumerate-commands", common.Hex("put x"))
		}
		if err != nil {
			return err
		}
		genCalls(c, fns, emit)
		genForms(c, emit)
		genRelated(c, fns, emit)
		genShapes(c, fns, emit)
		genSameTwice(c, fns, emit)
	}
	if os.Getenv("C17_COUNT_OPS") != "" { // debugging aid: what the generators emit, without running it
		h := map[string]int{}
		for _, op := range ops {
			f := strings.Split(op, "\t")
			h[f[0]]++
		}
		fmt.Fprintln(os.Stderr, "ops by kind:", h)
		return fmt.Errorf("C17_COUNT_OPS set: generated %d ops, ran none", len(ops))
	}
	// ---- execution -----------------------------------------------------------------
	results := make([]opResult, len(ops))
	var codes []string
	var codeIdx []int
	for i, op := range ops {
		f := strings.Split(op, "\t")
		results[i].op = op
		switch f[0] {
		case "call", "form":
			if len(f) != 3 {
				results[i].impl = "bad-op"
				continue
			}
			codes = append(codes, common.Unhex(f[2]))
			codeIdx = append(codeIdx, i)
		case "gofn":
			// the Lean driver reads id:mask:iter:kind and ignores the kind
			out, pmsg := common.Guard(20*time.Second, func() string { return implGoFn(f) })
			results[i].impl = out
			results[i].class, results[i].detail = oracleGoFn(f, out, pmsg)
			results[i].tag = tagGoFn(out)
		case "clos":
			out, pmsg := common.Guard(20*time.Second, func() string { return implClosure(f) })
			results[i].impl = out
			if out == "PANIC" || out == "TIMEOUT" || strings.HasPrefix(out, "ERR other") || strings.Contains(out, "n?") {
				results[i].class, results[i].detail = "panic-closure-call", out+" "+pmsg
			}
			results[i].tag = tagClosure(f, out)
		case "subseq":
			out, pmsg := common.Guard(20*time.Second, func() string { return implSubseq(f) })
			results[i].impl = out
			if out == "PANIC" || out == "TIMEOUT" {
				results[i].class, results[i].detail = "panic-has-subseq", pmsg
			}
			results[i].tag = "subseq-" + out
		case "docmerge", "docshow", "docfind":
			want := map[string]int{"docmerge": 2, "docshow": 4, "docfind": 4}[f[0]]
			if len(f) != want {
				results[i].impl = "bad-op"
				continue
			}
			out, pmsg := common.Guard(20*time.Second, func() string {
				switch f[0] {
				case "docmerge":
					return implDocMerge(f)
				case "docshow":
					return implDocShow(f)
				}
				return implDocFind(f)
			})
			results[i].impl = out
			results[i].class, results[i].detail = oracleDoc(f, out, pmsg)
			results[i].tag = tagDoc(f, out)
		case "closrc":
			if len(f) != 3 {
				results[i].impl = "bad-op"
				continue
			}
			out, pmsg := common.Guard(20*time.Second, func() string { return implCloSrc(f) })
			results[i].impl = out
			if out == "PANIC" || out == "TIMEOUT" || strings.Contains(out, "ERR") {
				results[i].class, results[i].detail = "panic-closure-src-field", out+" "+pmsg+" :: "+unhexE(f[1])
			}
			results[i].tag = "closrc-" + strings.SplitN(out, " ", 2)[0] + "-lambdas"
		case "makemap":
			if len(f) != 3 {
				results[i].impl = "bad-op"
				continue
			}
			out, pmsg := common.Guard(20*time.Second, func() string { return implMakeMap(f) })
			results[i].impl = out
			results[i].class, results[i].detail = oracleMakeMap(f, out, pmsg)
			results[i].tag = tagMakeMap(out)
		case "inv":
			st := statusOf(f[1])
			switch {
			case strings.HasPrefix(st, "covered-by:"):
				results[i].impl = "covered"
			case strings.HasPrefix(st, "reviewed:"):
				results[i].impl = "reviewed"
			default:
				results[i].impl = st
			}
			if st == "new" {
				s := current[f[1]]
				results[i].class = "new-partial-op-site"
				results[i].detail = fmt.Sprintf("%s:%d: %s `%s` in %s is not in harness/c17/inventory_baseline.txt "+
					"(neither covered by a panic-freedom theorem nor reviewed)", s.File, s.Line, s.Kind, s.Text, s.Func)
			}
			if st == "guard-changed" || st == "guard-unrecorded" {
				s, e := current[f[1]], baseline[f[1]]
				results[i].class = "guard-changed-partial-op-site"
				results[i].detail = fmt.Sprintf("%s:%d: %s `%s` in %s is listed as %s, but the guards it was reviewed with are not the guards of this tree: %s",
					s.File, s.Line, s.Kind, s.Text, s.Func, e.Status, inventory.GuardDiff(s, e))
				if st == "guard-unrecorded" {
					results[i].detail = fmt.Sprintf("%s:%d: %s `%s` in %s is listed as %s without the guard fingerprint the review was made with",
						s.File, s.Line, s.Kind, s.Text, s.Func, e.Status)
				}
			}
			results[i].tag = "inventory-" + results[i].impl
		default:
			results[i].impl = "bad-op"
		}
	}
	nworkers := runtime.NumCPU()
	if nworkers > 6 {
		nworkers = 6
	}
	if nworkers < 2 {
		nworkers = 2
	}
	t0 := time.Now()
	raw := runInWorkers(codes, nworkers)
	slowUnconfirmed := confirm(codes, raw, nworkers)
	exploreSecs := time.Since(t0).Seconds()
	outcome := map[string]int{}
	var busy []string
	for k, i := range codeIdx {
		f := strings.Split(ops[i], "\t")
		r := raw[k]
		name := f[1]
		if f[0] == "form" {
			name = "form-" + f[1]
		}
		slug := slugify(name)
		switch {
		case r == "ok" || strings.HasPrefix(r, "exc:") || r == "parse-error" || r == "compile-error" || strings.HasPrefix(r, "err:"):
			results[i].impl = "explored"
			results[i].tag = f[0] + "-" + strings.SplitN(r, ":", 2)[0]
			outcome[r]++
		case strings.HasPrefix(r, "HANG busy"):
			// did not end within the budget but is computing, not blocked: not a
			// failure of the property; reported in the evidence
			results[i].impl = "explored"
			results[i].tag = f[0] + "-unfinished-busy"
			busy = append(busy, codes[k])
			outcome["unfinished-busy"]++
		case strings.HasPrefix(r, "HANG"):
			results[i].impl = "explored"
			results[i].class = "hang-" + slug
			if valueInputFromOutput.MatchString(codes[k]) {
				results[i].class = "hang-value-input-from-output-port"
			}
			results[i].detail = r + " :: " + codes[k]
			results[i].tag = f[0] + "-HANG"
			outcome["HANG"]++
		default: // PANIC … (recovered in the worker) or CRASH … (the worker died)
			results[i].impl = "explored"
			results[i].class = "panic-" + slug
			if strings.Contains(r, "out of memory") || strings.Contains(r, "cannot allocate") || strings.Contains(r, "makeslice:") {
				// the result or a buffer is too large to allocate
				results[i].class = "alloc-" + slug
			}
			if strings.Contains(r, "nil pointer dereference") && strings.Contains(codes[k], "$nil") {
				results[i].class = "crash-nil-argument"
			}
			if strings.Contains(r, "send on closed channel") && backgroundJob.MatchString(codes[k]) {
				results[i].class = "crash-background-job-output-after-port-closed"
			}
			results[i].detail = r + " :: " + codes[k]
			results[i].tag = f[0] + "-PANIC"
			outcome["PANIC"]++
		}
	}
	// ---- evidence --------------------------------------------------------------------
	inv := map[string]int{"sites": len(sites)}
	var uncovered, newSites, stale, guardChanged []string
	for _, e := range baseline {
		if inventory.NeedsGuards(e.Status) && e.GuardHash != "" {
			inv["reviewed_with_guard_fingerprint"]++
		}
	}
	coveredBy := map[string]int{}
	for _, s := range sites {
		st := statusOf(s.Key())
		switch {
		case strings.HasPrefix(st, "covered-by:"):
			inv["covered"]++
			coveredBy[strings.TrimPrefix(st, "covered-by:")]++
		case strings.HasPrefix(st, "reviewed:"):
			inv["reviewed"]++
		case st == "uncovered":
			inv["uncovered"]++
			uncovered = append(uncovered, s.Key())
		case st == "guard-changed" || st == "guard-unrecorded":
			inv["guard_changed"]++
			guardChanged = append(guardChanged, s.Key())
		default:
			inv["new"]++
			newSites = append(newSites, s.Key())
		}
	}
	for _, k := range order {
		if _, ok := current[k]; !ok {
			stale = append(stale, k)
		}
	}
	inv["stale_baseline_entries"] = len(stale)
	c.Extra["inventory"] = inv
	c.Extra["inventory_covered_by"] = coveredBy
	c.Extra["inventory_uncovered_sites"] = uncovered
	c.Extra["inventory_new_sites"] = newSites
	c.Extra["inventory_guard_changed_sites"] = guardChanged
	c.Extra["inventory_files"] = inventory.Globs
	if c.OpsIn == "" {
		var called, deniedNames []string
		for _, fi := range fns {
			if why, no := denied[fi.Name]; no {
				deniedNames = append(deniedNames, fi.Name+" ("+why+")")
			} else {
				called = append(called, fi.Name)
			}
		}
		c.Extra["exploration"] = map[string]any{
			"note":                             "exploration only, NOT the proof: calls of every registered command with adversarial arguments and random forms with redirections, each evaluated by the real interpreter in a worker process under a watchdog",
			"commands_found":                   len(fns),
			"commands_called":                  len(called),
			"commands_denied":                  deniedNames,
			"ops":                              len(codes),
			"outcomes":                         outcome,
			"workers":                          nworkers,
			"seconds":                          int(exploreSecs),
			"unfinished_busy":                  firstN(busy, 20),
			"slow_but_finished_when_run_alone": slowUnconfirmed,
			"value_pool_size":                  len(pool),
			"redirection_shapes":               len(redirs),
		}
	}
	return writeRun(c, results)
}

func firstN(xs []string, n int) []string {
	if len(xs) > n {
		return xs[:n]
	}
	return xs
}

var nonSlug = regexp.MustCompile(`[^A-Za-z0-9:_+*/%<>=!-]+`)

func slugify(s string) string { return nonSlug.ReplaceAllString(s, "_") }

func oracleGoFn(f []string, out, pmsg string) (string, string) {
	bothOpts := strings.Contains(","+f[1]+",", ",R,O,") &&
		(strings.HasPrefix(f[1], "R,O") || strings.HasPrefix(f[1], "F,R,O"))
	switch {
	case out == "NEWPANIC" && !bothOpts:
		return "panic-NewGoFn", "NewGoFn panicked on signature " + f[1]
	case out == "PANIC" || out == "TIMEOUT" || out == "NOT-CALLED":
		return "panic-goFn-call", out + " " + pmsg
	case strings.Contains(out, "@?") || strings.Contains(out, "O?"):
		return "gofn-argument-misrouted", out
	}
	return "", ""
}

func tagGoFn(out string) string {
	switch {
	case strings.HasPrefix(out, "ERR "):
		return "gofn-" + strings.Fields(out)[1]
	case strings.HasPrefix(out, "OK"):
		t := "gofn-called"
		if strings.Contains(out, "I@frame") {
			t += "-inputs-frame"
		} else if strings.Contains(out, "I@") {
			t += "-inputs-arg"
		}
		return t
	}
	return "gofn-" + out
}

func tagClosure(f []string, out string) string {
	switch {
	case strings.HasPrefix(out, "ERR "):
		return "clos-" + strings.Fields(out)[1]
	case f[2] != "-1":
		if strings.Contains(out, "l[]") {
			return "clos-rest-empty"
		}
		return "clos-rest"
	}
	return "clos-fixed"
}

func writeRun(c *common.Ctx, results []opResult) error {
	var ops, impl, ora strings.Builder
	stats := common.Stats{Rule: "inventory: every partial-operation site of the files in scope (inv ops). Correspondence: goFn.Call on " +
		"reflect.MakeFunc functions of random signatures (frame / RawOptions / options struct / Inputs / variadic / 6 plain types, " +
		"special types in ordinary positions) × 0..5 arguments of 8 kinds × 0..2 options; Closure.Call on closures of every shape " +
		"with ≤3 parameters (rest position, option sets) × argument counts × option sets, plus random larger ones; " +
		"strutil.HasSubseq on every pair over 11 symbols (valid, truncated and invalid UTF-8, U+FFFD) up to length 3×2 plus random " +
		"longer ones; sortAndMergeMatches on every list of up to 3 ranges over 0..3(4) plus random lists of up to 40 ranges (nested, chained, disjoint; " +
		"more than 12 only with distinct From, where sort.Slice's order is determined); matchedBlock.Show on texts over 13 pieces " +
		"(sentence ends, newlines, non-ASCII) with separated and with arbitrary (overlapping, out-of-range) matches; match+Show on generated Markdown " +
		"(paragraphs, headings, code blocks, hard breaks) with 1..6 queries cut from the rendered blocks (nested, overlapping, adjacent, empty, absent); " +
		"closure[def]/[body] of every lambda of generated `put {…} {…}` sources with nested lambdas, signatures, comments and continuations. " +
		"Exploration (labelled call-*/form-*): every non-denied command × every pool value in every position " +
		"(thorough; sampled in quick) + random arity/option/redirection combinations; forms: every head × every redirection shape " +
		"+ random pipelines + RELATED arguments: doc:find with nested queries cut from real documentation blocks, str:/re: commands with " +
		"patterns/replacements derived from the subject, commands and index/assignment forms with indices derived from the container, md:show on " +
		"raw-HTML-ish and delimiter pieces + SEQUENCE SHAPES (strings whose byte length and rune count differ, invalid UTF-8, lists and maps of " +
		"every length 0..3, lists of these) in every container-like parameter and through the pipe of every command with an inputs parameter. " +
		"make-map (makemap ops): every list of up to 2 inputs over 41 candidate pairs + random longer lists. Non-trivial = every op; distinct by op line",
		Tags: map[string]int{}}
	distinct := map[string]bool{}
	for i, r := range results {
		ops.WriteString(r.op + "\n")
		impl.WriteString(strings.ReplaceAll(r.impl, "\n", "\\n") + "\n")
		if r.class != "" {
			fmt.Fprintf(&ora, "%d\t%s\t%s\n", i, r.class, strings.ReplaceAll(r.detail, "\n", "\\n"))
			stats.OracleFailures++
		}
		tag := r.tag
		if tag == "" {
			tag = "(trivial)"
		} else {
			distinct[r.op] = true
		}
		stats.Tags[tag]++
	}
	// samples: one per op kind
	seen := map[string]bool{}
	for _, r := range results {
		k := strings.SplitN(r.op, "\t", 2)[0]
		if !seen[k] && len(stats.Samples) < 8 {
			seen[k] = true
			s := r.op
			if len(s) > 200 {
				s = s[:200] + "…"
			}
			stats.Samples = append(stats.Samples, s+"  =>  "+r.impl)
		}
	}
	stats.Evaluations = len(results)
	stats.DistinctNontrivial = len(distinct)
	stats.Extra = c.Extra
	for name, data := range map[string]string{"ops.txt": ops.String(), "impl.out": impl.String(), "oracle.out": ora.String()} {
		if err := os.WriteFile(filepath.Join(c.Dir, name), []byte(data), 0o644); err != nil {
			return err
		}
	}
	return common.WriteStats(c, &stats)
}
