package c17

// `makemap` correspondence ops (after the seeded change
// /verif/seeded/C17-makemap-unchecked-pair-length): the real `make-map` against
// lean/ElvModel/C17/MakeMap.lean on lists of inputs whose elements are
// sequences of every small length in every representation — in particular
// strings whose byte length (vals.Len) and rune count (what vals.Collect
// yields) differ.
//
// op line:  makemap <mode> <value>      mode = arg (`make-map $v`)
// value:    `,`-separated prefix tokens: S<hex|e> string, L<n> list of the next
//           n values, O<kind>/<id> one of the non-iterable values of mmOthers
// output:   OK k=>v;k=>v (keys sorted) | EXC <message> | PANIC
//
// Only the single-form mode runs in this process: a pipeline runs its forms on
// goroutines of their own, where a panic cannot be recovered by the harness;
// `put … | make-map` is explored in the worker processes (shapes.go).

import (
	"fmt"
	"sort"
	"strconv"
	"strings"
	"sync"

	"src.elv.sh/pkg/eval"
	"src.elv.sh/pkg/eval/vals"
	"src.elv.sh/pkg/parse"
	"verifharness/common"
	"verifharness/evalutil"
)

type mmVal struct {
	tag  byte // 'S', 'L', 'O'
	s    string
	xs   []mmVal
	kind string
	id   string
}

// the non-iterable values: kind (vals.Kind), id, elvish source
var mmOthers = [][3]string{
	{"number", "1", "(num 1)"}, {"number", "2", "(num 2)"}, {"nil", "nil", "$nil"}, {"bool", "true", "$true"},
	{"map", "empty", "[&]"}, {"map", "ab", "[&a=b]"}, {"map", "two", "[&a=b &c=d]"}, {"fn", "nop", "$nop~"},
}

func mmS(s string) mmVal        { return mmVal{tag: 'S', s: s} }
func mmL(xs ...mmVal) mmVal     { return mmVal{tag: 'L', xs: xs} }
func mmO(kind, id string) mmVal { return mmVal{tag: 'O', kind: kind, id: id} }

func (v mmVal) enc() string {
	switch v.tag {
	case 'S':
		return "S" + hexE(v.s)
	case 'L':
		parts := []string{"L" + strconv.Itoa(len(v.xs))}
		for _, x := range v.xs {
			parts = append(parts, x.enc())
		}
		return strings.Join(parts, ",")
	}
	return "O" + v.kind + "/" + v.id
}

func (v mmVal) src() string {
	switch v.tag {
	case 'S':
		return parse.Quote(v.s)
	case 'L':
		parts := make([]string, len(v.xs))
		for i, x := range v.xs {
			parts[i] = x.src()
		}
		return "[" + strings.Join(parts, " ") + "]"
	}
	for _, o := range mmOthers {
		if o[0] == v.kind && o[1] == v.id {
			return o[2]
		}
	}
	return "$nil"
}

func mmParse(toks []string) (mmVal, []string, bool) {
	if len(toks) == 0 || toks[0] == "" {
		return mmVal{}, nil, false
	}
	t, rest := toks[0], toks[1:]
	switch t[0] {
	case 'S':
		return mmS(unhexE(t[1:])), rest, true
	case 'L':
		n, err := strconv.Atoi(t[1:])
		if err != nil {
			return mmVal{}, nil, false
		}
		v := mmVal{tag: 'L'}
		for i := 0; i < n; i++ {
			x, r, ok := mmParse(rest)
			if !ok {
				return mmVal{}, nil, false
			}
			v.xs = append(v.xs, x)
			rest = r
		}
		return v, rest, true
	case 'O':
		kind, id, ok := strings.Cut(t[1:], "/")
		return mmO(kind, id), rest, ok
	}
	return mmVal{}, nil, false
}

var (
	mmOnce   sync.Once
	mmEvaler *eval.Evaler
	mmReal   []any // the real values of mmOthers
)

func mmSetup() {
	mmOnce.Do(func() {
		mmEvaler = evalutil.NewEvaler()
		for _, o := range mmOthers {
			r := evalutil.Eval(mmEvaler, "put "+o[2], nil)
			if r.Err != nil || len(r.Values) != 1 {
				panic(fmt.Sprintf("c17: cannot evaluate %s", o[2]))
			}
			mmReal = append(mmReal, r.Values[0])
		}
	})
}

// mmFromReal encodes a real value in the op vocabulary.
func mmFromReal(v any) string {
	switch v := v.(type) {
	case string:
		return mmS(v).enc()
	case vals.List:
		parts := []string{"L" + strconv.Itoa(v.Len())}
		for it := v.Iterator(); it.HasElem(); it.Next() {
			parts = append(parts, mmFromReal(it.Elem()))
		}
		return strings.Join(parts, ",")
	}
	for i, o := range mmReal {
		if vals.Equal(o, v) {
			return mmO(mmOthers[i][0], mmOthers[i][1]).enc()
		}
	}
	return "O?/" + vals.Kind(v)
}

func mmCode(f []string) (string, bool) {
	v, rest, ok := mmParse(strings.Split(f[2], ","))
	if !ok || len(rest) != 0 || v.tag != 'L' || f[1] != "arg" {
		return "", false
	}
	return "make-map " + v.src(), true
}

func implMakeMap(f []string) string {
	code, ok := mmCode(f)
	if !ok {
		return "bad-op"
	}
	mmSetup()
	r := evalutil.Eval(mmEvaler, code, nil)
	if r.Err != nil {
		return "EXC " + strings.ReplaceAll(evalutil.Reason(r.Err).Error(), "\n", " ")
	}
	if len(r.Values) != 1 {
		return fmt.Sprintf("ERR %d values", len(r.Values))
	}
	m, ok := r.Values[0].(vals.Map)
	if !ok {
		return "ERR not a map"
	}
	// sorted by the key's encoding (what the driver does), not by the whole entry
	var kv [][2]string
	for it := m.Iterator(); it.HasElem(); it.Next() {
		k, v := it.Elem()
		kv = append(kv, [2]string{mmFromReal(k), mmFromReal(v)})
	}
	sort.Slice(kv, func(i, j int) bool { return kv[i][0] < kv[j][0] })
	if len(kv) == 0 {
		return "OK -"
	}
	parts := make([]string, len(kv))
	for i, e := range kv {
		parts[i] = e[0] + "=>" + e[1]
	}
	return "OK " + strings.Join(parts, ";")
}

// the property on the real code: an exception or a map, never a panic
func oracleMakeMap(f []string, out, pmsg string) (string, string) {
	if out == "PANIC" || out == "TIMEOUT" || strings.HasPrefix(out, "ERR") {
		code, _ := mmCode(f)
		return "panic-make-map", out + " " + pmsg + " :: " + code
	}
	return "", ""
}

func tagMakeMap(out string) string {
	switch {
	case strings.HasPrefix(out, "OK -"):
		return "makemap-ok-empty"
	case strings.HasPrefix(out, "OK"):
		return fmt.Sprintf("makemap-ok-%d-keys", strings.Count(out, ";")+1)
	case strings.Contains(out, "internal bug"):
		return "makemap-exc-len-2-but-collects-to-another-count"
	case strings.Contains(out, "with 2 elements, but"):
		return "makemap-exc-wrong-len"
	case strings.Contains(out, "must be iterable"):
		return "makemap-exc-not-iterable"
	}
	return "makemap-" + strings.Fields(out + " ?")[0]
}

// candidates for ONE input of make-map ("a pair")
func mmCandidates() []mmVal {
	var xs []mmVal
	for _, s := range []string{"", "a", "\xc3", "ab", "é", "ñ", "\u0080", "߿", "\xff\xfe", "\xc3(", "\xe4\xb8", "世", "aé", "éa",
		"abc", "éé", "😀", "a\xff", "�"} {
		xs = append(xs, mmS(s))
	}
	a, b, k := mmS("a"), mmS("b"), mmS("k")
	xs = append(xs, mmL(), mmL(a), mmL(a, b), mmL(a, k), mmL(k, b), mmL(mmS("é"), b), mmL(b, mmS("é")), mmL(a, b, k),
		mmL(mmL(), mmO("number", "1")), mmL(mmO("number", "1"), mmO("nil", "nil")), mmL(mmL(a, b), mmL(k)),
		mmL(mmO("nil", "nil"), mmO("map", "ab")), mmL(mmS("ab"), mmS("é")), mmL(mmS("\xc3"), mmS("�")))
	for _, o := range mmOthers {
		xs = append(xs, mmO(o[0], o[1]))
	}
	return xs
}

func genMakeMap(c *common.Ctx, emit func(...string)) {
	r := c.Rand
	cands := mmCandidates()
	one := func(inputs ...mmVal) { emit("makemap", "arg", mmL(inputs...).enc()) }
	one()
	for _, x := range cands {
		one(x)
	}
	for _, x := range cands {
		for _, y := range cands {
			one(x, y)
		}
	}
	// longer input lists; random strings of 0..3 runes over widths 1..4 and invalid bytes
	pieces := []string{"a", "b", "é", "ñ", "世", "😀", "\xff", "\xc3", "\u0080", "߿", "�"}
	randStr := func() mmVal {
		var sb strings.Builder
		for n := r.Intn(4); n > 0; n-- {
			sb.WriteString(pieces[r.Intn(len(pieces))])
		}
		return mmS(sb.String())
	}
	for i := c.Scale(600, 20000); i > 0; i-- {
		var in []mmVal
		for n := r.Range(1, 5); n > 0; n-- {
			switch r.Intn(5) {
			case 0:
				in = append(in, randStr())
			case 1:
				in = append(in, mmL(randStr(), randStr()))
			case 2:
				var l []mmVal
				for k := r.Intn(4); k > 0; k-- {
					l = append(l, randStr())
				}
				in = append(in, mmL(l...))
			default:
				in = append(in, cands[r.Intn(len(cands))])
			}
		}
		one(in...)
	}
}
