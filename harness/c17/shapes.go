package c17

// Exploration (still a search, not the proof), added after the seeded change
// /verif/seeded/C17-makemap-unchecked-pair-length: SEQUENCE SHAPES wherever a
// command takes a container ("a pair", "a list of …", "inputs").
//
// What was missing: the pool of explore.go has strings and has containers, but
// no string was ever used AS A CONTAINER, and no container had elements that
// are themselves sequences of every small length.  For a string the two ways
// of asking "how long" disagree — vals.Len counts BYTES, iteration yields
// RUNES, indexing is by byte offset — so `é` (2 bytes, 1 rune) is a "pair" for
// a length check and a singleton for the loop that follows it
// (`make-map [é]`, `put [a b] ñ | make-map`).  The same kind of disagreement
// exists between a map's length and what iterating it (does not) yield, and
// between a list's length and the length of its elements.
//
// shapes1 = sequences of every length 0..3 in every representation (ASCII
// strings, strings whose byte length ≠ rune count, invalid UTF-8, lists, maps);
// shapes2 = lists whose ELEMENTS are shapes1 values, alone and next to a
// well-formed pair.  Every shape goes
//   * into every container-like parameter (documented name) of every command,
//   * through the pipe (`put <shape> | cmd`) for every command with an
//     optional inputs parameter,
//   * and, sampled (quick) / exhaustively (thorough), into every parameter of
//     every other command.

import (
	"strings"

	"verifharness/common"
)

// byte length / rune count in the comment
var shapeStrings = []string{
	"''",             // 0/0
	"a",              // 1/1
	"\"\\xc3\"",      // 1/1 invalid
	"ab",             // 2/2
	"é",              // 2/1
	"\"\\u0080\"",    // 2/1 (lowest 2-byte rune)
	"\"\\u07ff\"",    // 2/1 (highest 2-byte rune)
	"\"\\xff\\xfe\"", // 2/2 invalid
	"\"\\xe4\\xb8\"", // 2/2 truncated 3-byte rune
	"世",              // 3/1
	"aé",             // 3/2
	"éa",             // 3/2
	"\"e\\u0301\"",   // 3/2 combining
	"abc",            // 3/3
	"éé",             // 4/2
	"😀",              // 4/1
}

var shapeLists = []string{"[]", "[a]", "[é]", "[a b]", "[é ñ]", "[a b c]", "[(num 1) $nil]", "[[] []]"}

var shapeMaps = []string{"[&]", "[&a=b]", "[&a=b &c=d]", "[&a=1 &b=2 &c=3]", "[&é=[c d]]"}

func shapes1() []string {
	var xs []string
	xs = append(xs, shapeStrings...)
	xs = append(xs, shapeLists...)
	xs = append(xs, shapeMaps...)
	return xs
}

// shapes2: lists whose elements are shapes — the shape alone (always
// generated), and next to a well-formed pair (sampled in the quick tier)
func shapes2() (alone, beside []string) {
	for _, s := range shapes1() {
		alone = append(alone, "["+s+"]")
		beside = append(beside, "[[a b] "+s+"]", "["+s+" [k v]]")
	}
	return
}

// containerParam: the documented parameter name asks for a sequence
func containerParam(name string) bool { return kindHint(name) == "container" }

func genShapes(c *common.Ctx, fns []fnInfo, emit func(...string)) {
	r := c.Rand
	s1 := shapes1()
	alone, beside := shapes2()
	always := append(append([]string{}, s1...), alone...)
	all := append(append([]string{}, always...), beside...)
	for _, fi := range fns {
		if _, no := denied[fi.Name]; no {
			continue
		}
		n := fi.High
		if n < 0 {
			n = fi.Low + 1
		}
		if fi.Low < 0 {
			n = 2
		}
		if n > 4 {
			n = 4
		}
		fill := func(pos int, v string, count int) []string {
			args := make([]string, count)
			for i := range args {
				args[i] = pickArg(r, fi, i)
			}
			if pos >= 0 {
				args[pos] = v
			}
			return args
		}
		for pos := 0; pos < n; pos++ {
			hinted := pos < len(fi.Args) && containerParam(fi.Args[pos])
			count := n
			if hinted && fi.Low >= 0 && pos+1 > fi.Low {
				count = pos + 1 // an optional container parameter is the last one
			} else if fi.Low >= 0 && fi.Low > pos {
				count = fi.Low
			}
			if count <= pos {
				count = pos + 1
			}
			for k, s := range all {
				if !c.Thorough() && (!hinted && !r.Chance(1, 100) || hinted && k >= len(always) && !r.Chance(1, 4)) {
					continue
				}
				emit("call", fi.Name, common.Hex(callCode(fi, fill(pos, s, count), nil, "")))
			}
		}
		// through the pipe: each shape as ONE input value, alone and after a
		// well-formed pair; and the elements of the shape as the inputs
		if fi.InputsAt >= 0 {
			head := func(args []string) string {
				code := callCode(fi, args, nil, "")
				// callCode puts `use …; ` first: the producer goes after these
				uses := ""
				for strings.HasPrefix(code, "use ") {
					i := strings.Index(code, "; ")
					uses, code = uses+code[:i+2], code[i+2:]
				}
				return uses + "\x00" + code
			}
			for _, s := range s1 {
				for _, producer := range []string{"put " + s, "put [a b] " + s, "put " + s + " [k v]", "all " + s} {
					if !c.Thorough() && (strings.HasPrefix(producer, "all ") || strings.HasSuffix(producer, " [k v]")) && !r.Chance(1, 4) {
						continue
					}
					code := head(fill(-1, "", fi.InputsAt))
					code = strings.Replace(code, "\x00", producer+" | ", 1)
					if strings.Contains(s, "file:") && !strings.Contains(code, "use file") {
						code = "use file; " + code
					}
					emit("call", fi.Name, common.Hex(code))
				}
			}
		}
	}
}

// genSameTwice: the SAME exotic value in two positions (`is (styled a red)
// (styled a red)` compared two slices with == and died: "comparing
// uncomparable type ui.Text").  The pool picks every argument independently,
// so two arguments of the same rare Go type almost never met.  Every pool
// value of kind "other" (styled text and segments, exceptions, namespaces,
// files, maps from make-map, $nil, booleans) and every container, twice, for
// every variadic command; sampled for the other commands of ≥ 2 parameters.
func genSameTwice(c *common.Ctx, fns []fnInfo, emit func(...string)) {
	r := c.Rand
	for _, fi := range fns {
		if _, no := denied[fi.Name]; no {
			continue
		}
		if fi.Low < 0 || (fi.High >= 0 && fi.High < 2) {
			continue
		}
		variadic := fi.High < 0 && fi.Low <= 2
		for _, p := range pool {
			if p.Kind != "other" && p.Kind != "container" {
				continue
			}
			if !c.Thorough() && !(variadic && p.Kind == "other") && !r.Chance(1, 8) {
				continue
			}
			n := 2
			if fi.Low > n {
				n = fi.Low
			}
			args := make([]string, n)
			for i := range args {
				args[i] = p.Src
			}
			emit("call", fi.Name, common.Hex(callCode(fi, args, nil, "")))
			// two separately built values, and one value through a variable
			if variadic {
				code := callCode(fi, []string{"$x", "$x"}, nil, "")
				uses := ""
				for strings.HasPrefix(code, "use ") {
					i := strings.Index(code, "; ")
					uses, code = uses+code[:i+2], code[i+2:]
				}
				if strings.Contains(p.Src, "file:") && !strings.Contains(uses, "use file;") {
					uses += "use file; "
				}
				if strings.Contains(p.Src, "str:") && !strings.Contains(uses, "use str;") {
					uses += "use str; "
				}
				emit("call", fi.Name, common.Hex(uses+"var x = "+p.Src+"; "+code))
			}
		}
	}
}
