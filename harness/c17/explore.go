package c17

// Exploration stream (NOT the proof): every registered builtin and module
// function is called with arguments from an adversarial value pool, and random
// forms with redirections and small pipelines are evaluated, each in a worker
// process under a watchdog.  The expected outcome of every such op is the
// property's own statement: evaluation ends normally or with an exception.

import (
	"fmt"
	"go/ast"
	"go/parser"
	"go/token"
	"os"
	"path/filepath"
	"regexp"
	"sort"
	"strconv"
	"strings"

	"src.elv.sh/pkg/cli"
	"src.elv.sh/pkg/edit"
	"src.elv.sh/pkg/eval"
	"src.elv.sh/pkg/parse"
	"verifharness/common"
	"verifharness/evalutil"
)

// ---------------------------------------------------------------------------
// the function surface

// fnInfo is a callable command of the surface.
type fnInfo struct {
	Name string   // as written in code: "put", "str:join", "edit:move-dot-left"
	Mod  string   // "" for builtins, else the module to `use`
	Opts []string // option names from the documentation signature
	Args []string // parameter names from the documentation signature (hints for the value kind)
	Low  int      // required arguments (documentation signature; -1 unknown)
	High int      // maximal arguments, -1 = unbounded
	// position of the optional `inputs?` parameter (the command reads the value
	// channel of its input port when the argument is absent), -1 = none
	InputsAt int
}

// moduleNames reads the modules installed by mods.AddTo from its source (the
// Evaler does not export its module table).
func moduleNames(repo string) ([]string, error) {
	fset := token.NewFileSet()
	f, err := parser.ParseFile(fset, filepath.Join(repo, "pkg/mods/mods.go"), nil, 0)
	if err != nil {
		return nil, err
	}
	var names []string
	ast.Inspect(f, func(n ast.Node) bool {
		switch n := n.(type) {
		case *ast.CallExpr:
			if s, ok := n.Fun.(*ast.SelectorExpr); ok && s.Sel.Name == "AddModule" && len(n.Args) == 2 {
				if l, ok := n.Args[0].(*ast.BasicLit); ok {
					v, _ := strconv.Unquote(l.Value)
					names = append(names, v)
				}
			}
		case *ast.IndexExpr:
			if s, ok := n.X.(*ast.SelectorExpr); ok && s.Sel.Name == "BundledModules" {
				if l, ok := n.Index.(*ast.BasicLit); ok {
					v, _ := strconv.Unquote(l.Value)
					names = append(names, v)
				}
			}
		}
		return true
	})
	sort.Strings(names)
	if len(names) < 5 {
		return nil, fmt.Errorf("c17: only %d modules found in pkg/mods/mods.go", len(names))
	}
	return names, nil
}

var sigRe = regexp.MustCompile(`(?m)^fn ('[^']+'|\S+) \{(?:\|([^|]*)\|)?\s*\}`)

// docSignatures parses the `fn name {|sig|}` lines of the .d.elv files.
func docSignatures(repo string) map[string]fnInfo {
	sigs := map[string]fnInfo{}
	add := func(glob string, prefix func(path string) string) {
		files, _ := filepath.Glob(filepath.Join(repo, glob))
		for _, f := range files {
			data, err := os.ReadFile(f)
			if err != nil {
				continue
			}
			for _, m := range sigRe.FindAllStringSubmatch(string(data), -1) {
				name := strings.Trim(m[1], "'")
				fi := fnInfo{Name: prefix(f) + name, InputsAt: -1}
				for _, tok := range strings.Fields(m[2]) {
					switch {
					case strings.HasPrefix(tok, "&"):
						o, _, _ := strings.Cut(tok[1:], "=")
						fi.Opts = append(fi.Opts, o)
					case strings.HasPrefix(tok, "@"):
						fi.High = -1
						fi.Args = append(fi.Args, tok[1:])
					case strings.HasSuffix(tok, "?") || strings.Contains(tok, "="):
						if fi.High >= 0 {
							fi.High++
						}
						name, _, _ := strings.Cut(strings.TrimSuffix(tok, "?"), "=")
						fi.Args = append(fi.Args, name)
						if strings.HasPrefix(name, "input") {
							fi.InputsAt = len(fi.Args) - 1
						}
					default:
						fi.Low++
						if fi.High >= 0 {
							fi.High++
						}
						fi.Args = append(fi.Args, tok)
					}
				}
				sigs[fi.Name] = fi
			}
		}
	}
	add("pkg/eval/*.d.elv", func(string) string { return "" })
	add("pkg/mods/*/*.d.elv", func(p string) string { return filepath.Base(filepath.Dir(p)) + ":" })
	add("pkg/edit/*.d.elv", func(string) string { return "edit:" })
	return sigs
}

// surface enumerates the callable commands from a real Evaler: the builtin
// namespace, every installed module, and the editor's namespace.
func surface(repo string) ([]fnInfo, error) {
	ev := evalutil.NewEvaler()
	null, _ := os.OpenFile(os.DevNull, os.O_RDWR, 0)
	ed := edit.NewEditor(cli.NewTTY(null, null), ev, nil)
	ev.ExtendBuiltin(eval.BuildNs().AddNs("edit", ed))
	sigs := docSignatures(repo)
	var fns []fnInfo
	addNs := func(mod, prefix string, ns *eval.Ns) {
		var names []string
		ns.IterateKeysString(func(k string) {
			if strings.HasSuffix(k, eval.FnSuffix) {
				names = append(names, strings.TrimSuffix(k, eval.FnSuffix))
			}
		})
		sort.Strings(names)
		for _, n := range names {
			fi, ok := sigs[prefix+n]
			if !ok {
				fi = fnInfo{Low: -1, High: -1, InputsAt: -1}
			}
			fi.Name, fi.Mod = prefix+n, mod
			fns = append(fns, fi)
		}
	}
	addNs("", "", ev.Builtin())
	mods, err := moduleNames(repo)
	if err != nil {
		return nil, err
	}
	for _, m := range mods {
		r := evalutil.Eval(ev, "use "+m+"; put $"+m+":", nil)
		if r.Err != nil || len(r.Values) != 1 {
			return nil, fmt.Errorf("c17: cannot use module %s: %v", m, r.Err)
		}
		ns, ok := r.Values[0].(*eval.Ns)
		if !ok {
			return nil, fmt.Errorf("c17: module %s is not a namespace", m)
		}
		addNs(m, m+":", ns)
	}
	addNs("", "edit:", ed.Ns())
	if len(fns) < 200 {
		return nil, fmt.Errorf("c17: only %d commands found", len(fns))
	}
	return fns, nil
}

// denied: commands that legitimately never return, replace or end the
// process, spawn external programs, read the terminal or reach outside the
// scratch directory.  Each with the reason.
var denied = map[string]string{
	"exit":        "ends the process",
	"exec":        "replaces the process",
	"fg":          "job control on the terminal",
	"-gc":         "affects the runtime of the harness",
	"src":         "denied by the brief",
	"cd":          "changes the directory of the worker (relative paths must stay in the scratch directory)",
	"-log":        "redirects the process-wide logger",
	"use-mod":     "imports arbitrary files",
	"-time":       "alias",
	"external":    "spawns external programs when called",
	"epm:install": "spawns git / network", "epm:upgrade": "spawns git / network", "epm:uninstall": "removes directories by computed path",
	"epm:installed": "reads ~/.local", "epm:list": "reads ~/.local",
	"edit:return-line": "only meaningful inside ReadCode", "edit:return-eof": "only meaningful inside ReadCode",
	"edit:-dump-buf":       "needs a running editor",
	"edit:command-history": "needs the history daemon", "edit:history:fast-forward": "needs the history daemon",
	"edit:add-cmd-to-history": "needs the history daemon", "edit:-instant:start": "starts evaluating the buffer continuously",
}

// sizeArgs: commands whose numeric argument is an amount of work or memory
// (output length, allocation, exponent, duration): numbers with magnitude in
// (2^16, 2^62) are not passed to them — `range 1e12` does not end and
// `read-bytes 1e11` allocates 100 GB, neither of which is a crash.
var sizeArgs = map[string]bool{
	"range": true, "repeat": true, "str:repeat": true, "math:pow": true, "sleep": true,
	"read-bytes": true, "benchmark": true, "math:log": false, "randint": false, "take": false, "drop": false,
	"edit:-override-wcwidth": false, "base": false, "math:gcd": true, "math:lcm": true, "*": true, "math:fact": true,
	"-sleep": true, "time": true, "printf": true, "peach": true, "str:pad-left": true, "str:pad-right": true,
	"str:center": true, "file:truncate": true, "make-list": true,
}

// ---------------------------------------------------------------------------
// the adversarial value pool (elvish source snippets)

type poolVal struct {
	Src  string
	Kind string // num, str, container, fn, other
	Big  bool   // magnitude in (2^16, 2^62): an amount of work when used as a size
	Huge bool   // magnitude ≥ 2^62 or non-finite
}

var pool = []poolVal{
	// strings
	{"''", "str", false, false}, {"abc", "str", false, false}, {"\"\\xff\"", "str", false, false},
	{"\"\\xff\\xfe\\xfd\"", "str", false, false}, {"\"a\\x00b\"", "str", false, false}, {"é", "str", false, false},
	{"\"e\\u0301\"", "str", false, false}, {"😀", "str", false, false}, {"\"\\ufffd\"", "str", false, false},
	{"\"\\xe4\\xb8\"", "str", false, false}, {"\"\\n\"", "str", false, false}, {"' '", "str", false, false},
	{"'%s%d%v'", "str", false, false}, {"'[&'", "str", false, false}, {"'(?'", "str", false, false}, {"'*'", "str", false, false},
	{"'-'", "str", false, false}, {"'--'", "str", false, false}, {"-x", "str", false, false}, {"'a:b'", "str", false, false},
	{"f", "str", false, false}, {"d", "str", false, false}, {"nonexistent", "str", false, false}, {"'~'", "str", false, false},
	{"(str:repeat ab 3000)", "str", false, false}, {"'{\"a\":[1,2,{\"b\":null}]}'", "str", false, false},
	{"red", "str", false, false}, {"bold", "str", false, false}, {"stdin", "str", false, false},
	// numbers as strings
	{"0", "num", false, false}, {"1", "num", false, false}, {"2", "num", false, false}, {"-1", "num", false, false},
	{"-0", "num", false, false}, {"+3", "num", false, false}, {"0x10", "num", false, false}, {"1_0", "num", false, false},
	{"1.5", "num", false, false}, {"-0.0", "num", false, false}, {"1e3", "num", false, false}, {"1/3", "num", false, false},
	{"-7/2", "num", false, false}, {"1/0", "num", false, false}, {"NaN", "num", false, true}, {"Inf", "num", false, true},
	{"-Inf", "num", false, true}, {"1e400", "num", false, true}, {"1e-400", "num", false, false},
	{"65535", "num", false, false}, {"65536", "num", true, false}, {"2147483647", "num", true, false}, {"2147483648", "num", true, false},
	{"4294967296", "num", true, false}, {"1099511627776", "num", true, false}, {"9007199254740993", "num", true, false},
	{"6148914691236517206", "num", false, true}, {"9223372036854775807", "num", false, true},
	{"9223372036854775808", "num", false, true}, {"-9223372036854775808", "num", false, true},
	{"-9223372036854775809", "num", false, true}, {"18446744073709551616", "num", false, true},
	{"100000000000000000000000000000000000000", "num", false, true}, {"1e308", "num", false, true}, {"-1e308", "num", false, true},
	{"1e19", "num", false, true}, {"123456789/1000000007", "num", false, false},
	{"99999999999999999999/3", "num", false, true},
	// typed numbers
	{"(num 0)", "num", false, false}, {"(num -1)", "num", false, false}, {"(num 3)", "num", false, false},
	{"(num 0.0)", "num", false, false}, {"(num -0.0)", "num", false, false}, {"(num NaN)", "num", false, true},
	{"(num +Inf)", "num", false, true}, {"(num -Inf)", "num", false, true}, {"(num 1/2)", "num", false, false},
	{"(num 9223372036854775807)", "num", false, true}, {"(num -9223372036854775808)", "num", false, true},
	{"(num 9223372036854775808)", "num", false, true}, {"(num 1e308)", "num", false, true}, {"(num 5e-324)", "num", false, false},
	{"(num 0.1)", "num", false, false}, {"(num 2.5)", "num", false, false},
	// containers
	{"[]", "container", false, false}, {"[a]", "container", false, false}, {"[a b c]", "container", false, false},
	{"[(num 1) 2 \"\\xff\"]", "container", false, false}, {"[[]]", "container", false, false}, {"[[a b] [c]]", "container", false, false},
	{"[&]", "container", false, false}, {"[&a=b]", "container", false, false}, {"[&a=[&b=[]]]", "container", false, false},
	{"[&(num 1)=x &[]=y]", "container", false, false}, {"[&short=a &long=all &arg-required=$true]", "container", false, false},
	{"[[&short=a] [&long=b &arg-optional=$true]]", "container", false, false},
	{"[-a --b=c -- d \"-\\xff\"]", "container", false, false}, {"[(range 40)]", "container", false, false},
	{"[&r=(file:open f)]", "container", false, false},
	// callables
	{"{ }", "fn", false, false}, {"{|x| }", "fn", false, false}, {"{|@a| }", "fn", false, false},
	{"{|@a| put $@a }", "fn", false, false}, {"{|@a| fail bad }", "fn", false, false}, {"{|@a| break }", "fn", false, false},
	{"{|@a| continue }", "fn", false, false}, {"{|@a| return }", "fn", false, false}, {"{|@a| put $true }", "fn", false, false},
	{"{|@a| put a b }", "fn", false, false}, {"{|@a &k=v| put [] }", "fn", false, false}, {"{|a b| < $a $b }", "fn", false, false},
	{"{|a b| put [] }", "fn", false, false}, {"$put~", "fn", false, false}, {"$nop~", "fn", false, false}, {"$fail~", "fn", false, false},
	{"$str:join~", "fn", false, false}, {"{|@a| echo x >&7 }", "fn", false, false}, {"{|@a| nop | nop }", "fn", false, false},
	// others
	{"$nil", "other", false, false}, {"$true", "other", false, false}, {"$false", "other", false, false}, {"$ok", "other", false, false},
	{"?(fail x)", "other", false, false}, {"(styled x red)", "other", false, false}, {"(styled-segment x &bold)", "other", false, false},
	{"(ns [&a=b])", "other", false, false}, {"(file:open f)", "other", false, false}, {"$str:", "other", false, false},
	{"(make-map [[a b]])", "other", false, false}, {"?(fail [&])", "other", false, false},
}

var optVals = []string{"$true", "$false", "$nil", "''", "abc", "-1", "0", "2", "(num 0)", "(num -1)", "(num +Inf)", "(num NaN)",
	"9223372036854775807", "[]", "[&]", "{|@a| }", "{|@a| fail bad }", "{|@a| put $true }", "\"\\xff\""}

var extraOpts = []string{"zz", "num-workers", "step", "max", "sep", "key", "reverse", "less-than", "total", "posix", "longest",
	"literal", "min-runs", "min-time", "on-end", "on-run-end", "ns", "bold", "fg-color", "width", "indent", "ignore-case", "smart-case"}

var redirs = []string{">o", ">>o", "<f", "<>o", "<d", ">d", "</nonexistent/x", ">&2", ">&1", "2>&1", "1>&2", "<&-", ">&-", "2>&-",
	"0>&-", ">&0", "<&1", "0<&2", "3>o", "3>&1", "4>&-", "9<f", "12>o", "-1>o", ">&-2", "2147483648>o", "1099511627776>o",
	">&1099511627776", "stdin<f", "stdout>o", "stderr>&stdout", "abc>o", ">&abc", "(num 1)>o", "(num 1.5)>o", "1.5>o", "0x2>o",
	"[]>o", ">[]", ">[&]", ">[&w=(file:open f)]", "<[&r=(file:open f)]", ">(file:open f)", "<(file:open f)", ">$nil", "<$true",
	">''", "<''", ">\"\\xff\"", "> \"a\\x00b\"", "1023>o", "1024>o", "1023>&1", ">&1023", ">&1024", "5>&5", "5>o 6>&5 5>&-",
	">o >&- >&1", "<&- <&0", "3<>o 3>&-"}

// ---------------------------------------------------------------------------
// generation

func (p poolVal) okFor(name string) bool {
	if sizeArgs[name] && p.Kind == "num" && p.Big {
		return false
	}
	if (name == "range" || name == "repeat" || name == "sleep" || name == "-sleep" || name == "math:pow" || name == "time" ||
		name == "benchmark" || name == "peach" || name == "read-bytes" || name == "make-list" || name == "file:truncate" ||
		name == "*" || name == "math:fact" || strings.HasPrefix(name, "str:pad") || name == "str:center" || name == "printf") &&
		p.Kind == "num" && p.Huge {
		// an amount of work/output that cannot be bounded: `repeat 9223372036854775807 x`
		return name == "math:pow" && (strings.Contains(p.Src, "NaN") || strings.Contains(p.Src, "Inf"))
	}
	return true
}

// kindHint guesses the kind of value a documented parameter name asks for.
func kindHint(param string) string {
	p := strings.ToLower(param)
	switch {
	case p == "f" || p == "fn" || strings.Contains(p, "callable") || strings.Contains(p, "callback") ||
		strings.Contains(p, "predicate") || strings.Contains(p, "func") || p == "matcher" || p == "handler":
		return "fn"
	case strings.Contains(p, "input") || strings.Contains(p, "list") || strings.Contains(p, "container") ||
		strings.Contains(p, "map") || p == "args" || p == "opts" || p == "specs" || strings.Contains(p, "spec"):
		return "container"
	case p == "n" || strings.Contains(p, "num") || p == "x" || p == "y" || p == "low" || p == "high" ||
		p == "start" || p == "end" || p == "base" || p == "exponent" || strings.Contains(p, "index") ||
		strings.Contains(p, "seed") || p == "max" || p == "fd" || strings.Contains(p, "width") || p == "seconds":
		return "num"
	case strings.Contains(p, "str") || strings.Contains(p, "name") || strings.Contains(p, "path") ||
		strings.Contains(p, "pattern") || strings.Contains(p, "sep") || p == "s" || strings.Contains(p, "prefix") ||
		strings.Contains(p, "suffix") || strings.Contains(p, "text") || strings.Contains(p, "code") ||
		strings.Contains(p, "template") || strings.Contains(p, "file") || strings.Contains(p, "dir"):
		return "str"
	}
	return ""
}

// pickArg picks the value for argument i of fi: mostly of the kind its
// documented parameter name suggests, otherwise anything.
func pickArg(r *common.Rand, fi fnInfo, i int) string {
	hint := ""
	if len(fi.Args) > 0 {
		k := i
		if k >= len(fi.Args) {
			k = len(fi.Args) - 1
		}
		hint = kindHint(fi.Args[k])
	}
	if hint != "" && r.Chance(7, 10) {
		for tries := 0; tries < 20; tries++ {
			if p := pickKind(r, hint); p.okFor(fi.Name) {
				return p.Src
			}
		}
	}
	return pickVal(r, fi.Name)
}

func pickVal(r *common.Rand, name string) string {
	for tries := 0; tries < 20; tries++ {
		var p poolVal
		// weight kinds: numbers and strings most often
		switch k := r.Intn(20); {
		case k < 8:
			p = pickKind(r, "num")
		case k < 13:
			p = pickKind(r, "str")
		case k < 16:
			p = pickKind(r, "container")
		case k < 18:
			p = pickKind(r, "fn")
		default:
			p = pickKind(r, "other")
		}
		if p.okFor(name) {
			return p.Src
		}
	}
	return "1"
}

var byKind map[string][]poolVal

func pickKind(r *common.Rand, kind string) poolVal {
	if byKind == nil {
		byKind = map[string][]poolVal{}
		for _, p := range pool {
			byKind[p.Kind] = append(byKind[p.Kind], p)
		}
	}
	return common.Pick(r, byKind[kind])
}

func cmdHead(fi fnInfo) string {
	n := fi.Name
	if parse.Quote(n) != n || n == "-" {
		// operators like < need quoting in head position: use the function variable
		return "$" + parse.QuoteVariableName(n+eval.FnSuffix)
	}
	return n
}

func callCode(fi fnInfo, args []string, opts []string, redir string) string {
	var sb strings.Builder
	if fi.Mod != "" {
		sb.WriteString("use " + fi.Mod + "; ")
	}
	if strings.Contains(strings.Join(args, " ")+strings.Join(opts, " ")+redir, "file:") && fi.Mod != "file" {
		sb.WriteString("use file; ")
	}
	if strings.Contains(strings.Join(args, " ")+strings.Join(opts, " "), "str:") && fi.Mod != "str" {
		sb.WriteString("use str; ")
	}
	sb.WriteString(cmdHead(fi))
	for _, a := range args {
		sb.WriteString(" " + a)
	}
	for _, o := range opts {
		sb.WriteString(" " + o)
	}
	if redir != "" {
		sb.WriteString(" " + redir)
	}
	return sb.String()
}

func randArity(r *common.Rand, fi fnInfo) int {
	lo, hi := fi.Low, fi.High
	if lo < 0 {
		return r.Intn(4)
	}
	if hi < 0 {
		hi = lo + 3
	}
	if r.Chance(1, 8) { // wrong arity
		return r.Intn(hi + 3)
	}
	return r.Range(lo, hi)
}

// genCalls emits `call <name> <hex code>` ops.
func genCalls(c *common.Ctx, fns []fnInfo, emit func(...string)) {
	r := c.Rand
	perFn := c.Scale(10, 700)
	for _, fi := range fns {
		if _, no := denied[fi.Name]; no {
			continue
		}
		// systematic: every pool value once in every position up to the arity (thorough),
		// a sample of them (quick)
		maxPos := fi.High
		if maxPos < 0 || maxPos > 3 {
			maxPos = 3
		}
		if fi.Low < 0 {
			maxPos = 2
		}
		for pos := 0; pos < maxPos; pos++ {
			for _, p := range pool {
				if !p.okFor(fi.Name) || (!c.Thorough() && !r.Chance(1, 12)) {
					continue
				}
				n := maxPos
				if fi.Low >= 0 && fi.Low > n {
					n = fi.Low
				}
				args := make([]string, n)
				for i := range args {
					args[i] = pickArg(r, fi, i)
				}
				args[pos] = p.Src
				emit("call", fi.Name, common.Hex(callCode(fi, args, nil, "")))
			}
		}
		// zero arguments, many arguments
		emit("call", fi.Name, common.Hex(callCode(fi, nil, nil, "")))
		emit("call", fi.Name, common.Hex(callCode(fi, []string{"a", "b", "c", "d", "e", "f", "1", "2", "3"}, nil, "")))
		for k := 0; k < perFn; k++ {
			args := make([]string, randArity(r, fi))
			for i := range args {
				args[i] = pickArg(r, fi, i)
			}
			var opts []string
			if len(fi.Opts) > 0 && r.Chance(2, 3) || r.Chance(1, 10) {
				for n := r.Range(1, 2); n > 0; n-- {
					name := common.Pick(r, extraOpts)
					if len(fi.Opts) > 0 && r.Chance(5, 6) {
						name = common.Pick(r, fi.Opts)
					}
					v := common.Pick(r, optVals)
					if sizeArgs[fi.Name] && (strings.Contains(v, "9223372036854775807") || strings.Contains(v, "Inf")) {
						v = "2"
					}
					opts = append(opts, "&"+name+"="+v)
				}
			}
			redir := ""
			if r.Chance(1, 6) {
				redir = common.Pick(r, redirs)
				if knownHang("x " + redir) {
					redir = ""
				}
			}
			emit("call", fi.Name, common.Hex(callCode(fi, args, opts, redir)))
		}
	}
}

// forms with redirections and small pipelines
var formHeads = []string{"put x", "echo x", "print x", "nop", "put x y z", "each {|v| put $v }", "each $put~", "all", "count",
	"read-line", "read-upto a", "read-bytes 3", "slurp", "from-lines", "from-json", "only-bytes", "only-values", "to-lines",
	"to-json", "take 1", "drop 1", "order", "peach {|v| put $v }", "{ put x; echo y }", "{ echo a >&2; put b }",
	"fail x", "{ sleep 0.02; put x }", "{ sleep 0.02; echo x }", "put [a b] | all", "repeat 3 x", "range 5", "pprint [a]",
	"show ?(fail x)", "keep-if {|v| put $true }", "run-parallel { put a } { echo b }", "nop &", "put x &"}

func genForms(c *common.Ctx, emit func(...string)) {
	r := c.Rand
	// every head with every single redirection
	for _, h := range formHeads {
		for _, rd := range redirs {
			code := "use file; " + h + " " + rd
			if knownHang(code) {
				continue
			}
			if c.Thorough() || r.Chance(1, 6) {
				emit("form", "redir1", common.Hex(code))
			}
		}
	}
	n := c.Scale(400, 30000)
	for i := 0; i < n; i++ {
		var sb strings.Builder
		sb.WriteString("use file; ")
		stages := 1
		if r.Chance(1, 2) {
			stages = r.Range(2, 3)
		}
		kind := "redirs"
		if stages > 1 {
			kind = "pipeline"
		}
		for s := 0; s < stages; s++ {
			if s > 0 {
				sb.WriteString(" | ")
			}
			sb.WriteString(common.Pick(r, formHeads))
			for k := r.Intn(3); k > 0; k-- {
				sb.WriteString(" " + common.Pick(r, redirs))
			}
		}
		if knownHang(sb.String()) {
			continue
		}
		emit("form", kind, common.Hex(sb.String()))
	}
}

// knownHang: reading VALUES from a port that is an output of the evaluation
// never ends (finding hang-value-input-from-output-port; the corpus keeps a
// witness).  Every such op costs the whole hang budget, so the generators
// leave the shape out.
func knownHang(code string) bool { return valueInputFromOutput.MatchString(code) }
