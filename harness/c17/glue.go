package c17

// Correspondence ops for the hand-written models of lean/ElvModel/C17:
// goFn.Call (pkg/eval/go_fn.go), Closure.Call (pkg/eval/closure.go) and
// strutil.HasSubseq, executed on the real code in-process.

import (
	"errors"
	"fmt"
	"reflect"
	"sort"
	"strconv"
	"strings"

	"src.elv.sh/pkg/eval"
	"src.elv.sh/pkg/eval/errs"
	"src.elv.sh/pkg/eval/vals"
	"src.elv.sh/pkg/strutil"
	"verifharness/common"
	"verifharness/evalutil"
)

// ---------------------------------------------------------------------------
// goFn

// c17Opts is an options struct in the sense of NewGoFn (its pointer implements
// SetDefaultOptions).
type c17Opts struct{ Foo string }

func (o *c17Opts) SetDefaultOptions() { o.Foo = "dflt" }

var plainTypes = []reflect.Type{
	reflect.TypeOf(""), reflect.TypeOf(0), reflect.TypeOf(0.0), reflect.TypeOf((*any)(nil)).Elem(),
	reflect.TypeOf((*vals.List)(nil)).Elem(), reflect.TypeOf((*eval.Callable)(nil)).Elem(),
}

func tyOf(code string) reflect.Type {
	switch code {
	case "F":
		return reflect.TypeOf((*eval.Frame)(nil))
	case "R":
		return reflect.TypeOf(eval.RawOptions(nil))
	case "O":
		return reflect.TypeOf(c17Opts{})
	case "I":
		return reflect.TypeOf(eval.Inputs(nil))
	}
	if strings.HasPrefix(code, "[") {
		return reflect.SliceOf(tyOf(code[1 : len(code)-1]))
	}
	n, _ := strconv.Atoi(code)
	return plainTypes[n]
}

func tyCode(n int) string { return strconv.Itoa(n) }

var allTyCodes = []string{tyCode(0), tyCode(1), tyCode(2), tyCode(3), tyCode(4), tyCode(5), "F", "R", "O", "I"}

// argValue builds the j-th argument of the given kind; values differ by j so
// that the parameter an argument ended up in can be recognised.
func argValue(kind string, j int) any {
	switch kind {
	case "ns": // numeric string
		return strconv.Itoa(10 + j)
	case "w":
		return "w" + strconv.Itoa(j)
	case "fl":
		return float64(j) + 0.5
	case "in":
		return 100 + j
	case "li":
		return vals.MakeList("e" + strconv.Itoa(j))
	case "ma":
		return vals.MakeMap("k"+strconv.Itoa(j), "v")
	case "fn":
		return eval.NewGoFn("c17arg"+strconv.Itoa(j), func() {})
	case "nil":
		return nil
	}
	panic("bad arg kind " + kind)
}

var argKinds = []string{"ns", "w", "fl", "in", "li", "ma", "fn", "nil"}

// scanTo runs the real vals.ScanToGo of value v into a new variable of type t.
func scanTo(v any, t reflect.Type) (reflect.Value, bool) {
	ptr := reflect.New(t)
	ok := func() (ok bool) {
		defer func() {
			if recover() != nil {
				ok = false
			}
		}()
		return vals.ScanToGo(v, ptr.Interface()) == nil
	}()
	return ptr.Elem(), ok
}

func sameValue(a, b reflect.Value) bool {
	if !a.IsValid() || !b.IsValid() {
		return a.IsValid() == b.IsValid()
	}
	ai, bi := a.Interface(), b.Interface()
	if ac, ok := ai.(eval.Callable); ok {
		bc, ok2 := bi.(eval.Callable)
		return ok2 && ac == bc
	}
	return vals.Equal(vals.FromGo(ai), vals.FromGo(bi))
}

func genGoFn(c *common.Ctx, emit func(...string)) {
	r := c.Rand
	one := func() {
		var sig []string
		if r.Chance(1, 2) {
			sig = append(sig, "F")
		}
		switch r.Intn(8) {
		case 0, 1:
			sig = append(sig, "R")
		case 2, 3:
			sig = append(sig, "O")
		case 4:
			if r.Chance(1, 4) {
				sig = append(sig, "R", "O") // NewGoFn panics
			}
		}
		for k := r.Intn(4); k > 0; k-- {
			if r.Chance(1, 12) {
				sig = append(sig, common.Pick(r, []string{"F", "R", "O", "I"})) // special types in ordinary positions
			} else {
				sig = append(sig, tyCode(r.Intn(len(plainTypes))))
			}
		}
		variadic := "0"
		switch r.Intn(4) {
		case 0:
			sig = append(sig, "["+tyCode(r.Intn(len(plainTypes)))+"]")
			variadic = "1"
		case 1:
			sig = append(sig, "I")
		case 2:
			if r.Chance(1, 6) { // a slice-typed last parameter of a non-variadic function
				sig = append(sig, "["+tyCode(r.Intn(len(plainTypes)))+"]")
			}
		}
		nargs := r.Intn(6)
		if r.Chance(3, 4) { // mostly an arity the signature accepts
			nargs = 0
			for _, t := range sig {
				if t != "F" && t != "R" && t != "O" && !strings.HasPrefix(t, "[") {
					nargs++
				}
			}
			if len(sig) > 0 && sig[len(sig)-1] == "I" && r.Chance(1, 2) {
				nargs--
			}
			if variadic == "1" {
				nargs += r.Intn(3)
			}
			if nargs < 0 {
				nargs = 0
			}
		}
		var args []string
		for j := 0; j < nargs; j++ {
			kind := common.Pick(r, argKinds)
			if r.Chance(1, 2) {
				kind = "ns" // converts to most parameter types
			}
			v := argValue(kind, j)
			var mask []string
			for _, tc := range allTyCodes {
				if _, ok := scanTo(v, tyOf(tc)); ok {
					mask = append(mask, tc)
				}
			}
			// the slice types of this signature too: a slice-typed last
			// parameter of a NON-variadic function takes one argument, and
			// $nil scans to it (thorough-tier disagreement of round 3: the
			// mask said "no" for every slice type)
			seenSlice := map[string]bool{}
			for _, tc := range sig {
				if strings.HasPrefix(tc, "[") && !seenSlice[tc] {
					seenSlice[tc] = true
					if _, ok := scanTo(v, tyOf(tc)); ok {
						mask = append(mask, tc)
					}
				}
			}
			m := "-"
			if len(mask) > 0 {
				m = strings.Join(mask, ".")
			}
			it := "0"
			if vals.CanIterate(v) {
				it = "1"
			}
			args = append(args, fmt.Sprintf("%d:%s:%s:%s", j, m, it, kind))
		}
		nopts, optbad := 0, "0"
		if r.Chance(1, 3) {
			nopts = r.Range(1, 2)
			if nopts == 2 || r.Chance(1, 2) {
				optbad = "1" // an unknown option name or a value that does not convert
			}
		}
		s, a := "-", "-"
		if len(sig) > 0 {
			s = strings.Join(sig, ",")
		}
		if len(args) > 0 {
			a = strings.Join(args, ";")
		}
		// each arg is id:mask:iter:kind; the kind is for the implementation side
		// (the Lean driver ignores it)
		emit("gofn", s, variadic, strconv.Itoa(nopts), optbad, a)
	}
	for i := c.Scale(3000, 120000); i > 0; i-- {
		one()
	}
}

func implGoFn(f []string) string {
	var sig []reflect.Type
	var sigCodes []string
	if f[1] != "-" {
		sigCodes = strings.Split(f[1], ",")
		for _, c := range sigCodes {
			sig = append(sig, tyOf(c))
		}
	}
	variadic := f[2] == "1"
	nopts, _ := strconv.Atoi(f[3])
	optbad := f[4] == "1"
	var args []any
	var kinds []string
	if f[5] != "-" {
		for j, x := range strings.Split(f[5], ";") {
			p := strings.Split(x, ":")
			args = append(args, argValue(p[3], j))
			kinds = append(kinds, p[3])
		}
	}
	var received []reflect.Value
	called := false
	impl := reflect.MakeFunc(reflect.FuncOf(sig, nil, variadic), func(in []reflect.Value) []reflect.Value {
		called = true
		received = in
		return nil
	})
	var fn eval.Callable
	newPanicked := func() (p bool) {
		defer func() {
			if recover() != nil {
				p = true
			}
		}()
		fn = eval.NewGoFn("c17fn", impl.Interface())
		return false
	}()
	if newPanicked {
		return "NEWPANIC"
	}
	opts := map[string]any{}
	switch {
	case nopts == 1 && !optbad:
		opts["foo"] = "given"
	case nopts == 1 && optbad:
		opts["bar"] = "x"
	case nopts == 2:
		opts["foo"] = "given"
		opts["bar"] = "x"
	}
	ch := make(chan any, 1)
	ch <- "frame-in"
	close(ch)
	ev := eval.NewEvaler()
	err := ev.Call(fn, eval.CallCfg{Args: args, Opts: opts},
		eval.EvalCfg{Ports: []*eval.Port{{File: eval.DevNull, Chan: ch}, eval.DummyOutputPort, eval.DummyOutputPort}})
	if err != nil {
		var am errs.ArityMismatch
		var wt eval.WrongArgType
		switch {
		case errors.As(err, &am):
			return fmt.Sprintf("ERR arity %d %d %d", am.ValidLow, am.ValidHigh, am.Actual)
		case err == eval.ErrNoOptAccepted:
			return "ERR noopt"
		case errors.As(err, &wt):
			var n int
			fmt.Sscanf(wt.Error(), "wrong type for arg #%d:", &n)
			return fmt.Sprintf("ERR argtype %d", n)
		case strings.HasSuffix(err.Error(), "cannot be iterated"):
			return "ERR noiter"
		default:
			return "ERR badopt"
		}
	}
	if !called {
		return "NOT-CALLED"
	}
	// describe what the function received
	out := []string{"OK"}
	// two $nil arguments are the same value: parameters take arguments in order,
	// so an argument already attributed is tried last
	used := map[int]bool{}
	find := func(v reflect.Value, code string) string {
		for _, again := range []bool{false, true} {
			for j, a := range args {
				if used[j] != again {
					continue
				}
				if want, ok := scanTo(a, tyOf(code)); ok && sameValue(v, want) {
					used[j] = true
					return code + "@" + strconv.Itoa(j)
				}
			}
		}
		return code + "@?"
	}
	for k, v := range received {
		code := sigCodes[k]
		switch {
		case variadic && k == len(received)-1:
			elem := code[1 : len(code)-1]
			for e := 0; e < v.Len(); e++ {
				out = append(out, find(v.Index(e), elem))
			}
		case code == "F" && k == 0:
			out = append(out, "F")
		case code == "R" && (k == 0 || k == 1 && sigCodes[0] == "F"):
			out = append(out, "R")
		case code == "O" && (k == 0 || k == 1 && sigCodes[0] == "F"):
			o := v.Interface().(c17Opts)
			want := "dflt"
			if _, ok := opts["foo"]; ok {
				want = "given"
			}
			if o.Foo != want {
				out = append(out, "O?"+o.Foo)
			} else {
				out = append(out, "O")
			}
		case code == "I" && k == len(received)-1:
			var got []any
			v.Interface().(eval.Inputs)(func(x any) { got = append(got, x) })
			item := "I@?"
			if len(got) == 1 && got[0] == "frame-in" {
				item = "I@frame"
			} else {
				for j, a := range args {
					if vals.CanIterate(a) {
						var elems []any
						vals.Iterate(a, func(x any) bool { elems = append(elems, x); return true })
						if len(elems) == len(got) && (len(got) == 0 || vals.Equal(got[0], elems[0])) && j == len(args)-1 {
							item = "I@" + strconv.Itoa(j)
						}
					}
				}
			}
			out = append(out, item)
		default:
			out = append(out, find(v, code))
		}
	}
	return strings.Join(out, " ")
}

// ---------------------------------------------------------------------------
// Closure.Call

func genClosure(c *common.Ctx, emit func(...string)) {
	r := c.Rand
	ids := func(xs []int) string {
		if len(xs) == 0 {
			return "-"
		}
		var s []string
		for _, x := range xs {
			s = append(s, strconv.Itoa(x))
		}
		return strings.Join(s, ",")
	}
	one := func(nargs, rest int, optNames []int, nnew, given int, opts [][2]int) {
		var defs, args []int
		for _, o := range optNames {
			defs = append(defs, 1000+o)
		}
		for j := 0; j < given; j++ {
			args = append(args, j+1)
		}
		var os []string
		for _, kv := range opts {
			os = append(os, fmt.Sprintf("%d=%d", kv[0], kv[1]))
		}
		o := "-"
		if len(os) > 0 {
			o = strings.Join(os, ",")
		}
		emit("clos", strconv.Itoa(nargs), strconv.Itoa(rest), ids(optNames), ids(defs), strconv.Itoa(nnew), ids(args), o)
	}
	optSets := [][]int{{}, {0}, {1}, {0, 1}, {1, 0}, {2, 0, 1}}
	givenSets := [][][2]int{{}, {{0, 500}}, {{1, 501}}, {{0, 500}, {1, 501}}, {{3, 503}}, {{0, 500}, {3, 503}, {4, 504}}}
	// exhaustive over small shapes
	for nargs := 0; nargs <= 3; nargs++ {
		for rest := -1; rest < nargs; rest++ {
			for given := 0; given <= nargs+2; given++ {
				for _, os := range optSets[:4] {
					for _, gs := range givenSets {
						if c.Thorough() || r.Chance(1, 4) || (len(os) == 0 && len(gs) == 0) {
							one(nargs, rest, os, r.Intn(3), given, gs)
						}
					}
				}
			}
		}
	}
	for i := c.Scale(1500, 40000); i > 0; i-- {
		nargs := r.Intn(6)
		rest := -1
		if nargs > 0 && r.Chance(1, 2) {
			rest = r.Intn(nargs)
		}
		one(nargs, rest, common.Pick(r, optSets), r.Intn(3), r.Intn(nargs+4), common.Pick(r, givenSets))
	}
}

var closEv = evalutil.NewEvaler()

func implClosure(f []string) string {
	nargs, _ := strconv.Atoi(f[1])
	rest, _ := strconv.Atoi(f[2])
	split := func(s string) []string {
		if s == "-" {
			return nil
		}
		return strings.Split(s, ",")
	}
	optNames, optDefs, args, opts := split(f[3]), split(f[4]), split(f[6]), split(f[7])
	nnew, _ := strconv.Atoi(f[5])
	var sb strings.Builder
	sb.WriteString("{|")
	var vars []string
	for i := 0; i < nargs; i++ {
		if i == rest {
			sb.WriteString("@")
		}
		fmt.Fprintf(&sb, "a%d ", i)
		vars = append(vars, fmt.Sprintf("$a%d", i))
	}
	for i, o := range optNames {
		fmt.Fprintf(&sb, "&o%s=%s ", o, optDefs[i])
		vars = append(vars, "$o"+o)
	}
	sb.WriteString("| ")
	for k := 0; k < nnew; k++ {
		fmt.Fprintf(&sb, "var n%d; ", k)
		vars = append(vars, fmt.Sprintf("$n%d", k))
	}
	sb.WriteString("put " + strings.Join(vars, " ") + " }")
	for _, a := range args {
		sb.WriteString(" " + a)
	}
	for _, kv := range opts {
		k, v, _ := strings.Cut(kv, "=")
		sb.WriteString(" &o" + k + "=" + v)
	}
	if len(vars) == 0 {
		// `put` without arguments: fine, outputs nothing
	}
	res := evalutil.Eval(closEv, sb.String(), nil)
	if res.Err != nil {
		reason := evalutil.Reason(res.Err)
		var am errs.ArityMismatch
		var uo eval.UnsupportedOptionsError
		switch {
		case errors.As(reason, &am):
			return fmt.Sprintf("ERR arity %d %d %d", am.ValidLow, am.ValidHigh, am.Actual)
		case errors.As(reason, &uo):
			var ns []string
			for _, o := range uo.Options {
				ns = append(ns, strings.TrimPrefix(o, "o"))
			}
			return "ERR unsupported " + strings.Join(ns, ",")
		}
		return "ERR other " + strings.ReplaceAll(res.Err.Error(), "\n", " ")
	}
	out := []string{"OK"}
	for i, v := range res.Values {
		switch {
		case i >= nargs+len(optNames):
			if v == nil {
				out = append(out, fmt.Sprintf("n%d", i-nargs-len(optNames)))
			} else {
				out = append(out, "n?")
			}
		default:
			if l, ok := v.(vals.List); ok {
				var es []string
				for it := l.Iterator(); it.HasElem(); it.Next() {
					es = append(es, vals.ToString(it.Elem()))
				}
				out = append(out, "l["+strings.Join(es, ",")+"]")
			} else {
				out = append(out, "v"+vals.ToString(v))
			}
		}
	}
	return strings.Join(out, " ")
}

// ---------------------------------------------------------------------------
// HasSubseq

func genSubseq(c *common.Ctx, emit func(...string)) {
	r := c.Rand
	syms := []string{"a", "b", "\xff", "\xef\xbf\xbd", "é", "\xc3", "世", "\xe4\xb8", "😀", "\xf0\x9f", "\x80"}
	// exhaustive: s of ≤3 symbols, t of ≤2 symbols
	var strs func(n int) []string
	strs = func(n int) []string {
		if n == 0 {
			return []string{""}
		}
		out := []string{""}
		for _, p := range strs(n - 1) {
			for _, s := range syms {
				out = append(out, p+s)
			}
		}
		return out
	}
	ss := uniq(strs(c.Scale(2, 3)))
	ts := uniq(strs(2))
	for _, s := range ss {
		for _, t := range ts {
			emit("subseq", common.Hex(s), common.Hex(t))
		}
	}
	for i := c.Scale(2000, 60000); i > 0; i-- {
		var s, t strings.Builder
		for k := r.Intn(8); k > 0; k-- {
			s.WriteString(common.Pick(r, syms))
		}
		for k := r.Intn(5); k > 0; k-- {
			t.WriteString(common.Pick(r, syms))
		}
		emit("subseq", common.Hex(s.String()), common.Hex(t.String()))
	}
}

func uniq(xs []string) []string {
	m := map[string]bool{}
	var out []string
	for _, x := range xs {
		if !m[x] {
			m[x] = true
			out = append(out, x)
		}
	}
	sort.Strings(out)
	return out
}

func implSubseq(f []string) string {
	return strconv.FormatBool(strutil.HasSubseq(common.Unhex(f[1]), common.Unhex(f[2])))
}
