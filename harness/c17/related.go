package c17

// Round 2 of the EXPLORATION stream (still a search, not the proof): calls
// whose arguments are RELATED to one another.  The pool of explore.go picks
// every argument independently, so crashes that need a relation between
// arguments (queries that are substrings of one another and of the same
// documentation block; a pattern derived from its subject; an index derived
// from the length of its container) were out of reach — the seeded
// `doc:find` change of /verif/seeded/C17-docfind-overlapping-matches needs
// three nested queries.  Plus Markdown rendering (`md:show`) of inputs made
// of raw-HTML-ish and delimiter pieces (`md:show 'a </kbd> b'` crashed the
// unchanged tree).

import (
	"fmt"
	"strings"

	"src.elv.sh/pkg/md"
	"src.elv.sh/pkg/mods/doc"
	"src.elv.sh/pkg/parse"
	"verifharness/common"
)

func q(s string) string { return parse.Quote(s) }

// ---- doc:find -------------------------------------------------------------------

var docSymbols = []string{"doc:find", "doc:show", "each", "put", "str:replace", "re:find", "order", "peach", "range",
	"$paths", "$edit:prompt", "edit:complete-getopt", "flag:parse-getopt", "styled", "math:pow", "file:pipe", "path:temp-file"}

// nestedQueries builds queries out of ONE block: a container, matches nested
// in it, matches starting inside it and ending outside, matches after it.
func nestedQueries(r *common.Rand, b string) []string {
	if len(b) < 4 {
		return []string{b}
	}
	cut := func(lo, hi, maxLen int) (int, int) { // lo ≤ f < t ≤ hi
		if hi-lo < 1 {
			return lo, hi
		}
		f := lo + r.Intn(hi-lo)
		t := f + 1 + r.Intn(hi-f)
		if t-f > maxLen {
			t = f + 1 + r.Intn(maxLen)
		}
		return f, t
	}
	f, t := cut(0, len(b), 60)
	if t-f < 6 && len(b) >= 12 {
		f = r.Intn(len(b) - 10)
		t = f + 6 + r.Intn(len(b)-f-5)
		if t-f > 60 {
			t = f + 60
		}
	}
	qs := []string{b[f:t]}
	pos := f
	for k := r.Range(1, 3); k > 0 && pos < t; k-- {
		f1, t1 := cut(pos, t, 8)
		qs = append(qs, b[f1:t1])
		pos = t1 + r.Intn(3)
	}
	if r.Chance(1, 3) && t < len(b) { // starting inside, ending outside
		f2, _ := cut(f, t, 8)
		_, t2 := cut(t, len(b), 8)
		qs = append(qs, b[f2:t2])
	}
	if r.Chance(1, 4) && t < len(b) { // after the container
		f3, t3 := cut(t, len(b), 8)
		qs = append(qs, b[f3:t3])
	}
	if r.Chance(1, 2) {
		r2 := append([]string{}, qs[1:]...)
		qs = append(r2, qs[0])
	}
	if r.Chance(1, 4) {
		qs[0], qs[len(qs)-1] = qs[len(qs)-1], qs[0]
	}
	return qs
}

func genDocFindCalls(c *common.Ctx, emit func(...string)) {
	r := c.Rand
	var blocks []string
	for _, sym := range docSymbols {
		src, err := doc.Source(sym)
		if err != nil {
			continue
		}
		var codec md.TextCodec
		md.Render(src, &codec)
		for _, b := range codec.Blocks() {
			if len(b.Text) >= 8 && !strings.ContainsAny(b.Text, "\t") {
				blocks = append(blocks, b.Text)
			}
		}
	}
	call := func(qs []string) {
		var sb strings.Builder
		sb.WriteString("use doc; doc:find")
		for _, x := range qs {
			sb.WriteString(" " + q(x))
		}
		// the matches are what is explored, not the listing
		sb.WriteString(" | count")
		emit("call", "doc:find", common.Hex(sb.String()))
	}
	// the documented example of doc:find's own documentation, as three nested queries
	call([]string{"whose documentation contains all strings", "contains", "strings"})
	call([]string{"a", "", "a"})
	if len(blocks) == 0 {
		return
	}
	for k := 0; k < c.Scale(120, 6000); k++ {
		call(nestedQueries(r, blocks[r.Intn(len(blocks))]))
	}
}

// ---- str: / re: ------------------------------------------------------------------

var subjects = []string{"abcabc", "aXbXc", "héllo wörld", "a\xffb\xff", "", "aaa", "a.b*c", "a\nb\n", "ab\x00c", "😀😀", "e\u0301e\u0301",
	"(a)(b)", "a|b", "$1 ${x} $$", "Aa\u0130i", "\xe4\xb8", "  x  ", "a,b,,c", "\ufffd\xff\ufffd"}

// derived makes strings related to s: pieces of it, it doubled, patterns that
// match it in awkward ways.
func derived(r *common.Rand, s string) string {
	sub := func() string {
		if s == "" {
			return ""
		}
		f := r.Intn(len(s))
		return s[f : f+r.Intn(len(s)-f+1)]
	}
	switch r.Intn(22) {
	case 0:
		return s
	case 1:
		return s + s
	case 2:
		return sub()
	case 3:
		return sub() + "*"
	case 4:
		return "(" + sub() + ")*"
	case 5:
		return "(?i)" + strings.ToUpper(sub())
	case 6:
		return "^"
	case 7:
		return "$"
	case 8:
		return ""
	case 9:
		return "."
	case 10:
		return "\\b"
	case 11:
		return "(a*)*"
	case 12:
		return "[" + sub() + "]"
	case 13:
		return "(?P<x>" + sub() + ")|(y)"
	case 14:
		return "\\Q" + sub()
	case 15:
		return "(" + sub()
	case 16:
		return ".{0,3}?"
	case 17:
		return "\\C"
	case 18:
		return "[^" + sub() + "]*"
	case 19:
		return "()"
	case 20:
		return "${" + sub() + "}$0$1$9"
	}
	return strings.ToUpper(s)
}

func genRelatedStrings(c *common.Ctx, fns []fnInfo, emit func(...string)) {
	r := c.Rand
	perFn := c.Scale(12, 800)
	for _, fi := range fns {
		if (fi.Mod != "str" && fi.Mod != "re") || fi.Low < 2 {
			continue
		}
		if _, no := denied[fi.Name]; no {
			continue
		}
		for k := 0; k < perFn; k++ {
			s := subjects[r.Intn(len(subjects))]
			n := fi.Low
			if fi.High > n {
				n = r.Range(fi.Low, fi.High)
			}
			args := make([]string, n)
			for i := range args {
				args[i] = q(derived(r, s))
			}
			// the subject itself in one position (the last one is the source for re:/str:replace/split)
			if r.Chance(3, 4) {
				args[n-1] = q(s)
			} else {
				args[r.Intn(n)] = q(s)
			}
			if fi.Name == "str:repeat" {
				args[1] = fmt.Sprint(r.Intn(5))
			}
			if fi.Name == "re:replace" && r.Chance(1, 3) {
				// the replacement as a callback that outputs 0, 1 or 2 values of any kind
				args[1] = pickKind(r, "fn").Src
			}
			if fi.Name == "re:awk" {
				args[0] = "{|@f| put $f[0] }"
				args[1] = "[" + q(s) + " " + q(derived(r, s)) + "]"
			}
			var opts []string
			for _, o := range fi.Opts {
				if !r.Chance(1, 3) {
					continue
				}
				switch o {
				case "max":
					opts = append(opts, "&max="+fmt.Sprint(r.Range(-2, 3)))
				case "sep":
					opts = append(opts, "&sep="+q(derived(r, s)))
				default:
					opts = append(opts, "&"+o+"=$true")
				}
			}
			emit("call", fi.Name, common.Hex(callCode(fi, args, opts, "")))
		}
	}
}

// ---- containers and indices derived from them ---------------------------------------

type family struct {
	container string
	related   []string
}

var families = []family{
	{"[a b c]", []string{"0", "2", "3", "-1", "-3", "-4", "1..", "..3", "3..", "4..", "1..0", "0..4", "..-4", "1..2..3", "(num 3)", "(num -4)", "[a b c]", "c", "a", "1.0", "(num 1.5)"}},
	{"[]", []string{"0", "-1", "0..", "..0", "0..0", "1..", "[]"}},
	{"[&a=b &c=[d]]", []string{"a", "c", "b", "[d]", "[&a=b]", "[a b]", "[[a b]]", "[&a=b &c=[d]]", "$nil"}},
	{"héllo", []string{"0", "1", "2", "3", "6", "7", "-1", "-5", "1..2", "2..", "..2", "1..3", "6..", "7..", "h", "é", "\"\\xc3\"", "llo"}},
	{"\"a\\xffb\"", []string{"0", "1", "2", "3", "1..2", "1..", "..2", "\"\\xff\"", "\"\\ufffd\""}},
	{"(styled héllo red)", []string{"0", "1", "-1", "0..1", "red", "bold", "[bold]", "(styled-segment x)"}},
	{"[(range 40)]", []string{"39", "40", "-40", "-41", "32..", "..32", "31..33", "32..32", "33..32", "(num 32)"}},
}

func genRelatedContainers(c *common.Ctx, fns []fnInfo, emit func(...string)) {
	r := c.Rand
	perFn := c.Scale(3, 200)
	for _, fi := range fns {
		if _, no := denied[fi.Name]; no || sizeArgs[fi.Name] {
			continue
		}
		hi := fi.High
		if hi < 0 {
			hi = fi.Low + 2
		}
		if fi.Low < 0 || hi < 2 {
			continue
		}
		for k := 0; k < perFn; k++ {
			fam := families[r.Intn(len(families))]
			n := r.Range(max(fi.Low, 2), hi)
			args := make([]string, n)
			for i := range args {
				args[i] = fam.related[r.Intn(len(fam.related))]
			}
			args[r.Intn(n)] = fam.container
			if r.Chance(1, 3) { // the same value twice
				args[r.Intn(n)] = args[r.Intn(n)]
			}
			emit("call", fi.Name, common.Hex(callCode(fi, args, nil, "")))
		}
	}
	// indexing and element assignment with the derived indices (forms, not commands)
	for _, fam := range families {
		for _, idx := range fam.related {
			if !c.Thorough() && !r.Chance(1, 2) {
				continue
			}
			emit("form", "index", common.Hex("use str; var x = "+fam.container+"; put $x["+idx+"]"))
			emit("form", "index", common.Hex("use str; var x = "+fam.container+"; set x["+idx+"] = "+fam.related[r.Intn(len(fam.related))]+"; put $x"))
		}
	}
}

// ---- Markdown -----------------------------------------------------------------------

var mdPieces = []string{"<kbd>", "</kbd>", "<b>", "</b>", "<!--", "-->", "<a href='x'>", "</a>", "<br>", "<br/>", "<", ">", "&amp;",
	"&#0;", "&#x110000;", "&#99999999;", "&", "`", "``", "*", "_", "**", "__", "***", "[", "](", ")", "![", "]", "\\", "\n", "\n\n", "    ",
	"\t", "- ", "1. ", "> ", "# ", "###### ", "```", "~~~", "---", "===", "|", "<div>", "</div>", "<script>", "</script>", "<?", "?>",
	"<![CDATA[", "]]>", "<x", "</", "</ >", "<kbd", "kbd>", "</kbd", "<KBD>", "</KBD>", "<kbd/>", "<em>", "</em>", "<http://a>", "<a@b.c>",
	"a", "b c", "é", "\xff", "\x00", "😀", "1)", "+ ", "* ", "  \n", "\\\n", "[a]: b", "[a]", "<pre>", "</pre>", "<style>", "<textarea>"}

func genMarkdown(c *common.Ctx, emit func(...string)) {
	r := c.Rand
	one := func(text string) {
		code := "use md; md:show " + q(text)
		switch r.Intn(6) {
		case 0:
			code += " &width=" + []string{"0", "1", "2", "-1", "80", "1000"}[r.Intn(6)]
		case 1:
			code = "use md; use doc; md:show " + q(text) + " | count"
		}
		emit("call", "md:show", common.Hex(code))
	}
	// every closing tag without its opening tag, and every opening tag alone
	for _, p := range mdPieces {
		one("a " + p + " b")
		one(p)
	}
	for k := 0; k < c.Scale(600, 40000); k++ {
		var sb strings.Builder
		for n := r.Range(1, 8); n > 0; n-- {
			sb.WriteString(mdPieces[r.Intn(len(mdPieces))])
			if r.Chance(1, 3) {
				sb.WriteString(" ")
			}
		}
		one(sb.String())
	}
}

// callbacks whose NUMBER of outputs is what the command checks (re:replace's
// replacement function, keep-if's predicate, order's &key and &less-than,
// styled's transformer): every callable of the pool where the callback is
// certain to be called (a pattern that matches, a non-empty input).
func genCallbackOutputs(c *common.Ctx, emit func(...string)) {
	for _, p := range pool {
		if p.Kind != "fn" {
			continue
		}
		for _, code := range []string{
			"use re; re:replace b " + p.Src + " abc",
			"use re; re:replace '' " + p.Src + " é",
			"use re; re:replace '(?i)B|ñ' " + p.Src + " aBñ",
			"keep-if " + p.Src + " [a b]",
			"put é | keep-if " + p.Src,
			"order &key=" + p.Src + " [b a]",
			"order &less-than=" + p.Src + " [b a c]",
			"styled abc " + p.Src,
			"styled (styled abc red)(styled é bold) " + p.Src,
			"use re; re:awk " + p.Src + " [a 'b c']",
			"each " + p.Src + " é",
			"peach " + p.Src + " [a é]",
		} {
			if strings.Contains(code, "file:") {
				code = "use file; " + code
			}
			if strings.Contains(code, "str:") {
				code = "use str; " + code
			}
			emit("form", "callback-outputs", common.Hex(code))
		}
	}
}

func genRelated(c *common.Ctx, fns []fnInfo, emit func(...string)) {
	genCallbackOutputs(c, emit)
	genDocFindCalls(c, emit)
	genRelatedStrings(c, fns, emit)
	genRelatedContainers(c, fns, emit)
	genMarkdown(c, emit)
}
