package c18

import (
	"fmt"
	"strconv"
	"strings"

	"src.elv.sh/pkg/eval"
)

// canonical turns the raw event log of one run into the canonical trace the
// Lean driver reads.  Only events of the outermost pipeline are kept; pointers
// are replaced by stage numbers; every begin event is annotated with the
// result its end event reported (`?` if the operation never ended).
//
// Tokens (i = stage number; values v<N>; bytes b<hh>*<count>.… run-length encoded):
//
//	n<k>                  pipeline of k stages (always first)
//	st<i>                 stage goroutine runs
//	pb<i>:<v>:<res> pe<i> Put begins / ends; res = s sent | g | n | - (stopped with that *sendError)
//	wb<i>:<bytes>:<n>:<res> we<i>   byte write begins / ends; n bytes written, res = - | g | u
//	tb<i>:<res> te<i>     receive from the value channel; res = v<N> | c (closed)
//	rb<i>:<res> re<i>     read from the pipe; res = bytes | eof | u
//	lr<i>:<bytes> le<i>   native line reader got a line / reached EOF
//	xr<i>:<exc>:<kept>    form.exec returned exc; excs[i] = kept
//	se<i> cs<i> sg<i>     about to set sendError / close sendStop / store readerGone
//	cf<i>:r cf<i>:w cc<i> about to close the pipe reader (input) / pipe writer / channel (output)
//	wd<i>                 about to call wg.Done
//	wr:<excs>=<result>    wg.Wait returned; MakePipelineError(excs) = result
func canonical(raw []string) ([]string, int) {
	var evs [][]string
	for _, e := range raw {
		if !strings.HasPrefix(e, "c18") {
			continue
		}
		f := strings.Fields(e)
		if len(f) < 2 {
			continue
		}
		evs = append(evs, strings.Split(f[len(f)-1], ","))
	}
	// the outermost pipeline is the first one created
	wg, n := "", 0
	for _, e := range evs {
		if e[0] == "pipeline" && len(e) >= 3 {
			wg = e[1]
			n = atoi(e[2])
			break
		}
	}
	if wg == "" {
		return nil, 0
	}
	frames := map[string]int{}
	chans := map[string]int{}
	files := map[string][2]int{} // pointer → (link, 0 writer | 1 reader)
	out := []string{"n" + strconv.Itoa(n)}
	openPut := map[int]int{}   // stage → index of the pb token to patch
	openWrite := map[int]int{} // stage → index of wb token
	openTake := map[int]int{}
	openRead := map[int]int{}
	retExc := map[int]string{}
	intern := map[string]int{}
	val := func(tok string) string {
		if strings.HasPrefix(tok, "i") {
			if _, err := strconv.Atoi(tok[1:]); err == nil && !strings.HasPrefix(tok, "i-") {
				return "v" + tok[1:]
			}
		}
		id, ok := intern[tok]
		if !ok {
			id = 1000000000 + len(intern)
			intern[tok] = id
		}
		return "v" + strconv.Itoa(id)
	}
	for _, e := range evs {
		arg := func(k int) string {
			if k < len(e) {
				return e[k]
			}
			return ""
		}
		switch e[0] {
		case "stage":
			if arg(1) == wg {
				frames[arg(3)] = atoi(arg(2))
			} else {
				// a nested pipeline (every command in a closure body is one): its
				// frame may reuse the address of a finished stage's frame
				delete(frames, arg(3))
			}
		case "link":
			if arg(1) == wg {
				k := atoi(arg(2))
				chans[arg(3)] = k
				files[arg(4)] = [2]int{k, 0}
				files[arg(5)] = [2]int{k, 1}
			} else {
				delete(chans, arg(3))
				delete(files, arg(4))
				delete(files, arg(5))
			}
		case "stage-start", "set-err", "close-stop", "store-gone", "wg-done":
			if i, ok := frames[arg(1)]; ok {
				code := map[string]string{"stage-start": "st", "set-err": "se", "close-stop": "cs", "store-gone": "sg", "wg-done": "wd"}[e[0]]
				out = append(out, code+strconv.Itoa(i))
				if e[0] == "wg-done" {
					delete(frames, arg(1)) // the frame is dead; its address may be reused
				}
			}
		case "stage-ret":
			if i, ok := frames[arg(1)]; ok {
				retExc[i] = arg(2)
			}
		case "stage-exc":
			if i, ok := frames[arg(1)]; ok {
				out = append(out, fmt.Sprintf("xr%d:%s:%s", i, retExc[i], arg(2)))
			}
		case "close-file":
			if lk, ok := files[arg(1)]; ok {
				if lk[1] == 0 {
					out = append(out, fmt.Sprintf("cf%d:w", lk[0]))
				} else {
					out = append(out, fmt.Sprintf("cf%d:r", lk[0]+1))
				}
			}
		case "close-chan":
			if k, ok := chans[arg(1)]; ok {
				out = append(out, "cc"+strconv.Itoa(k))
			}
		case "wait-ret":
			if arg(1) == wg {
				out = append(out, "wr:"+arg(2))
			}
		case "put-begin":
			if k, ok := chans[arg(1)]; ok {
				openPut[k] = len(out)
				out = append(out, fmt.Sprintf("pb%d:%s:", k, val(arg(2))))
			}
		case "put-sent", "put-stopped":
			if k, ok := chans[arg(1)]; ok {
				if idx, ok := openPut[k]; ok {
					r := "s"
					if e[0] == "put-stopped" {
						r = arg(2)
					}
					out[idx] += r
					delete(openPut, k)
					out = append(out, "pe"+strconv.Itoa(k))
				}
			}
		case "write-begin":
			if lk, ok := files[arg(1)]; ok && lk[1] == 0 {
				openWrite[lk[0]] = len(out)
				out = append(out, fmt.Sprintf("wb%d:%s:", lk[0], arg(2)))
			}
		case "write-end":
			if lk, ok := files[arg(1)]; ok && lk[1] == 0 {
				if idx, ok := openWrite[lk[0]]; ok {
					out[idx] += strings.TrimPrefix(arg(2), "i") + ":" + arg(3)
					delete(openWrite, lk[0])
					out = append(out, "we"+strconv.Itoa(lk[0]))
				}
			}
		case "take-begin":
			if k, ok := chans[arg(1)]; ok {
				openTake[k+1] = len(out)
				out = append(out, fmt.Sprintf("tb%d:", k+1))
			}
		case "take-end", "take-closed":
			if k, ok := chans[arg(1)]; ok {
				if idx, ok := openTake[k+1]; ok {
					if e[0] == "take-end" {
						out[idx] += val(arg(2))
					} else {
						out[idx] += "c"
					}
					delete(openTake, k+1)
					out = append(out, "te"+strconv.Itoa(k+1))
				}
			}
		case "read-begin":
			if lk, ok := files[arg(1)]; ok && lk[1] == 1 {
				openRead[lk[0]+1] = len(out)
				out = append(out, fmt.Sprintf("rb%d:", lk[0]+1))
			}
		case "read-end":
			if lk, ok := files[arg(1)]; ok && lk[1] == 1 {
				if idx, ok := openRead[lk[0]+1]; ok {
					switch {
					case arg(2) != "b":
						out[idx] += arg(2)
					case arg(3) == "eof":
						out[idx] += "eof"
					default:
						out[idx] += "u"
					}
					delete(openRead, lk[0]+1)
					out = append(out, "re"+strconv.Itoa(lk[0]+1))
				}
			}
		case "line-read":
			if lk, ok := files[arg(1)]; ok && lk[1] == 1 {
				if arg(2) != "b" {
					out = append(out, fmt.Sprintf("lr%d:%s", lk[0]+1, arg(2)))
				}
				if arg(3) == "eof" {
					out = append(out, "le"+strconv.Itoa(lk[0]+1))
				} else if arg(3) != "-" {
					out = append(out, "lx"+strconv.Itoa(lk[0]+1))
				}
			}
		}
	}
	// operations that never ended
	for _, m := range []map[int]int{openPut, openTake, openRead} {
		for _, idx := range m {
			out[idx] += "?"
		}
	}
	for _, idx := range openWrite {
		out[idx] += "?:?"
	}
	return out, n
}

func atoi(s string) int {
	n, _ := strconv.Atoi(strings.TrimPrefix(s, "i"))
	return n
}

// unrle decodes b<hh>*<count>.…
func unrle(s string) []byte {
	s = strings.TrimPrefix(s, "b")
	if s == "" {
		return nil
	}
	var out []byte
	for _, run := range strings.Split(s, ".") {
		k := strings.Index(run, "*")
		if k < 0 {
			continue
		}
		b, _ := strconv.ParseUint(run[:k], 16, 8)
		cnt, _ := strconv.Atoi(run[k+1:])
		for ; cnt > 0; cnt-- {
			out = append(out, byte(b))
		}
	}
	return out
}

// ---------------------------------------------------------------------------
// observation (independent of the Lean model): what each link carried

type linkObs struct {
	sent      []string // values whose Put returned nil, in order
	recvd     []string // values received, in order
	sawClosed bool
	bsent     []byte // bytes written (the n of each write)
	brecvd    []byte
	sawEOF    bool
}

type observation struct {
	links []linkObs
	ret   []string // what each stage's form.exec returned
	kept  []string
	wr    string
	// positions in the trace (for "reader really gone" checks)
	retPos     []int
	stoppedPos [][]int // per stage: positions of pe/we events that reported reader gone
	stoppedErr []string
}

func (o observation) summary() string {
	var sb strings.Builder
	for k, l := range o.links {
		if k > 0 {
			sb.WriteByte(' ')
		}
		fmt.Fprintf(&sb, "L%d:v%d/%d%s:b%d/%d%s", k, len(l.sent), len(l.recvd), flag(l.sawClosed, "c"),
			len(l.bsent), len(l.brecvd), flag(l.sawEOF, "e"))
	}
	if len(o.links) == 0 {
		return "L-"
	}
	return sb.String()
}

func flag(b bool, s string) string {
	if b {
		return s
	}
	return ""
}

func observe(tr []string, n int) observation {
	o := observation{ret: make([]string, n), kept: make([]string, n), retPos: make([]int, n),
		stoppedPos: make([][]int, n), stoppedErr: make([]string, n)}
	for i := range o.retPos {
		o.retPos[i] = -1
		o.ret[i] = "?"
	}
	if n > 1 {
		o.links = make([]linkObs, n-1)
	}
	stageOf := func(t string, plen int) (int, []string) {
		f := strings.Split(t, ":")
		i, _ := strconv.Atoi(f[0][plen:])
		return i, f
	}
	pendPut := map[int][2]string{}
	pendWrite := map[int][3]string{}
	pendTake := map[int]string{}
	pendRead := map[int]string{}
	for pos, t := range tr {
		if len(t) < 2 {
			continue
		}
		switch t[:2] {
		case "pb":
			i, f := stageOf(t, 2)
			if len(f) >= 3 {
				pendPut[i] = [2]string{f[1], f[2]}
			}
		case "pe":
			i, _ := stageOf(t, 2)
			p := pendPut[i]
			if i < len(o.links) {
				if p[1] == "s" {
					o.links[i].sent = append(o.links[i].sent, p[0])
				} else {
					o.stoppedPos[i] = append(o.stoppedPos[i], pos)
					o.stoppedErr[i] += p[1]
				}
			}
		case "wb":
			i, f := stageOf(t, 2)
			if len(f) >= 4 {
				pendWrite[i] = [3]string{f[1], f[2], f[3]}
			}
		case "we":
			i, _ := stageOf(t, 2)
			p := pendWrite[i]
			if i < len(o.links) {
				b := unrle(p[0])
				k, _ := strconv.Atoi(p[1])
				if k > len(b) {
					k = len(b)
				}
				o.links[i].bsent = append(o.links[i].bsent, b[:k]...)
				if p[2] != "-" {
					o.stoppedPos[i] = append(o.stoppedPos[i], pos)
					o.stoppedErr[i] += p[2]
				}
			}
		case "tb":
			i, f := stageOf(t, 2)
			if len(f) >= 2 {
				pendTake[i] = f[1]
			}
		case "te":
			i, _ := stageOf(t, 2)
			if i >= 1 && i-1 < len(o.links) {
				if pendTake[i] == "c" {
					o.links[i-1].sawClosed = true
				} else {
					o.links[i-1].recvd = append(o.links[i-1].recvd, pendTake[i])
				}
			}
		case "rb":
			i, f := stageOf(t, 2)
			if len(f) >= 2 {
				pendRead[i] = f[1]
			}
		case "re":
			i, _ := stageOf(t, 2)
			if i >= 1 && i-1 < len(o.links) {
				switch r := pendRead[i]; {
				case r == "eof":
					o.links[i-1].sawEOF = true
				case strings.HasPrefix(r, "b"):
					o.links[i-1].brecvd = append(o.links[i-1].brecvd, unrle(r)...)
				}
			}
		case "lr":
			i, f := stageOf(t, 2)
			if i >= 1 && i-1 < len(o.links) && len(f) >= 2 {
				o.links[i-1].brecvd = append(o.links[i-1].brecvd, unrle(f[1])...)
			}
		case "le":
			i, _ := stageOf(t, 2)
			if i >= 1 && i-1 < len(o.links) {
				o.links[i-1].sawEOF = true
			}
		case "xr":
			i, f := stageOf(t, 2)
			if i < n && len(f) >= 3 {
				o.ret[i], o.kept[i], o.retPos[i] = f[1], f[2], pos
			}
		case "wr":
			o.wr = t[3:]
		}
	}
	return o
}

// oracle evaluates the statement of C18 on what was observed.
func oracle(stages []stageSpec, tr []string, n int, o observation, evalErr error, capVals []any) (string, string) {
	if n != len(stages) {
		return "trace-missing", fmt.Sprintf("pipeline of %d stages, trace shows %d", len(stages), n)
	}
	for k, l := range o.links {
		// exactly once, in order, within each of the two channels
		if len(l.recvd) > len(l.sent) || !eqStrs(l.recvd, l.sent[:len(l.recvd)]) {
			return "values-not-in-order-exactly-once", fmt.Sprintf("link %d→%d: received %s, sent %s", k, k+1, abbrev(l.recvd), abbrev(l.sent))
		}
		if len(l.brecvd) > len(l.bsent) || string(l.brecvd) != string(l.bsent[:len(l.brecvd)]) {
			return "bytes-not-in-order-exactly-once", fmt.Sprintf("link %d→%d: received %d bytes, sent %d bytes, first difference at %d", k, k+1,
				len(l.brecvd), len(l.bsent), firstDiff(l.brecvd, l.bsent))
		}
		// a stage that reads to the end sees all of them
		if l.sawClosed && len(l.recvd) != len(l.sent) {
			return "reader-to-end-missed-values", fmt.Sprintf("link %d→%d: channel reported closed after %d of %d values", k, k+1, len(l.recvd), len(l.sent))
		}
		if l.sawEOF && len(l.brecvd) != len(l.bsent) {
			return "reader-to-end-missed-bytes", fmt.Sprintf("link %d→%d: EOF after %d of %d bytes", k, k+1, len(l.brecvd), len(l.bsent))
		}
		// writers observe that the reader is gone — only when it is
		for j, pos := range o.stoppedPos[k] {
			_ = j
			if o.retPos[k+1] < 0 || o.retPos[k+1] > pos {
				// allowed: the downstream stage closed its input by a redirection
				if !closedBefore(tr, k+1, pos) {
					return "reader-gone-while-reader-alive", fmt.Sprintf("stage %d was told its reader is gone at event %d, but stage %d had not finished", k, pos, k+1)
				}
			}
		}
		for _, c := range o.stoppedErr[k] {
			if c != 'g' {
				return "writer-stopped-with-wrong-error", fmt.Sprintf("stage %d: put/write was stopped with error %q, want reader-gone", k, string(c))
			}
		}
	}
	// scripted stages: what the trace says they returned is what they returned
	for i, st := range stages {
		// (an ordinary command that succeeds returns an exception with a nil reason: k ≡ -)
		if st.native == "" && curRecs[i].ran && normOK(o.ret[i]) != normOK(curRecs[i].ret) {
			return "stage-result-mismatch", fmt.Sprintf("stage %d returned %s, exec saw %s", i, curRecs[i].ret, o.ret[i])
		}
		if o.ret[i] == "?" {
			return "stage-never-finished", fmt.Sprintf("stage %d never returned but the pipeline did", i)
		}
	}
	// all other stage exceptions are reported together; reader-gone of a
	// non-final stage is not reported
	want := expectedResult(o.ret)
	got := eval.VerifC18Exc(evalErr)
	if got != want {
		return "wrong-pipeline-exception", fmt.Sprintf("stages returned %v, pipeline reported %s, want %s", o.ret, got, want)
	}
	// last stage's captured values: whatever a scripted last stage put
	if st := stages[n-1]; st.native == "" {
		var want []string
		for _, p := range curRecs[n-1].puts {
			if p.res == "s" {
				want = append(want, p.tok)
			}
		}
		var gotV []string
		for _, v := range capVals {
			gotV = append(gotV, valTok(v))
		}
		if !eqStrs(want, gotV) {
			return "pipeline-output-mismatch", fmt.Sprintf("last stage put %s, captured %s", abbrev(want), abbrev(gotV))
		}
	}
	return "", ""
}

// closedBefore: stage i closed its pipe reader (redirection) before position pos.
func closedBefore(tr []string, i, pos int) bool {
	want := fmt.Sprintf("cf%d:r", i)
	for k := 0; k < pos && k < len(tr); k++ {
		if tr[k] == want {
			return true
		}
	}
	return false
}

// expectedResult: the property's "all other stage exceptions are reported
// together": drop reader-gone of non-final stages and OK; nothing left → nil,
// one → it, several → a pipeline error listing every stage in order.
func expectedResult(ret []string) string {
	n := len(ret)
	kept := make([]string, n)
	cnt, last := 0, 0
	for i, r := range ret {
		kept[i] = "k"
		if r == "-" || (r == "g" && i < n-1) {
			continue
		}
		kept[i] = r
		if r != "k" {
			cnt++
			last = i
		}
	}
	switch cnt {
	case 0:
		return "-"
	case 1:
		return kept[last]
	}
	return "P[" + strings.Join(kept, ";") + "]"
}

func normOK(c string) string {
	if c == "k" {
		return "-"
	}
	return c
}

func eqStrs(a, b []string) bool {
	if len(a) != len(b) {
		return false
	}
	for i := range a {
		if a[i] != b[i] {
			return false
		}
	}
	return true
}

func abbrev(s []string) string {
	if len(s) > 12 {
		return fmt.Sprintf("[%s … %s] (%d)", strings.Join(s[:5], " "), strings.Join(s[len(s)-3:], " "), len(s))
	}
	return "[" + strings.Join(s, " ") + "]"
}

func firstDiff(a, b []byte) int {
	for i := 0; i < len(a) && i < len(b); i++ {
		if a[i] != b[i] {
			return i
		}
	}
	if len(a) < len(b) {
		return len(a)
	}
	return len(b)
}
