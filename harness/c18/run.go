package c18

import (
	"fmt"
	"io"
	"os"
	"path/filepath"
	"regexp"
	"runtime"
	"strconv"
	"strings"
	"sync"
	"sync/atomic"
	"time"

	"src.elv.sh/pkg/eval"
	"src.elv.sh/pkg/eval/errs"
	"src.elv.sh/pkg/parse"
	"verifharness/common"
)

// chanBuf reads pipelineChanBufferSize from the tree under test (it is
// unexported); the Lean side gets the same constant from the translator.
func chanBuf() int {
	repo := os.Getenv("VERIF_REPO")
	if repo == "" {
		repo = "/repo"
	}
	data, err := os.ReadFile(filepath.Join(repo, "pkg/eval/compile_effect.go"))
	if err == nil {
		if m := regexp.MustCompile(`(?m)^const pipelineChanBufferSize = (\d+)`).FindSubmatch(data); m != nil {
			n, _ := strconv.Atoi(string(m[1]))
			if n > 0 && n < 100000 {
				return n
			}
		}
	}
	return 32
}

// probeRedir reports whether a piped stage with an input redirection survives
// (on the unfixed tree it crashes the interpreter; the generator then puts such
// stages last only, where the panic is on the caller's goroutine and can be
// reported as a failing input instead of killing the worker).
func probeRedir() bool {
	out, _ := common.Guard(10*time.Second, func() string {
		ev := eval.NewEvaler()
		err := ev.Eval(parse.Source{Name: "[probe]", Code: "nop | nop < /dev/null"}, eval.EvalCfg{})
		if err != nil {
			return "err"
		}
		return "ok"
	})
	return out == "ok"
}

// ---------------------------------------------------------------------------
// one op

type stageSpec struct {
	native string // elvish source, or "" for a script stage
	ignore bool   // script: ignore put/write errors and carry on
	ops    []string
}

type stageRec struct {
	mu      sync.Mutex
	ran     bool
	ret     string // exception code the script returned
	exitSeq int64  // global sequence number taken just before returning
	puts    []putRec
	took    []string // value tokens received
	closed  bool
	read    []byte
	eof     bool
}

type putRec struct {
	tok string
	res string // "s" or error code
	seq int64
}

var (
	curStages []stageSpec
	curRecs   []*stageRec
	seqCtr    atomic.Int64
)

func nativeSource(name, arg string) (string, bool) {
	switch name {
	case "range":
		return "range " + arg, true
	case "rangeout":
		return "range " + arg + " > /dev/null", true
	case "each":
		return "each {|x| put $x }", true
	case "eachecho":
		return "each {|x| echo $x }", true
	case "eachfail":
		return "each {|x| fail e" + arg + " }", true
	case "eachin":
		return "each {|x| put $x } < /dev/null", true
	case "take", "drop":
		return name + " " + arg, true
	case "count", "nop":
		return name, true
	case "nopin":
		return "nop < /dev/null", true
	case "fail":
		return "fail e" + arg, true
	case "failok":
		return "fail $ok", true
	case "put":
		return "put a b c", true
	}
	return "", false
}

func parseStages(s string) ([]stageSpec, error) {
	var out []stageSpec
	for _, p := range strings.Split(s, ";") {
		switch {
		case strings.HasPrefix(p, "N:"):
			f := strings.SplitN(p[2:], ":", 2)
			arg := ""
			if len(f) > 1 {
				arg = f[1]
			}
			src, ok := nativeSource(f[0], arg)
			if !ok {
				return nil, fmt.Errorf("unknown native stage %q", p)
			}
			out = append(out, stageSpec{native: src})
		case strings.HasPrefix(p, "S"):
			k := strings.Index(p, ":")
			if k < 0 {
				return nil, fmt.Errorf("bad stage %q", p)
			}
			out = append(out, stageSpec{ignore: strings.Contains(p[1:k], "i"), ops: strings.Split(p[k+1:], ",")})
		default:
			return nil, fmt.Errorf("bad stage %q", p)
		}
	}
	return out, nil
}

func runOne(f []string) (res result, hung bool) {
	if len(f) < nSpecFields || f[0] != "pipe" {
		return result{Impl: "bad-op"}, false
	}
	procs, _ := strconv.Atoi(f[1])
	yseed, _ := strconv.Atoi(f[2])
	yrate, _ := strconv.Atoi(f[3])
	stages, err := parseStages(f[4])
	if err != nil {
		return result{Impl: "bad-op " + err.Error()}, false
	}
	if procs < 1 {
		procs = 1
	}
	old := runtime.GOMAXPROCS(procs)
	defer runtime.GOMAXPROCS(old)

	curStages = stages
	curRecs = make([]*stageRec, len(stages))
	var parts []string
	for i, st := range stages {
		curRecs[i] = &stageRec{}
		if st.native != "" {
			parts = append(parts, st.native)
		} else {
			parts = append(parts, "vh-stage "+strconv.Itoa(i))
		}
	}
	src := strings.Join(parts, " | ")

	yr := common.NewRand(uint64(yseed))
	var ymu sync.Mutex
	eval.VerifC18Yield = nil
	if yrate > 0 {
		eval.VerifC18Yield = func(string) {
			ymu.Lock()
			hit := yr.Intn(1000) < yrate
			kind := yr.Intn(8)
			ymu.Unlock()
			if hit {
				if kind == 0 {
					time.Sleep(time.Duration(20+kind) * time.Microsecond)
				} else {
					runtime.Gosched()
				}
			}
		}
	}

	ev := eval.NewEvaler()
	ev.ExtendGlobal(eval.BuildNs().AddGoFn("vh-stage", vhStage).Ns())
	port1, collect, err := eval.CapturePort()
	if err != nil {
		return result{Impl: "bad-op capture: " + err.Error()}, false
	}
	eval.VerifTraceReset()
	seqCtr.Store(0)
	var evalErr error
	out, pmsg := common.Guard(opTimeout, func() string {
		evalErr = ev.Eval(parse.Source{Name: "[c18]", Code: src},
			eval.EvalCfg{Ports: []*eval.Port{eval.DummyInputPort, port1, eval.DummyOutputPort}})
		return "done"
	})
	eval.VerifC18Yield = nil
	raw := eval.VerifTraceGet()
	tr, n := canonical(raw)
	res.Trace = strings.Join(tr, " ")
	switch out {
	case "TIMEOUT":
		res.Impl, res.Class, res.Detail = "TIMEOUT", "hang", "pipeline did not finish within "+opTimeout.String()+": "+src
		res.Tag = tagsOf(len(stages), tr, res.Impl)
		return res, true
	case "PANIC":
		res.Impl, res.Class, res.Detail = "PANIC", "crash", "panic in pipeline "+src+": "+pmsg
		res.Tag = tagsOf(len(stages), tr, res.Impl)
		return res, false
	}
	capVals, capBytes := collect()
	_ = capBytes
	obs := observe(tr, n)
	res.Impl = "accept " + eval.VerifC18Exc(evalErr) + " " + obs.summary()
	res.Class, res.Detail = oracle(stages, tr, n, obs, evalErr, capVals)
	if res.Detail != "" {
		res.Detail += " [" + src + "]"
	}
	res.Tag = tagsOf(len(stages), tr, res.Impl)
	return res, false
}

// ---------------------------------------------------------------------------
// script stages

type item struct {
	v  any
	bs []byte
	isV bool
}

func vhStage(fm *eval.Frame, id int) error {
	st := curStages[id]
	rec := curRecs[id]
	rec.ran = true
	err := runScript(fm, st, rec)
	rec.ret = eval.VerifC18Exc(err)
	rec.exitSeq = seqCtr.Add(1)
	return err
}

func takeOne(fm *eval.Frame, rec *stageRec) (any, bool) {
	ch := fm.InputChan()
	eval.VerifTraceC18("take-begin", ch)
	v, ok := <-ch
	rec.mu.Lock()
	if ok {
		rec.took = append(rec.took, valTok(v))
	} else {
		rec.closed = true
	}
	rec.mu.Unlock()
	if ok {
		eval.VerifTraceC18("take-end", ch, v)
	} else {
		eval.VerifTraceC18("take-closed", ch)
	}
	return v, ok
}

func readOne(fm *eval.Frame, rec *stageRec, max int) ([]byte, error) {
	f := fm.InputFile()
	buf := make([]byte, max)
	eval.VerifTraceC18("read-begin", f, max)
	n, err := f.Read(buf)
	rec.mu.Lock()
	rec.read = append(rec.read, buf[:n]...)
	if err == io.EOF {
		rec.eof = true
	}
	rec.mu.Unlock()
	eval.VerifTraceC18("read-end", f, string(buf[:n]), err)
	return buf[:n], err
}

func valTok(v any) string {
	if n, ok := v.(int); ok {
		return "v" + strconv.Itoa(n)
	}
	return "v?" + fmt.Sprint(v)
}

func runScript(fm *eval.Frame, st stageSpec, rec *stageRec) error {
	vout := fm.ValueOutput()
	bout := fm.ByteOutput()
	var firstErr error
	put := func(v any) bool {
		err := vout.Put(v)
		rec.mu.Lock()
		r := "s"
		if err != nil {
			r = eval.VerifC18Exc(err)
		}
		rec.puts = append(rec.puts, putRec{valTok(v), r, seqCtr.Add(1)})
		rec.mu.Unlock()
		if err != nil && firstErr == nil && !st.ignore {
			firstErr = err
		}
		return err == nil
	}
	write := func(b []byte) bool {
		_, err := bout.Write(b)
		if err != nil && firstErr == nil && !st.ignore {
			firstErr = err
		}
		return err == nil
	}
	for _, op := range st.ops {
		if firstErr != nil {
			return firstErr
		}
		if op == "" {
			continue
		}
		arg := op[1:]
		switch op[0] {
		case 'p':
			n, _ := strconv.Atoi(arg)
			put(n)
		case 'l':
			write([]byte(arg + "\n"))
		case 'w':
			k := strings.Index(arg, "x")
			b, _ := strconv.ParseUint(arg[:k], 16, 8)
			cnt, _ := strconv.Atoi(arg[k+1:])
			write([]byte(strings.Repeat(string([]byte{byte(b)}), cnt)))
		case 't':
			takeOne(fm, rec)
		case 'r':
			max, _ := strconv.Atoi(arg)
			readOne(fm, rec, max)
		case 'y':
			runtime.Gosched()
		case 'z':
			us, _ := strconv.Atoi(arg)
			time.Sleep(time.Duration(us) * time.Microsecond)
		case 'x':
			switch {
			case arg == "-":
				return nil
			case arg == "k":
				return eval.OK
			default:
				return eval.FailError{Content: arg}
			}
		case 'D', 'F':
			fwdV := op == "F" || op == "Fv"
			fwdB := op == "F" || op == "Fb"
			inputs := make(chan item)
			var wg sync.WaitGroup
			wg.Add(2)
			go func() {
				defer wg.Done()
				for {
					v, ok := takeOne(fm, rec)
					if !ok {
						return
					}
					inputs <- item{v: v, isV: true}
				}
			}()
			go func() {
				defer wg.Done()
				for {
					b, err := readOne(fm, rec, 8192)
					if len(b) > 0 {
						inputs <- item{bs: b}
					}
					if err != nil {
						return
					}
				}
			}()
			go func() { wg.Wait(); close(inputs) }()
			for it := range inputs {
				if firstErr != nil {
					continue // like `each`: keep draining after a failure
				}
				if it.isV && fwdV {
					put(it.v)
				} else if !it.isV && fwdB {
					write(it.bs)
				}
			}
		}
	}
	return firstErr
}

var _ = errs.ReaderGone{}
