// Package c18: trace-refinement tie and oracle for C18 (pipelines deliver data
// exactly once, in order, and never hang writers).
//
// One op = one random pipeline, run through an in-process Evaler built with
// the `verif` tag so that pkg/eval logs its atomic protocol steps
// (hooks/C18-*.patch).  The recorded event log is canonicalised (pointers →
// stage numbers, begin events annotated with the result their end event
// reported) and appended to the op line; the Lean driver must accept it as a
// path of the model's `step` and reproduce the observation summary.  The
// oracle evaluates the property itself on what was observed.
//
// Ops run in a worker subprocess: a protocol bug may crash the whole process
// (send on closed channel, nil dereference in a stage goroutine) or hang it;
// the parent turns that into the outcomes CRASH / TIMEOUT for exactly the op
// in flight and restarts the worker.
package c18

import (
	"bufio"
	"encoding/json"
	"fmt"
	"io"
	"os"
	"os/exec"
	"path/filepath"
	"strconv"
	"strings"
	"time"

	"verifharness/common"
)

func init() { common.Register("C18", run) }

const workerEnv = "VERIF_C18_WORKER"

// after this many hung pipelines the remaining ops are not run
const maxHangs = 4

// watchdog per pipeline
const opTimeout = 10 * time.Second

type result struct {
	Impl   string `json:"impl"`
	Trace  string `json:"trace"`
	Class  string `json:"class"`
	Detail string `json:"detail"`
	Tag    string `json:"tag"`
}

func run(c *common.Ctx) error {
	if os.Getenv(workerEnv) != "" {
		return worker()
	}
	var ops []string
	readOps := func(path string, comments bool) error {
		data, err := os.ReadFile(path)
		if err != nil {
			return err
		}
		for _, l := range strings.Split(string(data), "\n") {
			if l == "" || (comments && strings.HasPrefix(l, "#")) {
				continue
			}
			ops = append(ops, specOf(l))
		}
		return nil
	}
	if c.OpsIn != "" {
		if err := readOps(c.OpsIn, false); err != nil {
			return err
		}
	} else {
		if c.Corpus != "" {
			if err := readOps(c.Corpus, true); err != nil {
				return err
			}
		}
		gen(c, func(f ...string) { ops = append(ops, strings.Join(f, "\t")) })
	}
	workerBin := ""
	c.Extra["race_detector"] = "off (quick tier)"
	if c.Thorough() {
		if bin, why := buildRaceWorker(c.Dir); bin != "" {
			workerBin = bin
			c.Extra["race_detector"] = "on: worker built with -race, halt_on_error"
		} else {
			c.Extra["race_detector"] = "unavailable: " + why
		}
	}
	results, err := runInWorkers(ops, workerBin)
	if err != nil {
		return err
	}
	opsF, err := os.Create(filepath.Join(c.Dir, "ops.txt"))
	if err != nil {
		return err
	}
	implF, _ := os.Create(filepath.Join(c.Dir, "impl.out"))
	oraF, _ := os.Create(filepath.Join(c.Dir, "oracle.out"))
	opsW, implW, oraW := bufio.NewWriter(opsF), bufio.NewWriter(implF), bufio.NewWriter(oraF)
	stats := common.Stats{Tags: map[string]int{}, Rule: "random pipelines of 2..6 stages (scripted producers / filters / early-exiting consumers / throwers " +
		"and native elvish stages range, each, take, drop, count, nop, fail, redirections), value payloads 0..5×pipelineChanBufferSize, byte payloads up to " +
		"several pipe buffers, GOMAXPROCS 1..16, seeded yields at every hooked point; non-trivial = every op; distinct by spec",
		ExhaustiveNote: "none (schedules are sampled)"}
	distinct := map[string]bool{}
	events := 0
	for i, op := range ops {
		r := results[i]
		fmt.Fprintf(opsW, "%s\t%s\n", op, orDash(r.Trace))
		fmt.Fprintln(implW, r.Impl)
		if r.Class != "" {
			fmt.Fprintf(oraW, "%d\t%s\t%s\n", i, r.Class, strings.ReplaceAll(r.Detail, "\n", "\\n"))
			stats.OracleFailures++
		}
		for _, t := range strings.Split(r.Tag, " ") {
			if t != "" {
				stats.Tags[t]++
			}
		}
		distinct[op] = true
		events += len(strings.Fields(r.Trace))
		if len(stats.Samples) < 6 && i%11 == 0 {
			tr := r.Trace
			if len(tr) > 160 {
				tr = tr[:160] + "…"
			}
			stats.Samples = append(stats.Samples, op+"  =>  "+r.Impl+"  trace: "+tr)
		}
	}
	stats.Evaluations = len(ops)
	stats.DistinctNontrivial = len(distinct)
	c.Extra["traces_validated_against_impl"] = len(ops)
	c.Extra["trace_events"] = events
	stats.Extra = c.Extra
	opsW.Flush()
	implW.Flush()
	oraW.Flush()
	opsF.Close()
	implF.Close()
	oraF.Close()
	return common.WriteStats(c, &stats)
}

func orDash(s string) string {
	if s == "" {
		return "-"
	}
	return s
}

// specOf strips the recorded trace (last field) from an op line, if present.
func specOf(line string) string {
	f := strings.Split(line, "\t")
	if len(f) > nSpecFields {
		f = f[:nSpecFields]
	}
	return strings.Join(f, "\t")
}

// runInWorkers feeds the specs to worker subprocesses.
func runInWorkers(ops []string, workerBin string) ([]result, error) {
	results := make([]result, len(ops))
	self, err := os.Executable()
	if err != nil {
		return nil, err
	}
	if workerBin != "" {
		self = workerBin
	}
	next := 0
	hangs := 0
	for next < len(ops) {
		if hangs >= maxHangs {
			// every hang costs a full watchdog period; the verdict is settled
			for ; next < len(ops); next++ {
				results[next] = result{Impl: "SKIPPED-after-hangs", Trace: "skipped", Tag: "skipped"}
			}
			break
		}
		cmd := exec.Command(self, "-prop", "C18")
		cmd.Env = append(os.Environ(), workerEnv+"=1", "GORACE=halt_on_error=1")
		stdin, _ := cmd.StdinPipe()
		stdout, _ := cmd.StdoutPipe()
		var stderr tailBuffer
		cmd.Stderr = &stderr
		if err := cmd.Start(); err != nil {
			return nil, err
		}
		first := next
		go func() {
			w := bufio.NewWriter(stdin)
			for _, op := range ops[first:] {
				fmt.Fprintln(w, op)
			}
			w.Flush()
			stdin.Close()
		}()
		rd := bufio.NewReaderSize(stdout, 1<<20)
		for next < len(ops) {
			line, err := rd.ReadString('\n')
			if err != nil {
				break
			}
			var r result
			if e := json.Unmarshal([]byte(line), &r); e != nil {
				return nil, fmt.Errorf("worker protocol: %v in %q", e, line)
			}
			results[next] = r
			next++
			if r.Impl == "TIMEOUT" {
				hangs++
				break // the worker exits after a hang; restart
			}
		}
		io.Copy(io.Discard, rd)
		werr := cmd.Wait()
		if next < len(ops) && (next == first || results[next-1].Impl != "TIMEOUT") && werr != nil {
			// the worker died while running ops[next]
			class := "crash"
			if strings.Contains(stderr.String(), "DATA RACE") {
				class = "data-race"
			}
			results[next] = result{Impl: "CRASH", Class: class, Tag: class,
				Detail: "interpreter process died: " + firstLines(stderr.String(), 12)}
			next++
		} else if next < len(ops) && werr == nil && (next == first || results[next-1].Impl != "TIMEOUT") {
			return nil, fmt.Errorf("worker exited early without error; stderr: %s", stderr.String())
		}
	}
	return results, nil
}

// buildRaceWorker builds this harness with the race detector (thorough tier).
func buildRaceWorker(dir string) (string, string) {
	root := os.Getenv("VERIF_ROOT")
	if root == "" {
		return "", "VERIF_ROOT not set"
	}
	bin := filepath.Join(dir, "vh-C18-race")
	cmd := exec.Command("go", "build", "-race", "-tags", "verif", "-o", bin, "./cmd/vh-C18")
	cmd.Dir = filepath.Join(root, "harness")
	cmd.Env = append(os.Environ(), "CGO_ENABLED=1", "GOFLAGS=-mod=mod", "GOPROXY=off", "GOSUMDB=off", "GOTOOLCHAIN=local")
	out, err := cmd.CombinedOutput()
	if err != nil {
		return "", firstLines(string(out), 3)
	}
	return bin, ""
}

type tailBuffer struct{ b []byte }

func (t *tailBuffer) Write(p []byte) (int, error) {
	t.b = append(t.b, p...)
	if len(t.b) > 1<<16 {
		t.b = t.b[:1<<16] // keep the head: the panic message comes first
	}
	return len(p), nil
}
func (t *tailBuffer) String() string { return string(t.b) }

func firstLines(s string, n int) string {
	l := strings.Split(strings.TrimSpace(s), "\n")
	if len(l) > n {
		l = l[:n]
	}
	return strings.Join(l, " | ")
}

// worker: one spec per stdin line → one JSON result per stdout line.
func worker() error {
	in := bufio.NewReaderSize(os.Stdin, 1<<20)
	out := bufio.NewWriter(os.Stdout)
	for {
		line, err := in.ReadString('\n')
		line = strings.TrimRight(line, "\n")
		if line != "" {
			r, hung := runOne(strings.Split(line, "\t"))
			b, _ := json.Marshal(r)
			out.Write(b)
			out.WriteByte('\n')
			out.Flush()
			if hung {
				os.Exit(0)
			}
		}
		if err != nil {
			return nil
		}
	}
}

// ---------------------------------------------------------------------------
// generator

const nSpecFields = 5 // pipe, procs, yield seed, yield rate, stages

func gen(c *common.Ctx, emit func(...string)) {
	r := c.Rand
	buf := chanBuf()
	redirOK := probeRedir()
	c.Extra["pipelineChanBufferSize"] = buf
	c.Extra["middle_stage_input_redirection_generated"] = redirOK
	n := c.Scale(1000, 12000)
	for k := 0; k < n; k++ {
		procs := []int{1, 1, 2, 2, 3, 4, 8, 16}[r.Intn(8)]
		rate := []int{0, 0, 50, 200, 500}[r.Intn(5)]
		emit("pipe", strconv.Itoa(procs), strconv.Itoa(r.Intn(1<<30)), strconv.Itoa(rate), genStages(r, buf, redirOK))
	}
}

// payload sizes around the interesting boundaries of a buffer of size b
func payload(r *common.Rand, b int) int {
	switch r.Intn(8) {
	case 0:
		return 0
	case 1:
		return r.Range(1, 3)
	case 2:
		return b + r.Range(-1, 1)
	case 3:
		return b + 1 + r.Range(0, 3)
	case 4:
		return 2*b + r.Range(-1, 2)
	default:
		return r.Range(0, 5*b)
	}
}

// genStages builds a pipeline whose stage programs cannot deadlock among
// themselves (general deadlock freedom is not part of C18): every consumer is
// one of
//
//	full   drains both channels concurrently (D, F, native each/take/…)
//	earlyV takes some values, never reads bytes  → its producer sends < 60000 bytes
//	earlyB reads some bytes, never takes values  → its producer sends ≤ buffer values
//	none   consumes nothing
//
// so a producer can only ever wait for a consumer that is still servicing
// that channel or will exit.
func genStages(r *common.Rand, buf int, redirOK bool) string {
	n := r.Range(2, 6)
	if r.Chance(1, 12) {
		n = 1
	}
	// choose consumer kinds right to left, then producers to fit
	kinds := make([]string, n) // how stage i consumes its input
	for i := 1; i < n; i++ {
		kinds[i] = common.Pick(r, []string{"full", "full", "full", "earlyV", "earlyB", "none", "earlyV"})
	}
	specs := make([]string, n)
	for i := 0; i < n; i++ {
		last := i == n-1
		next := ""
		if !last {
			next = kinds[i+1]
		}
		// limits on what this stage may send, from the next stage's kind
		maxVals, maxBytes := 5*buf, 200000
		switch next {
		case "earlyV":
			maxBytes = 50000
		case "earlyB":
			maxVals = buf
		}
		if last {
			maxVals, maxBytes = 40, 4000 // captured by the harness
		}
		specs[i] = genStage(r, i, n, kinds[i], maxVals, maxBytes, buf, redirOK)
	}
	return strings.Join(specs, ";")
}

func genStage(r *common.Rand, i, n int, kind string, maxVals, maxBytes, buf int, redirOK bool) string {
	last := i == n-1
	val := func(k int) string { return "p" + strconv.Itoa(i*100000+k) }
	// what to send
	sendOps := func() []string {
		var ops []string
		nv := payload(r, buf)
		if nv > maxVals {
			nv = maxVals
		}
		if r.Chance(1, 4) {
			nv = 0
		}
		nb := 0
		var chunks []string
		if r.Chance(1, 2) {
			switch r.Intn(4) {
			case 0: // a few big blocks: fills the OS pipe
				for k := r.Range(1, 4); k > 0; k-- {
					sz := r.Range(20000, 70000)
					if nb+sz > maxBytes {
						break
					}
					nb += sz
					chunks = append(chunks, fmt.Sprintf("w%02xx%d", 'a'+r.Intn(26), sz))
				}
			default: // lines
				for k := r.Range(1, 40); k > 0 && nb+8 < maxBytes; k-- {
					chunks = append(chunks, "l"+strconv.Itoa(i*100000+k))
					nb += 8
				}
			}
		}
		// interleave values and chunks
		vi, ci := 0, 0
		for vi < nv || ci < len(chunks) {
			if ci >= len(chunks) || (vi < nv && r.Chance(nv, nv+len(chunks))) {
				ops = append(ops, val(vi))
				vi++
			} else {
				ops = append(ops, chunks[ci])
				ci++
			}
			if r.Chance(1, 25) {
				ops = append(ops, "y")
			}
		}
		return ops
	}
	exit := func() []string {
		switch r.Intn(6) {
		case 0:
			return []string{"xe" + strconv.Itoa(i+1)}
		case 1:
			if r.Chance(1, 3) {
				return []string{"xk"}
			}
		}
		return nil
	}
	flags := ""
	if r.Chance(1, 3) {
		flags = "i"
	}
	// native stages
	if r.Chance(1, 3) {
		switch {
		case i == 0:
			m := payload(r, buf)
			if m > maxVals {
				m = maxVals
			}
			switch r.Intn(6) {
			case 0:
				return "N:fail:" + strconv.Itoa(i+1)
			case 1:
				if !last {
					return "N:rangeout:" + strconv.Itoa(m)
				}
			case 2:
				return "N:nop"
			}
			return "N:range:" + strconv.Itoa(m)
		case kind == "full":
			// native full readers forward everything: respect the limits of the next stage
			if maxVals >= 5*buf && maxBytes >= 200000 || last {
				c := []string{"each", "each", "take:" + strconv.Itoa(r.Range(0, 2*buf)), "drop:" + strconv.Itoa(r.Range(0, buf)), "count", "eachecho"}
				if last {
					c = []string{"count", "count", "take:" + strconv.Itoa(r.Range(0, 20)), "eachfail:" + strconv.Itoa(i+1)}
				}
				return "N:" + common.Pick(r, c)
			}
		case kind == "none":
			c := []string{"nop", "fail:" + strconv.Itoa(i+1), "failok", "put:3"}
			if redirOK || last {
				c = append(c, "nopin", "nopin", "eachin")
			}
			return "N:" + common.Pick(r, c)
		}
	}
	var ops []string
	switch {
	case i == 0 || kind == "none":
		if kind == "none" && r.Chance(1, 2) {
			ops = append(ops, "z"+strconv.Itoa(r.Range(0, 300)))
		}
		ops = append(ops, sendOps()...)
		ops = append(ops, exit()...)
	case kind == "full":
		if r.Chance(1, 2) && !(last) {
			ops = append(ops, "F")
		} else if r.Chance(1, 2) {
			ops = append(ops, "F")
		} else {
			ops = append(ops, "D")
			if r.Chance(1, 2) {
				ops = append(ops, sendOps()...)
			}
		}
		if ops[0] == "F" && (maxVals < 5*buf || maxBytes < 200000) && !last {
			// a forwarding filter sends what it receives; the next stage is an
			// early consumer, so forwarding everything could exceed its limits
			// on the channel it does not service → forward values or bytes only
			if maxVals < 5*buf {
				ops[0] = "Fb"
			} else {
				ops[0] = "Fv"
			}
		}
		ops = append(ops, exit()...)
	case kind == "earlyV":
		for k := r.Range(0, 2*buf); k > 0; k-- {
			ops = append(ops, "t")
		}
		if r.Chance(1, 2) {
			ops = append(ops, sendOps()...)
		}
		ops = append(ops, exit()...)
	case kind == "earlyB":
		for k := r.Range(0, 6); k > 0; k-- {
			ops = append(ops, "r"+strconv.Itoa(common.Pick(r, []int{1, 7, 4096, 65536})))
		}
		if r.Chance(1, 2) {
			ops = append(ops, sendOps()...)
		}
		ops = append(ops, exit()...)
	}
	if len(ops) == 0 {
		ops = []string{"y"}
	}
	return "S" + flags + ":" + strings.Join(ops, ",")
}

// Tag lists the interesting situations an op reached (from its trace).
func tagsOf(n int, tr []string, impl string) string {
	seen := map[string]bool{}
	for _, t := range tr {
		switch {
		case strings.HasPrefix(t, "pb") && strings.HasSuffix(t, ":g"):
			seen["put-reader-gone"] = true
		case strings.HasPrefix(t, "pb") && strings.HasSuffix(t, ":s"):
			seen["put-sent"] = true
		case strings.HasPrefix(t, "wb") && strings.HasSuffix(t, ":g"):
			seen["write-epipe"] = true
		case strings.HasPrefix(t, "wb"):
			seen["write-ok"] = true
		case strings.HasPrefix(t, "tb") && strings.HasSuffix(t, ":c"):
			seen["take-closed"] = true
		case strings.HasPrefix(t, "rb") && strings.HasSuffix(t, ":eof"), strings.HasPrefix(t, "le"):
			seen["read-eof"] = true
		case strings.HasPrefix(t, "lr"):
			seen["native-line-read"] = true
		case strings.HasPrefix(t, "xr") && strings.Contains(t, ":g:-"):
			seen["reader-gone-dropped"] = true
		case strings.HasPrefix(t, "xr") && strings.Contains(t, ":g:g"):
			seen["reader-gone-last-stage-kept"] = true
		case strings.HasPrefix(t, "xr") && strings.Contains(t, ":n:"):
			seen["no-value-output"] = true
		case strings.HasPrefix(t, "cf") && !seen["ret"]:
		}
	}
	f := strings.Fields(impl)
	if len(f) >= 2 && f[0] == "accept" {
		switch {
		case f[1] == "-":
			seen["result-nil"] = true
		case strings.HasPrefix(f[1], "P["):
			seen["result-pipeline-error"] = true
		default:
			seen["result-single"] = true
		}
	} else {
		seen[strings.ToLower(f[0])] = true
	}
	seen[fmt.Sprintf("stages-%d", n)] = true
	var out []string
	for k := range seen {
		out = append(out, k)
	}
	return strings.Join(out, " ")
}

var _ = time.Second
