package c14

// The statement language shared with lean/ElvModel/C14/Driver.lean: token
// codec, rendering to elvish source (with the source spans of every lvalue so
// that an error range can be named), canonical rendering of Go values.

import (
	"fmt"
	"sort"
	"strconv"
	"strings"

	"src.elv.sh/pkg/eval/vals"
	"src.elv.sh/pkg/parse"
	"verifharness/common"
)

type key struct {
	kind byte // 's' string, 'n' typed int, 'k' list of strings, '0' $nil
	s    string
	n    int
	l    []string
}

type val struct {
	kind byte // 's', 'n', '0' (nil), 'l', 'm'
	s    string
	n    int
	list []*val
	keys []key
	vals []*val
}

type lvalue struct {
	tag, head string
	idx       []key
}

type rhs struct {
	lit  *val // nil: a reference
	name string
	path []key
}

type assign struct {
	lhs []lvalue
	rhs []rhs
}

type stmt struct {
	kind    string // set tmp del put call with
	as      assign
	assigns []assign
	body    []*stmt
}

// ---- token encoding ----

func (k key) tok() string {
	switch k.kind {
	case 's':
		return "s:" + common.Hex(k.s)
	case 'n':
		return "n:" + strconv.Itoa(k.n)
	case '0':
		return "knil"
	}
	parts := []string{"k["}
	for _, s := range k.l {
		parts = append(parts, common.Hex(s))
	}
	return strings.Join(append(parts, "]"), " ")
}

func (v *val) tok() string {
	switch v.kind {
	case 's':
		return "s:" + common.Hex(v.s)
	case 'n':
		return "n:" + strconv.Itoa(v.n)
	case '0':
		return "nil"
	case 'l':
		parts := []string{"["}
		for _, e := range v.list {
			parts = append(parts, e.tok())
		}
		return strings.Join(append(parts, "]"), " ")
	}
	parts := []string{"{"}
	for i, k := range v.keys {
		parts = append(parts, k.tok(), v.vals[i].tok())
	}
	return strings.Join(append(parts, "}"), " ")
}

func keysTok(ks []key) string {
	var sb strings.Builder
	for _, k := range ks {
		sb.WriteString(" " + k.tok())
	}
	return sb.String()
}

func (a assign) tok(close string) string {
	var sb strings.Builder
	for _, lv := range a.lhs {
		sb.WriteString("lv:" + lv.tag + ":" + lv.head + keysTok(lv.idx) + " ")
	}
	sb.WriteString("=")
	sb.WriteString(rhssTok(a.rhs))
	sb.WriteString(" " + close)
	return sb.String()
}

func rhssTok(rs []rhs) string {
	var sb strings.Builder
	for _, r := range rs {
		if r.lit != nil {
			sb.WriteString(" v " + r.lit.tok())
		} else {
			sb.WriteString(" $" + r.name + keysTok(r.path))
		}
	}
	return sb.String()
}

func stmtsTok(ss []*stmt) string {
	parts := make([]string, len(ss))
	for i, s := range ss {
		parts[i] = s.tok()
	}
	return strings.Join(parts, " ")
}

func (s *stmt) tok() string {
	switch s.kind {
	case "set", "tmp":
		return s.kind + " " + s.as.tok(";")
	case "del":
		lv := s.as.lhs[0]
		return "del lv:" + lv.tag + ":" + lv.head + keysTok(lv.idx) + " ;"
	case "put":
		return "put" + rhssTok(s.as.rhs) + " ;"
	case "call":
		return "call { " + stmtsTok(s.body) + " }"
	case "with":
		var sb strings.Builder
		sb.WriteString("with")
		for _, a := range s.assigns {
			sb.WriteString(" ( " + a.tok(")"))
		}
		sb.WriteString(" { " + stmtsTok(s.body) + " }")
		return sb.String()
	}
	panic("bad stmt kind " + s.kind)
}

// ---- token parser (for Impl, which sees only the op line) ----

type parser struct {
	t []string
	i int
}

func (p *parser) peek() string {
	if p.i < len(p.t) {
		return p.t[p.i]
	}
	return ""
}
func (p *parser) next() string { t := p.peek(); p.i++; return t }
func (p *parser) expect(t string) {
	if got := p.next(); got != t {
		panic(fmt.Sprintf("c14 parse: want %q got %q", t, got))
	}
}

func (p *parser) key() (key, bool) {
	t := p.peek()
	switch {
	case strings.HasPrefix(t, "s:"):
		p.i++
		return key{kind: 's', s: common.Unhex(t[2:])}, true
	case strings.HasPrefix(t, "n:"):
		p.i++
		n, _ := strconv.Atoi(t[2:])
		return key{kind: 'n', n: n}, true
	case t == "knil":
		p.i++
		return key{kind: '0'}, true
	case t == "k[":
		p.i++
		k := key{kind: 'k'}
		for p.peek() != "]" {
			k.l = append(k.l, common.Unhex(p.next()))
		}
		p.i++
		return k, true
	}
	return key{}, false
}

func (p *parser) keys() []key {
	var ks []key
	for {
		k, ok := p.key()
		if !ok {
			return ks
		}
		ks = append(ks, k)
	}
}

func (p *parser) val() *val {
	t := p.next()
	switch {
	case t == "nil":
		return &val{kind: '0'}
	case t == "[":
		v := &val{kind: 'l'}
		for p.peek() != "]" {
			v.list = append(v.list, p.val())
		}
		p.i++
		return v
	case t == "{":
		v := &val{kind: 'm'}
		for p.peek() != "}" {
			k, ok := p.key()
			if !ok {
				panic("c14 parse: key expected")
			}
			v.keys = append(v.keys, k)
			v.vals = append(v.vals, p.val())
		}
		p.i++
		return v
	case strings.HasPrefix(t, "s:"):
		return &val{kind: 's', s: common.Unhex(t[2:])}
	case strings.HasPrefix(t, "n:"):
		n, _ := strconv.Atoi(t[2:])
		return &val{kind: 'n', n: n}
	}
	panic("c14 parse: bad value token " + t)
}

func (p *parser) lvs() []lvalue {
	var out []lvalue
	for strings.HasPrefix(p.peek(), "lv:") {
		parts := strings.Split(p.next()[3:], ":")
		out = append(out, lvalue{tag: parts[0], head: parts[1], idx: p.keys()})
	}
	return out
}

func (p *parser) rhss() []rhs {
	var out []rhs
	for {
		t := p.peek()
		switch {
		case t == "v":
			p.i++
			out = append(out, rhs{lit: p.val()})
		case strings.HasPrefix(t, "$"):
			p.i++
			out = append(out, rhs{name: t[1:], path: p.keys()})
		default:
			return out
		}
	}
}

func (p *parser) assign(close string) assign {
	a := assign{lhs: p.lvs()}
	p.expect("=")
	a.rhs = p.rhss()
	p.expect(close)
	return a
}

func (p *parser) stmts() []*stmt {
	var out []*stmt
	for p.i < len(p.t) && p.peek() != "}" {
		out = append(out, p.stmt())
	}
	return out
}

func (p *parser) stmt() *stmt {
	t := p.next()
	switch t {
	case "set", "tmp":
		return &stmt{kind: t, as: p.assign(";")}
	case "del":
		s := &stmt{kind: "del", as: assign{lhs: p.lvs()}}
		p.expect(";")
		return s
	case "put":
		s := &stmt{kind: "put", as: assign{rhs: p.rhss()}}
		p.expect(";")
		return s
	case "call":
		p.expect("{")
		s := &stmt{kind: "call", body: p.stmts()}
		p.expect("}")
		return s
	case "with":
		s := &stmt{kind: "with"}
		for p.peek() == "(" {
			p.i++
			s.assigns = append(s.assigns, p.assign(")"))
		}
		p.expect("{")
		s.body = p.stmts()
		p.expect("}")
		return s
	}
	panic("c14 parse: bad statement token " + t)
}

func parseStmt(field string) *stmt {
	p := &parser{t: strings.Fields(field)}
	s := p.stmt()
	if p.i != len(p.t) {
		panic("c14 parse: trailing tokens")
	}
	return s
}

func parseStmts(field string) []*stmt {
	p := &parser{t: strings.Fields(field)}
	ss := p.stmts()
	if p.i != len(p.t) {
		panic("c14 parse: trailing tokens")
	}
	return ss
}

func parseVal(field string) *val {
	p := &parser{t: strings.Fields(field)}
	return p.val()
}

// ---- rendering to elvish source ----

// span of one rendered lvalue: begin of the head and the end offsets of the
// head and of every index (compile_lvalue.go `ends`).
type span struct {
	tag   string
	begin int
	ends  []int
}

type renderer struct {
	sb    strings.Builder
	spans []span
	rhs   [][2]int // spans of right-hand-side expressions
	forms [][2]int // spans of set/tmp forms and with-assignments
	priv  string   // the private variable "p<k>" rendered as `v` ("" = none)
}

func (r *renderer) w(s string) { r.sb.WriteString(s) }

func (r *renderer) name(n string) string {
	if n == r.priv && n != "" {
		return "v"
	}
	return n
}

func keySrc(k key) string {
	switch k.kind {
	case 's':
		return parse.Quote(k.s)
	case 'n':
		return "(num " + strconv.Itoa(k.n) + ")"
	case '0':
		return "$nil"
	}
	parts := make([]string, len(k.l))
	for i, s := range k.l {
		parts[i] = parse.Quote(s)
	}
	return "[" + strings.Join(parts, " ") + "]"
}

func valSrc(v *val) string {
	switch v.kind {
	case 's':
		return parse.Quote(v.s)
	case 'n':
		return "(num " + strconv.Itoa(v.n) + ")"
	case '0':
		return "$nil"
	case 'l':
		parts := make([]string, len(v.list))
		for i, e := range v.list {
			parts[i] = valSrc(e)
		}
		return "[" + strings.Join(parts, " ") + "]"
	}
	if len(v.keys) == 0 {
		return "[&]"
	}
	parts := make([]string, len(v.keys))
	for i, k := range v.keys {
		parts[i] = "&" + keySrc(k) + "=" + valSrc(v.vals[i])
	}
	return "[" + strings.Join(parts, " ") + "]"
}

// del: delElemOp's `ends` are the ends of the index expressions themselves
// (builtin_special.go newDelElementOp: op.Range().To), i.e. before the closing
// bracket; an lvalue's Range() includes it.
func (r *renderer) lv(lv lvalue, del bool) {
	sp := span{tag: lv.tag, begin: r.sb.Len()}
	r.w(r.name(lv.head))
	sp.ends = append(sp.ends, r.sb.Len())
	for _, k := range lv.idx {
		r.w("[" + keySrc(k))
		if del {
			sp.ends = append(sp.ends, r.sb.Len())
		}
		r.w("]")
		if !del {
			sp.ends = append(sp.ends, r.sb.Len())
		}
	}
	r.spans = append(r.spans, sp)
}

func (r *renderer) rhsExpr(x rhs) {
	from := r.sb.Len()
	if x.lit != nil {
		r.w(valSrc(x.lit))
	} else {
		r.w("$" + r.name(x.name))
		for _, k := range x.path {
			r.w("[" + keySrc(k) + "]")
		}
	}
	r.rhs = append(r.rhs, [2]int{from, r.sb.Len()})
}

func (r *renderer) assign(a assign) {
	for _, lv := range a.lhs {
		r.lv(lv, false)
		r.w(" ")
	}
	r.w("=")
	for _, x := range a.rhs {
		r.w(" ")
		r.rhsExpr(x)
	}
}

func (r *renderer) stmts(ss []*stmt) {
	for _, s := range ss {
		r.stmt(s)
		r.w("\n")
	}
}

func (r *renderer) stmt(s *stmt) {
	switch s.kind {
	case "set", "tmp":
		from := r.sb.Len()
		r.w(s.kind + " ")
		r.assign(s.as)
		r.forms = append(r.forms, [2]int{from, r.sb.Len()})
	case "del":
		r.w("del ")
		r.lv(s.as.lhs[0], true)
	case "put":
		r.w("put")
		for _, x := range s.as.rhs {
			r.w(" ")
			r.rhsExpr(x)
		}
	case "call":
		r.w("{\n")
		r.stmts(s.body)
		r.w("}")
	case "with":
		r.w("with")
		for _, a := range s.assigns {
			r.w(" [")
			from := r.sb.Len()
			r.assign(a)
			r.forms = append(r.forms, [2]int{from - 1, r.sb.Len() + 1})
			r.w("]")
		}
		r.w(" {\n")
		r.stmts(s.body)
		r.w("}")
	}
}

// site names the error range [from,to) of a chunk rendered by r.
func (r *renderer) site(from, to int) string {
	for _, sp := range r.spans {
		if from == sp.begin {
			n := len(sp.ends) - 1
			if to == sp.ends[n] {
				return sp.tag
			}
			if to == sp.ends[0] {
				return sp.tag + ".head"
			}
			for i, e := range sp.ends {
				if to == e {
					return fmt.Sprintf("%s.level%d", sp.tag, i)
				}
			}
		}
	}
	for _, x := range r.rhs {
		if from >= x[0] && to <= x[1] {
			return "rhs"
		}
	}
	for _, x := range r.forms {
		if from == x[0] && to == x[1] {
			return "form"
		}
	}
	return fmt.Sprintf("?%d-%d", from, to)
}

// heads collects the head variable of every lvalue in s (recursively).
func heads(ss []*stmt, into map[string]bool) {
	for _, s := range ss {
		for _, lv := range s.as.lhs {
			into[lv.head] = true
		}
		for _, a := range s.assigns {
			for _, lv := range a.lhs {
				into[lv.head] = true
			}
		}
		heads(s.body, into)
	}
}

// ---- canonical rendering of real Go values (same text as Driver.lean renderVal) ----

func renderKeyGo(k any) string {
	switch k := k.(type) {
	case string:
		return "s:" + common.Hex(k)
	case int:
		return "n:" + strconv.Itoa(k)
	case nil:
		return "knil"
	case vals.List:
		parts := []string{}
		for it := k.Iterator(); it.HasElem(); it.Next() {
			s, ok := it.Elem().(string)
			if !ok {
				return "?key-list"
			}
			parts = append(parts, common.Hex(s))
		}
		return "k[" + strings.Join(parts, " ") + "]"
	}
	return fmt.Sprintf("?key-%T", k)
}

func renderGo(v any) string {
	var sb strings.Builder
	renderGoTo(&sb, v)
	return sb.String()
}

func renderGoTo(sb *strings.Builder, v any) {
	switch v := v.(type) {
	case nil:
		sb.WriteString("nil")
	case string:
		sb.WriteString("s:" + common.Hex(v))
	case int:
		sb.WriteString("n:" + strconv.Itoa(v))
	case vals.List:
		sb.WriteString("[")
		first := true
		for it := v.Iterator(); it.HasElem(); it.Next() {
			if !first {
				sb.WriteString(" ")
			}
			first = false
			renderGoTo(sb, it.Elem())
		}
		sb.WriteString("]")
	case vals.Map:
		type kv struct{ k, v string }
		var kvs []kv
		for it := v.Iterator(); it.HasElem(); it.Next() {
			k, x := it.Elem()
			kvs = append(kvs, kv{renderKeyGo(k), renderGo(x)})
		}
		sort.Slice(kvs, func(i, j int) bool { return kvs[i].k < kvs[j].k })
		sb.WriteString("{")
		for i, e := range kvs {
			if i > 0 {
				sb.WriteString(" ")
			}
			sb.WriteString(e.k + "=" + e.v)
		}
		sb.WriteString("}")
	default:
		fmt.Fprintf(sb, "?%T", v)
	}
}

func fnv(s string) uint64 {
	h := uint64(14695981039346656037)
	for i := 0; i < len(s); i++ {
		h = (h ^ uint64(s[i])) * 1099511628211
	}
	return h
}

func hashStr(s string) string { return strconv.FormatUint(fnv(s), 10) }

func renderOut(v any) string {
	s := renderGo(v)
	if len(s) < 120 {
		return s
	}
	return "#" + hashStr(s)
}

// ---- plain reference trees (the oracle's own nested assoc / dissoc) ----

type tree struct {
	kind byte // 's','n','0','l','m','?'
	s    string
	n    int
	list []*tree
	kv   map[string]*tree // by rendered key
}

func treeOf(v any) *tree {
	switch v := v.(type) {
	case nil:
		return &tree{kind: '0'}
	case string:
		return &tree{kind: 's', s: v}
	case int:
		return &tree{kind: 'n', n: v}
	case vals.List:
		t := &tree{kind: 'l'}
		for i := 0; i < v.Len(); i++ { // by Index, not by Iterator: a second access path
			e, _ := v.Index(i)
			t.list = append(t.list, treeOf(e))
		}
		return t
	case vals.Map:
		t := &tree{kind: 'm', kv: map[string]*tree{}}
		for it := v.Iterator(); it.HasElem(); it.Next() {
			k, x := it.Elem()
			t.kv[renderKeyGo(k)] = treeOf(x)
		}
		return t
	}
	return &tree{kind: '?'}
}

func treeOfVal(v *val) *tree {
	switch v.kind {
	case 's':
		return &tree{kind: 's', s: v.s}
	case 'n':
		return &tree{kind: 'n', n: v.n}
	case '0':
		return &tree{kind: '0'}
	case 'l':
		t := &tree{kind: 'l'}
		for _, e := range v.list {
			t.list = append(t.list, treeOfVal(e))
		}
		return t
	}
	t := &tree{kind: 'm', kv: map[string]*tree{}}
	for i, k := range v.keys {
		t.kv[renderKeyVal(k)] = treeOfVal(v.vals[i])
	}
	return t
}

func renderKeyVal(k key) string {
	switch k.kind {
	case 's':
		return "s:" + common.Hex(k.s)
	case 'n':
		return "n:" + strconv.Itoa(k.n)
	case '0':
		return "knil"
	}
	parts := make([]string, len(k.l))
	for i, s := range k.l {
		parts[i] = common.Hex(s)
	}
	return "k[" + strings.Join(parts, " ") + "]"
}

func (t *tree) render() string {
	switch t.kind {
	case '0':
		return "nil"
	case 's':
		return "s:" + common.Hex(t.s)
	case 'n':
		return "n:" + strconv.Itoa(t.n)
	case 'l':
		parts := make([]string, len(t.list))
		for i, e := range t.list {
			parts[i] = e.render()
		}
		return "[" + strings.Join(parts, " ") + "]"
	case 'm':
		ks := make([]string, 0, len(t.kv))
		for k := range t.kv {
			ks = append(ks, k)
		}
		sort.Strings(ks)
		parts := make([]string, len(ks))
		for i, k := range ks {
			parts[i] = k + "=" + t.kv[k].render()
		}
		return "{" + strings.Join(parts, " ") + "}"
	}
	return "?"
}

// listPos reads an element index the way the language reference describes
// it: a decimal integer, negative from the back.  ok=false: not a plain
// in-range element index (the oracle then does not judge the step).
func listPos(k key, n int) (int, bool) {
	var i int
	switch k.kind {
	case 'n':
		i = k.n
	case 's':
		var err error
		i, err = strconv.Atoi(k.s)
		if err != nil {
			return 0, false
		}
	default:
		return 0, false
	}
	if i < 0 {
		i += n
	}
	if i < 0 || i >= n {
		return 0, false
	}
	return i, true
}

// refGet is `$t[k]` on plain trees for element indices and map keys.
func refGet(t *tree, k key) (*tree, bool) {
	switch t.kind {
	case 'l':
		i, ok := listPos(k, len(t.list))
		if !ok {
			return nil, false
		}
		return t.list[i], true
	case 'm':
		x, ok := t.kv[renderKeyVal(k)]
		return x, ok
	}
	return nil, false
}

// refAssocIn is the nested assoc of the property statement on plain trees
// (copying, never sharing): t with the element at path replaced by v.
func refAssocIn(t *tree, path []key, v *tree) (*tree, bool) {
	if len(path) == 0 {
		return v, true
	}
	var inner *tree
	if len(path) == 1 {
		inner = v
	} else {
		sub, ok := refGet(t, path[0])
		if !ok {
			return nil, false
		}
		inner, ok = refAssocIn(sub, path[1:], v)
		if !ok {
			return nil, false
		}
	}
	switch t.kind {
	case 'l':
		i, ok := listPos(path[0], len(t.list))
		if !ok {
			return nil, false
		}
		nt := &tree{kind: 'l', list: append([]*tree(nil), t.list...)}
		nt.list[i] = inner
		return nt, true
	case 'm':
		nt := &tree{kind: 'm', kv: map[string]*tree{}}
		for k, x := range t.kv {
			nt.kv[k] = x
		}
		nt.kv[renderKeyVal(path[0])] = inner
		return nt, true
	}
	return nil, false
}

// refDissocIn: t with the map entry at path removed.
func refDissocIn(t *tree, path []key) (*tree, bool) {
	if len(path) == 1 {
		if t.kind != 'm' {
			return nil, false
		}
		nt := &tree{kind: 'm', kv: map[string]*tree{}}
		for k, x := range t.kv {
			nt.kv[k] = x
		}
		delete(nt.kv, renderKeyVal(path[0]))
		return nt, true
	}
	sub, ok := refGet(t, path[0])
	if !ok {
		return nil, false
	}
	inner, ok := refDissocIn(sub, path[1:])
	if !ok {
		return nil, false
	}
	return refAssocIn(t, path[:1], inner)
}
