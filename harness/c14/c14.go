// Package c14: correspondence and oracle for C14 (element assignment never
// mutates values seen elsewhere), on a real in-process Evaler.
//
// Op lines (tab separated; the token syntax of the statement fields is in
// lean/ElvModel/C14/Driver.lean and ast.go):
//
//	reset <name>=<Val> …     new Evaler; `var <name> = <Val>` for each
//	do <via> <Stmt>          evaluate one statement; via = direct | fn (inside a
//	                         function that captures the global VARIABLES)
//	mk <k> <x> <Stmt>*       set c<k> = ({|v| put [&run={ <body> } &get={ put $v }] } $x):
//	                         a closure pair around a fresh variable holding the VALUE of $x
//	                         (the model calls it p<k>)
//	run <k>                  $c<k>[run]
//	obs                      print every variable in full
//
// Outcome line: `<status> | <outputs> | <name>=<hash of canonical rendering> …`.
package c14

import (
	"errors"
	"fmt"
	"runtime/debug"
	"strconv"
	"strings"

	"src.elv.sh/pkg/eval"
	"src.elv.sh/pkg/eval/errs"
	"src.elv.sh/pkg/eval/vals"
	"src.elv.sh/pkg/parse"
	"verifharness/common"
)

func init() { common.Register("C14", run) }

const nClosures = 3

type closure struct {
	body []*stmt
	priv string
}

type held struct {
	v    any
	repr string
	what string
}

// stepInfo is what Impl leaves for Oracle and Tag.
type stepInfo struct {
	kind    string
	stmts   []*stmt // statements executed (do: one; run: the body)
	before  map[string]any
	beforeR map[string]string // vals.Repr of the values before the step
	after   map[string]any
	outs    []any
	status  string
	tags    []string
	touched map[string]bool
}

type state struct {
	ev       *eval.Evaler
	names    []string
	closures map[string]*closure
	renders  map[string]*renderer
	chunk    int
	cur      map[string]any    // current value of every variable
	curRepr  map[string]string // vals.Repr of it
	held     []held
	steps    int
	last     *stepInfo
	light    bool   // the generator's private run: no Repr, no hashes
	poisoned string // a value became cyclic / absurdly deep: the history is abandoned
	biggest  int    // node count of the largest variable (generator: end the history early)
}

// measure walks v to at most maxDepth levels and budget nodes; ok=false means
// deeper (only a container that was written in place can contain itself) or
// larger.  Everything that renders or Reprs a value is called only after this.
func measure(v any, depth int, budget *int) bool {
	*budget--
	if *budget < 0 || depth < 0 {
		return false
	}
	switch v := v.(type) {
	case vals.List:
		for it := v.Iterator(); it.HasElem(); it.Next() {
			if !measure(it.Elem(), depth-1, budget) {
				return false
			}
		}
	case vals.Map:
		for it := v.Iterator(); it.HasElem(); it.Next() {
			k, x := it.Elem()
			if !measure(k, depth-1, budget) || !measure(x, depth-1, budget) {
				return false
			}
		}
	}
	return true
}

const (
	maxDepth = 100
	maxNodes = 2000000
)

func run(c *common.Ctx) error {
	debug.SetGCPercent(400)
	var live *state
	s := &common.Std{
		Rule: "random histories (reset + ~40 steps) of set / multi-lvalue set / del / { tmp … } / with […] {…} / put on 4 global " +
			"variables and up to 3 closure-private variables holding nested lists (0–5 and 30–70 elements, lengths around 32/33 and 64/65), " +
			"maps (0–3 and 6–20 keys, sizes around 8 and 16), strings, typed ints and $nil; paths of depth 1–4 picked by walking the real " +
			"current value (element indices as decimal / negative / typed ints, map keys existing or new, 10% deliberately bad: out of range, " +
			"slices, non-integers, list keys, missing keys, non-containers); right-hand sides literal or $x[path] (sharing, slices of lists); " +
			"aliases: other variables, closure-captured values, every output and every earlier version of every variable are held by the " +
			"harness and re-checked after later steps; non-trivial = tag non-empty; distinct by op line",
		NewState: func(c *common.Ctx) any { live = &state{}; return live },
		Gen:      gen,
		Impl:     func(st any, f []string) string { return st.(*state).impl(f) },
		Oracle:   func(st any, f []string, out string) (string, string) { return st.(*state).oracle(f, out) },
		Tag: func(f []string, out string) string {
			if live == nil || live.last == nil {
				return ""
			}
			return strings.Join(live.last.tags, ",")
		},
	}
	return s.Run(c)
}

// ---- running ops on the real Evaler ----

// capture makes an output port that collects values in memory (no OS pipe:
// eval.CapturePort costs two pipes and two goroutines per evaluation).
func capture() (*eval.Port, func() []any) {
	ch := make(chan any, 64)
	done := make(chan struct{})
	var values []any
	go func() {
		for v := range ch {
			values = append(values, v)
		}
		close(done)
	}()
	return &eval.Port{File: eval.DevNull, Chan: ch}, func() []any {
		close(ch)
		<-done
		return values
	}
}

func (st *state) eval(name, code string) ([]any, error) {
	port, collect := capture()
	cfg := eval.EvalCfg{Ports: []*eval.Port{eval.DummyInputPort, port, eval.DummyOutputPort}}
	err := st.ev.Eval(parse.Source{Name: name, Code: code}, cfg)
	return collect(), err
}

func (st *state) call(f eval.Callable) ([]any, error) {
	port, collect := capture()
	cfg := eval.EvalCfg{Ports: []*eval.Port{eval.DummyInputPort, port, eval.DummyOutputPort}}
	err := st.ev.Call(f, eval.CallCfg{From: "[c14 get]"}, cfg)
	return collect(), err
}

func (st *state) mustEval(code string) []any {
	vs, err := st.eval("[c14 setup]", code)
	if err != nil {
		panic(fmt.Sprintf("c14 setup code failed: %v\n%s", err, code))
	}
	return vs
}

func errMsg(err error) string {
	if e, ok := err.(errs.OutOfRange); ok {
		return fmt.Sprintf("oor|%s|%s|%s|%s", e.What, e.ValidLow, e.ValidHigh, common.Hex(e.Actual))
	}
	if _, ok := err.(errs.ArityMismatch); ok {
		return "arity"
	}
	msg := err.Error()
	switch {
	case msg == "index must be integer":
		return "must-be-integer"
	case msg == "index not at rune boundary":
		return "not-at-rune-boundary"
	case msg == "assoc with slice not yet supported":
		return "assoc-with-slice"
	case msg == "replacement must be string":
		return "replacement-must-be-string"
	case strings.HasPrefix(msg, "no such key: "):
		return "no-such-key"
	case msg == "not indexable":
		return "not-indexable"
	case msg == "assoc is not supported":
		return "assoc-unsupported"
	case msg == "value does not support element removal":
		return "no-removal"
	}
	return "OTHER " + strings.ReplaceAll(msg, "\t", " ")
}

func (st *state) status(err error) string {
	if err == nil {
		return "ok"
	}
	var exc eval.Exception
	if !errors.As(err, &exc) {
		return "compile-error"
	}
	site := "?"
	if tr := exc.StackTrace(); tr != nil && tr.Head != nil {
		if r, ok := st.renders[tr.Head.Name]; ok {
			site = r.site(tr.Head.From, tr.Head.To)
		} else {
			site = "?chunk " + tr.Head.Name
		}
	}
	return "exc " + errMsg(exc.Reason()) + " @" + site
}

func (st *state) readVars() {
	st.cur = map[string]any{}
	st.curRepr = map[string]string{}
	g := st.ev.Global()
	for _, n := range st.names {
		var v any
		if strings.HasPrefix(n, "p") {
			k := n[1:]
			pair, _ := g.IndexString("c" + k).Get().(vals.Map)
			if pair == nil {
				panic("c14: closure pair missing: c" + k)
			}
			getter, _ := pair.Index("get")
			vs, err := st.call(getter.(eval.Callable))
			if err != nil || len(vs) != 1 {
				panic(fmt.Sprintf("c14: getter of closure %s failed: %v", k, err))
			}
			v = vs[0]
		} else {
			variable := g.IndexString(n)
			if variable == nil {
				panic("c14: global variable missing: " + n)
			}
			v = variable.Get()
		}
		st.cur[n] = v
		budget := maxNodes
		if !measure(v, maxDepth, &budget) {
			st.poisoned = "$" + n + " is cyclic or deeper than " + strconv.Itoa(maxDepth) + " levels"
			return
		}
		if used := maxNodes - budget; used > st.biggest {
			st.biggest = used
		}
		if !st.light {
			st.curRepr[n] = vals.ReprPlain(v)
		}
	}
}

func (st *state) hashes() string {
	if st.light {
		return ""
	}
	parts := make([]string, len(st.names))
	for i, n := range st.names {
		parts[i] = n + "=" + hashStr(renderGo(st.cur[n]))
	}
	return strings.Join(parts, " ")
}

func (st *state) hold(v any, what string) {
	if st.light {
		return
	}
	switch v.(type) {
	case vals.List, vals.Map, string:
		st.held = append(st.held, held{v, vals.ReprPlain(v), what})
	}
}

func copyMap(m map[string]any) map[string]any {
	out := make(map[string]any, len(m))
	for k, v := range m {
		out[k] = v
	}
	return out
}

func (st *state) impl(f []string) string {
	st.last = &stepInfo{kind: f[0]}
	switch f[0] {
	case "reset":
		st.ev = eval.NewEvaler()
		st.names = nil
		st.closures = map[string]*closure{}
		st.renders = map[string]*renderer{}
		st.held = nil
		st.steps = 0
		st.poisoned = ""
		st.biggest = 0
		var sb strings.Builder
		for _, field := range f[1:] {
			i := strings.Index(field, "=")
			name := field[:i]
			st.names = append(st.names, name)
			sb.WriteString("var " + name + " = " + valSrc(parseVal(field[i+1:])) + "\n")
		}
		for k := 0; k < nClosures; k++ {
			sb.WriteString("var c" + strconv.Itoa(k) + " = $nil\n")
		}
		st.mustEval(sb.String())
		st.readVars()
		for _, n := range st.names {
			st.hold(st.cur[n], "initial $"+n)
		}
		return "ok |  | " + st.hashes()
	case "obs":
		if st.light {
			return ""
		}
		if st.poisoned != "" {
			return "ABANDONED"
		}
		parts := make([]string, len(st.names))
		for i, n := range st.names {
			parts[i] = n + "=" + renderGo(st.cur[n])
		}
		return strings.Join(parts, " ")
	}
	if st.ev == nil {
		return "bad-op"
	}
	if st.poisoned != "" {
		return "ABANDONED"
	}
	info := st.last
	info.before = copyMap(st.cur)
	info.beforeR = st.curRepr
	info.touched = map[string]bool{}
	st.chunk++
	st.steps++
	name := fmt.Sprintf("c%d", st.chunk)
	r := &renderer{}
	var code string
	switch f[0] {
	case "do":
		s := parseStmt(f[2])
		info.stmts = []*stmt{s}
		if f[1] == "fn" {
			r.w("fn w {\n")
			r.stmt(s)
			r.w("\n}\nw")
		} else {
			r.stmt(s)
		}
		code = r.sb.String()
	case "mk":
		k, x := f[1], f[2]
		body := parseStmts(f[3])
		priv := "p" + k
		r.priv = priv
		r.w("set c" + k + " = ({|v| put [&run={\n")
		r.stmts(body)
		r.w("} &get={ put $v }] } $" + x + ")")
		code = r.sb.String()
		st.closures[k] = &closure{body, priv}
		found := false
		for _, n := range st.names {
			found = found || n == priv
		}
		if !found {
			st.names = append(st.names, priv)
		}
		info.touched[priv] = true
	case "run":
		cl, ok := st.closures[f[1]]
		if !ok {
			return "bad-op"
		}
		info.stmts = []*stmt{{kind: "call", body: cl.body}}
		code = "$c" + f[1] + "[run]"
	default:
		return "bad-op"
	}
	st.renders[name] = r
	outs, err := st.eval(name, code)
	info.outs = outs
	info.status = st.status(err)
	st.biggest = 0
	st.readVars()
	for _, o := range outs {
		budget := maxNodes
		if st.poisoned == "" && !measure(o, maxDepth, &budget) {
			st.poisoned = "an output is cyclic or deeper than " + strconv.Itoa(maxDepth) + " levels"
		}
	}
	if st.poisoned != "" {
		info.before = nil
		return "CYCLIC-VALUE"
	}
	info.after = copyMap(st.cur)
	heads(info.stmts, info.touched)
	info.tags = tagsFor(f, info)
	if st.light {
		return ""
	}
	outStrs := make([]string, len(outs))
	for i, o := range outs {
		outStrs[i] = renderOut(o)
	}
	if f[0] == "mk" {
		if info.status != "ok" {
			return "mk-failed " + info.status
		}
		return "ok |  | " + st.hashes()
	}
	return info.status + " | " + strings.Join(outStrs, " ") + " | " + st.hashes()
}

// ---- the oracle: C14's statement evaluated on the real values ----

func (st *state) oracle(f []string, out string) (string, string) {
	info := st.last
	if out == "PANIC" || out == "TIMEOUT" {
		return "crash", out
	}
	if out == "CYCLIC-VALUE" {
		return "alias-mutated", st.poisoned + " (a container holds itself: it was written in place)"
	}
	if out == "ABANDONED" {
		return "", ""
	}
	if info == nil || info.before == nil {
		if f[0] == "obs" {
			return st.checkHeld(len(st.held))
		}
		return "", ""
	}
	// (1) only the assigned variables are rebound
	for _, n := range st.names {
		if info.touched[n] {
			continue
		}
		b, ok := info.before[n]
		if !ok {
			continue
		}
		_ = b
		if rb, ra := info.beforeR[n], st.curRepr[n]; rb != ra {
			return "other-variable-changed", fmt.Sprintf("$%s was %s, is %s after %s", n, clip(rb), clip(ra), f[0])
		}
	}
	// (2) the new value is the nested assoc / dissoc of the old one
	if f[0] == "do" || f[0] == "run" {
		if class, detail := st.checkStmt(info); class != "" {
			return class, detail
		}
	}
	// (3) nothing seen earlier has changed: every value held (old versions of
	// every variable, outputs) still has the Repr it had when it was taken
	nCheck := 6
	if st.steps%8 == 0 {
		nCheck = len(st.held)
	}
	if class, detail := st.checkHeld(nCheck); class != "" {
		return class, detail
	}
	// take the new aliases
	for _, n := range st.names {
		if _, ok := info.before[n]; !ok || info.beforeR[n] != st.curRepr[n] {
			st.hold(st.cur[n], fmt.Sprintf("$%s after step %d", n, st.steps))
		}
	}
	for i, o := range info.outs {
		st.hold(o, fmt.Sprintf("output %d of step %d", i, st.steps))
	}
	return "", ""
}

func clip(s string) string {
	if len(s) > 160 {
		return s[:160] + "…"
	}
	return s
}

func (st *state) checkHeld(n int) (string, string) {
	from := len(st.held) - n
	if from < 0 {
		from = 0
	}
	for i := len(st.held) - 1; i >= from; i-- {
		h := st.held[i]
		if now := vals.ReprPlain(h.v); now != h.repr {
			return "alias-mutated", fmt.Sprintf("%s was %s, is now %s", h.what, clip(h.repr), clip(now))
		}
		// a second access path: Len/Index instead of the iterator
		if l, ok := h.v.(vals.List); ok {
			if got := treeOf(l).render(); got != renderGo(l) {
				return "alias-mutated", fmt.Sprintf("%s: Index and Iterator disagree: %s vs %s", h.what, clip(got), clip(renderGo(l)))
			}
		}
	}
	return "", ""
}

// refRhs evaluates a right-hand side on the values before the step.
func refRhs(before map[string]any, x rhs) (*tree, bool) {
	if x.lit != nil {
		return treeOfVal(x.lit), true
	}
	v, ok := before[x.name]
	if !ok {
		return nil, false
	}
	t := treeOf(v)
	for _, k := range x.path {
		t, ok = refGet(t, k)
		if !ok {
			return nil, false
		}
	}
	return t, true
}

func hasUnknown(t *tree) bool {
	if t.kind == '?' {
		return true
	}
	for _, e := range t.list {
		if hasUnknown(e) {
			return true
		}
	}
	for _, e := range t.kv {
		if hasUnknown(e) {
			return true
		}
	}
	return false
}

// checkStmt judges the shapes whose expected result the property states
// directly; other shapes are covered by the frame/alias checks and by the
// correspondence with the model.
func (st *state) checkStmt(info *stepInfo) (string, string) {
	s := info.stmts[0]
	ok := info.status == "ok"
	switch {
	case s.kind == "set" || s.kind == "del":
		if !ok {
			// a failed single assignment / deletion changes nothing
			if len(s.as.lhs) == 1 {
				h := s.as.lhs[0].head
				if rb, ra := info.beforeR[h], st.curRepr[h]; rb != ra {
					return "changed-on-error", fmt.Sprintf("$%s was %s, is %s after %s", h, clip(rb), clip(ra), info.status)
				}
			}
			return "", ""
		}
		// sequential nested assoc on plain copies
		cur := map[string]*tree{}
		get := func(h string) *tree {
			if t, ok := cur[h]; ok {
				return t
			}
			t := treeOf(info.before[h])
			cur[h] = t
			return t
		}
		if s.kind == "del" {
			lv := s.as.lhs[0]
			nt, ok := refDissocIn(get(lv.head), lv.idx)
			if !ok {
				return "", ""
			}
			cur[lv.head] = nt
		} else {
			if len(s.as.lhs) != len(s.as.rhs) {
				return "", ""
			}
			vs := make([]*tree, len(s.as.rhs))
			for i, x := range s.as.rhs {
				v, ok := refRhs(info.before, x)
				if !ok {
					return "", ""
				}
				vs[i] = v
			}
			for i, lv := range s.as.lhs {
				nt, ok := refAssocIn(get(lv.head), lv.idx, vs[i])
				if !ok {
					return "", ""
				}
				cur[lv.head] = nt
			}
		}
		for h, t := range cur {
			if hasUnknown(t) {
				continue
			}
			if want, got := t.render(), renderGo(info.after[h]); want != got {
				class := "wrong-new-value"
				if s.kind == "del" {
					class = "wrong-value-after-del"
				} else if len(s.as.lhs) > 1 {
					class = "multi-assign-lost-update"
				}
				return class, fmt.Sprintf("$%s is %s, the nested assoc/dissoc of its old value is %s", h, clip(got), clip(want))
			}
		}
	case s.kind == "with":
		// every head assigned by `with` has its whole previous value back
		for _, a := range s.assigns {
			for _, lv := range a.lhs {
				if rb, ra := info.beforeR[lv.head], st.curRepr[lv.head]; rb != ra {
					return "with-not-restored", fmt.Sprintf("$%s was %s, is %s", lv.head, clip(rb), clip(ra))
				}
			}
		}
		return st.checkInside(info, s.assigns, s.body)
	case s.kind == "call" && len(s.body) > 0 && s.body[0].kind == "tmp":
		// a function that starts with `tmp`: those heads have their whole
		// previous value back whatever the rest of the body did
		for _, lv := range s.body[0].as.lhs {
			if rb, ra := info.beforeR[lv.head], st.curRepr[lv.head]; rb != ra {
				return "tmp-not-restored", fmt.Sprintf("$%s was %s, is %s", lv.head, clip(rb), clip(ra))
			}
		}
		return st.checkInside(info, []assign{s.body[0].as}, s.body[1:])
	}
	return "", ""
}

// checkInside: `with [lv = rhs] { put $head … }` / `{ tmp lv = rhs; put $head … }`
// with one single-lvalue assignment: the first output is the nested assoc of the
// old value.
func (st *state) checkInside(info *stepInfo, as []assign, body []*stmt) (string, string) {
	if len(as) != 1 || len(as[0].lhs) != 1 || len(as[0].rhs) != 1 || len(body) == 0 || len(info.outs) == 0 {
		return "", ""
	}
	lv := as[0].lhs[0]
	first := body[0]
	if first.kind != "put" || len(first.as.rhs) == 0 || first.as.rhs[0].lit != nil ||
		first.as.rhs[0].name != lv.head || len(first.as.rhs[0].path) != 0 {
		return "", ""
	}
	v, ok := refRhs(info.before, as[0].rhs[0])
	if !ok {
		return "", ""
	}
	want, ok := refAssocIn(treeOf(info.before[lv.head]), lv.idx, v)
	if !ok || hasUnknown(want) {
		return "", ""
	}
	if w, g := want.render(), renderGo(info.outs[0]); w != g {
		return "wrong-temporary-value", fmt.Sprintf("$%s inside was %s, the nested assoc of its old value is %s", lv.head, clip(g), clip(w))
	}
	return "", ""
}

// ---- tags ----

func statusTag(status string) string {
	if i := strings.Index(status, " @"); i >= 0 {
		status = status[:i]
	}
	if i := strings.Index(status, "|"); i >= 0 {
		status = status[:i]
		if j := strings.Index(status, " "); j >= 0 && strings.HasPrefix(status, "exc oor") {
			status = "exc oor"
		}
	}
	return strings.ReplaceAll(status, " ", ":")
}

// walk returns the container that the last index of path addresses.
func walk(v any, path []key) (any, bool) {
	cur := v
	for _, k := range path[:len(path)-1] {
		next, err := vals.Index(cur, goKey(k))
		if err != nil {
			return nil, false
		}
		cur = next
	}
	return cur, true
}

func containerTag(v any, k key, del bool) string {
	switch c := v.(type) {
	case vals.List:
		kind := "vector"
		if strings.Contains(fmt.Sprintf("%T", c), "subVector") {
			kind = "subvector"
		}
		n := c.Len()
		i, ok := listPos(k, n)
		if !ok {
			return kind
		}
		treeSize := 0
		if n > 0 {
			treeSize = ((n - 1) >> 5) << 5
		}
		where := "tree"
		if i >= treeSize {
			where = "tail"
		}
		if n > 64 {
			where += "-h1+"
		} else if n > 32 {
			where += "-h0"
		}
		return kind + "-" + where
	case vals.Map:
		n := c.Len()
		_, has := c.Index(goKey(k))
		switch {
		case del && has:
			if n == 9 || n == 17 || n == 8 || n == 16 {
				return fmt.Sprintf("map-shrink-from-%d", n)
			}
			return "map-shrink"
		case del:
			return "map-del-absent"
		case has:
			return "map-replace"
		}
		if n == 7 || n == 8 || n == 15 || n == 16 || n == 17 {
			return fmt.Sprintf("map-grow-from-%d", n)
		}
		return "map-grow"
	case string:
		return "string"
	}
	return "non-container"
}

func tagsFor(f []string, info *stepInfo) []string {
	st := statusTag(info.status)
	switch f[0] {
	case "mk":
		return []string{"mk:" + st}
	case "run":
		return []string{"run:" + st}
	}
	s := info.stmts[0]
	kind := s.kind
	switch {
	case s.kind == "set" && len(s.as.lhs) > 1:
		kind = "set-multi"
		same := true
		for _, lv := range s.as.lhs {
			same = same && lv.head == s.as.lhs[0].head
		}
		if same {
			kind = "set-multi-same-head"
		}
	case s.kind == "call" && len(s.body) > 0 && s.body[0].kind == "tmp":
		kind = "call-tmp"
	}
	tags := []string{kind + ":" + st}
	if f[1] == "fn" {
		tags = append(tags, "via-fn")
	}
	if (s.kind == "set" || s.kind == "del") && len(s.as.lhs) == 1 && len(s.as.lhs[0].idx) > 0 {
		lv := s.as.lhs[0]
		tags = append(tags, fmt.Sprintf("depth%d", len(lv.idx)))
		if c, ok := walk(info.before[lv.head], lv.idx); ok {
			tags = append(tags, containerTag(c, lv.idx[len(lv.idx)-1], s.kind == "del"))
		}
		for _, x := range s.as.rhs {
			if x.lit == nil {
				tags = append(tags, "rhs-ref")
			}
		}
	}
	return tags
}
