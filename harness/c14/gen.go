package c14

// Generator: histories are built while running them on a private Evaler, so
// that paths can be picked by walking the real current values.

import (
	"strconv"

	"src.elv.sh/pkg/eval/vals"
	"verifharness/common"
)

type generator struct {
	r    *common.Rand
	st   *state
	emit func(...string)
	tagN int
	strN int
}

var globals = []string{"a", "b", "c", "d"}

func (g *generator) do(fields ...string) string {
	g.emit(fields...)
	return g.st.impl(fields)
}

func (g *generator) freshStr() string {
	g.strN++
	return "e" + strconv.Itoa(g.strN)
}

func (g *generator) tag() string {
	g.tagN++
	return "L" + strconv.Itoa(g.tagN)
}

func (g *generator) listLen() int {
	switch g.r.Intn(10) {
	case 0:
		return g.r.Range(0, 5)
	case 1, 2, 3:
		return common.Pick(g.r, []int{30, 31, 32, 33, 34, 63, 64, 65, 66})
	}
	return g.r.Range(30, 70)
}

func (g *generator) mapLen() int {
	switch g.r.Intn(10) {
	case 0:
		return g.r.Range(0, 3)
	case 1, 2, 3:
		return common.Pick(g.r, []int{7, 8, 9, 15, 16, 17, 18})
	}
	return g.r.Range(6, 20)
}

// Strings with one and the same full 32-bit hash (vals.Hash): maps holding
// several of them have collision nodes, whose copy-on-write is part of what
// C14 relies on (a seeded aliasing bug in collisionNode.assoc was only visible
// with such keys).
var collidingKeys = []string{"bbb", "bcA", "cAb", "cBA", "d b"}

func (g *generator) mapKey() key {
	switch g.r.Intn(12) {
	case 3, 4:
		return key{kind: 's', s: common.Pick(g.r, collidingKeys)}
	case 5:
		return key{kind: '0'}
	case 0:
		return key{kind: 'n', n: g.r.Range(0, 40)}
	case 1:
		return key{kind: 'k', l: []string{g.freshStr()}}
	case 2:
		return key{kind: 's', s: strconv.Itoa(g.r.Range(0, 40))}
	}
	return key{kind: 's', s: "k" + strconv.Itoa(g.r.Range(0, 60))}
}

// genVal makes a value; depth bounds the nesting, big allows boundary sizes.
func (g *generator) genVal(depth int, big bool) *val {
	c := g.r.Intn(100)
	switch {
	case depth <= 0 || c < 55:
		switch g.r.Intn(14) {
		case 0:
			return &val{kind: 'n', n: g.r.Range(-3, 50)}
		case 1:
			return &val{kind: '0'}
		case 2:
			return &val{kind: 's', s: common.Pick(g.r, []string{"", "héllo", "abcdef", "12", "a b"})}
		}
		return &val{kind: 's', s: g.freshStr()}
	case c < 80:
		n := g.r.Range(0, 4)
		if big {
			n = g.listLen()
		}
		return g.genList(n, depth-1)
	default:
		n := g.r.Range(0, 3)
		if big {
			n = g.mapLen()
		}
		return g.genMap(n, depth-1)
	}
}

func (g *generator) genElem(depth int) *val {
	if depth > 0 && g.r.Chance(1, 7) {
		// a nested container, big one time in three
		v := g.genVal(depth, g.r.Chance(1, 3))
		if v.kind == 'l' || v.kind == 'm' {
			return v
		}
	}
	return g.genVal(0, false)
}

func (g *generator) genList(n, depth int) *val {
	v := &val{kind: 'l'}
	for i := 0; i < n; i++ {
		v.list = append(v.list, g.genElem(depth))
	}
	return v
}

func (g *generator) genMap(n, depth int) *val {
	v := &val{kind: 'm'}
	seen := map[string]bool{}
	for len(v.keys) < n {
		k := g.mapKey()
		if rk := renderKeyVal(k); !seen[rk] {
			seen[rk] = true
			v.keys = append(v.keys, k)
			v.vals = append(v.vals, g.genElem(depth))
		}
	}
	return v
}

func (g *generator) topVal() *val {
	if g.r.Bool() {
		return g.genList(g.listLen(), 2)
	}
	return g.genMap(g.mapLen(), 2)
}

func keyOfGo(k any) (key, bool) {
	switch k := k.(type) {
	case string:
		return key{kind: 's', s: k}, true
	case int:
		return key{kind: 'n', n: k}, true
	case nil:
		return key{kind: '0'}, true
	case vals.List:
		out := key{kind: 'k'}
		for it := k.Iterator(); it.HasElem(); it.Next() {
			s, ok := it.Elem().(string)
			if !ok {
				return key{}, false
			}
			out.l = append(out.l, s)
		}
		return out, true
	}
	return key{}, false
}

func (g *generator) badKey() key {
	switch g.r.Intn(8) {
	case 0:
		return key{kind: 's', s: "999"}
	case 1:
		return key{kind: 's', s: "-999"}
	case 2:
		return key{kind: 's', s: "1..3"}
	case 3:
		return key{kind: 's', s: "abc"}
	case 4:
		return key{kind: 'k', l: []string{"x"}}
	case 5:
		return key{kind: 's', s: "nokey"}
	case 6:
		return key{kind: 'n', n: 1000}
	}
	return key{kind: 's', s: "0..=1"}
}

// pickPath walks the real value v.  wantMapLast: prefer to stop at a map
// (for del).  Always returns at least one key.
func (g *generator) pickPath(v any, maxDepth int, wantMapLast bool) []key {
	var path []key
	cur := v
	for d := 0; d < maxDepth; d++ {
		var k key
		var next any
		last := d == maxDepth-1
		switch c := cur.(type) {
		case vals.List:
			n := c.Len()
			if n == 0 {
				return append(path, key{kind: 's', s: "0"})
			}
			cands := []int{0, n - 1, 31, 32, 33, n / 2, g.r.Intn(n), g.r.Intn(n), g.r.Intn(n)}
			i := common.Pick(g.r, cands)
			if i >= n {
				i = n - 1
			}
			// prefer nested containers when we still want to descend (for
			// del: always, and maps first — a list element cannot be deleted)
			if !last && (wantMapLast || g.r.Chance(2, 3)) {
				var maps, conts []int
				for j := 0; j < n; j++ {
					e, _ := c.Index(j)
					if _, isMap := e.(vals.Map); isMap {
						maps = append(maps, j)
					}
					if isContainer(e) {
						conts = append(conts, j)
					}
				}
				switch {
				case wantMapLast && len(maps) > 0 && g.r.Chance(4, 5):
					i = common.Pick(g.r, maps)
				case len(conts) > 0:
					i = common.Pick(g.r, conts)
				}
			}
			switch g.r.Intn(10) {
			case 0:
				k = key{kind: 's', s: strconv.Itoa(i - n)}
			case 1:
				k = key{kind: 'n', n: i}
			default:
				k = key{kind: 's', s: strconv.Itoa(i)}
			}
			next, _ = c.Index(i)
		case vals.Map:
			var keys []any
			var conts []any
			for it := c.Iterator(); it.HasElem(); it.Next() {
				kk, vv := it.Elem()
				keys = append(keys, kk)
				if isContainer(vv) {
					conts = append(conts, kk)
				}
			}
			newKey := len(keys) == 0 || g.r.Chance(1, 4)
			if !last && len(conts) > 0 && g.r.Chance(2, 3) {
				kk, ok := keyOfGo(common.Pick(g.r, conts))
				if !ok {
					return append(path, g.mapKey())
				}
				k = kk
				next, _ = c.Index(goKey(k))
			} else if newKey {
				k = g.mapKey()
				path = append(path, k)
				return path
			} else {
				kk, ok := keyOfGo(common.Pick(g.r, keys))
				if !ok {
					kk = g.mapKey()
				}
				k = kk
				next, _ = c.Index(goKey(k))
			}
		case string:
			if len(c) == 0 || !g.r.Chance(1, 3) {
				if len(path) == 0 {
					return []key{{kind: 's', s: "0"}}
				}
				return path
			}
			return append(path, key{kind: 's', s: strconv.Itoa(g.r.Intn(len(c)))})
		default:
			if len(path) == 0 || g.r.Chance(1, 20) {
				return append(path, key{kind: 's', s: "0"})
			}
			return path
		}
		path = append(path, k)
		if !isContainer(next) {
			if _, isStr := next.(string); isStr && g.r.Chance(1, 12) {
				cur = next
				continue
			}
			return path
		}
		if _, isMap := cur.(vals.Map); wantMapLast && isMap && g.r.Chance(1, 2) {
			return path
		}
		if g.r.Chance(1, 5) {
			return path
		}
		cur = next
	}
	return path
}

func goKey(k key) any {
	switch k.kind {
	case 's':
		return k.s
	case 'n':
		return k.n
	case '0':
		return nil
	}
	items := make([]any, len(k.l))
	for i, s := range k.l {
		items[i] = s
	}
	return vals.MakeList(items...)
}

func isContainer(v any) bool {
	switch v.(type) {
	case vals.List, vals.Map:
		return true
	}
	return false
}

func (g *generator) path(head string, wantMapLast bool) []key {
	depth := g.r.Range(1, 4)
	if wantMapLast {
		depth = 4 // stops at maps on the way (see pickPath)
	}
	p := g.pickPath(g.st.cur[head], depth, wantMapLast)
	if g.r.Chance(1, 10) {
		// deliberately bad somewhere
		i := g.r.Intn(len(p))
		p[i] = g.badKey()
		if g.r.Bool() {
			p = p[:i+1]
		}
	}
	return p
}

func (g *generator) head(vars []string) string { return common.Pick(g.r, vars) }

func (g *generator) lv(vars []string, wantMapLast bool) lvalue {
	h := g.head(vars)
	if !wantMapLast && g.r.Chance(1, 12) {
		return lvalue{tag: g.tag(), head: h}
	}
	return lvalue{tag: g.tag(), head: h, idx: g.path(h, wantMapLast)}
}

func (g *generator) rhs(vars []string) rhs {
	c := g.r.Intn(100)
	switch {
	case c < 50:
		return rhs{lit: g.genVal(0, false)}
	case c < 65:
		return rhs{lit: g.genVal(2, g.r.Chance(1, 2))}
	}
	x := g.head(vars)
	switch g.r.Intn(4) {
	case 0:
		return rhs{name: x}
	case 1:
		// a slice of a list (a *subVector sharing the parent's arrays)
		if sl, ok := g.sliceOf(x); ok {
			return sl
		}
	}
	p := g.pickPath(g.st.cur[x], g.r.Range(1, 3), false)
	if g.r.Chance(1, 15) {
		p[len(p)-1] = g.badKey()
	}
	return rhs{name: x, path: p}
}

func (g *generator) sliceOf(x string) (rhs, bool) {
	l, ok := g.st.cur[x].(vals.List)
	if !ok || l.Len() <= 2 {
		return rhs{}, false
	}
	lo := g.r.Intn(l.Len() / 2)
	hi := g.r.Range(lo, l.Len())
	sl := strconv.Itoa(lo) + ".." + strconv.Itoa(hi)
	if g.r.Chance(1, 4) {
		sl = strconv.Itoa(lo) + ".."
	}
	return rhs{name: x, path: []key{{kind: 's', s: sl}}}, true
}

func (g *generator) containerRhs(vars []string) rhs {
	switch g.r.Intn(3) {
	case 0:
		return rhs{name: g.head(vars)}
	case 1:
		if x, ok := g.sliceOf(g.head(vars)); ok {
			return x
		}
	}
	return rhs{lit: g.topVal()}
}

func (g *generator) assignStmt(kind string, vars []string) *stmt {
	s := &stmt{kind: kind}
	n := 1
	if g.r.Chance(1, 6) {
		n = 2
		if g.r.Chance(1, 8) {
			n = 3
		}
	}
	sameHead := n > 1 && g.r.Bool()
	for i := 0; i < n; i++ {
		lv := g.lv(vars, false)
		if sameHead && i > 0 {
			lv.head = s.as.lhs[0].head
			lv.idx = g.path(lv.head, false)
		}
		s.as.lhs = append(s.as.lhs, lv)
		x := g.rhs(vars)
		if len(lv.idx) == 0 && !g.r.Chance(1, 6) {
			// a whole variable: keep it a container (a literal, another
			// variable, or a slice of a list)
			x = g.containerRhs(vars)
		}
		s.as.rhs = append(s.as.rhs, x)
	}
	if n > 1 && g.r.Chance(1, 12) {
		s.as.rhs = s.as.rhs[:len(s.as.rhs)-1] // arity mismatch
	}
	if sameHead && g.r.Chance(1, 4) && len(s.as.lhs) == 2 {
		// the swap idiom: set a[i] a[j] = $a[j] $a[i]
		h := s.as.lhs[0].head
		s.as.rhs = []rhs{{name: h, path: s.as.lhs[1].idx}, {name: h, path: s.as.lhs[0].idx}}
	}
	return s
}

func (g *generator) putStmt(vars []string) *stmt {
	s := &stmt{kind: "put"}
	for n := g.r.Range(1, 2); n > 0; n-- {
		x := g.rhs(vars)
		if x.lit != nil {
			x = rhs{name: g.head(vars)}
		}
		s.as.rhs = append(s.as.rhs, x)
	}
	return s
}

func putVar(h string) *stmt { return &stmt{kind: "put", as: assign{rhs: []rhs{{name: h}}}} }

// stmt generates a statement; inFn: directly inside a function body (tmp allowed).
func (g *generator) stmt(vars []string, depth int, inFn bool) *stmt {
	c := g.r.Intn(100)
	switch {
	case c < 40:
		return g.assignStmt("set", vars)
	case c < 55:
		return &stmt{kind: "del", as: assign{lhs: []lvalue{g.lv(vars, true)}}}
	case c < 65:
		return g.putStmt(vars)
	case c < 75 && inFn:
		return g.assignStmt("tmp", vars)
	case c < 88 && depth > 0:
		// { tmp lv = rhs; put $head; … }
		s := &stmt{kind: "call"}
		if g.r.Chance(4, 5) {
			t := g.assignStmt("tmp", vars)
			s.body = append(s.body, t, putVar(t.as.lhs[0].head))
		}
		for n := g.r.Range(0, 3); n > 0; n-- {
			s.body = append(s.body, g.stmt(vars, depth-1, true))
		}
		if len(s.body) > 0 && g.r.Chance(1, 2) {
			s.body = append(s.body, putVar(g.head(vars)))
		}
		return s
	case depth > 0:
		s := &stmt{kind: "with"}
		for n := g.r.Range(1, 2); n > 0; n-- {
			a := g.assignStmt("set", vars).as
			s.assigns = append(s.assigns, a)
		}
		s.body = append(s.body, putVar(s.assigns[0].lhs[0].head))
		for n := g.r.Range(0, 2); n > 0; n-- {
			s.body = append(s.body, g.stmt(vars, depth-1, true))
		}
		return s
	}
	return g.assignStmt("set", vars)
}

func gen(c *common.Ctx, emit func(...string)) {
	g := &generator{r: c.Rand, emit: emit}
	histories := c.Scale(200, 6000)
	steps := 40
	for h := 0; h < histories; h++ {
		g.st = &state{light: true}
		g.tagN = 0
		fields := []string{"reset"}
		for _, n := range globals {
			fields = append(fields, n+"="+g.topVal().tok())
		}
		g.do(fields...)
		for s := 0; s < steps; s++ {
			if g.st.poisoned != "" || g.st.biggest > 20000 {
				break // cyclic value (mutated implementation) or values grown too large
			}
			c := g.r.Intn(100)
			switch {
			case c < 8:
				k := strconv.Itoa(g.r.Intn(nClosures))
				x := g.head(globals)
				// the body sees the globals and its private variable p<k>,
				// which starts as the value of $x
				vars := append(append([]string{}, globals...), "p"+k, "p"+k)
				// paths into p<k> are picked from the value it is about to get
				g.st.cur["p"+k] = g.st.cur[x]
				var body []*stmt
				for n := g.r.Range(1, 3); n > 0; n-- {
					body = append(body, g.stmt(vars, 1, true))
				}
				body = append(body, putVar("p"+k))
				g.do("mk", k, x, stmtsTok(body))
			case c < 20 && len(g.st.closures) > 0:
				var ks []string
				for k := 0; k < nClosures; k++ {
					if _, ok := g.st.closures[strconv.Itoa(k)]; ok {
						ks = append(ks, strconv.Itoa(k))
					}
				}
				g.do("run", common.Pick(g.r, ks))
			case c < 26:
				// plain aliasing: set b = $a
				x := g.head(globals)
				s := &stmt{kind: "set", as: assign{lhs: []lvalue{{tag: g.tag(), head: x}}, rhs: []rhs{g.containerRhs(globals)}}}
				g.do("do", "direct", s.tok())
			default:
				via := "direct"
				if g.r.Chance(1, 4) {
					via = "fn"
				}
				g.do("do", via, g.stmt(globals, 2, false).tok())
			}
			if s%10 == 9 {
				g.do("obs")
			}
		}
		if g.st.poisoned == "" {
			g.do("obs")
		}
	}
	// Scripted histories on collision nodes: a map holding several keys with one
	// and the same 32-bit hash grows by one key (so its entries slice has spare
	// capacity), an alias is taken, and a further colliding key is added through
	// the variable and through the alias, in either order, possibly nested in a list.
	hexs := func(x string) string { return "s:" + common.Hex(x) }
	for i := 0; i < c.Scale(60, 1500); i++ {
		ks := append([]string{}, collidingKeys...)
		for a := len(ks) - 1; a > 0; a-- {
			b := c.Rand.Intn(a + 1)
			ks[a], ks[b] = ks[b], ks[a]
		}
		nested := c.Rand.Chance(1, 3)
		m0 := "{ " + hexs(ks[0]) + " s:31 " + hexs(ks[1]) + " s:32 }"
		path := ""
		if nested {
			m0 = "[ s:7a " + m0 + " ]"
			path = " s:31"
		}
		emit("reset", "m="+m0, "n=s:78")
		emit("do", "direct", "set lv:L1:m"+path+" "+hexs(ks[2])+" = v s:33 ;")
		emit("do", "direct", "set lv:L2:n = $m ;")
		first, second := "m", "n"
		if c.Rand.Bool() {
			first, second = "n", "m"
		}
		emit("do", "direct", "set lv:L3:"+first+path+" "+hexs(ks[3])+" = v s:41 ;")
		emit("do", "direct", "set lv:L4:"+second+path+" "+hexs(ks[4])+" = v s:42 ;")
		emit("obs")
	}
}
