// Package c27: trace-refinement tie and oracle for C27 (daemon activation,
// pkg/daemon/activate.go and server.go) against REAL processes.
//
// Gen builds elvish from $VERIF_REPO with `-tags verif` (pause points of
// hooks/C27-daemon-pause.patch), runs scripted schedules — among them the
// model counterexample — and randomised races of real shells and the daemons
// they spawn in a fresh temporary directory, and turns the controller's log
// of each run into a history of op lines:
//
//	reset <n> <scenario>       n shells (daemon k is the one shell k spawns)
//	x start|close|term <k>     controller actions (start a shell, close its
//	x kill s|d <k>             stdin, SIGTERM a daemon, SIGKILL a process)
//	r s|d <k>                  release a process from its pause point
//	a s|d <k> <point> <arg>    a process reported a pause point
//	dead s|d <k>               a process is gone
//	res <k> ok <d> <db> | rpc | remove | timeout | lost
//	                           outcome of shell k's Activate (probed through
//	                           the shell: $daemon:pid, store:next-cmd-seq)
//	sock none|<d>|unknown      whose file is at the socket path
//	o …                        harness-side notes (file ids, messages)
//	q x                        quiescent point: which parts of the property fail now?
//	end quiet|race             end of the run
//	hang <why>                 the run got stuck
//
// The Lean driver replays the lines through the model's `step` (tolerant
// acceptor, lean/ElvModel/C27/Accept.lean) and must answer `ok` to each; at a
// `q`/`end quiet` line it prints the parts of the property that fail in the
// model state, which must equal what the harness computes from its own
// observations of the real processes.  The oracle evaluates the property on
// those observations only, independently of the model.
package c27

import (
	"fmt"
	"os"
	"os/exec"
	"path/filepath"
	"strconv"
	"strings"
	"sync"
	"time"

	"verifharness/common"
)

func init() { common.Register("C27", run) }

func run(c *common.Ctx) error {
	s := &common.Std{
		Rule: "each history is one run of real elvish processes (go build -tags verif ./cmd/elvish from the tree under check): " +
			"interactive shells on a pipe and the daemons they spawn, in a fresh temporary directory, every pause point of the hook " +
			"controlled by the harness; scripted schedules (basic, stale-sequential, stale-race = the model counterexample, exit-then-start, " +
			"double-spawn, dial-exiting, signal, spawn-dies, shell-crash) and seeded random races of 2..4 shells over no/stale/live socket, " +
			"released at once (free), one random held process at a time (held) or with stale-socket removals delayed as long as possible (adv), with SIGKILLs; one op per controller log entry; " +
			"non-trivial = a hook entry, an activation result, or a property digest; distinct by op line",
		ExhaustiveNote: "schedules are scripted or sampled, not enumerated (the enumeration over all interleavings is the Lean proof)",
		Gen:            gen,
		NewState:       func(*common.Ctx) any { return &view{} },
		Impl:           impl,
		Oracle:         oracle,
		Tag:            tag,
		Timeout:        60 * time.Second,
	}
	return s.Run(c)
}

// buildElvish builds the instrumented binary from the tree under check.
func buildElvish(c *common.Ctx) (string, error) {
	repo := os.Getenv("VERIF_REPO")
	if repo == "" {
		repo = "/repo"
	}
	out := filepath.Join(c.Dir, "elvish-verif")
	cmd := exec.Command("go", "build", "-tags", "verif", "-o", out, "./cmd/elvish")
	cmd.Dir = repo
	cmd.Env = append(os.Environ(), "GOFLAGS=-mod=mod", "GOPROXY=off", "GOSUMDB=off", "GOTOOLCHAIN=local", "CGO_ENABLED=0")
	b, err := cmd.CombinedOutput()
	if err != nil {
		return "", fmt.Errorf("go build elvish: %v: %s", err, b)
	}
	return out, nil
}

// runScenario executes one scenario on real processes and returns its history.
func runScenario(elvish string, sc scenario, last bool) (lines [][]string) {
	r, err := newRunner(elvish, sc.n)
	if err != nil {
		return [][]string{{"reset", fmt.Sprint(sc.n), sc.name}, {"hang", "setup: " + sanitize(err.Error())}}
	}
	defer r.cleanup()
	r.log("reset", fmt.Sprint(sc.n), sc.name)
	hang, deviated := "", false
	protect := func(f func()) {
		defer func() {
			if x := recover(); x != nil {
				if se, ok := x.(scriptError); ok && se.deviate {
					deviated = true
					r.log("o", "deviation", sanitize(se.msg))
				} else if ok {
					hang = se.msg
				} else {
					hang = fmt.Sprint("harness panic: ", x)
				}
			}
		}()
		f()
	}
	protect(func() { sc.run(r) })
	if deviated && hang == "" {
		if !last {
			return r.lines // discarded by the caller, which tries again
		}
		protect(func() { drain(r) })
	}
	if hang != "" {
		r.log("hang", sanitize(hang))
	} else if deviated || strings.HasPrefix(sc.name, "race-") {
		r.log("end", "race")
	} else {
		r.statSock()
		r.log("end", "quiet")
	}
	return r.lines
}

func gen(c *common.Ctx, emit func(...string)) {
	// developer aids: C27_ELVISH = prebuilt instrumented binary, C27_ONLY =
	// comma-separated scenario-name prefixes, C27_RACES = number of race runs
	elvish, err := os.Getenv("C27_ELVISH"), error(nil)
	if elvish == "" {
		elvish, err = buildElvish(c)
	}
	if err != nil {
		emit("reset", "0", "build")
		emit("hang", sanitize(err.Error()))
		return
	}
	if msg := hookProbe(elvish); msg != "" {
		emit("reset", "0", "hook-probe")
		emit("hang", msg)
		return
	}
	var scs []scenario
	scs = append(scs, scripted...)
	nRace := c.Scale(12, 400)
	preludes := []string{"stale", "none", "stale", "live"}
	modes := []string{"free", "held", "adv"}
	if n, e := strconv.Atoi(os.Getenv("C27_RACES")); e == nil {
		nRace = n
	}
	scs = scs[:0]
	scs = append(scs, scripted...)
	for i := 0; i < nRace; i++ {
		seed := c.Rand.U64()
		scs = append(scs, race(seed, preludes[i%len(preludes)], modes[i%len(modes)], 2+c.Rand.Intn(3)))
	}
	if only := os.Getenv("C27_ONLY"); only != "" {
		var keep []scenario
		for _, sc := range scs {
			for _, p := range strings.Split(only, ",") {
				if strings.HasPrefix(sc.name, p) {
					keep = append(keep, sc)
				}
			}
		}
		scs = keep
	}
	// runs are independent (own directory, own controller): a few at a time
	results := make([][][]string, len(scs))
	// Scripted schedules run one at a time (an activation must finish within the
	// code's fixed 1 s spawn timeout, which a loaded machine can exceed) and are
	// retried when the run merely took another course than scripted.
	retried := 0
	for i, sc := range scs {
		if strings.HasPrefix(sc.name, "race-") {
			continue
		}
		const attempts = 6
		for attempt := 0; attempt < attempts; attempt++ {
			results[i] = runScenario(elvish, sc, attempt == attempts-1)
			if !deviated(results[i]) {
				break
			}
			retried++
		}
	}
	c.Extra["scripted_retries"] = retried
	sem := make(chan struct{}, 3)
	var wg sync.WaitGroup
	for i, sc := range scs {
		if !strings.HasPrefix(sc.name, "race-") {
			continue
		}
		wg.Add(1)
		sem <- struct{}{}
		go func() {
			defer wg.Done()
			defer func() { <-sem }()
			results[i] = runScenario(elvish, sc, true)
		}()
	}
	wg.Wait()
	hangs := 0
	for _, lines := range results {
		for _, l := range lines {
			for j, f := range l {
				if f == "" {
					l[j] = "-"
				}
				l[j] = strings.NewReplacer("\t", " ", "\n", " ").Replace(l[j])
			}
			emit(l...)
			if l[0] == "hang" {
				hangs++
			}
		}
	}
	c.Extra["runs"] = len(scs)
	c.Extra["hung_runs"] = hangs
}

// hookProbe checks that the binary under test reports pause points at all.
func hookProbe(elvish string) (msg string) {
	r, err := newRunner(elvish, 1)
	if err != nil {
		return "setup: " + sanitize(err.Error())
	}
	defer r.cleanup()
	defer func() {
		if x := recover(); x != nil {
			msg = fmt.Sprint("hook probe: ", x)
		}
	}()
	r.start(0)
	p := r.shells[0]
	r.pump(func() bool { return p.held || p.hasRes || p.dead }, stepTimeout)
	if !p.held {
		return "hook-missing: elvish built with -tags verif from the tree under check does not report the pause point a-start (apply hooks/C27-daemon-pause.patch)"
	}
	return ""
}

func deviated(lines [][]string) bool {
	for _, l := range lines {
		if l[0] == "o" && len(l) > 1 && (l[1] == "deviation" || l[1] == "timing-miss") {
			return true
		}
	}
	return false
}

// impl: the real processes already ran (in gen, or in the recorded history
// being replayed); a line is a fact about that run.  `q`/`end quiet` report
// which parts of the property fail according to the harness's observations.
func impl(st any, f []string) string {
	v := st.(*view)
	v.feed(f)
	switch f[0] {
	case "reset":
		return "ok"
	case "q":
		return "viol=" + joinOr(v.viols())
	case "end":
		if len(f) > 1 && f[1] == "quiet" {
			return "end viol=" + joinOr(v.viols())
		}
		return "end ok"
	case "hang":
		return "HANG " + f[len(f)-1]
	}
	return "ok"
}

func joinOr(l []string) string {
	if len(l) == 0 {
		return "-"
	}
	return strings.Join(l, ",")
}

// oracle: property failures observed in the run, reported at its last line.
func oracle(st any, f []string, out string) (string, string) {
	v := st.(*view)
	if f[0] != "end" && f[0] != "hang" {
		return "", ""
	}
	if f[0] == "hang" {
		return "run-hang", v.desc + ": " + f[len(f)-1]
	}
	return v.verdict()
}

func tag(f []string, out string) string {
	switch f[0] {
	case "reset":
		name := f[2]
		if strings.HasPrefix(name, "race-") {
			p := strings.Split(name, "-")
			return "run:race-" + p[1] + "-" + p[2]
		}
		return "run:" + name
	case "a":
		if f[3] == "a-detect" || f[3] == "a-poll" || f[3] == "d-open" {
			return f[3] + ":" + f[4]
		}
		if f[3] == "d-remove" && f[4] != "0" {
			return "d-remove:conns>0"
		}
		return f[3]
	case "res":
		if f[2] == "ok" {
			return "res:ok:db=" + f[4]
		}
		return "res:" + f[2]
	case "x":
		return "x:" + f[1]
	case "dead":
		return "dead:" + f[1]
	case "sock":
		if f[1] == "none" || f[1] == "unknown" {
			return "sock:" + f[1]
		}
		return "sock:daemon"
	case "q", "end":
		return f[0] + ":" + out
	case "hang":
		return "hang"
	}
	return ""
}
