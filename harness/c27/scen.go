package c27

// Scenarios: scripted schedules (one process moves at a time, so the run is a
// single model path and ends quiescent) and randomised races.

import (
	"fmt"
	"strconv"
	"time"

	"verifharness/common"
)

type scenario struct {
	name string
	n    int
	run  func(r *runner)
}

// activateFresh drives shell k through an activation that finds no socket
// file: missing → spawn → daemon k up → poll ok → result.
func activateFresh(r *runner, k int) {
	s, d := r.shells[k], r.dms[k]
	r.begin(k)
	r.awaitArg(s, "a-detect", "missing")
	r.step(s, "a-spawn")
	r.release(s)
	r.await(d, "d-start")
	r.step(d, "d-listen")
	r.step(d, "d-open")
	r.release(d)
	r.pollUntil(s, "ok")
	r.release(s)
	r.result(s)
}

// activateExisting drives shell k through an activation that finds a serving daemon.
func activateExisting(r *runner, k int) {
	s := r.shells[k]
	r.begin(k)
	r.awaitArg(s, "a-detect", "ok")
	r.release(s)
	r.result(s)
}

// exitDaemon lets daemon d (which has just lost its last client) run to its end.
func exitDaemon(r *runner, d *proc) {
	r.await(d, "d-remove")
	r.step(d, "d-close")
	r.release(d)
	r.awaitDead(d)
}

// begin starts shell k and lets it enter Activate (pause point a-start).
func (r *runner) begin(k int) {
	r.start(k)
	r.await(r.shells[k], "a-start")
	r.release(r.shells[k])
}

// drain lets everything run freely to the end: all results, all shells closed.
func drain(r *runner) {
	r.auto = func(p *proc) bool { return true }
	all := append(append([]*proc{}, r.shells...), r.dms...)
	for _, p := range all {
		if p.held && !p.dead {
			r.release(p)
		}
	}
	r.pump(func() bool {
		for _, p := range r.shells {
			if p.started && !p.dead && !p.hasRes {
				return false
			}
		}
		return true
	}, stepTimeout)
	for _, p := range r.shells {
		if p.started && !p.dead && !p.closed {
			r.closeShell(p)
		}
	}
	r.pump(func() bool {
		for _, p := range all {
			if p.started && !p.dead {
				return false
			}
		}
		return true
	}, 3*time.Second)
	r.auto = nil
}

// q marks a quiescent point: nothing is in flight, the socket path is stat'ed.
func (r *runner) q() {
	r.statSock()
	r.log("q", "x")
}

var scripted = []scenario{
	{"basic", 2, func(r *runner) {
		activateFresh(r, 0)
		r.q()
		activateExisting(r, 1)
		r.q()
		r.closeShell(r.shells[0])
		r.awaitDead(r.shells[0])
		r.settle(30 * time.Millisecond) // the daemon must stay: shell 1 is connected
		r.q()
		r.closeShell(r.shells[1])
		r.awaitDead(r.shells[1])
		exitDaemon(r, r.dms[0])
		r.statSock()
	}},
	{"stale-sequential", 2, func(r *runner) {
		activateFresh(r, 0)
		r.kill9(r.dms[0])
		r.awaitDead(r.dms[0])
		r.statSock()
		r.closeShell(r.shells[0])
		r.awaitDead(r.shells[0])
		// one shell alone over the stale socket
		s, d := r.shells[1], r.dms[1]
		r.begin(1)
		r.awaitArg(s, "a-detect", "refused")
		r.step(s, "a-remove")
		r.step(s, "a-spawn")
		r.release(s)
		r.await(d, "d-start")
		r.step(d, "d-listen")
		r.step(d, "d-open")
		r.release(d)
		r.pollUntil(s, "ok")
		r.release(s)
		r.result(s)
		r.q()
		r.closeShell(s)
		r.awaitDead(s)
		exitDaemon(r, d)
		r.statSock()
	}},
	// The model counterexample (C27_counterexample): two shells see "refused"
	// on the same stale socket.
	{"stale-race", 3, func(r *runner) {
		activateFresh(r, 0)
		r.kill9(r.dms[0])
		r.awaitDead(r.dms[0])
		r.closeShell(r.shells[0])
		r.awaitDead(r.shells[0])
		s1, s2, d1, d2 := r.shells[1], r.shells[2], r.dms[1], r.dms[2]
		r.begin(1)
		r.awaitArg(s1, "a-detect", "refused")
		r.begin(2)
		r.awaitArg(s2, "a-detect", "refused")
		// shell 1 removes the stale socket, spawns daemon 1 and connects
		r.step(s1, "a-remove")
		r.step(s1, "a-spawn")
		r.release(s1)
		r.await(d1, "d-start")
		r.step(d1, "d-listen")
		r.step(d1, "d-open")
		r.release(d1)
		r.pollUntil(s1, "ok")
		r.release(s1)
		r.result(s1)
		r.q()
		// shell 2 now removes daemon 1's FRESH socket and spawns daemon 2
		r.step(s2, "a-remove")
		r.step(s2, "a-spawn")
		r.statSock()
		r.release(s2)
		r.await(d2, "d-start")
		r.step(d2, "d-listen") // binds a new file: two daemons serve the path
		r.q()
		r.await(s2, "a-poll")
		r.release(d2) // store.NewStore: waits 1 s for daemon 1's lock, then "serving anyway"
		r.release(s2) // next poll iteration: connects and waits for the reply
		r.await(d2, "d-open")
		r.release(d2)
		r.pollUntil(s2, "ok")
		r.release(s2)
		r.result(s2) // connected to a daemon without the database
		r.q()
		// shell 1 leaves: daemon 1 exits and removes daemon 2's socket by path
		r.closeShell(s1)
		r.awaitDead(s1)
		exitDaemon(r, d1)
		r.statSock()
	}},
	// The listener's Close unlinks the socket path a second time
	// (fixes/C27-no-unlink-on-close.patch): a successor's socket disappears.
	{"exit-then-start", 2, func(r *runner) {
		activateFresh(r, 0)
		r.closeShell(r.shells[0])
		r.awaitDead(r.shells[0])
		d0 := r.dms[0]
		r.await(d0, "d-remove")
		r.step(d0, "d-close") // socket removed, store closed, listener still open
		r.statSock()
		s, d := r.shells[1], r.dms[1]
		r.begin(1)
		r.awaitArg(s, "a-detect", "missing")
		r.step(s, "a-spawn")
		r.release(s)
		r.await(d, "d-start")
		r.step(d, "d-listen")
		r.statSock()
		r.release(d0) // listener.Close()
		r.awaitDead(d0)
		r.q()
		r.step(d, "d-open")
		r.release(d)
		r.pollUntil(s, "ok")
		r.release(s)
		r.result(s)
		r.q()
		r.closeShell(s)
		r.awaitDead(s)
		exitDaemon(r, d)
		r.statSock()
	}},
	// Two shells start with no daemon: both spawn, bind(2) arbitrates.
	{"double-spawn", 2, func(r *runner) {
		s0, s1, d0, d1 := r.shells[0], r.shells[1], r.dms[0], r.dms[1]
		r.begin(0)
		r.awaitArg(s0, "a-detect", "missing")
		r.begin(1)
		r.awaitArg(s1, "a-detect", "missing")
		r.step(s0, "a-spawn")
		r.step(s1, "a-spawn")
		r.release(s0)
		r.await(d0, "d-start")
		r.release(s1)
		r.await(d1, "d-start")
		r.step(d1, "d-listen") // daemon 1 wins
		r.step(d0, "d-listen-err")
		r.release(d0)
		r.awaitDead(d0)
		r.step(d1, "d-open")
		r.release(d1)
		r.pollUntil(s0, "ok")
		r.release(s0)
		r.result(s0)
		r.pollUntil(s1, "ok")
		r.release(s1)
		r.result(s1)
		r.q()
		r.closeShell(s1)
		r.awaitDead(s1)
		r.closeShell(s0)
		r.awaitDead(s0)
		exitDaemon(r, d1)
		r.statSock()
	}},
	// A shell dials a daemon that has already decided to exit.
	{"dial-exiting", 2, func(r *runner) {
		activateFresh(r, 0)
		r.closeShell(r.shells[0])
		r.awaitDead(r.shells[0])
		d0 := r.dms[0]
		r.await(d0, "d-remove")
		s := r.shells[1]
		r.begin(1) // Lstat ok, Dial ok, Version waits for a daemon that will not answer
		r.settle(150 * time.Millisecond)
		r.step(d0, "d-close")
		r.release(d0)
		r.awaitDead(d0)
		r.await(s, "a-detect")
		if s.arg != "other" {
			// the shell was too slow to dial before the socket went away
			r.log("o", "timing-miss", s.arg)
			drain(r)
			return
		}
		r.release(s)
		r.result(s)
		r.q()
		r.closeShell(s)
		r.awaitDead(s)
	}},
	// SIGTERM: the daemon leaves although a client is connected (allowed).
	{"signal", 2, func(r *runner) {
		activateFresh(r, 0)
		d0 := r.dms[0]
		r.term(d0)
		r.awaitArg(d0, "d-remove", "1")
		r.step(d0, "d-close")
		r.release(d0)
		r.awaitDead(d0)
		r.q()
		// the next shell starts a new daemon
		activateFresh(r, 1)
		r.q()
		r.closeShell(r.shells[1])
		r.awaitDead(r.shells[1])
		exitDaemon(r, r.dms[1])
		r.closeShell(r.shells[0])
		r.awaitDead(r.shells[0])
	}},
	// The spawned daemon dies before it listens: the shell times out.
	{"spawn-dies", 1, func(r *runner) {
		s, d := r.shells[0], r.dms[0]
		r.begin(0)
		r.awaitArg(s, "a-detect", "missing")
		r.step(s, "a-spawn")
		r.release(s)
		r.await(d, "d-start")
		r.kill9(d)
		r.awaitDead(d)
		for i := 0; i < 400 && !s.hasRes; i++ {
			if !r.pump(func() bool { return s.held || s.hasRes }, stepTimeout) {
				fail("shell stuck")
			}
			if s.held {
				r.release(s)
			}
		}
		r.result(s)
		r.q()
		r.closeShell(s)
		r.awaitDead(s)
	}},
	// A crashed shell's connection counts as closed; a killed daemon's lock is free.
	{"shell-crash", 2, func(r *runner) {
		activateFresh(r, 0)
		activateExisting(r, 1)
		r.kill9(r.shells[0])
		r.awaitDead(r.shells[0])
		r.settle(30 * time.Millisecond)
		r.q()
		r.kill9(r.shells[1])
		r.awaitDead(r.shells[1])
		exitDaemon(r, r.dms[0])
		r.statSock()
	}},
}

// race runs nRace shells against each other under a seeded random controller policy.
//
//	prelude: none   – no socket file
//	         stale  – a socket left by a SIGKILLed daemon
//	         live   – a serving daemon with one client
//	mode:    free   – every pause point is released at once (full speed)
//	         held   – the controller releases one random held process at a time
//	         adv    – like held, but a shell that has seen "connection refused"
//	                  is released only when no other process can move
func race(seed uint64, prelude, mode string, nRace int) scenario {
	n := nRace + 1
	return scenario{fmt.Sprintf("race-%s-%s-%d-%d", prelude, mode, nRace, seed), n, func(r *runner) {
		rnd := common.NewRand(seed)
		switch prelude {
		case "stale":
			activateFresh(r, 0)
			r.kill9(r.dms[0])
			r.awaitDead(r.dms[0])
			r.kill9(r.shells[0])
			r.awaitDead(r.shells[0])
		case "live":
			activateFresh(r, 0)
		}
		racers := r.shells[1:]
		// all racers are started and wait at the entry of Activate (a-start), so
		// that their activations really overlap however slowly processes start
		// (sometimes the last one is kept back and arrives later, e.g. after a kill)
		early := racers
		if len(racers) >= 3 && rnd.Bool() {
			early = racers[:len(racers)-1]
		}
		for _, p := range early {
			r.start(p.idx)
		}
		r.pump(func() bool {
			for _, p := range early {
				if !p.held && !p.dead {
					return false
				}
			}
			return true
		}, stepTimeout)
		if mode == "free" {
			r.auto = func(p *proc) bool { return true }
			for _, p := range early {
				if p.held {
					r.release(p)
				}
			}
		}
		next := len(early)
		killsLeft := 1
		shellKills := rnd.Intn(2)
		deadline := time.Now().Add(5 * time.Second)
		allDone := func() bool {
			for _, p := range racers {
				if !p.started || !(p.hasRes || p.dead) {
					return false
				}
			}
			return true
		}
		for time.Now().Before(deadline) && !allDone() {
			r.settle(time.Duration(rnd.Intn(3000)) * time.Microsecond)
			var acts []func()
			if next < len(racers) {
				acts = append(acts, func() { r.start(racers[next].idx); next++ })
			}
			var held []*proc
			for _, p := range append(append([]*proc{}, r.shells...), r.dms...) {
				if p.held && !p.dead {
					held = append(held, p)
				}
			}
			if mode == "adv" {
				// adversarial: a shell that has seen "refused" moves only when nothing else can
				var other []*proc
				for _, p := range held {
					if !(p.kind == 's' && (p.point == "a-remove" || (p.point == "a-detect" && p.arg == "refused"))) {
						other = append(other, p)
					}
				}
				if len(other) > 0 {
					held = other
				} else {
					// … and nothing else is on its way to a pause point either
					busy := false
					for _, p := range r.shells {
						if p.started && !p.dead && !p.held && !p.hasRes {
							busy = true
						}
						if p.point == "a-spawn" && !p.held && r.dms[p.idx].pid == 0 && time.Since(p.arrivedAt) < 3*time.Second {
							busy = true // its daemon has not reported yet
						}
					}
					for _, d := range r.dms {
						if d.pid != 0 && !d.dead && !d.held && d.point != "d-open" {
							busy = true
						}
					}
					if busy {
						held = nil
					}
				}
			}
			for range held {
				acts = append(acts, func() { r.release(common.Pick(rnd, held)) })
			}
			// a daemon is only killed while no activation result is being probed
			probing := false
			for _, p := range r.shells {
				if p.started && !p.dead && !p.hasRes {
					probing = true
				}
			}
			if killsLeft > 0 && !probing && rnd.Chance(1, 6) {
				for _, d := range r.dms {
					if d.pid != 0 && !d.dead && !d.killed {
						d := d
						acts = append(acts, func() { killsLeft--; r.kill9(d) })
						break
					}
				}
			}
			if shellKills > 0 && rnd.Chance(1, 60) {
				for _, p := range racers {
					if p.started && !p.dead && !p.killed && !p.actDone && p.releases > 0 {
						p := p
						acts = append(acts, func() { shellKills--; r.kill9(p) })
						break
					}
				}
			}
			if len(acts) == 0 {
				r.settle(5 * time.Millisecond)
				continue
			}
			common.Pick(rnd, acts)()
		}
		if !allDone() {
			r.log("o", "unfinished", strconv.Itoa(next))
		}
		// teardown: everybody leaves, in random order, everything released at once
		r.auto = func(p *proc) bool { return true }
		for _, p := range append(append([]*proc{}, r.shells...), r.dms...) {
			if p.held && !p.dead {
				r.release(p)
			}
		}
		order := append([]*proc{}, r.shells...)
		for i := len(order) - 1; i > 0; i-- {
			j := rnd.Intn(i + 1)
			order[i], order[j] = order[j], order[i]
		}
		for _, p := range order {
			if p.started && !p.dead && !p.closed {
				r.settle(time.Duration(rnd.Intn(2000)) * time.Microsecond)
				// a shell leaves only after its activation outcome has been read
				r.pump(func() bool { return p.hasRes || p.dead }, stepTimeout)
				if !p.dead {
					r.closeShell(p)
				}
			}
		}
		r.pump(func() bool {
			for _, p := range append(append([]*proc{}, r.shells...), r.dms...) {
				if p.started && !p.dead {
					return false
				}
			}
			return true
		}, 2500*time.Millisecond)
	}}
}
