package c27

// Controller of REAL elvish processes for C27.
//
// One run = one temporary directory holding the socket path, the database,
// XDG_RUNTIME_DIR and the controller's own unix socket.  Shells are real
// `elvish -norc -sock … -db …` processes (interactive session on a pipe, hence
// the minimal line editor) built from $VERIF_REPO with `-tags verif`; the
// daemons are whatever those shells spawn (`elvish -daemon …`).  Every
// instrumented process reports each pause point on its control connection and
// blocks until the controller answers (hooks/C27-daemon-pause.patch).
//
// The controller owns ONE log; everything it does or sees is appended in the
// order it does/sees it (see lean/ElvModel/C27/Accept.lean for the entry
// vocabulary and what the order means).

import (
	"bufio"
	"fmt"
	"io"
	"net"
	"os"
	"os/exec"
	"path/filepath"
	"strconv"
	"strings"
	"sync"
	"syscall"
	"time"
)

type proc struct {
	kind byte // 's' shell | 'd' daemon
	idx  int
	pid  int
	conn net.Conn // control connection (nil until the first pause)

	held   bool
	point  string
	arg    string // as logged
	sockid string
	dead   bool
	killed bool // the controller sent SIGKILL/SIGTERM

	// shells
	cmd       *exec.Cmd
	stdin     io.WriteCloser
	started   bool
	closed    bool
	errMsg    string
	actDone   bool
	hasRes    bool
	resOK     bool
	probePid  int
	releases  int
	arrivedAt time.Time
}

func (p *proc) name() string { return fmt.Sprintf("%c%d", p.kind, p.idx) }

type event struct {
	kind   string // "pause" | "eof" | "line" | "exit"
	pid    int
	parent int
	point  string
	arg    int
	sockid string
	conn   net.Conn
	k      int
	line   string
}

type runner struct {
	elvish string
	dir    string
	sock   string
	db     string
	ctl    string
	ln     net.Listener
	ev     chan event
	n      int
	shells []*proc
	dms    []*proc
	byPid  map[int]*proc
	idOwn  map[string]int // socket file id → daemon index (from d-listen)
	lines  [][]string
	auto   func(p *proc) bool // policy: release at once on arrival?
	wg     sync.WaitGroup
	t0     time.Time
	closed bool
}

// scriptError: the run got stuck (hang) or, with deviate set, merely took a
// different course than the script expected (e.g. an activation timed out on a
// loaded machine): then the run is drained and still checked as a race.
type scriptError struct {
	msg     string
	deviate bool
}

func fail(format string, a ...any) { panic(scriptError{msg: fmt.Sprintf(format, a...)}) }

func deviate(format string, a ...any) {
	panic(scriptError{msg: fmt.Sprintf(format, a...), deviate: true})
}

func newRunner(elvish string, n int) (*runner, error) {
	base := ""
	if fi, e := os.Stat("/dev/shm"); e == nil && fi.IsDir() {
		if f, e := os.CreateTemp("/dev/shm", "c27probe"); e == nil {
			f.Close()
			os.Remove(f.Name())
			base = "/dev/shm" // tmpfs: the database's fsyncs are cheap, activations stay well inside the 1 s spawn timeout
		}
	}
	dir, err := os.MkdirTemp(base, "c27-")
	if err != nil {
		return nil, err
	}
	r := &runner{elvish: elvish, dir: dir, sock: filepath.Join(dir, "sock"), db: filepath.Join(dir, "db"),
		ctl: filepath.Join(dir, "ctl"), ev: make(chan event, 1024), n: n,
		byPid: map[int]*proc{}, idOwn: map[string]int{}, t0: time.Now()}
	if err := os.Mkdir(filepath.Join(dir, "run"), 0o700); err != nil {
		os.RemoveAll(dir)
		return nil, err
	}
	r.ln, err = net.Listen("unix", r.ctl)
	if err != nil {
		os.RemoveAll(dir)
		return nil, err
	}
	for i := 0; i < n; i++ {
		r.shells = append(r.shells, &proc{kind: 's', idx: i})
		r.dms = append(r.dms, &proc{kind: 'd', idx: i})
	}
	go r.acceptLoop()
	return r, nil
}

func (r *runner) acceptLoop() {
	for {
		conn, err := r.ln.Accept()
		if err != nil {
			return
		}
		go func() {
			rd := bufio.NewReader(conn)
			pid := 0
			for {
				line, err := rd.ReadString('\n')
				if err != nil {
					r.ev <- event{kind: "eof", pid: pid, conn: conn}
					return
				}
				f := strings.Split(strings.TrimRight(line, "\n"), "\t")
				if len(f) != 5 {
					continue
				}
				pid, _ = strconv.Atoi(f[0])
				parent, _ := strconv.Atoi(f[1])
				arg, _ := strconv.Atoi(f[3])
				r.ev <- event{kind: "pause", pid: pid, parent: parent, point: f[2], arg: arg, sockid: f[4], conn: conn}
			}
		}()
	}
}

func (r *runner) log(f ...string) { r.lines = append(r.lines, f) }

func (p *proc) w() string { return string(p.kind) }

var statusNames = map[int]string{0: "ok", 1: "missing", 2: "sockfile-error", 3: "refused", 4: "other", 5: "outdated"}

// handle processes one event: appends what it means to the log.
func (r *runner) handle(e event) {
	switch e.kind {
	case "pause":
		p := r.byPid[e.pid]
		if p == nil {
			// a daemon reporting for the first time: find its spawner
			sp := r.byPid[e.parent]
			if sp == nil || sp.kind != 's' {
				r.log("o", "stray", strconv.Itoa(e.pid), e.point)
				fmt.Fprintf(e.conn, "go\n")
				return
			}
			p = r.dms[sp.idx]
			if p.pid != 0 {
				r.log("o", "second-daemon-of", strconv.Itoa(sp.idx))
				fmt.Fprintf(e.conn, "go\n")
				return
			}
			p.pid = e.pid
			p.started = true
			r.byPid[e.pid] = p
		}
		p.conn = e.conn
		p.held = true
		p.point = e.point
		p.sockid = e.sockid
		p.arrivedAt = time.Now()
		arg := strconv.Itoa(e.arg)
		if e.point == "a-detect" || e.point == "a-poll" {
			arg = statusNames[e.arg]
			if arg == "" {
				arg = "unknown"
			}
		}
		p.arg = arg
		if e.point == "d-listen" && e.sockid != "-" {
			r.idOwn[e.sockid] = p.idx
		}
		r.log("o", "at", p.w(), strconv.Itoa(p.idx), e.point, e.sockid, r.ownerOf(e.sockid), fmt.Sprintf("t=%dms", time.Since(r.t0).Milliseconds()))
		r.log("a", p.w(), strconv.Itoa(p.idx), e.point, arg)
		if r.auto != nil && r.auto(p) {
			r.release(p)
		}
	case "eof":
		p := r.byPid[e.pid]
		if p != nil && p.kind == 'd' && !p.dead {
			p.dead = true
			p.held = false
			r.log("dead", "d", strconv.Itoa(p.idx))
		}
		e.conn.Close()
	case "exit":
		p := r.shells[e.k]
		if !p.dead {
			p.dead = true
			p.held = false
			r.log("dead", "s", strconv.Itoa(p.idx))
		}
	case "line":
		r.shellLine(r.shells[e.k], e.line)
	}
}

func (r *runner) ownerOf(id string) string {
	if id == "-" {
		return "none"
	}
	if k, ok := r.idOwn[id]; ok {
		return strconv.Itoa(k)
	}
	return "unknown"
}

// shellLine interprets one line of a shell's combined stdout+stderr.
func (r *runner) shellLine(p *proc, line string) {
	k := strconv.Itoa(p.idx)
	if p.closed || p.killed {
		// the shell is already on its way out: what it still prints is no longer
		// an observation of a live session (the log order would be misleading)
		r.log("o", "late-output", k)
		return
	}
	switch {
	case strings.Contains(line, "Cannot connect to daemon:"):
		p.errMsg = line[strings.Index(line, "Cannot connect to daemon:"):]
	case strings.Contains(line, "ACT-DONE"):
		p.actDone = true
		if p.errMsg != "" {
			kind := "unmodelled"
			switch {
			case strings.Contains(p.errMsg, "unexpected RPC error"):
				kind = "rpc"
			case strings.Contains(p.errMsg, "failed to remove socket file"):
				kind = "remove"
			case strings.Contains(p.errMsg, "daemon did not come up"):
				kind = "timeout"
			}
			p.hasRes = true
			r.log("o", "errmsg", k, sanitize(p.errMsg))
			r.log("res", k, kind)
			return
		}
		// Activate returned nil: ask the client which daemon it talks to (one
		// RPC on the connection Activate left open).
		io.WriteString(p.stdin, "use daemon; echo PROBE-PID $daemon:pid\n")
	case strings.Contains(line, "PROBE-PID"):
		f := strings.Fields(line[strings.Index(line, "PROBE-PID"):])
		pid := -1
		if len(f) > 1 {
			pid, _ = strconv.Atoi(f[1])
		}
		d := r.byPid[pid]
		if pid <= 0 || d == nil || d.kind != 'd' {
			p.hasRes = true
			r.log("res", k, "lost")
			return
		}
		p.probePid = pid
		io.WriteString(p.stdin, "use store; try { nop (store:next-cmd-seq); echo PROBE-DB 1 } catch { echo PROBE-DB 0 }\n")
	case strings.Contains(line, "PROBE-DB"):
		f := strings.Fields(line[strings.Index(line, "PROBE-DB"):])
		db := "0"
		if len(f) > 1 && f[1] == "1" {
			db = "1"
		}
		d := r.byPid[p.probePid]
		p.hasRes = true
		p.resOK = true
		r.log("res", k, "ok", strconv.Itoa(d.idx), db)
	}
}

func sanitize(s string) string {
	s = strings.Map(func(c rune) rune {
		if c == '\t' || c == '\n' || c == '\r' {
			return ' '
		}
		return c
	}, s)
	if s == "" {
		return "-"
	}
	// the temporary directory name differs between runs
	return s
}

// pump handles events until cond holds (true) or the timeout expires (false).
func (r *runner) pump(cond func() bool, timeout time.Duration) bool {
	deadline := time.NewTimer(timeout)
	defer deadline.Stop()
	for {
		if cond != nil && cond() {
			return true
		}
		select {
		case e := <-r.ev:
			r.handle(e)
		case <-deadline.C:
			return cond != nil && cond()
		}
	}
}

// settle handles events for d.
func (r *runner) settle(d time.Duration) { r.pump(nil, d) }

const stepTimeout = 25 * time.Second

func (r *runner) start(k int) {
	p := r.shells[k]
	if p.started {
		fail("shell %d started twice", k)
	}
	cmd := exec.Command(r.elvish, "-norc", "-sock", r.sock, "-db", r.db)
	cmd.Dir = r.dir
	cmd.Env = []string{"ELVISH_VERIF_PAUSE=" + r.ctl, "XDG_RUNTIME_DIR=" + filepath.Join(r.dir, "run"),
		"HOME=" + r.dir, "PATH=/usr/bin:/bin", "XDG_STATE_HOME=" + r.dir, "XDG_CONFIG_HOME=" + r.dir}
	stdin, err := cmd.StdinPipe()
	if err != nil {
		fail("stdin pipe: %v", err)
	}
	pr, pw, err := os.Pipe()
	if err != nil {
		fail("pipe: %v", err)
	}
	cmd.Stdout = pw
	cmd.Stderr = pw
	cmd.SysProcAttr = &syscall.SysProcAttr{Setpgid: true}
	r.log("x", "start", strconv.Itoa(k))
	if err := cmd.Start(); err != nil {
		pw.Close()
		pr.Close()
		fail("start shell: %v", err)
	}
	pw.Close()
	p.cmd, p.stdin, p.started, p.pid = cmd, stdin, true, cmd.Process.Pid
	r.byPid[p.pid] = p
	io.WriteString(stdin, "echo ACT-DONE\n")
	r.wg.Add(1)
	go func() {
		defer r.wg.Done()
		sc := bufio.NewScanner(pr)
		sc.Buffer(make([]byte, 1<<16), 1<<20)
		for sc.Scan() {
			r.ev <- event{kind: "line", k: k, line: sc.Text()}
		}
		pr.Close()
		cmd.Wait()
		r.ev <- event{kind: "exit", k: k}
	}()
}

func (r *runner) release(p *proc) {
	if !p.held || p.conn == nil {
		fail("release of %s which is not held", p.name())
	}
	p.held = false
	p.releases++
	r.log("r", p.w(), strconv.Itoa(p.idx))
	fmt.Fprintf(p.conn, "go\n")
}

// await waits until p is held at point.
func (r *runner) await(p *proc, point string) {
	ok := r.pump(func() bool { return p.held || p.dead || (p.kind == 's' && p.hasRes) }, stepTimeout)
	if !ok {
		fail("%s did not reach %s (last %s)", p.name(), point, p.point)
	}
	if !p.held && !p.dead {
		deviate("%s finished its activation instead of reaching %s", p.name(), point)
	}
	if p.dead || p.point != point {
		deviate("%s reached %s/dead=%v instead of %s", p.name(), p.point, p.dead, point)
	}
}

func (r *runner) awaitArg(p *proc, point, arg string) {
	r.await(p, point)
	if p.arg != arg {
		deviate("%s at %s reported %s instead of %s", p.name(), point, p.arg, arg)
	}
}

// step releases p and waits for it at point.
func (r *runner) step(p *proc, point string) {
	r.release(p)
	r.await(p, point)
}

// pollUntil releases shell p from its poll-loop pause points until it reports status.
func (r *runner) pollUntil(p *proc, status string) {
	for i := 0; i < 400; i++ {
		r.await(p, "a-poll")
		if p.arg == status {
			return
		}
		r.release(p)
	}
	fail("%s never polled %s", p.name(), status)
}

func (r *runner) result(p *proc) {
	if !r.pump(func() bool { return p.hasRes || p.dead }, stepTimeout) {
		fail("no activation result from %s", p.name())
	}
}

func (r *runner) awaitDead(p *proc) {
	if !r.pump(func() bool { return p.dead }, stepTimeout) {
		fail("%s did not die", p.name())
	}
}

func (r *runner) kill9(p *proc) {
	if p.pid == 0 || p.dead {
		fail("kill of %s which is not running", p.name())
	}
	p.killed = true
	r.log("x", "kill", p.w(), strconv.Itoa(p.idx))
	syscall.Kill(p.pid, syscall.SIGKILL)
}

func (r *runner) term(p *proc) {
	if p.kind != 'd' || p.pid == 0 || p.dead {
		fail("term of %s", p.name())
	}
	p.killed = true
	r.log("x", "term", strconv.Itoa(p.idx))
	syscall.Kill(p.pid, syscall.SIGTERM)
}

func (r *runner) closeShell(p *proc) {
	if p.closed || !p.started {
		fail("close of %s", p.name())
	}
	p.closed = true
	r.log("x", "close", strconv.Itoa(p.idx))
	p.stdin.Close()
}

func fileID(path string) string {
	fi, err := os.Lstat(path)
	if err != nil {
		return "-"
	}
	ino := uint64(0)
	if st, ok := fi.Sys().(*syscall.Stat_t); ok {
		ino = uint64(st.Ino)
	}
	return fmt.Sprintf("%d:%d", ino, fi.ModTime().UnixNano())
}

// statSock logs which daemon created the file that is at the socket path now.
func (r *runner) statSock() string {
	o := r.ownerOf(fileID(r.sock))
	r.log("sock", o)
	return o
}

// cleanup kills everything that belongs to this run and removes its directory.
func (r *runner) cleanup() {
	if r.closed {
		return
	}
	r.closed = true
	for _, p := range r.shells {
		if p.stdin != nil {
			p.stdin.Close()
		}
	}
	for pid, p := range r.byPid {
		if p.kind == 's' && p.cmd != nil {
			syscall.Kill(-pid, syscall.SIGKILL)
		}
		syscall.Kill(pid, syscall.SIGKILL)
	}
	killByDir(r.dir)
	r.ln.Close()
	// drain so that the reader goroutines can finish
	done := make(chan struct{})
	go func() { r.wg.Wait(); close(done) }()
	for {
		select {
		case e := <-r.ev:
			if e.kind == "pause" && e.conn != nil {
				fmt.Fprintf(e.conn, "go\n")
			}
			continue
		case <-done:
		case <-time.After(5 * time.Second):
		}
		break
	}
	killByDir(r.dir)
	os.RemoveAll(r.dir)
}

// killByDir SIGKILLs every process whose command line mentions dir (daemons
// are not our children and detach with setsid).
func killByDir(dir string) {
	ents, err := os.ReadDir("/proc")
	if err != nil {
		return
	}
	self := os.Getpid()
	for _, e := range ents {
		pid, err := strconv.Atoi(e.Name())
		if err != nil || pid == self {
			continue
		}
		b, err := os.ReadFile("/proc/" + e.Name() + "/cmdline")
		if err != nil {
			continue
		}
		if strings.Contains(string(b), dir) {
			syscall.Kill(pid, syscall.SIGKILL)
		}
	}
}
