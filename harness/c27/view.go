package c27

// view: what the harness itself knows about a run of real processes, computed
// from the history lines only (so that a recorded history can be re-judged).
// It is the implementation-side oracle: it never consults the Lean model.

import (
	"fmt"
	"strconv"
	"strings"
)

type dview struct {
	seen     bool
	point    string // last pause point reported
	held     bool
	dead     bool
	killed   bool // SIGKILL/SIGTERM sent by the controller
	db       int  // -1 unknown, 0 serving without the database, 1 with
	ownID    string
	listenAt int // line index of d-listen (0 = never)
	endAt    int // line index at which it stopped serving the path (kill, d-remove, dead)
	rmArg    int
	rmID     string
	rmOwner  string
	seenAt   int // line index of the last `sock` observation that found this daemon's file at the path
}

type sview struct {
	started   bool
	dead      bool
	gone      bool // close/kill issued
	point     string
	arg       string
	held      bool
	res       string // "", ok, rpc, remove, timeout, lost
	resD      int
	resDB     int
	refusedID string // file id at the socket path when the first detectDaemon said "refused"
	refusedAt int
	refOwner  string
	removedAt int // line index of the release from a-remove
	beganAt   int // line index of the release from a-start (Activate begins)
}

type failure struct {
	class  string
	detail string
	at     int
}

type view struct {
	desc      string
	n         int
	idx       int
	sh        []sview
	dm        []dview
	sock      string // last observation: "", none, unknown, <d>
	sockAt    int
	atID      string // file id of the pending `o at` line
	atOwner   string
	foreign   bool // a daemon was released from d-remove while another daemon's file was at the path
	lastClose int  // line index of the last release from d-close
	lastRm    int  // line index of the last release from a-remove / d-remove
	fails     []failure
}

func (v *view) reset(n int, desc string) {
	*v = view{desc: desc, n: n}
	v.sh = make([]sview, n)
	v.dm = make([]dview, n)
	for i := range v.dm {
		v.dm[i].db = -1
	}
}

func (v *view) fail(class, format string, a ...any) {
	v.fails = append(v.fails, failure{class, fmt.Sprintf(format, a...), v.idx})
}

func atoi(s string) int { n, _ := strconv.Atoi(s); return n }

func (v *view) feed(f []string) {
	if f[0] == "reset" {
		v.reset(atoi(f[1]), f[len(f)-1])
		return
	}
	v.idx++
	in := func(k int) bool { return k >= 0 && k < v.n }
	switch f[0] {
	case "o":
		if len(f) >= 7 && f[1] == "at" {
			v.atID, v.atOwner = f[5], f[6]
		}
	case "x":
		switch f[1] {
		case "start":
			if k := atoi(f[2]); in(k) {
				v.sh[k].started = true
			}
		case "close":
			if k := atoi(f[2]); in(k) {
				v.sh[k].gone = true
			}
		case "term":
			if k := atoi(f[2]); in(k) {
				v.dm[k].killed = true
				if v.dm[k].endAt == 0 {
					v.dm[k].endAt = v.idx
				}
			}
		case "kill":
			k := atoi(f[3])
			if !in(k) {
				return
			}
			if f[2] == "s" {
				v.sh[k].gone = true
			} else {
				v.dm[k].killed = true
				if v.dm[k].endAt == 0 {
					v.dm[k].endAt = v.idx
				}
			}
		}
	case "r":
		k := atoi(f[2])
		if !in(k) {
			return
		}
		if f[1] == "s" {
			s := &v.sh[k]
			s.held = false
			if s.point == "a-start" {
				s.beganAt = v.idx
			}
			if s.point == "a-remove" {
				s.removedAt = v.idx
				v.lastRm = v.idx
			}
		} else {
			d := &v.dm[k]
			d.held = false
			switch d.point {
			case "d-remove":
				v.lastRm = v.idx
				if d.rmID != "-" && d.rmID != d.ownID {
					v.foreign = true
					v.fail("exit-removes-foreign-socket", "daemon %d leaves and removes the socket path while the file there (%s, created by daemon %s) is not the one it created (%s)",
						k, d.rmID, d.rmOwner, d.ownID)
				}
			case "d-close":
				v.lastClose = v.idx
			}
		}
	case "a":
		k := atoi(f[2])
		if !in(k) {
			return
		}
		point, arg := f[3], f[4]
		if f[1] == "s" {
			s := &v.sh[k]
			s.point, s.arg, s.held = point, arg, true
			if point == "a-detect" && arg == "refused" {
				s.refusedID, s.refusedAt, s.refOwner = v.atID, v.idx, v.atOwner
			}
			return
		}
		d := &v.dm[k]
		d.seen, d.point, d.held = true, point, true
		switch point {
		case "d-listen":
			d.ownID, d.listenAt = v.atID, v.idx
			// I1: is another daemon serving the path right now?
			for j := range v.dm {
				o := &v.dm[j]
				if j != k && o.listenAt != 0 && o.endAt == 0 && !o.dead {
					v.fail("two-daemons-serving", "daemon %d has bound the socket path while daemon %d (bound earlier, neither exiting nor killed) still serves it", k, j)
				}
			}
		case "d-open":
			d.db = atoi(arg)
		case "d-remove":
			d.rmArg, d.rmID, d.rmOwner = atoi(arg), v.atID, v.atOwner
			if d.endAt == 0 {
				d.endAt = v.idx
			}
			if !d.killed && d.rmArg > 0 {
				v.fail("daemon-exited-with-client", "daemon %d left its loop with %d connection(s) and no signal", k, d.rmArg)
			}
			if !d.killed {
				for j := range v.sh {
					s := &v.sh[j]
					if s.res == "ok" && s.resD == k && !s.dead && !s.gone {
						v.fail("daemon-exited-with-client", "daemon %d left its loop while shell %d, activated on it, is still running", k, j)
					}
				}
			}
		}
	case "dead":
		k := atoi(f[2])
		if !in(k) {
			return
		}
		if f[1] == "s" {
			v.sh[k].dead, v.sh[k].held = true, false
		} else {
			d := &v.dm[k]
			if !d.killed && d.point != "d-close" && d.point != "d-listen-err" {
				// died on its own at an unexpected place
				v.fail("daemon-died", "daemon %d died after %s without being killed", k, d.point)
			}
			d.dead, d.held = true, false
			if d.endAt == 0 {
				d.endAt = v.idx
			}
		}
	case "res":
		k := atoi(f[1])
		if !in(k) {
			return
		}
		s := &v.sh[k]
		s.res, s.held = f[2], false
		s.point = "done"
		switch f[2] {
		case "ok":
			s.resD, s.resDB = atoi(f[3]), atoi(f[4])
			if in(s.resD) && s.resDB == 0 && !v.dm[s.resD].killed {
				v.fail("client-daemon-without-db", "Activate of shell %d returned nil, its client talks to daemon %d, which does not have the database (store:next-cmd-seq fails)", k, s.resD)
			}
		case "lost":
			v.fail("client-lost-daemon", "Activate of shell %d returned nil but its client has no live daemon (daemon:pid failed)", k)
		case "unmodelled":
			v.fail("activate-unexpected-error", "Activate of shell %d failed with an error outside the protocol", k)
		}
	case "sock":
		v.sock, v.sockAt = f[1], v.idx
		if k := atoi(f[1]); f[1] != "none" && f[1] != "unknown" && in(k) {
			v.dm[k].seenAt = v.idx
		}
		// I1own at an observation: a daemon that serves the path must own the file there
		for j := range v.dm {
			d := &v.dm[j]
			if d.ownsPath() && !d.killed && f[1] != strconv.Itoa(j) {
				class := "daemon-orphaned"
				// its file was still there after the last os.Remove of the path, and is gone
				// after a daemon went through listener.Close()
				if d.seenAt > v.lastRm && v.lastClose > d.seenAt {
					class = "listener-close-unlinks-successor-socket"
				}
				v.fail(class, "daemon %d serves the socket path but the file there is %s's, not the one it created", j, f[1])
			}
		}
	}
}

// ---- the daemon's place in its life, as far as the harness can tell

func (d *dview) alive() bool { return d.seen && !d.dead }

// from bind until its own os.Remove
func (d *dview) ownsPath() bool {
	if !d.alive() {
		return false
	}
	switch d.point {
	case "d-listen", "d-open":
		return true
	case "d-remove":
		return d.held
	}
	return false
}

func (d *dview) answers() bool { return d.alive() && d.point == "d-open" }

func (d *dview) serving() bool { return d.alive() && d.point == "d-open" && !d.held }

func (d *dview) leftLoop() bool {
	return d.seen && (d.point == "d-remove" || d.point == "d-close")
}

// viols mirrors C27.viols (lean/ElvModel/C27/Spec.lean) on the harness's
// observations; meaningful at quiescent points of scripted runs.
func (v *view) viols() []string {
	var out []string
	own := 0
	orphan := false
	for j := range v.dm {
		if v.dm[j].ownsPath() {
			own++
			if v.sock != strconv.Itoa(j) {
				orphan = true
			}
		}
	}
	if own > 1 {
		out = append(out, "I1")
	}
	if orphan {
		out = append(out, "I1own")
	}
	dbs := 0
	nodb := false
	i3 := false
	for j := range v.dm {
		d := &v.dm[j]
		if d.alive() && d.db == 1 && d.point != "d-close" {
			dbs++
		}
		if d.answers() && d.db == 0 {
			nodb = true
		}
		if !d.killed && d.leftLoop() && d.rmArg > 0 {
			i3 = true
		}
	}
	if dbs > 1 {
		out = append(out, "I2")
	}
	if nodb {
		out = append(out, "I2s")
	}
	if i3 {
		out = append(out, "I3")
	}
	if v.foreign {
		out = append(out, "I4")
	}
	for k := range v.sh {
		s := &v.sh[k]
		if s.dead || s.res != "ok" || s.resD < 0 || s.resD >= v.n {
			continue
		}
		d := &v.dm[s.resD]
		if !d.killed && !(d.serving() && d.db == 1) {
			out = append(out, "L")
			break
		}
	}
	return out
}

// staleRace: did two shells whose activations overlapped both get "connection
// refused" in their first detectDaemon and both go on to os.Remove the socket
// path?  (The file id reported at a-detect is sampled after detectDaemon
// returned and may already be another file, so the criterion is the overlap of
// the two [Activate begins, os.Remove] intervals in the controller's log.)
// That is the precondition of the known finding.
func (v *view) staleRace() (bool, string) {
	for a := range v.sh {
		for b := range v.sh {
			sa, sb := &v.sh[a], &v.sh[b]
			if a < b && sa.refusedAt != 0 && sb.refusedAt != 0 && sa.removedAt != 0 && sb.removedAt != 0 &&
				sa.beganAt < sb.removedAt && sb.beganAt < sa.removedAt {
				return true, fmt.Sprintf("shells %d and %d activated concurrently, both got 'connection refused' from the socket path (file %s created by daemon %s, resp. %s created by %s, when they reported it) and both went on to os.Remove the path",
					a, b, sa.refusedID, sa.refOwner, sb.refusedID, sb.refOwner)
			}
		}
	}
	return false, ""
}

// consequences of two shells removing "the stale socket" one after the other
var staleRaceClasses = map[string]bool{
	"two-daemons-serving":         true,
	"client-daemon-without-db":    true,
	"exit-removes-foreign-socket": true,
	"daemon-orphaned":             true,
}

func (v *view) verdict() (string, string) {
	if len(v.fails) == 0 {
		return "", ""
	}
	race, why := v.staleRace()
	var other []failure
	var known []string
	for _, f := range v.fails {
		if race && staleRaceClasses[f.class] {
			known = append(known, f.class+": "+f.detail)
		} else {
			other = append(other, f)
		}
	}
	if len(other) > 0 {
		// a different violation is reported under its own class, even in a stale-race run
		var ds []string
		for _, f := range other {
			ds = append(ds, fmt.Sprintf("[line %d] %s: %s", f.at, f.class, f.detail))
		}
		return other[0].class, v.desc + ": " + strings.Join(ds, "; ")
	}
	return "concurrent-activation-over-stale-socket", v.desc + ": " + why + " => " + strings.Join(known, "; ")
}
