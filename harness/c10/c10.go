// Package c10: correspondence and oracle for C10 (the `order` builtin).
package c10

import (
	"fmt"
	"sort"
	"strconv"
	"strings"

	"src.elv.sh/pkg/eval"
	"src.elv.sh/pkg/eval/vals"
	"verifharness/common"
	"verifharness/evalutil"
)

func init() { common.Register("C10", run) }

type state struct {
	ev   *eval.Evaler
	rank string
}

// ---- value universe (mirrors C10.Val) -----------------------------------------

func enc(v any) string {
	switch v := v.(type) {
	case int:
		return "I " + strconv.Itoa(v)
	case float64:
		return "F " + strconv.Itoa(int(v))
	case string:
		return "S " + common.Hex(v)
	case bool:
		if v {
			return "B T"
		}
		return "B F"
	case vals.List:
		var sb strings.Builder
		fmt.Fprintf(&sb, "L %d", v.Len())
		for it := v.Iterator(); it.HasElem(); it.Next() {
			sb.WriteString(" " + enc(it.Elem()))
		}
		return sb.String()
	case vals.Map:
		id, _ := v.Index("id")
		return "M " + vals.ToString(id)
	}
	return "?"
}

func dec(toks []string) (any, []string) {
	switch toks[0] {
	case "I":
		i, _ := strconv.Atoi(toks[1])
		return i, toks[2:]
	case "F":
		i, _ := strconv.Atoi(toks[1])
		return float64(i), toks[2:]
	case "S":
		return common.Unhex(toks[1]), toks[2:]
	case "B":
		return toks[1] == "T", toks[2:]
	case "M":
		return vals.MakeMap("id", toks[1]), toks[2:]
	case "L":
		n, _ := strconv.Atoi(toks[1])
		rest := toks[2:]
		l := vals.EmptyList
		for i := 0; i < n; i++ {
			var v any
			v, rest = dec(rest)
			l = l.Conj(v)
		}
		return l, rest
	}
	panic("bad value encoding")
}

func decVals(s string) []any {
	v, _ := dec(strings.Split(s, " "))
	var out []any
	for it := v.(vals.List).Iterator(); it.HasElem(); it.Next() {
		out = append(out, it.Elem())
	}
	return out
}

// ---- generation -----------------------------------------------------------------

func genScalar(r *common.Rand, class int) string {
	switch class {
	case 0:
		// exact and inexact numbers of equal value compare equal but are
		// distinguishable: stability is observable without &key
		if r.Chance(1, 3) {
			return "F " + strconv.Itoa(r.Range(-4, 4))
		}
		return "I " + strconv.Itoa(r.Range(-4, 4))
	case 1:
		return "S " + common.Hex(common.Pick(r, []string{"", "a", "b", "ab", "abc", "B", "é", "\xff", "10", "9"}))
	case 2:
		return common.Pick(r, []string{"B T", "B F"})
	default:
		return "M " + strconv.Itoa(r.Range(1, 3))
	}
}

func genVal(r *common.Rand, class int, depth int) string {
	if class == 4 { // list of scalars of one class (mutually comparable) or nested
		n := r.Range(0, 3)
		ec := r.Intn(3)
		parts := []string{"L", strconv.Itoa(n)}
		for i := 0; i < n; i++ {
			if depth > 0 && r.Chance(1, 5) {
				parts = append(parts, genVal(r, 4, depth-1))
			} else {
				parts = append(parts, genScalar(r, ec))
			}
		}
		return strings.Join(parts, " ")
	}
	return genScalar(r, class)
}

func listOf(elems []string) string {
	return strings.Join(append([]string{"L", strconv.Itoa(len(elems))}, elems...), " ")
}

func gen(c *common.Ctx, emit func(...string)) {
	r := c.Rand
	rank := computeRank()
	n := c.Scale(2500, 120000)
	for i := 0; i < n; i++ {
		size := common.Pick(r, []int{0, 1, 2, 3, 5, 8, 11, 12, 13, 19, 20, 21, 25, 40, 41, 60, 100, 300})
		if size > 60 && !r.Chance(1, 6) {
			size = r.Range(0, 30)
		}
		flags := ""
		if r.Chance(1, 3) {
			flags += "r"
		}
		mode := common.Pick(r, []string{"default", "default", "total", "cb-cmp", "cb-total"})
		if mode == "total" {
			flags += "t"
		}
		if strings.HasPrefix(mode, "cb-") {
			flags += "l"
		}
		if r.Chance(1, 40) { // both &total and &less-than: rejected up front
			flags = strings.ReplaceAll(flags, "t", "") + "t"
			if !strings.Contains(flags, "l") {
				flags += "l"
				mode = "cb-cmp"
			}
		}
		keyspec := "nokey"
		useKey := r.Chance(2, 5)
		// classes: mostly one class (mutually comparable), sometimes mixed
		mixed := r.Chance(1, 5) || mode == "total" || mode == "cb-total"
		baseClass := r.Intn(5)
		if baseClass == 3 && !mixed { // maps are only comparable when equal
			baseClass = 0
		}
		var elems []string
		for k := 0; k < size; k++ {
			cl := baseClass
			if mixed && r.Chance(1, 3) {
				cl = r.Intn(5)
			}
			key := genVal(r, cl, 1)
			if useKey {
				// [key payload] with a unique payload so stability is observable
				elems = append(elems, "L 2 "+key+" I "+strconv.Itoa(1000+k))
			} else {
				elems = append(elems, key)
			}
		}
		if useKey {
			keyspec = "idx0"
			if r.Chance(1, 25) && size > 0 { // one element too short for the key callback
				elems[r.Intn(size)] = "L 0"
			}
		}
		fail := "-"
		if (strings.HasPrefix(mode, "cb-") || useKey) && size >= 2 && r.Chance(1, 6) {
			// the callback throws whenever it sees this element (as the key
			// callback's argument, or as either argument of &less-than)
			fail = elems[r.Intn(size)]
			if useKey && strings.HasPrefix(mode, "cb-") {
				// only one callback fails per op: the key callback
			}
		}
		if flags == "" {
			flags = "-"
		}
		emit("order", flags, mode, keyspec, rank, fail, listOf(elems))
	}
	// callbacks failing at the n-th call: atomicity only
	for i := 0; i < c.Scale(300, 10000); i++ {
		size := r.Range(2, 40)
		var elems []string
		for k := 0; k < size; k++ {
			elems = append(elems, "I "+strconv.Itoa(r.Range(0, 9)))
		}
		emit("atomic", strconv.Itoa(r.Range(1, 3*size))+" "+common.Pick(r, []string{"lt", "key"})+" "+listOf(elems))
	}
}

func computeRank() string {
	reps := []any{true, 1, "s", vals.EmptyList, vals.EmptyMap}
	var parts []string
	for _, a := range reps {
		rk := 0
		for _, b := range reps {
			if vals.CmpTotal(b, a) == vals.CmpLess {
				rk++
			}
		}
		parts = append(parts, strconv.Itoa(rk))
	}
	return strings.Join(parts, ",")
}

// ---- implementation ---------------------------------------------------------------

func buildCode(f []string) string {
	flags, mode, keyspec, fail := f[1], f[2], f[3], f[5]
	var sb strings.Builder
	sb.WriteString("order")
	if strings.Contains(flags, "r") {
		sb.WriteString(" &reverse")
	}
	if strings.Contains(flags, "t") {
		sb.WriteString(" &total")
	}
	failGuardKey, failGuardLt := "", ""
	if fail != "-" {
		if keyspec != "nokey" {
			failGuardKey = "if (eq $x $failv) { fail callback-failed }; "
		} else {
			failGuardLt = "if (or (eq $a $failv) (eq $b $failv)) { fail callback-failed }; "
		}
	}
	if strings.Contains(flags, "l") {
		switch mode {
		case "cb-total":
			sb.WriteString(" &less-than={|a b| " + failGuardLt + "== -1 (compare &total $a $b) }")
		default:
			sb.WriteString(" &less-than={|a b| " + failGuardLt + "== -1 (compare $a $b) }")
		}
	}
	if strings.HasPrefix(keyspec, "idx") {
		sb.WriteString(" &key={|x| " + failGuardKey + "put $x[" + keyspec[3:] + "] }")
	}
	sb.WriteString(" $in")
	return sb.String()
}

func runOrder(st *state, f []string) ([]any, error) {
	in := vals.EmptyList
	for _, v := range decVals(f[6]) {
		in = in.Conj(v)
	}
	vars := map[string]any{"in": in, "failv": nil}
	if f[5] != "-" {
		fv, _ := dec(strings.Split(f[5], " "))
		vars["failv"] = fv
	}
	evalutil.SetVars(st.ev, vars)
	res := evalutil.Eval(st.ev, buildCode(f), nil)
	return res.Values, res.Err
}

func impl(sti any, f []string) string {
	st := sti.(*state)
	switch f[0] {
	case "order":
		out, err := runOrder(st, f)
		if err != nil {
			if len(out) != 0 {
				return fmt.Sprintf("EXC-WITH-%d-OUTPUTS", len(out))
			}
			return "EXC"
		}
		l := vals.EmptyList
		for _, v := range out {
			l = l.Conj(v)
		}
		return "OK " + enc(l)
	case "atomic":
		return atomic(st, f)
	}
	return "bad-op"
}

// atomic: a callback that throws at its n-th call.  Which call throws depends
// on the library's comparison sequence, so only the property's claim is
// checked: threw ⇒ nothing output; did not throw ⇒ sorted stable permutation.
func atomic(st *state, f []string) string {
	parts := strings.SplitN(f[1], " ", 3)
	nth, _ := strconv.Atoi(parts[0])
	in := vals.EmptyList
	ins := decVals(parts[2])
	for _, v := range ins {
		in = in.Conj(v)
	}
	evalutil.SetVars(st.ev, map[string]any{"in": in, "nth": nth})
	code := "var cnt = 0; order &less-than={|a b| set cnt = (+ $cnt 1); if (== $cnt $nth) { fail nth }; < $a $b } $in"
	if parts[1] == "key" {
		code = "var cnt = 0; order &key={|x| set cnt = (+ $cnt 1); if (== $cnt $nth) { fail nth }; put $x } $in"
	}
	res := evalutil.Eval(st.ev, code, nil)
	if res.Err != nil {
		if len(res.Values) == 0 {
			return "atomic-ok"
		}
		return fmt.Sprintf("atomic-bad threw with %d outputs", len(res.Values))
	}
	if len(res.Values) != len(ins) {
		return "atomic-bad wrong length"
	}
	want := append([]any{}, ins...)
	sort.SliceStable(want, func(i, j int) bool { return want[i].(int) < want[j].(int) })
	for i := range want {
		if want[i] != res.Values[i] {
			return "atomic-bad not sorted"
		}
	}
	return "atomic-ok"
}

// ---- oracle: the property evaluated on the real code ------------------------------------

func oracle(sti any, f []string, out string) (string, string) {
	st := sti.(*state)
	if out == "PANIC" || out == "TIMEOUT" {
		return "crash", out
	}
	if f[0] == "atomic" {
		if out != "atomic-ok" {
			return "atomicity", out
		}
		return "", ""
	}
	flags, mode, keyspec := f[1], f[2], f[3]
	ins := decVals(f[6])
	if strings.HasPrefix(out, "EXC-WITH") {
		return "output-before-exception", out
	}
	total := strings.Contains(flags, "t") || mode == "cb-total"
	keyOf := func(v any) (any, bool) {
		if keyspec == "nokey" {
			return v, true
		}
		l, ok := v.(vals.List)
		if !ok || l.Len() == 0 {
			return nil, false
		}
		k, _ := l.Index(0)
		return k, true
	}
	if strings.Contains(flags, "t") && strings.Contains(flags, "l") {
		if out != "EXC" {
			return "total-and-less-than-accepted", out
		}
		return "", ""
	}
	// must it throw?  a failing callback element, a failing key, or (default
	// comparator) two keys of different comparable classes
	mustThrow := false
	if f[5] != "-" && len(ins) >= 2 {
		mustThrow = true
	}
	var keys []any
	for _, v := range ins {
		k, ok := keyOf(v)
		if !ok {
			mustThrow = true
		}
		keys = append(keys, k)
	}
	if f[5] != "-" && keyspec != "nokey" {
		mustThrow = true // the key callback sees every element, even a single one
	}
	if !mustThrow && !total {
		for i := range keys {
			for j := i + 1; j < len(keys) && j < i+40; j++ {
				if vals.Cmp(keys[i], keys[j]) == vals.CmpUncomparable && classOf(keys[i]) != classOf(keys[j]) {
					mustThrow = true
				}
			}
		}
	}
	if out == "EXC" {
		return "", "" // nothing was output (checked by impl); whether it had to throw is the model's side
	}
	if mustThrow {
		return "missing-exception", "order succeeded although a callback fails / keys are uncomparable"
	}
	outs := decVals(strings.TrimPrefix(out, "OK "))
	// permutation
	if len(outs) != len(ins) {
		return "not-a-permutation", fmt.Sprintf("%d outputs for %d inputs", len(outs), len(ins))
	}
	cnt := map[string]int{}
	for _, v := range ins {
		cnt[enc(v)]++
	}
	for _, v := range outs {
		cnt[enc(v)]--
	}
	for k, n := range cnt {
		if n != 0 {
			return "not-a-permutation", k
		}
	}
	// sortedness + stability, with the real comparator
	cmp := vals.Cmp
	if total {
		cmp = vals.CmpTotal
	}
	rev := strings.Contains(flags, "r")
	pos := map[string][]int{} // input positions per encoded value
	for i, v := range ins {
		pos[enc(v)] = append(pos[enc(v)], i)
	}
	_ = st
	for i := 0; i+1 < len(outs); i++ {
		for j := i + 1; j < len(outs) && j <= i+6; j++ {
			a, _ := keyOf(outs[i])
			b, _ := keyOf(outs[j])
			o := cmp(a, b)
			if !rev && o == vals.CmpMore || rev && o == vals.CmpLess {
				return "not-sorted", fmt.Sprintf("positions %d,%d: %s before %s", i, j, enc(outs[i]), enc(outs[j]))
			}
			if o == vals.CmpEqual || o == vals.CmpUncomparable {
				// equal keys keep input order: observable when the values differ (payload)
				ea, eb := enc(outs[i]), enc(outs[j])
				if ea != eb && len(pos[ea]) == 1 && len(pos[eb]) == 1 && pos[ea][0] > pos[eb][0] {
					return "not-stable", fmt.Sprintf("%s (input #%d) before %s (input #%d)", ea, pos[ea][0], eb, pos[eb][0])
				}
			}
		}
	}
	return "", ""
}

func classOf(v any) string {
	switch v.(type) {
	case int, float64:
		return "num"
	case string:
		return "str"
	case bool:
		return "bool"
	case vals.List:
		return "list"
	}
	return "map"
}

func run(c *common.Ctx) error {
	s := &common.Std{
		Rule: "random sequences (sizes 0..300 incl. 11/12/13/19/20/21 around Go's insertion-sort blocks) of small ints, strings (incl. invalid UTF-8), bools, maps, lists of those; many duplicates; with &key the elements are [key payload] pairs with unique payloads so stability is observable; all option combinations; callbacks that throw on a chosen element; `atomic` ops with callbacks throwing at the n-th call; non-trivial = at least 2 elements; distinct by op line",
		Gen:  gen,
		NewState: func(c *common.Ctx) any {
			return &state{ev: evalutil.NewEvaler(), rank: computeRank()}
		},
		Impl:   impl,
		Oracle: oracle,
		Tag: func(f []string, out string) string {
			if f[0] == "atomic" {
				return "atomic"
			}
			if strings.HasPrefix(f[6], "L 0") || strings.HasPrefix(f[6], "L 1 ") {
				return ""
			}
			t := f[2]
			if strings.Contains(f[1], "r") {
				t += "+reverse"
			}
			if f[3] != "nokey" {
				t += "+key"
			}
			if f[5] != "-" {
				t += "+failing-callback"
			}
			if out == "EXC" {
				t += "=>exc"
			}
			return t
		},
	}
	return s.Run(c)
}
