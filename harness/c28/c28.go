// Package c28: correspondence and oracle for C28 (editor buffer builtins of
// pkg/edit and key/paste handling of tk.CodeArea).
package c28

import (
	"fmt"
	"sort"
	"strconv"
	"strings"
	"unicode"
	"unicode/utf8"

	"src.elv.sh/pkg/cli/term"
	"src.elv.sh/pkg/cli/tk"
	"src.elv.sh/pkg/edit"
	"src.elv.sh/pkg/parse"
	"src.elv.sh/pkg/ui"
	"src.elv.sh/pkg/wcwidth"
	"verifharness/common"
)

func init() { common.Register("C28", run) }

var builtins = edit.VerifBufferBuiltins()

var names = func() []string {
	var ns []string
	for n := range builtins {
		ns = append(ns, n)
	}
	sort.Strings(ns)
	return ns
}()

// ---------------------------------------------------------------------------
// table of library predicate values handed to the Lean driver

func table(extra []rune, ss ...string) string {
	set := map[rune]bool{utf8.RuneError: true}
	for _, s := range ss {
		for _, r := range s {
			set[r] = true
		}
	}
	for _, r := range extra {
		set[r] = true
	}
	var rs []int
	for r := range set {
		rs = append(rs, int(r))
	}
	sort.Ints(rs)
	var sb strings.Builder
	for i, ri := range rs {
		r := rune(ri)
		fl := 0
		if unicode.IsSpace(r) {
			fl |= 1
		}
		if unicode.IsLetter(r) {
			fl |= 2
		}
		if unicode.IsNumber(r) {
			fl |= 4
		}
		if unicode.IsGraphic(r) {
			fl |= 8
		}
		if unicode.Is(unicode.M, r) {
			fl |= 16
		}
		if i > 0 {
			sb.WriteByte(',')
		}
		fmt.Fprintf(&sb, "%d:%d:%d", ri, fl, wcwidth.OfRune(r))
	}
	return sb.String()
}

// ---------------------------------------------------------------------------
// generators

// the 8-symbol alphabet of the exhaustive part: letter, 2-byte letter, wide
// CJK letter, combining mark, space, newline, punctuation, digit.
var alpha8 = []string{"a", "é", "世", "́", " ", "\n", "-", "1"}

var letters = []string{"a", "b", "c", "x", "Z", "é", "ß", "世", "界", "한", "Ω"}
var digits = []string{"0", "1", "9", "٣", "½"}
var puncts = []string{"-", "/", "~", ".", "_", "|", ";", "(", "{", "^", "'", "\"", "$", "*", "€", "�"}
var spaces = []string{" ", " ", " ", "\t", " ", "　", "\r"}
var marks = []string{"́", "̈", "​"}
var wides = []string{"世", "界", "😀", "🚀", "Ａ"}

func randBuf(r *common.Rand, maxSeg int) string {
	var sb strings.Builder
	for k := r.Range(0, maxSeg); k > 0; k-- {
		switch r.Intn(10) {
		case 0, 1, 2:
			for j := r.Range(1, 5); j > 0; j-- {
				if r.Chance(1, 4) {
					sb.WriteString(common.Pick(r, digits))
				} else {
					sb.WriteString(common.Pick(r, letters))
				}
				if r.Chance(1, 8) {
					sb.WriteString(common.Pick(r, marks))
				}
			}
		case 3, 4:
			for j := r.Range(1, 3); j > 0; j-- {
				sb.WriteString(common.Pick(r, spaces))
			}
		case 5:
			for j := r.Range(1, 3); j > 0; j-- {
				sb.WriteString(common.Pick(r, puncts))
			}
		case 6, 7:
			sb.WriteString("\n")
		case 8:
			for j := r.Range(1, 3); j > 0; j-- {
				sb.WriteString(common.Pick(r, wides))
			}
		case 9:
			sb.WriteString(common.Pick(r, marks))
		}
	}
	return sb.String()
}

func boundaries(s string) []int {
	var bs []int
	for i := range s {
		bs = append(bs, i)
	}
	return append(bs, len(s))
}

var badBytes = []string{"\x80", "\xbf", "\xc3", "\xe4\xb8", "\xf0\x9f", "\xff", "\xed\xa0\x80", "\xc0\xaf"}

func malformedBuf(r *common.Rand) string {
	var sb strings.Builder
	for k := r.Range(1, 6); k > 0; k-- {
		if r.Chance(1, 2) {
			sb.WriteString(common.Pick(r, badBytes))
		} else {
			sb.WriteString(randBuf(r, 2))
		}
	}
	return sb.String()
}

type pair struct{ a, f string }

var simplePool = []pair{{"xx", "expanded"}, {"é", "e"}, {"ab", "世界"}, {"b", "B!"}, {"~~", ""}, {"||", " or "}, {"世", "world"}, {"dn", "/dev/null"}, {"xab", "LONG"}}
var commandPool = []pair{{"ll", "ls -l"}, {"g", "git"}, {"é", "echo"}, {"e", "edit"}, {"..", "cd .."}, {"l", ""}}
var smallWordPool = []pair{{"gc", "git commit"}, {"eh", "echo hello"}, {"世", "world"}, {"h", "hello"}, {"--", "–"}, {"c", "C"}, {"eh!", "bang"}}

func pickPairs(r *common.Rand, pool []pair, malformed bool) []pair {
	var ps []pair
	seen := map[string]bool{}
	for k := r.Range(0, 4); k > 0; k-- {
		p := common.Pick(r, pool)
		if seen[p.a] {
			continue
		}
		seen[p.a] = true
		if malformed && r.Chance(1, 3) {
			if r.Bool() {
				p.a = p.a[len(p.a)-1:] // possibly a continuation byte
			} else {
				p.f += common.Pick(r, badBytes)
			}
			if seen[p.a] {
				continue
			}
			seen[p.a] = true
		}
		ps = append(ps, p)
	}
	return ps
}

func encPairs(ps []pair) string {
	if len(ps) == 0 {
		return "-"
	}
	var xs []string
	for _, p := range ps {
		xs = append(xs, common.Hex(p.a)+":"+common.Hex(p.f))
	}
	return strings.Join(xs, ",")
}

func decPairs(s string) []pair {
	if s == "-" {
		return nil
	}
	var ps []pair
	for _, x := range strings.Split(s, ",") {
		ab := strings.Split(x, ":")
		ps = append(ps, pair{common.Unhex(ab[0]), common.Unhex(ab[1])})
	}
	return ps
}

// seqGen builds one "seq" op.
func seqGen(r *common.Rand, malformed bool) []string {
	q := r.Chance(1, 3)
	S := pickPairs(r, simplePool, malformed)
	C := pickPairs(r, commandPool, malformed)
	W := pickPairs(r, smallWordPool, malformed)
	buf := ""
	if r.Chance(1, 3) {
		buf = randBuf(r, 4)
	}
	dot := len(buf)
	if r.Chance(1, 3) {
		dot = common.Pick(r, boundaries(buf))
	}
	if malformed && r.Chance(1, 2) {
		if r.Bool() {
			buf = malformedBuf(r)
		}
		dot = r.Range(-1, len(buf)+1)
	}
	var evs []string
	var extra []rune
	var strs []string
	pasting, pasted := false, ""
	key := func(k rune, mod int) {
		evs = append(evs, fmt.Sprintf("k%d.%d", k, mod))
		if k >= 0 {
			extra = append(extra, k)
			if pasting && mod == 0 {
				pasted += string(k)
			}
		}
	}
	typeStr := func(s string) {
		for _, c := range s {
			key(c, 0)
		}
	}
	abbrs := append(append(append([]pair{}, S...), C...), W...)
	seps := []string{" ", " ", "\n", "\t", "|", ";", "(", "{ ", "-", "/", ".", "é", "^\n", "\r"}
	for n := r.Range(1, 12); n > 0; n-- {
		switch c := r.Intn(20); {
		case c < 6: // an abbreviation (or a near miss) followed by a separator
			if len(abbrs) > 0 {
				a := common.Pick(r, abbrs).a
				if utf8.ValidString(a) {
					if r.Chance(1, 6) {
						typeStr(common.Pick(r, seps))
					}
					typeStr(a)
				}
			}
			if r.Chance(3, 4) {
				typeStr(common.Pick(r, seps))
			}
		case c < 9: // random text
			typeStr(randBuf(r, 2))
		case c < 11:
			typeStr(common.Pick(r, seps))
		case c == 11:
			key(ui.Backspace, 0)
		case c == 12:
			if r.Bool() {
				key('H', int(ui.Ctrl))
			} else {
				key(common.Pick(r, []rune{'a', 'H', ui.Backspace, '\n', ' '}), common.Pick(r, []int{1, 2, 4, 6}))
			}
		case c == 13: // function and non-graphic keys
			key(common.Pick(r, []rune{ui.Left, ui.F1, ui.Up, ui.DefaultBindingRune, 1, 27, 0, 0x9f, 0xd800, 0x110000, 0xe000, '\n', '\t', 0xad}), 0)
		case c < 17:
			evs = append(evs, "c"+common.Pick(r, names))
		case c < 19:
			// a bracketed paste
			if !pasting || r.Chance(1, 4) {
				evs = append(evs, "p1")
				pasting = true
			}
			for j := r.Range(0, 4); j > 0; j-- {
				switch r.Intn(6) {
				case 0:
					key(common.Pick(r, []rune{ui.Left, '\n', '\'', '"', 0xd800, 0x110000, 1, ui.Backspace}), 0)
				case 1:
					key('x', int(ui.Alt))
				default:
					typeStr(randBuf(r, 1))
				}
			}
			if r.Chance(5, 6) {
				quoted := parse.Quote(pasted)
				evs = append(evs, "p0."+common.Hex(pasted)+"."+common.Hex(quoted))
				strs = append(strs, pasted, quoted)
				pasting, pasted = false, ""
			}
		default:
			if r.Chance(1, 3) { // paste end without start
				quoted := parse.Quote(pasted)
				evs = append(evs, "p0."+common.Hex(pasted)+"."+common.Hex(quoted))
				strs = append(strs, pasted, quoted)
				pasting, pasted = false, ""
			} else {
				typeStr("a")
			}
		}
	}
	if len(evs) == 0 {
		evs = []string{"-"}
	}
	for _, p := range abbrs {
		strs = append(strs, p.a, p.f)
	}
	strs = append(strs, buf)
	qs := "0"
	if q {
		qs = "1"
	}
	return []string{"seq", qs, encPairs(S), encPairs(C), encPairs(W), common.Hex(buf), strconv.Itoa(dot),
		strings.Join(evs, ","), table(extra, strs...)}
}

// ---------------------------------------------------------------------------
// interrupted typing: the characters of an abbreviation (and its trigger) typed
// with other events in between. The documentation of edit:abbr says an
// abbreviation expands only when "typed in full and consecutively, without
// being interrupted by the use of other editing functionalities, such as cursor
// movements"; the code implements that with the inserts/lastCodeBuffer
// bookkeeping, and expand*Abbr cut the buffer relative to the dot on the
// strength of it.

type seqB struct {
	q       bool
	S, C, W []pair
	buf     string
	dot     int
	evs     []string
	extra   []rune
	strs    []string
}

func (b *seqB) key(k rune, mod int) {
	b.evs = append(b.evs, fmt.Sprintf("k%d.%d", k, mod))
	if k >= 0 {
		b.extra = append(b.extra, k)
	}
}

func (b *seqB) typ(s string) {
	for _, c := range s {
		b.key(c, 0)
	}
}

func (b *seqB) cmd(name string) { b.evs = append(b.evs, "c"+name) }

// paste: a complete bracketed paste of text (valid UTF-8, graphic or not).
func (b *seqB) paste(text string) {
	b.evs = append(b.evs, "p1")
	b.typ(text)
	quoted := parse.Quote(text)
	b.evs = append(b.evs, "p0."+common.Hex(text)+"."+common.Hex(quoted))
	b.strs = append(b.strs, text, quoted)
}

func (b *seqB) line() []string {
	evs := b.evs
	if len(evs) == 0 {
		evs = []string{"-"}
	}
	strs := append([]string{}, b.strs...)
	for _, ps := range [][]pair{b.S, b.C, b.W} {
		for _, p := range ps {
			strs = append(strs, p.a, p.f)
		}
	}
	strs = append(strs, b.buf)
	qs := "0"
	if b.q {
		qs = "1"
	}
	return []string{"seq", qs, encPairs(b.S), encPairs(b.C), encPairs(b.W), common.Hex(b.buf), strconv.Itoa(b.dot),
		strings.Join(evs, ","), table(b.extra, strs...)}
}

// an interruption: a short list of events that are not plain typing.
type interruption func(b *seqB)

var moverNames = func() []string {
	var ms []string
	for _, n := range names {
		if strings.HasPrefix(n, "move-dot-") {
			ms = append(ms, n)
		}
	}
	return ms
}()

func cmds(ns ...string) interruption {
	return func(b *seqB) {
		for _, n := range ns {
			b.cmd(n)
		}
	}
}

// the fixed interruptions of the enumerated part: every builtin alone, pairs of
// movers that come back (or go to the other end), an (empty) paste, keys that
// are not inserted.
var fixedInterruptions = func() []interruption {
	var is []interruption
	for _, n := range names {
		is = append(is, cmds(n))
	}
	for _, p := range [][]string{
		{"move-dot-left", "move-dot-right"}, {"move-dot-left", "move-dot-eol"}, {"move-dot-sol", "move-dot-eol"},
		{"move-dot-left", "move-dot-left"}, {"move-dot-left-word", "move-dot-right-word"}, {"move-dot-up", "move-dot-down"},
		{"move-dot-up", "move-dot-eol"}, {"move-dot-left", "kill-rune-right"}, {"kill-rune-left", "move-dot-eol"},
		{"move-dot-sol", "kill-line-right"}, {"transpose-rune", "transpose-rune"}, {"move-dot-left", "transpose-rune"},
	} {
		is = append(is, cmds(p...))
	}
	is = append(is,
		func(b *seqB) { b.paste("") },
		func(b *seqB) { b.paste("q") },
		func(b *seqB) { b.cmd("kill-rune-left"); b.paste("q") },
		func(b *seqB) { b.cmd("kill-rune-left"); b.paste("é") },
		func(b *seqB) { b.key(ui.F1, 0) },
		func(b *seqB) { b.key(ui.Left, 0) },
		func(b *seqB) { b.key('a', int(ui.Alt)) },
		func(b *seqB) { b.key(1, 0) },
		func(b *seqB) { b.key(ui.Backspace, 0) },
	)
	return is
}()

type abbrCase struct {
	kind    byte // 'S', 'C', 'W'
	p       pair
	trigger string // typed after the abbreviation ("" for simple ones)
}

var interruptedCases = []abbrCase{
	{'S', pair{"||", " or "}, ""}, {'S', pair{"ab", "世界"}, ""}, {'S', pair{"xab", "LONG"}, ""}, {'S', pair{"世界", "w"}, ""},
	{'S', pair{"éé", "e"}, ""}, {'S', pair{"xx", ""}, ""},
	{'W', pair{"gc", "git commit"}, " "}, {'W', pair{"h", "hello"}, "-"}, {'W', pair{"世", "world"}, " "}, {'W', pair{"--", "–"}, "a"},
	{'C', pair{"ll", "ls -l"}, " "}, {'C', pair{"é", "echo"}, "\t"},
}

var interruptedContexts = []struct {
	buf string
	dot int
}{{"", 0}, {"é", 2}, {"x世", 4}, {"a b", 1}, {"é\n", 3}, {"|", 0}, {"b世", 1}}

func (c abbrCase) builder(buf string, dot int) *seqB {
	b := &seqB{buf: buf, dot: dot}
	switch c.kind {
	case 'S':
		b.S = []pair{c.p}
	case 'C':
		b.C = []pair{c.p}
	case 'W':
		b.W = []pair{c.p}
	}
	return b
}

// genInterrupted enumerates: abbreviation × split point × interruption × initial
// buffer/dot (× optionally going to the end of the line before the trigger).
func genInterrupted(emit func(...string)) {
	for _, c := range interruptedCases {
		text := []rune(c.p.a + c.trigger)
		for split := 1; split < len(text); split++ {
			for _, in := range fixedInterruptions {
				for _, ctx := range interruptedContexts {
					b := c.builder(ctx.buf, ctx.dot)
					b.typ(string(text[:split]))
					in(b)
					b.typ(string(text[split:]))
					emit(b.line()...)
					if c.trigger != "" && split < len(text)-1 {
						// the same, but back at the end of the buffer for the trigger
						b := c.builder(ctx.buf, ctx.dot)
						b.typ(string(text[:split]))
						in(b)
						b.typ(string(text[split : len(text)-1]))
						b.cmd("move-dot-eol")
						b.typ(c.trigger)
						emit(b.line()...)
					}
				}
			}
		}
	}
}

func randInterruption(r *common.Rand) interruption {
	switch c := r.Intn(20); {
	case c < 11:
		return cmds(common.Pick(r, moverNames))
	case c < 13:
		return cmds(common.Pick(r, moverNames), common.Pick(r, moverNames))
	case c < 16:
		return cmds(common.Pick(r, names))
	case c == 16:
		t := ""
		if r.Bool() {
			t = randBuf(r, 1)
		}
		return func(b *seqB) { b.paste(t) }
	case c == 17:
		k := common.Pick(r, []rune{ui.Left, ui.F1, ui.Up, 1, 27, 0xad})
		return func(b *seqB) { b.key(k, 0) }
	case c == 18:
		return func(b *seqB) { b.key(ui.Backspace, 0) }
	}
	return common.Pick(r, fixedInterruptions)
}

// interruptGen: a random configuration and buffer; the text of configured
// abbreviations (with a trigger) typed in pieces with interruptions in between.
func interruptGen(r *common.Rand) []string {
	b := &seqB{q: r.Chance(1, 4)}
	b.S = pickPairs(r, simplePool, false)
	b.C = pickPairs(r, commandPool, false)
	b.W = pickPairs(r, smallWordPool, false)
	if len(b.S)+len(b.W) == 0 {
		b.S = []pair{common.Pick(r, simplePool)}
	}
	if r.Chance(2, 3) {
		b.buf = randBuf(r, 3)
	}
	b.dot = len(b.buf)
	if r.Chance(1, 2) {
		b.dot = common.Pick(r, boundaries(b.buf))
	}
	abbrs := append(append(append([]pair{}, b.S...), b.C...), b.W...)
	triggers := []string{" ", " ", "-", "\t", "a", "é", "|", ";", "世"}
	for n := r.Range(1, 4); n > 0; n-- {
		a := common.Pick(r, abbrs).a
		if r.Chance(1, 8) {
			b.typ(common.Pick(r, triggers))
		}
		text := []rune(a + common.Pick(r, triggers))
		for i, c := range text {
			if i > 0 && r.Chance(1, 2) {
				for k := r.Range(1, 2); k > 0; k-- {
					randInterruption(r)(b)
				}
			}
			b.key(c, 0)
		}
		if r.Chance(1, 4) {
			randInterruption(r)(b)
		}
	}
	return b.line()
}

func gen(c *common.Ctx, emit func(...string)) {
	// 1. exhaustive: all buffers of ≤depth symbols × all boundary dots × every command
	depth := c.Scale(4, 6)
	var rec func(p string, n int)
	rec = func(p string, n int) {
		emit("ball", common.Hex(p), table(nil, p))
		if n == 0 {
			return
		}
		for _, a := range alpha8 {
			rec(p+a, n-1)
		}
	}
	rec("", depth)
	// 2. random longer buffers × random boundary dot × random command
	for i := c.Scale(60000, 1500000); i > 0; i-- {
		buf := randBuf(c.Rand, c.Rand.Range(0, 10))
		dot := common.Pick(c.Rand, boundaries(buf))
		emit("b", common.Pick(c.Rand, names), common.Hex(buf), strconv.Itoa(dot), table(nil, buf))
	}
	// 3. malformed stream: invalid UTF-8, dots off boundary or out of range
	for i := c.Scale(15000, 300000); i > 0; i-- {
		var buf string
		if c.Rand.Chance(2, 3) {
			buf = malformedBuf(c.Rand)
		} else {
			buf = randBuf(c.Rand, 4)
		}
		dot := c.Rand.Range(-1, len(buf)+1)
		emit("b", common.Pick(c.Rand, names), common.Hex(buf), strconv.Itoa(dot), table(nil, buf))
	}
	// 4. event sequences on a CodeArea
	for i := c.Scale(6000, 150000); i > 0; i-- {
		emit(seqGen(c.Rand, false)...)
	}
	for i := c.Scale(1000, 20000); i > 0; i-- {
		emit(seqGen(c.Rand, true)...)
	}
	// 5. abbreviations typed with interruptions (cursor moves, edits, pastes,
	//    function keys) between their characters: enumerated, then random
	genInterrupted(emit)
	for i := c.Scale(3000, 80000); i > 0; i-- {
		emit(interruptGen(c.Rand)...)
	}
}

// ---------------------------------------------------------------------------
// implementation side

func applyBuiltin(name, content string, dot int) (out string, c2 string, d2 int) {
	defer func() {
		if r := recover(); r != nil {
			out = "PANIC"
		}
	}()
	b := tk.CodeBuffer{Content: content, Dot: dot}
	builtins[name](&b)
	return common.Hex(b.Content) + " " + strconv.Itoa(b.Dot), b.Content, b.Dot
}

func implBall(buf string) string {
	var sb strings.Builder
	for _, d := range boundaries(buf) {
		for _, n := range names {
			out, _, _ := applyBuiltin(n, buf, d)
			sb.WriteString(out)
			sb.WriteByte(';')
		}
	}
	return sb.String()
}

type event struct {
	kind        byte // 'k', 'P' (paste start), 'p' (paste end), 'c'
	r           rune
	mod         int
	name        string
	raw, quoted string
}

func (e event) String() string {
	switch e.kind {
	case 'k':
		if e.mod == 0 && e.r >= 0 {
			return fmt.Sprintf("key %q", e.r)
		}
		return "key " + ui.Key{Rune: e.r, Mod: ui.Mod(e.mod)}.String()
	case 'P':
		return "paste-start"
	case 'p':
		return fmt.Sprintf("paste-end(%q)", e.raw)
	case 'c':
		return "builtin " + e.name
	}
	return "?"
}

// history: the events before event #i, for failure details.
func history(evs []event, i int) string {
	var xs []string
	for _, e := range evs[:i] {
		xs = append(xs, e.String())
	}
	return "[" + strings.Join(xs, ", ") + "]"
}

func decEvents(s string) []event {
	if s == "-" {
		return nil
	}
	var evs []event
	for _, e := range strings.Split(s, ",") {
		switch {
		case e == "p1":
			evs = append(evs, event{kind: 'P'})
		case strings.HasPrefix(e, "p0."):
			x := strings.Split(e[3:], ".")
			evs = append(evs, event{kind: 'p', raw: common.Unhex(x[0]), quoted: common.Unhex(x[1])})
		case e[0] == 'k':
			x := strings.Split(e[1:], ".")
			r, _ := strconv.Atoi(x[0])
			m, _ := strconv.Atoi(x[1])
			evs = append(evs, event{kind: 'k', r: rune(r), mod: m})
		case e[0] == 'c':
			evs = append(evs, event{kind: 'c', name: e[1:]})
		default:
			panic("bad event " + e)
		}
	}
	return evs
}

type seqOp struct {
	q       bool
	S, C, W []pair
	buf     string
	dot     int
	evs     []event
}

func decSeq(f []string) seqOp {
	d, _ := strconv.Atoi(f[6])
	return seqOp{f[1] == "1", decPairs(f[2]), decPairs(f[3]), decPairs(f[4]), common.Unhex(f[5]), d, decEvents(f[7])}
}

func lister(ps []pair) func(func(a, f string)) {
	return func(cb func(a, f string)) {
		for _, p := range ps {
			cb(p.a, p.f)
		}
	}
}

func doEvent(w tk.CodeArea, e event) (ret bool, panicked bool) {
	defer func() {
		if r := recover(); r != nil {
			panicked = true
		}
	}()
	switch e.kind {
	case 'k':
		return w.Handle(term.KeyEvent(ui.Key{Rune: e.r, Mod: ui.Mod(e.mod)})), false
	case 'P':
		return w.Handle(term.PasteSetting(true)), false
	case 'p':
		return w.Handle(term.PasteSetting(false)), false
	case 'c':
		fn := builtins[e.name]
		w.MutateState(func(s *tk.CodeAreaState) { fn(&s.Buffer) })
		return true, false
	}
	panic("bad event kind")
}

// tableRunes: the runes the op's table covers.
func tableRunes(tbl string) map[rune]bool {
	set := map[rune]bool{}
	if tbl == "-" {
		return set
	}
	for _, e := range strings.Split(tbl, ",") {
		r, _ := strconv.Atoi(e[:strings.IndexByte(e, ':')])
		set[rune(r)] = true
	}
	return set
}

func implSeq(f []string) string {
	op := decSeq(f)
	covered := tableRunes(f[8])
	w := tk.NewCodeArea(tk.CodeAreaSpec{
		SimpleAbbreviations:    lister(op.S),
		CommandAbbreviations:   lister(op.C),
		SmallWordAbbreviations: lister(op.W),
		QuotePaste:             func() bool { return op.q },
		State:                  tk.CodeAreaState{Buffer: tk.CodeBuffer{Content: op.buf, Dot: op.dot}},
	})
	var out []string
	for _, e := range op.evs {
		ret, panicked := doEvent(w, e)
		if panicked {
			out = append(out, "PANIC")
			break
		}
		st := w.CopyState()
		// In the malformed stream deleting bytes can join fragments into a rune
		// the table (built from the inputs) does not cover; the Lean driver
		// reports the same condition the same way.
		for _, r := range st.Buffer.Content {
			if !covered[r] {
				return "bad-table"
			}
		}
		ins, last, pasting, pb := tk.VerifCodeAreaInternals(w)
		out = append(out, fmt.Sprintf("%v:%s:%d:%s:%s:%d:%v:%s", ret, common.Hex(st.Buffer.Content), st.Buffer.Dot,
			common.Hex(ins), common.Hex(last.Content), last.Dot, pasting, common.Hex(pb)))
	}
	if len(out) == 0 {
		return "-"
	}
	return strings.Join(out, "|")
}

func impl(_ any, f []string) string {
	switch f[0] {
	case "b":
		dot, _ := strconv.Atoi(f[3])
		out, _, _ := applyBuiltin(f[1], common.Unhex(f[2]), dot)
		return out
	case "ball":
		return implBall(common.Unhex(f[1]))
	case "seq":
		return implSeq(f)
	}
	return "bad-op"
}

// ---------------------------------------------------------------------------
// oracle: the property itself, evaluated on the real code

func isBoundary(s string, d int) bool {
	return d >= 0 && d <= len(s) && (d == len(s) || utf8.RuneStart(s[d]))
}

func inQuantifier(s string, d int) bool { return utf8.ValidString(s) && isBoundary(s, d) }

func catWord(r rune) int {
	if unicode.IsSpace(r) {
		return 0
	}
	return 1
}
func catSmall(r rune) int {
	switch {
	case unicode.IsSpace(r):
		return 0
	case unicode.IsLetter(r) || unicode.IsNumber(r):
		return 1
	}
	return 2
}
func catAlnum(r rune) int {
	if unicode.IsLetter(r) || unicode.IsNumber(r) {
		return 1
	}
	return 0
}

// wordStarts: offsets where a word of the flavour begins (a rune of a
// non-whitespace category preceded by nothing or by a rune of another category).
func wordStarts(s string, cat func(rune) int) []int {
	var ws []int
	prev := -1
	for i, r := range s {
		c := cat(r)
		if c != 0 && c != prev {
			ws = append(ws, i)
		}
		prev = c
	}
	return ws
}

func flavour(name string) func(rune) int {
	switch {
	case strings.Contains(name, "small-word"):
		return catSmall
	case strings.Contains(name, "alnum-word"):
		return catAlnum
	case strings.Contains(name, "word"):
		return catWord
	}
	return nil
}

// mover name → the direction/kind; "" if the builtin is not a pure mover
var killOf = map[string]string{
	"kill-rune-left": "move-dot-left", "kill-rune-right": "move-dot-right",
	"kill-word-left": "move-dot-left-word", "kill-word-right": "move-dot-right-word",
	"kill-small-word-left": "move-dot-left-small-word", "kill-small-word-right": "move-dot-right-small-word",
	"kill-alnum-word-left": "move-dot-left-alnum-word", "kill-alnum-word-right": "move-dot-right-alnum-word",
	"kill-line-left": "move-dot-sol", "kill-line-right": "move-dot-eol",
}

func sortedRunes(s string) string {
	rs := []rune(s)
	sort.Slice(rs, func(i, j int) bool { return rs[i] < rs[j] })
	return string(rs)
}

// checkBuiltin evaluates C28 for one builtin on (buf, dot) inside the
// quantifier, given what the real code produced.
func checkBuiltin(name, buf string, dot int, out string, c2 string, d2 int) (string, string) {
	if out == "PANIC" || out == "TIMEOUT" {
		return "builtin-crash", fmt.Sprintf("%s on %q dot=%d: %s", name, buf, dot, out)
	}
	if !utf8.ValidString(c2) {
		return "builtin-invalid-utf8", fmt.Sprintf("%s on %q dot=%d gives %q", name, buf, dot, c2)
	}
	if !isBoundary(c2, d2) {
		return "builtin-dot-off-boundary", fmt.Sprintf("%s on %q dot=%d gives %q dot=%d", name, buf, dot, c2, d2)
	}
	switch {
	case strings.HasPrefix(name, "move-dot-"):
		if c2 != buf {
			return "move-changes-text", fmt.Sprintf("%s on %q dot=%d gives %q", name, buf, dot, c2)
		}
		return checkMove(name, buf, dot, d2)
	case strings.HasPrefix(name, "kill-"):
		_, _, nd := applyBuiltin(killOf[name], buf, dot)
		lo, hi := dot, nd
		if hi < lo {
			lo, hi = hi, lo
		}
		if lo < 0 || hi > len(buf) {
			return "kill-mover-out-of-range", fmt.Sprintf("%s on %q dot=%d: mover gives %d", name, buf, dot, nd)
		}
		if c2 != buf[:lo]+buf[hi:] || d2 != lo {
			return "kill-not-exact", fmt.Sprintf("%s on %q dot=%d (mover → %d) gives %q dot=%d, want %q dot=%d", name, buf, dot, nd, c2, d2, buf[:lo]+buf[hi:], lo)
		}
	case strings.HasPrefix(name, "transpose-"):
		if sortedRunes(c2) != sortedRunes(buf) {
			return "transpose-not-a-permutation", fmt.Sprintf("%s on %q dot=%d gives %q", name, buf, dot, c2)
		}
	}
	return "", ""
}

func checkMove(name, buf string, dot, d2 int) (string, string) {
	fail := func(class string, want any) (string, string) {
		return class, fmt.Sprintf("%s on %q dot=%d gives %d, want %v", name, buf, dot, d2, want)
	}
	bs := boundaries(buf)
	switch name {
	case "move-dot-left":
		want := 0
		for _, b := range bs {
			if b < dot {
				want = b
			}
		}
		if d2 != want {
			return fail("move-left-not-previous-boundary", want)
		}
	case "move-dot-right":
		want := len(buf)
		for i := len(bs) - 1; i >= 0; i-- {
			if bs[i] > dot {
				want = bs[i]
			}
		}
		if d2 != want {
			return fail("move-right-not-next-boundary", want)
		}
	case "move-dot-sol":
		want := strings.LastIndexByte(buf[:dot], '\n') + 1
		if d2 != want {
			return fail("move-sol-wrong", want)
		}
	case "move-dot-eol":
		want := len(buf)
		if i := strings.IndexByte(buf[dot:], '\n'); i >= 0 {
			want = dot + i
		}
		if d2 != want {
			return fail("move-eol-wrong", want)
		}
	case "move-dot-up", "move-dot-down":
		sol := strings.LastIndexByte(buf[:dot], '\n') + 1
		col := wcwidth.Of(buf[sol:dot])
		var lsol, leol int
		if name == "move-dot-up" {
			if sol == 0 {
				if d2 != dot {
					return fail("move-up-on-first-line", dot)
				}
				return "", ""
			}
			leol = sol - 1
			lsol = strings.LastIndexByte(buf[:leol], '\n') + 1
		} else {
			i := strings.IndexByte(buf[dot:], '\n')
			if i < 0 {
				if d2 != dot {
					return fail("move-down-on-last-line", dot)
				}
				return "", ""
			}
			lsol = dot + i + 1
			leol = len(buf)
			if j := strings.IndexByte(buf[lsol:], '\n'); j >= 0 {
				leol = lsol + j
			}
		}
		if d2 < lsol || d2 > leol {
			return fail("move-updown-wrong-line", fmt.Sprintf("in [%d,%d]", lsol, leol))
		}
		if wcwidth.Of(buf[lsol:d2]) > col {
			return fail("move-updown-column-grows", fmt.Sprintf("column ≤ %d", col))
		}
	default:
		cat := flavour(name)
		if cat == nil {
			return "unknown-mover", name
		}
		ws := wordStarts(buf, cat)
		if strings.Contains(name, "left") {
			want := 0
			for _, w := range ws {
				if w < dot {
					want = w
				}
			}
			if d2 != want {
				return fail("word-left-not-word-start", want)
			}
		} else {
			want := len(buf)
			for i := len(ws) - 1; i >= 0; i-- {
				if ws[i] > dot {
					want = ws[i]
				}
			}
			if d2 != want {
				return fail("word-right-not-word-start", want)
			}
		}
	}
	return "", ""
}

func parseOut(out string) (string, int) {
	x := strings.Split(out, " ")
	d, _ := strconv.Atoi(x[1])
	return common.Unhex(x[0]), d
}

type snap struct {
	ret     bool
	content string
	dot     int
}

func parseTrace(out string) (snaps []snap, crashed bool) {
	if out == "-" {
		return nil, false
	}
	for _, rec := range strings.Split(out, "|") {
		if rec == "PANIC" || rec == "TIMEOUT" {
			return snaps, true
		}
		x := strings.Split(rec, ":")
		d, _ := strconv.Atoi(x[2])
		snaps = append(snaps, snap{x[0] == "true", common.Unhex(x[1]), d})
	}
	return snaps, false
}

// explanation of what a graphic key did: plain insertion, or the plain insertion
// with one configured abbreviation replaced by its expansion. typed is the text
// that must have been typed consecutively for the expansion to be legitimate
// ("" = no such requirement: plain insertion; command abbreviations are
// recognised from the buffer text, not from what was typed).
type explanation struct {
	how   string
	typed string
}

// explainKey: after a graphic key, the buffer must be the plain insertion, or
// the plain insertion with exactly one configured abbreviation (ending at the
// dot / just before the typed rune) replaced by its expansion. All candidate
// explanations are returned.
func explainKey(op seqOp, pre snap, r rune, post snap) []explanation {
	var xs []explanation
	s := string(r)
	plain := pre.content[:pre.dot] + s + pre.content[pre.dot:]
	pd := pre.dot + len(s)
	if post.content == plain && post.dot == pd {
		xs = append(xs, explanation{"plain", ""})
	}
	for _, p := range op.S {
		if p.a != "" && strings.HasSuffix(plain[:pd], p.a) &&
			post.content == plain[:pd-len(p.a)]+p.f+plain[pd:] && post.dot == pd-len(p.a)+len(p.f) {
			xs = append(xs, explanation{"simple-abbr", p.a})
		}
	}
	if pd == len(plain) {
		for _, p := range op.C {
			if p.a != "" && p.f != "" && strings.HasSuffix(plain, p.a+s) &&
				post.content == plain[:len(plain)-len(p.a)-len(s)]+p.f+s && post.dot == len(post.content) {
				xs = append(xs, explanation{"command-abbr", ""})
			}
		}
		for _, p := range op.W {
			if p.a != "" && strings.HasSuffix(plain, p.a+s) &&
				post.content == plain[:len(plain)-len(p.a)-len(s)]+p.f+s && post.dot == len(post.content) {
				xs = append(xs, explanation{"small-word-abbr", p.a + s})
			}
		}
	}
	return xs
}

// completesAbbr: would typed (ending with the rune s just typed) make a simple
// or small-word abbreviation of op fire, as far as the typed text is concerned?
func completesAbbr(op seqOp, typed, s string) bool {
	for _, p := range op.S {
		if p.a != "" && strings.HasSuffix(typed, p.a) {
			return true
		}
	}
	for _, p := range op.W {
		if p.a != "" && strings.HasSuffix(typed, p.a+s) {
			return true
		}
	}
	return false
}

func seqInQuantifier(op seqOp) bool {
	if !inQuantifier(op.buf, op.dot) {
		return false
	}
	for _, ps := range [][]pair{op.S, op.C, op.W} {
		for _, p := range ps {
			if !utf8.ValidString(p.a) || !utf8.ValidString(p.f) {
				return false
			}
		}
	}
	return true
}

// walkSeq evaluates the property event by event; visit is told what each
// event did (for the tag histogram).
func walkSeq(op seqOp, out string, visit func(string)) (string, string) {
	snaps, crashed := parseTrace(out)
	cur := snap{true, op.buf, op.dot}
	pasting, pasted := false, ""
	// The oracle's own account of "typed consecutively" (edit:abbr: "typed in
	// full and consecutively, without being interrupted by the use of other
	// editing functionalities, such as cursor movements"): run is the text
	// inserted by the latest graphic keys such that each found the buffer
	// (content and dot) exactly as the previous one had left it. This is the most
	// generous reading (events in between that restore the buffer do not count
	// as an interruption), so "an abbreviation fired ⇒ it is a suffix of run"
	// is a necessary condition only. stale is what was typed by graphic keys
	// since the last event that is not a buffer command, whatever the buffer
	// looked like — used for the tag histogram only.
	run, stale := "", ""
	after, haveRun, lastKey := snap{}, false, -1
	for i, e := range op.evs {
		if i >= len(snaps) {
			if crashed {
				return "codearea-crash", fmt.Sprintf("event #%d (%v) on %q dot=%d panics; start %q dot=%d, earlier events %s", i, e, cur.content, cur.dot, op.buf, op.dot, history(op.evs, i))
			}
			return "codearea-short-trace", ""
		}
		post := snaps[i]
		where := fmt.Sprintf("event #%d (%v) on %q dot=%d gives %q dot=%d; start %q dot=%d, earlier events %s", i, e, cur.content, cur.dot, post.content, post.dot, op.buf, op.dot, history(op.evs, i))
		if !utf8.ValidString(post.content) {
			return "codearea-invalid-utf8", where
		}
		if !isBoundary(post.content, post.dot) {
			return "codearea-dot-off-boundary", where
		}
		unchanged := post.content == cur.content && post.dot == cur.dot
		switch e.kind {
		case 'P':
			pasting, stale = true, ""
			if !unchanged {
				return "paste-start-edits", where
			}
			visit("paste-start")
		case 'p':
			text := pasted
			if op.q {
				text = parse.Quote(pasted)
				visit("paste-quoted")
			} else {
				visit("paste-verbatim")
			}
			if post.content != cur.content[:cur.dot]+text+cur.content[cur.dot:] || post.dot != cur.dot+len(text) {
				return "paste-not-exact", where + fmt.Sprintf(" (pasted %q)", pasted)
			}
			pasting, pasted, stale = false, "", ""
		case 'c':
			visit("builtin")
			if cls, d := checkBuiltin(e.name, cur.content, cur.dot, "", post.content, post.dot); cls != "" {
				return cls, d
			}
		case 'k':
			fn := e.mod != 0 || e.r < 0
			switch {
			case pasting:
				if !fn {
					pasted += string(e.r)
					visit("key-in-paste")
				} else {
					visit("funckey-in-paste")
				}
				if !unchanged {
					return "key-during-paste-edits", where
				}
			case e.mod == 0 && e.r == ui.Backspace, e.mod == int(ui.Ctrl) && e.r == 'H':
				_, n := utf8.DecodeLastRuneInString(cur.content[:cur.dot])
				if post.content != cur.content[:cur.dot-n]+cur.content[cur.dot:] || post.dot != cur.dot-n {
					return "backspace-not-exact", where
				}
				stale = ""
				if n == 0 {
					visit("backspace-at-start")
				} else {
					visit("backspace")
				}
			case fn || e.r == '\n' || !unicode.IsGraphic(e.r):
				if !unchanged {
					return "non-inserting-key-edits", where
				}
				stale = ""
				visit("non-inserting-key")
			default:
				s := string(e.r)
				contiguous := haveRun && cur.content == after.content && cur.dot == after.dot
				if !contiguous {
					run = ""
				} else if lastKey != i-1 {
					visit("key-run-resumed")
				}
				typed := run + s
				if !contiguous && !completesAbbr(op, typed, s) && completesAbbr(op, stale+s, s) {
					visit("abbr-across-interruption")
				}
				xs := explainKey(op, cur, e.r, post)
				if len(xs) == 0 {
					return "key-insert-not-exact", where
				}
				how := ""
				for _, x := range xs {
					if strings.HasSuffix(typed, x.typed) {
						how = x.how
						break
					}
				}
				if how == "" {
					return "abbr-fired-not-typed-consecutively", where + fmt.Sprintf(" (%s of %q, but only %q was typed consecutively)", xs[0].how, xs[0].typed, typed)
				}
				visit("key-" + how)
				if how == "plain" {
					run, stale = typed, stale+s
					after, haveRun, lastKey = post, true, i
				} else {
					run, stale, haveRun = "", "", false
				}
			}
		}
		cur = post
	}
	return "", ""
}

func oracle(_ any, f []string, out string) (string, string) {
	switch f[0] {
	case "b":
		buf := common.Unhex(f[2])
		dot, _ := strconv.Atoi(f[3])
		if !inQuantifier(buf, dot) {
			return "", "" // outside the property's quantifier
		}
		c2, d2 := "", 0
		if out != "PANIC" && out != "TIMEOUT" {
			c2, d2 = parseOut(out)
		}
		return checkBuiltin(f[1], buf, dot, out, c2, d2)
	case "ball":
		buf := common.Unhex(f[1])
		if out == "PANIC" || out == "TIMEOUT" {
			return "builtin-crash", out
		}
		res := strings.Split(out, ";")
		k := 0
		for _, d := range boundaries(buf) {
			for _, n := range names {
				o := res[k]
				k++
				c2, d2 := "", 0
				if o != "PANIC" {
					c2, d2 = parseOut(o)
				}
				if cls, det := checkBuiltin(n, buf, d, o, c2, d2); cls != "" {
					return cls, det
				}
			}
		}
	case "seq":
		op := decSeq(f)
		if !seqInQuantifier(op) {
			return "", ""
		}
		if out == "bad-table" {
			// cannot happen for valid inputs (every rune of every intermediate
			// buffer comes from the inputs); if it does the harness is wrong
			return "harness-table-miss", "a rune of an intermediate buffer is missing from the op's table"
		}
		return walkSeq(op, out, func(string) {})
	}
	return "", ""
}

// ---------------------------------------------------------------------------
// tags

func tagB(name, buf string, dot int, out string) string {
	if out == "PANIC" {
		return "b:panic(" + kind(name) + ")"
	}
	if !inQuantifier(buf, dot) {
		return "b:malformed(" + kind(name) + ")"
	}
	c2, d2 := parseOut(out)
	switch {
	case c2 == buf && d2 == dot:
		return "b:" + name + ":no-op"
	case c2 == buf && d2 < dot:
		return "b:" + name + ":dot-left"
	case c2 == buf:
		return "b:" + name + ":dot-right"
	case len(c2) < len(buf):
		return "b:" + name + ":deleted"
	}
	return "b:" + name + ":reordered"
}

func kind(name string) string {
	return name[:strings.IndexByte(name, '-')]
}

var rank = []string{"abbr-across-interruption", "key-small-word-abbr", "key-command-abbr", "key-simple-abbr", "key-run-resumed", "paste-quoted", "paste-verbatim",
	"funckey-in-paste", "backspace-at-start", "backspace", "non-inserting-key", "builtin", "key-in-paste", "paste-start", "key-plain"}

func tag(f []string, out string) string {
	switch f[0] {
	case "b":
		dot, _ := strconv.Atoi(f[3])
		return tagB(f[1], common.Unhex(f[2]), dot, out)
	case "ball":
		if f[1] == "-" {
			return ""
		}
		return "ball:exhaustive"
	case "seq":
		op := decSeq(f)
		if out == "bad-table" {
			return "seq:table-miss(malformed)"
		}
		if strings.Contains(out, "PANIC") {
			return "seq:panic"
		}
		if !seqInQuantifier(op) {
			return "seq:malformed"
		}
		seen := map[string]bool{}
		walkSeq(op, out, func(s string) { seen[s] = true })
		for _, r := range rank {
			if seen[r] {
				return "seq:" + r
			}
		}
		return ""
	}
	return ""
}

func run(c *common.Ctx) error {
	depth := c.Scale(4, 6)
	s := &common.Std{
		Rule: fmt.Sprintf("ball: every buffer of ≤%d symbols over {a, é, 世, U+0301, space, \\n, -, 1} × every boundary dot × all 26 builtins (one op per buffer); "+
			"b: random buffers (letters, digits, punctuation, wide, combining, NBSP/ideographic space, newlines) × random boundary dot × random builtin, plus a malformed stream (invalid UTF-8, dots off boundary / out of range); "+
			"seq: random key/paste/builtin event sequences on a headless tk.CodeArea with simple/command/small-word abbreviations and QuotePaste configured (plus malformed configurations); "+
			"seq (interrupted typing): 12 abbreviations × every split point × 47 interruptions (each builtin, mover pairs, pastes, non-inserting keys) × 7 buffers, plus random ones; "+
			"non-trivial = everything but the empty buffer; distinct by op line", depth),
		ExhaustiveNote: fmt.Sprintf("buffers ≤%d symbols over an 8-symbol alphabet × all boundary dots × all 26 builtins", depth),
		Gen:            gen,
		Impl:           impl,
		Oracle:         oracle,
		Tag:            tag,
	}
	return s.Run(c)
}
