// Package c32: trace-refinement tie and oracle for C32 (pkg/cli/loop.go, the
// editor event loop).
//
// Gen runs the REAL loop (built with -tags verif, instrumented by
// hooks/C32-loop-trace.patch) under random concurrent producers and turns each
// recorded run into a history of op lines:
//
//	reset <capIn> <capRedraw> <capRet> <description>
//	t <label> <a> <b>        one entry written by the hook inside loop.go
//	o <what> …               one observation written by the harness itself
//	                         (producer call begin/end, callback begin/end, …)
//	end                      end of the run
//	hang <why>               the run did not finish
//
// The Lean driver replays the `t` lines through the model's `step` (tolerant
// acceptor, lean/ElvModel/C32/Accept.lean) and must print `ok` for each; at
// `end` it prints the handled events, redraw flags and result held in the
// model's ghost log, which must equal what the callbacks of the real run saw.
// The oracle evaluates the property on the harness-side observations only
// (`o` lines), independently of the model and of the in-loop hook.
package c32

import (
	"fmt"
	"runtime"
	"strconv"
	"strings"
	"sync"
	"sync/atomic"
	"time"

	"src.elv.sh/pkg/cli"
	"verifharness/common"
)

func init() { common.Register("C32", run) }

// ---------------------------------------------------------------- scenarios

type action struct {
	kind  byte // 'R' redraw, 'I' input, 'T' return
	full  bool
	pause int // 0 none, 1 Gosched, >1 sleep (pause-1) µs
}

type scenario struct {
	kind       string // settle | race | flood | pre | storm | conc | lone
	seed       uint64
	gomaxprocs int
	producers  [][]action
	pre        []action // issued sequentially before Run starts
	// callback behaviour
	handlerRedrawMod int // handler calls Redraw when ev%mod == 0 (0 = never)
	handlerReturnMod int // handler calls Return when ev%mod == 0 (0 = never)
	handlerPause     int // like action.pause, applied on some events
	redrawPause      int
	redrawInRedraw   bool // the redraw callback itself requests a redraw once
	// serialInputs: producers never have two Input calls in flight at once.
	// The relative order of two overlapping sends is not observable until both
	// events are received, so overlapping sends multiply the acceptor's
	// candidate set; only the small "conc" runs leave Input calls unserialised.
	serialInputs bool
	jitter       uint32 // cli.VerifTraceJitter: one in `jitter` hook calls yields before logging
}

func (s *scenario) describe() string {
	n := 0
	for _, p := range s.producers {
		n += len(p)
	}
	return fmt.Sprintf("%s/seed=%d/procs=%d/producers=%d/actions=%d/pre=%d/jitter=%d", s.kind, s.seed, s.gomaxprocs, len(s.producers), n, len(s.pre), s.jitter)
}

func genPause(r *common.Rand) int {
	switch r.Intn(10) {
	case 0, 1:
		return 1
	case 2:
		return 2 + r.Intn(40)
	}
	return 0
}

func genScenario(r *common.Rand, kind string, seed uint64) *scenario {
	s := &scenario{kind: kind, seed: seed, serialInputs: kind != "conc"}
	s.gomaxprocs = common.Pick(r, []int{1, 1, 2, 2, 3, 4, 8, 16})
	s.jitter = common.Pick(r, []uint32{0, 0, 2, 3, 7})
	np := r.Range(1, 8)
	budgetInputs := 120 // a run that may return early never blocks a producer on a full buffer
	mk := func(weights [3]int, n int) []action {
		var as []action
		for i := 0; i < n; i++ {
			x := r.Intn(weights[0] + weights[1] + weights[2])
			a := action{pause: genPause(r)}
			switch {
			case x < weights[0]:
				a.kind, a.full = 'R', r.Chance(2, 5)
			case x < weights[0]+weights[1]:
				a.kind = 'I'
			default:
				a.kind = 'T'
			}
			if a.kind == 'I' && kind != "flood" {
				if budgetInputs == 0 {
					a.kind, a.full = 'R', r.Bool()
				} else {
					budgetInputs--
				}
			}
			as = append(as, a)
		}
		return as
	}
	switch kind {
	case "settle":
		for p := 0; p < np; p++ {
			s.producers = append(s.producers, mk([3]int{3, 4, 0}, r.Range(1, 25)))
		}
		if r.Chance(1, 2) {
			s.handlerRedrawMod = r.Range(2, 6)
		}
	case "race":
		for p := 0; p < np; p++ {
			s.producers = append(s.producers, mk([3]int{3, 5, 1}, r.Range(1, 25)))
		}
		if r.Chance(1, 2) {
			s.handlerRedrawMod = r.Range(2, 6)
		}
		if r.Chance(1, 2) {
			s.handlerReturnMod = r.Range(3, 17)
		}
	case "flood":
		np = r.Range(1, 3)
		for p := 0; p < np; p++ {
			as := mk([3]int{1, 12, 0}, r.Range(100, 220))
			for i := range as {
				if r.Chance(9, 10) {
					as[i].pause = 0
				}
			}
			s.producers = append(s.producers, as)
		}
	case "pre":
		s.pre = mk([3]int{3, 4, 1}, r.Range(1, 8))
		for p := 0; p < r.Range(0, 3); p++ {
			s.producers = append(s.producers, mk([3]int{3, 4, 1}, r.Range(1, 10)))
		}
	case "lone":
		// one request arriving while the loop sits idle at its select: nothing
		// else will trigger a redraw, so it must be served on its own merits
		np = 1
		s.producers = [][]action{{{kind: 'R', full: r.Chance(3, 4), pause: 2 + r.Range(60, 200)}}}
		if r.Chance(1, 3) {
			s.producers[0] = append(s.producers[0], action{kind: 'R', full: r.Bool(), pause: genPause(r)})
		}
		if s.jitter == 0 {
			s.jitter = 2
		}
	case "conc":
		budgetInputs = 8
		np = r.Range(2, 4)
		for p := 0; p < np; p++ {
			as := mk([3]int{2, 5, 1}, r.Range(2, 8))
			for i := range as {
				if r.Chance(4, 5) {
					as[i].pause = 0
				}
			}
			s.producers = append(s.producers, as)
		}
	case "storm":
		for p := 0; p < np; p++ {
			as := mk([3]int{12, 1, 0}, r.Range(10, 60))
			for i := range as {
				if r.Chance(4, 5) {
					as[i].pause = 0
				}
			}
			s.producers = append(s.producers, as)
		}
		s.redrawInRedraw = r.Chance(1, 3)
	}
	if r.Chance(1, 3) {
		s.handlerPause = genPause(r)
	}
	if r.Chance(1, 3) {
		s.redrawPause = genPause(r)
	}
	return s
}

func doPause(p int) {
	switch {
	case p == 1:
		runtime.Gosched()
	case p > 1:
		time.Sleep(time.Duration(p-1) * time.Microsecond)
	}
}

// ---------------------------------------------------------------- running

type entry struct {
	hook bool // written by the hook inside loop.go
	f    []string
}

func argStr(a any) string {
	switch v := a.(type) {
	case bool:
		if v {
			return "1"
		}
		return "0"
	case string:
		if v == "" {
			return "-"
		}
		return v
	default:
		return fmt.Sprint(v)
	}
}

// runScenario executes one scenario on the real loop and returns the unified
// trace; hang != "" when the run did not finish.
func runScenario(s *scenario) (caps [3]int, trace []entry, hang string) {
	old := runtime.GOMAXPROCS(s.gomaxprocs)
	defer runtime.GOMAXPROCS(old)

	var lp *cli.VerifLoop
	var callID, retID atomic.Int64
	var nSent, nHandled atomic.Int64
	var lastReq, lastFullReq, lastDraw, lastFullDraw atomic.Int64
	lastReq.Store(-1)
	lastFullReq.Store(-1)
	lastDraw.Store(-1)
	lastFullDraw.Store(-1)
	retID.Store(900000)
	storeMax := func(a *atomic.Int64, v int64) {
		for {
			o := a.Load()
			if v <= o || a.CompareAndSwap(o, v) {
				return
			}
		}
	}
	// at most 3 producer calls overlap: bounds the acceptor's ambiguity
	sem := make(chan struct{}, 3)
	var inMu sync.Mutex
	call := func(prod int, a action, ev int, fromLoop bool) {
		if !fromLoop && a.kind == 'I' && s.serialInputs {
			inMu.Lock()
			defer inMu.Unlock()
		}
		if !fromLoop {
			sem <- struct{}{}
			defer func() { <-sem }()
		}
		id := callID.Add(1)
		switch a.kind {
		case 'R':
			idx := cli.VerifTraceAdd("pb", id, "R", a.full, prod)
			storeMax(&lastReq, int64(idx))
			if a.full {
				storeMax(&lastFullReq, int64(idx))
			}
			lp.Redraw(a.full)
		case 'I':
			nSent.Add(1)
			cli.VerifTraceAdd("pb", id, "I", ev, prod)
			lp.Input(ev)
		case 'T':
			r := retID.Add(1)
			cli.VerifTraceAdd("pb", id, "T", r, prod)
			lp.Return(strconv.FormatInt(r, 10), nil)
		}
		cli.VerifTraceAdd("pe", id)
	}
	redrawnInRedraw := false
	handle := func(e any) {
		ev := e.(int)
		cli.VerifTraceAdd("cbh", ev)
		if s.handlerPause != 0 && ev%3 == 0 {
			doPause(s.handlerPause)
		}
		if s.handlerRedrawMod != 0 && ev%s.handlerRedrawMod == 0 {
			call(0, action{kind: 'R', full: ev%2 == 0}, 0, true)
		}
		if s.handlerReturnMod != 0 && ev%s.handlerReturnMod == 0 {
			call(0, action{kind: 'T'}, 0, true)
		}
		nHandled.Add(1) // after the handler's own requests, so that "all handled" implies they are counted
		cli.VerifTraceAdd("cbhe")
	}
	redraw := func(flag uint) {
		idx := cli.VerifTraceAdd("cbd", flag)
		if flag&cli.VerifFinalRedraw == 0 {
			storeMax(&lastDraw, int64(idx))
			if flag&cli.VerifFullRedraw != 0 {
				storeMax(&lastFullDraw, int64(idx))
			}
		}
		doPause(s.redrawPause)
		if s.redrawInRedraw && !redrawnInRedraw && flag&cli.VerifFinalRedraw == 0 {
			redrawnInRedraw = true
			call(11, action{kind: 'R', full: true}, 0, true)
		}
		cli.VerifTraceAdd("cbde")
	}

	cli.VerifTraceReset()
	cli.VerifTraceJitter(s.jitter)
	defer cli.VerifTraceJitter(0)
	lp = cli.NewLoopForVerif(handle, redraw)
	caps[0], caps[1], caps[2] = lp.Caps()
	evOf := func(prod, k int) int { return prod*100000 + k + 1 }
	for k, a := range s.pre {
		call(9, a, evOf(9, k), true)
	}
	done := make(chan struct{})
	go func() {
		buf, err := lp.Run()
		cli.VerifTraceAdd("runend", buf, err == nil)
		close(done)
	}()
	var wg sync.WaitGroup
	for p, as := range s.producers {
		wg.Add(1)
		go func(p int, as []action) {
			defer wg.Done()
			for k, a := range as {
				doPause(a.pause)
				call(p+1, a, evOf(p+1, k), false)
			}
		}(p, as)
	}
	waitCh := make(chan struct{})
	go func() { wg.Wait(); close(waitCh) }()
	select {
	case <-waitCh:
	case <-time.After(5 * time.Second):
		hang = "producers-blocked"
	}
	if hang == "" {
		if s.kind == "settle" || s.kind == "flood" || s.kind == "storm" || s.kind == "lone" {
			// No Return has been issued: the loop must serve every request and
			// handle every event by itself.  Wait for that, then ask it to return.
			deadline := time.Now().Add(1500 * time.Millisecond)
			why := ""
			for spins := 0; ; spins++ {
				why = ""
				switch {
				case nHandled.Load() != nSent.Load():
					why = "event-not-handled"
				case lastReq.Load() >= 0 && lastDraw.Load() <= lastReq.Load():
					why = "redraw-lost"
				case lastFullReq.Load() >= 0 && lastFullDraw.Load() <= lastFullReq.Load():
					why = "full-redraw-lost"
				}
				if why == "" || time.Now().After(deadline) {
					break
				}
				if spins < 200 {
					runtime.Gosched()
				} else {
					time.Sleep(20 * time.Microsecond)
				}
			}
			if why == "" {
				cli.VerifTraceAdd("settled")
			} else {
				cli.VerifTraceAdd("stall", why)
			}
		}
		call(10, action{kind: 'T'}, 0, true)
		select {
		case <-done:
		case <-time.After(3 * time.Second):
			hang = "run-did-not-return"
		}
	}
	for _, e := range cli.VerifTraceGet() {
		switch e.Label {
		case "pb", "pe", "cbh", "cbhe", "cbd", "cbde", "runend", "settled", "stall":
			f := []string{"o", e.Label}
			for _, a := range e.Args {
				f = append(f, argStr(a))
			}
			trace = append(trace, entry{false, f})
		default:
			f := []string{"t", e.Label, "-", "-"}
			for i, a := range e.Args {
				if i < 2 {
					f[2+i] = argStr(a)
				}
			}
			trace = append(trace, entry{true, f})
		}
	}
	return
}

// ---------------------------------------------------------------- harness

type runState struct {
	lines [][]string // op lines since the last reset
	desc  string
}

func run(c *common.Ctx) error {
	s := &common.Std{
		Rule: "each history is one run of the real loop (go build -tags verif) under 1..8 random concurrent producer goroutines " +
			"issuing Redraw(full?)/Input/Return with seeded tiny sleeps and Gosched, callbacks that themselves call Redraw/Return, " +
			"GOMAXPROCS drawn from {1,2,3,4,8,16}; scenario kinds settle|race|flood|pre|storm|lone|conc (Input calls of different producers overlap only in conc runs); one op per recorded trace entry; " +
			"non-trivial = a hook entry or an observation; distinct by op line",
		ExhaustiveNote: "schedules are sampled, not enumerated (the enumeration over all interleavings is the Lean proof)",
		Gen:            gen,
		NewState:       func(*common.Ctx) any { return &runState{} },
		Impl:           impl,
		Oracle:         oracle,
		Tag:            tag,
		Timeout:        60 * time.Second,
	}
	return s.Run(c)
}

func gen(c *common.Ctx, emit func(...string)) {
	n := c.Scale(260, 6000)
	kinds := []string{"settle", "conc", "race", "lone", "conc", "pre", "storm", "flood"}
	failures := 0
	for i := 0; i < n && failures < 3; i++ {
		kind := kinds[i%len(kinds)]
		if kind == "flood" && i%16 != 7 && !c.Thorough() {
			kind = "settle"
		}
		seed := c.Rand.U64()
		sc := genScenario(common.NewRand(seed), kind, seed)
		caps, trace, hang := runScenario(sc)
		emit("reset", strconv.Itoa(caps[0]), strconv.Itoa(caps[1]), strconv.Itoa(caps[2]), sc.describe())
		for _, e := range trace {
			emit(e.f...)
			if !e.hook && e.f[1] == "stall" {
				failures++
			}
		}
		if hang != "" {
			emit("hang", hang)
			failures++
		} else {
			emit("end", "x")
		}
	}
}

// impl: the real code already ran (in gen, or in the recorded history being
// replayed); a `t`/`o` line is a fact about that run. `end` reports what the
// callbacks of the real run saw.
func impl(st any, f []string) string {
	rs := st.(*runState)
	switch f[0] {
	case "reset":
		rs.lines = rs.lines[:0]
		rs.desc = f[len(f)-1]
		return "ok"
	case "t", "o":
		rs.lines = append(rs.lines, f)
		return "ok"
	case "hang":
		rs.lines = append(rs.lines, f)
		return "HANG " + f[1]
	case "end":
		var h, d []string
		r := "-"
		for _, l := range rs.lines {
			if l[0] != "o" {
				continue
			}
			switch l[1] {
			case "cbh":
				h = append(h, l[2])
			case "cbd":
				d = append(d, l[2])
			case "runend":
				r = l[2]
			}
		}
		j := func(x []string) string {
			if len(x) == 0 {
				return "-"
			}
			return strings.Join(x, ",")
		}
		return fmt.Sprintf("end h=%s d=%s r=%s", j(h), j(d), r)
	}
	return "bad-op"
}

type callInfo struct {
	kind     string
	arg      string
	prod     string
	beg, end int // indices into the observation sequence; end = -1 if the call never ended
}

// oracle evaluates C32's statement on the harness-side observations of one run.
func oracle(st any, f []string, out string) (string, string) {
	rs := st.(*runState)
	if f[0] == "hang" {
		return "loop-hang", f[1] + " in " + rs.desc
	}
	if f[0] != "end" {
		return "", ""
	}
	calls := map[string]*callInfo{}
	var order []*callInfo
	evCall := map[string]*callInfo{} // Input call by event
	type cb struct {
		kind string // h | d
		arg  string
		idx  int
	}
	var cbs []cb
	open := false
	settledAt, finalAt, runEnd := -1, -1, -1
	runRet := ""
	nFinal := 0
	for i, l := range rs.lines {
		if l[0] != "o" {
			continue
		}
		switch l[1] {
		case "pb":
			ci := &callInfo{kind: l[3], arg: l[4], prod: l[5], beg: i, end: -1}
			calls[l[2]] = ci
			order = append(order, ci)
			if ci.kind == "I" {
				if evCall[ci.arg] != nil {
					return "harness-bug", "event sent twice: " + ci.arg
				}
				evCall[ci.arg] = ci
			}
		case "pe":
			if ci := calls[l[2]]; ci != nil {
				ci.end = i
			}
		case "cbh", "cbd":
			// serial: never two callbacks at once
			if open {
				return "callbacks-overlap", fmt.Sprintf("callback %s %s began at entry %d inside another callback", l[1], l[2], i)
			}
			if runEnd >= 0 {
				return "callback-after-return", fmt.Sprintf("callback %s at entry %d after Run returned", l[1], i)
			}
			open = true
			cbs = append(cbs, cb{l[1][2:], l[2], i})
			if l[1] == "cbd" {
				fl, _ := strconv.Atoi(l[2])
				if fl&int(cli.VerifFinalRedraw) != 0 {
					nFinal++
					finalAt = i
				}
			}
		case "cbhe", "cbde":
			if !open {
				return "callbacks-overlap", fmt.Sprintf("callback end at entry %d without a begin", i)
			}
			open = false
		case "settled":
			settledAt = i
		case "stall":
			// the loop was given 1.5 s with no Return pending and did not serve everything
			return l[2], "after all producers finished and with no Return issued the loop did not do it within 1.5s; " + rs.desc
		case "runend":
			runEnd = i
			runRet = l[2]
		}
	}
	if open {
		return "callbacks-overlap", "a callback never ended"
	}
	// --- events are handled one at a time, in arrival order
	pos := map[string]int{}
	var handledSeq []*callInfo
	for _, c := range cbs {
		if c.kind != "h" {
			continue
		}
		ci := evCall[c.arg]
		if ci == nil || ci.beg > c.idx {
			return "event-invented", fmt.Sprintf("handler got event %s which was not sent before", c.arg)
		}
		if _, dup := pos[c.arg]; dup {
			return "event-duplicated", "handler got event " + c.arg + " twice"
		}
		pos[c.arg] = len(handledSeq)
		handledSeq = append(handledSeq, ci)
	}
	// a's Input call ended before b's began  ⇒  a arrived before b
	for _, b := range handledSeq {
		for _, a := range order {
			if a.kind != "I" || a.end < 0 || a.end >= b.beg {
				continue
			}
			pa, ok := pos[a.arg]
			if !ok {
				return "event-skipped", fmt.Sprintf("event %s (producer %s) handled although the earlier event %s (producer %s) never was", b.arg, b.prod, a.arg, a.prod)
			}
			if pa > pos[b.arg] {
				return "event-order", fmt.Sprintf("event %s (producer %s) handled before the earlier event %s (producer %s)", b.arg, b.prod, a.arg, a.prod)
			}
		}
	}
	// --- the final redraw: exactly one, and it is the last callback
	if runEnd < 0 {
		return "loop-hang", "no runend observation"
	}
	if nFinal != 1 {
		return "final-redraw-count", fmt.Sprintf("%d final redraws in a run that returned", nFinal)
	}
	if last := cbs[len(cbs)-1]; last.idx != finalAt {
		return "final-redraw-not-last", fmt.Sprintf("callback %s %s at entry %d after the final redraw", last.kind, last.arg, last.idx)
	}
	for _, c := range cbs {
		if c.kind == "d" && c.idx == finalAt && c.arg != strconv.Itoa(int(cli.VerifFinalRedraw)) {
			return "final-redraw-flag", "final redraw carries flag " + c.arg
		}
	}
	// --- the loop returns the first committed result
	var retCall *callInfo
	for _, c := range order {
		if c.kind == "T" && c.arg == runRet {
			retCall = c
		}
	}
	if retCall == nil || retCall.beg > runEnd {
		return "return-invented", "Run returned " + runRet + " which no Return call before it supplied"
	}
	for _, c := range order {
		// a Return call that had ended before the winning call began was either
		// committed (then it is the first) or dropped because an even earlier one was
		if c.kind == "T" && c != retCall && c.end >= 0 && c.end < retCall.beg {
			return "return-not-first", fmt.Sprintf("Run returned %s although Return(%s) had completed before that call began", runRet, c.arg)
		}
	}
	// --- every redraw request is followed by a redraw that starts after it
	for _, c := range order {
		if c.kind != "R" {
			continue
		}
		anyAfter, ordinaryAfter, fullAfter := false, false, false
		for _, d := range cbs {
			if d.kind != "d" || d.idx < c.beg {
				continue
			}
			anyAfter = true
			fl, _ := strconv.Atoi(d.arg)
			if fl&int(cli.VerifFinalRedraw) == 0 {
				ordinaryAfter = true
				if fl&int(cli.VerifFullRedraw) != 0 {
					fullAfter = true
				}
			}
		}
		if !anyAfter && c.beg < finalAt {
			return "redraw-lost", fmt.Sprintf("Redraw call at entry %d followed by no redraw", c.beg)
		}
		if settledAt >= 0 && c.beg < settledAt && c.prod != "11" {
			// no Return was issued before `settled`: the loop cannot have returned
			if !ordinaryAfter {
				return "redraw-lost", fmt.Sprintf("Redraw call at entry %d followed by no redraw before any Return was issued", c.beg)
			}
			if c.arg == "1" && !fullAfter {
				return "full-redraw-lost", fmt.Sprintf("Redraw(true) call at entry %d followed by no full redraw before any Return was issued", c.beg)
			}
		}
	}
	return "", ""
}

// tagState lets tag report where the recorded order of two entries differs
// from the order in which the operations must have committed (the cases the
// acceptor's tolerance exists for).
var tagState struct {
	recv     map[string]bool // events / results the loop has already logged as received
	ended    map[string]bool // I2 / T2 seen
	inRedraw bool            // between R1 and R2
}

func tag(f []string, out string) string {
	switch f[0] {
	case "reset":
		tagState.recv, tagState.ended, tagState.inRedraw = map[string]bool{}, map[string]bool{}, false
		return "run:" + strings.SplitN(f[len(f)-1], "/", 2)[0]
	case "t":
		switch f[1] {
		case "R1":
			tagState.inRedraw = true
		case "R2":
			tagState.inRedraw = false
			return f[1] + ":" + f[2]
		case "X":
			return f[1] + ":" + f[2]
		case "ST":
			if tagState.inRedraw {
				return "ST:logged-inside-Redraw-window"
			}
		case "SI", "PI":
			tagState.recv["e"+f[2]] = true
			if !tagState.ended["e"+f[2]] {
				return f[1] + ":logged-before-I2"
			}
		case "SR", "PR":
			tagState.recv["r"+f[2]] = true
			if !tagState.ended["r"+f[2]] {
				return f[1] + ":logged-before-T2"
			}
		case "I2":
			tagState.ended["e"+f[2]] = true
		case "T2":
			tagState.ended["r"+f[2]] = true
			return f[1] + ":" + f[3]
		case "D1":
			return "D1:flag" + f[2]
		}
		return f[1]
	case "o":
		if f[1] == "stall" {
			return "o:stall"
		}
		return ""
	case "end":
		return "end"
	case "hang":
		return "hang"
	}
	return ""
}
