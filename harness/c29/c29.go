// Package c29: correspondence and oracle for C29 (pkg/cli/histutil: hybrid
// store, dedup cursor) on a real bbolt store.
package c29

import (
	"fmt"
	"os"
	"path/filepath"
	"strconv"
	"strings"

	"src.elv.sh/pkg/cli/histutil"
	"src.elv.sh/pkg/store"
	"src.elv.sh/pkg/store/storedefs"
	"verifharness/common"
)

func init() { common.Register("C29", run) }

type state struct {
	root string
	n    int
	path string
	db   store.DBStore
	hs   histutil.Store
	cur  histutil.Cursor
	ref  *ref
	tag  string
}

func (s *state) reset() {
	if s.db != nil {
		s.db.Close()
		os.Remove(s.path)
	}
	s.n++
	s.path = filepath.Join(s.root, fmt.Sprintf("db%d", s.n))
	db, err := store.NewStore(s.path)
	if err != nil {
		panic("cannot open store: " + err.Error())
	}
	s.db, s.hs, s.cur = db, nil, nil
	s.ref = &ref{}
}

func run(c *common.Ctx) error {
	base := ""
	if fi, err := os.Stat("/dev/shm"); err == nil && fi.IsDir() {
		base = "/dev/shm"
	}
	root, err := os.MkdirTemp(base, "verif-c29-db-")
	if err != nil {
		return err
	}
	defer os.RemoveAll(root)
	st := &state{root: root}
	defer func() {
		if st.db != nil {
			st.db.Close()
		}
	}()
	nh := c.Scale(1500, 40000)
	s := &common.Std{
		Rule: fmt.Sprintf("%d random histories on a fresh bbolt file each: stored commands (with deletions) before the session, "+
			"histutil.NewHybridStore, session additions, concurrent additions straight to the database after session start, "+
			"cursors with random prefixes with and without NewDedupCursor, random walks (runs of Prev, runs of Next, mixed) "+
			"with additions in between; also the database-less memStore; sessions of 1030-2200 additions walked end to end; non-trivial = tagged branch", nh),
		NewState: func(c *common.Ctx) any { st.reset(); return st },
		Gen:      func(c *common.Ctx, emit func(...string)) { gen(c, emit, nh) },
		Impl:     impl,
		Oracle:   oracle,
		Tag:      func(f []string, out string) string { return st.tag },
	}
	return s.Run(c)
}

// ---------------------------------------------------------------- generator

var texts = []string{"", "e", "echo", "echo a", "echo b", "echo a", "echo a b", "ls", "ls -l", "ls", "l", "cd /tmp", "cd /",
	"\x00", "\xff\xfe", "é", "put 1\nput 2", " ", "echo", "ls"}

func randText(r *common.Rand) string {
	if r.Chance(1, 12) {
		b := make([]byte, r.Intn(4))
		for i := range b {
			b[i] = byte(r.Intn(256))
		}
		return string(b)
	}
	return common.Pick(r, texts)
}

func randPrefix(r *common.Rand) string {
	switch r.Intn(10) {
	case 0, 1, 2, 3:
		return ""
	case 4, 5, 6:
		return common.Pick(r, []string{"e", "ec", "echo", "echo ", "echo a", "l", "ls", "c", "cd /"})
	case 7:
		t := common.Pick(r, texts)
		return t[:r.Intn(len(t)+1)]
	case 8:
		return common.Pick(r, []string{"zz", "\xff", "echo a b c"})
	}
	return common.Pick(r, texts)
}

// longSession: one session that adds far more commands than any bound a
// store might put on what it keeps in memory, then walks all the way back and
// all the way forward.
func longSession(c *common.Ctx, emit func(...string), adds int, nilDB bool, dedup string) {
	r := c.Rand
	emit("reset")
	stored := 0
	if nilDB {
		emit("session-nil")
	} else {
		for ; stored < 3; stored++ {
			emit("store", common.Hex(fmt.Sprintf("echo stored %d", stored)))
		}
		emit("session")
	}
	for i := 0; i < adds; i++ {
		t := fmt.Sprintf("echo session %d", i)
		if r.Chance(1, 10) {
			t = "ls"
		}
		emit("add", common.Hex(t), "-1")
		if !nilDB && r.Chance(1, 200) {
			emit("store", common.Hex(fmt.Sprintf("echo other %d", i)))
		}
	}
	emit("cursor", common.Hex(common.Pick(r, []string{"", "echo ", "echo session 1"})), dedup)
	for i := 0; i < adds+stored+3; i++ {
		emit("prev")
		if i%97 == 0 {
			emit("get")
		}
	}
	for i := 0; i < adds+stored+3; i++ {
		emit("next")
	}
	emit("all")
}

func gen(c *common.Ctx, emit func(...string), nh int) {
	r := c.Rand
	for k := c.Scale(2, 12); k > 0; k-- {
		longSession(c, emit, r.Range(1030, 2200), k%3 == 2, strconv.Itoa(k%2))
	}
	for h := 0; h < nh; h++ {
		emit("reset")
		nilDB := r.Chance(1, 12)
		stored := 0
		if !nilDB {
			n := r.Intn(25)
			if r.Chance(1, 6) {
				n = 0
			}
			for i := 0; i < n; i++ {
				emit("store", common.Hex(randText(r)))
				stored++
				if r.Chance(1, 8) {
					emit("sdel", strconv.Itoa(r.Range(0, stored+1)))
				}
			}
			emit("session")
		} else {
			emit("session-nil")
		}
		addSome := func(k int) {
			for ; k > 0; k-- {
				switch {
				case !nilDB && r.Chance(1, 3):
					emit("store", common.Hex(randText(r))) // another session adds to the database
				case nilDB && r.Chance(1, 4):
					emit("add", common.Hex(randText(r)), strconv.Itoa(r.Range(0, 50)))
				default:
					emit("add", common.Hex(randText(r)), "-1")
				}
			}
		}
		addSome(r.Intn(12))
		for k := r.Range(1, 4); k > 0; k-- {
			d := "0"
			if r.Chance(1, 2) {
				d = "1"
			}
			emit("cursor", common.Hex(randPrefix(r)), d)
			if r.Chance(1, 3) {
				emit("get")
			}
			steps := r.Range(1, 40)
			mode := r.Intn(4)
			for i := 0; i < steps; i++ {
				var back bool
				switch mode {
				case 0: // all the way back, then all the way forward
					back = i < steps*2/3
				case 1:
					back = r.Chance(2, 3)
				case 2:
					back = r.Bool()
				default: // the editor's pattern: step, and undo the step on end of history
					back = r.Chance(3, 5)
				}
				if back {
					emit("prev")
				} else {
					emit("next")
				}
				if r.Chance(1, 15) {
					addSome(1) // the history grows during the walk; this cursor's view is frozen
				}
				if r.Chance(1, 10) {
					emit("get")
				}
			}
			if r.Chance(1, 2) {
				addSome(r.Intn(4))
			}
		}
		emit("all")
	}
}

// ------------------------------------------------------------ implementation

func showCmd(c storedefs.Cmd) string { return strconv.Itoa(c.Seq) + ":" + common.Hex(c.Text) }

func showGet(c histutil.Cursor) string {
	cmd, err := c.Get()
	switch {
	case err == nil:
		return showCmd(cmd)
	case err == histutil.ErrEndOfHistory:
		return "EOH"
	}
	return "ERR " + err.Error()
}

func impl(sta any, f []string) string {
	s := sta.(*state)
	switch f[0] {
	case "reset":
		s.reset()
		return "ok"
	case "store":
		n, err := s.db.AddCmd(common.Unhex(f[1]))
		if err != nil {
			return "ERR " + err.Error()
		}
		return strconv.Itoa(n)
	case "sdel":
		n, _ := strconv.Atoi(f[1])
		if err := s.db.DelCmd(n); err != nil {
			return "ERR " + err.Error()
		}
		return "ok"
	case "session":
		hs, err := histutil.NewHybridStore(s.db)
		if err != nil {
			return "ERR " + err.Error()
		}
		s.hs, s.cur = hs, nil
		return "ok"
	case "session-nil":
		hs, err := histutil.NewHybridStore(nil)
		if err != nil {
			return "ERR " + err.Error()
		}
		s.hs, s.cur = hs, nil
		return "ok"
	case "add":
		seq, _ := strconv.Atoi(f[2])
		n, err := s.hs.AddCmd(storedefs.Cmd{Text: common.Unhex(f[1]), Seq: seq})
		if err != nil {
			return "ERR " + err.Error()
		}
		return strconv.Itoa(n)
	case "all":
		cmds, err := s.hs.AllCmds()
		if err != nil {
			return "ERR " + err.Error()
		}
		if len(cmds) == 0 {
			return "-"
		}
		out := make([]string, len(cmds))
		for i, c := range cmds {
			out[i] = showCmd(c)
		}
		return strings.Join(out, ",")
	case "cursor":
		c := s.hs.Cursor(common.Unhex(f[1]))
		if f[2] == "1" {
			c = histutil.NewDedupCursor(c)
		}
		s.cur = c
		return "ok"
	case "prev":
		s.cur.Prev()
		return showGet(s.cur)
	case "next":
		s.cur.Next()
		return showGet(s.cur)
	case "get":
		return showGet(s.cur)
	}
	return "bad-op"
}

// ------------------------------------------------------------------- oracle

// ref is the oracle's own account of the property: the session's view is the
// commands stored when the session started followed by the session's own
// additions; a cursor is an index into the matching ones, newest first.
type ref struct {
	db         []storedefs.Cmd // what the database holds (from the numbers it returned)
	stored     []storedefs.Cmd // snapshot at session start
	session    []storedefs.Cmd
	started    bool
	view       []storedefs.Cmd // of the current cursor
	fromSess   []bool
	idx        int
	dedup      bool
	skipped    bool // de-duplication removed something from this view
	hidden     bool // a concurrent addition matches the prefix but must stay invisible
	prefix     string
	concurrent []storedefs.Cmd
}

func (r *ref) expect() string {
	if r.idx < 0 || r.idx >= len(r.view) {
		return "EOH"
	}
	return showCmd(r.view[r.idx])
}

func oracle(sta any, f []string, out string) (string, string) {
	s := sta.(*state)
	r := s.ref
	s.tag = ""
	if out == "PANIC" || out == "TIMEOUT" || strings.HasPrefix(out, "ERR") {
		return "crash", out
	}
	switch f[0] {
	case "store":
		n, err := strconv.Atoi(out)
		if err != nil {
			return "crash", out
		}
		c := storedefs.Cmd{Text: common.Unhex(f[1]), Seq: n}
		r.db = append(r.db, c)
		if r.started {
			r.concurrent = append(r.concurrent, c)
			s.tag = "concurrent-addition"
		}
	case "sdel":
		n, _ := strconv.Atoi(f[1])
		for i, c := range r.db {
			if c.Seq == n {
				r.db = append(r.db[:i:i], r.db[i+1:]...)
				break
			}
		}
	case "session", "session-nil":
		r.started = true
		r.stored = nil
		if f[0] == "session" {
			r.stored = append(r.stored, r.db...)
		}
		r.session = nil
		s.tag = f[0]
	case "add":
		n, err := strconv.Atoi(out)
		if err != nil {
			return "crash", out
		}
		r.session = append(r.session, storedefs.Cmd{Text: common.Unhex(f[1]), Seq: n})
		s.tag = "session-addition"
	case "all":
		var want []string
		for _, c := range r.stored {
			want = append(want, showCmd(c))
		}
		for _, c := range r.session {
			want = append(want, showCmd(c))
		}
		w := "-"
		if len(want) > 0 {
			w = strings.Join(want, ",")
		}
		s.tag = "all"
		if out != w {
			return "all-cmds", fmt.Sprintf("got %s want %s", out, w)
		}
	case "cursor":
		r.prefix = common.Unhex(f[1])
		r.dedup = f[2] == "1"
		r.view, r.fromSess, r.skipped, r.hidden = nil, nil, false, false
		seen := map[string]bool{}
		addFrom := func(l []storedefs.Cmd, sess bool) {
			for i := len(l) - 1; i >= 0; i-- {
				c := l[i]
				if !strings.HasPrefix(c.Text, r.prefix) {
					continue
				}
				if r.dedup {
					if seen[c.Text] {
						r.skipped = true
						continue
					}
					seen[c.Text] = true
				}
				r.view = append(r.view, c)
				r.fromSess = append(r.fromSess, sess)
			}
		}
		addFrom(r.session, true)
		addFrom(r.stored, false)
		for _, c := range r.concurrent {
			if strings.HasPrefix(c.Text, r.prefix) {
				r.hidden = true
			}
		}
		r.idx = -1
		s.tag = "cursor"
	case "prev", "next", "get":
		old := r.idx
		switch f[0] {
		case "prev":
			if r.idx < len(r.view) {
				r.idx++
			}
		case "next":
			if r.idx >= 0 {
				r.idx--
			}
		}
		want := r.expect()
		// tag the branch
		t := f[0]
		switch {
		case f[0] == "get":
		case r.idx == old && r.idx == len(r.view):
			t += "-stuck-at-old-end"
		case r.idx == old:
			t += "-stuck-at-new-end"
		case r.idx == len(r.view):
			t += "-to-old-end"
		case r.idx == -1:
			t += "-to-new-end"
		case old >= 0 && old < len(r.view) && r.fromSess[old] != r.fromSess[r.idx]:
			t += "-handoff"
		case old == len(r.view) || old == -1:
			t += "-from-end"
		case r.fromSess[r.idx]:
			t += "-session"
		default:
			t += "-stored"
		}
		if r.dedup {
			t = "dedup-" + t
			if r.skipped {
				t += "-skipping"
			}
		}
		if r.hidden && f[0] != "get" {
			t += "-concurrent-hidden"
		}
		s.tag = t
		if out != want {
			return "walk-" + f[0], fmt.Sprintf("prefix %q dedup=%v index %d→%d of %d: got %s want %s", r.prefix, r.dedup, old, r.idx, len(r.view), out, want)
		}
	}
	return "", ""
}
