// Package evalutil runs elvish code on a real in-process Evaler and captures
// value outputs, byte outputs and the error, for harness packages.
package evalutil

import (
	"context"
	"errors"
	"time"

	"src.elv.sh/pkg/eval"
	"src.elv.sh/pkg/eval/vars"
	"src.elv.sh/pkg/mods"
	"src.elv.sh/pkg/parse"
)

// NewEvaler makes an Evaler with the standard modules (str, re, math, …) installed.
func NewEvaler() *eval.Evaler {
	ev := eval.NewEvaler()
	mods.AddTo(ev)
	return ev
}

// SetVars defines global variables.
func SetVars(ev *eval.Evaler, kv map[string]any) {
	b := eval.BuildNs()
	for k, v := range kv {
		b.AddVar(k, vars.FromInit(v))
	}
	ev.ExtendGlobal(b)
}

// Result of one evaluation.
type Result struct {
	Values []any
	Bytes  []byte
	Err    error
}

// Eval evaluates code with captured stdout (values + bytes); stderr is discarded
// into a second capture.  ctx may be nil.
func Eval(ev *eval.Evaler, code string, ctx context.Context) Result {
	port1, collect1, err := eval.CapturePort()
	if err != nil {
		return Result{Err: err}
	}
	port2, collect2, err := eval.CapturePort()
	if err != nil {
		return Result{Err: err}
	}
	cfg := eval.EvalCfg{Ports: []*eval.Port{eval.DummyInputPort, port1, port2}}
	if ctx != nil {
		cfg.Interrupts = ctx
	}
	err = ev.Eval(parse.Source{Name: "[harness]", Code: code}, cfg)
	vs, bs := collect1()
	collect2()
	return Result{Values: vs, Bytes: bs, Err: err}
}

// EvalTimeout is Eval with an interrupt after d.
func EvalTimeout(ev *eval.Evaler, code string, d time.Duration) Result {
	ctx, cancel := context.WithTimeout(context.Background(), d)
	defer cancel()
	return Eval(ev, code, ctx)
}

// Reason returns the exception's cause (eval.Exception.Reason()) or the error itself.
func Reason(err error) error {
	var exc eval.Exception
	if errors.As(err, &exc) {
		return exc.Reason()
	}
	return err
}
