package c08

import (
	"math"
	"math/big"

	"src.elv.sh/pkg/eval/vals"
	"verifharness/common"
)

func pow2(k uint) *big.Int { return new(big.Int).Lsh(big.NewInt(1), k) }

func addI(a *big.Int, d int64) *big.Int { return new(big.Int).Add(a, big.NewInt(d)) }

// Atoms is the fixed list of small interesting values (every pair / triple of
// them is enumerated).
func Atoms() []*V {
	nan2 := math.Float64frombits(0xFFF8000000000000)
	return []*V{
		Nil(), Bool(true), Bool(false),
		Int(0), Int(1), Int(-1), Int(1 << 30), Int(1<<32 - 1), Int(1 << 32), Int(1 << 53), Int(1<<53 + 1),
		Int(math.MaxInt64), Int(math.MinInt64),
		Big(pow2(63)), Big(pow2(64)), Big(new(big.Int).Neg(addI(pow2(63), 1))), Big(big.NewInt(0)), Big(big.NewInt(1)),
		Big(pow2(1024)),
		RatS("1/2"), RatS("-1/2"), RatS("1/1"), RatS("0/1"), RatS("18014398509481985/2"),
		Float(0), Float(math.Copysign(0, -1)), Float(1), Float(-1), Float(0.5), Float(1 << 53), Float(1 << 63),
		Float(math.NaN()), Float(nan2), Float(math.Inf(1)), Float(math.Inf(-1)),
		Float(math.SmallestNonzeroFloat64), Float(math.MaxFloat64),
		Str(""), Str("a"), Str("b"), Str("ab"), Str("0"), Str("1"), Str("\xff"),
		List(), List(Int(0)), List(Float(0)), List(Float(math.Copysign(0, -1))), List(Float(math.NaN())),
		List(Int(1), Str("a")), List(Int(1), Int(2)), List(List()),
		Slice(), Slice(Int(0)), Slice(Int(1), Int(2)), List(Slice()),
		Map(), Map(Str("a"), Int(1)), Map(Str("a"), Float(math.NaN())), Map(Float(0), Int(1)),
		Map(Float(math.Copysign(0, -1)), Int(1)), Map(Str("a"), Int(1), Str("b"), Int(2)),
		Map(Str("name"), Str("cmd0")), // looks like externalCmd{Name: "cmd0"} = Ref(KExtCmd, 0)
		Struct(1, Int(1)), Struct(2, Int(1), Int(2)), Struct(4, Int(2), Int(1)),
		Ref(KClosure, 0), Ref(KClosure, 1), Ref(KNs, 0), Ref(KGoFn, 0), Ref(KExtCmd, 0), Ref(KExtCmd, 1),
		Ref(KKey, 0), Ref(KKey, 1), Ref(KFile, 0), Ref(KFile, 1),
	}
}

var strAlphabet = []string{"a", "b", "0", "1", "-", ".", "é", "\xff", "\x00", "z"}

func RandStr(r *common.Rand) string {
	s := ""
	for k := r.Intn(4); k > 0; k-- {
		s += common.Pick(r, strAlphabet)
	}
	return s
}

var floatSpecials = []float64{0, math.Copysign(0, -1), 1, -1, 0.5, 1.5, 1 << 53, 1<<53 + 2, -(1 << 53), 1 << 63, -(1 << 63), 1 << 64,
	math.Inf(1), math.Inf(-1), math.NaN(), math.SmallestNonzeroFloat64, -math.SmallestNonzeroFloat64, math.MaxFloat64,
	-math.MaxFloat64, 2.2250738585072014e-308, 1e300, 0.1, 1e19, 9007199254740993}

func RandFloat(r *common.Rand) *V {
	switch r.Intn(4) {
	case 0:
		return Float(common.Pick(r, floatSpecials))
	case 1:
		return FloatBits(r.U64())
	case 2:
		return Float(float64(int64(r.U64()) >> uint(r.Intn(64))))
	}
	// a float next to a special one
	f := common.Pick(r, floatSpecials)
	if math.IsNaN(f) || math.IsInf(f, 0) {
		return Float(f)
	}
	return FloatBits(math.Float64bits(f) + uint64(r.Intn(5)) - 2)
}

var limitExps = []uint{0, 1, 24, 31, 32, 52, 53, 54, 62, 63, 64, 65, 100, 1023, 1024}

// RandNumNear returns a number near a float/int precision limit, in any of
// the four representations.
func RandNumNear(r *common.Rand) *V {
	base := pow2(common.Pick(r, limitExps))
	if r.Chance(1, 8) {
		base = big.NewInt(0)
	}
	n := addI(base, int64(r.Range(-3, 3)))
	if r.Bool() {
		n.Neg(n)
	}
	switch r.Intn(8) {
	case 0, 1, 2:
		return Num(n)
	case 3:
		if r.Chance(1, 4) {
			return Big(n) // not normalised (possible at the Go API level)
		}
		return Num(n)
	case 4:
		f, _ := new(big.Float).SetInt(n).Float64()
		return Float(f)
	case 5:
		// n + p/q
		q := int64(common.Pick(r, []int{2, 3, 4, 1 << 20}))
		fr := new(big.Rat).SetFrac64(int64(r.Range(1, int(q)-1)), q)
		return RatV(fr.Add(fr, new(big.Rat).SetInt(n)))
	case 6:
		// a rational very close to a float
		f := RandFloat(r)
		fv := math.Float64frombits(f.Bits)
		if math.IsNaN(fv) || math.IsInf(fv, 0) {
			return f
		}
		x := new(big.Rat).SetFloat64(fv)
		eps := new(big.Rat).SetFrac(big.NewInt(int64(r.Range(-1, 1))), pow2(uint(r.Range(1, 1100))))
		x.Add(x, eps)
		if x.IsInt() {
			return Num(x.Num())
		}
		return RatV(x)
	}
	return RandFloat(r)
}

func RandNum(r *common.Rand) *V {
	switch r.Intn(6) {
	case 0:
		return Int(int64(r.Range(-3, 3)))
	case 1:
		return Int(int64(r.U64()) >> uint(r.Intn(64)))
	case 2:
		return RandFloat(r)
	}
	return RandNumNear(r)
}

func RandRef(r *common.Rand) *V { return Ref(r.Intn(NKinds), r.Intn(PoolSize)) }

// RandValue builds a random structured value.
func RandValue(r *common.Rand, depth int) *V {
	n := 12
	if depth <= 0 {
		n = 8
	}
	switch r.Intn(n) {
	case 0:
		return common.Pick(r, []*V{Nil(), Bool(true), Bool(false)})
	case 1, 2, 3:
		return RandNum(r)
	case 4, 5:
		return Str(RandStr(r))
	case 6:
		return RandRef(r)
	case 7:
		return common.Pick(r, Atoms())
	case 8, 9:
		l := List()
		for k := r.Intn(4); k > 0; k-- {
			l.Elems = append(l.Elems, RandValue(r, depth-1))
		}
		l.Sl = r.Intn(4) == 0
		return l
	case 10:
		return RandMap(r, depth)
	}
	t := r.Range(1, 4)
	s := Struct(t)
	for range StructKeys[t] {
		s.Elems = append(s.Elems, RandValue(r, depth-1))
	}
	return s
}

// RandMap builds a map whose keys are pairwise not Equal.
func RandMap(r *common.Rand, depth int) *V {
	m := Map()
	var keys []any
	useStructKeys := r.Chance(1, 3)
	sk := StructKeys[r.Range(1, 4)]
	n := r.Intn(4)
	if useStructKeys {
		n = len(sk)
	}
	for i := 0; i < n; i++ {
		var k *V
		if useStructKeys {
			k = Str(sk[i])
		} else {
			k = RandValue(r, depth-1)
		}
		kg := k.Go()
		dup := false
		for _, o := range keys {
			if vals.Equal(o, kg) || vals.Equal(kg, o) {
				dup = true
			}
		}
		if dup {
			continue
		}
		keys = append(keys, kg)
		m.Elems = append(m.Elems, k, RandValue(r, depth-1))
	}
	return m
}

// Twin returns a value that is eq to v (when v holds no NaN) but built
// differently: signed zeros flipped, lists built as slices of longer lists, map entries inserted in another order,
// maps swapped with field maps.
func Twin(r *common.Rand, v *V) *V {
	switch v.K {
	case 'F':
		if v.Bits<<1 == 0 && r.Bool() {
			return FloatBits(v.Bits ^ (1 << 63))
		}
		return FloatBits(v.Bits)
	case 'L':
		l := List()
		for _, e := range v.Elems {
			l.Elems = append(l.Elems, Twin(r, e))
		}
		l.Sl = r.Intn(3) == 0
		return l
	case 'M', 'S':
		var ks, vs []*V
		if v.K == 'M' {
			for i := 0; i+1 < len(v.Elems); i += 2 {
				ks = append(ks, Twin(r, v.Elems[i]))
				vs = append(vs, Twin(r, v.Elems[i+1]))
			}
		} else {
			for i, k := range StructKeys[v.T] {
				ks = append(ks, Str(k))
				vs = append(vs, Twin(r, v.Elems[i]))
			}
		}
		// a struct type with exactly this key set?
		var fits []int
		for t := 1; t <= 4; t++ {
			sk := StructKeys[t]
			if len(sk) != len(ks) {
				continue
			}
			ok := true
			for _, want := range sk {
				found := false
				for _, k := range ks {
					if k.K == 's' && k.S == want {
						found = true
					}
				}
				ok = ok && found
			}
			if ok {
				fits = append(fits, t)
			}
		}
		if len(fits) > 0 && r.Bool() {
			t := common.Pick(r, fits)
			s := Struct(t)
			for _, want := range StructKeys[t] {
				for i, k := range ks {
					if k.S == want && k.K == 's' {
						s.Elems = append(s.Elems, vs[i])
					}
				}
			}
			return s
		}
		// a map in a random insertion order
		m := Map()
		for i := len(ks) - 1; i > 0; i-- {
			j := r.Intn(i + 1)
			ks[i], ks[j] = ks[j], ks[i]
			vs[i], vs[j] = vs[j], vs[i]
		}
		for i := range ks {
			m.Elems = append(m.Elems, ks[i], vs[i])
		}
		return m
	}
	c := *v
	return &c
}
