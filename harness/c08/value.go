// Package c08: correspondence and oracle for C08 (vals.Equal ⇒ vals.Hash, map
// keys).  This file is the value codec and the value generators shared with
// package c09.
package c08

import (
	"fmt"
	"math"
	"math/big"
	"os"
	"strconv"
	"strings"
	"sync"
	"unsafe"

	"src.elv.sh/pkg/eval"
	"src.elv.sh/pkg/eval/vals"
	"src.elv.sh/pkg/parse"
	"src.elv.sh/pkg/ui"
	"verifharness/common"
)

// V is a value description: what travels in the op line (Enc) and how the real
// value is built (Go).
type V struct {
	K     byte     // n t f i I r F s L M S P
	I, D  *big.Int // i, I: value; r: numerator / denominator
	Bits  uint64   // F
	S     string   // s
	Elems []*V     // L: elements; M: k1 v1 k2 v2 … in insertion order; S: fields
	T     int      // S: struct type 1..4; P: kind
	Sl    bool     // L: the real value is built as a slice of a longer list (token l<n>)
	ID    int      // P: id
}

// Field map struct types (keys: a | a b | a foo-bar c | b a).
type FM1 struct{ A any }
type FM2 struct{ A, B any }
type FM3 struct{ A, FooBar, C any }
type FM4 struct{ B, A any }

var StructKeys = map[int][]string{1: {"a"}, 2: {"a", "b"}, 3: {"a", "foo-bar", "c"}, 4: {"b", "a"}}

// Identity kinds of the pool.
const (
	KClosure = iota
	KNs
	KGoFn
	KExtCmd
	KKey
	KFile
	NKinds
)

const PoolSize = 3

var (
	poolOnce sync.Once
	pool     [NKinds][]any
	// TheEvaler is shared by everything that goes through the language.
	TheEvaler *eval.Evaler
)

// CapturePort makes an output port whose values are collected in memory.
func CapturePort() (*eval.Port, func() []any) {
	ch := make(chan any, 256)
	return &eval.Port{File: eval.DevNull, Chan: ch}, func() []any {
		var out []any
		for {
			select {
			case v := <-ch:
				out = append(out, v)
			default:
				return out
			}
		}
	}
}

// EvalCode runs elvish code in the shared Evaler and returns the value outputs.
func EvalCode(code string) ([]any, error) {
	InitPool()
	port, get := CapturePort()
	err := TheEvaler.Eval(parse.Source{Name: "[harness]", Code: code},
		eval.EvalCfg{Ports: []*eval.Port{eval.DummyInputPort, port, eval.DummyOutputPort}})
	return get(), err
}

// CallFn calls an elvish function value with Go values.
func CallFn(f eval.Callable, args ...any) ([]any, error) {
	port, get := CapturePort()
	err := TheEvaler.Call(f, eval.CallCfg{Args: args},
		eval.EvalCfg{Ports: []*eval.Port{eval.DummyInputPort, port, eval.DummyOutputPort}})
	return get(), err
}

// CallFnOpts is CallFn with options.
func CallFnOpts(f eval.Callable, opts map[string]any, args ...any) ([]any, error) {
	port, get := CapturePort()
	err := TheEvaler.Call(f, eval.CallCfg{Args: args, Opts: opts},
		eval.EvalCfg{Ports: []*eval.Port{eval.DummyInputPort, port, eval.DummyOutputPort}})
	return get(), err
}

// BuiltinFn fetches a builtin command, to be called with Go values directly
// (no variable in between, so nothing is normalised on the way).
func BuiltinFn(name string) eval.Callable {
	InitPool()
	v, ok := TheEvaler.Builtin().Index(name + "~")
	if !ok {
		panic("no builtin " + name)
	}
	return v.(eval.Callable)
}

// GlobalFn fetches a function defined in the shared Evaler.
func GlobalFn(name string) eval.Callable {
	v, ok := TheEvaler.Global().Index(name + "~")
	if !ok {
		panic("no function " + name)
	}
	return v.(eval.Callable)
}

func InitPool() {
	poolOnce.Do(func() {
		TheEvaler = eval.NewEvaler()
		port, get := CapturePort()
		err := TheEvaler.Eval(parse.Source{Name: "[pool]", Code: "put {|| } {|| } {|| }"},
			eval.EvalCfg{Ports: []*eval.Port{eval.DummyInputPort, port, eval.DummyOutputPort}})
		if err != nil {
			panic(err)
		}
		for _, c := range get() {
			pool[KClosure] = append(pool[KClosure], c)
		}
		files := []*os.File{os.Stdin, os.Stdout, os.Stderr}
		for i := 0; i < PoolSize; i++ {
			pool[KNs] = append(pool[KNs], eval.BuildNs().AddVar("x", nil).Ns())
			pool[KGoFn] = append(pool[KGoFn], eval.NewGoFn(fmt.Sprintf("f%d", i), func() {}))
			pool[KExtCmd] = append(pool[KExtCmd], eval.NewExternalCmd(fmt.Sprintf("cmd%d", i)))
			pool[KKey] = append(pool[KKey], ui.Key{Rune: rune('a' + i), Mod: ui.Mod(i % 8)})
			pool[KFile] = append(pool[KFile], files[i])
		}
	})
}

// typeWord is the type descriptor address of a dynamic type (what cmp.go's
// typeOf reads), obtained independently.
func typeWord(x any) uintptr { return *(*uintptr)(unsafe.Pointer(&x)) }

// NTags is the number of type tags of the model (C09.typeTag).
const NTags = 6 + NKinds

// TagRep returns a representative Go value of a type tag.
func TagRep(tag int) any {
	InitPool()
	switch tag {
	case 0:
		return nil
	case 1:
		return true
	case 2:
		return 0
	case 3:
		return ""
	case 4:
		return vals.EmptyList
	case 5:
		return vals.EmptyMap
	}
	return pool[tag-6][0]
}

// Ranks gives, per type tag, the position of its type descriptor in address order.
func Ranks() []int {
	words := make([]uintptr, NTags)
	for t := range words {
		words[t] = typeWord(TagRep(t))
	}
	r := make([]int, NTags)
	for t := range words {
		for u := range words {
			if words[u] < words[t] {
				r[t]++
			}
		}
	}
	return r
}

func RanksField() string {
	var s []string
	for _, r := range Ranks() {
		s = append(s, strconv.Itoa(r))
	}
	return strings.Join(s, ",")
}

// ---- constructors ---------------------------------------------------------

func Nil() *V { return &V{K: 'n'} }
func Bool(b bool) *V {
	if b {
		return &V{K: 't'}
	}
	return &V{K: 'f'}
}
func Int(i int64) *V    { return &V{K: 'i', I: big.NewInt(i)} }
func Big(i *big.Int) *V { return &V{K: 'I', I: new(big.Int).Set(i)} }
func BigS(s string) *V {
	z, ok := new(big.Int).SetString(s, 0)
	if !ok {
		panic(s)
	}
	return &V{K: 'I', I: z}
}
func RatV(r *big.Rat) *V {
	return &V{K: 'r', I: new(big.Int).Set(r.Num()), D: new(big.Int).Set(r.Denom())}
}
func RatS(s string) *V {
	r, ok := new(big.Rat).SetString(s)
	if !ok {
		panic(s)
	}
	return RatV(r)
}
func Float(f float64) *V       { return &V{K: 'F', Bits: math.Float64bits(f)} }
func FloatBits(b uint64) *V    { return &V{K: 'F', Bits: b} }
func Str(s string) *V          { return &V{K: 's', S: s} }
func List(e ...*V) *V          { return &V{K: 'L', Elems: e} }
func Slice(e ...*V) *V         { return &V{K: 'L', Sl: true, Elems: e} }
func Map(kv ...*V) *V          { return &V{K: 'M', Elems: kv} }
func Struct(t int, f ...*V) *V { return &V{K: 'S', T: t, Elems: f} }
func Ref(kind, id int) *V      { return &V{K: 'P', T: kind, ID: id} }

// Num picks the canonical elvish representation of an integer.
func Num(i *big.Int) *V {
	if i.IsInt64() {
		return Int(i.Int64())
	}
	return Big(i)
}

// ---- codec ------------------------------------------------------------------

func (v *V) enc(sb *[]string) {
	switch v.K {
	case 'n', 't', 'f':
		*sb = append(*sb, string(v.K))
	case 'i', 'I':
		*sb = append(*sb, string(v.K)+v.I.String())
	case 'r':
		*sb = append(*sb, "r"+v.I.String()+"/"+v.D.String())
	case 'F':
		*sb = append(*sb, fmt.Sprintf("F%016x", v.Bits))
	case 's':
		*sb = append(*sb, "s"+common.Hex(v.S))
	case 'L':
		if v.Sl {
			*sb = append(*sb, "l"+strconv.Itoa(len(v.Elems)))
		} else {
			*sb = append(*sb, "L"+strconv.Itoa(len(v.Elems)))
		}
		for _, e := range v.Elems {
			e.enc(sb)
		}
	case 'M':
		*sb = append(*sb, "M"+strconv.Itoa(len(v.Elems)/2))
		for _, e := range v.Elems {
			e.enc(sb)
		}
	case 'S':
		*sb = append(*sb, "S"+strconv.Itoa(v.T))
		for _, e := range v.Elems {
			e.enc(sb)
		}
	case 'P':
		*sb = append(*sb, fmt.Sprintf("P%d.%d", v.T, v.ID))
	default:
		panic("bad V")
	}
}

// Enc is the op-line form.
func (v *V) Enc() string {
	var sb []string
	v.enc(&sb)
	return strings.Join(sb, ",")
}

func parseToks(t []string) (*V, []string) {
	if len(t) == 0 {
		panic("value: out of tokens")
	}
	tok, rest := t[0], t[1:]
	many := func(n int) []*V {
		var out []*V
		for i := 0; i < n; i++ {
			var e *V
			e, rest = parseToks(rest)
			out = append(out, e)
		}
		return out
	}
	atoi := func(s string) int {
		n, err := strconv.Atoi(s)
		if err != nil {
			panic(err)
		}
		return n
	}
	switch tok[0] {
	case 'n', 't', 'f':
		return &V{K: tok[0]}, rest
	case 'i', 'I':
		z, ok := new(big.Int).SetString(tok[1:], 10)
		if !ok {
			panic("bad int " + tok)
		}
		return &V{K: tok[0], I: z}, rest
	case 'r':
		p := strings.Split(tok[1:], "/")
		n, ok1 := new(big.Int).SetString(p[0], 10)
		d, ok2 := new(big.Int).SetString(p[1], 10)
		if !ok1 || !ok2 {
			panic("bad rat " + tok)
		}
		return &V{K: 'r', I: n, D: d}, rest
	case 'F':
		b, err := strconv.ParseUint(tok[1:], 16, 64)
		if err != nil {
			panic(err)
		}
		return &V{K: 'F', Bits: b}, rest
	case 's':
		return &V{K: 's', S: common.Unhex(tok[1:])}, rest
	case 'L':
		return &V{K: 'L', Elems: many(atoi(tok[1:]))}, rest
	case 'l':
		return &V{K: 'L', Sl: true, Elems: many(atoi(tok[1:]))}, rest
	case 'M':
		return &V{K: 'M', Elems: many(2 * atoi(tok[1:]))}, rest
	case 'S':
		t := atoi(tok[1:])
		return &V{K: 'S', T: t, Elems: many(len(StructKeys[t]))}, rest
	case 'P':
		p := strings.Split(tok[1:], ".")
		return &V{K: 'P', T: atoi(p[0]), ID: atoi(p[1])}, rest
	}
	panic("bad token " + tok)
}

// Parse decodes Enc.
func Parse(s string) *V {
	v, rest := parseToks(strings.Split(s, ","))
	if len(rest) != 0 {
		panic("trailing tokens")
	}
	return v
}

// Go builds the real elvish value.
func (v *V) Go() any {
	InitPool()
	switch v.K {
	case 'n':
		return nil
	case 't':
		return true
	case 'f':
		return false
	case 'i':
		return int(v.I.Int64())
	case 'I':
		return new(big.Int).Set(v.I)
	case 'r':
		return new(big.Rat).SetFrac(v.I, v.D)
	case 'F':
		return math.Float64frombits(v.Bits)
	case 's':
		return v.S
	case 'L':
		l := vals.EmptyList
		if v.Sl {
			// the same elements, as a slice of a list with one more element
			// on each side: another Go type behind the same elvish value
			l = l.Conj("pad")
		}
		for _, e := range v.Elems {
			l = l.Conj(e.Go())
		}
		if v.Sl {
			return l.Conj("pad").SubVector(1, 1+len(v.Elems))
		}
		return l
	case 'M':
		m := vals.EmptyMap
		for i := 0; i+1 < len(v.Elems); i += 2 {
			m = m.Assoc(v.Elems[i].Go(), v.Elems[i+1].Go())
		}
		return m
	case 'S':
		f := func(i int) any { return v.Elems[i].Go() }
		switch v.T {
		case 1:
			return FM1{f(0)}
		case 2:
			return FM2{f(0), f(1)}
		case 3:
			return FM3{f(0), f(1), f(2)}
		case 4:
			return FM4{f(0), f(1)}
		}
	case 'P':
		return pool[v.T][v.ID]
	}
	panic("bad V")
}

// FromGo describes a real value (numbers, strings, bools, nil, lists, maps).
func FromGo(x any) *V {
	switch x := x.(type) {
	case nil:
		return Nil()
	case bool:
		return Bool(x)
	case int:
		return Int(int64(x))
	case *big.Int:
		return Big(x)
	case *big.Rat:
		return RatV(x)
	case float64:
		return Float(x)
	case string:
		return Str(x)
	case vals.List:
		v := List()
		for it := x.Iterator(); it.HasElem(); it.Next() {
			v.Elems = append(v.Elems, FromGo(it.Elem()))
		}
		return v
	case vals.Map:
		v := Map()
		for it := x.Iterator(); it.HasElem(); it.Next() {
			k, val := it.Elem()
			v.Elems = append(v.Elems, FromGo(k), FromGo(val))
		}
		return v
	}
	panic(fmt.Sprintf("FromGo: %T", x))
}

// HasAddrRef: the value's hash depends on a heap address.
func (v *V) HasAddrRef() bool {
	if v.K == 'P' && v.T < KExtCmd {
		return true
	}
	for _, e := range v.Elems {
		if e.HasAddrRef() {
			return true
		}
	}
	return false
}

// Walk visits v and everything nested in it.
func (v *V) Walk(f func(*V)) {
	f(v)
	for _, e := range v.Elems {
		e.Walk(f)
	}
}

// ContainsNaN reports a NaN anywhere inside.
func (v *V) ContainsNaN() bool {
	r := false
	v.Walk(func(w *V) {
		if w.K == 'F' && math.IsNaN(math.Float64frombits(w.Bits)) {
			r = true
		}
	})
	return r
}

// KindName is a short name for tags.
func (v *V) KindName() string {
	switch v.K {
	case 'n':
		return "nil"
	case 't', 'f':
		return "bool"
	case 'i':
		return "int"
	case 'I':
		return "bigint"
	case 'r':
		return "rat"
	case 'F':
		return "float"
	case 's':
		return "str"
	case 'L':
		return "list"
	case 'M':
		return "map"
	case 'S':
		return "fieldmap"
	case 'P':
		return "ref"
	}
	return "?"
}

// Canonical: every number inside is in elvish's unique representation (a
// *big.Int only outside the int range, a *big.Rat only when not integral).
// Only such values exist inside the language: variable reads go through
// vals.FromGo, which normalises.
func (v *V) Canonical() bool {
	ok := true
	v.Walk(func(w *V) {
		if w.K == 'I' && w.I.IsInt64() || w.K == 'r' && w.D.IsInt64() && w.D.Int64() == 1 {
			ok = false
		}
	})
	return ok
}
