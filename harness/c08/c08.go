package c08

import (
	"fmt"
	"math/big"
	"reflect"
	"strconv"
	"strings"
	"sync"

	"src.elv.sh/pkg/eval"
	"src.elv.sh/pkg/eval/vals"
	"verifharness/common"
)

func init() { common.Register("C08", run) }

var sizes = []int{0, 1, 2, 5, 8, 9, 15, 16, 17, 31, 33, 64, 100, 257}

func run(c *common.Ctx) error {
	s := &common.Std{
		Rule: "eqh: every ordered pair of the fixed atom list, twin pairs (eq but differently built: ±0.0, map insertion orders, " +
			"map vs field map, nested) of random values, values computed through the language by different arithmetic, random pairs; " +
			"map: a twin pair used as keys of maps of 0..2000 other entries plus chosen int neighbours whose hashes share the low 5k bits " +
			"(k=1..6) or all 32 bits with the probe keys; non-trivial = the pair is eq; distinct by op line",
		ExhaustiveNote: "all ordered pairs of the atom list",
		Gen:            gen,
		Impl:           impl,
		Oracle:         oracle,
		Tag:            tag,
		Timeout:        60 * 1e9,
	}
	return s.Run(c)
}

// ---- generation -----------------------------------------------------------------

var arithPairs = [][2]string{
	{"+ X Y", "+ Y X"}, {"- (+ X Y) Y", "num X"}, {"* X 2", "+ X X"}, {"/ X 1", "num X"}, {"/ (* X 3) 3", "num X"},
	{"- 0.0", "num 0.0"}, {"* -1 0.0", "num 0.0"}, {"+ -0.0 0", "num 0.0"}, {"- 0.0 0.0", "* 0.0 -1.0"},
	{"exact-num 0.5", "num 1/2"}, {"inexact-num 1/2", "num 0.5"}, {"num 0x10", "num 16"},
	{"+ 9223372036854775807 1", "num 9223372036854775808"}, {"- (+ 9223372036854775807 1) 1", "num 9223372036854775807"},
	{"- (- -9223372036854775808 1) -1", "num -9223372036854775808"}, {"/ 6 4", "num 3/2"}, {"/ 6 3", "num 2"},
	{"* 1/2 2", "num 1"}, {"+ 1/3 2/3", "num 1"}, {"* 4294967296 4294967296 4294967296", "num 79228162514264337593543950336"},
	{"- X X", "num 0"}, {"* X 1", "num X"}, {"+ X 0", "num X"}, {"exact-num (inexact-num X)", "num X"},
	{"put [(+ X Y)]", "put [(+ Y X)]"}, {"put [&(+ X Y)=1 &k=(- 0.0)]", "put [&k=(num 0.0) &(+ Y X)=1]"},
	{"assoc [&a=1] b 2", "assoc [&b=2] a 1"}, {"dissoc [&a=1 &b=2] b", "put [&a=1]"}, {"conj [1] 2", "put [1 2]"},
	{"put 1.0", "put 1.0"}, {"num 1.0", "num 1"}, {"+ 0.5 0.5", "num 1.0"}, {"* 0.1 3", "num 0.3"},
}

var arithNums = []string{"0", "1", "-1", "7", "4611686018427387904", "9223372036854775807", "-9223372036854775808",
	"18446744073709551616", "1/3", "-7/2", "0.0", "-0.0", "1.5", "9007199254740992", "9007199254740993", "1e100", "0x7fffffff"}

func subst(t, x, y string) string {
	return strings.ReplaceAll(strings.ReplaceAll(t, "X", x), "Y", y)
}

func neighbours(r *common.Rand, h uint32) []*V {
	var out []*V
	for k := uint(1); k <= 6; k++ {
		lo := 5 * k // shares bits [0, lo)
		width := uint(5)
		if lo+width > 32 {
			width = 32 - lo
		}
		x := h ^ (1+uint32(r.Intn(1<<width-1)))<<lo // differs inside chunk k
		if lo+width < 32 && r.Bool() {
			x ^= uint32(r.U64()) << (lo + width) // and arbitrarily above
		}
		out = append(out, Int(int64(x)))
	}
	out = append(out, Int(int64(h))) // all 32 bits shared
	return out
}

func keyish(r *common.Rand) *V {
	switch r.Intn(10) {
	case 0, 1, 2:
		return Float(common.Pick(r, []float64{0, negZero()}))
	case 3:
		return RandNum(r)
	case 4:
		return List(Float(common.Pick(r, []float64{0, negZero()})), RandValue(r, 1))
	case 5:
		return RandMap(r, 2)
	case 6:
		return Str(RandStr(r))
	}
	return RandValue(r, 2)
}

func negZero() float64 { z := 0.0; return -z }

func gen(c *common.Ctx, emit func(...string)) {
	InitPool()
	r := c.Rand
	atoms := Atoms()
	for _, a := range atoms {
		for _, b := range atoms {
			emit("eqh", a.Enc(), b.Enc())
		}
	}
	// twins
	for i := c.Scale(10000, 300000); i > 0; i-- {
		a := RandValue(r, 3)
		emit("eqh", a.Enc(), Twin(r, a).Enc())
	}
	// random pairs
	for i := c.Scale(2000, 100000); i > 0; i-- {
		emit("eqh", RandValue(r, 2).Enc(), RandValue(r, 2).Enc())
	}
	// through the language
	for i := c.Scale(600, 20000); i > 0; i-- {
		p := common.Pick(r, arithPairs)
		x, y := common.Pick(r, arithNums), common.Pick(r, arithNums)
		va, ea := EvalCode(subst(p[0], x, y))
		vb, eb := EvalCode(subst(p[1], x, y))
		if ea != nil || eb != nil || len(va) != 1 || len(vb) != 1 {
			continue
		}
		emit("eqh", FromGo(va[0]).Enc(), FromGo(vb[0]).Enc())
	}
	// maps
	nmaps := c.Scale(1500, 30000)
	for i := 0; i < nmaps; i++ {
		a := keyish(r)
		b := Twin(r, a)
		if r.Chance(1, 10) {
			b = keyish(r)
		}
		ag, bg := a.Go(), b.Go()
		n := common.Pick(r, sizes)
		if i%97 == 0 {
			n = c.Scale(700, 2000)
		}
		m := Map()
		add := func(k, v *V) {
			kg := k.Go()
			if vals.Equal(kg, ag) || vals.Equal(kg, bg) || vals.Equal(ag, kg) || vals.Equal(bg, kg) {
				return
			}
			m.Elems = append(m.Elems, k, v)
		}
		if r.Chance(3, 4) {
			for _, h := range []uint32{vals.Hash(ag), vals.Hash(bg), hashOtherZero(ag)} {
				for _, nb := range neighbours(r, h) {
					if r.Chance(3, 4) {
						add(nb, Int(int64(r.Intn(10))))
					}
				}
			}
		}
		for len(m.Elems)/2 < n {
			var k *V
			switch r.Intn(6) {
			case 0:
				k = Str(RandStr(r) + strconv.Itoa(r.Intn(1000)))
			case 1:
				k = RandNum(r)
			case 2:
				k = RandValue(r, 1)
				if k.HasAddrRef() {
					continue
				}
			default:
				k = Int(int64(uint32(r.U64())))
			}
			add(k, common.Pick(r, []*V{Int(1), Str("v"), Float(0), List()}))
		}
		// the probe key itself present beforehand?
		switch r.Intn(4) {
		case 0:
			pos := 2 * r.Intn(len(m.Elems)/2+1)
			m.Elems = append(m.Elems[:pos:pos], append([]*V{a, Str("va")}, m.Elems[pos:]...)...)
		case 1:
			m.Elems = append(m.Elems, b, Str("vb"))
		case 2:
			m.Elems = append([]*V{a, Str("va")}, m.Elems...)
		}
		emit("map", m.Enc(), a.Enc(), b.Enc(), common.Pick(r, []*V{Str("new"), Int(7), Float(0)}).Enc())
	}
}

// hashOtherZero: the hash the other signed zero has when x is a float zero
// (on the unfixed tree it differs), otherwise just the hash of x.
func hashOtherZero(x any) uint32 {
	if f, ok := x.(float64); ok && f == 0 {
		return vals.Hash(-f)
	}
	return vals.Hash(x)
}

// ---- implementation ---------------------------------------------------------------

func b2s(b bool) string {
	if b {
		return "t"
	}
	return "f"
}

// goHasAddr: does the real value contain a closure / namespace / builtin
// function (hash = address)?
func goHasAddr(x any) bool {
	switch x := x.(type) {
	case nil, bool, int, *big.Int, *big.Rat, float64, string:
		return false
	case vals.List:
		for it := x.Iterator(); it.HasElem(); it.Next() {
			if goHasAddr(it.Elem()) {
				return true
			}
		}
		return false
	case vals.Map:
		for it := x.Iterator(); it.HasElem(); it.Next() {
			k, v := it.Elem()
			if goHasAddr(k) || goHasAddr(v) {
				return true
			}
		}
		return false
	case FM1:
		return goHasAddr(x.A)
	case FM2:
		return goHasAddr(x.A) || goHasAddr(x.B)
	case FM3:
		return goHasAddr(x.A) || goHasAddr(x.FooBar) || goHasAddr(x.C)
	case FM4:
		return goHasAddr(x.A) || goHasAddr(x.B)
	}
	if reflect.ValueOf(x).Kind() == reflect.Ptr {
		for k := KClosure; k <= KGoFn; k++ {
			for _, p := range pool[k] {
				if p == x {
					return true
				}
			}
		}
	}
	return false
}

func showHash(x any) string {
	if goHasAddr(x) {
		return "*"
	}
	return strconv.FormatUint(uint64(vals.Hash(x)), 10)
}

func showIdx(m vals.Map, k any) string {
	v, ok := m.Index(k)
	if !ok {
		return "none"
	}
	return showHash(v)
}

func showMap(m vals.Map) string { return fmt.Sprintf("%d:%s", m.Len(), showHash(m)) }

func hasKey(m vals.Map, k any) bool { _, ok := m.Index(k); return ok }

func impl(_ any, f []string) string {
	InitPool()
	switch f[0] {
	case "eqh":
		a, b := Parse(f[1]).Go(), Parse(f[2]).Go()
		return fmt.Sprintf("%s %s %s", b2s(vals.Equal(a, b)), showHash(a), showHash(b))
	case "map":
		m := Parse(f[1]).Go().(vals.Map)
		a, b, v := Parse(f[2]).Go(), Parse(f[3]).Go(), Parse(f[4]).Go()
		ma, mb := m.Assoc(a, v), m.Assoc(b, v)
		mab := ma.Assoc(b, "x")
		return strings.Join([]string{
			b2s(vals.Equal(a, b)),
			b2s(hasKey(m, a)), b2s(hasKey(m, b)), showIdx(m, a), showIdx(m, b),
			showMap(ma), showMap(mb), b2s(vals.Equal(ma, mb)),
			showMap(mab), b2s(hasKey(ma, b)), showIdx(ma, b),
			showMap(m.Dissoc(a)), showMap(m.Dissoc(b)), showMap(ma.Dissoc(b)),
		}, " ")
	}
	return "bad-op"
}

// ---- oracle ----------------------------------------------------------------------

var (
	probeOnce sync.Once
	fnEq      eval.Callable
	fnMap     eval.Callable
)

func initProbes() {
	InitPool()
	probeOnce.Do(func() {
		_, err := EvalCode(`
fn c08-eq {|a b| put (eq $a $b) (not-eq $a $b) }
fn c08-map {|m a b v|
  var ma = (assoc $m $a $v)
  var mb = (assoc $m $b $v)
  put (has-key $m $a) (has-key $m $b) (count $ma) (count $mb) (count (assoc $ma $b x)) ^
      (count (dissoc $m $a)) (count (dissoc $m $b)) (count (dissoc $ma $b)) ^
      (eq $ma $mb) (eq (dissoc $m $a) (dissoc $m $b)) (has-key $ma $b) ^
      (if (has-key $m $a) { eq $m[$a] $m[$b] } else { put $true }) ^
      (eq $ma[$b] $v)
}`)
		if err != nil {
			panic(err)
		}
		fnEq, fnMap = GlobalFn("c08-eq"), GlobalFn("c08-map")
	})
}

func oracle(_ any, f []string, out string) (string, string) {
	initProbes()
	if out == "PANIC" || out == "TIMEOUT" {
		return "crash", out
	}
	switch f[0] {
	case "eqh":
		av, bv := Parse(f[1]), Parse(f[2])
		a, b := av.Go(), bv.Go()
		eq := vals.Equal(a, b)
		if av.Canonical() && bv.Canonical() {
			res, err := CallFn(fnEq, a, b)
			if err != nil || len(res) != 2 || res[0] != eq || res[1] != !eq {
				return "builtin-mismatch", fmt.Sprintf("eq builtin gave %v (%v), vals.Equal %v", res, err, eq)
			}
		}
		if eq && vals.Hash(a) != vals.Hash(b) {
			return "eq-but-hash-differs", fmt.Sprintf("Equal(a,b) but Hash(a)=%#x Hash(b)=%#x", vals.Hash(a), vals.Hash(b))
		}
		if eq {
			// the two as keys of one map
			m := vals.EmptyMap.Assoc(a, 1).Assoc(b, 2)
			if m.Len() != 1 {
				return "two-eq-keys-in-map", "assoc a then b into the empty map gives 2 entries"
			}
		}
		return "", ""
	case "map":
		m := Parse(f[1]).Go().(vals.Map)
		av, bv := Parse(f[2]), Parse(f[3])
		a, b, v := av.Go(), bv.Go(), Parse(f[4]).Go()
		if !vals.Equal(a, b) {
			return "", ""
		}
		nanFree := !Parse(f[1]).ContainsNaN() && !av.ContainsNaN() && !bv.ContainsNaN() && !Parse(f[4]).ContainsNaN()
		va, oka := m.Index(a)
		vb, okb := m.Index(b)
		if oka != okb || (oka && nanFree && !vals.Equal(va, vb)) {
			return "eq-keys-lookup-differs", fmt.Sprintf("Index(a)=%v,%v Index(b)=%v,%v", va, oka, vb, okb)
		}
		ma, mb := m.Assoc(a, v), m.Assoc(b, v)
		if ma.Len() != mb.Len() || (nanFree && !vals.Equal(ma, mb)) {
			return "eq-keys-assoc-differs", fmt.Sprintf("len %d vs %d, equal %v", ma.Len(), mb.Len(), vals.Equal(ma, mb))
		}
		mab := ma.Assoc(b, "x")
		if mab.Len() != ma.Len() {
			return "two-eq-keys-in-map", fmt.Sprintf("assoc a then b: %d then %d entries", ma.Len(), mab.Len())
		}
		if vx, ok := mab.Index(a); !ok || vx != "x" {
			return "eq-keys-lookup-differs", "after assoc b x, index a does not give x"
		}
		cnt := 0
		var keys []any
		for it := mab.Iterator(); it.HasElem(); it.Next() {
			k, _ := it.Elem()
			if vals.Equal(k, a) || vals.Equal(a, k) {
				cnt++
			}
			keys = append(keys, k)
		}
		if cnt != 1 {
			return "two-eq-keys-in-map", fmt.Sprintf("%d keys eq to a", cnt)
		}
		if len(keys) <= 40 {
			for i := range keys {
				for j := range keys {
					if i != j && vals.Equal(keys[i], keys[j]) {
						return "two-eq-keys-in-map", fmt.Sprintf("keys #%d and #%d are eq", i, j)
					}
				}
			}
		}
		da, db := m.Dissoc(a), m.Dissoc(b)
		if da.Len() != db.Len() || (nanFree && !vals.Equal(da, db)) || ma.Dissoc(b).Len() != ma.Len()-1 {
			return "eq-keys-dissoc-differs", fmt.Sprintf("len %d vs %d; dissoc b from assoc a: %d of %d", da.Len(), db.Len(), ma.Dissoc(b).Len(), ma.Len())
		}
		// the same through the builtins
		if Parse(f[1]).Canonical() && av.Canonical() && bv.Canonical() {
			res, err := CallFn(fnMap, m, a, b, v)
			if err != nil || len(res) != 13 {
				return "builtin-error", fmt.Sprintf("%v %v", res, err)
			}
			ok := res[0] == res[1] && res[2] == res[3] && res[4] == res[2] && res[5] == res[6] &&
				res[7] == res[2].(int)-1 && res[10] == true
			if nanFree {
				ok = ok && res[8] == true && res[9] == true && res[11] == true && res[12] == true
			}
			if !ok {
				return "eq-keys-differ-in-builtins", fmt.Sprintf("has-key/count/assoc/dissoc through the language: %v", res)
			}
		}
		if vals.Hash(a) != vals.Hash(b) {
			return "eq-but-hash-differs", fmt.Sprintf("Equal(a,b) but Hash(a)=%#x Hash(b)=%#x", vals.Hash(a), vals.Hash(b))
		}
		return "", ""
	}
	return "", ""
}

func tag(f []string, out string) string {
	switch f[0] {
	case "eqh":
		if !strings.HasPrefix(out, "t") {
			return ""
		}
		a, b := Parse(f[1]), Parse(f[2])
		t := "eq/" + a.KindName()
		if a.KindName() != b.KindName() {
			t += "-" + b.KindName()
		}
		if f[1] != f[2] {
			t += "/differently-built"
		}
		return t
	case "map":
		if !strings.HasPrefix(out, "t") {
			return "map/keys-not-eq"
		}
		n := strings.Count(f[1], ",")/2 + 1
		sz := "≤2"
		switch {
		case n > 500:
			sz = ">500"
		case n > 32:
			sz = "33..500"
		case n > 16:
			sz = "17..32"
		case n > 8:
			sz = "9..16"
		case n > 2:
			sz = "3..8"
		}
		p := "absent"
		if strings.HasPrefix(out, "t t") {
			p = "present"
		}
		return "map/" + sz + "/" + p
	}
	return ""
}
