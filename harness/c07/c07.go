// Package c07: correspondence and oracle for C07 (persistent hash map,
// pkg/persistent/hashmap).
//
// Keys are (id, class, hash) structs: Equal compares classes, Hash returns the
// hash field, so the generator controls exactly which 5-bit chunks of the
// hashes collide.  The real map is driven through hashmap.New(equal, hash);
// its private trie is read (never written) by reflection so that the model is
// compared with the code node by node, not only through the public API.
package c07

import (
	"encoding/binary"
	"fmt"
	"os"
	"os/exec"
	"path/filepath"
	"reflect"
	"runtime/debug"
	"sort"
	"strconv"
	"strings"

	"src.elv.sh/pkg/persistent/hashmap"
	"verifharness/common"
)

func init() {
	common.Register("C07", run)
	// A defect that makes collisionNode.assoc recurse without bound ends in a Go
	// stack overflow, which is fatal (not a recoverable panic) and kills the
	// harness: the check then reports a broken harness run.  Fail fast instead of
	// growing the stack to the default 1 GB.
	debug.SetMaxStack(64 << 20)
}

type key struct {
	id, cls int
	h       uint32
}

func (k key) String() string { return fmt.Sprintf("%d.%d.%08x", k.id, k.cls, k.h) }

func equal(a, b any) bool { return a.(key).cls == b.(key).cls }
func hash(k any) uint32   { return k.(key).h }

func parseKey(s string) (any, bool) {
	if s == "nil" {
		return nil, true
	}
	p := strings.Split(s, ".")
	if len(p) != 3 {
		return nil, false
	}
	id, e1 := strconv.Atoi(p[0])
	cls, e2 := strconv.Atoi(p[1])
	h, e3 := strconv.ParseUint(p[2], 16, 32)
	if e1 != nil || e2 != nil || e3 != nil {
		return nil, false
	}
	return key{id, cls, uint32(h)}, true
}

// ---- reference dictionary (the oracle's side) -------------------------------

type refEntry struct {
	val int
}

type ref struct {
	m      map[int]refEntry // by class
	hasNil bool
	nilVal int
}

func (r *ref) clone() *ref {
	n := &ref{m: make(map[int]refEntry, len(r.m)+1), hasNil: r.hasNil, nilVal: r.nilVal}
	for k, v := range r.m {
		n.m[k] = v
	}
	return n
}

func (r *ref) size() int {
	n := len(r.m)
	if r.hasNil {
		n++
	}
	return n
}

// ---- state -------------------------------------------------------------------

type state struct {
	lawful     bool
	universe   []key
	versions   []hashmap.Map
	refs       []*ref
	prints     []uint64 // fingerprint of each version through the public API, taken at creation
	census     []census
	lastTag    string
	opIndex    int          // index of the op being executed (ops.txt line)
	progress   *os.File     // the child records opIndex here before every op
	skip       map[int]bool // ops that killed an earlier child run: reported as PANIC, not executed
	limit      int          // ≥ 0: ops after this index are not executed
	afterFatal bool
	thorough   bool
	boxed      []any // universe keys as interface values (avoids re-boxing in fingerprint)
	events     map[string]int
}

// census of a trie: how many nodes of each kind at each depth.
type census struct {
	bitmaps, arrays, colls [10]int
	collEntries            int
	singleColl             int
	collBelowRoot          int
}

func mix(a, b, c uint64) uint64 {
	z := a*0x9E3779B97F4A7C15 ^ b*0xBF58476D1CE4E5B9 ^ c*0x94D049BB133111EB
	z ^= z >> 29
	z *= 0xD6E8FEB86659FD93
	z ^= z >> 32
	return z
}

// fingerprint observes a map through the public API only: Len, Index of every
// universe key and of nil, and the multiset of iterated entries (keys by class).
func (st *state) fingerprint(m hashmap.Map) uint64 {
	fp := uint64(m.Len()) * 0x1234567
	for i, k := range st.boxed {
		v, ok := m.Index(k)
		if ok {
			fp += mix(uint64(i)+1, uint64(v.(int))+7, 1)
		}
	}
	if v, ok := m.Index(nil); ok {
		fp += mix(0, uint64(v.(int))+7, 2)
	}
	n := 0
	for it := m.Iterator(); it.HasElem(); it.Next() {
		k, v := it.Elem()
		n++
		if k == nil {
			fp += mix(1<<40, uint64(v.(int)), 3)
		} else {
			kk := k.(key)
			fp += mix(uint64(kk.cls), uint64(v.(int)), uint64(kk.id)+4)
		}
		if n > 100000 {
			break
		}
	}
	return fp + uint64(n)<<48
}

// ---- reading the private trie -------------------------------------------------

func shapeOfMap(m hashmap.Map, c *census) string {
	v := reflect.ValueOf(m).Elem()
	return shapeOfNode(v.FieldByName("root"), 0, c)
}

func kvString(e reflect.Value) string {
	k := e.Field(0).Elem() // key struct
	v := e.Field(1).Elem()
	return fmt.Sprintf("%d.%d.%08x=%d", k.Field(0).Int(), k.Field(1).Int(), uint32(k.Field(2).Uint()), v.Int())
}

// n is a Value of interface type `node` (or `any` holding a node).
func shapeOfNode(n reflect.Value, depth int, c *census) string {
	p := n.Elem() // pointer
	s := p.Elem() // struct
	d := depth
	if d > 9 {
		d = 9
	}
	var sb strings.Builder
	switch s.Type().Name() {
	case "bitmapNode":
		c.bitmaps[d]++
		fmt.Fprintf(&sb, "B%08x(", uint32(s.FieldByName("bitmap").Uint()))
		es := s.FieldByName("entries")
		for i := 0; i < es.Len(); i++ {
			if i > 0 {
				sb.WriteByte(' ')
			}
			e := es.Index(i)
			if e.Field(0).IsNil() {
				if e.Field(1).IsNil() {
					sb.WriteString("ZERO")
				} else {
					sb.WriteString(shapeOfNode(e.Field(1), depth+1, c))
				}
			} else {
				sb.WriteString(kvString(e))
			}
		}
		sb.WriteByte(')')
	case "arrayNode":
		c.arrays[d]++
		fmt.Fprintf(&sb, "A%d(", s.FieldByName("nChildren").Int())
		ch := s.FieldByName("children")
		for i := 0; i < ch.Len(); i++ {
			if i > 0 {
				sb.WriteByte(' ')
			}
			if ch.Index(i).IsNil() {
				sb.WriteByte('_')
			} else {
				sb.WriteString(shapeOfNode(ch.Index(i), depth+1, c))
			}
		}
		sb.WriteByte(')')
	case "collisionNode":
		c.colls[d]++
		es := s.FieldByName("entries")
		c.collEntries += es.Len()
		if es.Len() == 1 {
			c.singleColl++
		}
		if depth >= 2 {
			c.collBelowRoot++
		}
		fmt.Fprintf(&sb, "C%08x(", uint32(s.FieldByName("hash").Uint()))
		for i := 0; i < es.Len(); i++ {
			if i > 0 {
				sb.WriteByte(' ')
			}
			sb.WriteString(kvString(es.Index(i)))
		}
		sb.WriteByte(')')
	default:
		sb.WriteString("?" + s.Type().Name())
	}
	return sb.String()
}

func optInt(v any, ok bool) string {
	if !ok {
		return "-"
	}
	return strconv.Itoa(v.(int))
}

func (st *state) mapString(m hashmap.Map, withIter bool, c *census) string {
	s := fmt.Sprintf("len=%d nil=%s root=%s", m.Len(), optInt(m.Index(nil)), shapeOfMap(m, c))
	if !withIter {
		return s
	}
	var parts []string
	for it := m.Iterator(); it.HasElem(); it.Next() {
		k, v := it.Elem()
		if k == nil {
			parts = append(parts, fmt.Sprintf("nil=%d", v.(int)))
		} else {
			parts = append(parts, fmt.Sprintf("%s=%d", k.(key), v.(int)))
		}
		if len(parts) > 100000 {
			break
		}
	}
	if len(parts) == 0 {
		return s + " iter=-"
	}
	return s + " iter=" + strings.Join(parts, ",")
}

// ---- impl ----------------------------------------------------------------------

func (st *state) event(e string) {
	st.events[e]++
}

func sum(a [10]int) int {
	t := 0
	for _, x := range a {
		t += x
	}
	return t
}

// classify names what the step did to the trie, from the node census before/after.
func (st *state) classify(op string, k any, old, nw census, oldLen, newLen int) string {
	var evs []string
	add := func(e string) { evs = append(evs, e) }
	if k == nil {
		switch {
		case op == "assoc" && newLen > oldLen:
			add("nil-key-added")
		case op == "assoc":
			add("nil-key-replaced")
		case newLen < oldLen:
			add("nil-key-removed")
		default:
			add("nil-key-absent")
		}
	} else {
		for d := 0; d < 10; d++ {
			if nw.arrays[d] > old.arrays[d] {
				add(fmt.Sprintf("unpack-to-array@depth%d", d))
			}
			if nw.arrays[d] < old.arrays[d] {
				add(fmt.Sprintf("pack-to-bitmap@depth%d", d))
			}
			if nw.colls[d] > old.colls[d] && sum(nw.colls) > sum(old.colls) {
				add(fmt.Sprintf("collision-node-created@depth%d", d))
			}
			if nw.colls[d] > old.colls[d] && sum(nw.colls) == sum(old.colls) && op == "assoc" {
				add(fmt.Sprintf("collision-node-pushed-down-to@depth%d", d))
			}
			if nw.colls[d] < old.colls[d] && sum(nw.colls) < sum(old.colls) {
				add(fmt.Sprintf("collision-node-removed@depth%d", d))
			}
			if op == "assoc" && nw.bitmaps[d] > old.bitmaps[d] && sum(nw.arrays) == sum(old.arrays) {
				add(fmt.Sprintf("inner-bitmap-created@depth%d", d))
			}
			if op == "dissoc" && nw.bitmaps[d] < old.bitmaps[d] && sum(nw.arrays) == sum(old.arrays) {
				add(fmt.Sprintf("inner-bitmap-removed@depth%d", d))
			}
		}
		if sum(nw.colls) == sum(old.colls) {
			if nw.collEntries > old.collEntries {
				add("collision-node-grown")
			}
			if nw.collEntries < old.collEntries {
				add("collision-node-shrunk")
			}
		}
		if nw.singleColl > old.singleColl {
			add("single-entry-collision-node")
		}
		if nw.collBelowRoot > 0 && op == "assoc" && newLen > oldLen {
			add("insert-with-collision-node-below-root")
		}
		switch {
		case op == "assoc" && newLen == oldLen:
			add("replace")
		case op == "dissoc" && newLen == oldLen:
			add("dissoc-absent")
		case op == "assoc" && len(evs) == 0:
			add("plain-insert")
		case op == "dissoc" && len(evs) == 0:
			add("plain-remove")
		}
		if sum(nw.arrays) > 0 && op == "dissoc" && newLen < oldLen {
			add("remove-under-array")
		}
	}
	for _, e := range evs {
		st.event(e)
	}
	return op + ":" + evs[0]
}

func impl(sti any, f []string) string {
	st := sti.(*state)
	st.lastTag = ""
	i := st.opIndex
	st.opIndex++
	if st.progress != nil {
		var b [8]byte
		binary.LittleEndian.PutUint64(b[:], uint64(i))
		st.progress.WriteAt(b[:], 0)
	}
	if st.limit >= 0 && i > st.limit {
		// after a fatal op nothing more is executed: one failing input is enough,
		// and later ops would most likely kill the process again
		st.afterFatal = true
		return "NOT-RUN-AFTER-FATAL-OP"
	}
	if st.skip[i] && (f[0] == "assoc" || f[0] == "dissoc") {
		// this op killed an earlier run of the harness with a fatal Go runtime
		// error (stack overflow): same bookkeeping as for a panic
		ver, err := strconv.Atoi(f[1])
		if err == nil && ver >= 0 && ver < len(st.versions) {
			st.versions = append(st.versions, st.versions[ver])
			st.refs = append(st.refs, st.refs[ver].clone())
			st.prints = append(st.prints, st.prints[ver])
			st.census = append(st.census, st.census[ver])
		}
		panic("fatal Go runtime error (e.g. stack overflow from unbounded recursion) killed the harness at this op")
	}
	switch f[0] {
	case "reset":
		st.lawful = f[1] == "lawful"
		st.universe = nil
		st.boxed = nil
		if f[2] != "-" {
			for _, ks := range strings.Split(f[2], ",") {
				k, ok := parseKey(ks)
				if !ok || k == nil {
					return "bad-op"
				}
				st.universe = append(st.universe, k.(key))
				st.boxed = append(st.boxed, k)
			}
		}
		m := hashmap.New(equal, hash)
		st.versions = []hashmap.Map{m}
		st.refs = []*ref{{m: map[int]refEntry{}}}
		st.prints = []uint64{st.fingerprint(m)}
		var c census
		shapeOfMap(m, &c)
		st.census = []census{c}
		return "ok"
	case "assoc", "dissoc":
		ver, err := strconv.Atoi(f[1])
		if err != nil || ver < 0 || ver >= len(st.versions) {
			return "bad-version"
		}
		k, ok := parseKey(f[2])
		if !ok {
			return "bad-op"
		}
		src := st.versions[ver]
		// bookkeeping first, so that a panic leaves both sides with a new version
		nr := st.refs[ver].clone()
		var nm hashmap.Map
		idx := len(st.versions)
		st.versions = append(st.versions, src)
		st.refs = append(st.refs, nr)
		st.prints = append(st.prints, st.prints[ver])
		st.census = append(st.census, st.census[ver])
		if f[0] == "assoc" {
			val, err := strconv.Atoi(f[3])
			if err != nil {
				return "bad-op"
			}
			if k == nil {
				nr.hasNil, nr.nilVal = true, val
			} else {
				nr.m[k.(key).cls] = refEntry{val}
			}
			nm = src.Assoc(k, val)
		} else {
			if k == nil {
				nr.hasNil = false
			} else {
				delete(nr.m, k.(key).cls)
			}
			nm = src.Dissoc(k)
		}
		st.versions[idx] = nm
		var c census
		out := fmt.Sprintf("v%d %s", idx, st.mapString(nm, false, &c))
		st.census[idx] = c
		st.prints[idx] = st.fingerprint(nm)
		st.lastTag = st.classify(f[0], k, st.census[ver], c, src.Len(), nm.Len())
		return out
	case "index":
		ver, err := strconv.Atoi(f[1])
		if err != nil || ver < 0 || ver >= len(st.versions) {
			return "bad-version"
		}
		k, ok := parseKey(f[2])
		if !ok {
			return "bad-op"
		}
		v, found := st.versions[ver].Index(k)
		if !found {
			st.lastTag = "index:absent"
			return "none"
		}
		st.lastTag = "index:present"
		return "some " + strconv.Itoa(v.(int))
	case "recheck":
		st.lastTag = "recheck-all-versions"
		return fmt.Sprintf("ok %d", len(st.versions))
	case "observe":
		ver, err := strconv.Atoi(f[1])
		if err != nil || ver < 0 || ver >= len(st.versions) {
			return "bad-version"
		}
		m := st.versions[ver]
		var c census
		s := st.mapString(m, true, &c)
		var idx []string
		for _, k := range st.universe {
			idx = append(idx, optInt(m.Index(k)))
		}
		idx = append(idx, optInt(m.Index(nil)))
		st.lastTag = "observe"
		if ver < len(st.versions)-1 {
			st.lastTag = "observe:earlier-version"
		}
		return s + " idx=" + strings.Join(idx, ",")
	}
	return "bad-op"
}

// ---- oracle ----------------------------------------------------------------------

// checkAgainstRef evaluates "gives the same results as a reference dictionary,
// the size is exact, iteration yields each entry exactly once" for one version.
func (st *state) checkAgainstRef(m hashmap.Map, r *ref) (string, string) {
	if m.Len() != r.size() {
		return "wrong-size", fmt.Sprintf("Len()=%d, reference has %d entries", m.Len(), r.size())
	}
	for _, k := range st.universe {
		// look up with a key of the same class but an identity never stored
		probe := key{id: -1, cls: k.cls, h: k.h}
		v, ok := m.Index(probe)
		e, want := r.m[k.cls]
		if ok != want || (ok && v.(int) != e.val) {
			return "wrong-lookup", fmt.Sprintf("Index(%s)=%s, reference %s", k, optInt(v, ok), optInt(e.val, want))
		}
	}
	v, ok := m.Index(nil)
	if ok != r.hasNil || (ok && v.(int) != r.nilVal) {
		return "wrong-lookup-nil-key", fmt.Sprintf("Index(nil)=%s, reference %s", optInt(v, ok), optInt(r.nilVal, r.hasNil))
	}
	seen := map[int]bool{}
	seenNil := false
	n := 0
	for it := m.Iterator(); it.HasElem(); it.Next() {
		k, v := it.Elem()
		n++
		if n > r.size()+1000 {
			return "iteration-too-long", "iterator does not stop"
		}
		if k == nil {
			if seenNil {
				return "iteration-duplicate", "nil key yielded twice"
			}
			seenNil = true
			if !r.hasNil || v.(int) != r.nilVal {
				return "iteration-wrong-entry", fmt.Sprintf("yields nil=%v, reference %s", v, optInt(r.nilVal, r.hasNil))
			}
			continue
		}
		kk := k.(key)
		if seen[kk.cls] {
			return "iteration-duplicate", fmt.Sprintf("key of class %d yielded twice", kk.cls)
		}
		seen[kk.cls] = true
		e, want := r.m[kk.cls]
		if !want || e.val != v.(int) {
			return "iteration-wrong-entry", fmt.Sprintf("yields %s=%v, reference %s", kk, v, optInt(e.val, want))
		}
	}
	if n != r.size() {
		return "iteration-missing-entry", fmt.Sprintf("iterator yields %d entries, reference has %d", n, r.size())
	}
	return "", ""
}

func oracle(sti any, f []string, out string) (string, string) {
	st := sti.(*state)
	if f[0] == "reset" || !st.lawful || out == "NOT-RUN-AFTER-FATAL-OP" {
		return "", "" // unlawful eq/hash pairs are outside the property's quantifier
	}
	if out == "PANIC" || out == "TIMEOUT" {
		return "crash", out
	}
	if strings.HasPrefix(out, "bad-") {
		return "", ""
	}
	switch f[0] {
	case "assoc", "dissoc":
		idx := len(st.versions) - 1
		if c, d := st.checkAgainstRef(st.versions[idx], st.refs[idx]); c != "" {
			return c, fmt.Sprintf("version %d: %s", idx, d)
		}
		// earlier versions are never changed: re-observe them.  Thorough tier: every
		// earlier version after every step.  Quick tier: the source version and a
		// deterministic sample of the others after every step, and all of them at
		// the `recheck` op that ends each history.
		ver, _ := strconv.Atoi(f[1])
		check := func(i int) (string, string) {
			if st.fingerprint(st.versions[i]) != st.prints[i] {
				c, d := st.checkAgainstRef(st.versions[i], st.refs[i])
				return "earlier-version-changed", fmt.Sprintf("version %d observed differently after creating version %d from version %d (%s %s)", i, idx, ver, c, d)
			}
			return "", ""
		}
		if st.thorough {
			for i := 0; i < idx; i++ {
				if c, d := check(i); c != "" {
					return c, d
				}
			}
		} else {
			if c, d := check(ver); c != "" {
				return c, d
			}
			z := uint64(idx)*0x9E3779B97F4A7C15 + 12345
			for t := 0; t < 6 && idx > 1; t++ {
				z = z*6364136223846793005 + 1442695040888963407
				if c, d := check(int((z >> 33) % uint64(idx))); c != "" {
					return c, d
				}
			}
		}
	case "recheck":
		for i := range st.versions {
			if c, d := st.checkAgainstRef(st.versions[i], st.refs[i]); c != "" {
				return c, fmt.Sprintf("version %d at the end of the history: %s", i, d)
			}
			if st.fingerprint(st.versions[i]) != st.prints[i] {
				return "earlier-version-changed", fmt.Sprintf("version %d observed differently at the end of the history than at its creation", i)
			}
		}
	case "index":
		ver, _ := strconv.Atoi(f[1])
		k, _ := parseKey(f[2])
		r := st.refs[ver]
		want, has := "none", false
		if k == nil {
			if r.hasNil {
				want, has = "some "+strconv.Itoa(r.nilVal), true
			}
		} else if e, ok := r.m[k.(key).cls]; ok {
			want, has = "some "+strconv.Itoa(e.val), true
		}
		_ = has
		if out != want {
			return "wrong-lookup", fmt.Sprintf("Index(%s) on version %d = %s, reference %s", f[2], ver, out, want)
		}
	case "observe":
		ver, _ := strconv.Atoi(f[1])
		if c, d := st.checkAgainstRef(st.versions[ver], st.refs[ver]); c != "" {
			return c, fmt.Sprintf("version %d: %s", ver, d)
		}
		if st.fingerprint(st.versions[ver]) != st.prints[ver] {
			return "earlier-version-changed", fmt.Sprintf("version %d observed differently than at creation", ver)
		}
	}
	return "", ""
}

// ---- generator ---------------------------------------------------------------------

// hashes sharing the low `bits` bits with base
func sharing(r *common.Rand, base uint32, bits int) uint32 {
	if bits >= 32 {
		return base
	}
	mask := uint32(1)<<uint(bits) - 1
	return base&mask | uint32(r.U64())&^mask
}

// universe builds the classes of one history: cls → hash.
func universe(r *common.Rand) (hashes []uint32, scheme string) {
	base := uint32(r.U64())
	add := func(h uint32) { hashes = append(hashes, h) }
	// wide(d, n): n hashes sharing the low 5d bits, pairwise different in chunk d
	wide := func(b uint32, d, n int) {
		slots := 32
		if d == 6 {
			slots = 4
		}
		if n > slots {
			n = slots
		}
		perm := make([]int, slots)
		for i := range perm {
			perm[i] = i
		}
		for i := slots - 1; i > 0; i-- {
			j := r.Intn(i + 1)
			perm[i], perm[j] = perm[j], perm[i]
		}
		for _, c := range perm[:n] {
			low := uint32(0)
			if d > 0 {
				low = b & (uint32(1)<<uint(5*d) - 1)
			}
			h := low | uint32(c)<<uint(5*d)
			if d < 6 {
				h |= uint32(r.U64()) &^ (uint32(1)<<uint(5*d+5) - 1)
			}
			add(h)
		}
	}
	// collide(p, groups, size): groups of fully colliding classes, whose hashes share p low bits with base
	collide := func(p, groups, size int) {
		for g := 0; g < groups; g++ {
			h := sharing(r, base, p)
			n := r.Range(1, size)
			for i := 0; i < n; i++ {
				add(h)
			}
		}
	}
	switch r.Intn(8) {
	case 0:
		scheme = "random-hashes"
		for n := r.Range(1, 40); n > 0; n-- {
			add(uint32(r.U64()))
		}
	case 1:
		d := r.Intn(6)
		scheme = fmt.Sprintf("wide@%d", d)
		wide(base, d, r.Range(17, 32))
	case 2:
		d := r.Intn(5)
		scheme = fmt.Sprintf("wide@%d+wide@%d", d, d+1)
		wide(base, d, r.Range(17, 30))
		// a second fan-out one level below, inside one slot of the first
		wide(hashes[0], d+1, r.Range(17, 30))
	case 3:
		p := 5 * r.Intn(8)
		if p > 32 {
			p = 32
		}
		scheme = fmt.Sprintf("full-collisions-sharing-%d-bits", p)
		collide(p, r.Range(1, 8), 5)
	case 4:
		scheme = "partial-collisions-all-prefix-lengths"
		for _, p := range []int{0, 5, 10, 15, 20, 25, 30, 32} {
			for n := r.Range(1, 3); n > 0; n-- {
				add(sharing(r, base, p))
			}
		}
	case 5:
		scheme = "tiny-hash-range"
		m := r.Range(1, 4)
		for n := r.Range(2, 30); n > 0; n-- {
			add(uint32(r.Intn(m)) << uint(5*r.Intn(2)))
		}
	case 6:
		d := r.Intn(6)
		scheme = fmt.Sprintf("wide@%d+collisions", d)
		wide(base, d, r.Range(17, 28))
		n := len(hashes)
		for i := r.Range(2, 10); i > 0; i-- {
			add(hashes[r.Intn(n)]) // full collision with an existing class
		}
		for i := r.Range(0, 4); i > 0; i-- {
			add(sharing(r, hashes[r.Intn(n)], 5*r.Range(1, 6))) // near collision
		}
	default:
		scheme = "top-chunk-only"
		// hashes equal in bits 0..29, different in bits 30..31 (the 2-bit chunk at shift 30)
		for n := r.Range(2, 6); n > 0; n-- {
			add(base&0x3fffffff | uint32(r.Intn(4))<<30)
		}
		collide(30, 2, 3)
	}
	return
}

func gen(c *common.Ctx, emit func(...string)) {
	r := c.Rand
	nh := c.Scale(500, 20000)
	schemes := map[string]int{}
	for hI := 0; hI < nh; hI++ {
		hashes, scheme := universe(r)
		lawful := !r.Chance(1, 16)
		if !lawful {
			scheme = "UNLAWFUL:" + scheme
		}
		schemes[scheme]++
		var uni []key
		for cls, h := range hashes {
			uni = append(uni, key{id: 2 * cls, cls: cls, h: h})
		}
		var ks []string
		for _, k := range uni {
			ks = append(ks, k.String())
		}
		mode := "lawful"
		if !lawful {
			mode = "unlawful"
		}
		emit("reset", mode, strings.Join(ks, ","))
		// pick: a key of a random class; identity (id) varies so replacement stores a different key object
		pick := func() string {
			if r.Chance(1, 12) {
				return "nil"
			}
			k := common.Pick(r, uni)
			k.id += r.Intn(2)
			if !lawful && r.Chance(1, 3) {
				// same class, different hash: Equal keys with different Hash
				k.h = sharing(r, k.h, 5*r.Intn(7))
			}
			return k.String()
		}
		nver := 1
		// classes present in each version (exact for lawful histories; only steers the generator)
		presents := []map[int]bool{{}}
		present := presents[0]
		derive := func(src int) map[int]bool {
			n := make(map[int]bool, len(presents[src])+1)
			for k := range presents[src] {
				n[k] = true
			}
			presents = append(presents, n)
			return n
		}
		nops := r.Range(30, 90)
		if len(uni) >= 17 {
			nops = r.Range(80, 220)
		}
		// phases: grow until `hi` classes are present, shrink until `lo` are left, grow again …,
		// so that bitmap nodes are unpacked into array nodes and packed again
		lo, hi := 0, len(uni)
		newTargets := func() {
			hi = r.Range((len(uni)+1)/2, len(uni))
			if len(uni) >= 17 && hi < 17 {
				hi = r.Range(17, len(uni))
			}
			lo = r.Range(0, 8)
			if lo >= hi {
				lo = 0
			}
		}
		newTargets()
		growing := true
		for i := 0; i < nops; i++ {
			present = presents[nver-1]
			if growing && len(present) >= hi {
				growing = false
			} else if !growing && len(present) <= lo {
				growing = true
				newTargets()
			}
			src := nver - 1
			if r.Chance(1, 25) {
				// branch off an earlier version (mostly a recent one)
				if r.Bool() {
					src = r.Intn(nver)
				} else {
					src = nver - 1 - r.Intn(min(nver, 5))
				}
			}
			present = presents[src]
			pAssoc := 2
			if growing {
				pAssoc = 14
			}
			switch {
			case r.Chance(1, 9):
				emit("index", strconv.Itoa(r.Intn(nver)), pick())
			case r.Chance(1, 30):
				emit("observe", strconv.Itoa(r.Intn(nver)))
			case r.Chance(pAssoc, 16):
				ks := pick()
				if growing && r.Chance(5, 6) {
					// prefer a class not yet present: drives node growth
					for t := 0; t < 12; t++ {
						k, _ := parseKey(ks)
						if k != nil && !present[k.(key).cls] {
							break
						}
						ks = pick()
					}
				}
				present = derive(src)
				if k, _ := parseKey(ks); k != nil {
					present[k.(key).cls] = true
				}
				emit("assoc", strconv.Itoa(src), ks, strconv.Itoa(r.Intn(1000)))
				nver++
			default:
				ks := pick()
				if !growing && r.Chance(5, 6) {
					for t := 0; t < 12; t++ {
						k, _ := parseKey(ks)
						if k != nil && present[k.(key).cls] {
							break
						}
						ks = pick()
					}
				}
				present = derive(src)
				if k, _ := parseKey(ks); k != nil {
					delete(present, k.(key).cls)
				}
				emit("dissoc", strconv.Itoa(src), ks)
				nver++
			}
		}
		emit("recheck")
		// some versions are dumped once more at the end of the history
		for v := 0; v < nver; v++ {
			if v == nver-1 || r.Chance(1, 6) {
				emit("observe", strconv.Itoa(v))
			}
		}
	}
	sk := make([]string, 0, len(schemes))
	for k := range schemes {
		sk = append(sk, k)
	}
	sort.Strings(sk)
	hs := map[string]int{}
	for _, k := range sk {
		hs[k] = schemes[k]
	}
	c.Extra["hash_schemes"] = hs
	c.Extra["histories"] = nh
}

// supervise runs the harness in a child process, because a Go stack overflow
// (unbounded recursion in collisionNode.assoc is the model's FUEL outcome) is
// fatal and cannot be recovered in-process.  When the child dies, the op it was
// executing is added to the skip list (reported as PANIC) and the child is rerun.
func supervise(c *common.Ctx) error {
	exe, err := os.Executable()
	if err != nil {
		return err
	}
	prog := filepath.Join(c.Dir, "c07-progress")
	skip := ""
	for attempt := 0; attempt < 3; attempt++ {
		os.Remove(prog)
		cmd := exec.Command(exe, os.Args[1:]...)
		cmd.Env = append(os.Environ(), "VERIF_C07_CHILD=1", "VERIF_C07_SKIP="+skip)
		cmd.Stdout = os.Stdout
		var tail tailWriter
		cmd.Stderr = &tail
		err := cmd.Run()
		if err == nil {
			return nil
		}
		b, rerr := os.ReadFile(prog)
		if rerr != nil || len(b) < 8 {
			os.Stderr.Write(tail.buf)
			return fmt.Errorf("child harness failed before the first op: %v", err)
		}
		i := int(binary.LittleEndian.Uint64(b))
		fmt.Fprintf(os.Stderr, "c07: harness child died at op #%d (%v); rerunning with that op reported as PANIC\n", i, err)
		if skip != "" {
			skip += ","
		}
		skip += strconv.Itoa(i)
	}
	return fmt.Errorf("child harness keeps dying")
}

// tailWriter keeps the last few KB written to it.
type tailWriter struct{ buf []byte }

func (t *tailWriter) Write(p []byte) (int, error) {
	t.buf = append(t.buf, p...)
	if len(t.buf) > 4096 {
		t.buf = t.buf[len(t.buf)-4096:]
	}
	return len(p), nil
}

func run(c *common.Ctx) error {
	if os.Getenv("VERIF_C07_CHILD") == "" {
		return supervise(c)
	}
	st := &state{events: map[string]int{}, thorough: c.Thorough(), skip: map[int]bool{}, limit: -1}
	for _, x := range strings.Split(os.Getenv("VERIF_C07_SKIP"), ",") {
		if i, err := strconv.Atoi(x); err == nil {
			st.skip[i] = true
			st.limit = i
		}
	}
	if f, err := os.Create(filepath.Join(c.Dir, "c07-progress")); err == nil {
		st.progress = f
		defer f.Close()
	}
	c.Extra["trie_events"] = st.events
	s := &common.Std{
		Rule: "random operation histories (assoc/dissoc/index/observe on the latest or an earlier version) over a per-history key universe " +
			"whose hashes are built to share low prefixes of 0,5,…,30 or all 32 bits (fan-outs of 17–32 keys at one trie depth, nested fan-outs, " +
			"full and partial collisions, top-chunk-only differences); output = Len, nil slot, the private trie dumped node by node, " +
			"the iterator sequence and Index of every universe key; non-trivial = every op except reset; distinct by op line",
		ExhaustiveNote: "none (random histories)",
		Gen:            gen,
		NewState:       func(*common.Ctx) any { return st },
		Impl:           impl,
		Oracle:         oracle,
		Tag: func(f []string, out string) string {
			if f[0] == "reset" {
				return ""
			}
			if out == "PANIC" || out == "TIMEOUT" {
				return "crash"
			}
			if out == "NOT-RUN-AFTER-FATAL-OP" {
				return "not-run-after-fatal-op"
			}
			if st.lastTag == "" {
				return f[0]
			}
			if !st.lawful {
				return "unlawful-eq-hash:" + f[0]
			}
			return st.lastTag
		},
	}
	return s.Run(c)
}
