// Package c06: correspondence and oracle for C06 (persistent vector / lists).
//
// Op grammar (tab separated; slots are small integers naming versions):
//
//	reset                       start a new history (all slots forgotten)
//	empty d                     slot d = vector.Empty
//	mv d a                      slot d = slot a
//	conj d a x                  slot d = a.Conj(x)
//	conjn d a n x               n times Conj, values x, x+1, …
//	pop d a / popn d a n        Pop (n times)
//	assoc d a i x               slot d = a.Assoc(i, x)
//	sub d a i j                 slot d = a.SubVector(i, j)
//	index a i                   a.Index(i)
//	obs a / obsall              full observation of one / every live version:
//	                            kind, Len, digest of Index(0..len-1), digest of the iterator
//	vindex a IDX conv           vals.Index(a, IDX) with a non-slice index
//	vslice d a IDX lo hi        slot d = vals.Index(a, IDX) with a slice index
//	vassoc d a IDX conv x       slot d = vals.Assoc(a, IDX, x)
//
// IDX is `i:<int>` (typed int) or `s:<string>`; conv/lo/hi is what
// vals.ConvertListIndex (owned by C13) returns for IDX at generation time,
// or ERR.  The model replays indexList/assocList from the converted index.
package c06

import (
	"fmt"
	"math"
	"strconv"
	"strings"

	"src.elv.sh/pkg/eval/vals"
	"src.elv.sh/pkg/persistent/vector"
	"verifharness/common"
)

func init() { common.Register("C06", run) }

const nSlots = 6

// ---------------------------------------------------------------------------
// reference semantics: plain array copies

type ref struct {
	has [nSlots]bool
	nul [nSlots]bool // the reference result is "no value" (nil)
	arr [nSlots][]int
}

func atoi(s string) int {
	n, err := strconv.ParseInt(s, 10, 64)
	if err != nil {
		panic("bad int field " + s)
	}
	return int(n)
}

func cp(a []int) []int { return append([]int(nil), a...) }

// refIndex is the language reference for list indices restricted to the forms
// the generator emits (decimal integers, a..b, a..=b, omitted ends).
// ok=false means "out of range / invalid: an exception, no value".
func refIndex(idx string, n int) (slice bool, lo, hi int, ok bool) {
	body := idx[2:]
	if idx[0] == 'i' {
		k := atoi(body)
		if k < 0 {
			k += n
		}
		return false, k, 0, 0 <= k && k < n
	}
	sep := ""
	if strings.Contains(body, "..=") {
		sep = "..="
	} else if strings.Contains(body, "..") {
		sep = ".."
	}
	if sep == "" {
		k, err := strconv.Atoi(body)
		if err != nil {
			return false, 0, 0, false
		}
		if k < 0 {
			k += n
		}
		return false, k, 0, 0 <= k && k < n
	}
	p := strings.SplitN(body, sep, 2)
	lo, hi = 0, n
	if p[0] != "" {
		v, err := strconv.Atoi(p[0])
		if err != nil {
			return true, 0, 0, false
		}
		lo = v
		if lo < 0 {
			lo += n
		}
	}
	if p[1] != "" {
		v, err := strconv.Atoi(p[1])
		if err != nil {
			return true, 0, 0, false
		}
		// a..=b is a..(b+1), except that ..=-1 means "to the end"
		if sep == "..=" {
			if v == -1 {
				v = n
			} else {
				v++
			}
		}
		if v < 0 {
			v += n
			if v < 0 {
				return true, 0, 0, false
			}
		}
		hi = v
	}
	return true, lo, hi, 0 <= lo && lo <= hi && hi <= n
}

// apply updates the reference for one op.  It returns the destination slot
// (or -1) and, for index-like ops, the expected output.
func (r *ref) apply(f []string) (dst int, want string) {
	dst = -1
	set := func(d int, a []int, isNil bool) {
		r.has[d], r.nul[d], r.arr[d] = true, isNil, a
		dst = d
	}
	switch f[0] {
	case "reset":
		*r = ref{}
	case "empty":
		set(atoi(f[1]), nil, false)
	case "mv":
		d, a := atoi(f[1]), atoi(f[2])
		set(d, r.arr[a], r.nul[a])
	case "conj":
		d, a := atoi(f[1]), atoi(f[2])
		set(d, append(cp(r.arr[a]), atoi(f[3])), false)
	case "conjn":
		d, a, n, x := atoi(f[1]), atoi(f[2]), atoi(f[3]), atoi(f[4])
		b := cp(r.arr[a])
		for i := 0; i < n; i++ {
			b = append(b, x+i)
		}
		set(d, b, false)
	case "pop", "popn":
		d, a := atoi(f[1]), atoi(f[2])
		n := 1
		if f[0] == "popn" {
			n = atoi(f[3])
		}
		if n > len(r.arr[a]) {
			set(d, nil, true)
		} else {
			set(d, cp(r.arr[a][:len(r.arr[a])-n]), false)
		}
	case "assoc":
		d, a, i, x := atoi(f[1]), atoi(f[2]), atoi(f[3]), atoi(f[4])
		src := r.arr[a]
		switch {
		case i < 0 || i > len(src):
			set(d, nil, true)
		case i == len(src):
			set(d, append(cp(src), x), false)
		default:
			b := cp(src)
			b[i] = x
			set(d, b, false)
		}
	case "sub":
		d, a, i, j := atoi(f[1]), atoi(f[2]), atoi(f[3]), atoi(f[4])
		src := r.arr[a]
		if 0 <= i && i <= j && j <= len(src) {
			set(d, cp(src[i:j]), false)
		} else {
			set(d, nil, true)
		}
	case "index":
		a, i := atoi(f[1]), atoi(f[2])
		src := r.arr[a]
		if 0 <= i && i < len(src) {
			want = fmt.Sprintf("some %d", src[i])
		} else {
			want = "none"
		}
	case "vindex":
		a := atoi(f[1])
		src := r.arr[a]
		slice, lo, _, ok := refIndex(f[2], len(src))
		if slice || !ok {
			want = "ERR"
		} else {
			want = fmt.Sprintf("some %d", src[lo])
		}
	case "vslice":
		d, a := atoi(f[1]), atoi(f[2])
		src := r.arr[a]
		slice, lo, hi, ok := refIndex(f[3], len(src))
		if !slice || !ok {
			want = "ERR"
		} else {
			set(d, cp(src[lo:hi]), false)
		}
	case "vassoc":
		d, a, x := atoi(f[1]), atoi(f[2]), atoi(f[5])
		src := r.arr[a]
		slice, lo, _, ok := refIndex(f[3], len(src))
		if slice || !ok {
			want = "ERR"
		} else {
			b := cp(src)
			b[lo] = x
			set(d, b, false)
		}
	}
	return
}

// ---------------------------------------------------------------------------
// implementation state

type state struct {
	has     [nSlots]bool
	slot    [nSlots]vector.Vector
	ref     ref    // the oracle's array copies
	tag     string // branch of the last op (set by the oracle)
	srcKind string // kind of the source version of the last op (set by impl before the op runs)
	// tainted[k]: the op that produced slot k already failed the oracle (wrong
	// result or crash); it is reported once, there, and not again as a
	// "changed old version" on every later re-observation.
	tainted [nSlots]bool
}

func kindOf(v vector.Vector) string {
	if v == nil {
		return "nil"
	}
	switch fmt.Sprintf("%T", v) {
	case "*vector.vector":
		return "vec"
	case "*vector.subVector":
		return "sub"
	}
	return "other"
}

const (
	fnvOff   = 14695981039346656037
	fnvPrime = 1099511628211
)

type digest struct {
	h   uint64
	bad bool
}

func newDigest() digest { return digest{h: fnvOff} }
func (d *digest) add(x any) {
	n, ok := x.(int)
	if !ok || n < 0 {
		d.h = d.h * fnvPrime
		d.bad = true
		return
	}
	d.h = d.h*fnvPrime + uint64(n+1)
}
func (d digest) String() string {
	if d.bad {
		return "BAD"
	}
	return strconv.FormatUint(d.h, 10)
}

func describe(v vector.Vector) string {
	if v == nil {
		return "nil"
	}
	return fmt.Sprintf("%s %d", kindOf(v), v.Len())
}

func observe(v vector.Vector) string {
	if v == nil {
		return "nil"
	}
	n := v.Len()
	a := func() string {
		d := newDigest()
		for i := 0; i < n; i++ {
			x, ok := v.Index(i)
			if !ok {
				return "MISSING"
			}
			d.add(x)
		}
		return d.String()
	}()
	d := newDigest()
	for it := v.Iterator(); it.HasElem(); it.Next() {
		d.add(it.Elem())
	}
	return fmt.Sprintf("%s %d %s %s", kindOf(v), n, a, d.String())
}

func (s *state) obsAll() string {
	var sb []string
	for k := 0; k < nSlots; k++ {
		if s.has[k] {
			sb = append(sb, fmt.Sprintf("%d:%s", k, observe(s.slot[k])))
		}
	}
	return strings.Join(sb, " ")
}

func parseIdx(idx string) any {
	if idx[0] == 'i' {
		return atoi(idx[2:])
	}
	return idx[2:]
}

func showElem(x any, ok bool) string {
	if !ok {
		return "none"
	}
	if n, isInt := x.(int); isInt {
		return fmt.Sprintf("some %d", n)
	}
	return "some BAD"
}

func impl(sa any, f []string) string {
	s := sa.(*state)
	src := func(k string) (vector.Vector, bool) {
		a := atoi(k)
		return s.slot[a], s.has[a]
	}
	put := func(k string, v vector.Vector) string {
		d := atoi(k)
		s.has[d], s.slot[d] = true, v
		return describe(v)
	}
	switch f[0] {
	case "reset":
		s.has, s.slot = [nSlots]bool{}, [nSlots]vector.Vector{}
		return "ok"
	case "empty":
		return put(f[1], vector.Empty)
	case "obsall":
		return s.obsAll()
	}
	var v vector.Vector
	var ok bool
	switch f[0] {
	case "index", "obs", "vindex":
		v, ok = src(f[1])
	default:
		v, ok = src(f[2])
	}
	if !ok {
		return "no-src"
	}
	s.srcKind = kindOf(v)
	switch f[0] {
	case "mv":
		put(f[1], v)
		return "ok"
	case "conj":
		return put(f[1], v.Conj(atoi(f[3])))
	case "conjn":
		n, x := atoi(f[3]), atoi(f[4])
		for i := 0; i < n; i++ {
			v = v.Conj(x + i)
		}
		return put(f[1], v)
	case "pop":
		return put(f[1], v.Pop())
	case "popn":
		for i, n := 0, atoi(f[3]); i < n; i++ {
			v = v.Pop()
		}
		return put(f[1], v)
	case "assoc":
		return put(f[1], v.Assoc(atoi(f[3]), atoi(f[4])))
	case "sub":
		return put(f[1], v.SubVector(atoi(f[3]), atoi(f[4])))
	case "index":
		return showElem(v.Index(atoi(f[2])))
	case "obs":
		return observe(v)
	case "vindex":
		r, err := vals.Index(v, parseIdx(f[2]))
		if err != nil {
			return "ERR"
		}
		return showElem(r, true)
	case "vslice":
		r, err := vals.Index(v, parseIdx(f[3]))
		if err != nil {
			return "ERR"
		}
		l, isList := r.(vals.List)
		if !isList {
			return "NOT-A-LIST"
		}
		return put(f[1], l)
	case "vassoc":
		r, err := vals.Assoc(v, parseIdx(f[3]), atoi(f[5]))
		if err != nil {
			return "ERR"
		}
		l, isList := r.(vals.List)
		if !isList {
			return "NOT-A-LIST"
		}
		return put(f[1], l)
	}
	return "bad-op"
}

// ---------------------------------------------------------------------------
// oracle: the property itself, on the real code, against the array copies

// same compares a live version with its array copy.  full=false probes only
// Len, the ends, the tree/tail boundary and a few fixed positions.
func same(v vector.Vector, isNil bool, want []int, full bool) (msg string) {
	defer func() {
		if r := recover(); r != nil {
			msg = fmt.Sprintf("crash while observing a %d-element list: %v", len(want), r)
		}
	}()
	if isNil {
		if v != nil {
			return fmt.Sprintf("a value (len %d) where the array operation has none", v.Len())
		}
		return ""
	}
	if v == nil {
		return fmt.Sprintf("no value where the array operation gives %d elements", len(want))
	}
	n := len(want)
	if v.Len() != n {
		return fmt.Sprintf("Len %d, array %d", v.Len(), n)
	}
	if vals.Len(v) != n {
		return fmt.Sprintf("vals.Len %d, array %d", vals.Len(v), n)
	}
	for _, i := range []int{-1, n, n + 1, math.MinInt, math.MaxInt} {
		if x, ok := v.Index(i); ok || x != nil {
			return fmt.Sprintf("Index(%d) of a %d-element list is not rejected", i, n)
		}
	}
	chk := func(i int) string {
		x, ok := v.Index(i)
		if !ok || x != want[i] {
			return fmt.Sprintf("Index(%d) = %v,%v; array has %d", i, x, ok, want[i])
		}
		return ""
	}
	if !full {
		t := ((n - 1) >> 5) << 5
		for _, i := range []int{0, 1, 31, 32, 33, n / 2, t - 1, t, t + 1, n - 2, n - 1} {
			if 0 <= i && i < n {
				if m := chk(i); m != "" {
					return m
				}
			}
		}
		return ""
	}
	for i := 0; i < n; i++ {
		if m := chk(i); m != "" {
			return m
		}
	}
	k := 0
	for it := v.Iterator(); it.HasElem(); it.Next() {
		if k >= n {
			return fmt.Sprintf("iterator yields more than %d elements", n)
		}
		if x := it.Elem(); x != want[k] {
			return fmt.Sprintf("iterator element %d = %v; array has %d", k, x, want[k])
		}
		k++
	}
	if k != n {
		return fmt.Sprintf("iterator yields %d elements; array has %d", k, n)
	}
	k = 0
	bad := ""
	vals.Iterate(v, func(x any) bool {
		if k >= n || x != want[k] {
			bad = fmt.Sprintf("vals.Iterate element %d = %v", k, x)
			return false
		}
		k++
		return true
	})
	if bad != "" {
		return bad
	}
	if k != n {
		return fmt.Sprintf("vals.Iterate yields %d elements; array has %d", k, n)
	}
	return ""
}

func treeSizeOf(n int) int {
	if n < 32 {
		return 0
	}
	return ((n - 1) >> 5) << 5
}

func heightOf(n int) int {
	t, h := treeSizeOf(n), 0
	for c := 32; c < t; c *= 32 {
		h++
	}
	return h
}

func oracle(sa any, f []string, out string) (string, string) {
	s := sa.(*state)
	s.tag = ""
	op := f[0]
	// the state before the op, for the tag
	srcKind, srcLen := "", 0
	var srcSlot int = -1
	switch op {
	case "index", "obs", "vindex":
		srcSlot = atoi(f[1])
	case "reset", "empty", "obsall":
	default:
		srcSlot = atoi(f[2])
	}
	if srcSlot >= 0 {
		srcLen = len(s.ref.arr[srcSlot])
		srcKind = s.srcKind
	}
	dst, want := s.ref.apply(f)
	s.tag = tagOf(f, srcKind, srcLen, &s.ref, dst, want)
	if op == "reset" {
		s.tainted = [nSlots]bool{}
	}
	if dst >= 0 {
		s.tainted[dst] = false
		if op == "mv" {
			s.tainted[dst] = s.tainted[srcSlot]
		}
	}
	if out == "PANIC" || out == "TIMEOUT" {
		if dst >= 0 {
			s.tainted[dst] = true
		}
		what := "in-range"
		if dst >= 0 && s.ref.nul[dst] || want == "none" || want == "ERR" {
			what = "out-of-range"
		}
		return fmt.Sprintf("crash-%s-%s", op, what), fmt.Sprintf("%s on %s of a %d-element list", out, strings.Join(f, " "), srcLen)
	}
	if out == "no-src" {
		return "", ""
	}
	switch op {
	case "index", "vindex":
		if out != want {
			cls := "index-wrong-element"
			if want == "none" || want == "ERR" {
				cls = "index-out-of-range-accepted"
			} else if out == "none" || out == "ERR" {
				cls = "index-in-range-rejected"
			}
			return cls, fmt.Sprintf("%s of a %d-element list: got %s, array gives %s", strings.Join(f, " "), srcLen, out, want)
		}
		return "", ""
	case "vslice", "vassoc":
		if want == "ERR" || out == "ERR" {
			if out != want {
				cls := op + "-out-of-range-accepted"
				if out == "ERR" {
					cls = op + "-in-range-rejected"
				}
				s.tainted[atoi(f[1])] = true
				return cls, fmt.Sprintf("%s of a %d-element list: got %s, reference %s", strings.Join(f, " "), srcLen, out, "ERR")
			}
			return "", ""
		}
	case "obs":
		a := atoi(f[1])
		if s.tainted[a] {
			return "", ""
		}
		if m := same(s.slot[a], s.ref.nul[a], s.ref.arr[a], true); m != "" {
			return "old-version-changed", fmt.Sprintf("slot %d: %s", a, m)
		}
		return "", ""
	case "obsall":
		for k := 0; k < nSlots; k++ {
			if s.tainted[k] {
				continue
			}
			if s.ref.has[k] != s.has[k] {
				return "slot-table", fmt.Sprintf("slot %d presence differs", k)
			}
			if !s.has[k] {
				continue
			}
			if m := same(s.slot[k], s.ref.nul[k], s.ref.arr[k], true); m != "" {
				return "old-version-changed", fmt.Sprintf("slot %d: %s", k, m)
			}
		}
		return "", ""
	}
	if dst < 0 {
		return "", ""
	}
	// result of a list-producing op: compare the new version, then probe every
	// other live version (full re-observation happens on obs/obsall ops).
	if m := same(s.slot[dst], s.ref.nul[dst], s.ref.arr[dst], len(s.ref.arr[dst]) <= 80); m != "" {
		cls := op + "-wrong-result"
		if s.ref.nul[dst] && s.slot[dst] != nil {
			cls = op + "-out-of-range-accepted"
			if srcKind == "sub" {
				cls = op + "-of-slice-out-of-range-accepted"
			}
		} else if !s.ref.nul[dst] && s.slot[dst] == nil {
			cls = op + "-in-range-rejected"
		}
		s.tainted[dst] = true
		return cls, fmt.Sprintf("%s (source: %s of %d elements): %s", strings.Join(f, " "), srcKind, srcLen, m)
	}
	for k := 0; k < nSlots; k++ {
		if k == dst || !s.has[k] || !s.ref.has[k] || s.tainted[k] {
			continue
		}
		if m := same(s.slot[k], s.ref.nul[k], s.ref.arr[k], false); m != "" {
			return "old-version-changed", fmt.Sprintf("after %s slot %d: %s", strings.Join(f, " "), k, m)
		}
	}
	return "", ""
}

// tagOf names the branch of the Go code an op goes through, from the lengths
// involved (the source may be a slice: its parent's shape is not known here,
// so slices are tagged by kind only).
func tagOf(f []string, srcKind string, n int, r *ref, dst int, want string) string {
	k := srcKind
	h := heightOf(n)
	full := n >= 32 && n-treeSizeOf(n) == 32
	switch f[0] {
	case "reset", "empty", "mv":
		return ""
	case "obs", "obsall":
		return "observe"
	case "conj":
		if k != "vec" {
			return "conj-on-slice"
		}
		switch {
		case !full:
			return "conj-tail-room"
		case heightOf(n+1) > h:
			return fmt.Sprintf("conj-new-root-h%d", h+1)
		case n == 32:
			return "conj-first-leaf"
		default:
			return fmt.Sprintf("conj-push-tail-h%d", h)
		}
	case "conjn":
		return "conjn"
	case "pop":
		if k != "vec" {
			if n <= 1 {
				return "pop-on-slice-short"
			}
			return "pop-on-slice"
		}
		switch {
		case n == 0:
			return "pop-empty"
		case n == 1:
			return "pop-to-empty"
		case n-treeSizeOf(n) > 1:
			return "pop-tail"
		case heightOf(n-1) < h:
			return fmt.Sprintf("pop-shrink-to-h%d", h-1)
		default:
			return fmt.Sprintf("pop-leaf-h%d", h)
		}
	case "popn":
		return "popn"
	case "assoc", "vassoc":
		pre := f[0]
		if want == "ERR" {
			return pre + "-error"
		}
		if dst >= 0 && r.nul[dst] {
			return pre + "-out-of-range-" + k
		}
		if dst >= 0 && len(r.arr[dst]) == n+1 {
			return pre + "-at-end-" + k
		}
		if k != "vec" {
			return pre + "-on-slice"
		}
		i := 0
		if f[0] == "assoc" {
			i = atoi(f[3])
		} else {
			_, i, _, _ = refIndex(f[3], n)
		}
		if i >= treeSizeOf(n) {
			return pre + "-tail"
		}
		return fmt.Sprintf("%s-tree-h%d", pre, h)
	case "sub", "vslice":
		pre := f[0]
		if want == "ERR" {
			return pre + "-error"
		}
		if dst >= 0 && r.nul[dst] {
			return pre + "-out-of-range-" + k
		}
		if dst >= 0 && len(r.arr[dst]) == 0 {
			return pre + "-empty-" + k
		}
		return pre + "-ok-" + k
	case "index", "vindex":
		pre := f[0]
		if want == "none" {
			return pre + "-out-of-range-" + k
		}
		if want == "ERR" {
			return pre + "-error"
		}
		if k != "vec" {
			return pre + "-on-slice"
		}
		i := 0
		if f[0] == "index" {
			i = atoi(f[2])
		} else {
			_, i, _, _ = refIndex(f[2], n)
		}
		if i >= treeSizeOf(n) {
			return pre + "-tail"
		}
		return fmt.Sprintf("%s-tree-h%d", pre, h)
	}
	return ""
}

// ---------------------------------------------------------------------------
// generator

type gen struct {
	c    *common.Ctx
	emit func(...string)
	r    ref
	next int // fresh element values, so that misplaced elements are visible
}

func itoa(n int) string { return strconv.Itoa(n) }

func (g *gen) op(fields ...string) {
	// never call a method on a version that is "no value" (a nil interface)
	src := -1
	switch fields[0] {
	case "index", "obs", "vindex":
		src = atoi(fields[1])
	case "reset", "empty", "obsall":
	default:
		src = atoi(fields[2])
	}
	if src >= 0 && (!g.r.has[src] || g.r.nul[src]) {
		return
	}
	g.emit(fields...)
	g.r.apply(fields)
}

func (g *gen) fresh() int { g.next++; return g.next }

// live returns the slots holding a value (not nil).
func (g *gen) live() []int {
	var l []int
	for k := 0; k < nSlots; k++ {
		if g.r.has[k] && !g.r.nul[k] {
			l = append(l, k)
		}
	}
	return l
}

// anIndex picks an index for a list of n elements: mostly in range with the
// ends and the tree/tail boundary favoured, sometimes out of range.
func (g *gen) anIndex(n int, allowEnd bool) int {
	rd := g.c.Rand
	switch rd.Intn(20) {
	case 0:
		return -1
	case 1:
		return n + 1
	case 2:
		return n
	case 3:
		return common.Pick(rd, []int{math.MaxInt, math.MinInt, math.MaxInt - 1, -n, -n - 1, n + 31, n + 32})
	case 4, 5:
		return 0
	case 6, 7:
		return n - 1
	case 8, 9:
		t := treeSizeOf(n)
		return t + rd.Range(-2, 1)
	case 10:
		return rd.Range(0, 2) * 32
	}
	if n == 0 {
		return 0
	}
	return rd.Intn(n)
}

func (g *gen) aRange(n int) (int, int) {
	rd := g.c.Rand
	switch rd.Intn(12) {
	case 0:
		return -1, rd.Intn(n + 1)
	case 1:
		return rd.Intn(n + 1), n + 1 + rd.Intn(3)
	case 2:
		i := rd.Intn(n + 1)
		return i + 1, i
	case 3:
		return common.Pick(rd, []int{math.MinInt, -2, 0, 1}), common.Pick(rd, []int{math.MaxInt, n + 40, n + 2})
	case 4:
		return 0, n
	case 5:
		i := rd.Intn(n + 1)
		return i, i
	}
	i := rd.Intn(n + 1)
	return i, rd.Range(i, n)
}

// elvIndex builds an elvish index for a list of n elements.
func (g *gen) elvIndex(n int, slice bool) string {
	rd := g.c.Rand
	num := func(hi int) string {
		switch rd.Intn(8) {
		case 0:
			return itoa(-rd.Range(1, n+2))
		case 1:
			return itoa(hi + rd.Range(0, 2))
		}
		if hi <= 0 {
			return "0"
		}
		return itoa(rd.Intn(hi))
	}
	if !slice {
		if rd.Bool() {
			return "i:" + num(n)
		}
		return "s:" + num(n)
	}
	lo, hi := num(n+1), num(n+1)
	if a, _ := strconv.Atoi(lo); rd.Chance(2, 3) && a >= 0 {
		// make most ranges well-ordered
		hi = itoa(rd.Range(a, n))
	}
	if rd.Chance(1, 6) {
		lo = ""
	}
	if rd.Chance(1, 6) {
		hi = ""
	}
	sep := ".."
	if rd.Chance(1, 4) {
		sep = "..="
	}
	return "s:" + lo + sep + hi
}

// conv asks the real ConvertListIndex (C13's subject) for the converted index.
func conv(idx string, n int) (slice bool, lo, hi string) {
	li, err := vals.ConvertListIndex(parseIdx(idx), n)
	if err != nil {
		return false, "ERR", "ERR"
	}
	return li.Slice, itoa(li.Lower), itoa(li.Upper)
}

func (g *gen) randomOp() {
	rd := g.c.Rand
	live := g.live()
	if len(live) == 0 {
		g.op("empty", "0")
		return
	}
	a := common.Pick(rd, live)
	d := rd.Intn(nSlots)
	n := len(g.r.arr[a])
	as, ds := itoa(a), itoa(d)
	switch w := rd.Intn(100); {
	case w < 24:
		g.op("conj", ds, as, itoa(g.fresh()))
	case w < 44:
		g.op("pop", ds, as)
	case w < 58:
		g.op("assoc", ds, as, itoa(g.anIndex(n, true)), itoa(g.fresh()))
	case w < 70:
		i, j := g.aRange(n)
		g.op("sub", ds, as, itoa(i), itoa(j))
	case w < 78:
		g.op("index", as, itoa(g.anIndex(n, false)))
	case w < 82:
		k := rd.Range(1, 40)
		x := g.next + 1
		g.next += k
		g.op("conjn", ds, as, itoa(k), itoa(x))
	case w < 85:
		k := rd.Range(1, 40)
		if k > n {
			k = n
		}
		g.op("popn", ds, as, itoa(k))
	case w < 89:
		idx := g.elvIndex(n, false)
		_, lo, _ := conv(idx, n)
		g.op("vindex", as, idx, lo)
	case w < 94:
		idx := g.elvIndex(n, true)
		sl, lo, hi := conv(idx, n)
		if !sl {
			lo, hi = "ERR", "ERR"
		}
		g.op("vslice", ds, as, idx, lo, hi)
	case w < 98:
		idx := g.elvIndex(n, rd.Chance(1, 8))
		sl, lo, _ := conv(idx, n)
		if sl {
			lo = "ERR"
		}
		g.op("vassoc", ds, as, idx, lo, itoa(g.fresh()))
	default:
		g.op("mv", ds, as)
	}
}

// history: a base list of about `base` elements, then `steps` random ops,
// every version re-observed after every op.
func (g *gen) history(base, steps int) {
	g.op("reset")
	g.next = 0
	g.op("empty", "0")
	if base > 0 {
		g.next += base
		g.op("conjn", "0", "0", itoa(base), "1")
	}
	g.op("obsall")
	for i := 0; i < steps; i++ {
		g.randomOp()
		g.op("obsall")
	}
}

// chain visits every length 0..L: at each length every operation is applied
// and probed; full observations of all live versions at the lengths around
// every leaf boundary (always, up to `fullBelow`).
func (g *gen) chain(L, fullBelow int) {
	rd := g.c.Rand
	g.op("reset")
	g.next = 0
	g.op("empty", "0")
	for n := 0; n <= L; n++ {
		// slot 0 has n elements
		near := n%32 <= 2 || n%32 == 31
		bigBoundary := func(b int) bool { return n >= b-3 && n <= b+3 }
		full := n <= fullBelow && near || bigBoundary(1024+32) || bigBoundary(32768+32) || bigBoundary(1024) || bigBoundary(32768)
		x := g.fresh()
		g.op("conj", "1", "0", itoa(x))
		g.op("index", "1", itoa(n))
		g.op("index", "1", itoa(n+1))
		g.op("index", "0", itoa(n))
		g.op("index", "0", itoa(n-1))
		g.op("pop", "2", "1") // must equal slot 0
		g.op("index", "2", itoa(n-1))
		g.op("index", "2", itoa(n))
		g.op("pop", "3", "0")
		t := treeSizeOf(n)
		for _, i := range []int{0, n - 1, n, n + 1, -1, t - 1, t, rd.Intn(n + 1)} {
			g.op("assoc", "4", "0", itoa(i), itoa(g.fresh()))
			g.op("index", "4", itoa(i))
			g.op("index", "0", itoa(i))
		}
		i, j := g.aRange(n)
		g.op("sub", "5", "0", itoa(i), itoa(j))
		if 0 <= i && i <= j && j <= n {
			m := j - i
			g.op("index", "5", itoa(m-1))
			g.op("index", "5", itoa(m))
			g.op("conj", "4", "5", itoa(g.fresh()))
			g.op("index", "0", itoa(j))
			i2, j2 := g.aRange(m)
			g.op("sub", "4", "5", itoa(i2), itoa(j2))
			g.op("sub", "4", "5", "0", itoa(m+1))
			g.op("pop", "4", "5")
			g.op("assoc", "4", "5", itoa(g.anIndex(m, true)), itoa(g.fresh()))
		}
		if full {
			g.op("obsall")
		}
		g.op("mv", "0", "1")
	}
	g.op("obsall")
}

func run(c *common.Ctx) error {
	var stp *state
	s := &common.Std{
		Rule: "stateful histories over 6 named versions of vector.Vector / vals list values with distinct int elements: " +
			"(a) a chain visiting EVERY length 0..L (quick L=1100: heights 0,1 and the step to 2; thorough L=33900: heights 0..2 and the step to 3) applying conj, pop, assoc at {0,n-1,n,n+1,-1,tree/tail boundary,random}, SubVector, ops on the slice and slices of the slice, with probes of old and new versions; " +
			"(b) random histories (conj/pop/assoc/sub/index/conjn/popn/vals.Index/vals.Assoc with in-range, boundary, out-of-range and ±MaxInt indices) from base lengths around 0, 32, 33, 64, 65, 1024+32, 1056, 1057, 32768+32, every live version fully re-observed (Len, every Index, iterator, vals.Len, vals.Iterate) after every op; " +
			"non-trivial = every op except reset/empty/mv; distinct by op line",
		ExhaustiveNote: "every length 0..L visited with every operation (positions sampled at the ends, the tree/tail boundary and one random position)",
		Exhaustive:     false,
		NewState: func(c *common.Ctx) any {
			stp = &state{}
			return stp
		},
		Gen: func(c *common.Ctx, emit func(...string)) {
			g := &gen{c: c, emit: emit}
			g.chain(c.Scale(1100, 33900), c.Scale(1100, 2200))
			rd := c.Rand
			// small lists: all the height-0/1 boundaries
			for i, n := 0, c.Scale(900, 20000); i < n; i++ {
				base := common.Pick(rd, []int{0, 0, 1, 2, 30, 31, 32, 33, 34, 62, 63, 64, 65, 66, 95, 96, 97})
				g.history(base, rd.Range(10, 40))
			}
			// around the step to height 2 (1024+32 → 1056/1057) and height-1 leaves
			for i, n := 0, c.Scale(60, 1000); i < n; i++ {
				base := common.Pick(rd, []int{1022, 1024, 1025, 1054, 1055, 1056, 1057, 1058, 1088, 1089, 2080, 2081})
				g.history(base+rd.Range(-1, 1), rd.Range(8, 24))
			}
			// around the step to height 3 (32768+32)
			for i, n := 0, c.Scale(3, 40); i < n; i++ {
				base := common.Pick(rd, []int{32768 + 30, 32768 + 32, 32768 + 33, 32768 + 31})
				g.history(base, rd.Range(8, 16))
			}
		},
		Impl:   impl,
		Oracle: oracle,
		Tag: func(f []string, out string) string {
			if stp == nil {
				return ""
			}
			return stp.tag
		},
	}
	return s.Run(c)
}
