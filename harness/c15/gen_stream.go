package c15

import (
	"verifharness/common"
)

// Generator for the pure value-stream / container builtins
// (lean/ElvModel/C15/Builtins.lean and the stream commands of Interp.lean).
//
// Lesson of the seeded change C15-compact-drops-leading-nil: a stream command
// must be fed values that coincide with the zero values an implementation may
// use as a sentinel ($nil, $false, '', [], [&], 0) at EVERY position of the
// stream — first, last, alone, repeated at the head, repeated at the end — and
// streams of every small shape (empty, one value, runs).  Streams are built
// from run patterns over up to three distinct edge values; every command is
// fed through a pipeline, a list argument and a variable.

// edgePool: constructors of edge values; entries of one group are equal values
// written differently, different groups are different values.
var edgePool = [][]func() *Expr{
	{func() *Expr { return vr("nil") }},
	{func() *Expr { return vr("false") }},
	{func() *Expr { return vr("true") }},
	{func() *Expr { return lit("") }},
	{func() *Expr { return list() }},
	{func() *Expr { return &Expr{K: "map"} }},
	{func() *Expr { return lit("0") }},
	{func() *Expr { return num(0) }, func() *Expr { return captF(cmd("-", lit("1"), lit("1"))) }},
	{func() *Expr { return lit("k") }, func() *Expr { return &Expr{K: "cmp", Es: []*Expr{lit("k"), lit("")}} }},
	{func() *Expr { return lit("w") }},
	{func() *Expr { return lit("é") }},
	{func() *Expr { return num(1) }},
	{func() *Expr { return lit("1") }},
	{func() *Expr { return list(vr("nil")) }},
	{func() *Expr { return list(lit("")) }},
	{func() *Expr { return list(list()) }},
	{func() *Expr { return list(lit("k")) }, func() *Expr { return captF(cmd("conj", list(), lit("k"))) }},
	{func() *Expr { return list(lit("k"), lit("w")) }},
	{func() *Expr { return mapE(lit("k"), vr("nil")) }},
	{func() *Expr { return mapE(lit(""), lit("")) }},
	{func() *Expr { return mapE(vr("nil"), lit("k")) }},
	{func() *Expr { return mapE(lit("k"), lit("w"), lit("w"), lit("k")) }, func() *Expr { return mapE(lit("w"), lit("k"), lit("k"), lit("w")) }},
	{func() *Expr { return captF(cmd("/", lit("1"), lit("2"))) }, func() *Expr { return captF(cmd("num", lit("2/4"))) }},
	{func() *Expr { return vr("ok") }},
}

// the groups that are zero values of some Go type (weighted up)
var zeroGroups = []int{0, 1, 3, 4, 5, 6, 7}

var runPatterns = []string{"", "x", "xx", "xy", "xxy", "xyy", "xyx", "xxx", "xxyy", "xyyx", "xxyxx", "xyz", "xyzzy", "xxxyz", "xyxyx", "xyzz", "xxyzz"}

func (g *gen) edgeGroup() int {
	if g.chance(1, 2) {
		return common.Pick(g.r, zeroGroups)
	}
	return g.r.Intn(len(edgePool))
}

func (g *gen) edgeOf(group int) *Expr { return common.Pick(g.r, edgePool[group])() }

func (g *gen) edgeVal() *Expr { return g.edgeOf(g.edgeGroup()) }

// edgeStream: values following a run pattern; x, y, z are different values,
// x mostly a zero value.
func (g *gen) edgeStream() []*Expr {
	pat := common.Pick(g.r, runPatterns)
	x := g.edgeGroup()
	if g.chance(1, 2) {
		x = common.Pick(g.r, zeroGroups) // a zero value first
	}
	y := g.edgeGroup()
	for y == x {
		y = g.r.Intn(len(edgePool))
	}
	z := g.edgeGroup()
	for z == x || z == y {
		z = g.r.Intn(len(edgePool))
	}
	var out []*Expr
	for _, c := range pat {
		switch c {
		case 'x':
			out = append(out, g.edgeOf(x))
		case 'y':
			out = append(out, g.edgeOf(y))
		default:
			out = append(out, g.edgeOf(z))
		}
	}
	if g.chance(1, 6) && len(out) > 0 { // rotate: the zero value last
		out = append(out[1:], out[0])
	}
	return out
}

// feed: the command `name fixed...` applied to the stream in one of three
// ways; decls receives a `var` statement when the stream goes through a variable.
func (g *gen) feed(name string, fixed []*Expr, stream []*Expr, decls *[]*Pipeline, more ...*Form) *Pipeline {
	switch g.choose(3, 3, 1) {
	case 0:
		g.feat("stream-from-pipeline")
		fs := []*Form{cmd("put", stream...), cmd(name, fixed...)}
		return pipe(append(fs, more...)...)
	case 1:
		g.feat("stream-from-list-argument")
		fs := []*Form{cmd(name, append(append([]*Expr{}, fixed...), list(stream...))...)}
		return pipe(append(fs, more...)...)
	default:
		g.feat("stream-from-variable")
		*decls = append(*decls, pipe(varF("es", list(stream...))))
		fs := []*Form{cmd(name, append(append([]*Expr{}, fixed...), vr("es"))...)}
		return pipe(append(fs, more...)...)
	}
}

var countLits = []string{"0", "1", "2", "3", "-1", "9"}

// streamStmt: one statement (plus declarations) exercising a pure builtin.
func (g *gen) streamStmt(d int) []*Pipeline {
	g.feat("pure-builtin")
	var out []*Pipeline
	add := func(p *Pipeline) []*Pipeline { return append(out, p) }
	switch g.choose(8, 3, 3, 2, 2, 2, 3, 3, 2, 3, 3, 3, 3, 2, 2, 3, 2, 2, 3) {
	case 0:
		g.feat("compact")
		st := g.edgeStream()
		switch g.choose(4, 1, 1, 1) {
		case 0:
			return add(g.feed("compact", nil, st, &out))
		case 1:
			g.feat("compact-then-count")
			return add(g.feed("compact", nil, st, &out, cmd("count")))
		case 2:
			g.feat("compact-twice")
			return add(g.feed("compact", nil, st, &out, cmd("compact")))
		default:
			g.feat("drop-then-compact")
			return add(pipe(cmd("put", st...), cmd("drop", lit(common.Pick(g.r, []string{"0", "1", "2"}))), cmd("compact")))
		}
	case 1:
		g.feat("compact-string")
		return add(pipe(cmd("compact", lit(common.Pick(g.r, []string{"", "k", "kk", "kkw", "kww", "kwk", "éék", "00"})))))
	case 2:
		g.feat("compact-closures")
		out = append(out, pipe(varF("ef", lamE(nil, "", nil))), pipe(varF("eg", lamE(nil, "", nil))))
		var st []*Expr
		for _, c := range common.Pick(g.r, []string{"f", "ff", "fg", "ffg", "fgg", "fgf", "nff", "fnnf"}) {
			switch c {
			case 'f':
				st = append(st, vr("ef"))
			case 'g':
				st = append(st, vr("eg"))
			default:
				st = append(st, vr("nil"))
			}
		}
		return add(pipe(cmd("put", st...), cmd("compact"), cmd("count")))
	case 3:
		g.feat("take-edge")
		return add(g.feed("take", []*Expr{lit(common.Pick(g.r, countLits))}, g.edgeStream(), &out))
	case 4:
		g.feat("drop-edge")
		return add(g.feed("drop", []*Expr{lit(common.Pick(g.r, countLits))}, g.edgeStream(), &out))
	case 5:
		g.feat("all-one-edge")
		return add(g.feed(common.Pick(g.r, []string{"all", "one", "one", "count"}), nil, g.edgeStream(), &out))
	case 6:
		g.feat("count-container")
		return add(pipe(cmd("count", g.containerOrNot())))
	case 7:
		g.feat("has-key-edge")
		return add(pipe(cmd("has-key", g.containerOrNot(), g.keyVal())))
	case 8:
		g.feat("has-value")
		c := g.containerOrNot()
		v := g.edgeVal()
		if g.chance(1, 2) {
			v = lit(common.Pick(g.r, []string{"k", "w", "", "é", "kw"}))
		}
		return add(pipe(cmd("has-value", c, v)))
	case 9:
		g.feat("keys")
		m := g.containerOrNot()
		if g.chance(2, 3) {
			m = g.edgeMap()
		}
		switch g.choose(2, 2, 1) {
		case 0:
			return add(pipe(cmd("keys", m), cmd("count")))
		case 1: // maps with string keys only: sorted
			sm := g.strKeyMap()
			return add(pipe(cmd("keys", sm), cmd("order")))
		default:
			return add(pipe(cmd("put", list(captF(cmd("keys", m)))), cmd("each", lamE([]string{"x"}, "", nil, cmd("count", vr("x"))))))
		}
	case 10:
		g.feat("assoc")
		return add(pipe(cmd("assoc", g.containerOrNot(), g.keyVal(), g.edgeVal())))
	case 11:
		g.feat("dissoc")
		c := g.containerOrNot()
		if g.chance(2, 3) {
			c = g.edgeMap()
		}
		return add(pipe(cmd("dissoc", c, g.keyVal())))
	case 12:
		g.feat("conj")
		var args []*Expr
		if g.chance(5, 6) {
			args = append(args, list(g.edgeStream()...))
		} else {
			args = append(args, g.containerOrNot())
		}
		for n := g.choose(1, 2, 2, 1); n > 0; n-- {
			args = append(args, g.edgeVal())
		}
		return add(pipe(cmd("conj", args...)))
	case 13:
		g.feat("make-map")
		var st []*Expr
		// keys from a pool of two, so that repeated keys are frequent ("the last value is used")
		keys := []*Expr{g.keyVal(), g.keyVal()}
		for n := g.choose(1, 2, 3, 2); n > 0; n-- {
			switch g.choose(6, 1, 1, 1) {
			case 0:
				k := *common.Pick(g.r, keys)
				st = append(st, list(&k, g.edgeVal()))
			case 1:
				st = append(st, lit(common.Pick(g.r, []string{"kv", "kk", "", "k", "kvw"})))
			case 2:
				st = append(st, list(g.edgeStream()...))
			default:
				st = append(st, g.edgeVal())
			}
		}
		if g.chance(1, 8) {
			return add(pipe(cmd("make-map", g.edgeVal())))
		}
		return add(g.feed("make-map", nil, st, &out))
	case 14:
		g.feat("repeat")
		n := lit(common.Pick(g.r, []string{"0", "1", "2", "3", "-1"}))
		switch g.choose(4, 1, 1) {
		case 0:
			return add(pipe(cmd("repeat", n, g.edgeVal())))
		case 1:
			g.feat("repeat-then-compact")
			return add(pipe(cmd("repeat", n, g.edgeVal()), cmd("compact")))
		default:
			return add(pipe(cmd("repeat", g.edgeVal(), g.edgeVal())))
		}
	case 15:
		g.feat("eq-edge")
		name := common.Pick(g.r, []string{"eq", "eq", "not-eq", "is"})
		var args []*Expr
		switch g.choose(1, 1, 5, 2) {
		case 0:
		case 1:
			args = []*Expr{g.edgeVal()}
		case 2:
			a := g.edgeGroup()
			b := a
			if g.chance(1, 2) {
				b = g.edgeGroup()
			}
			args = []*Expr{g.edgeOf(a), g.edgeOf(b)}
		default:
			a := g.edgeGroup()
			args = []*Expr{g.edgeOf(a), g.edgeOf(a), g.edgeOf(a)}
			if g.chance(1, 2) {
				args[g.r.Intn(3)] = g.edgeVal()
			}
		}
		if name == "is" { // identity is defined for strings, booleans and $nil only
			for i := range args {
				args[i] = common.Pick(g.r, []*Expr{vr("nil"), vr("true"), vr("false"), lit(""), lit("k"), lit("0")})
			}
		}
		return add(pipe(cmd(name, args...)))
	case 16:
		g.feat("bool-not-kind-edge")
		name := common.Pick(g.r, []string{"bool", "not", "kind-of", "kind-of"})
		var args []*Expr
		for n := 1 + g.choose(6, 1); n > 0; n-- {
			args = append(args, g.edgeVal())
		}
		if g.chance(1, 10) {
			args = nil
		}
		return add(pipe(cmd(name, args...)))
	case 17:
		g.feat("nop-edge")
		f := cmd("nop", g.edgeStream()...)
		if g.chance(1, 2) {
			f.OptNames, f.OptVals = []string{"any"}, []*Expr{g.edgeVal()}
		}
		return add(pipe(f, cmd("put", lit("after-nop"))))
	default:
		g.feat("range-variants")
		ends := []string{"-2", "-1", "0", "1", "2", "3"}
		f := cmd("range", lit(common.Pick(g.r, ends)))
		if g.chance(2, 3) {
			f.Args = append(f.Args, lit(common.Pick(g.r, ends)))
		}
		if g.chance(1, 2) {
			f.OptNames, f.OptVals = []string{"step"}, []*Expr{lit(common.Pick(g.r, []string{"1", "2", "-1", "-2", "0", "1/2", "3"}))}
		}
		if g.chance(1, 12) {
			f.Args = append(f.Args, lit("1"), lit("2"))
		}
		return add(pipe(f))
	}
}

// badBuiltinStmt: a pure builtin called with the wrong number of arguments, an
// option it does not take, or a value of the wrong kind.
func (g *gen) badBuiltinStmt() *Pipeline {
	g.feat("pure-builtin-misuse")
	name := common.Pick(g.r, []string{"compact", "make-map", "repeat", "has-value", "has-key", "keys", "assoc", "dissoc", "conj",
		"take", "drop", "count", "one", "all", "not-eq", "bool", "not"})
	var args []*Expr
	for n := g.choose(2, 2, 2, 1, 1); n > 0; n-- {
		args = append(args, g.edgeVal())
	}
	// never the argument count with which the command would read the input
	// port (inside a function called from a pipeline that races with the caller)
	switch name {
	case "compact", "make-map", "count", "one", "all":
		if len(args) == 0 {
			args = append(args, g.edgeVal())
		}
	case "take", "drop":
		if len(args) == 1 {
			args = append(args, g.edgeVal())
		}
	}
	f := cmd(name, args...)
	if g.chance(1, 4) {
		f.OptNames, f.OptVals = []string{"opt"}, []*Expr{lit("k")}
	}
	if name == "keys" { // "no guaranteed order for the keys of a map"
		return pipe(f, cmd("count"))
	}
	return pipe(f)
}

func (g *gen) keyVal() *Expr {
	switch g.choose(4, 3, 2, 1) {
	case 0:
		return lit(common.Pick(g.r, []string{"k", "w", "", "zz"}))
	case 1:
		return lit(common.Pick(g.r, []string{"0", "1", "-1", "2", "-2", "0..1", "0..", "..", "1..1", "0..3", "..=0", "x..y"}))
	case 2:
		return g.edgeVal()
	default:
		return vr("nil")
	}
}

func (g *gen) strKeyMap() *Expr {
	m := &Expr{K: "map"}
	for n := g.choose(1, 2, 2, 2); n > 0; n-- {
		m.Es = append(m.Es, lit(common.Pick(g.r, []string{"k", "w", "", "zz", "é", "0"})))
		m.Vs = append(m.Vs, g.edgeVal())
	}
	return m
}

func (g *gen) edgeMap() *Expr {
	if g.chance(1, 2) {
		return g.strKeyMap()
	}
	m := &Expr{K: "map"}
	for n := g.choose(1, 2, 2); n > 0; n-- {
		m.Es = append(m.Es, g.keyVal())
		m.Vs = append(m.Vs, g.edgeVal())
	}
	return m
}

// containerOrNot: a list, map or string (often empty or holding zero values), sometimes something else.
func (g *gen) containerOrNot() *Expr {
	switch g.choose(4, 4, 3, 2) {
	case 0:
		return list(g.edgeStream()...)
	case 1:
		return g.edgeMap()
	case 2:
		return lit(common.Pick(g.r, []string{"", "k", "kw", "é", "kék", "kk"}))
	default:
		return g.edgeVal()
	}
}

// builtinProgram: a program made of pure-builtin statements only.
func (g *gen) builtinProgram() *Chunk {
	c := &Chunk{}
	for n := 1 + g.choose(2, 3, 3, 2); n > 0; n-- {
		var ps []*Pipeline
		if g.chance(1, 8) {
			ps = []*Pipeline{g.badBuiltinStmt()}
		} else {
			ps = g.streamStmt(2)
		}
		if g.chance(2, 3) {
			// keep going after a statement that throws: the exception becomes an output
			g.feat("builtin-in-try")
			c.Pipes = append(c.Pipes, pipe(&Form{K: "try", Body: &Chunk{Pipes: ps}, Var: "e", Catch: chunkF(cmd("put", vr("e")))}))
		} else {
			c.Pipes = append(c.Pipes, ps...)
		}
	}
	return c
}
