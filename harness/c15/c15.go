package c15

import (
	"encoding/json"
	"fmt"
	"os"
	"path/filepath"
	"sort"
	"strings"
	"time"

	"verifharness/common"
)

func init() { common.Register("C15", run) }

var (
	featHist         = map[string]int{}
	undefinedRef     = 0
	droppedUndefined = 0
	checked          = 0
	shrunk           = 0
	programsTotal    = 0
)

func run(c *common.Ctx) error {
	n := c.Scale(4000, 100000)
	s := &common.Std{
		Rule: "type-directed random programs of the core language (nesting depth ≤ 6, bounded loops; see harness/c15/gen.go), " +
			"printed to concrete syntax and evaluated by a fresh in-process eval.Evaler with captured value output, and as AST by the " +
			"reference interpreter (Lean driver); compared: the list of output values (canonical repr) and the exception cause class; " +
			"non-trivial = every generated program; distinct by op line",
		Timeout: 90 * time.Second,
		Gen: func(c *common.Ctx, emit func(...string)) {
			var ops []string
			if path := os.Getenv("C15_DUMP_FIXED"); path != "" {
				// maintenance: regenerate harness/corpus/C15.txt from fixed.go
				var b strings.Builder
				b.WriteString("# generated from harness/c15/fixed.go (C15_DUMP_FIXED): examples of language.md in the core, interaction cases, witnesses of the fixed element-lvalue defect\n")
				for _, p := range fixedPrograms() {
					b.WriteString("# " + p.Src(" ; ") + "\n" + opLine("ref", p) + "\n")
				}
				os.WriteFile(path, []byte(b.String()), 0o644)
			}
			for i := 0; i < n; i++ {
				size := 40 + c.Rand.Intn(160)
				p, feats := genProgram(c.Rand, size)
				for f := range feats {
					featHist[f]++
				}
				ops = append(ops, opLine("ref", p))
			}
			// The reference's verdict on every program, in one batch.  Programs on
			// which the reference is undefined (they leave the exact-number /
			// no-external-command fragment at run time) are outside the quantifier
			// of the property: dropped and counted.
			t0 := time.Now()
			if err := precomputeRef(ops); err != nil {
				fmt.Fprintln(os.Stderr, "C15: reference not available:", err)
			}
			c.Extra["reference_time_s"] = time.Since(t0).Seconds()
			kept := 0
			for _, op := range ops {
				if r, ok := refCache[op]; ok && !defined(r) {
					droppedUndefined++
					continue
				}
				kept++
				emit(strings.Split(op, "\t")...)
			}
			programsTotal = kept
		},
		Impl:   impl,
		Oracle: oracle,
		Tag:    tag,
	}
	if err := s.Run(c); err != nil {
		return err
	}
	// coverage keys of a translation-validation property (written after the run: they are counted by the oracle)
	fillExtra(c)
	p := filepath.Join(c.Dir, "stats.json")
	data, err := os.ReadFile(p)
	if err != nil {
		return err
	}
	var st map[string]any
	if err := json.Unmarshal(data, &st); err != nil {
		return err
	}
	st["extra"] = c.Extra
	out, _ := json.MarshalIndent(st, "", " ")
	return os.WriteFile(p, out, 0o644)
}

func impl(_ any, f []string) string {
	if len(f) != 4 || f[0] != "prog" {
		return "bad-op"
	}
	return runSource(common.Unhex(f[3]))
}

func tag(f []string, out string) string {
	switch {
	case out == "PANIC" || out == "TIMEOUT":
		return out
	case strings.HasPrefix(out, "ok|"):
		return "ok"
	case strings.HasPrefix(out, "compile-error"), strings.HasPrefix(out, "parse-error"):
		return strings.SplitN(out, "|", 2)[0]
	case strings.HasPrefix(out, "?("):
		k := strings.TrimPrefix(out, "?(")
		if i := strings.IndexAny(k, " )"); i >= 0 {
			k = k[:i]
		}
		return "exc:" + k
	}
	return "other"
}

// oracle: the property itself — elvish's outcome equals the reference's — plus crash/hang.
func oracle(_ any, f []string, out string) (string, string) {
	if len(f) != 4 || f[0] != "prog" {
		return "", ""
	}
	src := common.Unhex(f[3])
	if out == "PANIC" {
		return "crash", "evaluating: " + src
	}
	if out == "TIMEOUT" {
		return "hang", "evaluating: " + src
	}
	op := strings.Join(f, "\t")
	ref, err := refOutcome(op)
	if err != nil {
		return "", "" // the broken driver is reported by the check as a broken obligation
	}
	if !defined(ref) {
		undefinedRef++
		return "", ""
	}
	checked++
	if ref == out {
		return "", ""
	}
	class := "differs-from-reference"
	detail := fmt.Sprintf("program: %s ; elvish: %s ; reference: %s", strings.ReplaceAll(src, "\n", " ; "), out, ref)
	if shrunk < shrinkMax() {
		shrunk++
		if m := shrink(f[2], class); m != "" {
			detail = m + " || original " + detail
		}
	}
	return class, detail
}

// finish adds the coverage keys to stats.json (called through c.Extra before Run returns).
func fillExtra(c *common.Ctx) {
	feats := map[string]int{}
	for k, v := range featHist {
		feats[k] = v
	}
	c.Extra["programs"] = programsTotal
	c.Extra["disagreements_checked"] = checked
	c.Extra["reference_undefined"] = undefinedRef
	c.Extra["generated_dropped_reference_undefined"] = droppedUndefined
	c.Extra["features"] = feats
	var names []string
	for k := range feats {
		names = append(names, k)
	}
	sort.Strings(names)
	c.Extra["feature_names"] = names
}

func shrinkMax() int {
	if v := os.Getenv("C15_SHRINK_MAX"); v != "" {
		n := 0
		fmt.Sscan(v, &n)
		return n
	}
	return 3
}
