// Package c15: correspondence and oracle for C15 (core language programs
// evaluate as the reference interpreter lean/ElvModel/C15/Interp.lean says).
package c15

import (
	"encoding/hex"
	"regexp"
	"strings"
)

// The core AST (mirrors lean/ElvModel/C15/Syntax.lean).

type Expr struct {
	K  string  // lit var expl list map lam cap exc br idx cmp
	S  string  // lit: text; var/expl: name
	Es []*Expr // list, br, cmp: parts; idx: indices; map: keys
	Vs []*Expr // map: values
	E  *Expr   // idx: indexee
	L  *Lambda // lam
	C  *Chunk  // cap, exc
}

type Lambda struct {
	Pos      []string
	Rest     string // "" = none
	Post     []string
	OptNames []string
	OptDefs  []*Expr
	Body     *Chunk
}

type LVal struct {
	Name string
	Rest bool
	Idx  []*Expr
}

type Form struct {
	K        string // cmd decl asg del logic if while for try fn
	Sub      string // asg: var|set|tmp; logic: and|or|coalesce
	Head     *Expr  // cmd
	Args     []*Expr
	OptNames []string
	OptVals  []*Expr
	Names    []string // decl
	LVs      []*LVal  // asg, del
	Conds    []*Expr  // if
	Bodies   []*Chunk // if
	Cond     *Expr    // while; for: iterable
	Body     *Chunk   // while, for, try
	Else     *Chunk   // if, while, for, try (nil = absent)
	Var      string   // for: variable; try: catch variable ("" = none); fn: name
	Catch    *Chunk
	Finally  *Chunk
	Lam      *Expr // fn
}

type Pipeline struct{ Forms []*Form }
type Chunk struct{ Pipes []*Pipeline }

func lit(s string) *Expr     { return &Expr{K: "lit", S: s} }
func vr(s string) *Expr      { return &Expr{K: "var", S: s} }
func capt(c *Chunk) *Expr    { return &Expr{K: "cap", C: c} }
func list(es ...*Expr) *Expr { return &Expr{K: "list", Es: es} }
func cmd(head string, args ...*Expr) *Form {
	return &Form{K: "cmd", Head: lit(head), Args: args}
}
func pipe(fs ...*Form) *Pipeline   { return &Pipeline{Forms: fs} }
func chunk(ps ...*Pipeline) *Chunk { return &Chunk{Pipes: ps} }
func chunkF(fs ...*Form) *Chunk {
	c := &Chunk{}
	for _, f := range fs {
		c.Pipes = append(c.Pipes, pipe(f))
	}
	return c
}
func captF(fs ...*Form) *Expr { return capt(chunkF(fs...)) }

// ---------------------------------------------------------------- s-expression

func hx(s string) string {
	if s == "" {
		return "-"
	}
	return hex.EncodeToString([]byte(s))
}

func hxs(ss []string) string {
	var b strings.Builder
	b.WriteByte('(')
	for i, s := range ss {
		if i > 0 {
			b.WriteByte(' ')
		}
		b.WriteString(hx(s))
	}
	b.WriteByte(')')
	return b.String()
}

func sexps(es []*Expr) string {
	var b strings.Builder
	for i, e := range es {
		if i > 0 {
			b.WriteByte(' ')
		}
		b.WriteString(e.Sexp())
	}
	return b.String()
}

func (e *Expr) Sexp() string {
	switch e.K {
	case "lit", "var", "expl":
		return "(" + e.K + " " + hx(e.S) + ")"
	case "list", "br", "cmp":
		if len(e.Es) == 0 {
			return "(" + e.K + ")"
		}
		return "(" + e.K + " " + sexps(e.Es) + ")"
	case "map":
		return "(map (" + sexps(e.Es) + ") (" + sexps(e.Vs) + "))"
	case "lam":
		rest := "~"
		if e.L.Rest != "" {
			rest = hx(e.L.Rest)
		}
		return "(lam " + hxs(e.L.Pos) + " " + rest + " " + hxs(e.L.Post) + " " + hxs(e.L.OptNames) +
			" (" + sexps(e.L.OptDefs) + ") " + e.L.Body.Sexp() + ")"
	case "cap", "exc":
		return "(" + e.K + " " + e.C.Sexp() + ")"
	case "idx":
		return "(idx " + e.E.Sexp() + " (" + sexps(e.Es) + "))"
	}
	panic("bad expr kind " + e.K)
}

func lvSexps(lvs []*LVal) string {
	var parts []string
	for _, lv := range lvs {
		r := "0"
		if lv.Rest {
			r = "1"
		}
		parts = append(parts, "(lv "+hx(lv.Name)+" "+r+" ("+sexps(lv.Idx)+"))")
	}
	return strings.Join(parts, " ")
}

func optChunk(c *Chunk) string {
	if c == nil {
		return "~"
	}
	return c.Sexp()
}

func (f *Form) Sexp() string {
	switch f.K {
	case "cmd":
		return "(cmd " + f.Head.Sexp() + " (" + sexps(f.Args) + ") " + hxs(f.OptNames) + " (" + sexps(f.OptVals) + "))"
	case "decl":
		return "(decl " + hxs(f.Names) + ")"
	case "asg":
		return "(asg " + f.Sub + " (" + lvSexps(f.LVs) + ") (" + sexps(f.Args) + "))"
	case "del":
		return "(del (" + lvSexps(f.LVs) + "))"
	case "logic":
		return "(logic " + f.Sub + " (" + sexps(f.Args) + "))"
	case "if":
		var bs []string
		for _, b := range f.Bodies {
			bs = append(bs, b.Sexp())
		}
		return "(if (" + sexps(f.Conds) + ") (" + strings.Join(bs, " ") + ") " + optChunk(f.Else) + ")"
	case "while":
		return "(while " + f.Cond.Sexp() + " " + f.Body.Sexp() + " " + optChunk(f.Else) + ")"
	case "for":
		return "(for " + hx(f.Var) + " " + f.Cond.Sexp() + " " + f.Body.Sexp() + " " + optChunk(f.Else) + ")"
	case "try":
		cv := "~"
		if f.Var != "" {
			cv = hx(f.Var)
		}
		return "(try " + f.Body.Sexp() + " " + cv + " " + optChunk(f.Catch) + " " + optChunk(f.Else) + " " + optChunk(f.Finally) + ")"
	case "fn":
		return "(fn " + hx(f.Var) + " " + f.Lam.Sexp() + ")"
	}
	panic("bad form kind " + f.K)
}

func (p *Pipeline) Sexp() string {
	var parts []string
	for _, f := range p.Forms {
		parts = append(parts, f.Sexp())
	}
	return "(pipe " + strings.Join(parts, " ") + ")"
}

func (c *Chunk) Sexp() string {
	if len(c.Pipes) == 0 {
		return "(chunk)"
	}
	var parts []string
	for _, p := range c.Pipes {
		parts = append(parts, p.Sexp())
	}
	return "(chunk " + strings.Join(parts, " ") + ")"
}

// ---------------------------------------------------------------- concrete syntax

var bareRE = regexp.MustCompile(`^[a-z0-9:+-]+$`)
var keywords = map[string]bool{"else": true, "elif": true, "catch": true, "finally": true, "except": true}

func quote1(s string) string { return "'" + strings.ReplaceAll(s, "'", "''") + "'" }

// litSrc prints a string literal; mustQuote forces quotes (after a variable use).
func litSrc(s string, mustQuote bool) string {
	if !mustQuote && bareRE.MatchString(s) && !keywords[s] && s != "-" && s != "+" {
		return s
	}
	return quote1(s)
}

func srcs(es []*Expr) string {
	var parts []string
	for _, e := range es {
		parts = append(parts, e.Src())
	}
	return strings.Join(parts, " ")
}

func (l *Lambda) sig() string {
	var parts []string
	parts = append(parts, l.Pos...)
	if l.Rest != "" {
		parts = append(parts, "@"+l.Rest)
	}
	parts = append(parts, l.Post...)
	for i, n := range l.OptNames {
		parts = append(parts, "&"+n+"="+l.OptDefs[i].Src())
	}
	if len(parts) == 0 {
		return ""
	}
	return "|" + strings.Join(parts, " ") + "|"
}

func (l *Lambda) Src() string {
	body := l.Body.Src("; ")
	sig := l.sig()
	if sig == "" {
		return "{ " + body + " }"
	}
	return "{" + sig + " " + body + " }"
}

func (e *Expr) Src() string {
	switch e.K {
	case "lit":
		return litSrc(e.S, false)
	case "var":
		return "$" + e.S
	case "expl":
		return "$@" + e.S
	case "list":
		return "[" + srcs(e.Es) + "]"
	case "map":
		if len(e.Es) == 0 {
			return "[&]"
		}
		var parts []string
		for i := range e.Es {
			parts = append(parts, "&"+e.Es[i].Src()+"="+e.Vs[i].Src())
		}
		return "[" + strings.Join(parts, " ") + "]"
	case "lam":
		return e.L.Src()
	case "cap":
		return "(" + e.C.Src("; ") + ")"
	case "exc":
		return "?(" + e.C.Src("; ") + ")"
	case "br":
		return "{" + srcs(e.Es) + "}"
	case "idx":
		return e.E.Src() + "[" + srcs(e.Es) + "]"
	case "cmp":
		var b strings.Builder
		for i, p := range e.Es {
			s := p.Src()
			if p.K == "lit" {
				// after anything that is not a literal the literal is quoted (a
				// bareword would extend a variable name)
				s = litSrc(p.S, i > 0 && e.Es[i-1].K != "lit")
			}
			if strings.HasPrefix(s, "'") && strings.HasSuffix(b.String(), "'") {
				s = `"` + p.S + `"` // adjacent '..''..' would read as an escaped quote
			}
			b.WriteString(s)
		}
		return b.String()
	}
	panic("bad expr kind " + e.K)
}

func lvSrcs(lvs []*LVal) string {
	var parts []string
	for _, lv := range lvs {
		s := lv.Name
		if lv.Rest {
			s = "@" + s
		}
		for _, i := range lv.Idx {
			s += "[" + i.Src() + "]"
		}
		parts = append(parts, s)
	}
	return strings.Join(parts, " ")
}

func block(c *Chunk) string {
	if len(c.Pipes) == 0 {
		return "{ }"
	}
	return "{ " + c.Src("; ") + " }"
}

func (f *Form) Src() string {
	switch f.K {
	case "cmd":
		parts := []string{f.Head.Src()}
		if f.Head.K == "lit" {
			parts[0] = f.Head.S
		}
		for _, a := range f.Args {
			parts = append(parts, a.Src())
		}
		for i, n := range f.OptNames {
			parts = append(parts, "&"+n+"="+f.OptVals[i].Src())
		}
		return strings.Join(parts, " ")
	case "decl":
		return "var " + strings.Join(f.Names, " ")
	case "asg":
		return f.Sub + " " + lvSrcs(f.LVs) + " = " + srcs(f.Args)
	case "del":
		return "del " + lvSrcs(f.LVs)
	case "logic":
		if len(f.Args) == 0 {
			return f.Sub
		}
		return f.Sub + " " + srcs(f.Args)
	case "if":
		s := ""
		for i := range f.Conds {
			if i == 0 {
				s = "if "
			} else {
				s += " elif "
			}
			s += f.Conds[i].Src() + " " + block(f.Bodies[i])
		}
		if f.Else != nil {
			s += " else " + block(f.Else)
		}
		return s
	case "while":
		s := "while " + f.Cond.Src() + " " + block(f.Body)
		if f.Else != nil {
			s += " else " + block(f.Else)
		}
		return s
	case "for":
		s := "for " + f.Var + " " + f.Cond.Src() + " " + block(f.Body)
		if f.Else != nil {
			s += " else " + block(f.Else)
		}
		return s
	case "try":
		s := "try " + block(f.Body)
		if f.Catch != nil {
			s += " catch "
			if f.Var != "" {
				s += f.Var + " "
			}
			s += block(f.Catch)
		}
		if f.Else != nil {
			s += " else " + block(f.Else)
		}
		if f.Finally != nil {
			s += " finally " + block(f.Finally)
		}
		return s
	case "fn":
		return "fn " + f.Var + " " + f.Lam.Src()
	}
	panic("bad form kind " + f.K)
}

func (p *Pipeline) Src() string {
	var parts []string
	for _, f := range p.Forms {
		parts = append(parts, f.Src())
	}
	return strings.Join(parts, " | ")
}

func (c *Chunk) Src(sep string) string {
	var parts []string
	for _, p := range c.Pipes {
		parts = append(parts, p.Src())
	}
	return strings.Join(parts, sep)
}

// size counts AST nodes (for shrinking order and statistics).
func (c *Chunk) Size() int {
	return strings.Count(c.Sexp(), "(")
}
