package c15

// Deep copy and edit sites of the AST (for shrinking).

func cloneExprs(es []*Expr) []*Expr {
	if es == nil {
		return nil
	}
	out := make([]*Expr, len(es))
	for i, e := range es {
		out[i] = e.Clone()
	}
	return out
}

func (e *Expr) Clone() *Expr {
	if e == nil {
		return nil
	}
	c := &Expr{K: e.K, S: e.S, Es: cloneExprs(e.Es), Vs: cloneExprs(e.Vs), E: e.E.Clone(), C: e.C.Clone()}
	if e.L != nil {
		c.L = &Lambda{Pos: append([]string(nil), e.L.Pos...), Rest: e.L.Rest, Post: append([]string(nil), e.L.Post...),
			OptNames: append([]string(nil), e.L.OptNames...), OptDefs: cloneExprs(e.L.OptDefs), Body: e.L.Body.Clone()}
	}
	return c
}

func (f *Form) Clone() *Form {
	c := *f
	c.Head = f.Head.Clone()
	c.Args = cloneExprs(f.Args)
	c.OptNames = append([]string(nil), f.OptNames...)
	c.OptVals = cloneExprs(f.OptVals)
	c.Names = append([]string(nil), f.Names...)
	c.LVs = nil
	for _, lv := range f.LVs {
		c.LVs = append(c.LVs, &LVal{Name: lv.Name, Rest: lv.Rest, Idx: cloneExprs(lv.Idx)})
	}
	c.Conds = cloneExprs(f.Conds)
	c.Bodies = nil
	for _, b := range f.Bodies {
		c.Bodies = append(c.Bodies, b.Clone())
	}
	c.Cond = f.Cond.Clone()
	c.Body = f.Body.Clone()
	c.Else = f.Else.Clone()
	c.Catch = f.Catch.Clone()
	c.Finally = f.Finally.Clone()
	c.Lam = f.Lam.Clone()
	return &c
}

func (c *Chunk) Clone() *Chunk {
	if c == nil {
		return nil
	}
	out := &Chunk{}
	for _, p := range c.Pipes {
		q := &Pipeline{}
		for _, f := range p.Forms {
			q.Forms = append(q.Forms, f.Clone())
		}
		out.Pipes = append(out.Pipes, q)
	}
	return out
}

// walker visits every chunk and every expression slot of a program.
type walker struct {
	chunk func(c *Chunk)
	expr  func(slot **Expr)
	form  func(p *Pipeline, i int)
}

func (w *walker) exprs(es []*Expr) {
	for i := range es {
		w.exprSlot(&es[i])
	}
}

func (w *walker) exprSlot(slot **Expr) {
	e := *slot
	if e == nil {
		return
	}
	if w.expr != nil {
		w.expr(slot)
	}
	e = *slot
	w.exprs(e.Es)
	w.exprs(e.Vs)
	if e.E != nil {
		w.exprSlot(&e.E)
	}
	if e.L != nil {
		w.exprs(e.L.OptDefs)
		w.walkChunk(e.L.Body)
	}
	w.walkChunk(e.C)
}

func (w *walker) walkChunk(c *Chunk) {
	if c == nil {
		return
	}
	if w.chunk != nil {
		w.chunk(c)
	}
	for _, p := range c.Pipes {
		for i, f := range p.Forms {
			if w.form != nil {
				w.form(p, i)
			}
			if f.Head != nil {
				w.exprSlot(&f.Head)
			}
			w.exprs(f.Args)
			w.exprs(f.OptVals)
			for _, lv := range f.LVs {
				w.exprs(lv.Idx)
			}
			w.exprs(f.Conds)
			for _, b := range f.Bodies {
				w.walkChunk(b)
			}
			if f.Cond != nil {
				w.exprSlot(&f.Cond)
			}
			w.walkChunk(f.Body)
			w.walkChunk(f.Else)
			w.walkChunk(f.Catch)
			w.walkChunk(f.Finally)
			if f.Lam != nil {
				w.exprSlot(&f.Lam)
			}
		}
	}
}

// shrinkCandidates returns programs one edit smaller than c.
func shrinkCandidates(c *Chunk) []*Chunk {
	var out []*Chunk
	// count sites on the original
	nChunks, nExprs := 0, 0
	(&walker{chunk: func(*Chunk) { nChunks++ }, expr: func(**Expr) { nExprs++ }}).walkChunk(c)
	// 1. delete one pipeline of one chunk; 2. hoist a block of a compound command in its place
	for ci := 0; ci < nChunks; ci++ {
		var n int
		k := 0
		(&walker{chunk: func(ch *Chunk) {
			if k == ci {
				n = len(ch.Pipes)
			}
			k++
		}}).walkChunk(c)
		for pi := 0; pi < n; pi++ {
			d := c.Clone()
			k := 0
			(&walker{chunk: func(ch *Chunk) {
				if k == ci {
					ch.Pipes = append(ch.Pipes[:pi:pi], ch.Pipes[pi+1:]...)
				}
				k++
			}}).walkChunk(d)
			out = append(out, d)
			// hoists
			for h := 0; h < 6; h++ {
				d := c.Clone()
				k := 0
				done := false
				(&walker{chunk: func(ch *Chunk) {
					if k == ci && !done {
						done = true
						p := ch.Pipes[pi]
						if len(p.Forms) > 1 {
							if h < len(p.Forms) { // keep one command of a pipeline
								ch.Pipes[pi] = &Pipeline{Forms: []*Form{p.Forms[h]}}
							} else {
								ch.Pipes = nil
							}
							return
						}
						f := p.Forms[0]
						var blocks []*Chunk
						blocks = append(blocks, f.Bodies...)
						blocks = append(blocks, f.Body, f.Else, f.Catch, f.Finally)
						if f.K == "cmd" && f.Head.K == "lam" {
							blocks = append(blocks, f.Head.L.Body)
						}
						var nb []*Chunk
						for _, b := range blocks {
							if b != nil {
								nb = append(nb, b)
							}
						}
						if h < len(nb) {
							var np []*Pipeline
							np = append(np, ch.Pipes[:pi]...)
							np = append(np, nb[h].Pipes...)
							np = append(np, ch.Pipes[pi+1:]...)
							ch.Pipes = np
						} else {
							ch.Pipes = nil // marks "no candidate"
						}
					}
					k++
				}}).walkChunk(d)
				if d.Sexp() != c.Sexp() && (len(d.Pipes) > 0) {
					out = append(out, d)
				}
			}
		}
	}
	// 3. replace an expression by one of its parts, or by a literal
	for ei := 0; ei < nExprs; ei++ {
		for h := 0; h < 5; h++ {
			d := c.Clone()
			k := 0
			changed := false
			(&walker{expr: func(slot **Expr) {
				if k == ei && !changed {
					e := *slot
					var parts []*Expr
					parts = append(parts, e.Es...)
					parts = append(parts, e.Vs...)
					if e.E != nil {
						parts = append(parts, e.E)
					}
					switch {
					case h == 0 && e.K != "lit" && e.K != "lam":
						*slot = lit("w")
						changed = true
					case h == 1 && e.K != "lit" && e.K != "lam":
						*slot = lit("1")
						changed = true
					case h >= 2 && h-2 < len(parts) && e.K != "lam":
						*slot = parts[h-2]
						changed = true
					case h == 2 && (e.K == "cap" || e.K == "exc") && len(e.C.Pipes) > 1:
						e.C.Pipes = e.C.Pipes[len(e.C.Pipes)-1:]
						changed = true
					}
				}
				k++
			}}).walkChunk(d)
			if changed {
				out = append(out, d)
			}
		}
	}
	// 4. drop one argument of a command
	nForms := 0
	(&walker{form: func(*Pipeline, int) { nForms++ }}).walkChunk(c)
	for fi := 0; fi < nForms; fi++ {
		for ai := 0; ai < 4; ai++ {
			d := c.Clone()
			k := 0
			changed := false
			(&walker{form: func(p *Pipeline, i int) {
				if k == fi {
					f := p.Forms[i]
					if (f.K == "cmd" || f.K == "logic") && ai < len(f.Args) {
						f.Args = append(f.Args[:ai:ai], f.Args[ai+1:]...)
						changed = true
					}
				}
				k++
			}}).walkChunk(d)
			if changed {
				out = append(out, d)
			}
		}
	}
	return out
}
