package c15

import (
	"fmt"
	"strconv"

	"verifharness/common"
)

// Type-directed random generator of core-language programs.  Every random
// choice comes from g.r.  The generator mirrors elvish's static scoping so
// that programs are well-scoped (except the deliberately ill-scoped ones) and
// types its variables so that most operations succeed; errors are injected
// with small probability and arise naturally (indices, keys, arity).
//
// Termination / size: `while` only in the counter pattern, loops ≤ 4
// iterations, functions only call functions created before them, growth
// assignments inside loops and function bodies are linear.
//
// Pipelines are race-free: every command but the last is a pure producer
// (reads only literals, its own parameters and never-assigned variables, and
// either cannot throw or throws before producing / is followed by commands
// that read everything).

type tk int

const (
	tStr    tk = iota
	tInt       // typed exact integer
	tRat       // typed exact number, maybe not integral
	tNumStr    // string holding a small decimal integer
	tBool
	tNil
	tList
	tMap
	tFn
	tExc
	tAny
)

type ty struct {
	k    tk
	elem *ty    // list, map (values; keys are strings)
	sig  *fnSig // fn
}

type fnSig struct {
	pos      []*ty
	rest     *ty // element type, nil = none
	post     []*ty
	optNames []string
	optTys   []*ty
}

var (
	tyStr    = &ty{k: tStr}
	tyInt    = &ty{k: tInt}
	tyRat    = &ty{k: tRat}
	tyNumStr = &ty{k: tNumStr}
	tyBool   = &ty{k: tBool}
	tyNil    = &ty{k: tNil}
	tyExc    = &ty{k: tExc}
	tyAny    = &ty{k: tAny}
)

func listOf(t *ty) *ty { return &ty{k: tList, elem: t} }
func mapOf(t *ty) *ty  { return &ty{k: tMap, elem: t} }

func (t *ty) eq(u *ty) bool {
	if t.k != u.k {
		return false
	}
	switch t.k {
	case tList, tMap:
		return t.elem.eq(u.elem)
	case tFn:
		return t.sig == u.sig
	}
	return true
}

// data types contain no functions / exceptions (safe for eq, map values, order, …).
func (t *ty) isData() bool {
	switch t.k {
	case tFn, tExc, tAny:
		return false
	case tList, tMap:
		return t.elem.isData()
	}
	return true
}

type gvar struct {
	name   string
	t      *ty
	konst  bool // never assigned after its declaration
	lambda int  // lambda depth at declaration
}

type gen struct {
	r          *common.Rand
	frames     [][]*gvar
	fns        []*gvar // user functions defined with fn (name without ~), also in frames as name~
	budget     int
	depth      int
	loopDepth  int // enclosing loops within the current function body
	lambda     int // depth of real lambdas (function literals that are values)
	blockDepth int // >0: inside some function body or block (tmp allowed)
	inFn       bool
	pure       bool // generating a pure producer
	feats      map[string]bool
	fnCount    int
}

var strAlphabet = []string{"k", "zz", "w", "hi", "qu", "lit", "", "é", "k:w"}
var keyAlphabet = []string{"k", "w", "zz", "hi"}
var numAlphabet = []string{"0", "1", "2", "3", "5", "7", "10", "-1", "-2", "12"}
var varNames = []string{"a", "b", "c", "x", "y", "z", "i", "j", "n", "s", "t", "l", "m", "u", "v"}

func (g *gen) feat(s string) { g.feats[s] = true }

func (g *gen) chance(num, den int) bool { return g.r.Chance(num, den) }

func (g *gen) choose(weights ...int) int {
	total := 0
	for _, w := range weights {
		total += w
	}
	if total <= 0 {
		return 0
	}
	x := g.r.Intn(total)
	for i, w := range weights {
		if x < w {
			return i
		}
		x -= w
	}
	return len(weights) - 1
}

// ---------------------------------------------------------------- scopes

func (g *gen) push()    { g.frames = append(g.frames, nil) }
func (g *gen) pop()     { g.frames = g.frames[:len(g.frames)-1] }
func (g *gen) top() int { return len(g.frames) - 1 }

func (g *gen) declare(name string, t *ty, konst bool) *gvar {
	f := g.frames[g.top()]
	out := f[:0:0]
	for _, v := range f {
		if v.name != name {
			out = append(out, v)
		}
	}
	v := &gvar{name: name, t: t, konst: konst, lambda: g.lambda}
	g.frames[g.top()] = append(out, v)
	return v
}

func (g *gen) undeclare(name string) {
	f := g.frames[g.top()]
	out := f[:0:0]
	for _, v := range f {
		if v.name != name {
			out = append(out, v)
		}
	}
	g.frames[g.top()] = out
}

// visible variables, innermost first, shadowed ones removed.
func (g *gen) visible() []*gvar {
	seen := map[string]bool{}
	var out []*gvar
	for i := len(g.frames) - 1; i >= 0; i-- {
		f := g.frames[i]
		for j := len(f) - 1; j >= 0; j-- {
			if !seen[f[j].name] {
				seen[f[j].name] = true
				out = append(out, f[j])
			}
		}
	}
	return out
}

func (g *gen) varsWhere(pred func(*gvar) bool) []*gvar {
	var out []*gvar
	for _, v := range g.visible() {
		if len(v.name) > 0 && v.name[len(v.name)-1] == '~' {
			continue
		}
		if g.pure && !v.konst {
			continue
		}
		if pred(v) {
			out = append(out, v)
		}
	}
	return out
}

func (g *gen) varsOf(t *ty) []*gvar {
	return g.varsWhere(func(v *gvar) bool { return v.t.eq(t) })
}

func (g *gen) assignable(pred func(*gvar) bool) []*gvar {
	return g.varsWhere(func(v *gvar) bool { return !v.konst && pred(v) })
}

func (g *gen) newName() string {
	// mostly a fresh-ish name from the pool; sometimes deliberately one that is
	// visible already (shadowing / redeclaration)
	return common.Pick(g.r, varNames)
}

// ---------------------------------------------------------------- types

func (g *gen) randDataTy(depth int) *ty {
	switch g.choose(5, 4, 2, 2, 1, 3, 2) {
	case 0:
		return tyStr
	case 1:
		return tyInt
	case 2:
		return tyNumStr
	case 3:
		return tyBool
	case 4:
		return tyNil
	case 5:
		if depth > 0 {
			return listOf(g.randDataTy(depth - 1))
		}
		return listOf(tyStr)
	default:
		if depth > 0 {
			return mapOf(g.randDataTy(depth - 1))
		}
		return mapOf(tyInt)
	}
}

func (g *gen) randSig() *fnSig {
	s := &fnSig{}
	for n := g.choose(3, 4, 2, 1); n > 0; n-- {
		s.pos = append(s.pos, g.randDataTy(1))
	}
	if g.chance(1, 8) {
		// a function parameter (first-order: its own parameters are data)
		inner := &fnSig{}
		for n := g.choose(2, 2, 1); n > 0; n-- {
			inner.pos = append(inner.pos, g.randDataTy(0))
		}
		s.pos = append(s.pos, &ty{k: tFn, sig: inner})
	}
	if g.chance(1, 4) {
		s.rest = g.randDataTy(0)
		for n := g.choose(3, 1); n > 0; n-- {
			s.post = append(s.post, g.randDataTy(0))
		}
	}
	if g.chance(1, 4) {
		for n := 1 + g.choose(2, 1); n > 0; n-- {
			s.optNames = append(s.optNames, []string{"oa", "ob", "oc"}[len(s.optNames)])
			s.optTys = append(s.optTys, g.randDataTy(0))
		}
	}
	return s
}

// ---------------------------------------------------------------- expressions

func num(n int) *Expr { return captF(cmd("num", lit(strconv.Itoa(n)))) }

// expr generates an expression that evaluates to exactly one value of type t
// (when nothing throws).
func (g *gen) expr(t *ty, d int) *Expr {
	g.budget--
	if d <= 0 || g.budget <= 0 {
		return g.leaf(t)
	}
	// a variable of the right type, often
	if vs := g.varsOf(t); len(vs) > 0 && g.chance(2, 5) {
		return vr(common.Pick(g.r, vs).name)
	}
	// an element of a list / map variable of the right element type
	if g.chance(1, 6) {
		if e := g.elemOf(t, d); e != nil {
			return e
		}
	}
	// the output of a chunk that puts one value (output capture)
	if g.chance(1, 12) && !g.pure {
		g.feat("capture-chunk")
		return capt(g.valueChunk(t, d-1))
	}
	// a type error, rarely
	if g.chance(1, 150) && !g.pure {
		g.feat("ill-typed-expr")
		return g.expr(g.randDataTy(1), d-1)
	}
	switch t.k {
	case tStr:
		switch g.choose(4, 3, 1, 1) {
		case 0:
			return g.leaf(t)
		case 1:
			g.feat("compound")
			return g.compound(d)
		case 2: // string indexing / slicing
			g.feat("string-index")
			s := g.expr(tyStr, d-1)
			return &Expr{K: "idx", E: g.primary(s), Es: []*Expr{g.indexExpr(d-1, true)}}
		default:
			return captF(cmd("kind-of", g.expr(g.randDataTy(1), d-1)))
		}
	case tInt:
		switch g.choose(3, 4, 2, 1) {
		case 0:
			return g.leaf(t)
		case 1:
			g.feat("arith")
			op := common.Pick(g.r, []string{"+", "-", "*", "%"})
			if op == "*" {
				return captF(cmd(op, g.numArg(d-1, true), lit(common.Pick(g.r, []string{"2", "3", "-1", "0"}))))
			}
			if op == "%" {
				return captF(cmd(op, g.numArg(d-1, true), g.numArg(d-1, true)))
			}
			args := []*Expr{g.numArg(d-1, true)}
			for n := g.choose(1, 4, 1); n > 0; n-- {
				args = append(args, g.numArg(d-1, true))
			}
			return captF(cmd(op, args...))
		case 2:
			g.feat("count")
			return captF(cmd("count", g.expr(listOf(g.randDataTy(0)), d-1)))
		default:
			return captF(cmd("num", g.expr(tyNumStr, d-1)))
		}
	case tRat:
		g.feat("division")
		return captF(cmd("/", g.numArg(d-1, false), g.numArg(d-1, false)))
	case tNumStr:
		return g.leaf(t)
	case tBool:
		switch g.choose(2, 3, 2, 1, 1, 1) {
		case 0:
			return g.leaf(t)
		case 1:
			g.feat("compare")
			op := common.Pick(g.r, []string{"<", "<=", "==", "!=", ">", ">="})
			args := []*Expr{g.numArg(d-1, false), g.numArg(d-1, false)}
			if g.chance(1, 5) {
				args = append(args, g.numArg(d-1, false))
			}
			return captF(cmd(op, args...))
		case 2:
			g.feat("eq")
			u := g.randDataTy(1)
			return captF(cmd(common.Pick(g.r, []string{"eq", "eq", "not-eq"}), g.expr(u, d-1), g.expr(u, d-1)))
		case 3:
			return captF(cmd("not", g.expr(g.randDataTy(0), d-1)))
		case 4:
			g.feat("has-key")
			return captF(cmd("has-key", g.expr(mapOf(g.randDataTy(0)), d-1), lit(common.Pick(g.r, keyAlphabet))))
		default:
			return captF(cmd("bool", g.expr(g.randDataTy(0), d-1)))
		}
	case tNil:
		return g.leaf(t)
	case tList:
		switch g.choose(4, 2, 2, 1) {
		case 0:
			var es []*Expr
			for n := g.choose(1, 4, 4, 2, 1); n > 0; n-- {
				es = append(es, g.expr(t.elem, d-1))
			}
			return list(es...)
		case 1: // list with multi-valued parts
			g.feat("list-of-multi")
			return list(g.multi(t.elem, d-1), g.expr(t.elem, d-1))
		case 2: // slice
			g.feat("slice")
			return &Expr{K: "idx", E: g.primary(g.expr(t, d-1)), Es: []*Expr{g.sliceExpr()}}
		default:
			if t.elem.k == tInt {
				g.feat("range")
				return list(captF(cmd("range", lit(common.Pick(g.r, []string{"0", "2", "3", "4"})))))
			}
			return list()
		}
	case tMap:
		m := &Expr{K: "map"}
		for n := g.choose(1, 2, 2, 1); n > 0; n-- {
			m.Es = append(m.Es, lit(common.Pick(g.r, keyAlphabet)))
			m.Vs = append(m.Vs, g.expr(t.elem, d-1))
		}
		return m
	case tFn:
		return g.lambdaOf(t.sig, d-1)
	case tExc:
		g.feat("exception-capture")
		return &Expr{K: "exc", C: g.throwyChunk(d - 1)}
	case tAny:
		return g.expr(g.randDataTy(1), d-1)
	}
	return g.leaf(t)
}

// primary wraps an expression so that it can be followed by an index.
func (g *gen) primary(e *Expr) *Expr {
	switch e.K {
	case "cmp", "idx", "lam", "expl", "exc":
		return &Expr{K: "br", Es: []*Expr{e}}
	case "lit":
		if e.S == "" || !bareRE.MatchString(e.S) {
			return e
		}
	}
	return e
}

func (g *gen) leaf(t *ty) *Expr {
	if vs := g.varsOf(t); len(vs) > 0 && g.chance(1, 2) {
		return vr(common.Pick(g.r, vs).name)
	}
	switch t.k {
	case tStr:
		return lit(common.Pick(g.r, strAlphabet))
	case tInt:
		return num(g.r.Range(-2, 6))
	case tRat:
		return captF(cmd("/", lit(common.Pick(g.r, []string{"1", "3", "-5"})), lit(common.Pick(g.r, []string{"2", "3", "4"}))))
	case tNumStr:
		return lit(common.Pick(g.r, numAlphabet))
	case tBool:
		return vr(common.Pick(g.r, []string{"true", "false"}))
	case tNil:
		return vr("nil")
	case tList:
		if g.chance(1, 5) {
			return list()
		}
		if g.chance(1, 2) {
			return list(g.leaf(t.elem), g.leaf(t.elem))
		}
		return list(g.leaf(t.elem))
	case tMap:
		if g.chance(1, 2) {
			return &Expr{K: "map"}
		}
		return &Expr{K: "map", Es: []*Expr{lit(common.Pick(g.r, keyAlphabet))}, Vs: []*Expr{g.leaf(t.elem)}}
	case tFn:
		return g.lambdaOf(t.sig, 1)
	case tExc:
		return &Expr{K: "exc", C: chunkF(cmd("fail", lit(common.Pick(g.r, strAlphabet))))}
	}
	return lit("w")
}

// numArg: something arithmetic accepts (typed number, number string).
func (g *gen) numArg(d int, intOnly bool) *Expr {
	switch g.choose(4, 3, 1, 1) {
	case 0:
		return g.expr(tyNumStr, d)
	case 1:
		return g.expr(tyInt, d)
	case 2:
		if intOnly {
			return g.expr(tyInt, d)
		}
		return g.expr(tyRat, d)
	default:
		if g.chance(1, 8) && !g.pure { // wrong type
			g.feat("ill-typed-number")
			return g.expr(common.Pick(g.r, []*ty{tyStr, listOf(tyStr), tyBool}), d)
		}
		return g.expr(tyNumStr, d)
	}
}

// elemOf: an indexing expression of type t, from a visible list or map variable.
func (g *gen) elemOf(t *ty, d int) *Expr {
	vs := g.varsWhere(func(v *gvar) bool { return (v.t.k == tList || v.t.k == tMap) && v.t.elem.eq(t) })
	if len(vs) == 0 {
		return nil
	}
	v := common.Pick(g.r, vs)
	if v.t.k == tList {
		g.feat("list-index")
		return &Expr{K: "idx", E: vr(v.name), Es: []*Expr{g.indexExpr(d-1, false)}}
	}
	g.feat("map-index")
	return &Expr{K: "idx", E: vr(v.name), Es: []*Expr{lit(common.Pick(g.r, keyAlphabet))}}
}

// indexExpr: an element index (one value).
func (g *gen) indexExpr(d int, forString bool) *Expr {
	switch g.choose(6, 2, 1, 1) {
	case 0:
		return lit(common.Pick(g.r, []string{"0", "0", "0", "0", "-1", "-1", "-1", "0", "1", "1", "2", "-2", "3", "+1", "01", "-0"}))
	case 1:
		return g.expr(tyInt, d)
	case 2:
		g.feat("bad-index")
		return lit(common.Pick(g.r, []string{"w", "1.0", "", "1/2", "0x1", " 1", "1..w"}))
	default:
		if forString {
			return g.sliceExpr()
		}
		return g.expr(tyNumStr, d)
	}
}

func (g *gen) sliceExpr() *Expr {
	if g.chance(3, 4) { // valid on every list / string
		return lit(common.Pick(g.r, []string{"..", "0..", "..0", "0..0", "..=-1", "..=", "..-0"}))
	}
	return lit(common.Pick(g.r, []string{"1..", "..1", "0..2", "1..=1", "..=0", "-2..", "..-1", "2..1", "0..9", "-1..0", "1..=2", "-1.."}))
}

// compound: a compound expression of strings and numbers (→ string).
func (g *gen) compound(d int) *Expr {
	c := &Expr{K: "cmp"}
	n := 2 + g.choose(3, 2, 1)
	for i := 0; i < n; i++ {
		switch g.choose(5, 3, 1, 1, 1) {
		case 0:
			c.Es = append(c.Es, lit(common.Pick(g.r, []string{"k", "zz", ":", "w", "1", "2", "é"})))
		case 1:
			if vs := g.varsWhere(func(v *gvar) bool { return v.t.k == tStr || v.t.k == tInt || v.t.k == tNumStr }); len(vs) > 0 {
				c.Es = append(c.Es, vr(common.Pick(g.r, vs).name))
			} else {
				c.Es = append(c.Es, lit("k"))
			}
		case 2:
			c.Es = append(c.Es, g.expr(tyInt, d-1))
		case 3:
			c.Es = append(c.Es, g.expr(tyStr, d-2))
		default:
			if g.chance(1, 6) && !g.pure {
				g.feat("cannot-concat")
				c.Es = append(c.Es, &Expr{K: "br", Es: []*Expr{g.expr(common.Pick(g.r, []*ty{listOf(tyStr), tyBool, tyNil, mapOf(tyInt)}), d-1)}})
			} else {
				c.Es = append(c.Es, lit("w"))
			}
		}
	}
	for i, p := range c.Es {
		if p.K == "list" || p.K == "map" || p.K == "lam" || (i > 0 && (p.K == "idx" || p.K == "cmp")) {
			c.Es[i] = &Expr{K: "br", Es: []*Expr{p}}
		}
	}
	return c
}

// emptyPart: an expression that evaluates to NO value (a component of a
// compound expression that makes the whole product empty).  Sometimes preceded
// by the declaration of an empty list to explode.
func (g *gen) emptyPart(first bool, decls *[]*Pipeline) *Expr {
	switch g.choose(3, 3, 1, 1) {
	case 0:
		if decls != nil {
			g.feat("compound-empty-explode")
			name := "xs" + strconv.Itoa(g.r.Intn(3))
			*decls = append(*decls, pipe(&Form{K: "asg", Sub: "var", LVs: []*LVal{{Name: name}}, Args: []*Expr{list()}}))
			g.declare(name, listOf(tyStr), true)
			return &Expr{K: "expl", S: name}
		}
		fallthrough
	case 1:
		g.feat("compound-empty-capture")
		return captF(cmd("nop"))
	case 2:
		// indexing with no index value: no result
		g.feat("compound-empty-index")
		e := &Expr{K: "idx", E: list(lits("k", "w")...), Es: []*Expr{captF(cmd("nop"))}}
		if first {
			return e
		}
		return &Expr{K: "br", Es: []*Expr{e}}
	default:
		g.feat("compound-empty-all")
		return captF(cmd("all", list()))
	}
}

// compoundEmptyStmt: a compound expression in which a component that expands to
// no value is followed by components with an effect — an assignment or an
// output inside an output capture, a failing command.  Every component is
// evaluated, also when the product is empty already (language.md "Order of
// evaluation": the constituents "are evaluated first", "expression compounding
// then happens"); the effect is observed by the `put $n` that follows.
func (g *gen) compoundEmptyStmt(d int) []*Pipeline {
	if g.pure {
		return one(g.putStmt(d))
	}
	g.feat("compound-empty-then-effect")
	var out []*Pipeline
	n := "n" + strconv.Itoa(g.r.Intn(3))
	out = append(out, pipe(&Form{K: "asg", Sub: "var", LVs: []*LVal{{Name: n}}, Args: lits("0")}))
	g.declare(n, tyStr, false)
	c := &Expr{K: "cmp"}
	if g.chance(1, 2) {
		c.Es = append(c.Es, lit(common.Pick(g.r, []string{"pre", "k", "1"})))
	}
	c.Es = append(c.Es, g.emptyPart(len(c.Es) == 0, &out))
	if g.chance(1, 3) {
		c.Es = append(c.Es, lit(common.Pick(g.r, []string{"w", ":", "2"})))
	}
	setN := &Form{K: "asg", Sub: "set", LVs: []*LVal{{Name: n}}, Args: lits(common.Pick(g.r, []string{"1", "set"}))}
	for k := 1 + g.choose(3, 1); k > 0; k-- {
		switch g.choose(3, 3, 2, 1, 1) {
		case 0: // an assignment, no value
			g.feat("compound-later-assign")
			c.Es = append(c.Es, captF(setN))
		case 1: // an assignment and a value
			g.feat("compound-later-assign")
			c.Es = append(c.Es, captF(setN, cmd("put", lit("w"))))
		case 2:
			g.feat("compound-later-fail")
			c.Es = append(c.Es, captF(cmd("fail", lit(common.Pick(g.r, []string{"boom", "later"})))))
		case 3: // an exception capture with an effect; `$ok` is never concatenated: the product is empty
			g.feat("compound-later-exception-capture")
			c.Es = append(c.Es, &Expr{K: "exc", C: chunkF(setN)})
		default: // a value output to the enclosing port by a nested command
			g.feat("compound-later-call")
			c.Es = append(c.Es, captF(setN, cmd("nop", g.expr(g.randDataTy(1), d-1))))
		}
	}
	if g.chance(1, 3) {
		c.Es = append(c.Es, lit("z"))
	}
	out = append(out, pipe(cmd("put", c)), pipe(cmd("put", vr(n))))
	return out
}

// multi generates an expression that evaluates to any number of values of type t.
func (g *gen) multi(t *ty, d int) *Expr {
	g.budget--
	if d <= 0 || g.budget <= 0 {
		return g.leaf(t)
	}
	switch g.choose(3, 3, 2, 2, 2, 1) {
	case 0:
		return g.expr(t, d)
	case 1:
		g.feat("braced-list")
		b := &Expr{K: "br"}
		for n := 1 + g.choose(1, 3, 2); n > 0; n-- {
			b.Es = append(b.Es, g.expr(t, d-1))
		}
		return b
	case 2:
		if vs := g.varsOf(listOf(t)); len(vs) > 0 {
			g.feat("explode")
			return &Expr{K: "expl", S: common.Pick(g.r, vs).name}
		}
		return g.expr(t, d)
	case 3:
		g.feat("capture-multi")
		var args []*Expr
		for n := g.choose(1, 2, 3); n > 0; n-- {
			args = append(args, g.expr(t, d-1))
		}
		return captF(cmd("put", args...))
	case 4:
		g.feat("multi-index")
		l := g.expr(listOf(t), d-1)
		var idx []*Expr
		for n := g.choose(1, 2, 2); n > 0; n-- {
			idx = append(idx, g.indexExpr(d-1, false))
		}
		return &Expr{K: "idx", E: g.primary(l), Es: idx}
	default:
		if t.k == tStr || t.k == tNumStr {
			// compounding as an outer product
			g.feat("outer-product")
			c := &Expr{K: "cmp"}
			for n := 2 + g.choose(2, 1); n > 0; n-- {
				if g.chance(1, 2) {
					b := &Expr{K: "br"}
					for m := g.choose(0, 2, 3, 1); m > 0; m-- {
						b.Es = append(b.Es, lit(common.Pick(g.r, []string{"k", "w", "1", "2", ":"})))
					}
					if len(b.Es) == 0 {
						b.Es = append(b.Es, lit("k"))
					}
					c.Es = append(c.Es, b)
				} else if vs := g.varsOf(listOf(tyStr)); len(vs) > 0 && g.chance(1, 2) {
					c.Es = append(c.Es, &Expr{K: "expl", S: common.Pick(g.r, vs).name})
				} else {
					c.Es = append(c.Es, lit(common.Pick(g.r, []string{"k", "w", "1"})))
				}
			}
			if t.k == tNumStr {
				return g.expr(t, d)
			}
			if g.chance(1, 5) && !g.pure {
				// an empty component somewhere, an effectful / failing one at the end: all are evaluated
				g.feat("outer-product-empty-component")
				i := g.r.Intn(len(c.Es))
				es := append([]*Expr{}, c.Es[:i]...)
				es = append(es, g.emptyPart(i == 0, nil))
				es = append(es, c.Es[i:]...)
				if st := g.effectStmt(d - 1); st != nil && g.chance(1, 2) {
					es = append(es, capt(&Chunk{Pipes: []*Pipeline{st}}))
				} else {
					es = append(es, captF(cmd("fail", lit("cmpd"))))
				}
				c.Es = es
			}
			return c
		}
		return g.expr(t, d)
	}
}

// valueChunk: a chunk that (normally) outputs exactly one value of type t.
func (g *gen) valueChunk(t *ty, d int) *Chunk {
	c := &Chunk{}
	if g.chance(1, 3) && d > 0 {
		// some effect first
		if st := g.effectStmt(d - 1); st != nil {
			c.Pipes = append(c.Pipes, st)
		}
	}
	c.Pipes = append(c.Pipes, pipe(cmd("put", g.expr(t, d))))
	return c
}

// effectStmt: a statement without declarations (safe inside captures).
func (g *gen) effectStmt(d int) *Pipeline {
	switch g.choose(3, 2, 1) {
	case 0:
		if p := g.setStmt(d); p != nil {
			return p
		}
		return nil
	case 1:
		return pipe(cmd("nop", g.expr(g.randDataTy(1), d)))
	default:
		return g.callStmt(d)
	}
}

// throwyChunk: a chunk that may throw (for ?( ) and try bodies).
func (g *gen) throwyChunk(d int) *Chunk {
	c := &Chunk{}
	if g.chance(1, 2) {
		c.Pipes = append(c.Pipes, pipe(cmd("put", g.expr(g.randDataTy(1), d))))
	}
	switch g.choose(3, 1, 1, 1, 2) {
	case 0:
		c.Pipes = append(c.Pipes, pipe(cmd("fail", g.expr(g.randDataTy(1), d))))
	case 1:
		c.Pipes = append(c.Pipes, pipe(cmd(common.Pick(g.r, []string{"break", "continue", "return"}))))
	case 2:
		c.Pipes = append(c.Pipes, pipe(cmd("put", &Expr{K: "idx", E: list(lit("k")), Es: []*Expr{lit("5")}})))
	case 3:
		if p := g.callStmt(d); p != nil {
			c.Pipes = append(c.Pipes, p)
		}
	default:
	}
	return c
}

// lambdaOf: a function literal with the given signature.
func (g *gen) lambdaOf(sig *fnSig, d int) *Expr { return g.lambdaOfX(sig, d, false) }

func (g *gen) lambdaOfX(sig *fnSig, d int, isFn bool) *Expr {
	g.feat("lambda")
	l := &Lambda{}
	names := []string{"p", "q", "r", "g", "h", "d"}
	ni := 0
	next := func() string {
		n := names[ni%len(names)]
		ni++
		if ni > len(names) {
			n += strconv.Itoa(ni)
		}
		return n
	}
	// option defaults are evaluated where the literal is
	for i, on := range sig.optNames {
		l.OptNames = append(l.OptNames, on)
		l.OptDefs = append(l.OptDefs, g.expr(sig.optTys[i], 1))
	}
	savedLoop, savedFn, savedPure := g.loopDepth, g.inFn, g.pure
	g.push()
	g.lambda++
	g.blockDepth++
	g.loopDepth = 0
	g.inFn = isFn
	for _, t := range sig.pos {
		n := next()
		l.Pos = append(l.Pos, n)
		g.declare(n, t, t.k == tFn || g.chance(1, 2))
	}
	if sig.rest != nil {
		g.feat("rest-arg")
		l.Rest = next()
		g.declare(l.Rest, listOf(sig.rest), true)
		for _, t := range sig.post {
			n := next()
			l.Post = append(l.Post, n)
			g.declare(n, t, true)
		}
	}
	for i, on := range sig.optNames {
		g.feat("option-arg")
		g.declare(on, sig.optTys[i], true)
	}
	l.Body = g.chunk(d, 1+g.choose(2, 3, 2))
	g.blockDepth--
	g.lambda--
	g.pop()
	g.loopDepth, g.inFn, g.pure = savedLoop, savedFn, savedPure
	return &Expr{K: "lam", L: l}
}

// ---------------------------------------------------------------- statements

// blockChunk: the body of a control-flow construct (its own scope).
func (g *gen) blockChunk(d int, n int) *Chunk {
	g.push()
	g.blockDepth++
	c := g.chunk(d, n)
	g.blockDepth--
	g.pop()
	return c
}

func (g *gen) chunk(d int, n int) *Chunk {
	c := &Chunk{}
	for i := 0; i < n && g.budget > 0; i++ {
		if p := g.stmt(d); p != nil {
			c.Pipes = append(c.Pipes, p...)
		}
	}
	return c
}

func one(p *Pipeline) []*Pipeline {
	if p == nil {
		return nil
	}
	return []*Pipeline{p}
}

func (g *gen) stmt(d int) []*Pipeline {
	g.budget--
	if d <= 0 {
		return one(g.putStmt(1))
	}
	flow := 1
	if g.loopDepth > 0 {
		flow = 4
	}
	ret := 0
	if g.inFn {
		ret, flow = 3, 3
	}
	switch g.choose(10, 7, 6, 3, 4, 4, 4, 3, 3, 1, flow, ret, 3, 3, 1, 2, 1, 1, 1, 3, 1) {
	case 0:
		return one(g.putStmt(d))
	case 1:
		return one(g.varStmt(d))
	case 2:
		if p := g.setStmt(d); p != nil {
			return one(p)
		}
		return one(g.varStmt(d))
	case 3:
		return one(g.ifStmt(d))
	case 4:
		return g.whileStmt(d)
	case 5:
		return one(g.forStmt(d))
	case 6:
		return one(g.tryStmt(d))
	case 7:
		return one(g.fnStmt(d))
	case 8:
		if p := g.callStmt(d); p != nil {
			return one(p)
		}
		return one(g.fnStmt(d))
	case 9:
		g.feat("fail")
		return one(pipe(cmd("fail", g.expr(g.randDataTy(1), d-1))))
	case 10:
		g.feat("flow-command")
		return one(pipe(cmd(common.Pick(g.r, []string{"break", "continue"}))))
	case 11:
		g.feat("return")
		return one(pipe(cmd("return")))
	case 12:
		return one(g.logicStmt(d))
	case 13:
		return one(g.pipelineStmt(d))
	case 14:
		return one(g.delStmt(d))
	case 15:
		return g.closureListStmt(d)
	case 16:
		return one(g.badStmt(d))
	case 18:
		return g.compoundEmptyStmt(d)
	case 19:
		return g.streamStmt(d)
	case 20:
		return one(g.badBuiltinStmt())
	default:
		g.feat("exception-capture")
		return one(pipe(cmd("put", g.expr(tyExc, d-1))))
	}
}

func (g *gen) putStmt(d int) *Pipeline {
	var args []*Expr
	for n := 1 + g.choose(4, 2, 1); n > 0; n-- {
		if g.chance(1, 3) {
			args = append(args, g.multi(g.randDataTy(1), d-1))
		} else {
			args = append(args, g.expr(g.randDataTy(1), d-1))
		}
	}
	return pipe(cmd("put", args...))
}

func (g *gen) varStmt(d int) *Pipeline {
	if g.chance(1, 10) && !g.pure {
		g.feat("closure-variable")
		sig := g.randSig()
		e := g.lambdaOf(sig, d-1)
		name := g.newName()
		g.declare(name, &ty{k: tFn, sig: sig}, true)
		return pipe(&Form{K: "asg", Sub: "var", LVs: []*LVal{{Name: name}}, Args: []*Expr{e}})
	}
	switch g.choose(8, 2, 1, 1) {
	case 0:
		t := g.randDataTy(2)
		if g.chance(1, 8) {
			t = tyRat
		}
		e := g.expr(t, d-1)
		name := g.newName()
		g.declare(name, t, g.chance(1, 4))
		return pipe(&Form{K: "asg", Sub: "var", LVs: []*LVal{{Name: name}}, Args: []*Expr{e}})
	case 1: // several variables
		g.feat("var-multi")
		t1, t2 := g.randDataTy(1), g.randDataTy(1)
		e1, e2 := g.expr(t1, d-1), g.expr(t2, d-1)
		n1, n2 := g.newName(), g.newName()
		if n1 == n2 {
			n2 = n1 + "2"
		}
		g.declare(n1, t1, false)
		g.declare(n2, t2, false)
		args := []*Expr{e1, e2}
		if g.chance(1, 8) {
			g.feat("assign-arity-error")
			args = args[:1]
		}
		return pipe(&Form{K: "asg", Sub: "var", LVs: []*LVal{{Name: n1}, {Name: n2}}, Args: args})
	case 2: // rest variable
		g.feat("var-rest")
		t := g.randDataTy(0)
		n1, n2 := g.newName(), g.newName()
		if n1 == n2 {
			n2 = n1 + "2"
		}
		var args []*Expr
		for n := g.choose(1, 2, 2, 2); n > 0; n-- {
			args = append(args, g.expr(t, d-1))
		}
		lvs := []*LVal{{Name: n1}, {Name: n2, Rest: true}}
		g.declare(n1, t, false)
		g.declare(n2, listOf(t), false)
		if g.chance(1, 2) {
			lvs = []*LVal{{Name: n2, Rest: true}, {Name: n1}}
		}
		return pipe(&Form{K: "asg", Sub: "var", LVs: lvs, Args: args})
	default: // declaration without value
		g.feat("var-nil")
		name := g.newName()
		g.declare(name, tyNil, true)
		return pipe(&Form{K: "decl", Names: []string{name}})
	}
}

// growExpr: a new value for variable v of a growable type that grows at most
// linearly in v (used inside loops and function bodies).
func (g *gen) growExpr(v *gvar, d int) *Expr {
	switch v.t.k {
	case tStr:
		return &Expr{K: "cmp", Es: []*Expr{vr(v.name), lit(common.Pick(g.r, []string{"k", "w", "1", ":"}))}}
	case tInt:
		return captF(cmd(common.Pick(g.r, []string{"+", "-", "*"}), vr(v.name), lit(common.Pick(g.r, []string{"1", "2", "3", "-1"}))))
	case tRat:
		return captF(cmd(common.Pick(g.r, []string{"+", "/", "*"}), vr(v.name), lit(common.Pick(g.r, []string{"1", "2", "3", "-1"}))))
	case tList:
		return list(&Expr{K: "expl", S: v.name}, g.leaf(v.t.elem))
	}
	return g.leaf(v.t)
}

func (g *gen) setStmt(d int) *Pipeline {
	vs := g.assignable(func(v *gvar) bool { return v.t.k != tFn && v.t.k != tExc && v.t.k != tAny })
	if len(vs) == 0 {
		return nil
	}
	v := common.Pick(g.r, vs)
	sub := "set"
	if g.blockDepth > 0 && g.chance(1, 4) {
		g.feat("tmp")
		sub = "tmp"
	}
	constrained := g.loopDepth > 0 || g.lambda > 0
	rhs := func(v *gvar) *Expr {
		if constrained {
			if g.chance(1, 2) {
				return g.growExpr(v, d-1)
			}
			sp := g.pure
			g.pure = true // only literals and never-assigned variables: no growth
			e := g.expr(v.t, 1)
			g.pure = sp
			return e
		}
		return g.expr(v.t, d-1)
	}
	switch g.choose(6, 3, 2, 1) {
	case 0:
		return pipe(&Form{K: "asg", Sub: sub, LVs: []*LVal{{Name: v.name}}, Args: []*Expr{rhs(v)}})
	case 1: // element
		cs := g.assignable(func(v *gvar) bool { return v.t.k == tList || v.t.k == tMap })
		if len(cs) == 0 {
			return pipe(&Form{K: "asg", Sub: sub, LVs: []*LVal{{Name: v.name}}, Args: []*Expr{rhs(v)}})
		}
		c := common.Pick(g.r, cs)
		g.feat("element-assign")
		lv := &LVal{Name: c.name}
		et := c.t
		for {
			if et.k == tList {
				lv.Idx = append(lv.Idx, g.indexExpr(1, false))
			} else {
				lv.Idx = append(lv.Idx, lit(common.Pick(g.r, keyAlphabet)))
			}
			et = et.elem
			if (et.k != tList && et.k != tMap) || g.chance(1, 2) {
				break
			}
			g.feat("nested-element-assign")
		}
		var val *Expr
		if constrained {
			val = g.leaf(et)
		} else {
			val = g.expr(et, d-1)
		}
		if len(lv.Idx) == 1 && g.chance(1, 10) {
			// two elements of the same variable in one assignment
			g.feat("element-assign-same-variable-twice")
			lv2 := &LVal{Name: c.name}
			if c.t.k == tList {
				lv2.Idx = []*Expr{lit(common.Pick(g.r, []string{"0", "1", "-1"}))}
			} else {
				lv2.Idx = []*Expr{lit(common.Pick(g.r, keyAlphabet))}
			}
			return pipe(&Form{K: "asg", Sub: sub, LVs: []*LVal{lv, lv2}, Args: []*Expr{val, g.leaf(et)}})
		}
		if g.chance(1, 12) && !constrained {
			// the right-hand side assigns the variable whose element is being assigned
			g.feat("element-assign-rhs-assigns-variable")
			val = capt(chunk(pipe(&Form{K: "asg", Sub: "set", LVs: []*LVal{{Name: c.name}}, Args: []*Expr{g.leaf(c.t)}}),
				pipe(cmd("put", val))))
		}
		return pipe(&Form{K: "asg", Sub: sub, LVs: []*LVal{lv}, Args: []*Expr{val}})
	case 2: // several lvalues
		g.feat("set-multi")
		w := common.Pick(g.r, vs)
		if w == v {
			return pipe(&Form{K: "asg", Sub: sub, LVs: []*LVal{{Name: v.name}}, Args: []*Expr{rhs(v)}})
		}
		args := []*Expr{rhs(v), rhs(w)}
		if g.chance(1, 8) {
			g.feat("assign-arity-error")
			args = append(args, g.leaf(tyStr))
		}
		return pipe(&Form{K: "asg", Sub: sub, LVs: []*LVal{{Name: v.name}, {Name: w.name}}, Args: args})
	default: // rest lvalue
		ls := g.assignable(func(v *gvar) bool { return v.t.k == tList && v.t.elem.isData() })
		if len(ls) == 0 {
			return pipe(&Form{K: "asg", Sub: sub, LVs: []*LVal{{Name: v.name}}, Args: []*Expr{rhs(v)}})
		}
		g.feat("set-rest")
		l := common.Pick(g.r, ls)
		var args []*Expr
		for n := g.choose(1, 2, 2); n > 0; n-- {
			args = append(args, g.leaf(l.t.elem))
		}
		return pipe(&Form{K: "asg", Sub: sub, LVs: []*LVal{{Name: l.name, Rest: true}}, Args: args})
	}
}

func (g *gen) delStmt(d int) *Pipeline {
	if g.chance(1, 2) {
		ms := g.assignable(func(v *gvar) bool { return v.t.k == tMap })
		if len(ms) > 0 {
			g.feat("del-element")
			m := common.Pick(g.r, ms)
			lv := &LVal{Name: m.name, Idx: []*Expr{lit(common.Pick(g.r, keyAlphabet))}}
			if m.t.elem.k == tMap && g.chance(2, 3) {
				// an element of an element: `del m[k][w]` (a missing outer key throws)
				g.feat("del-nested-element")
				lv.Idx = append(lv.Idx, lit(common.Pick(g.r, keyAlphabet)))
			}
			lvs := []*LVal{lv}
			if g.chance(1, 4) {
				// several lvalues, left to right: `del m[k] m[w]`
				g.feat("del-several")
				m2 := common.Pick(g.r, ms)
				lvs = append(lvs, &LVal{Name: m2.name, Idx: []*Expr{lit(common.Pick(g.r, keyAlphabet))}})
			}
			return pipe(&Form{K: "del", LVs: lvs})
		}
		if ls := g.assignable(func(v *gvar) bool { return v.t.k == tList || v.t.k == tStr }); len(ls) > 0 && g.chance(1, 4) {
			// only maps support element removal
			g.feat("del-element-of-non-map")
			l := common.Pick(g.r, ls)
			return pipe(&Form{K: "del", LVs: []*LVal{{Name: l.name, Idx: lits("0")}}})
		}
	}
	var local []*gvar
	for _, v := range g.frames[g.top()] {
		if v.name[len(v.name)-1] != '~' {
			local = append(local, v)
		}
	}
	if len(local) == 0 {
		return g.putStmt(d)
	}
	g.feat("del-variable")
	v := common.Pick(g.r, local)
	g.undeclare(v.name)
	lvs := []*LVal{{Name: v.name}}
	if len(local) > 1 && g.chance(1, 3) {
		// `del a b`
		var rest []*gvar
		for _, w := range local {
			if w.name != v.name {
				rest = append(rest, w)
			}
		}
		if len(rest) > 0 {
			g.feat("del-several")
			w := common.Pick(g.r, rest)
			g.undeclare(w.name)
			lvs = append(lvs, &LVal{Name: w.name})
		}
	}
	return pipe(&Form{K: "del", LVs: lvs})
}

func (g *gen) condExpr(d int) *Expr {
	switch g.choose(5, 2, 1, 1) {
	case 0:
		return g.expr(tyBool, d)
	case 1:
		g.feat("cond-multi")
		return g.multi(tyBool, d)
	case 2:
		g.feat("cond-exception-capture")
		return g.expr(tyExc, d)
	default:
		return g.expr(g.randDataTy(0), d)
	}
}

func (g *gen) ifStmt(d int) *Pipeline {
	g.feat("if")
	f := &Form{K: "if"}
	for n := 1 + g.choose(4, 2, 1); n > 0; n-- {
		f.Conds = append(f.Conds, g.condExpr(d-1))
		f.Bodies = append(f.Bodies, g.blockChunk(d-1, 1+g.choose(3, 2)))
	}
	if len(f.Conds) > 1 {
		g.feat("elif")
	}
	if g.chance(1, 2) {
		f.Else = g.blockChunk(d-1, 1+g.choose(3, 2))
	}
	return pipe(f)
}

// whileStmt: `var c = 0; while (< $c N) { set c = (+ $c 1); body } else { … }`.
func (g *gen) whileStmt(d int) []*Pipeline {
	g.feat("while")
	cname := "w" + strconv.Itoa(len(g.frames)) + strconv.Itoa(g.r.Intn(3))
	decl := pipe(&Form{K: "asg", Sub: "var", LVs: []*LVal{{Name: cname}}, Args: []*Expr{lit("0")}})
	cv := g.declare(cname, tyNumStr, true) // never assigned by generated code other than the increment
	_ = cv
	n := g.choose(1, 2, 3, 2)
	f := &Form{K: "while", Cond: captF(cmd("<", vr(cname), lit(strconv.Itoa(n))))}
	g.push()
	g.blockDepth++
	g.loopDepth++
	body := &Chunk{}
	body.Pipes = append(body.Pipes, pipe(&Form{K: "asg", Sub: "set", LVs: []*LVal{{Name: cname}},
		Args: []*Expr{captF(cmd("+", vr(cname), lit("1")))}}))
	rest := g.chunk(d-1, 1+g.choose(2, 3, 1))
	body.Pipes = append(body.Pipes, rest.Pipes...)
	g.loopDepth--
	g.blockDepth--
	g.pop()
	f.Body = body
	if g.chance(1, 3) {
		g.feat("loop-else")
		f.Else = g.blockChunk(d-1, 1)
	}
	return []*Pipeline{decl, pipe(f)}
}

func (g *gen) forStmt(d int) *Pipeline {
	g.feat("for")
	et := g.randDataTy(1)
	var iter *Expr
	switch g.choose(12, 2, 1) {
	case 0:
		iter = g.expr(listOf(et), d-1)
	case 1:
		g.feat("for-over-string")
		et = tyStr
		iter = lit(common.Pick(g.r, []string{"kw", "zéz", ""}))
	default:
		g.feat("for-not-iterable")
		iter = g.expr(common.Pick(g.r, []*ty{tyInt, mapOf(tyInt), tyBool}), d-1)
	}
	f := &Form{K: "for", Cond: iter}
	// an existing assignable variable of the element type, or a new one
	if vs := g.assignable(func(v *gvar) bool { return v.t.eq(et) }); len(vs) > 0 && g.chance(1, 4) {
		g.feat("for-existing-var")
		f.Var = common.Pick(g.r, vs).name
	} else {
		f.Var = g.newName()
		if len(g.varsWhere(func(v *gvar) bool { return v.name == f.Var })) > 0 || g.visibleName(f.Var) {
			// the name is visible already: `for` would assign that variable; make it a declaration of the right type
			f.Var = f.Var + "f"
		}
		g.declare(f.Var, et, false)
	}
	g.push()
	g.blockDepth++
	g.loopDepth++
	f.Body = g.chunk(d-1, 1+g.choose(2, 3, 1))
	g.loopDepth--
	g.blockDepth--
	g.pop()
	if g.chance(1, 3) {
		g.feat("loop-else")
		f.Else = g.blockChunk(d-1, 1)
	}
	return pipe(f)
}

func (g *gen) visibleName(n string) bool {
	for _, v := range g.visible() {
		if v.name == n {
			return true
		}
	}
	return false
}

func (g *gen) tryStmt(d int) *Pipeline {
	g.feat("try")
	f := &Form{K: "try"}
	// the try body: ordinary statements, often ending in something that throws
	g.push()
	g.blockDepth++
	f.Body = g.chunk(d-1, 1+g.choose(2, 2))
	if g.chance(2, 3) {
		f.Body.Pipes = append(f.Body.Pipes, g.throwyChunk(d-1).Pipes...)
	}
	g.blockDepth--
	g.pop()
	kind := g.choose(3, 2, 2, 2) // catch | catch+finally | finally | catch+else(+finally)
	if kind != 2 {
		if g.chance(3, 4) {
			f.Var = g.newName()
			if g.visibleName(f.Var) {
				f.Var += "e"
			}
			g.declare(f.Var, tyExc, true)
		}
		g.push()
		g.blockDepth++
		f.Catch = g.chunk(d-1, 1+g.choose(2, 1))
		if f.Var != "" && g.chance(1, 3) {
			g.feat("catch-var-used")
			f.Catch.Pipes = append(f.Catch.Pipes, pipe(cmd(common.Pick(g.r, []string{"put", "put", "fail"}), vr(f.Var))))
		}
		g.blockDepth--
		g.pop()
	}
	if kind == 3 {
		g.feat("try-else")
		f.Else = g.blockChunk(d-1, 1+g.choose(2, 1))
	}
	if kind == 1 || kind == 2 || (kind == 3 && g.chance(1, 2)) {
		g.feat("finally")
		f.Finally = g.blockChunk(d-1, 1+g.choose(3, 1))
		if g.chance(1, 6) {
			g.feat("finally-throws")
			f.Finally.Pipes = append(f.Finally.Pipes, g.throwyChunk(1).Pipes...)
		}
	}
	return pipe(f)
}

func (g *gen) fnStmt(d int) *Pipeline {
	g.feat("fn")
	sig := g.randSig()
	name := "f" + string(rune('a'+g.fnCount%26))
	if g.fnCount >= 26 {
		name += strconv.Itoa(g.fnCount / 26)
	}
	g.fnCount++
	savedInFn := g.inFn
	// The function's own name is visible in its body in elvish; the generator
	// does not use it there (no unbounded recursion), except in the counter template.
	var lam *Expr
	if g.chance(1, 6) && d > 1 {
		g.feat("recursive-fn")
		// fn f {|n| if (> $n 0) { put $n; f (- $n 1) } }
		sig = &fnSig{pos: []*ty{tyInt}}
		body := chunkF(&Form{K: "if", Conds: []*Expr{captF(cmd(">", vr("n"), lit("0")))},
			Bodies: []*Chunk{chunkF(cmd("put", vr("n")), cmd(name, captF(cmd("-", vr("n"), lit("1")))))}})
		if g.chance(1, 2) {
			body.Pipes = append(body.Pipes, pipe(cmd("put", lit("w"))))
		}
		lam = &Expr{K: "lam", L: &Lambda{Pos: []string{"n"}, Body: body}}
	} else {
		lam = g.lambdaOfX(sig, d-1, true)
	}
	g.inFn = savedInFn
	v := g.declare(name+"~", &ty{k: tFn, sig: sig}, true)
	_ = v
	return pipe(&Form{K: "fn", Var: name, Lam: lam})
}

// callArgs: arguments for a function of the given signature; sometimes wrong in number.
func (g *gen) callArgs(sig *fnSig, d int) (args []*Expr, optNames []string, optVals []*Expr) {
	for _, t := range sig.pos {
		args = append(args, g.expr(t, d))
	}
	if sig.rest != nil {
		for n := g.choose(2, 2, 2); n > 0; n-- {
			args = append(args, g.expr(sig.rest, d))
		}
		for _, t := range sig.post {
			args = append(args, g.expr(t, d))
		}
	}
	for i, on := range sig.optNames {
		if g.chance(1, 2) {
			optNames = append(optNames, on)
			optVals = append(optVals, g.expr(sig.optTys[i], d))
		}
	}
	if g.chance(1, 12) {
		g.feat("call-arity-error")
		if len(args) > 0 && g.chance(1, 2) {
			args = args[:len(args)-1]
		} else {
			args = append(args, g.leaf(tyStr))
		}
	}
	if g.chance(1, 20) {
		g.feat("call-bad-option")
		optNames = append(optNames, "zz")
		optVals = append(optVals, lit("1"))
	}
	if len(optNames) > 0 && g.chance(1, 6) {
		g.feat("call-repeated-option")
		optNames = append(optNames, optNames[0])
		optVals = append(optVals, g.leaf(tyStr))
	}
	return
}

func (g *gen) callStmt(d int) *Pipeline {
	// callable things: fn-defined functions and function-typed variables
	var fs []*gvar
	for _, v := range g.visible() {
		if v.t.k == tFn && (v.konst || g.lambda == 0) {
			fs = append(fs, v)
		}
	}
	if g.pure {
		return nil
	}
	switch {
	case len(fs) > 0 && g.chance(3, 4):
		g.feat("call-user-fn")
		v := common.Pick(g.r, fs)
		args, on, ov := g.callArgs(v.t.sig, d-1)
		var head *Expr
		if v.name[len(v.name)-1] == '~' {
			if g.chance(1, 4) {
				head = vr(v.name)
			} else {
				head = lit(v.name[:len(v.name)-1])
			}
		} else {
			head = vr(v.name)
		}
		f := &Form{K: "cmd", Head: head, Args: args, OptNames: on, OptVals: ov}
		if g.chance(1, 3) {
			g.feat("capture-of-call")
			return pipe(cmd("put", capt(chunk(pipe(f)))))
		}
		return pipe(f)
	default:
		g.feat("call-lambda-literal")
		sig := g.randSig()
		lam := g.lambdaOf(sig, d-1)
		args, on, ov := g.callArgs(sig, d-1)
		return pipe(&Form{K: "cmd", Head: lam, Args: args, OptNames: on, OptVals: ov})
	}
}

func (g *gen) logicStmt(d int) *Pipeline {
	g.feat("logic")
	sub := common.Pick(g.r, []string{"and", "or", "coalesce"})
	f := &Form{K: "logic", Sub: sub}
	for n := g.choose(1, 2, 4, 3); n > 0; n-- {
		switch g.choose(4, 2, 2, 1, 1) {
		case 0:
			f.Args = append(f.Args, g.expr(common.Pick(g.r, []*ty{tyBool, tyNil, tyStr, tyBool}), d-1))
		case 1:
			f.Args = append(f.Args, g.multi(common.Pick(g.r, []*ty{tyBool, tyNil}), d-1))
		case 2:
			// an argument with a visible effect: shows whether it was evaluated
			g.feat("logic-effect-arg")
			f.Args = append(f.Args, &Expr{K: "exc", C: chunkF(cmd("put", lit("ev"+strconv.Itoa(len(f.Args)))))})
		case 3:
			g.feat("logic-throwing-arg")
			f.Args = append(f.Args, captF(cmd("fail", lit("la"))))
		default:
			f.Args = append(f.Args, g.expr(tyExc, d-1))
		}
	}
	return pipe(f)
}

// closureListStmt: closures escaping a loop, called afterwards.
func (g *gen) closureListStmt(d int) []*Pipeline {
	if g.lambda > 0 || g.pure {
		return one(g.putStmt(d))
	}
	g.feat("closures-escaping-loop")
	sig := &fnSig{}
	lt := listOf(&ty{k: tFn, sig: sig})
	lname := "fs" + strconv.Itoa(g.r.Intn(3))
	decl := pipe(&Form{K: "asg", Sub: "var", LVs: []*LVal{{Name: lname}}, Args: []*Expr{list()}})
	g.declare(lname, lt, true)
	et := common.Pick(g.r, []*ty{tyStr, tyNumStr, tyInt})
	iter := g.expr(listOf(et), 1)
	loopVar := "i" + strconv.Itoa(g.r.Intn(3))
	if g.visibleName(loopVar) {
		loopVar += "q"
	}
	g.declare(loopVar, et, false)
	g.push()
	g.blockDepth++
	g.loopDepth++
	body := &Chunk{}
	captured := loopVar
	if g.chance(2, 3) {
		// a per-iteration variable
		body.Pipes = append(body.Pipes, pipe(&Form{K: "asg", Sub: "var", LVs: []*LVal{{Name: "j"}}, Args: []*Expr{vr(loopVar)}}))
		g.declare("j", et, false)
		captured = "j"
	} else {
		g.feat("closure-captures-loop-variable")
	}
	lamBody := chunkF(cmd("put", vr(captured)))
	if g.chance(1, 2) && captured == "j" && et.k == tStr {
		g.feat("closure-mutates-captured")
		lamBody = chunkF(&Form{K: "asg", Sub: "set", LVs: []*LVal{{Name: "j"}},
			Args: []*Expr{&Expr{K: "cmp", Es: []*Expr{vr("j"), lit("w")}}}}, cmd("put", vr("j")))
	}
	lam := &Expr{K: "lam", L: &Lambda{Body: lamBody}}
	body.Pipes = append(body.Pipes, pipe(&Form{K: "asg", Sub: "set", LVs: []*LVal{{Name: lname}},
		Args: []*Expr{list(&Expr{K: "expl", S: lname}, lam)}}))
	if g.chance(1, 3) {
		body.Pipes = append(body.Pipes, g.chunk(d-1, 1).Pipes...)
	}
	g.loopDepth--
	g.blockDepth--
	g.pop()
	loop := pipe(&Form{K: "for", Var: loopVar, Cond: iter, Body: body})
	// call them afterwards (twice, to see mutation of captured variables)
	callBody := chunkF(&Form{K: "cmd", Head: vr("fq")})
	g.declare("fq", &ty{k: tFn, sig: sig}, true)
	call := pipe(&Form{K: "for", Var: "fq", Cond: vr(lname), Body: callBody})
	out := []*Pipeline{decl, loop, call}
	if g.chance(1, 2) {
		out = append(out, pipe(&Form{K: "cmd", Head: &Expr{K: "idx", E: vr(lname), Es: []*Expr{lit("0")}}}))
	}
	return out
}

// ---------------------------------------------------------------- pipelines

// totalLambda: {|x| put <expression of x that cannot throw> }; out: "same" | "str" | "int" | "bool".
// With mayFlow the body may `break`/`continue` first.
func (g *gen) totalLambda(in *ty, out string, mayFlow bool) (*Expr, *ty) {
	numeric := in.k == tInt || in.k == tNumStr
	var e *Expr
	var ot *ty
	switch out {
	case "bool":
		ot = tyBool
		if numeric && g.chance(1, 2) {
			e = captF(cmd(common.Pick(g.r, []string{">", "<", "==", "!="}), vr("x"), lit(common.Pick(g.r, []string{"0", "1", "2"}))))
		} else {
			lits := strAlphabet
			if numeric {
				lits = numAlphabet
			}
			e = captF(cmd(common.Pick(g.r, []string{"eq", "not-eq"}), vr("x"), lit(common.Pick(g.r, lits))))
		}
	case "int":
		if numeric {
			ot = tyInt
			e = captF(cmd(common.Pick(g.r, []string{"+", "*", "-"}), vr("x"), lit(common.Pick(g.r, []string{"1", "2", "-1"}))))
		} else {
			ot = tyStr
			e = &Expr{K: "cmp", Es: []*Expr{lit("k"), vr("x")}}
		}
	case "str":
		ot = tyStr
		e = &Expr{K: "cmp", Es: []*Expr{vr("x"), lit(common.Pick(g.r, []string{":", "w", "1"}))}}
	default:
		ot = in
		e = vr("x")
	}
	body := chunkF(cmd("put", e))
	if mayFlow && g.chance(1, 3) {
		g.feat("each-break-continue")
		lits := strAlphabet
		if numeric {
			lits = numAlphabet
		}
		cond := captF(cmd("eq", vr("x"), lit(common.Pick(g.r, lits))))
		if in.k == tInt {
			cond = captF(cmd("==", vr("x"), lit(common.Pick(g.r, []string{"0", "1", "2"}))))
		}
		body = chunkF(&Form{K: "if", Conds: []*Expr{cond}, Bodies: []*Chunk{chunkF(cmd(common.Pick(g.r, []string{"break", "continue"})))}},
			cmd("put", e))
	}
	return &Expr{K: "lam", L: &Lambda{Pos: []string{"x"}, Body: body}}, ot
}

func (g *gen) pipelineStmt(d int) *Pipeline {
	g.feat("pipeline")
	sp := g.pure
	g.pure = true
	t := common.Pick(g.r, []*ty{tyStr, tyNumStr, tyInt})
	p := &Pipeline{}
	throwingProducer := false
	// producer
	switch g.choose(5, 2, 2, 1, 1) {
	case 0:
		var args []*Expr
		for n := g.choose(1, 2, 3, 3, 1); n > 0; n-- {
			args = append(args, g.expr(t, 1))
		}
		p.Forms = append(p.Forms, cmd("put", args...))
	case 1:
		t = tyInt
		n := common.Pick(g.r, []string{"0", "1", "3", "5", "40"})
		if n == "40" {
			g.feat("pipeline-beyond-buffer")
		}
		p.Forms = append(p.Forms, cmd("range", lit(n)))
	case 2:
		p.Forms = append(p.Forms, cmd("all", g.expr(listOf(t), 1)))
	case 3:
		g.feat("pipeline-producer-throws-at-end")
		throwingProducer = true
		lam := &Expr{K: "lam", L: &Lambda{Body: chunkF(cmd("put", g.expr(t, 1), g.expr(t, 1)), cmd("fail", lit("pr")))}}
		p.Forms = append(p.Forms, &Form{K: "cmd", Head: lam})
	default:
		g.feat("pipeline-all-throw")
		g.pure = sp
		p.Forms = append(p.Forms, cmd("fail", lit("p1")), cmd("fail", lit("p2")))
		if g.chance(1, 2) {
			p.Forms = append(p.Forms, cmd("put", lit("w")))
		}
		return p
	}
	// middle stages
	for n := g.choose(3, 2, 1); n > 0; n-- {
		switch g.choose(3, 2, 2, 2, 1) {
		case 0:
			g.feat("pipeline-each")
			lam, ot := g.totalLambda(t, common.Pick(g.r, []string{"same", "str", "int"}), !throwingProducer)
			p.Forms = append(p.Forms, cmd("each", lam))
			t = ot
		case 1:
			p.Forms = append(p.Forms, cmd("take", lit(common.Pick(g.r, []string{"0", "1", "2", "-1", "35"}))))
		case 2:
			p.Forms = append(p.Forms, cmd("drop", lit(common.Pick(g.r, []string{"0", "1", "2", "-1"}))))
		case 3:
			g.feat("pipeline-keep-if")
			lam, _ := g.totalLambda(t, "bool", false)
			p.Forms = append(p.Forms, cmd("keep-if", lam))
		default:
			g.feat("order")
			f := cmd("order")
			if g.chance(1, 3) {
				f.OptNames, f.OptVals = []string{"reverse"}, []*Expr{vr("true")}
			}
			p.Forms = append(p.Forms, f)
		}
	}
	g.pure = sp
	// consumer (may have effects on variables: nothing upstream reads assignable variables)
	switch g.choose(4, 2, 2, 1, 1, 1) {
	case 0:
		g.feat("pipeline-each-consumer")
		sig := &fnSig{pos: []*ty{t}}
		sl := g.loopDepth
		lam := g.lambdaOf(sig, d-1)
		g.loopDepth = sl
		if throwingProducer {
			lam, _ = g.totalLambda(t, "same", false)
		}
		p.Forms = append(p.Forms, cmd("each", lam))
	case 1:
		p.Forms = append(p.Forms, cmd("count"))
	case 2:
		p.Forms = append(p.Forms, cmd("all"))
	case 3:
		g.feat("one")
		p.Forms = append(p.Forms, cmd("one"))
	case 4:
		// a user function reading the input port
		g.feat("pipeline-into-lambda")
		tl, _ := g.totalLambda(t, "str", false)
		body := chunkF(cmd("each", tl), cmd("all"))
		if g.chance(1, 2) {
			body = chunkF(cmd("put", captF(cmd("count"))))
		}
		p.Forms = append(p.Forms, &Form{K: "cmd", Head: &Expr{K: "lam", L: &Lambda{Body: body}}})
	default:
		if throwingProducer {
			p.Forms = append(p.Forms, cmd("count"))
		} else {
			g.feat("pipeline-consumer-ignores-input")
			p.Forms = append(p.Forms, cmd("put", lit("w")))
		}
	}
	return p
}

// badStmt: deliberately ill-scoped or otherwise statically wrong programs.
func (g *gen) badStmt(d int) *Pipeline {
	if g.pure || g.lambda > 0 || !g.chance(1, 3) {
		return g.putStmt(d)
	}
	switch g.choose(3, 1, 1) {
	case 0:
		g.feat("static-undefined-variable")
		return pipe(cmd("put", vr("undefined"+strconv.Itoa(g.r.Intn(3)))))
	case 1:
		if g.blockDepth == 0 {
			if vs := g.assignable(func(v *gvar) bool { return v.t.k == tStr }); len(vs) > 0 {
				g.feat("static-tmp-outside-function")
				return pipe(&Form{K: "asg", Sub: "tmp", LVs: []*LVal{{Name: vs[0].name}}, Args: []*Expr{lit("w")}})
			}
		}
		return g.putStmt(d)
	default:
		// del of a variable of an outer scope
		if len(g.frames) > 1 {
			for _, v := range g.frames[0] {
				if v.name[len(v.name)-1] != '~' && !g.shadowedAbove(v.name) {
					g.feat("static-del-outer-variable")
					return pipe(&Form{K: "del", LVs: []*LVal{{Name: v.name}}})
				}
			}
		}
		return g.putStmt(d)
	}
}

func (g *gen) shadowedAbove(name string) bool {
	for i := 1; i < len(g.frames); i++ {
		for _, v := range g.frames[i] {
			if v.name == name {
				return true
			}
		}
	}
	return false
}

// program generates one program.
func genProgram(r *common.Rand, size int) (*Chunk, map[string]bool) {
	g := &gen{r: r, feats: map[string]bool{}, budget: size}
	g.push()
	if g.chance(1, 4) {
		// a program of pure value-stream / container builtins only (gen_stream.go)
		g.feat("builtin-program")
		return g.builtinProgram(), g.feats
	}
	depth := 2 + g.choose(1, 2, 3, 2, 1)
	c := g.chunk(depth, 2+g.choose(1, 2, 3, 3, 2, 1))
	if len(c.Pipes) == 0 {
		c.Pipes = append(c.Pipes, pipe(cmd("put", lit("w"))))
	}
	return c, g.feats
}

var _ = fmt.Sprint
