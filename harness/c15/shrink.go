package c15

import (
	"encoding/hex"
	"fmt"
	"strings"
	"time"
)

// ---- s-expression → AST (inverse of Sexp) -----------------------------------

type sx struct {
	atom string
	kids []*sx
	list bool
}

func parseSx(s string) *sx {
	toks := strings.Fields(strings.NewReplacer("(", " ( ", ")", " ) ").Replace(s))
	pos := 0
	var rec func() *sx
	rec = func() *sx {
		if pos >= len(toks) {
			panic("sexp: unexpected end")
		}
		t := toks[pos]
		pos++
		if t != "(" {
			return &sx{atom: t}
		}
		n := &sx{list: true}
		for toks[pos] != ")" {
			n.kids = append(n.kids, rec())
		}
		pos++
		return n
	}
	return rec()
}

func unhx(s string) string {
	if s == "-" {
		return ""
	}
	b, err := hex.DecodeString(s)
	if err != nil {
		panic("sexp: bad hex " + s)
	}
	return string(b)
}

func sxStrs(n *sx) []string {
	var out []string
	for _, k := range n.kids {
		out = append(out, unhx(k.atom))
	}
	return out
}

func sxExprs(ns []*sx) []*Expr {
	var out []*Expr
	for _, k := range ns {
		out = append(out, sxExpr(k))
	}
	return out
}

func sxExpr(n *sx) *Expr {
	k := n.kids[0].atom
	switch k {
	case "lit", "var", "expl":
		return &Expr{K: k, S: unhx(n.kids[1].atom)}
	case "list", "br", "cmp":
		return &Expr{K: k, Es: sxExprs(n.kids[1:])}
	case "map":
		return &Expr{K: k, Es: sxExprs(n.kids[1].kids), Vs: sxExprs(n.kids[2].kids)}
	case "lam":
		l := &Lambda{Pos: sxStrs(n.kids[1]), Post: sxStrs(n.kids[3]), OptNames: sxStrs(n.kids[4]),
			OptDefs: sxExprs(n.kids[5].kids), Body: sxChunk(n.kids[6])}
		if n.kids[2].atom != "~" {
			l.Rest = unhx(n.kids[2].atom)
		}
		return &Expr{K: k, L: l}
	case "cap", "exc":
		return &Expr{K: k, C: sxChunk(n.kids[1])}
	case "idx":
		return &Expr{K: k, E: sxExpr(n.kids[1]), Es: sxExprs(n.kids[2].kids)}
	}
	panic("sexp: bad expr " + k)
}

func sxLVs(n *sx) []*LVal {
	var out []*LVal
	for _, k := range n.kids {
		out = append(out, &LVal{Name: unhx(k.kids[1].atom), Rest: k.kids[2].atom == "1", Idx: sxExprs(k.kids[3].kids)})
	}
	return out
}

func sxOptChunk(n *sx) *Chunk {
	if !n.list {
		return nil
	}
	return sxChunk(n)
}

func sxForm(n *sx) *Form {
	k := n.kids[0].atom
	switch k {
	case "cmd":
		return &Form{K: k, Head: sxExpr(n.kids[1]), Args: sxExprs(n.kids[2].kids), OptNames: sxStrs(n.kids[3]), OptVals: sxExprs(n.kids[4].kids)}
	case "decl":
		return &Form{K: k, Names: sxStrs(n.kids[1])}
	case "asg":
		return &Form{K: k, Sub: n.kids[1].atom, LVs: sxLVs(n.kids[2]), Args: sxExprs(n.kids[3].kids)}
	case "del":
		return &Form{K: k, LVs: sxLVs(n.kids[1])}
	case "logic":
		return &Form{K: k, Sub: n.kids[1].atom, Args: sxExprs(n.kids[2].kids)}
	case "if":
		f := &Form{K: k, Conds: sxExprs(n.kids[1].kids), Else: sxOptChunk(n.kids[3])}
		for _, b := range n.kids[2].kids {
			f.Bodies = append(f.Bodies, sxChunk(b))
		}
		return f
	case "while":
		return &Form{K: k, Cond: sxExpr(n.kids[1]), Body: sxChunk(n.kids[2]), Else: sxOptChunk(n.kids[3])}
	case "for":
		return &Form{K: k, Var: unhx(n.kids[1].atom), Cond: sxExpr(n.kids[2]), Body: sxChunk(n.kids[3]), Else: sxOptChunk(n.kids[4])}
	case "try":
		f := &Form{K: k, Body: sxChunk(n.kids[1]), Catch: sxOptChunk(n.kids[3]), Else: sxOptChunk(n.kids[4]), Finally: sxOptChunk(n.kids[5])}
		if n.kids[2].atom != "~" {
			f.Var = unhx(n.kids[2].atom)
		}
		return f
	case "fn":
		return &Form{K: k, Var: unhx(n.kids[1].atom), Lam: sxExpr(n.kids[2])}
	}
	panic("sexp: bad form " + k)
}

func sxChunk(n *sx) *Chunk {
	c := &Chunk{}
	for _, p := range n.kids[1:] {
		q := &Pipeline{}
		for _, f := range p.kids[1:] {
			q.Forms = append(q.Forms, sxForm(f))
		}
		c.Pipes = append(c.Pipes, q)
	}
	return c
}

func parseProgram(sexp string) (c *Chunk, err error) {
	defer func() {
		if r := recover(); r != nil {
			err = fmt.Errorf("%v", r)
		}
	}()
	return sxChunk(parseSx(sexp)), nil
}

// ---- shrinking ---------------------------------------------------------------

// disagrees: elvish and the reference (mode ref) both give a verdict and the verdicts differ.
// refs must be the reference outcomes of the candidates.
func stillFails(c *Chunk, ref string) (bool, string) {
	if !defined(ref) || strings.HasPrefix(ref, "compile-error") {
		// the resolver is conservative (declarations inside captures): a shrunk
		// candidate it rejects is not evidence of a disagreement
		return false, ""
	}
	out := runSource(c.Src("\n"))
	if out == ref || out == "TIMEOUT" || strings.HasPrefix(out, "parse-error") {
		return false, ""
	}
	return true, out
}

// safeProgram: the loops and recursive functions of c still have the bounded
// shape the generator gives them (a shrunk program must not loop forever).
func safeProgram(c *Chunk) bool {
	ok := true
	(&walker{form: func(p *Pipeline, i int) {
		f := p.Forms[i]
		switch f.K {
		case "while":
			x := ""
			if f.Cond.K == "cap" && len(f.Cond.C.Pipes) == 1 && len(f.Cond.C.Pipes[0].Forms) == 1 {
				cf := f.Cond.C.Pipes[0].Forms[0]
				if cf.K == "cmd" && cf.Head.K == "lit" && cf.Head.S == "<" && len(cf.Args) == 2 &&
					cf.Args[0].K == "var" && cf.Args[1].K == "lit" && len(cf.Args[1].S) == 1 {
					x = cf.Args[0].S
				}
			}
			if x == "" || len(f.Body.Pipes) == 0 {
				ok = false
				return
			}
			want := pipe(&Form{K: "asg", Sub: "set", LVs: []*LVal{{Name: x}}, Args: []*Expr{captF(cmd("+", vr(x), lit("1")))}})
			if f.Body.Pipes[0].Sexp() != want.Sexp() {
				ok = false
			}
		case "fn":
			self := "(cmd (lit " + hx(f.Var) + ")"
			if strings.Contains(f.Lam.Sexp(), self) {
				// must be the counter template
				body := f.Lam.L.Body
				tmpl := chunkF(&Form{K: "if", Conds: []*Expr{captF(cmd(">", vr("n"), lit("0")))},
					Bodies: []*Chunk{chunkF(cmd("put", vr("n")), cmd(f.Var, captF(cmd("-", vr("n"), lit("1")))))}})
				if len(body.Pipes) == 0 || body.Pipes[0].Sexp() != tmpl.Pipes[0].Sexp() || len(f.Lam.L.Pos) != 1 || f.Lam.L.Pos[0] != "n" {
					ok = false
				}
				for _, q := range body.Pipes[1:] {
					if strings.Contains(q.Sexp(), self) {
						ok = false
					}
				}
			}
		}
	}}).walkChunk(c)
	return ok
}

// shrink reduces a disagreeing program by AST delta debugging; returns a
// description of the minimal program found ("" if nothing could be done).
func shrink(sexp string, class string) string {
	cur, err := parseProgram(sexp)
	if err != nil {
		return ""
	}
	curOut, curRef := "", ""
	deadline := time.Now().Add(8 * time.Second)
	for round := 0; round < 200 && time.Now().Before(deadline); round++ {
		cands := shrinkCandidates(cur)
		if len(cands) == 0 {
			break
		}
		var safe []*Chunk
		for _, c := range cands {
			if safeProgram(c) {
				safe = append(safe, c)
			}
		}
		cands = safe
		if len(cands) == 0 {
			break
		}
		if len(cands) > 400 {
			cands = cands[:400]
		}
		lines := make([]string, len(cands))
		for i, c := range cands {
			lines[i] = opLine("ref", c)
		}
		refs, err := runDriverT(lines, 20*time.Second)
		if err != nil {
			break
		}
		found := false
		for i, c := range cands {
			if c.Size() >= cur.Size() || !safeProgram(c) {
				continue
			}
			if time.Now().After(deadline) {
				break
			}
			if ok, out := stillFails(c, refs[i]); ok {
				cur, curOut, curRef, found = c, out, refs[i], true
				break
			}
		}
		if !found {
			break
		}
	}
	if curOut == "" {
		return ""
	}
	return fmt.Sprintf("minimal program: %s ; elvish: %s ; reference: %s", cur.Src(" ; "), curOut, curRef)
}
