package c15

import (
	"errors"
	"fmt"
	"math/big"
	"regexp"
	"sort"
	"strings"
	"time"

	"src.elv.sh/pkg/eval"
	"src.elv.sh/pkg/eval/errs"
	"src.elv.sh/pkg/eval/vals"
	"src.elv.sh/pkg/parse"
	"verifharness/evalutil"
)

var keysValuesRE = regexp.MustCompile(`^\d+ keys but \d+ values$`)

// reprVal prints a real elvish value in the canonical form of
// lean/ElvModel/C15/Values.lean `vrepr`.
func reprVal(v any) string {
	switch v := v.(type) {
	case nil:
		return "$nil"
	case string:
		return "'" + v + "'"
	case bool:
		if v {
			return "$true"
		}
		return "$false"
	case int:
		return fmt.Sprintf("(num %d)", v)
	case *big.Int:
		return "(num " + v.String() + ")"
	case *big.Rat:
		return "(num " + v.Num().String() + "/" + v.Denom().String() + ")"
	case float64:
		return fmt.Sprintf("(inexact %v)", v)
	case vals.List:
		var parts []string
		for it := v.Iterator(); it.HasElem(); it.Next() {
			parts = append(parts, reprVal(it.Elem()))
		}
		return "[" + strings.Join(parts, " ") + "]"
	case vals.Map:
		if v.Len() == 0 {
			return "[&]"
		}
		var parts []string
		for it := v.Iterator(); it.HasElem(); it.Next() {
			k, val := it.Elem()
			parts = append(parts, "&"+reprVal(k)+"="+reprVal(val))
		}
		sort.Strings(parts)
		return "[" + strings.Join(parts, " ") + "]"
	case *eval.Closure:
		return "<closure>"
	case eval.Exception:
		if v.Reason() == nil {
			return "$ok"
		}
		return reprExc(v.Reason())
	case eval.Callable:
		return vals.ReprPlain(v) // <builtin put>
	}
	return fmt.Sprintf("<other %T>", v)
}

// reprExc prints the cause of an exception as `?(class payload...)`.
func reprExc(reason error) string {
	kind, payload := classify(reason)
	parts := append([]string{kind}, payload...)
	return "?(" + strings.Join(parts, " ") + ")"
}

// classify maps the cause of an exception to the classes of the reference
// interpreter (lean/ElvModel/C15/Values.lean, "Exception classes").
func classify(reason error) (string, []string) {
	switch r := reason.(type) {
	case eval.FailError:
		return "fail", []string{reprVal(r.Content)}
	case eval.Flow:
		return r.Error(), nil // break | continue | return
	case eval.PipelineError:
		var ps []string
		for _, e := range r.Errors {
			if e == nil || e.Reason() == nil {
				ps = append(ps, "$ok")
			} else {
				ps = append(ps, reprExc(e.Reason()))
			}
		}
		return "pipeline", ps
	case errs.ArityMismatch:
		return "arity", nil
	case errs.BadValue:
		return "bad-value", nil
	case errs.OutOfRange:
		return "out-of-range", nil
	case eval.UnsupportedOptionsError:
		return "bad-option", nil
	case eval.WrongArgType:
		return "wrong-type", nil
	case errs.ReaderGone:
		return "reader-gone", nil
	}
	if reason == eval.ErrNoOptAccepted {
		return "bad-option", nil
	}
	msg := reason.Error()
	switch {
	case strings.HasPrefix(msg, "no such key: "):
		return "no-such-key", nil
	case msg == "index must be integer":
		return "bad-index", nil
	case msg == "index not at rune boundary":
		return "not-rune-boundary", nil
	case msg == "not indexable":
		return "not-indexable", nil
	case strings.HasPrefix(msg, "cannot concatenate "):
		return "cannot-concat", nil
	case strings.HasPrefix(msg, "cannot iterate "), strings.HasSuffix(msg, " cannot be iterated"):
		return "cannot-iterate", nil
	case strings.HasPrefix(msg, "cannot get length of "):
		return "no-length", nil
	case msg == "assoc with slice not yet supported", msg == "value does not support element removal",
		msg == "assoc is not supported", msg == "replacement must be string",
		strings.HasPrefix(msg, "cannot assoc"), strings.Contains(msg, "does not support element"):
		return "element-op", nil
	case strings.HasPrefix(msg, "wrong type for arg"), strings.HasPrefix(msg, "wrong type: "):
		return "wrong-type", nil
	case keysValuesRE.MatchString(msg):
		return "arity", nil
	case msg == "cannot dissoc":
		return "cannot-dissoc", nil
	case msg == "multi indexing not implemented":
		return "arity", nil
	}
	return "other:" + strings.ReplaceAll(msg, " ", "_"), nil
}

// runSource evaluates src on a fresh in-process Evaler and returns the
// canonical line `<status>|<outputs>`.
func runSource(src string) string {
	ev := eval.NewEvaler()
	res := evalutil.EvalTimeout(ev, src, 10*time.Second)
	var outs []string
	for _, v := range res.Values {
		outs = append(outs, reprVal(v))
	}
	status := "ok"
	if res.Err != nil {
		var exc eval.Exception
		switch {
		case errors.As(res.Err, &exc):
			if exc.Reason() == eval.ErrInterrupted {
				return "TIMEOUT"
			}
			status = reprExc(exc.Reason())
		case parse.UnpackErrors(res.Err) != nil:
			return "parse-error|"
		case eval.UnpackCompilationErrors(res.Err) != nil:
			return "compile-error|"
		default:
			status = "error:" + strings.ReplaceAll(res.Err.Error(), " ", "_")
		}
	}
	if len(res.Bytes) > 0 {
		outs = append(outs, fmt.Sprintf("<bytes %q>", res.Bytes))
	}
	return status + "|" + strings.Join(outs, " ")
}
