package c15

// Hand-written programs: the examples of website/ref/language.md that fall in
// the core language, interaction cases, and the witnesses of recorded
// findings.  They are the content of harness/corpus/C15.txt (regenerate with
// C15_DUMP_FIXED=<path>).

func br(es ...*Expr) *Expr           { return &Expr{K: "br", Es: es} }
func cmp(es ...*Expr) *Expr          { return &Expr{K: "cmp", Es: es} }
func idx(e *Expr, is ...*Expr) *Expr { return &Expr{K: "idx", E: e, Es: is} }
func lits(ss ...string) []*Expr {
	var out []*Expr
	for _, s := range ss {
		out = append(out, lit(s))
	}
	return out
}
func lamE(pos []string, rest string, post []string, body ...*Form) *Expr {
	return &Expr{K: "lam", L: &Lambda{Pos: pos, Rest: rest, Post: post, Body: chunkF(body...)}}
}
func varF(name string, es ...*Expr) *Form {
	return &Form{K: "asg", Sub: "var", LVs: []*LVal{{Name: name}}, Args: es}
}
func setF(name string, es ...*Expr) *Form {
	return &Form{K: "asg", Sub: "set", LVs: []*LVal{{Name: name}}, Args: es}
}
func call(head *Expr, args ...*Expr) *Form { return &Form{K: "cmd", Head: head, Args: args} }
func fnF(name string, lam *Expr) *Form     { return &Form{K: "fn", Var: name, Lam: lam} }
func mapE(kv ...*Expr) *Expr {
	m := &Expr{K: "map"}
	for i := 0; i+1 < len(kv); i += 2 {
		m.Es = append(m.Es, kv[i])
		m.Vs = append(m.Vs, kv[i+1])
	}
	return m
}

func fixedPrograms() []*Chunk {
	return []*Chunk{
		// witnesses of the element-lvalue defect fixed by commit 798ebe2 (an lvalue with indices used the
		// container read when the lvalue was evaluated): the check fails again if it returns
		chunkF(varF("l", list(lits("x", "y", "z")...)),
			&Form{K: "asg", Sub: "set", LVs: []*LVal{{Name: "l", Idx: lits("0")}, {Name: "l", Idx: lits("1")}}, Args: lits("a", "b")},
			cmd("put", vr("l"))),
		chunkF(varF("l", list(lits("x", "y", "z")...)),
			&Form{K: "asg", Sub: "set", LVs: []*LVal{{Name: "l", Idx: lits("0")}},
				Args: []*Expr{capt(chunkF(setF("l", list(lits("p", "q", "r")...)), cmd("put", lit("a"))))}},
			cmd("put", vr("l"))),
		// every component of a compound expression is evaluated, also after one that expands to no value
		// (language.md "Order of evaluation"); witnesses of the seeded change
		// C15-compound-stops-at-empty-product (compoundOp.exec leaving the loop on an empty product)
		chunkF(varF("xs", list()), cmd("put", cmp(&Expr{K: "expl", S: "xs"}, captF(cmd("fail", lit("boom")))))),
		chunkF(varF("xs", list()), varF("n", lit("0")), cmd("put", cmp(lit("pre"), &Expr{K: "expl", S: "xs"}, captF(setF("n", lit("1"))))),
			cmd("put", vr("n"))),
		chunkF(varF("n", lit("0")), cmd("put", cmp(captF(cmd("nop")), lit("k"), captF(setF("n", lit("1")), cmd("put", lit("w"))), captF(cmd("fail", lit("later"))))),
			cmd("put", vr("n"))),
		// `compact` ("Replaces consecutive runs of equal values with a single copy"): the first value is always
		// output, $nil and the other zero values included; witnesses of the seeded change
		// C15-compact-drops-leading-nil (the "previous value" sentinel was Go nil, so a leading run of $nil vanished)
		chunk(pipe(cmd("put", vr("nil"), vr("nil"), lit("a")), cmd("compact"))),
		chunkF(cmd("compact", list(vr("nil"), lit("a"))), cmd("compact", list(vr("nil"))), cmd("compact", list(lit("a"), vr("nil"), vr("nil"))),
			cmd("compact", list(vr("false"), vr("false"), lit(""), lit(""), list(), list(), &Expr{K: "map"}, &Expr{K: "map"}, captF(cmd("num", lit("0"))), captF(cmd("num", lit("0"))), lit("0")))),
		chunkF(cmd("compact", list(lit(""), lit("a"))), cmd("compact", list(vr("false"), lit("a"))), cmd("compact", list(list(), lit("a"))), cmd("compact", list(&Expr{K: "map"}, lit("a"))),
			cmd("compact", list(captF(cmd("num", lit("0"))), lit("a"))), cmd("compact", list(lit("0"), lit("a"))), cmd("compact", list(lit(""))), cmd("compact", list(lit("a"), lit(""), lit("")))),
		chunk(pipe(varF("x", vr("nil"))), pipe(cmd("put", captF(&Form{K: "logic", Sub: "coalesce", Args: []*Expr{vr("x")}}), lit("b")), cmd("compact"))),
		chunk(pipe(cmd("put"), cmd("compact")), pipe(cmd("put", lits("a", "a", "b", "b", "c")...), cmd("compact")), pipe(cmd("put", lits("a", "b", "a")...), cmd("compact")),
			pipe(cmd("compact", lit("aabbc")))),
		// documentation examples of the container builtins
		chunkF(cmd("make-map", list(list(lits("k", "v")...))), cmd("make-map", list(list(lits("k", "v1")...), list(lits("k", "v2")...))), cmd("make-map", list(lits("aA", "bB")...)),
			cmd("conj", list(), lit("a")), cmd("conj", list(lits("a", "b")...), lit("c"), lit("d")),
			cmd("assoc", list(lits("foo", "bar", "quux")...), lit("0"), lit("lorem")), cmd("assoc", list(lits("foo", "bar", "quux")...), lit("-1"), lit("ipsum")),
			cmd("assoc", mapE(lit("k"), lit("v")), lit("k"), lit("v2")), cmd("assoc", mapE(lit("k"), lit("v")), lit("k2"), lit("v2")),
			cmd("dissoc", mapE(lit("foo"), lit("bar"), lit("lorem"), lit("ipsum")), lit("foo")), cmd("dissoc", mapE(lit("foo"), lit("bar")), lit("k"))),
		chunkF(cmd("has-value", mapE(lit("k1"), lit("v1")), lit("v1")), cmd("has-value", mapE(lit("k1"), lit("v1")), lit("k1")), cmd("has-value", list(lits("v1", "v2")...), lit("v1")),
			cmd("has-value", lit("ab"), lit("b")), cmd("has-value", lit("ab"), lit("c")),
			cmd("has-key", mapE(lit("k1"), lit("v1")), lit("k1")), cmd("has-key", list(lits("v1", "v2")...), lit("2")), cmd("has-key", list(lits("v1", "v2")...), lit("0..2")),
			cmd("has-key", list(lits("v1", "v2")...), lit("0..3")), cmd("has-key", lit("ab"), lit("1")), cmd("has-key", lit("ab"), lit("2")), cmd("has-key", lit("ab"), lit("0..2")),
			cmd("has-key", lit("ab"), lit("0..3"))),
		chunk(pipe(cmd("keys", mapE(lit("a"), lit("foo"), lit("b"), lit("bar"), lit("c"), lit("baz"))), cmd("order")), pipe(cmd("repeat", lit("0"), lit("lorem"))), pipe(cmd("repeat", lit("4"), lit("NAN"))),
			pipe(cmd("count", mapE(lit("foo"), lit("bar"), lit("lorem"), lit("ipsum")))), pipe(cmd("count", lit("lorem"))),
			pipe(cmd("is", lit("a"), lit("a"))), pipe(cmd("is", lit("a"), lit("b"))), pipe(cmd("is")), pipe(cmd("range", lit("2")), cmd("take", lit("10"))), pipe(cmd("range", lit("2")), cmd("drop", lit("10")))),
		chunkF(cmd("dissoc", list(lit("k")), lit("0"))),
		// "Closure semantics": make-adder
		chunkF(fnF("make-adder", lamE(nil, "", nil, varF("n", lit("0")),
			cmd("put", lamE(nil, "", nil, cmd("put", vr("n"))), lamE(nil, "", nil, setF("n", captF(cmd("+", vr("n"), lit("1")))))))),
			&Form{K: "asg", Sub: "var", LVs: []*LVal{{Name: "getter"}, {Name: "adder"}}, Args: []*Expr{captF(cmd("make-adder"))}},
			call(vr("getter")), call(vr("adder")), call(vr("getter")),
			&Form{K: "asg", Sub: "var", LVs: []*LVal{{Name: "getter2"}, {Name: "adder2"}}, Args: []*Expr{captF(cmd("make-adder"))}},
			call(vr("getter2")), call(vr("getter"))),
		// "var": shadowing
		chunkF(varF("x", lit("old")), fnF("f", lamE(nil, "", nil, cmd("put", vr("x")))), varF("x", lit("new")), cmd("put", vr("x")), cmd("f")),
		chunkF(varF("x", lit("foo")), varF("x", list(vr("x"))), cmd("put", vr("x"))),
		// "Function": rest arguments, options, arity
		chunkF(varF("f", lamE([]string{"a"}, "rest", []string{"b"}, cmd("put", vr("a"), vr("rest"), vr("b")))),
			call(vr("f"), lits("lorem", "ipsum", "dolar", "sit")...), call(vr("f"), lits("lorem", "ipsum")...), call(vr("f"), lit("lorem"))),
		chunkF(varF("f", &Expr{K: "lam", L: &Lambda{OptNames: []string{"opt"}, OptDefs: lits("default"), Body: chunkF(cmd("put", vr("opt")))}}),
			call(vr("f")), &Form{K: "cmd", Head: vr("f"), OptNames: []string{"opt"}, OptVals: lits("foobar")},
			&Form{K: "cmd", Head: vr("f"), OptNames: []string{"k2"}, OptVals: lits("v2")}),
		chunkF(call(lamE([]string{"a"}, "", nil, cmd("put", vr("a"))), lits("foo", "bar")...)),
		// "Braced list", "Indexing", "Compounding"
		chunkF(cmd("put", cmp(br(lits("a", "b")...), lit("-"), br(lits("1", "2")...)))),
		chunkF(cmd("put", idx(br(list(lits("foo", "bar")...), list(lits("lorem", "ipsum")...)), lits("0", "1")...))),
		chunkF(cmd("put", idx(lit("elv"), lits("0", "2", "0..2")...)), cmd("put", idx(list(lits("lorem", "ipsum", "foo", "bar")...), lits("0", "2", "0..2")...)),
			cmd("put", idx(mapE(lit("a"), lit("lorem"), lit("b"), lit("ipsum"), lit("a..b"), lit("haha")), lits("a", "a..b")...))),
		chunkF(varF("n", captF(cmd("num", lit("10")))), varF("l", list(lits("a", "b", "c")...)),
			cmd("put", cmp(lit("Number: "), vr("n"))), cmd("put", cmp(lit("List: "), vr("l")))),
		chunkF(varF("li", list(lits("foo", "bar")...)), cmd("put", cmp(br(lits("a", "b")...), lit("-"), idx(vr("li"), lits("0", "1")...)))),
		// "and", "or", "coalesce"
		chunkF(&Form{K: "logic", Sub: "and", Args: lits("a", "b", "c")}, &Form{K: "logic", Sub: "and", Args: []*Expr{lit("a"), vr("false")}},
			&Form{K: "logic", Sub: "or", Args: []*Expr{vr("false"), lit("a"), lit("b")}}, &Form{K: "logic", Sub: "or"}, &Form{K: "logic", Sub: "and"},
			&Form{K: "logic", Sub: "coalesce", Args: []*Expr{vr("nil"), vr("nil"), lit("a")}}, &Form{K: "logic", Sub: "coalesce", Args: []*Expr{vr("nil"), vr("nil")}},
			&Form{K: "logic", Sub: "and", Args: []*Expr{vr("false"), captF(cmd("fail", lit("foo")))}},
			&Form{K: "logic", Sub: "or", Args: []*Expr{vr("true"), captF(cmd("fail", lit("foo")))}},
			&Form{K: "logic", Sub: "coalesce", Args: []*Expr{lit("a"), captF(cmd("fail", lit("foo")))}},
			&Form{K: "logic", Sub: "or", Args: []*Expr{vr("false"), vr("nil")}}),
		// "if": several values are and'ed; no value is true
		chunkF(&Form{K: "if", Conds: []*Expr{captF(cmd("put", vr("true"), vr("false")))}, Bodies: []*Chunk{chunkF(cmd("put", lit("no")))}, Else: chunkF(cmd("put", lit("else")))},
			&Form{K: "if", Conds: []*Expr{captF(cmd("nop"))}, Bodies: []*Chunk{chunkF(cmd("put", lit("empty-is-true")))}}),
		// "try": all clauses, both ways; lost exceptions
		chunkF(&Form{K: "try", Body: chunkF(cmd("nop")), Var: "e", Catch: chunkF(cmd("put", vr("e"))), Else: chunkF(cmd("put", lit("good"))), Finally: chunkF(cmd("put", lit("final")))},
			&Form{K: "try", Body: chunkF(cmd("fail", lit("bad"))), Var: "e", Catch: chunkF(cmd("put", vr("e"))), Else: chunkF(cmd("put", lit("good"))), Finally: chunkF(cmd("put", lit("final")))},
			&Form{K: "try", Body: chunkF(cmd("fail", lit("bad"))), Var: "e", Catch: chunkF(cmd("fail", lit("worse"))), Finally: chunkF(cmd("fail", lit("worst")))}),
		chunkF(&Form{K: "try", Body: chunkF(cmd("fail", lit("bad"))), Finally: chunkF(cmd("put", lit("final")))}),
		// "fn": return falls through lambdas; recursion
		chunkF(fnF("f", lamE(nil, "", nil, call(lamE(nil, "", nil, cmd("put", lit("a")), cmd("return"))), cmd("put", lit("b")))),
			call(lamE(nil, "", nil, cmd("f"), cmd("put", lit("c"))))),
		chunkF(fnF("f", lamE([]string{"n"}, "", nil, &Form{K: "if", Conds: []*Expr{captF(cmd("==", vr("n"), lit("0")))},
			Bodies: []*Chunk{chunkF(cmd("put", lit("1")))}, Else: chunkF(cmd("*", vr("n"), captF(cmd("f", captF(cmd("-", vr("n"), lit("1")))))))})),
			cmd("f", lit("3"))),
		// "Pipeline exception"
		chunk(pipe(cmd("fail", lit("x")), cmd("fail", lit("y"))), pipe(cmd("put", lit("unreached")))),
		chunk(pipe(cmd("put", lit("1")), cmd("fail", lit("y")))),
		// "del"
		chunkF(varF("x", lit("value")), fnF("f", lamE(nil, "", nil, cmd("put", vr("x")))), &Form{K: "del", LVs: []*LVal{{Name: "x"}}}, cmd("f")),
		chunkF(varF("m", mapE(lit("k"), lit("v"), lit("k2"), lit("v2"))), &Form{K: "del", LVs: []*LVal{{Name: "m", Idx: lits("k2")}}}, cmd("put", vr("m")),
			varF("l", list(mapE(lit("k"), lit("v"), lit("k2"), lit("v2")))), &Form{K: "del", LVs: []*LVal{{Name: "l", Idx: lits("0", "k2")}}}, cmd("put", vr("l"))),
		chunkF(varF("x", lit("2")), &Form{K: "del", LVs: []*LVal{{Name: "x"}}}, cmd("put", vr("x"))),
		// "del": several lvalues, nested elements, a missing key (no error), a missing outer key, a non-map
		chunkF(&Form{K: "asg", Sub: "var", LVs: []*LVal{{Name: "a"}, {Name: "b"}, {Name: "c"}}, Args: lits("1", "2", "3")},
			&Form{K: "del", LVs: []*LVal{{Name: "a"}, {Name: "b"}}}, cmd("put", vr("c"))),
		chunkF(varF("m", mapE(lit("a"), mapE(lit("x"), lit("1"), lit("y"), lit("2")), lit("b"), lit("2"))),
			&Form{K: "del", LVs: []*LVal{{Name: "m", Idx: lits("a", "x")}, {Name: "m", Idx: lits("b")}, {Name: "m", Idx: lits("nokey")}}}, cmd("put", vr("m")),
			&Form{K: "del", LVs: []*LVal{{Name: "m", Idx: lits("gone", "x")}}}),
		chunkF(varF("l", list(lits("a", "b")...)), &Form{K: "del", LVs: []*LVal{{Name: "l", Idx: lits("0")}}}),
		chunkF(fnF("f", &Expr{K: "lam", L: &Lambda{Pos: []string{"a"}, Body: chunkF(&Form{K: "del", LVs: []*LVal{{Name: "a"}}}, varF("a", lit("2")), cmd("put", vr("a")))}}),
			cmd("f", lit("1"))),
		// options of a function literal: the default is evaluated where the literal is; `try … else`
		chunkF(varF("x", lit("outer")), varF("f", &Expr{K: "lam", L: &Lambda{OptNames: []string{"o"}, OptDefs: []*Expr{vr("x")}, Body: chunkF(cmd("put", vr("o")))}}),
			setF("x", lit("changed")), call(vr("f")), &Form{K: "cmd", Head: vr("f"), OptNames: []string{"o"}, OptVals: lits("given")},
			&Form{K: "cmd", Head: vr("f"), OptNames: []string{"o", "o"}, OptVals: lits("first", "last")}),
		chunkF(&Form{K: "try", Body: chunkF(cmd("put", lit("a"))), Var: "e", Catch: chunkF(cmd("put", lit("c"))), Else: chunkF(cmd("fail", lit("in-else"))), Finally: chunkF(cmd("put", lit("f")))}),
		chunkF(&Form{K: "try", Body: chunkF(cmd("nop")), Var: "e", Catch: chunkF(cmd("nop")), Else: chunkF(cmd("put", vr("e")))}, cmd("put", vr("e"))),
		// "set": rest variable, elements
		chunkF(&Form{K: "decl", Names: []string{"x", "y", "z"}},
			&Form{K: "asg", Sub: "set", LVs: []*LVal{{Name: "x"}, {Name: "y", Rest: true}, {Name: "z"}}, Args: lits("a", "b")}, cmd("put", vr("x"), vr("y"), vr("z")),
			&Form{K: "asg", Sub: "set", LVs: []*LVal{{Name: "x"}, {Name: "y", Rest: true}, {Name: "z"}}, Args: lits("a", "b", "c", "d")}, cmd("put", vr("x"), vr("y"), vr("z")),
			&Form{K: "asg", Sub: "set", LVs: []*LVal{{Name: "y", Idx: lits("0")}}, Args: lits("foo")}, cmd("put", vr("y"))),
		chunkF(varF("li", list(lits("foo", "bar")...)), varF("li2", vr("li")), &Form{K: "asg", Sub: "set", LVs: []*LVal{{Name: "li", Idx: lits("0")}}, Args: lits("lorem")}, cmd("put", vr("li"), vr("li2"))),
		// "tmp"
		chunkF(varF("x", lit("foo")), fnF("f", lamE(nil, "", nil, cmd("put", vr("x")))),
			call(lamE(nil, "", nil, &Form{K: "asg", Sub: "tmp", LVs: []*LVal{{Name: "x"}}, Args: lits("bar")}, cmd("f"))), cmd("f")),
		// loops with else
		chunkF(&Form{K: "for", Var: "x", Cond: list(), Body: chunkF(cmd("put", vr("x"))), Else: chunkF(cmd("put", lit("none")))},
			&Form{K: "while", Cond: vr("false"), Body: chunkF(cmd("put", lit("body"))), Else: chunkF(cmd("put", lit("never")))},
			&Form{K: "for", Var: "x", Cond: list(lits("a", "b")...), Body: chunkF(cmd("put", vr("x"))), Else: chunkF(cmd("put", lit("none")))}, cmd("put", vr("x"))),
		// interaction: break inside try inside for inside a closure called from a pipeline, with a finally
		chunk(pipe(cmd("put", lits("a", "b", "c")...), cmd("each", lamE([]string{"x"}, "", nil,
			&Form{K: "for", Var: "y", Cond: list(lits("1", "2")...), Body: chunkF(
				&Form{K: "try", Body: chunkF(&Form{K: "if", Conds: []*Expr{captF(cmd("eq", vr("x"), lit("b")))}, Bodies: []*Chunk{chunkF(cmd("break"))}},
					cmd("put", cmp(vr("x"), vr("y")))), Finally: chunkF(cmd("put", lit("f")))})})))),
		// flow commands through functions: `fn` consumes `return` only; lambdas consume nothing; `each` consumes break/continue
		chunkF(fnF("f", lamE(nil, "", nil, cmd("break"))), fnF("g", lamE(nil, "", nil, cmd("continue"))),
			&Form{K: "for", Var: "x", Cond: list(lits("a", "b", "c")...), Body: chunkF(cmd("put", vr("x")),
				&Form{K: "if", Conds: []*Expr{captF(cmd("eq", vr("x"), lit("a")))}, Bodies: []*Chunk{chunkF(cmd("g"))}},
				&Form{K: "if", Conds: []*Expr{captF(cmd("eq", vr("x"), lit("b")))}, Bodies: []*Chunk{chunkF(cmd("f"))}}, cmd("put", lit("end")))},
			cmd("put", lit("after"))),
		chunkF(fnF("f", lamE(nil, "", nil, cmd("each", lamE([]string{"x"}, "", nil, cmd("put", vr("x")), cmd("return")), list(lits("a", "b")...)), cmd("put", lit("no")))),
			cmd("f"), cmd("put", lit("after")), call(lamE(nil, "", nil, cmd("return"))), cmd("put", lit("unreached"))),
		chunkF(varF("i", lit("0")), &Form{K: "while", Cond: captF(cmd("<", vr("i"), lit("3"))), Body: chunkF(setF("i", captF(cmd("+", vr("i"), lit("1")))),
			&Form{K: "try", Body: chunkF(&Form{K: "if", Conds: []*Expr{captF(cmd("==", vr("i"), lit("2")))}, Bodies: []*Chunk{chunkF(cmd("break"))}}, cmd("continue")),
				Finally: chunkF(cmd("put", cmp(lit("f"), vr("i"))))}, cmd("put", lit("unreached")))}, cmd("put", vr("i"))),
		// closures escaping a loop share / do not share the loop variable
		chunkF(varF("fs", list()), &Form{K: "for", Var: "i", Cond: list(lits("1", "2")...), Body: chunkF(varF("j", vr("i")),
			setF("fs", list(&Expr{K: "expl", S: "fs"}, lamE(nil, "", nil, cmd("put", vr("i"), vr("j"))))))},
			&Form{K: "for", Var: "f", Cond: vr("fs"), Body: chunkF(call(vr("f")))}),
	}
}
