package c15

import (
	"bytes"
	"context"
	"fmt"
	"os"
	"os/exec"
	"path/filepath"
	"strings"
	"time"
)

// The reference interpreter is the Lean driver (lean/ElvModel/C15); the oracle
// runs it as a subprocess in mode `ref` (batch: n op lines in, n lines out).

func driverPath() string {
	root := os.Getenv("VERIF_ROOT")
	if root == "" {
		return ""
	}
	p := filepath.Join(root, "lean", ".lake", "build", "bin", "drv_C15")
	if _, err := os.Stat(p); err != nil {
		return ""
	}
	return p
}

// runDriver evaluates op lines; returns one output line per op, or an error.
func runDriver(lines []string) ([]string, error) { return runDriverT(lines, 10*time.Minute) }

func runDriverT(lines []string, limit time.Duration) ([]string, error) {
	drv := driverPath()
	if drv == "" {
		return nil, fmt.Errorf("reference driver drv_C15 not built (VERIF_ROOT=%q)", os.Getenv("VERIF_ROOT"))
	}
	if len(lines) == 0 {
		return nil, nil
	}
	// a bound on the reference's running time: generated programs need well
	// under a second each; a runaway (only conceivable for a shrunk candidate)
	// must not outlive the harness
	ctx, cancel := context.WithTimeout(context.Background(), limit)
	defer cancel()
	cmd := exec.CommandContext(ctx, drv)
	cmd.Stdin = strings.NewReader(strings.Join(lines, "\n") + "\n")
	var out, errb bytes.Buffer
	cmd.Stdout = &out
	cmd.Stderr = &errb
	if err := cmd.Run(); err != nil {
		return nil, fmt.Errorf("drv_C15: %v: %s", err, errb.String())
	}
	res := strings.Split(strings.TrimSuffix(out.String(), "\n"), "\n")
	if len(res) != len(lines) {
		return nil, fmt.Errorf("drv_C15: %d lines for %d ops", len(res), len(lines))
	}
	return res, nil
}

func opLine(mode string, c *Chunk) string {
	return "prog\t" + mode + "\t" + c.Sexp() + "\t" + hx(c.Src("\n"))
}

// refCache: op line (as in ops.txt) → reference outcome.
var refCache = map[string]string{}

func withMode(op, mode string) string {
	f := strings.Split(op, "\t")
	if len(f) < 4 {
		return op
	}
	f[1] = mode
	return strings.Join(f, "\t")
}

func precomputeRef(ops []string) error {
	lines := make([]string, len(ops))
	for i, op := range ops {
		lines[i] = withMode(op, "ref")
	}
	res, err := runDriverBatched(lines)
	if err != nil {
		return err
	}
	for k, r := range res {
		refCache[ops[k]] = r
	}
	return nil
}

// runDriverBatched runs the driver on many lines, several processes in parallel.
func runDriverBatched(lines []string) ([]string, error) {
	const batch = 1000
	type part struct {
		i   int
		res []string
		err error
	}
	nb := (len(lines) + batch - 1) / batch
	ch := make(chan part, nb)
	sem := make(chan struct{}, 4)
	for b := 0; b < nb; b++ {
		i, j := b*batch, (b+1)*batch
		if j > len(lines) {
			j = len(lines)
		}
		go func(i, j int) {
			sem <- struct{}{}
			res, err := runDriver(lines[i:j])
			<-sem
			ch <- part{i, res, err}
		}(i, j)
	}
	out := make([]string, len(lines))
	var firstErr error
	for b := 0; b < nb; b++ {
		p := <-ch
		if p.err != nil {
			firstErr = p.err
			continue
		}
		copy(out[p.i:], p.res)
	}
	if firstErr != nil {
		return nil, firstErr
	}
	return out, nil
}

func refOutcome(op string) (string, error) {
	if r, ok := refCache[op]; ok {
		return r, nil
	}
	res, err := runDriver([]string{withMode(op, "ref")})
	if err != nil {
		return "", err
	}
	refCache[op] = res[0]
	return res[0], nil
}

// defined: the reference gives a verdict on this program.
func defined(ref string) bool {
	return !(strings.HasPrefix(ref, "UNSUPPORTED") || ref == "FUEL" || ref == "bad-op")
}
