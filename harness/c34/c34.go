// Package c34: correspondence and oracle for C34 (wcwidth, term.BufferBuilder,
// tk widgets' Render).
package c34

import (
	"fmt"
	"strconv"
	"strings"
	"unicode/utf8"

	"src.elv.sh/pkg/cli/term"
	"src.elv.sh/pkg/cli/tk"
	"src.elv.sh/pkg/ui"
	"src.elv.sh/pkg/wcwidth"
	"verifharness/common"
)

func init() { common.Register("C34", run) }

// pieces random strings are made of: ASCII, wide, combining, control, invalid UTF-8.
var (
	asciiP   = []string{"a", "b", "Z", " ", "0", "~", "^", "-"}
	wideP    = []string{"世", "界", "한", "Ａ", "😀", "　", "ᅟ", "\U00020000"}
	narrowP  = []string{"é", "ß", "〿", "│", "━", "�", " ", "ꓐ"}
	zeroP    = []string{"́", "​", "‍", "️", "ᅠ", "\U000e0100", "\u0085", "\u009f"}
	ctrlP    = []string{"\t", "\x01", "\x1b", "\x7f", "\r", "\x00"}
	invalidP = []string{"\xff", "\xe4", "\xe4\xb8", "\xc0\x80", "\xed\xa0\x80", "\xf0\x9f", "\x80"}
)

type sgen struct {
	ctrl, nl, invalid bool
}

func (g sgen) str(r *common.Rand, maxPieces int) string {
	var sb strings.Builder
	for k := r.Range(0, maxPieces); k > 0; k-- {
		switch x := r.Intn(20); {
		case x < 8:
			sb.WriteString(common.Pick(r, asciiP))
		case x < 12:
			sb.WriteString(common.Pick(r, wideP))
		case x < 14:
			sb.WriteString(common.Pick(r, narrowP))
		case x < 16:
			sb.WriteString(common.Pick(r, zeroP))
		case x < 17:
			if g.ctrl {
				sb.WriteString(common.Pick(r, ctrlP))
			} else {
				sb.WriteString("c")
			}
		case x < 18:
			if g.nl {
				sb.WriteString("\n")
			} else {
				sb.WriteString("n")
			}
		case x < 19:
			if g.invalid {
				sb.WriteString(common.Pick(r, invalidP))
			} else {
				sb.WriteString("i")
			}
		default:
			sb.WriteString(string(rune(r.Intn(0x30000))))
		}
	}
	return sb.String()
}

func hexList(xs []string) string {
	if len(xs) == 0 {
		return "."
	}
	ys := make([]string, len(xs))
	for i, x := range xs {
		ys[i] = common.Hex(x)
	}
	return strings.Join(ys, ",")
}

func unhexList(s string) []string {
	if s == "." {
		return nil
	}
	var xs []string
	for _, x := range strings.Split(s, ",") {
		xs = append(xs, common.Unhex(x))
	}
	return xs
}

func itemsField(items [][]string) string {
	if len(items) == 0 {
		return "."
	}
	ys := make([]string, len(items))
	for i, it := range items {
		if len(it) == 0 {
			ys[i] = "_"
		} else {
			ys[i] = hexList(it)
		}
	}
	return strings.Join(ys, ";")
}

func parseItems(s string) [][]string {
	if s == "." {
		return nil
	}
	var items [][]string
	for _, it := range strings.Split(s, ";") {
		if it == "_" {
			items = append(items, nil)
		} else {
			items = append(items, unhexList(it))
		}
	}
	return items
}

// segs: non-empty segment texts; adjacent segments get different styles so that
// ui.Concat keeps them apart (the model sees exactly these segments).
func mkText(segs []string) ui.Text {
	var ts []ui.Text
	for i, s := range segs {
		if i%2 == 0 {
			ts = append(ts, ui.T(s))
		} else {
			ts = append(ts, ui.T(s, ui.FgRed))
		}
	}
	return ui.Concat(ts...)
}

func genSegs(c *common.Ctx, g sgen, maxSegs, maxPieces int) []string {
	var segs []string
	for k := c.Rand.Range(0, maxSegs); k > 0; k-- {
		s := g.str(c.Rand, maxPieces)
		if s != "" {
			segs = append(segs, s)
		}
	}
	return segs
}

func genOvr(c *common.Ctx) string {
	if c.Rand.Chance(2, 3) {
		return "-"
	}
	runes := []rune{'a', '世', '́', '\t', 'é', '😀', 0x1160, 'Z'}
	var parts []string
	for k := c.Rand.Range(1, 3); k > 0; k-- {
		w := c.Rand.Range(0, 3)
		if c.Rand.Chance(1, 6) {
			w = -1
		}
		parts = append(parts, fmt.Sprintf("%d:%d", common.Pick(c.Rand, runes), w))
	}
	return strings.Join(parts, ",")
}

func gen(c *common.Ctx, emit func(...string)) {
	r := c.Rand
	all := sgen{ctrl: true, nl: true, invalid: true}
	// --- OfRune: every table boundary, the wide-range boundaries, small runes, random runes
	seen := map[int]bool{}
	ofrune := func(x int) {
		if !seen[x] {
			seen[x] = true
			emit("ofrune", "-", strconv.Itoa(x))
		}
	}
	for x := -2; x < 0x500; x++ {
		ofrune(x)
	}
	for _, b := range []int{0x1100, 0x115f, 0x2329, 0x232a, 0x2e80, 0xa4cf, 0x303f, 0xac00, 0xd7a3, 0xf900, 0xfaff,
		0xfe10, 0xfe19, 0xfe30, 0xfe6f, 0xff00, 0xff60, 0xffe0, 0xffe6, 0x20000, 0x2fffd, 0x30000, 0x3fffd,
		0x1f300, 0x1f6ff, 0x10ffff, 0x7fffffff, -0x80000000, 0xd800, 0xdfff, 0xfffd} {
		for d := -1; d <= 1; d++ {
			if b+d >= -0x80000000 && b+d <= 0x7fffffff {
				ofrune(b + d)
			}
		}
	}
	for _, rg := range combiningRangesProbe() {
		for d := -1; d <= 1; d++ {
			ofrune(rg[0] + d)
			ofrune(rg[1] + d)
		}
	}
	for i := c.Scale(3000, 200000); i > 0; i-- {
		ofrune(r.Intn(0x40000))
		ofrune(0xe0000 + r.Intn(0x400))
	}
	for i := c.Scale(300, 5000); i > 0; i-- {
		emit("ofrune", genOvr(c), strconv.Itoa(int(common.Pick(r, []rune{'a', '世', '́', '\t', 'é', '😀', 0x1160, 'Z', 'b'}))))
	}
	// --- Of / Trim / Force / TrimEachLine
	n := c.Scale(6000, 300000)
	for i := 0; i < n; i++ {
		s := all.str(r, 12)
		w := strconv.Itoa(r.Range(-2, 40))
		if r.Chance(1, 2) {
			w = strconv.Itoa(r.Range(-1, 8))
		}
		o := genOvr(c)
		switch r.Intn(4) {
		case 0:
			emit("of", o, common.Hex(s))
		case 1:
			emit("trim", o, common.Hex(s), w)
		case 2:
			emit("force", o, common.Hex(s), w)
		case 3:
			emit("trimlines", o, common.Hex(s), w)
		}
	}
	// --- BufferBuilder programs
	n = c.Scale(3000, 100000)
	for i := 0; i < n; i++ {
		W := r.Range(0, 12)
		if r.Chance(1, 30) {
			W = -1
		}
		var prog []string
		for k := r.Range(0, 6); k > 0; k-- {
			switch x := r.Intn(10); {
			case x < 6:
				prog = append(prog, "w"+common.Hex(all.str(r, 8)))
			case x < 7:
				prog = append(prog, "n")
			case x < 8:
				prog = append(prog, "i"+strconv.Itoa(r.Range(-1, 5)))
			case x < 9:
				prog = append(prog, "e"+strconv.Itoa(r.Intn(2)))
			default:
				prog = append(prog, "d")
			}
		}
		p := "."
		if len(prog) > 0 {
			p = strings.Join(prog, ",")
		}
		emit("bb", strconv.Itoa(W), p)
	}
	// --- widgets
	size := func() (string, string) {
		W, H := r.Range(2, 14), r.Range(1, 7)
		if r.Chance(1, 12) {
			W = r.Range(0, 1)
		}
		if r.Chance(1, 12) {
			H = 0
		}
		if r.Chance(1, 8) {
			W = r.Range(15, 40)
		}
		return strconv.Itoa(W), strconv.Itoa(H)
	}
	n = c.Scale(1500, 60000)
	for i := 0; i < n; i++ {
		W, H := size()
		emit("label", W, H, hexList(genSegs(c, all, 4, 8)))
	}
	n = c.Scale(2500, 100000)
	for i := 0; i < n; i++ {
		W, H := size()
		g := sgen{ctrl: r.Chance(1, 5), invalid: r.Chance(1, 3)}
		var lines []string
		for k := r.Range(0, 8); k > 0; k-- {
			lines = append(lines, g.str(r, 8))
		}
		first := r.Range(0, len(lines)+1)
		if r.Chance(1, 40) {
			first = -1
		}
		f := "."
		if len(lines) > 0 {
			f = hexList(lines)
		}
		emit("textview", W, H, strconv.Itoa(r.Intn(2)), strconv.Itoa(first), f)
	}
	n = c.Scale(5000, 200000)
	for i := 0; i < n; i++ {
		W, H := size()
		horizontal := r.Chance(1, 2)
		g := sgen{ctrl: r.Chance(1, 6), nl: !horizontal && r.Chance(2, 3), invalid: r.Chance(1, 4)}
		var items [][]string
		for k := r.Range(0, 9); k > 0; k-- {
			items = append(items, genSegs(c, g, 3, 5))
		}
		flags := "v"
		if horizontal {
			flags = "h"
		}
		if r.Chance(1, 2) {
			flags += "e"
		} else {
			flags += "n"
		}
		pad := r.Range(0, 1)
		if r.Chance(1, 25) {
			pad = 2
		}
		sel := r.Range(0, len(items))
		if r.Chance(1, 15) {
			sel = r.Range(-1, len(items)+2)
		}
		first := r.Range(0, len(items))
		emit("listbox", W, H, flags, strconv.Itoa(pad), strconv.Itoa(sel), strconv.Itoa(first),
			hexList(genSegs(c, all, 2, 4)), itemsField(items), "-")
	}
	n = c.Scale(3000, 100000)
	for i := 0; i < n; i++ {
		W, H := size()
		content := all.str(r, 10)
		dot := r.Range(0, len(content))
		if r.Chance(1, 20) {
			dot = r.Range(-1, len(content)+2)
		}
		pf, pt, pc := 0, 0, ""
		if r.Chance(1, 2) {
			pf = r.Range(0, len(content))
			pt = r.Range(pf, len(content))
			pc = all.str(r, 4)
			if r.Chance(1, 10) {
				pf, pt = r.Range(-1, len(content)+1), r.Range(-1, len(content)+1)
			}
		}
		var tips [][]string
		for k := r.Intn(3); k > 0; k-- {
			tips = append(tips, genSegs(c, all, 2, 4))
		}
		emit("codearea", W, H, hexList(genSegs(c, all, 2, 4)), hexList(genSegs(c, all, 2, 3)),
			common.Hex(content), strconv.Itoa(dot), strconv.Itoa(pf), strconv.Itoa(pt), common.Hex(pc), itemsField(tips))
	}
}

// combiningRangesProbe finds the boundaries of the zero-width ranges by probing
// the real OfRune (so a changed table changes the generated probes too).
func combiningRangesProbe() [][2]int {
	var out [][2]int
	start := -1
	for x := 0x300; x <= 0xe0200; x++ {
		z := wcwidth.OfRune(rune(x)) == 0
		if z && start < 0 {
			start = x
		}
		if !z && start >= 0 {
			out = append(out, [2]int{start, x - 1})
			start = -1
		}
		if x == 0x30000 {
			x = 0xdffff
		}
	}
	return out
}

func withOverrides(spec string, f func() string) string {
	var touched []rune
	if spec != "-" {
		for _, kv := range strings.Split(spec, ",") {
			p := strings.Split(kv, ":")
			k, _ := strconv.Atoi(p[0])
			w, _ := strconv.Atoi(p[1])
			wcwidth.Override(rune(k), w)
			touched = append(touched, rune(k))
		}
	}
	defer func() {
		for _, k := range touched {
			wcwidth.Unoverride(k)
		}
	}()
	return f()
}

func atoi(s string) int { n, _ := strconv.Atoi(s); return n }

func canonCell(s string) string {
	if s == "│" || s == "━" {
		return " "
	}
	return s
}

func showBuf(b *term.Buffer, canon bool) string {
	var ls []string
	for _, l := range b.Lines {
		if len(l) == 0 {
			ls = append(ls, ".")
			continue
		}
		var cs []string
		for _, c := range l {
			t := c.Text
			if canon {
				t = canonCell(t)
			}
			cs = append(cs, common.Hex(t))
		}
		ls = append(ls, strings.Join(cs, ","))
	}
	lines := "!"
	if len(ls) > 0 {
		lines = strings.Join(ls, "|")
	}
	return fmt.Sprintf("%d %d,%d %d %s", b.Width, b.Dot.Line, b.Dot.Col, len(b.Lines), lines)
}

type items []ui.Text

func (it items) Show(i int) ui.Text { return it[i] }
func (it items) Len() int           { return len(it) }

func render(f []string) *term.Buffer {
	W, H := atoi(f[1]), atoi(f[2])
	switch f[0] {
	case "label":
		return tk.Label{Content: mkText(unhexList(f[3]))}.Render(W, H)
	case "textview":
		w := tk.NewTextView(tk.TextViewSpec{Scrollable: f[3] == "1",
			State: tk.TextViewState{Lines: unhexList(f[5]), First: atoi(f[4])}})
		return w.Render(W, H)
	case "listbox":
		var its items
		for _, it := range parseItems(f[8]) {
			its = append(its, mkText(it))
		}
		var itf tk.Items
		if its != nil {
			itf = its
		}
		w := tk.NewListBox(tk.ListBoxSpec{Horizontal: strings.Contains(f[3], "h"), ExtendStyle: strings.Contains(f[3], "e"),
			Padding: atoi(f[4]), Placeholder: mkText(unhexList(f[7])),
			State: tk.ListBoxState{Items: itf, Selected: atoi(f[5]), First: atoi(f[6])}})
		return w.Render(W, H)
	case "codearea":
		var tips []ui.Text
		for _, t := range parseItems(f[10]) {
			tips = append(tips, mkText(t))
		}
		w := tk.NewCodeArea(tk.CodeAreaSpec{
			Prompt:      func() ui.Text { return mkText(unhexList(f[3])) },
			RPrompt:     func() ui.Text { return mkText(unhexList(f[4])) },
			Highlighter: func(code string) (ui.Text, []ui.Text) { return ui.T(code), tips },
			State: tk.CodeAreaState{Buffer: tk.CodeBuffer{Content: common.Unhex(f[5]), Dot: atoi(f[6])},
				Pending: tk.PendingCode{From: atoi(f[7]), To: atoi(f[8]), Content: common.Unhex(f[9])}}})
		return w.Render(W, H)
	}
	panic("unknown widget op")
}

func runBB(f []string) *term.BufferBuilder {
	bb := term.NewBufferBuilder(atoi(f[1]))
	if f[2] != "." {
		for _, op := range strings.Split(f[2], ",") {
			switch op[0] {
			case 'w':
				bb.WriteStringSGR(common.Unhex(op[1:]), "")
			case 'n':
				bb.Newline()
			case 'i':
				bb.SetIndent(atoi(op[1:]))
			case 'e':
				bb.SetEagerWrap(op[1:] == "1")
			case 'd':
				bb.SetDotHere()
			}
		}
	}
	return bb
}

func impl(_ any, f []string) string {
	switch f[0] {
	case "ofrune":
		return withOverrides(f[1], func() string { return strconv.Itoa(wcwidth.OfRune(rune(atoi(f[2])))) })
	case "of":
		return withOverrides(f[1], func() string { return strconv.Itoa(wcwidth.Of(common.Unhex(f[2]))) })
	case "trim":
		return withOverrides(f[1], func() string { return common.Hex(wcwidth.Trim(common.Unhex(f[2]), atoi(f[3]))) })
	case "force":
		return withOverrides(f[1], func() string { return common.Hex(wcwidth.Force(common.Unhex(f[2]), atoi(f[3]))) })
	case "trimlines":
		return withOverrides(f[1], func() string { return common.Hex(wcwidth.TrimEachLine(common.Unhex(f[2]), atoi(f[3]))) })
	case "bb":
		bb := runBB(f)
		return fmt.Sprintf("%d %s", bb.Col, showBuf(bb.Buffer(), false))
	case "label", "codearea":
		return showBuf(render(f), false)
	case "textview", "listbox":
		return showBuf(render(f), true)
	}
	return "bad-op"
}

func hasCtrl(ss ...string) bool {
	for _, s := range ss {
		for _, r := range s {
			if (r < 0x20 && r != '\n') || r == 0x7f {
				return true
			}
		}
	}
	return false
}

func boundaries(s string) []int {
	var bs []int
	for i := range s {
		bs = append(bs, i)
	}
	return append(bs, len(s))
}

func isBoundary(s string, k int) bool {
	for _, b := range boundaries(s) {
		if b == k {
			return true
		}
	}
	return false
}

func bufProblem(b *term.Buffer, W, H int) string {
	if len(b.Lines) > H {
		return fmt.Sprintf("too-many-lines:%d lines for height %d", len(b.Lines), H)
	}
	for i, l := range b.Lines {
		w := 0
		for _, c := range l {
			w += wcwidth.Of(c.Text)
		}
		if w > W {
			return fmt.Sprintf("line-too-wide:line %d is %d columns for width %d", i, w, W)
		}
	}
	return ""
}

// oracle evaluates C34's statement directly on the real code.
func oracle(_ any, f []string, out string) (string, string) {
	crashed := out == "PANIC" || out == "TIMEOUT"
	switch f[0] {
	case "trim":
		s, w := common.Unhex(f[2]), atoi(f[3])
		if crashed {
			return "trim-crash", out
		}
		return withOverrides2(f[1], func() (string, string) {
			res := wcwidth.Trim(s, w)
			if !strings.HasPrefix(s, res) || !isBoundary(s, len(res)) {
				return "trim-not-a-boundary-prefix", fmt.Sprintf("Trim(%q,%d)=%q", s, w, res)
			}
			if w < 0 {
				if res != "" {
					return "trim-negative-width-nonempty", fmt.Sprintf("Trim(%q,%d)=%q", s, w, res)
				}
				return "", ""
			}
			if wcwidth.Of(res) > w {
				return "trim-too-wide", fmt.Sprintf("Trim(%q,%d)=%q has width %d", s, w, res, wcwidth.Of(res))
			}
			for _, b := range boundaries(s) {
				if b > len(res) && wcwidth.Of(s[:b]) <= w {
					return "trim-not-longest", fmt.Sprintf("Trim(%q,%d)=%q but %q also fits", s, w, res, s[:b])
				}
			}
			return "", ""
		})
	case "force":
		s, w := common.Unhex(f[2]), atoi(f[3])
		if w < 0 {
			return "", "" // no text has a negative width: outside the quantifier
		}
		if crashed {
			return "force-crash", out
		}
		return withOverrides2(f[1], func() (string, string) {
			res := wcwidth.Force(s, w)
			if wcwidth.Of(res) != w {
				return "force-wrong-width", fmt.Sprintf("Force(%q,%d)=%q has width %d", s, w, res, wcwidth.Of(res))
			}
			return "", ""
		})
	case "trimlines":
		s, w := common.Unhex(f[2]), atoi(f[3])
		if crashed {
			return "trimlines-crash", out
		}
		if w < 0 {
			return "", ""
		}
		return withOverrides2(f[1], func() (string, string) {
			res := wcwidth.TrimEachLine(s, w)
			in, ol := strings.Split(s, "\n"), strings.Split(res, "\n")
			if len(in) != len(ol) {
				return "trimlines-line-count", fmt.Sprintf("%q -> %q", s, res)
			}
			for i := range in {
				if !strings.HasPrefix(in[i], ol[i]) || wcwidth.Of(ol[i]) > w {
					return "trimlines-line-too-wide", fmt.Sprintf("line %d of TrimEachLine(%q,%d) is %q", i, s, w, ol[i])
				}
			}
			return "", ""
		})
	case "bb":
		W := atoi(f[1])
		if W < 2 {
			return "", ""
		}
		if f[2] != "." {
			for _, op := range strings.Split(f[2], ",") {
				if op[0] == 'i' && atoi(op[1:])+2 > W {
					return "", "" // indent leaves no room for a 2-column cell: outside
				}
			}
		}
		if crashed {
			return "bufferbuilder-crash", out
		}
		if p := bufProblem(runBB(f).Buffer(), W, 1<<30); p != "" {
			return "bufferbuilder-" + strings.SplitN(p, ":", 2)[0], p
		}
		return "", ""
	case "label", "textview", "listbox", "codearea":
		W, H := atoi(f[1]), atoi(f[2])
		if W < 2 || H < 1 {
			return "", "" // the property is about width ≥ 2; the app never renders at height 0
		}
		suffix := ""
		switch f[0] {
		case "textview":
			if atoi(f[4]) < 0 {
				return "", "" // First is never negative (ScrollBy clamps it)
			}
			if hasCtrl(unhexList(f[5])...) {
				suffix = "-control-char"
			}
		case "listbox":
			if atoi(f[4]) > 1 {
				return "", "" // the editor uses Padding 0 or 1 only
			}
			if its := parseItems(f[8]); strings.Contains(f[3], "h") && len(its) > 0 && (atoi(f[5]) < 0 || atoi(f[5]) >= len(its)) {
				// Selected outside [0, n): every selection function of the list box
				// (Prev, Next, Left, Right, ...) keeps it in range; the vertical
				// renderer clamps it, the horizontal one indexes with it.
				return "", ""
			}
			for _, it := range parseItems(f[8]) {
				if hasCtrl(it...) {
					suffix = "-control-char"
				}
			}
		}
		if crashed {
			return f[0] + "-crash", out
		}
		if p := bufProblem(render(f), W, H); p != "" {
			if suffix != "" {
				return f[0] + suffix, p
			}
			return f[0] + "-" + strings.SplitN(p, ":", 2)[0], p
		}
		return "", ""
	}
	return "", ""
}

func withOverrides2(spec string, f func() (string, string)) (a, b string) {
	withOverrides(spec, func() string { a, b = f(); return "" })
	return
}

func tag(f []string, out string) string {
	if out == "PANIC" {
		return f[0] + ":panic"
	}
	switch f[0] {
	case "ofrune":
		if f[1] != "-" {
			return "ofrune:override"
		}
		return "ofrune:w" + out
	case "of":
		return "of"
	case "trim":
		s := common.Unhex(f[2])
		switch {
		case out == f[2]:
			return "trim:whole"
		case out == "-":
			return "trim:empty"
		case !utf8.ValidString(s):
			return "trim:cut-invalid-utf8"
		}
		return "trim:cut"
	case "force":
		s := common.Unhex(f[2])
		res := common.Unhex(out)
		switch {
		case strings.HasPrefix(res, s) && len(res) > len(s):
			return "force:padded"
		case res == s:
			return "force:exact"
		case strings.HasSuffix(res, " "):
			return "force:cut-and-padded"
		}
		return "force:cut"
	case "trimlines":
		return "trimlines"
	case "bb":
		p := strings.Fields(out)
		if len(p) >= 4 && p[3] != "1" {
			return "bb:multi-line"
		}
		return "bb:one-line"
	case "label", "codearea":
		p := strings.Fields(out)
		if len(p) >= 3 && p[2] == f[2] {
			return f[0] + ":full-height"
		}
		return f[0] + ":short"
	case "textview":
		p := strings.Fields(out)
		if len(p) >= 1 && p[0] != f[1] {
			return "textview:odd-width"
		}
		if f[3] == "1" && strings.HasSuffix(out, "20") {
			return "textview:scrollbar?"
		}
		return "textview:plain"
	case "listbox":
		k := "listbox:v"
		if strings.Contains(f[3], "h") {
			k = "listbox:h"
		}
		if f[8] == "." {
			return k + ":placeholder"
		}
		p := strings.Fields(out)
		if len(p) >= 3 && p[2] == f[2] {
			return k + ":full-height"
		}
		return k + ":short"
	}
	return ""
}

func run(c *common.Ctx) error {
	s := &common.Std{
		Rule: "wcwidth: every boundary of the zero-width and wide rune ranges ±1, runes −2..0x4ff, random runes, " +
			"random strings (ASCII, wide CJK/emoji, combining marks, C0/C1 controls, invalid UTF-8) × widths −2..40 × random override maps; " +
			"random BufferBuilder programs (write/newline/indent/eager-wrap/dot) at widths −1..12; " +
			"random Label/TextView/ListBox(vertical, horizontal)/CodeArea states rendered at widths 0..40 × heights 0..7; " +
			"non-trivial = everything except ofrune/of; distinct by op line",
		Gen:    gen,
		Impl:   impl,
		Oracle: oracle,
		Tag:    tag,
	}
	return s.Run(c)
}
