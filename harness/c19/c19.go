// Package c19: trace refinement and oracle for C19 (interrupting an
// evaluation).
//
// Each op evaluates one program of a corpus of long-running programs on a
// fresh Evaler of the REAL interpreter and interrupts it either
// deterministically, from inside the program (the harness builtins -vstep /
// -vcb cancel the Interrupts context synchronously at a chosen step), or
// asynchronously after a swept/random delay.  The run is in a child process
// (a Go panic on a worker goroutine cannot be recovered).  Recorded: the log of
// the interpreter's protocol steps (hooks, build tag verif), the result class,
// the running-callback high-water mark, the goroutine count before/after.
package c19

import (
	"context"
	"errors"
	"fmt"
	"runtime"
	"strconv"
	"strings"
	"sync"
	"sync/atomic"
	"time"

	"src.elv.sh/pkg/eval"
	"src.elv.sh/pkg/parse"
	"verifharness/c20"
	"verifharness/common"
)

func init() { common.Register("C19", run) }

const rule = "corpus of long-running programs (for/while loops, pipelines with each, peach with bounds 1..3 and +inf " +
	"fed by a list and by a pipeline, nested peach, sleep, recursive function calls, try/finally, run-parallel, a background job) × " +
	"interrupt mode: none, deterministic at every step 1..steps+1 (synchronous cancel from inside the program), asynchronous at " +
	"swept and random delays × GOMAXPROCS 1..16 with Gosched/spin injected at hook points; non-trivial = an interrupt was delivered " +
	"before the evaluation finished; distinct by op spec; + real-signal scripts (`sig`): a worker process runs sequences of " +
	"sequential and overlapping evaluations, each with its own eval.ListenInterrupts, with or without the shell's session-wide " +
	"signal channel, and is sent real SIGINT/SIGQUIT during evaluations, between them and after a listener's cleanup"

func run(c *common.Ctx) error {
	if c20.IsChild("C19") {
		return c20.ServeChild(ExecOp)
	}
	specs, err := c20.GatherSpecs(c, func(emit func(...string)) { gen(c, emit) }, stripTrace)
	if err != nil {
		return err
	}
	results, err := c20.RunIsolated(c, specs, 30*time.Second, func(spec, how, msg string) c20.OpResult {
		cls := "crash"
		if how == "TIMEOUT" {
			cls = "hang"
		}
		return c20.OpResult{Op: spec + "\t-", Impl: how, Class: cls, Detail: msg, Tag: "crash"}
	})
	if err != nil {
		return err
	}
	return c20.WriteRun(c, results, rule)
}

func stripTrace(op string) string {
	f := strings.Split(op, "\t")
	if f[0] == "int" && len(f) >= 5 {
		f = f[:4]
	}
	return strings.Join(f, "\t")
}

// ---------------------------------------------------------------- corpus

type program struct {
	name  string
	code  func(n, k int) string
	steps func(n int) int // number of -vstep/-vcb calls of an uninterrupted run
	seq   bool            // sequential: nothing may run after a synchronous interrupt
	bound bool            // uses peach &num-workers=k
	needs bool            // never terminates soon without an interrupt
}

var corpus = []program{
	{name: "for", seq: true, steps: func(n int) int { return n },
		code: func(n, k int) string { return fmt.Sprintf("for i [(range %d)] { -vstep }", n) }},
	{name: "while", seq: true, steps: func(n int) int { return n },
		code: func(n, k int) string {
			return fmt.Sprintf("var i = 0; while (< $i %d) { -vstep; set i = (+ $i 1) }", n)
		}},
	{name: "each", seq: true, steps: func(n int) int { return n },
		code: func(n, k int) string { return fmt.Sprintf("each {|x| -vstep } [(range %d)]", n) }},
	{name: "pipe-each", steps: func(n int) int { return n },
		code: func(n, k int) string { return fmt.Sprintf("range %d | each {|x| -vstep }", n) }},
	{name: "pipe3", steps: func(n int) int { return 2 * n },
		code: func(n, k int) string {
			return fmt.Sprintf("range %d | each {|x| -vstep; put $x } | each {|y| -vstep }", n)
		}},
	{name: "fn", seq: true, steps: func(n int) int { return n + 1 },
		code: func(n, k int) string {
			return fmt.Sprintf("fn f {|n| -vstep; if (> $n 0) { f (- $n 1) } }; f %d", n)
		}},
	{name: "try-finally", seq: true, steps: func(n int) int { return n + 1 },
		code: func(n, k int) string {
			return fmt.Sprintf("try { for i [(range %d)] { -vstep } } finally { -vstep }", n)
		}},
	{name: "sleep", seq: true, needs: true, steps: func(n int) int { return 1 },
		code: func(n, k int) string { return "-vstep; sleep 5" }},
	{name: "sleeps", seq: true, steps: func(n int) int { return n },
		code: func(n, k int) string { return fmt.Sprintf("for i [(range %d)] { -vstep; sleep 0.0003 }", n) }},
	{name: "peach-pipe", bound: true, steps: func(n int) int { return n },
		code: func(n, k int) string {
			return fmt.Sprintf("range %d | peach &num-workers=%d {|x| -vcb $x }", n, k)
		}},
	{name: "peach-list", bound: true, steps: func(n int) int { return n },
		code: func(n, k int) string {
			return fmt.Sprintf("peach &num-workers=%d {|x| -vcb $x } [(range %d)]", k, n)
		}},
	{name: "peach-sleep", bound: true, steps: func(n int) int { return n },
		code: func(n, k int) string {
			return fmt.Sprintf("range %d | peach &num-workers=%d {|x| -vcb $x; sleep 0.0003 }", n, k)
		}},
	{name: "peach-inf", steps: func(n int) int { return n },
		code: func(n, k int) string { return fmt.Sprintf("peach {|x| -vcb $x } [(range %d)]", n) }},
	{name: "peach-nested", bound: true, steps: func(n int) int { return 3 * n },
		code: func(n, k int) string {
			return fmt.Sprintf("range 3 | each {|a| peach &num-workers=%d {|x| -vcb $x } [(range %d)] }", k, n)
		}},
	{name: "run-parallel", steps: func(n int) int { return 2 * n },
		code: func(n, k int) string {
			return fmt.Sprintf("run-parallel { for i [(range %d)] { -vstep } } { for i [(range %d)] { -vstep } }", n, n)
		}},
	{name: "background", steps: func(n int) int { return n },
		code: func(n, k int) string {
			return fmt.Sprintf("{ sleep 0.002; -vbg; nop | nop } &; for i [(range %d)] { -vstep }", n)
		}},
}

func findProgram(name string) *program {
	for i := range corpus {
		if corpus[i].name == name {
			return &corpus[i]
		}
	}
	return nil
}

var schedCount, schedProcs int

func sched(r *common.Rand) string {
	procs := []int{1, 1, 2, 2, 3, 4, 4, 8, 16}
	if schedCount%40 == 0 {
		schedProcs = common.Pick(r, procs)
	}
	schedCount++
	return fmt.Sprintf("%d:%d:%d", schedProcs, r.Intn(1<<30), common.Pick(r, []int{0, 2, 4, 16}))
}

// genProg draws a program of the sequential fragment (tokens of Interp.lean).
func genProg(r *common.Rand, depth int, sleeps *int) []string {
	var toks []string
	for n := r.Range(0, 3); n > 0; n-- {
		switch x := r.Intn(10); {
		case x < 4 || depth == 0:
			toks = append(toks, "s")
		case x == 4 && *sleeps < 2:
			*sleeps++
			toks = append(toks, "z")
		case x < 7:
			toks = append(toks, fmt.Sprintf("L%d(", r.Range(0, 3)))
			toks = append(toks, genProg(r, depth-1, sleeps)...)
			toks = append(toks, ")")
		case x < 8:
			toks = append(toks, "C(")
			toks = append(toks, genProg(r, depth-1, sleeps)...)
			toks = append(toks, ")")
		default:
			toks = append(toks, "T(")
			toks = append(toks, genProg(r, depth-1, sleeps)...)
			toks = append(toks, ")", "(")
			toks = append(toks, genProg(r, depth-1, sleeps)...)
			toks = append(toks, ")")
		}
	}
	return toks
}

// render turns program tokens into Elvish.  Loops alternate between `for`,
// `each` over a list and `each` fed by a pipeline.
func render(toks []string, pos *int, depth int) string {
	var forms []string
	for *pos < len(toks) {
		t := toks[*pos]
		if t == ")" {
			break
		}
		*pos++
		switch {
		case t == "s":
			forms = append(forms, "-vstep")
		case t == "z":
			forms = append(forms, "sleep 0.0002")
		case t == "C(":
			body := render(toks, pos, depth+1)
			*pos++ // ")"
			forms = append(forms, "{ "+body+" }")
		case t == "T(":
			body := render(toks, pos, depth+1)
			*pos += 2 // ")" "("
			fin := render(toks, pos, depth+1)
			*pos++
			forms = append(forms, "try { "+body+" } finally { "+fin+" }")
		case strings.HasPrefix(t, "L"):
			n, _ := strconv.Atoi(strings.TrimSuffix(t[1:], "("))
			body := render(toks, pos, depth+1)
			*pos++
			switch (n + depth) % 3 {
			case 0:
				forms = append(forms, fmt.Sprintf("for i [(range %d)] { %s }", n, body))
			case 1:
				forms = append(forms, fmt.Sprintf("each {|x| %s } [(range %d)]", body, n))
			default:
				forms = append(forms, fmt.Sprintf("range %d | each {|x| %s }", n, body))
			}
		}
	}
	return strings.Join(forms, "; ")
}

func gen(c *common.Ctx, emit func(...string)) {
	r := c.Rand
	genSig(c, emit)
	for i := 0; i < c.Scale(150, 3000); i++ {
		sleeps := 0
		toks := genProg(r, 3, &sleeps)
		prog := "-"
		if len(toks) > 0 {
			prog = strings.Join(toks, " ")
		}
		for _, t := range []int{0, 1, 2, r.Range(3, 6), r.Range(7, 30)} {
			emit("seq", strconv.Itoa(t), prog)
		}
	}
	delays := []int{0, 10, 30, 60, 100, 150, 250, 400, 700, 1200, 2500}
	rounds := c.Scale(1, 12)
	for round := 0; round < rounds; round++ {
		for _, p := range corpus {
			ns := []int{3, 8}
			if round > 0 {
				ns = []int{r.Range(1, 6), r.Range(7, 40)}
			}
			for _, n := range ns {
				for _, k := range []int{1, 2, 3} {
					if !p.bound && k > 1 {
						continue
					}
					pf := fmt.Sprintf("%s:%d:%d", p.name, n, k)
					if !p.needs {
						emit("int", pf, "n", sched(r))
					}
					steps := p.steps(n)
					// deterministic: every step for small programs, a sample for larger ones
					for j := 1; j <= steps+1; j++ {
						if p.needs && j > steps {
							continue
						}
						if steps > 12 && !r.Chance(12, steps) {
							continue
						}
						emit("int", pf, "d"+strconv.Itoa(j), sched(r))
					}
					for _, d := range delays {
						if r.Chance(1, 2) || round == 0 && k == 1 {
							emit("int", pf, "a"+strconv.Itoa(d), sched(r))
						}
					}
					for i := 0; i < 2; i++ {
						emit("int", pf, "a"+strconv.Itoa(r.Intn(3000)), sched(r))
					}
				}
			}
		}
	}
}

// ---------------------------------------------------------------- real run

type recorder struct {
	mu         sync.Mutex
	cancel     context.CancelFunc
	target     int // deterministic: cancel at this step (0 = never)
	steps      int
	cancelled  atomic.Bool // the cancel bracket has completed
	afterSteps int         // -vstep/-vcb calls begun after the interrupt was delivered
	running    int
	maxRun     int
	seed       uint64
	rate       int
	perturbN   atomic.Uint64
}

func mix(z uint64) uint64 {
	z += 0x9E3779B97F4A7C15
	z = (z ^ (z >> 30)) * 0xBF58476D1CE4E5B9
	z = (z ^ (z >> 27)) * 0x94D049BB133111EB
	return z ^ (z >> 31)
}

func spin(d time.Duration) {
	t := time.Now()
	for time.Since(t) < d {
	}
}

func (r *recorder) pause(salt uint64) {
	if r.rate == 0 {
		return
	}
	x := mix(r.seed ^ mix(salt^r.perturbN.Add(1)))
	switch x % uint64(r.rate*8) {
	case 0, 1:
		runtime.Gosched()
	case 2:
		runtime.Gosched()
		runtime.Gosched()
	case 3, 4:
		spin(time.Duration(1+x>>40%30) * time.Microsecond)
	}
}

// deliver cancels the interrupt context; the cancellation and its log entry
// are one atomic step of the log (same bracket as the interpreter's checks).
func (r *recorder) deliver(fm *eval.Frame) {
	eval.VerifTraceLock()
	r.cancel()
	r.cancelled.Store(true)
	eval.VerifTraceUnlock(fm, "cancel")
}

// step is the body of -vstep and -vcb: count, maybe interrupt.
func (r *recorder) step(fm *eval.Frame) {
	r.mu.Lock()
	if r.cancelled.Load() {
		r.afterSteps++
	}
	r.steps++
	fire := r.target != 0 && r.steps == r.target
	r.mu.Unlock()
	if fire {
		r.deliver(fm)
	}
}

func (r *recorder) vstep(fm *eval.Frame) { r.step(fm) }

func (r *recorder) vcb(fm *eval.Frame, x int) {
	r.mu.Lock()
	r.running++
	if r.running > r.maxRun {
		r.maxRun = r.running
	}
	r.mu.Unlock()
	r.step(fm)
	switch d := mix(r.seed^uint64(x)*0x9E37) % 8; {
	case d < 2:
		runtime.Gosched()
	case d < 6:
		spin(time.Duration(2+d*8) * time.Microsecond)
	}
	r.mu.Lock()
	r.running--
	r.mu.Unlock()
}

// classOf maps the value Eval returned to ok | int | other.
func classOf(err error) string {
	if err == nil {
		return "ok"
	}
	leaves := c20.Leaves(err)
	if len(leaves) == 0 {
		return "ok"
	}
	for _, l := range leaves {
		if !errors.Is(l, eval.ErrInterrupted) {
			return "other"
		}
	}
	return "int"
}

// tokens turns the log into the model's labels.  Returns the tokens, the
// number of foreground pipelines started after the interrupt, and whether the
// interrupt was delivered before the top-level chunk ended.
func tokens(events []eval.VerifEvent, result string) (toks []string, startedAfter int, beforeTopExit bool) {
	pid := map[int64]int{}
	pidOf := func(id int64) int {
		if v, ok := pid[id]; ok {
			return v
		}
		pid[id] = len(pid) + 1
		return pid[id]
	}
	nInputs := map[int64]int{}
	for _, e := range events {
		if e.Label == "peach.chk1" {
			nInputs[e.Args[0]]++
		}
	}
	widx := map[int64]map[int64]int{}
	var g0 int64 = -1
	depth := 0
	cancelled := false
	topDone := false
	b := func(v int64) string {
		if v != 0 {
			return "1"
		}
		return "0"
	}
	for _, e := range events {
		a := e.Args
		switch e.Label {
		case "cancel":
			toks = append(toks, "x")
			cancelled = true
			if !topDone {
				beforeTopExit = true
			}
		case "pipe.start":
			toks = append(toks, fmt.Sprintf("ps%d:%s%s", pidOf(a[0]), b(a[1]), b(a[2])))
			if cancelled && a[1] == 0 {
				startedAfter++
			}
		case "pipe.abort":
			toks = append(toks, fmt.Sprintf("pa%d:%s", pidOf(a[0]), b(a[1])))
		case "pipe.form":
			toks = append(toks, fmt.Sprintf("pf%d:%s", pidOf(a[0]), b(a[1])))
		case "pipe.formdone":
			toks = append(toks, fmt.Sprintf("pd%d:%s", pidOf(a[0]), b(a[1])))
		case "pipe.end":
			toks = append(toks, fmt.Sprintf("pe%d:%s", pidOf(a[0]), b(a[1])))
		case "chunk.begin":
			if g0 < 0 {
				g0 = e.G
			}
			main := e.G == g0
			if main {
				depth++
			}
			toks = append(toks, "cb"+b(boolInt(main)))
		case "chunk.ok", "chunk.int", "chunk.exc":
			main := e.G == g0
			if main {
				depth--
				if depth == 0 {
					topDone = true
				}
			}
			toks = append(toks, "ce"+b(boolInt(main))+b(a[0])+map[string]string{"chunk.ok": "k", "chunk.int": "i", "chunk.exc": "e"}[e.Label])
		case "sleep.int":
			toks = append(toks, "si"+b(a[0]))
		case "sleep.ok":
			toks = append(toks, "so")
		case "peach.begin":
			k := "inf"
			if a[1] != 0 {
				k = strconv.FormatInt(a[2], 10)
			}
			toks = append(toks, fmt.Sprintf("pb%d:%s:%d:%s", pidOf(a[0]), k, nInputs[a[0]], b(a[3])))
			widx[a[0]] = map[int64]int{}
		default:
			if strings.HasPrefix(e.Label, "peach.") {
				m := widx[a[0]]
				if m == nil {
					continue
				}
				if e.Label == "peach.chk1" {
					m[a[1]] = len(m)
				}
				if t := peachTok(e, m); t != "" {
					toks = append(toks, fmt.Sprintf("p%d/%s", pidOf(a[0]), t))
				}
			}
		}
	}
	toks = append(toks, "ret:"+result)
	return
}

// peachTok is the C20 label token of one peach event; m maps worker ids to
// input indices (order of the chk1 events of that call).
func peachTok(e eval.VerifEvent, m map[int64]int) string {
	a := e.Args
	w := func() int { return m[a[1]] }
	switch e.Label {
	case "peach.chk1":
		return "c" + strconv.FormatInt(a[2], 10)
	case "peach.acqok":
		return "ao"
	case "peach.acqerr":
		return "ae"
	case "peach.chk2":
		return "d" + strconv.FormatInt(a[2], 10)
	case "peach.frel":
		return "fr"
	case "peach.spawn":
		return "sp"
	case "peach.eof":
		return "eof"
	case "peach.ret":
		return "wr"
	case "peach.start":
		return fmt.Sprintf("s%d", w())
	case "peach.finish":
		return fmt.Sprintf("f%d:%c", w(), "kcbe"[a[2]])
	case "peach.mark":
		return fmt.Sprintf("m%d", w())
	case "peach.done":
		return fmt.Sprintf("dn%d", w())
	case "peach.release":
		return fmt.Sprintf("r%d", w())
	}
	return ""
}

func boolInt(b bool) int64 {
	if b {
		return 1
	}
	return 0
}

// ExecOp runs one op spec on the real interpreter (called in the child process).
func ExecOp(spec string) c20.OpResult {
	f := strings.Split(spec, "\t")
	bad := c20.OpResult{Op: spec + "\t-", Impl: "bad-op", Class: "bad-op", Detail: spec}
	if len(f) == 3 && f[0] == "seq" {
		return execSeq(f)
	}
	if len(f) == 3 && f[0] == "sig" {
		return execSig(f)
	}
	if len(f) != 4 || f[0] != "int" {
		return bad
	}
	pf := strings.Split(f[1], ":")
	if len(pf) != 3 {
		return bad
	}
	p := findProgram(pf[0])
	n, _ := strconv.Atoi(pf[1])
	k, _ := strconv.Atoi(pf[2])
	if p == nil || k < 1 {
		return bad
	}
	sp := strings.Split(f[3], ":")
	if len(sp) != 3 {
		return bad
	}
	procs, _ := strconv.Atoi(sp[0])
	seed, _ := strconv.ParseUint(sp[1], 10, 64)
	rate, _ := strconv.Atoi(sp[2])
	if procs < 1 {
		procs = 1
	}
	if runtime.GOMAXPROCS(0) != procs {
		runtime.GOMAXPROCS(procs)
	}
	ctx, cancel := context.WithCancel(context.Background())
	defer cancel()
	rec := &recorder{cancel: cancel, seed: seed, rate: rate}
	asyncDelay := -1
	switch mode := f[2]; {
	case mode == "n":
	case strings.HasPrefix(mode, "d"):
		rec.target, _ = strconv.Atoi(mode[1:])
	case strings.HasPrefix(mode, "a"):
		asyncDelay, _ = strconv.Atoi(mode[1:])
	default:
		return bad
	}

	ev := eval.NewEvaler()
	var bgRan atomic.Int32
	ev.ExtendBuiltin(eval.BuildNs().AddGoFns(map[string]any{
		"-vstep": rec.vstep, "-vcb": rec.vcb, "-vbg": func() { bgRan.Add(1) }}))
	base := runtime.NumGoroutine()
	pfn := func(label string) { rec.pause(uint64(len(label))) }
	eval.VerifPerturb.Store(&pfn)
	eval.VerifTraceStart("cancel", "pipe.", "chunk.", "sleep.", "peach.")
	evalDone := make(chan struct{})
	var asyncWG sync.WaitGroup
	if asyncDelay >= 0 {
		asyncWG.Add(1)
		go func() {
			defer asyncWG.Done()
			t := time.Now()
			d := time.Duration(asyncDelay) * time.Microsecond
			for time.Since(t) < d {
				select {
				case <-evalDone:
					return // the evaluation finished first: no interrupt is delivered
				default:
				}
				if d > 300*time.Microsecond {
					time.Sleep(50 * time.Microsecond)
				} else {
					runtime.Gosched()
				}
			}
			rec.deliver(nil)
		}()
	}
	err := ev.Eval(parse.Source{Name: "[verif]", Code: p.code(n, k)}, eval.EvalCfg{Interrupts: ctx})
	events := eval.VerifTraceStop()
	close(evalDone)
	asyncWG.Wait()
	eval.VerifPerturb.Store(nil)
	leftover := c20.Settle(base)

	var mine []eval.VerifEvent
	for _, e := range events {
		if e.Ev == ev || e.Ev == nil {
			mine = append(mine, e)
		}
	}
	result := classOf(err)
	toks, startedAfter, beforeTopExit := tokens(mine, result)
	rec.mu.Lock()
	defer rec.mu.Unlock()
	over := 0
	if p.bound && rec.maxRun > k {
		over = rec.maxRun - k
	}
	res := c20.OpResult{Op: spec + "\t" + strings.Join(toks, " "), Events: len(toks),
		Impl: fmt.Sprintf("ok res=%s over=%d", result, over)}
	delivered := beforeTopExit
	if delivered {
		res.Tag = p.name + "," + f[2][:1]
	}
	switch {
	case startedAfter > 0:
		res.Class, res.Detail = "pipeline-started-after-interrupt",
			fmt.Sprintf("%d foreground pipeline(s) started after the interrupt was delivered", startedAfter)
	case p.seq && rec.target != 0 && rec.afterSteps > 0:
		res.Class, res.Detail = "step-ran-after-interrupt",
			fmt.Sprintf("%d step(s) of a sequential program ran after the synchronous interrupt at step %d", rec.afterSteps, rec.target)
	case rec.target != 0 && rec.steps >= rec.target && result != "int":
		res.Class, res.Detail = "not-interrupted-result",
			fmt.Sprintf("interrupted synchronously at step %d, Eval returned %s (%v)", rec.target, result, err)
	case delivered && result != "int":
		res.Class, res.Detail = "not-interrupted-result",
			fmt.Sprintf("interrupt delivered before the top-level chunk ended, Eval returned %s (%v)", result, err)
	case !delivered && !(rec.target != 0 && rec.steps >= rec.target) && result != "ok":
		res.Class, res.Detail = "exception-without-interrupt", fmt.Sprintf("Eval returned %s (%v)", result, err)
	case over > 0:
		res.Class, res.Detail = "worker-bound-exceeded-under-interrupt",
			fmt.Sprintf("%d callbacks ran at once with &num-workers=%d", rec.maxRun, k)
	case rec.running != 0:
		res.Class, res.Detail = "callback-running-after-return", fmt.Sprint(rec.running)
	case leftover > 0:
		res.Class, res.Detail = "goroutines-left-behind",
			fmt.Sprintf("%d goroutine(s) started by the evaluation still alive 2 s after it returned", leftover)
	}
	return res
}

// execSeq runs a program of the sequential fragment with a synchronous
// interrupt at step f[1]; the model (Interp.lean) must predict the result
// class and the number of steps that ran.
func execSeq(f []string) c20.OpResult {
	target, _ := strconv.Atoi(f[1])
	var toks []string
	if f[2] != "-" {
		toks = strings.Fields(f[2])
	}
	pos := 0
	code := render(toks, &pos, 0)
	if runtime.GOMAXPROCS(0) != 2 {
		runtime.GOMAXPROCS(2)
	}
	ctx, cancel := context.WithCancel(context.Background())
	defer cancel()
	rec := &recorder{cancel: cancel, target: target}
	ev := eval.NewEvaler()
	ev.ExtendBuiltin(eval.BuildNs().AddGoFns(map[string]any{"-vstep": rec.vstep}))
	base := runtime.NumGoroutine()
	eval.VerifTraceStart("cancel", "pipe.start")
	err := ev.Eval(parse.Source{Name: "[verif]", Code: code}, eval.EvalCfg{Interrupts: ctx})
	events := eval.VerifTraceStop()
	leftover := c20.Settle(base)
	result := classOf(err)
	res := c20.OpResult{Op: strings.Join(f, "\t"), Impl: fmt.Sprintf("res=%s steps=%d", result, rec.steps)}
	fired := target != 0 && rec.steps >= target
	if fired {
		res.Tag = "seq,interrupted"
	} else if len(toks) > 1 {
		res.Tag = "seq,completed"
	}
	startedAfter, seen := 0, false
	for _, e := range events {
		if e.Label == "cancel" {
			seen = true
		} else if seen && e.Label == "pipe.start" && e.Args[1] == 0 && e.Ev == ev {
			startedAfter++
		}
	}
	switch {
	case startedAfter > 0:
		res.Class, res.Detail = "pipeline-started-after-interrupt", fmt.Sprintf("%d in %q", startedAfter, code)
	case fired && rec.afterSteps > 0:
		res.Class, res.Detail = "step-ran-after-interrupt", fmt.Sprintf("%d step(s) after the interrupt at step %d in %q", rec.afterSteps, target, code)
	case fired && result != "int":
		res.Class, res.Detail = "not-interrupted-result", fmt.Sprintf("interrupted at step %d, Eval returned %s (%v) for %q", target, result, err, code)
	case !fired && result != "ok":
		res.Class, res.Detail = "exception-without-interrupt", fmt.Sprintf("%v for %q", err, code)
	case leftover > 0:
		res.Class, res.Detail = "goroutines-left-behind", fmt.Sprintf("%d for %q", leftover, code)
	}
	return res
}
