package c19

// Real-signal stream of C19 (`sig` ops).
//
// The `int` / `seq` ops interrupt an evaluation by cancelling the context that
// `EvalCfg.Interrupts` carries.  What turns a Ctrl-C into that cancellation is
// eval.ListenInterrupts, and its state is PROCESS-WIDE (the os/signal
// registration table): a mistake there shows only when several listeners and
// the shell's session-wide signal channel coexist, and its effect is that the
// interpreter process is killed by the signal (or never sees it).  So the
// evaluations of a `sig` op run in a WORKER process (this binary re-executed,
// see init below) that is sent real SIGINT / SIGQUIT by the controller.
//
// op:  sig <GOMAXPROCS> <script>          script tokens (Signal.lean):
//   S        install the session-wide channel exactly as pkg/shell does
//            (sys.NotifySignals + a draining goroutine)
//   U        remove it (signal.Stop + close, as the shell's cleanup)
//   B<i>:<p> start evaluation i of program p on its own goroutine, the way
//            shell.evalInTTY / instant mode do: ListenInterrupts; Eval; done()
//   F<i>     let evaluation i (a gated program, name g…) run to its end
//   W<i>     collect the result of evaluation i
//   I  Q     the controller sends a real SIGINT / SIGQUIT to the worker, then
//            waits until every evaluation that was running has its context
//            cancelled and the session channel has received the signal
//   Z<µs>    pause
//
// A signal is sent only while the session channel is installed or an
// evaluation is running (otherwise being killed IS the default action).

import (
	"bufio"
	"context"
	"fmt"
	"io"
	"os"
	"os/exec"
	"os/signal"
	"runtime"
	"strconv"
	"strings"
	"sync"
	"sync/atomic"
	"syscall"
	"time"

	"src.elv.sh/pkg/eval"
	"src.elv.sh/pkg/parse"
	"src.elv.sh/pkg/sys"
	"verifharness/c20"
	"verifharness/common"
)

const sigWorkerEnv = "VERIF_C19_SIGWORKER"

func init() {
	if os.Getenv(sigWorkerEnv) != "" {
		sigWorkerMain()
		os.Exit(0)
	}
}

// ---------------------------------------------------------------- programs

type sigProg struct {
	name string
	code func(id int) string
}

// Programs whose name starts with "g" block in -vgate until released (F) or
// interrupted; the others run until interrupted.
var sigProgs = []sigProg{
	{"gate", func(id int) string { return fmt.Sprintf("-vready %d; -vgate %d", id, id) }},
	{"gloop", func(id int) string {
		return fmt.Sprintf("-vready %d; for i [(range 3)] { nop }; -vgate %d; for i [(range 3)] { nop }", id, id)
	}},
	{"gpeach", func(id int) string {
		return fmt.Sprintf("-vready %d; peach {|x| -vgate %d } [1 2 3]", id, id)
	}},
	{"gpipe", func(id int) string {
		return fmt.Sprintf("-vready %d; range 3 | each {|x| -vgate %d }", id, id)
	}},
	{"while", func(id int) string { return fmt.Sprintf("-vready %d; while $true { sleep 0.001 }", id) }},
	{"sleep", func(id int) string { return fmt.Sprintf("-vready %d; sleep 100", id) }},
	{"each", func(id int) string {
		return fmt.Sprintf("-vready %d; range 100000 | each {|x| sleep 0.002 }", id)
	}},
	{"peach", func(id int) string {
		return fmt.Sprintf("-vready %d; range 100000 | peach &num-workers=2 {|x| sleep 0.002 }", id)
	}},
	{"tryf", func(id int) string {
		return fmt.Sprintf("-vready %d; while $true { try { sleep 0.001 } finally { nop } }", id)
	}},
	{"par", func(id int) string {
		return fmt.Sprintf("-vready %d; run-parallel { sleep 100 } { while $true { sleep 0.001 } }", id)
	}},
	{"busy", func(id int) string {
		return fmt.Sprintf("-vready %d; var i = 0; while $true { set i = (+ $i 1) }", id)
	}},
}

func findSigProg(name string) *sigProg {
	for i := range sigProgs {
		if sigProgs[i].name == name {
			return &sigProgs[i]
		}
	}
	return nil
}

// ---------------------------------------------------------------- worker

type sigEval struct {
	ready    chan struct{} // the program called -vready (listener installed, evaluation running)
	gate     chan struct{}
	returned chan struct{}
	ctx      atomic.Pointer[context.Context]
	err      error
}

const workerWait = 6 * time.Second

func sigWorkerMain() {
	// Nothing may outlive the harness: stop when stdin closes, and in any case after a minute.
	time.AfterFunc(60*time.Second, func() { os.Exit(3) })
	if n, err := strconv.Atoi(os.Getenv("VERIF_C19_PROCS")); err == nil && n > 0 {
		runtime.GOMAXPROCS(n)
	}
	var mu sync.Mutex
	evals := map[int]*sigEval{}
	get := func(id int) *sigEval {
		mu.Lock()
		defer mu.Unlock()
		return evals[id]
	}
	ev := eval.NewEvaler()
	ev.ExtendBuiltin(eval.BuildNs().AddGoFns(map[string]any{
		"-vready": func(id int) {
			if e := get(id); e != nil {
				select {
				case <-e.ready:
				default:
					close(e.ready)
				}
			}
		},
		"-vgate": func(fm *eval.Frame, id int) error {
			e := get(id)
			if e == nil {
				return nil
			}
			select {
			case <-e.gate:
				return nil
			case <-fm.Context().Done():
				return eval.ErrInterrupted
			}
		},
	}))
	var sessCh chan os.Signal
	var sessSeen atomic.Int64

	in := bufio.NewReader(os.Stdin)
	out := bufio.NewWriter(os.Stdout)
	reply := func(format string, a ...any) {
		fmt.Fprintf(out, format+"\n", a...)
		out.Flush()
	}
	ignored := 0
	if signal.Ignored(syscall.SIGINT) || signal.Ignored(syscall.SIGQUIT) {
		ignored = 1
	}
	reply("hello ignored=%d", ignored)
	for {
		line, err := in.ReadString('\n')
		if err != nil {
			os.Exit(0)
		}
		cmd := strings.TrimSpace(line)
		if cmd == "" {
			continue
		}
		arg := cmd[1:]
		switch cmd[0] {
		case 'S':
			if sessCh != nil {
				reply("fail session already installed")
				continue
			}
			// pkg/shell.initSignal
			sessCh = sys.NotifySignals()
			go func(ch chan os.Signal) {
				for sig := range ch {
					if sig == syscall.SIGINT || sig == syscall.SIGQUIT {
						sessSeen.Add(1)
					}
				}
			}(sessCh)
			reply("ok")
		case 'U':
			if sessCh == nil {
				reply("fail no session")
				continue
			}
			signal.Stop(sessCh)
			close(sessCh)
			sessCh = nil
			reply("ok")
		case 'B':
			f := strings.SplitN(arg, ":", 2)
			id, _ := strconv.Atoi(f[0])
			var p *sigProg
			if len(f) == 2 {
				p = findSigProg(f[1])
			}
			if p == nil || get(id) != nil {
				reply("fail bad evaluation %s", arg)
				continue
			}
			e := &sigEval{ready: make(chan struct{}), gate: make(chan struct{}), returned: make(chan struct{})}
			mu.Lock()
			evals[id] = e
			mu.Unlock()
			code := p.code(id)
			go func() {
				// shell.evalInTTY / edit.instantStart
				ctx, done := eval.ListenInterrupts()
				e.ctx.Store(&ctx)
				err := ev.Eval(parse.Source{Name: "[verif]", Code: code}, eval.EvalCfg{Interrupts: ctx})
				done()
				e.err = err
				close(e.returned)
			}()
			select {
			case <-e.ready:
				reply("ok")
			case <-e.returned:
				reply("fail evaluation returned before it was ready: %v", e.err)
			case <-time.After(workerWait):
				reply("fail evaluation not running after %v", workerWait)
			}
		case 'F':
			id, _ := strconv.Atoi(arg)
			e := get(id)
			if e == nil {
				reply("fail no evaluation %d", id)
				continue
			}
			close(e.gate)
			select {
			case <-e.returned:
				reply("ok")
			case <-time.After(workerWait):
				reply("fail evaluation %d did not finish after its gate opened", id)
			}
		case 'W':
			id, _ := strconv.Atoi(arg)
			e := get(id)
			if e == nil {
				reply("fail no evaluation %d", id)
				continue
			}
			select {
			case <-e.returned:
				reply("ret %s %s", classOf(e.err), strings.ReplaceAll(fmt.Sprint(e.err), "\n", " "))
			case <-time.After(workerWait):
				reply("fail evaluation %d has not returned", id)
			}
		case 'P': // P<i>,<j>…: wait until the contexts of these evaluations are cancelled
			deadline := time.After(workerWait)
			pending := ""
			for _, a := range strings.Split(arg, ",") {
				if a == "" {
					continue
				}
				id, _ := strconv.Atoi(a)
				e := get(id)
				if e == nil || e.ctx.Load() == nil {
					pending = a
					break
				}
				select {
				case <-(*e.ctx.Load()).Done():
				case <-deadline:
					pending = a
				}
				if pending != "" {
					break
				}
			}
			if pending != "" {
				reply("pending %s", pending)
			} else {
				reply("ok")
			}
		case 'N': // N<n>: wait until the session channel has seen n signals
			n, _ := strconv.Atoi(arg)
			t0 := time.Now()
			for sessSeen.Load() < int64(n) && time.Since(t0) < workerWait {
				time.Sleep(100 * time.Microsecond)
			}
			if got := sessSeen.Load(); got < int64(n) {
				reply("pending seen=%d", got)
			} else {
				reply("ok")
			}
		case 'Z':
			n, _ := strconv.Atoi(arg)
			if n > 100000 {
				n = 100000
			}
			if n <= 200 {
				spin(time.Duration(n) * time.Microsecond)
			} else {
				time.Sleep(time.Duration(n) * time.Microsecond)
			}
			reply("ok")
		case 'E':
			reply("end sess=%d", sessSeen.Load())
			os.Exit(0)
		default:
			reply("fail unknown command %q", cmd)
		}
	}
}

// ---------------------------------------------------------------- controller

type sigWorker struct {
	cmd    *exec.Cmd
	stdin  io.WriteCloser
	stdout *bufio.Reader
	stderr *sigTail
	lines  chan string
}

// sigTail keeps the first 4 KB and the last 8 KB of the worker's stderr (the
// runtime's "SIGQUIT: quit" line comes first, followed by a long goroutine dump).
type sigTail struct {
	mu   sync.Mutex
	head []byte
	b    []byte
}

func (t *sigTail) Write(p []byte) (int, error) {
	t.mu.Lock()
	if room := 1<<12 - len(t.head); room > 0 {
		n := len(p)
		if n > room {
			n = room
		}
		t.head = append(t.head, p[:n]...)
	}
	t.b = append(t.b, p...)
	if len(t.b) > 1<<14 {
		t.b = t.b[len(t.b)-1<<13:]
	}
	t.mu.Unlock()
	return len(p), nil
}

func (t *sigTail) String() string {
	t.mu.Lock()
	defer t.mu.Unlock()
	if len(t.b) <= len(t.head) {
		return string(t.head)
	}
	return string(t.head) + "\n…\n" + string(t.b)
}

func startSigWorker(procs int) (*sigWorker, error) {
	cmd := exec.Command(os.Args[0])
	var env []string
	for _, kv := range os.Environ() {
		if !strings.HasPrefix(kv, "VERIF_HARNESS_CHILD=") && !strings.HasPrefix(kv, "GOMAXPROCS=") {
			env = append(env, kv)
		}
	}
	cmd.Env = append(env, sigWorkerEnv+"=1", "VERIF_C19_PROCS="+strconv.Itoa(procs), "GOTRACEBACK=single")
	// own process group: nothing but the worker sees its signals, and a Ctrl-C aimed at the check
	// does not reach it (it ends when its stdin closes)
	cmd.SysProcAttr = &syscall.SysProcAttr{Setpgid: true}
	stdin, err := cmd.StdinPipe()
	if err != nil {
		return nil, err
	}
	stdout, err := cmd.StdoutPipe()
	if err != nil {
		return nil, err
	}
	w := &sigWorker{cmd: cmd, stdin: stdin, stdout: bufio.NewReader(stdout), stderr: &sigTail{}, lines: make(chan string, 16)}
	cmd.Stderr = w.stderr
	if err := cmd.Start(); err != nil {
		return nil, err
	}
	go func() {
		for {
			l, err := w.stdout.ReadString('\n')
			if err != nil {
				close(w.lines)
				return
			}
			w.lines <- strings.TrimRight(l, "\n")
		}
	}()
	return w, nil
}

func (w *sigWorker) stop() {
	w.stdin.Close()
	w.cmd.Process.Kill()
	w.cmd.Wait()
}

// errDied: the worker process is gone; how it ended.
type errDied struct{ how string }

func (e errDied) Error() string { return e.how }

type errStuck struct{ what string }

func (e errStuck) Error() string { return e.what }

// died waits for the worker and describes its end.
func (w *sigWorker) died() errDied {
	done := make(chan error, 1)
	go func() { done <- w.cmd.Wait() }()
	select {
	case <-done:
	case <-time.After(5 * time.Second):
		w.cmd.Process.Kill()
		<-done
		return errDied{"stdout closed but the process kept running"}
	}
	st := w.cmd.ProcessState
	how := st.String()
	if ws, ok := st.Sys().(syscall.WaitStatus); ok && ws.Signaled() {
		return errDied{"killed by signal: " + ws.Signal().String()}
	}
	tail := w.stderr.String()
	if strings.Contains(tail, "SIGQUIT: quit") {
		return errDied{"killed by signal: quit (Go runtime: \"SIGQUIT: quit\", " + how + ")"}
	}
	return errDied{how + ": " + firstLine(tail)}
}

func firstLine(s string) string {
	for _, l := range strings.Split(s, "\n") {
		if strings.HasPrefix(l, "panic: ") || strings.HasPrefix(l, "fatal error: ") {
			return l
		}
	}
	s = strings.TrimSpace(s)
	if len(s) > 200 {
		s = s[:200]
	}
	return strings.ReplaceAll(s, "\n", " | ")
}

// recv reads one reply line.
func (w *sigWorker) recv() (string, error) {
	select {
	case l, ok := <-w.lines:
		if !ok {
			return "", w.died()
		}
		return l, nil
	case <-time.After(workerWait + 4*time.Second):
		return "", errStuck{"worker did not answer"}
	}
}

func (w *sigWorker) ask(cmd string) (string, error) {
	if _, err := io.WriteString(w.stdin, cmd+"\n"); err != nil {
		return "", w.died()
	}
	return w.recv()
}

type sigBook struct {
	gated     bool
	finished  bool // F sent
	signalled bool // a signal was sent while it was running
	waited    bool
}

// execSig runs one `sig` op.
func execSig(f []string) c20.OpResult {
	spec := strings.Join(f, "\t")
	res := c20.OpResult{Op: spec}
	procs, _ := strconv.Atoi(f[1])
	if procs < 1 {
		procs = 1
	}
	toks := strings.Fields(f[2])
	if f[2] == "-" {
		toks = nil
	}
	w, err := startSigWorker(procs)
	if err != nil {
		res.Impl, res.Class, res.Detail = "worker-start-failed", "bad-op", err.Error()
		return res
	}
	defer w.stop()
	hello, err := w.recv()
	if err != nil || !strings.HasPrefix(hello, "hello") {
		res.Impl, res.Class, res.Detail = "worker-start-failed", "crash", fmt.Sprintf("worker said %q, %v", hello, err)
		return res
	}
	inheritedIgnore := strings.Contains(hello, "ignored=1")

	sess := false
	sessSent := 0
	book := map[int]*sigBook{}
	var order []int
	var results []string
	running := func() (ids []int) {
		for _, id := range order {
			if b := book[id]; !b.finished && !b.signalled {
				ids = append(ids, id)
			}
		}
		return
	}
	feat := map[string]bool{}
	fail := func(k int, impl, class, detail string) c20.OpResult {
		res.Impl = fmt.Sprintf("%s@%d:%s", impl, k, toks[k])
		res.Class = class
		res.Detail = fmt.Sprintf("script %q, token #%d (%s): %s", f[2], k, toks[k], detail)
		res.Tag = "sig,failed"
		return res
	}
	// classify a communication error at token k
	commFail := func(k int, err error, during string) c20.OpResult {
		switch e := err.(type) {
		case errDied:
			cls := "crash"
			if strings.HasPrefix(e.how, "killed by signal") {
				cls = "killed-by-signal"
			}
			return fail(k, "KILLED", cls, fmt.Sprintf("the interpreter process died %s: %s", during, e.how))
		default:
			return fail(k, "STUCK", "hang", fmt.Sprintf("%s: %v", during, err))
		}
	}
	for k, t := range toks {
		bad := func() c20.OpResult {
			res.Impl = fmt.Sprintf("bad-script@%d:%s", k, t)
			return res
		}
		idOf := func(s string) (int, bool) {
			n, err := strconv.Atoi(s)
			return n, err == nil && n >= 0
		}
		switch {
		case t == "S":
			if sess {
				return bad()
			}
			if r, err := w.ask("S"); err != nil || r != "ok" {
				if err == nil {
					err = errStuck{r}
				}
				return commFail(k, err, "installing the session channel")
			}
			sess = true
			feat["sess"] = true
		case t == "U":
			if !sess {
				return bad()
			}
			if r, err := w.ask("U"); err != nil || r != "ok" {
				if err == nil {
					err = errStuck{r}
				}
				return commFail(k, err, "removing the session channel")
			}
			sess = false
		case strings.HasPrefix(t, "B"):
			parts := strings.Split(t[1:], ":")
			if len(parts) != 2 || parts[1] == "" {
				res.Impl = "bad-op"
				return res
			}
			id, ok := idOf(parts[0])
			if !ok {
				res.Impl = "bad-op"
				return res
			}
			if book[id] != nil {
				return bad()
			}
			if findSigProg(parts[1]) == nil {
				res.Impl, res.Class, res.Detail = "unknown-program", "bad-op", parts[1]
				return res
			}
			if len(running()) >= 1 {
				feat["overlap"] = true
			}
			r, err := w.ask(t)
			if err != nil || r != "ok" {
				if err == nil {
					err = errStuck{r}
				}
				return commFail(k, err, "starting evaluation "+parts[0])
			}
			book[id] = &sigBook{gated: strings.HasPrefix(parts[1], "g")}
			order = append(order, id)
		case strings.HasPrefix(t, "F"):
			id, ok := idOf(t[1:])
			if !ok {
				res.Impl = "bad-op"
				return res
			}
			b := book[id]
			if b == nil || !b.gated || b.finished || b.signalled {
				return bad()
			}
			r, err := w.ask(t)
			if err != nil || r != "ok" {
				if err == nil {
					err = errStuck{r}
				}
				return commFail(k, err, "letting evaluation "+t[1:]+" finish")
			}
			b.finished = true
			if len(running()) >= 1 {
				feat["finished-while-other-runs"] = true
			}
		case strings.HasPrefix(t, "W"):
			id, ok := idOf(t[1:])
			if !ok {
				res.Impl = "bad-op"
				return res
			}
			b := book[id]
			if b == nil || b.waited || !(b.finished || b.signalled) {
				return bad()
			}
			r, err := w.ask(t)
			if err != nil {
				return commFail(k, err, "waiting for evaluation "+t[1:])
			}
			rf := strings.SplitN(r, " ", 3)
			if rf[0] != "ret" || len(rf) < 2 {
				if b.signalled {
					return fail(k, "IGNORED", "signal-ignored",
						fmt.Sprintf("evaluation %d was sent a signal while it was running and has not returned: %s", id, r))
				}
				return commFail(k, errStuck{r}, "waiting for evaluation "+t[1:])
			}
			b.waited = true
			results = append(results, fmt.Sprintf("%d:%s", id, rf[1]))
			msg := ""
			if len(rf) == 3 {
				msg = rf[2]
			}
			switch {
			case b.signalled && rf[1] != "int":
				res.Class = "not-interrupted-result"
				res.Detail = fmt.Sprintf("script %q: a signal arrived while evaluation %d was running, Eval returned %s (%s)", f[2], id, rf[1], msg)
			case !b.signalled && rf[1] != "ok":
				res.Class = "exception-without-interrupt"
				res.Detail = fmt.Sprintf("script %q: no signal arrived while evaluation %d was running, Eval returned %s (%s)", f[2], id, rf[1], msg)
			}
		case t == "I" || t == "Q":
			live := running()
			if !sess && len(live) == 0 {
				res.Impl = fmt.Sprintf("unhandled@%d:%s", k, t)
				return res
			}
			sig := syscall.SIGINT
			if t == "Q" {
				sig = syscall.SIGQUIT
				feat["quit"] = true
			}
			switch {
			case len(live) == 0:
				feat["between"] = true
			case len(order) > len(live):
				feat["after-earlier-listener"] = true
			default:
				feat["during"] = true
			}
			if err := syscall.Kill(w.cmd.Process.Pid, sig); err != nil {
				return commFail(k, w.died(), "before the signal could be sent")
			}
			var ids []string
			for _, id := range live {
				book[id].signalled = true
				ids = append(ids, strconv.Itoa(id))
			}
			what := fmt.Sprintf("after a real %v (session channel installed: %v; evaluations running: %v)", sig, sess, live)
			if len(ids) > 0 {
				r, err := w.ask("P" + strings.Join(ids, ","))
				if err != nil {
					return commFail(k, err, what)
				}
				if r != "ok" {
					return fail(k, "IGNORED", "signal-ignored",
						fmt.Sprintf("%s the context of evaluation %s was not cancelled within %v", what, strings.TrimPrefix(r, "pending "), workerWait))
				}
			}
			if sess {
				sessSent++
				r, err := w.ask("N" + strconv.Itoa(sessSent))
				if err != nil {
					return commFail(k, err, what)
				}
				if r != "ok" {
					return fail(k, "IGNORED", "signal-ignored",
						fmt.Sprintf("%s the session channel did not receive it within %v (%s)", what, workerWait, r))
				}
			}
		case strings.HasPrefix(t, "Z"):
			if _, ok := idOf(t[1:]); !ok {
				res.Impl = "bad-op"
				return res
			}
			if r, err := w.ask(t); err != nil || r != "ok" {
				if err == nil {
					err = errStuck{r}
				}
				return commFail(k, err, "during a pause")
			}
		default:
			res.Impl = "bad-op"
			return res
		}
	}
	r, err := w.ask("E")
	if err != nil {
		if len(toks) == 0 {
			res.Impl, res.Class, res.Detail = "worker-failed", "crash", err.Error()
			return res
		}
		return commFail(len(toks)-1, err, "at the end of the script")
	}
	rs := "-"
	if len(results) > 0 {
		rs = strings.Join(results, ",")
	}
	res.Impl = fmt.Sprintf("alive res=%s %s", rs, strings.TrimPrefix(r, "end "))
	_ = inheritedIgnore
	switch {
	case feat["finished-while-other-runs"] && feat["after-earlier-listener"]:
		res.Tag = "sig,signal-after-other-listener-finished"
	case feat["between"]:
		res.Tag = "sig,signal-between-evaluations"
	case feat["overlap"]:
		res.Tag = "sig,overlapping-listeners"
	case feat["after-earlier-listener"]:
		res.Tag = "sig,later-evaluation-interrupted"
	case feat["during"]:
		res.Tag = "sig,during"
	default:
		res.Tag = "sig,no-signal"
	}
	return res
}

// ---------------------------------------------------------------- generator

type genEval struct {
	id                          int
	gated                       bool
	finished, signalled, waited bool
}

// genSigScript draws a valid script: a random walk over the actions enabled by
// the bookkeeping (a signal only while the session channel is installed or an
// evaluation is running), closed so that every evaluation ends and is collected.
func genSigScript(r *common.Rand, shape int) string {
	var toks []string
	var evs []*genEval
	sess := false
	next := 1
	pause := func() {
		if r.Chance(2, 3) {
			toks = append(toks, "Z"+strconv.Itoa(common.Pick(r, []int{0, 20, 100, 300, 1000, 3000, 20000, 20000})))
		}
	}
	running := func() (out []*genEval) {
		for _, e := range evs {
			if !e.finished && !e.signalled {
				out = append(out, e)
			}
		}
		return
	}
	uncollected := func() (out []*genEval) {
		for _, e := range evs {
			if (e.finished || e.signalled) && !e.waited {
				out = append(out, e)
			}
		}
		return
	}
	begin := func(gated bool) {
		var names []string
		for _, p := range sigProgs {
			if strings.HasPrefix(p.name, "g") == gated {
				names = append(names, p.name)
			}
		}
		e := &genEval{id: next, gated: gated}
		next++
		evs = append(evs, e)
		toks = append(toks, fmt.Sprintf("B%d:%s", e.id, common.Pick(r, names)))
	}
	signalNow := func() {
		toks = append(toks, common.Pick(r, []string{"I", "I", "Q"}))
		for _, e := range running() {
			e.signalled = true
		}
	}
	// shape 0: shell session (session channel for the whole script); 1: no session channel
	// (embedders, `elvish -c`, transcript tests); 2: session channel removed half-way
	if shape != 1 {
		toks = append(toks, "S")
		sess = true
	}
	steps := r.Range(5, 12)
	for i := 0; i < steps; i++ {
		if shape == 2 && sess && i == steps/2 {
			toks = append(toks, "U")
			sess = false
			continue
		}
		run, unc := running(), uncollected()
		var acts []int
		if len(run)+len(unc) < 3 {
			acts = append(acts, 0, 0, 0) // begin
		}
		for _, e := range run {
			if e.gated {
				acts = append(acts, 1, 1) // finish one
				break
			}
		}
		if len(unc) > 0 {
			acts = append(acts, 2, 2)
		}
		if sess || len(run) > 0 {
			acts = append(acts, 3, 3, 3)
		}
		if len(acts) == 0 {
			acts = []int{0}
		}
		switch common.Pick(r, acts) {
		case 0:
			begin(r.Chance(1, 2))
			pause()
		case 1:
			var g []*genEval
			for _, e := range run {
				if e.gated {
					g = append(g, e)
				}
			}
			e := common.Pick(r, g)
			e.finished = true
			toks = append(toks, "F"+strconv.Itoa(e.id))
			if r.Bool() {
				e.waited = true
				toks = append(toks, "W"+strconv.Itoa(e.id))
			}
			pause()
		case 2:
			e := common.Pick(r, unc)
			e.waited = true
			toks = append(toks, "W"+strconv.Itoa(e.id))
			pause()
		case 3:
			signalNow()
			pause()
		}
	}
	// close: end what is still running, collect everything, and check that the process still
	// answers a signal afterwards
	if run := running(); len(run) > 0 {
		if g := run[0]; g.gated && r.Bool() {
			g.finished = true
			toks = append(toks, "F"+strconv.Itoa(g.id))
			pause()
		}
		if len(running()) > 0 {
			signalNow()
		}
	}
	for _, e := range uncollected() {
		e.waited = true
		toks = append(toks, "W"+strconv.Itoa(e.id))
	}
	pause()
	if sess && r.Bool() {
		toks = append(toks, common.Pick(r, []string{"I", "Q"}))
	}
	begin(false)
	pause()
	signalNow()
	toks = append(toks, "W"+strconv.Itoa(next-1))
	return strings.Join(toks, " ")
}

func genSig(c *common.Ctx, emit func(...string)) {
	r := c.Rand
	n := c.Scale(24, 400)
	for i := 0; i < n; i++ {
		procs := common.Pick(r, []int{1, 2, 2, 4, 8})
		emit("sig", strconv.Itoa(procs), genSigScript(r, i%3))
	}
}
