// Command vh is the Go side of the model/code correspondence check.
//
//	vh -prop C37 -seed 1 -tier quick -dir /scratch [-ops-in file]
//
// It calls the real elvish packages in-process (module src.elv.sh replaced by
// the tree under check) and writes ops.txt, impl.out, oracle.out, stats.json.
package main

import (
	"flag"
	"fmt"
	"os"

	"verifharness/common"
)

func main() {
	prop := flag.String("prop", "", "property id")
	seed := flag.Uint64("seed", 1, "PRNG seed")
	tier := flag.String("tier", "quick", "quick|thorough")
	dir := flag.String("dir", "", "scratch directory")
	opsIn := flag.String("ops-in", "", "replay these ops instead of generating")
	corpus := flag.String("corpus", "", "corpus of ops to run before the generated ones")
	list := flag.Bool("list", false, "list registered properties")
	flag.Parse()
	if *list {
		for _, id := range common.IDs() {
			fmt.Println(id)
		}
		return
	}
	r, ok := common.Lookup(*prop)
	if !ok {
		fmt.Fprintln(os.Stderr, "vh: no harness registered for", *prop)
		os.Exit(3)
	}
	c := &common.Ctx{Prop: *prop, Seed: *seed, Tier: *tier, Dir: *dir, OpsIn: *opsIn, Corpus: *corpus,
		Rand: common.NewRand(*seed), Extra: map[string]any{}}
	if err := r(c); err != nil {
		fmt.Fprintln(os.Stderr, "vh:", err)
		os.Exit(3)
	}
}
