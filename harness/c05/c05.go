// Package c05: correspondence and oracle for C05 (typed numbers survive
// to-string/num; every documented literal parses; non-numbers are rejected).
package c05

import (
	"fmt"
	"math"
	"math/big"
	"strconv"
	"strings"

	"src.elv.sh/pkg/eval"
	"src.elv.sh/pkg/eval/vals"
	"verifharness/common"
)

func init() { common.Register("C05", run) }

// ---------------------------------------------------------------------------
// canonical printing of a Go number value (the line the Lean driver reproduces)

func show(v any) string {
	switch v := v.(type) {
	case nil:
		return "nil"
	case int:
		return "int " + strconv.Itoa(v)
	case *big.Int:
		return "big " + v.String()
	case *big.Rat:
		return "rat " + v.Num().String() + "/" + v.Denom().String()
	case float64:
		return fmt.Sprintf("float %016x", math.Float64bits(v))
	}
	return fmt.Sprintf("other %T", v)
}

// sameNum: same Go representation and same value; floats bit-identical except
// NaN, which only has to stay NaN.
func sameNum(a, b any) bool {
	switch a := a.(type) {
	case int:
		b, ok := b.(int)
		return ok && a == b
	case *big.Int:
		b, ok := b.(*big.Int)
		return ok && a.Cmp(b) == 0
	case *big.Rat:
		b, ok := b.(*big.Rat)
		return ok && a.Cmp(b) == 0
	case float64:
		b, ok := b.(float64)
		if !ok {
			return false
		}
		if math.IsNaN(a) {
			return math.IsNaN(b)
		}
		return math.Float64bits(a) == math.Float64bits(b)
	}
	return false
}

var (
	minInt = big.NewInt(math.MinInt64)
	maxInt = big.NewInt(math.MaxInt64)
)

// canonical: is v one of the representations elvish itself produces?
func canonical(v any) bool {
	switch v := v.(type) {
	case int, float64:
		return true
	case *big.Int:
		return v.Cmp(minInt) < 0 || v.Cmp(maxInt) > 0
	case *big.Rat:
		return !v.IsInt()
	}
	return false
}

// canon: the canonical representation of an exact value, computed here (not by
// the code under test).
func canonInt(z *big.Int) any {
	if z.Cmp(minInt) >= 0 && z.Cmp(maxInt) <= 0 {
		return int(z.Int64())
	}
	return z
}

func canonRat(q *big.Rat) any {
	if q.IsInt() {
		return canonInt(new(big.Int).Set(q.Num()))
	}
	return q
}

// ---------------------------------------------------------------------------
// in-process evaler

type state struct {
	ev  *eval.Evaler
	fns map[string]eval.Callable
}

func newState(*common.Ctx) any {
	ev := eval.NewEvaler()
	st := &state{ev: ev, fns: map[string]eval.Callable{}}
	for _, n := range []string{"num", "to-string", "repr", "exact-num", "inexact-num", "eq"} {
		v, ok := ev.Builtin().Index(n + "~")
		if !ok {
			panic("no builtin " + n)
		}
		st.fns[n] = v.(eval.Callable)
	}
	return st
}

// call runs a builtin; returns value outputs, byte output, error.
func (st *state) call(name string, args ...any) ([]any, string, error) {
	p, done, err := eval.CapturePort()
	if err != nil {
		panic(err)
	}
	err = st.ev.Call(st.fns[name], eval.CallCfg{Args: args, From: "[verif]"},
		eval.EvalCfg{Ports: []*eval.Port{eval.DummyInputPort, p, eval.DummyOutputPort}})
	vs, bs := done()
	return vs, string(bs), err
}

// call1 returns the single value output, or nil when the call raised.
func (st *state) call1(name string, args ...any) (any, bool) {
	vs, _, err := st.call(name, args...)
	if err != nil || len(vs) != 1 {
		return nil, false
	}
	return vs[0], true
}

// ---------------------------------------------------------------------------
// decoding a number from op fields: int N | big N | rat N D | float BITS hexF hexE

func decodeNum(f []string) any {
	switch f[0] {
	case "int":
		z, _ := new(big.Int).SetString(f[1], 10)
		return int(z.Int64())
	case "big":
		z, _ := new(big.Int).SetString(f[1], 10)
		return z
	case "rat":
		n, _ := new(big.Int).SetString(f[1], 10)
		d, _ := new(big.Int).SetString(f[2], 10)
		return new(big.Rat).SetFrac(n, d)
	case "float":
		b, _ := strconv.ParseUint(f[1], 16, 64)
		return math.Float64frombits(b)
	}
	panic("bad num fields")
}

func floatFields(x float64) []string {
	return []string{"float", fmt.Sprintf("%016x", math.Float64bits(x)),
		common.Hex(strconv.FormatFloat(x, 'f', -1, 64)), common.Hex(strconv.FormatFloat(x, 'e', -1, 64))}
}

// ---------------------------------------------------------------------------
// impl

func impl(sti any, f []string) string {
	st := sti.(*state)
	switch f[0] {
	case "parse", "lit", "bad":
		return show(vals.ParseNum(common.Unhex(f[1])))
	case "num":
		v, ok := st.call1("num", common.Unhex(f[1]))
		if !ok {
			return "nil"
		}
		return show(v)
	case "str":
		x := decodeNum(f[1:])
		s := vals.ToString(x)
		out := common.Hex(s) + " " + show(vals.ParseNum(s))
		if _, ok := x.(float64); ok {
			out += " h=ok"
		}
		return out
	case "bstr":
		x := decodeNum(f[1:])
		sv, ok := st.call1("to-string", x)
		if !ok {
			return "to-string-failed"
		}
		s := sv.(string)
		back := "nil"
		if v, ok := st.call1("num", s); ok {
			back = show(v)
		}
		_, r, _ := st.call("repr", x)
		out := common.Hex(s) + " " + back + " " + common.Hex(strings.TrimSuffix(r, "\n"))
		if _, ok := x.(float64); ok {
			out += " h=ok"
		}
		return out
	case "norm":
		n, _ := new(big.Int).SetString(f[1], 10)
		d, _ := new(big.Int).SetString(f[2], 10)
		return show(vals.NormalizeBigRat(new(big.Rat).SetFrac(n, d)))
	case "normi":
		n, _ := new(big.Int).SetString(f[1], 10)
		return show(vals.NormalizeBigInt(n))
	case "exact":
		v, ok := st.call1("exact-num", common.Unhex(f[1]))
		if !ok {
			return "exc"
		}
		return show(v)
	case "inexact":
		v, ok := st.call1("inexact-num", common.Unhex(f[1]))
		if !ok {
			return "exc"
		}
		return show(v)
	}
	return "bad-op"
}

// ---------------------------------------------------------------------------
// oracle: the property itself, on the real code

func floatClass(x float64) string {
	b := math.Float64bits(x)
	switch {
	case math.IsNaN(x):
		return "nan"
	case math.IsInf(x, 0):
		return "inf"
	case b<<1 == 0:
		if b != 0 {
			return "negzero"
		}
		return "zero"
	case (b>>52)&0x7ff == 0:
		return "subnormal"
	}
	s := vals.ToString(x)
	if strings.ContainsAny(s, "e") {
		return "sci"
	}
	if strings.HasSuffix(s, ".0") {
		return "integral"
	}
	return "plain"
}

func numClass(x any) string {
	switch x := x.(type) {
	case int:
		return "int"
	case *big.Int:
		return "big"
	case *big.Rat:
		return "rat"
	case float64:
		return "float-" + floatClass(x)
	}
	return "other"
}

// roundTrip checks `num (to-string x) == x` with the same representation on
// vals.ParseNum/vals.ToString.
func roundTrip(x any) (string, string) {
	if !canonical(x) {
		return "", ""
	}
	s := vals.ToString(x)
	y := vals.ParseNum(s)
	if !sameNum(x, y) {
		return "roundtrip-" + numClass(x), fmt.Sprintf("x=%s to-string=%q num=%s", show(x), s, show(y))
	}
	return "", ""
}

func oracle(sti any, f []string, out string) (string, string) {
	st := sti.(*state)
	if out == "PANIC" || out == "TIMEOUT" {
		return "crash", out + " on " + strings.Join(f, " ")
	}
	switch f[0] {
	case "parse", "num", "lit", "bad":
		s := common.Unhex(f[1])
		var got any
		if f[0] == "num" {
			got, _ = st.call1("num", s)
		} else {
			got = vals.ParseNum(s)
		}
		if f[0] == "bad" {
			if got != nil {
				return "nonnumber-accepted", fmt.Sprintf("%q parsed as %s", s, show(got))
			}
			if _, ok := st.call1("num", s); ok {
				return "nonnumber-accepted", fmt.Sprintf("num %q did not raise", s)
			}
			return "", ""
		}
		if len(f) >= 4 { // documented literal with independently computed value
			if show(got) != f[3] {
				cls := "literal-" + f[2]
				if strings.HasPrefix(f[3], "float 7ff0") || strings.HasPrefix(f[3], "float fff0") {
					if !strings.Contains(strings.ToLower(s), "inf") {
						cls = "literal-float-overflow"
					}
				}
				return cls, fmt.Sprintf("%q gave %s, want %s", s, show(got), f[3])
			}
		}
		// whatever number came out must be in canonical form and must itself
		// survive to-string/num
		if got != nil {
			if !canonical(got) {
				return "noncanonical-" + numClass(got), fmt.Sprintf("%q gave %s", s, show(got))
			}
			return roundTrip(got)
		}
	case "str":
		return roundTrip(decodeNum(f[1:]))
	case "bstr":
		x := decodeNum(f[1:])
		if !canonical(x) {
			return "", ""
		}
		sv, ok := st.call1("to-string", x)
		if !ok {
			return "roundtrip-" + numClass(x), "to-string raised"
		}
		y, ok := st.call1("num", sv)
		if !ok || !sameNum(x, y) {
			return "roundtrip-" + numClass(x), fmt.Sprintf("builtins: x=%s to-string=%q num=%s", show(x), sv, show(y))
		}
		// the documented form: eq $x (num (to-string $x))
		if xf, isF := x.(float64); !isF || !math.IsNaN(xf) {
			if e, ok := st.call1("eq", x, y); !ok || e != true {
				return "roundtrip-" + numClass(x), fmt.Sprintf("eq $x (num (to-string $x)) is %v for x=%s", e, show(x))
			}
		}
		_, r, _ := st.call("repr", x)
		if r != "(num "+sv.(string)+")\n" {
			return "repr-" + numClass(x), fmt.Sprintf("repr=%q to-string=%q", r, sv)
		}
	case "norm":
		n, _ := new(big.Int).SetString(f[1], 10)
		d, _ := new(big.Int).SetString(f[2], 10)
		q := new(big.Rat).SetFrac(n, d)
		got := vals.NormalizeBigRat(new(big.Rat).Set(q))
		if !sameNum(canonRat(q), got) {
			return "normalize-rat", fmt.Sprintf("%s/%s gave %s", f[1], f[2], show(got))
		}
	case "normi":
		n, _ := new(big.Int).SetString(f[1], 10)
		got := vals.NormalizeBigInt(new(big.Int).Set(n))
		if !sameNum(canonInt(n), got) {
			return "normalize-int", fmt.Sprintf("%s gave %s", f[1], show(got))
		}
	case "exact":
		s := common.Unhex(f[1])
		x := vals.ParseNum(s)
		xf, isF := x.(float64)
		if !isF || math.IsNaN(xf) || math.IsInf(xf, 0) {
			return "", ""
		}
		v, ok := st.call1("exact-num", s)
		if !ok {
			return "exact-num-float", fmt.Sprintf("exact-num %q raised", s)
		}
		want := canonRat(new(big.Rat).SetFloat64(xf))
		if !sameNum(want, v) {
			return "exact-num-float", fmt.Sprintf("exact-num %q gave %s want %s", s, show(v), show(want))
		}
		return roundTrip(v)
	}
	return "", ""
}

// ---------------------------------------------------------------------------
// generation

type gen struct {
	c    *common.Ctx
	emit func(...string)
}

func (g *gen) r() *common.Rand { return g.c.Rand }

// randBig: a random integer with up to `bits` bits, either sign.
func (g *gen) randBig(bits int) *big.Int {
	n := g.r().Range(1, bits)
	z := new(big.Int)
	for i := 0; i < n; i += 64 {
		z.Lsh(z, 64)
		z.Or(z, new(big.Int).SetUint64(g.r().U64()))
	}
	z.Rsh(z, uint(z.BitLen()-n))
	if g.r().Bool() {
		z.Neg(z)
	}
	return z
}

func (g *gen) emitExact(z *big.Int) {
	op := "str"
	if g.r().Chance(1, 4) {
		op = "bstr"
	}
	if z.Cmp(minInt) >= 0 && z.Cmp(maxInt) <= 0 {
		g.emit(op, "int", z.String())
		if g.r().Chance(1, 8) {
			g.emit("str", "big", z.String()) // non-canonical: tie only
		}
	} else {
		g.emit(op, "big", z.String())
	}
	if g.r().Chance(1, 3) {
		g.emit("normi", z.String())
	}
}

func (g *gen) emitRat(n, d *big.Int) {
	if d.Sign() == 0 {
		return
	}
	op := "str"
	if g.r().Chance(1, 4) {
		op = "bstr"
	}
	g.emit(op, "rat", n.String(), d.String())
	g.emit("norm", n.String(), d.String())
}

func (g *gen) emitFloat(x float64) {
	op := "str"
	if g.r().Chance(1, 4) {
		op = "bstr"
	}
	g.emit(append([]string{op}, floatFields(x)...)...)
	if g.r().Chance(1, 6) {
		s := strconv.FormatFloat(x, 'g', -1, 64)
		g.emit("exact", common.Hex(s))
		g.emit("inexact", common.Hex(s))
	}
}

// --- literals of the documented syntaxes, value computed from the digits ---

type digits struct {
	text string   // rendered, with underscores and case
	val  *big.Int // value of the digits in the base
	n    int      // number of digits
	us   bool
}

const digitChars = "0123456789abcdef"

// randDigits renders n digits of the base with random underscores between
// digits and random letter case; noLeadZero forces the first digit ≠ 0 when n > 1.
func (g *gen) randDigits(base, n int, noLeadZero bool, usOdds int) digits {
	var sb strings.Builder
	v := new(big.Int)
	us := false
	for i := 0; i < n; i++ {
		d := g.r().Intn(base)
		if i == 0 && noLeadZero && n > 1 && d == 0 {
			d = 1 + g.r().Intn(base-1)
		}
		if i > 0 && usOdds > 0 && g.r().Chance(1, usOdds) {
			sb.WriteByte('_')
			us = true
		}
		ch := digitChars[d]
		if d >= 10 && g.r().Bool() {
			ch -= 32
		}
		sb.WriteByte(ch)
		v.Mul(v, big.NewInt(int64(base)))
		v.Add(v, big.NewInt(int64(d)))
	}
	return digits{sb.String(), v, n, us}
}

func (g *gen) randSign(allowPlus bool) (string, bool) {
	switch g.r().Intn(4) {
	case 0:
		return "-", true
	case 1:
		if allowPlus {
			return "+", false
		}
	}
	return "", false
}

func (g *gen) randLen() int {
	switch g.r().Intn(6) {
	case 0:
		return 1
	case 1:
		return g.r().Range(17, 22) // around 2^63 (19 decimal digits, 16 hex)
	case 2:
		return g.r().Range(23, 70)
	}
	return g.r().Range(1, 16)
}

// natLit: unsigned integer literal in a documented syntax; returns text, value, kind.
func (g *gen) natLit(usOdds int) (string, *big.Int, string) {
	switch g.r().Intn(5) {
	case 0:
		d := g.randDigits(16, g.randLen(), false, usOdds)
		p := "0x"
		if g.r().Bool() {
			p = "0X"
		}
		if usOdds > 0 && g.r().Chance(1, 8) {
			p += "_"
		}
		return p + d.text, d.val, "hex"
	case 1:
		d := g.randDigits(8, g.randLen(), false, usOdds)
		p := "0o"
		if g.r().Bool() {
			p = "0O"
		}
		return p + d.text, d.val, "oct"
	case 2:
		d := g.randDigits(2, g.r().Range(1, 80), false, usOdds)
		p := "0b"
		if g.r().Bool() {
			p = "0B"
		}
		return p + d.text, d.val, "bin"
	}
	d := g.randDigits(10, g.randLen(), true, usOdds)
	return d.text, d.val, "dec"
}

func (g *gen) intLit(usOdds int) (string, *big.Int, string) {
	t, v, k := g.natLit(usOdds)
	sg, neg := g.randSign(true)
	if neg {
		v = new(big.Int).Neg(v)
	}
	return sg + t, v, k
}

// expectedFloat: correctly rounded value of ±mant·10^e10, computed with
// big.Rat.Float64 (independent of strconv).
func expectedFloat(neg bool, mant *big.Int, e10 int) float64 {
	q := new(big.Rat).SetInt(mant)
	p := new(big.Int).Exp(big.NewInt(10), big.NewInt(int64(abs(e10))), nil)
	if e10 >= 0 {
		q.Mul(q, new(big.Rat).SetInt(p))
	} else {
		q.Quo(q, new(big.Rat).SetInt(p))
	}
	x, _ := q.Float64()
	if neg {
		x = math.Copysign(x, -1)
	}
	return x
}

func abs(x int) int {
	if x < 0 {
		return -x
	}
	return x
}

func randCase(r *common.Rand, s string) string {
	b := []byte(s)
	for i := range b {
		if r.Bool() {
			b[i] = byte(strings.ToUpper(string(b[i]))[0])
		} else {
			b[i] = byte(strings.ToLower(string(b[i]))[0])
		}
	}
	return string(b)
}

func (g *gen) floatLit(usOdds int) {
	sg, neg := g.randSign(true)
	ip := g.randDigits(10, g.r().Range(1, 20), g.r().Chance(3, 4), usOdds)
	text := sg + ip.text
	mant := new(big.Int).Set(ip.val)
	e10 := 0
	kind := "float-point"
	hasFrac := g.r().Chance(2, 3)
	hasExp := !hasFrac || g.r().Bool()
	if hasFrac {
		fp := g.randDigits(10, g.r().Range(1, 25), false, usOdds)
		text += "." + fp.text
		mant.Mul(mant, new(big.Int).Exp(big.NewInt(10), big.NewInt(int64(fp.n)), nil))
		mant.Add(mant, fp.val)
		e10 -= fp.n
	}
	if hasExp {
		kind = "float-sci"
		var e int
		switch g.r().Intn(8) {
		case 0:
			e = g.r().Range(290, 330) // overflow / underflow boundary
		case 1:
			e = g.r().Range(331, 2000)
		default:
			e = g.r().Range(0, 40)
		}
		es := strconv.Itoa(e)
		if usOdds > 0 && len(es) > 1 && g.r().Chance(1, usOdds) {
			es = es[:1] + "_" + es[1:]
		}
		if g.r().Chance(1, 5) {
			es = "0" + es
		}
		if g.r().Chance(1, 6) { // exponent digits of any number: Go's cap e<10000 must stay inert below 100000
			es = strings.Repeat("0", g.r().Range(1, 12)) + es
		}
		esg, eneg := g.randSign(true)
		if eneg {
			e = -e
		}
		ec := "e"
		if g.r().Bool() {
			ec = "E"
		}
		text += ec + esg + es
		e10 += e
	}
	x := expectedFloat(neg, mant, e10)
	g.emit(g.litOp(), common.Hex(text), kind, show(x))
}

// expectedHexFloat: correctly rounded value of ±mant·2^e2 (big.Rat.Float64, independent of strconv).
func expectedHexFloat(neg bool, mant *big.Int, e2 int) float64 {
	q := new(big.Rat).SetInt(mant)
	p := new(big.Rat).SetInt(new(big.Int).Lsh(big.NewInt(1), uint(abs(e2))))
	if e2 >= 0 {
		q.Mul(q, p)
	} else {
		q.Quo(q, p)
	}
	x, _ := q.Float64()
	if neg {
		x = math.Copysign(x, -1)
	}
	return x
}

// generalFloatLit: the float syntaxes beyond the documented ones that Grammar.lean's GFloatLit
// covers, with the value computed from the digits: hex floats (0x1.8p3, 0X_a.p-2, 0x.8p1),
// decimal literals without integer part (.5) or without fraction digits (5.).
func (g *gen) generalFloatLit(usOdds int) {
	sg, neg := g.randSign(true)
	hex := g.r().Chance(2, 3)
	base := 10
	if hex {
		base = 16
	}
	text := sg
	if hex {
		text += common.Pick(g.r(), []string{"0x", "0X"})
	}
	mant := new(big.Int)
	fracDigits := 0
	form := g.r().Intn(4) // 0: D  1: D.  2: D.D  3: .D
	if !hex && form == 0 {
		form = 1
	}
	if form != 3 {
		ip := g.randDigits(base, g.r().Range(1, 18), false, usOdds)
		if hex && usOdds > 0 && g.r().Chance(1, 6) {
			text += "_"
		}
		text += ip.text
		mant.Set(ip.val)
	}
	if form != 0 {
		text += "."
	}
	if form >= 2 {
		fp := g.randDigits(base, g.r().Range(1, 18), false, usOdds)
		text += fp.text
		mant.Mul(mant, new(big.Int).Exp(big.NewInt(int64(base)), big.NewInt(int64(fp.n)), nil))
		mant.Add(mant, fp.val)
		fracDigits = fp.n
	}
	e := 0
	if hex || g.r().Bool() {
		switch g.r().Intn(6) {
		case 0:
			e = g.r().Range(900, 1200)
		case 1:
			e = g.r().Range(1201, 99999)
		default:
			e = g.r().Range(0, 80)
		}
		es := strconv.Itoa(e)
		if usOdds > 0 && len(es) > 1 && g.r().Chance(1, usOdds) {
			es = es[:1] + "_" + es[1:]
		}
		if g.r().Chance(1, 4) {
			es = strings.Repeat("0", g.r().Range(1, 10)) + es
		}
		esg, eneg := g.randSign(true)
		if eneg {
			e = -e
		}
		ec := "e"
		if hex {
			ec = "p"
		}
		if g.r().Bool() {
			ec = strings.ToUpper(ec)
		}
		text += ec + esg + es
	}
	var x float64
	kind := "float-general"
	if hex {
		kind = "float-hex"
		x = expectedHexFloat(neg, mant, e-4*fracDigits)
	} else {
		x = expectedFloat(neg, mant, e-fracDigits)
	}
	g.emit(g.litOp(), common.Hex(text), kind, show(x))
}

// legacyOctal: Go's `0 (_? d)+` integer form (010, 0_7), value in base 8.
func (g *gen) legacyOctal(usOdds int) {
	sg, neg := g.randSign(true)
	d := g.randDigits(8, g.r().Range(1, 24), false, usOdds)
	us := ""
	if usOdds > 0 && g.r().Chance(1, 4) {
		us = "_"
	}
	v := new(big.Int).Set(d.val)
	if neg {
		v.Neg(v)
	}
	g.emit(g.litOp(), common.Hex(sg+"0"+us+d.text), "int-oct0", show(canonInt(v)))
}

func (g *gen) litOp() string {
	if g.r().Chance(1, 5) {
		return "num"
	}
	return "lit"
}

func (g *gen) literals(n int) {
	for i := 0; i < n; i++ {
		usOdds := 0
		if g.r().Bool() {
			usOdds = g.r().Range(2, 6)
		}
		switch g.r().Intn(12) {
		case 10:
			g.generalFloatLit(usOdds)
		case 11:
			if g.r().Bool() {
				g.generalFloatLit(usOdds)
			} else {
				g.legacyOctal(usOdds)
			}
		case 0, 1, 2:
			t, v, k := g.intLit(usOdds)
			g.emit(g.litOp(), common.Hex(t), "int-"+k, show(canonInt(v)))
		case 3, 4:
			nt, nv, _ := g.intLit(usOdds)
			dt, dv, _ := g.natLit(usOdds)
			if g.r().Chance(1, 4) { // integral rationals
				k := int64(g.r().Range(1, 9))
				nv = new(big.Int).Mul(dv, big.NewInt(k))
				if dv.Sign() != 0 && g.r().Bool() {
					nv.Mul(nv, new(big.Int).Lsh(big.NewInt(1), uint(g.r().Range(0, 70))))
				}
				nt = nv.String()
			}
			if dv.Sign() == 0 {
				g.emit("bad", common.Hex(nt+"/"+dt))
				continue
			}
			g.emit(g.litOp(), common.Hex(nt+"/"+dt), "rat", show(canonRat(new(big.Rat).SetFrac(nv, dv))))
		case 5, 6, 7, 8:
			g.floatLit(usOdds)
		case 9:
			sp := common.Pick(g.r(), []string{"+Inf", "-Inf", "NaN", "Inf", "+Infinity", "-Infinity", "Infinity"})
			t := randCase(g.r(), sp)
			var x float64
			switch {
			case sp == "NaN":
				x = math.NaN()
			case sp[0] == '-':
				x = math.Inf(-1)
			default:
				x = math.Inf(1)
			}
			g.emit(g.litOp(), common.Hex(t), "float-special", show(x))
		}
	}
}

// hex floats and other accepted-but-undocumented forms: tie only
func (g *gen) undocumented(n int) {
	for i := 0; i < n; i++ {
		sg, _ := g.randSign(true)
		usOdds := 0
		if g.r().Bool() {
			usOdds = 3
		}
		var t string
		switch g.r().Intn(6) {
		case 0, 1: // hex float
			ip := g.randDigits(16, g.r().Range(1, 18), false, usOdds)
			t = sg + common.Pick(g.r(), []string{"0x", "0X", "0x_"}) + ip.text
			if g.r().Bool() {
				t += "." + g.randDigits(16, g.r().Range(1, 18), false, usOdds).text
			}
			e := g.r().Range(0, 80)
			if g.r().Chance(1, 4) {
				e = g.r().Range(900, 1200)
			}
			esg, _ := g.randSign(true)
			t += common.Pick(g.r(), []string{"p", "P"}) + esg + strconv.Itoa(e)
		case 2: // leading-zero "octal" / decimal-looking floats
			t = sg + "0" + g.randDigits(10, g.r().Range(1, 6), false, usOdds).text
		case 3: // .5 and 5.
			d := g.randDigits(10, g.r().Range(1, 6), false, usOdds).text
			if g.r().Bool() {
				t = sg + "." + d
			} else {
				t = sg + d + "."
			}
		case 4: // very long mantissas (beyond 19 digits / 800 digits)
			n := g.r().Range(20, 60)
			if g.r().Chance(1, 10) {
				n = g.r().Range(780, 830)
			}
			t = sg + g.randDigits(10, n, false, 0).text + "." + g.randDigits(10, g.r().Range(1, 30), false, 0).text
			if g.r().Bool() {
				t += "e-" + strconv.Itoa(g.r().Range(0, 400))
			}
		case 5: // huge exponents (the e < 10000 cap)
			t = sg + g.randDigits(10, g.r().Range(1, 4), false, 0).text + "e" + common.Pick(g.r(), []string{"", "-", "+"}) +
				common.Pick(g.r(), []string{"9999", "10000", "10001", "99999", "100000", "123456789", "00000000000000000001"})
		}
		g.emit("parse", common.Hex(t))
	}
}

const mutAlphabet = "0123456789abcdefxXoObBeEpP_+-./ninfNIaAtyY "

func (g *gen) mutate(s string) string {
	b := []byte(s)
	for k := g.r().Range(1, 2); k > 0; k-- {
		pos := g.r().Intn(len(b) + 1)
		ch := mutAlphabet[g.r().Intn(len(mutAlphabet))]
		switch g.r().Intn(4) {
		case 0: // insert
			b = append(b[:pos], append([]byte{ch}, b[pos:]...)...)
		case 1: // delete
			if pos < len(b) {
				b = append(b[:pos], b[pos+1:]...)
			}
		case 2: // replace
			if pos < len(b) {
				b[pos] = ch
			}
		case 3: // duplicate
			if pos < len(b) {
				b = append(b[:pos], append([]byte{b[pos]}, b[pos:]...)...)
			}
		}
	}
	return string(b)
}

var nearMiss = []string{"", " ", "1__0", "_1", "1_", "0x", "0X", "0b", "0o", "0x_", "1/0", "1/", "/1", "/", "+-1", "-+1", "--1", "++1",
	"0b12", "0o8", "0xg", "1e", "1e+", "1e-", "e1", ".", "+.", "-", "+", " 1", "1 ", "1\n", "\t1", "1/2/3", "1//2", "1/-2", "1/+2",
	"1/0x0", "1/0_0", "1/_1", "1_/2", "1/2_", "1.5/2", "1/2.5", "1e2/3", "1/1e2", "+nan", "-nan", "in", "infi", "infinit", "infinityx",
	"nanx", "na", "1_e5", "1e_5", "1._5", "1_.5", "_1.5", "1.5_", "0x1p", "0x1.8", "0xp1", "0x.p1", "1p3", "0_x1", "0b_", "1..2", "1.2.3",
	"1,000", "１", "٣", "1f", "abc", "0x-1", "0b-1", "- 1", "1e1e1", "0x1p1p1", "i", "n", "I", "N", "+i", "1/00", "00/0", "١/٢", "1/ 2"}

var notable = []string{"0", "-0", "+0", "00", "0_0", "010", "0_7", "0_8", "08", "09", "1", "-1", "+1", "9223372036854775807", "9223372036854775808",
	"-9223372036854775808", "-9223372036854775809", "0x7fffffffffffffff", "0x8000000000000000", "-0x8000000000000000", "-0x8000000000000001",
	"0o777777777777777777777", "0o1000000000000000000000", "1/2", "-1/2", "+1/2", "0x10/100", "2/4", "4/2", "0/5", "-0/5", "1/1", "6/3",
	"18446744073709551616/2", "18446744073709551616/3", "10.0", "1e1", "1.0e1", "1E1", "1.234_56e3", "1_000_000", "1_2_3", "1_0.0_1e1_0",
	"0.0", "-0.0", "+0.0", "0e0", "-0e0", "0.000", "1e308", "1.7976931348623157e308", "1.7976931348623158e308", "1.7976931348623159e308",
	"1e309", "-1e309", "1e400", "1e999", "1e-323", "4.9e-324", "5e-324", "2.4703282292062327e-324", "2.4703282292062328e-324", "1e-400",
	"2.2250738585072014e-308", "2.2250738585072011e-308", "9007199254740993", "9007199254740993.0", "0.1", "0.3", "1e23", "8.41e21",
	"+Inf", "-Inf", "NaN", "inf", "INF", "nan", "Infinity", "-infinity", "+INFINITY", "0x1p-2", "0X1P+2", "0x1.8p1", "0x.8p1", "0x1p-1074",
	"0x1p-1075", "0x1.0000000000001p-1075", "0x1p1023", "0x1.fffffffffffff8p1023", "0x1.fffffffffffff7p1023", "0x1p1024", "0x1p-2000", "0x1e5", "0b1e5"}

func (g *gen) exhaustiveSmall() {
	alpha := []byte("019_+-./exb")
	var rec func(prefix []byte, n int)
	rec = func(prefix []byte, n int) {
		if len(prefix) > 0 {
			g.emit("parse", common.Hex(string(prefix)))
		}
		if n == 0 {
			return
		}
		for _, ch := range alpha {
			rec(append(prefix[:len(prefix):len(prefix)], ch), n-1)
		}
	}
	rec(nil, g.c.Scale(4, 5))
}

func (g *gen) floats(n int) {
	fixed := []uint64{0, 1 << 63, 0x7ff0000000000000, 0xfff0000000000000, 0x7ff8000000000001, 0x7ff8000000000000, 0xfff8000000000000,
		0x7ff0000000000001, 0xffffffffffffffff, 1, 2, 0x000fffffffffffff, 0x0010000000000000, 0x7fefffffffffffff, 0xffefffffffffffff,
		0x3ff0000000000000, 0xbff0000000000000, 0x4340000000000000, 0x4330000000000001, 0x433fffffffffffff}
	for _, b := range fixed {
		x := math.Float64frombits(b)
		g.emit(append([]string{"str"}, floatFields(x)...)...)
		g.emit(append([]string{"bstr"}, floatFields(x)...)...)
	}
	// the 'f'/'e' switch: integers around 14/15 digits with and without trailing zero, small fractions
	for e := -8; e <= 24; e++ {
		for _, m := range []float64{1, 1.5, 9.999, 1.2345678901234, 1.23456789012345, 1.234567890123456} {
			x := m * math.Pow(10, float64(e))
			g.emitFloat(x)
			g.emitFloat(-x)
			g.emitFloat(math.Floor(x))
			g.emitFloat(math.Nextafter(x, 0))
		}
	}
	for i := 0; i < n; i++ {
		var x float64
		switch g.r().Intn(8) {
		case 0: // subnormals
			x = math.Float64frombits(g.r().U64() & 0x800fffffffffffff)
		case 1: // NaN payloads / infinities neighbourhood
			x = math.Float64frombits(g.r().U64() | 0x7ff0000000000000)
		case 2: // integers of 1..22 digits, possibly with trailing zeros
			k := g.r().Range(1, 17)
			m := float64(g.r().U64() % uint64(math.Pow(10, float64(k))))
			x = m * math.Pow(10, float64(g.r().Range(0, 8)))
			if g.r().Bool() {
				x = -x
			}
		case 3: // short decimals, small magnitudes
			x = float64(g.r().Range(1, 99999)) / math.Pow(10, float64(g.r().Range(1, 12)))
			if g.r().Bool() {
				x = -x
			}
		default:
			x = math.Float64frombits(g.r().U64())
		}
		g.emitFloat(x)
	}
}

func (g *gen) exacts(n int) {
	two63 := new(big.Int).Lsh(big.NewInt(1), 63)
	two64 := new(big.Int).Lsh(big.NewInt(1), 64)
	for _, base := range []*big.Int{big.NewInt(0), two63, two64, big.NewInt(1 << 31), big.NewInt(1 << 32), big.NewInt(1 << 53)} {
		for d := int64(-2); d <= 2; d++ {
			z := new(big.Int).Add(base, big.NewInt(d))
			g.emit("str", kindOf(z), z.String())
			g.emit("bstr", kindOf(z), z.String())
			g.emit("normi", z.String())
			zn := new(big.Int).Neg(z)
			g.emit("str", kindOf(zn), zn.String())
			g.emit("bstr", kindOf(zn), zn.String())
			g.emit("normi", zn.String())
			// as rationals: integral (d = 1, k) and not
			g.emitRat(z, big.NewInt(1))
			g.emitRat(new(big.Int).Mul(z, big.NewInt(3)), big.NewInt(3))
			g.emitRat(zn, big.NewInt(7))
		}
	}
	for i := 0; i < n; i++ {
		switch g.r().Intn(3) {
		case 0:
			g.emitExact(g.randBig(common.Pick(g.r(), []int{8, 32, 63, 64, 65, 128, 300})))
		case 1:
			nn := g.randBig(common.Pick(g.r(), []int{8, 64, 70, 200}))
			dd := g.randBig(common.Pick(g.r(), []int{4, 64, 70, 200}))
			dd.Abs(dd)
			g.emitRat(nn, dd)
		case 2: // integral or nearly integral rationals
			dd := g.randBig(common.Pick(g.r(), []int{4, 64, 100}))
			dd.Abs(dd)
			k := g.randBig(common.Pick(g.r(), []int{8, 63, 64, 65, 100}))
			nn := new(big.Int).Mul(dd, k)
			if g.r().Chance(1, 4) {
				nn.Add(nn, big.NewInt(1))
			}
			g.emitRat(nn, dd)
		}
	}
}

func kindOf(z *big.Int) string {
	if z.Cmp(minInt) >= 0 && z.Cmp(maxInt) <= 0 {
		return "int"
	}
	return "big"
}

func generate(c *common.Ctx, emit func(...string)) {
	// common.NewRand(seed) starts at seed·γ and steps by γ, so the streams of
	// nearby seeds are shifts of one another; re-seed from a mixed value so
	// that different VERIF_SEEDs give unrelated inputs.
	c.Rand = common.NewRand(common.NewRand(c.Seed).U64())
	g := &gen{c, emit}
	for _, s := range nearMiss {
		emit("bad", common.Hex(s))
	}
	for _, s := range notable {
		emit("parse", common.Hex(s))
		emit("num", common.Hex(s))
		emit("exact", common.Hex(s))
		emit("inexact", common.Hex(s))
	}
	g.exhaustiveSmall()
	g.floats(c.Scale(30000, 200000))
	g.exacts(c.Scale(15000, 100000))
	g.literals(c.Scale(40000, 250000))
	g.undocumented(c.Scale(8000, 50000))
	// mutants of valid literals: mostly near-miss non-numbers, pure differential + round-trip oracle
	nm := c.Scale(40000, 200000)
	for i := 0; i < nm; i++ {
		var base string
		switch g.r().Intn(5) {
		case 0:
			base, _, _ = g.intLit(3)
		case 1:
			a, _, _ := g.intLit(4)
			b, _, _ := g.natLit(4)
			base = a + "/" + b
		case 2:
			base = strconv.FormatFloat(math.Float64frombits(g.r().U64()), common.Pick(g.r(), []byte{'e', 'f', 'g'}), -1, 64)
			if len(base) > 40 {
				base = base[:40]
			}
		case 3:
			base = common.Pick(g.r(), notable)
		case 4:
			base = common.Pick(g.r(), nearMiss)
		}
		if base == "" {
			base = "1"
		}
		m := g.mutate(base)
		if m == "" {
			continue
		}
		op := "parse"
		if g.r().Chance(1, 10) {
			op = "num"
		}
		emit(op, common.Hex(m))
	}
}

// ---------------------------------------------------------------------------

func tag(f []string, out string) string {
	kindOfOut := func(o string) string {
		if i := strings.IndexByte(o, ' '); i >= 0 {
			return o[:i]
		}
		return o
	}
	switch f[0] {
	case "parse", "num":
		if len(f) >= 4 {
			return "lit-" + f[2] + "→" + kindOfOut(out)
		}
		s := common.Unhex(f[1])
		k := kindOfOut(out)
		switch {
		case strings.Contains(s, "/"):
			return "parse-slash→" + k
		case k == "float" && strings.ContainsAny(s, "pP"):
			return "parse-hexfloat"
		case k == "float" && strings.Contains(s, "_"):
			return "parse-float-underscore"
		case k == "nil" && strings.Contains(s, "_"):
			return "parse-reject-underscore"
		case k == "nil" && len(s) <= 3:
			return "" // trivial
		}
		return "parse→" + k
	case "lit":
		t := "lit-" + f[2] + "→" + kindOfOut(out)
		if strings.Contains(common.Unhex(f[1]), "_") {
			t += "+us"
		}
		return t
	case "bad":
		return "bad"
	case "str", "bstr":
		x := decodeNum(f[1:])
		t := f[0] + "-" + numClass(x)
		if !canonical(x) {
			t += "-noncanonical"
		}
		if xf, ok := x.(float64); ok && !math.IsNaN(xf) && !math.IsInf(xf, 0) {
			s := strconv.FormatFloat(xf, 'f', -1, 64)
			switch {
			case strings.HasPrefix(s, "0.0000"):
				t += "/e-small"
			case !strings.Contains(s, ".") && len(s) > 14 && s[len(s)-1] == '0':
				t += "/e-large"
			case !strings.Contains(s, ".") && len(s) > 14:
				t += "/long-no-trailing-zero"
			case strings.HasPrefix(s, "-0.0000"):
				t += "/neg-small-plain"
			}
		}
		return t
	case "norm", "normi":
		return f[0] + "→" + kindOfOut(out)
	case "exact", "inexact":
		return f[0] + "→" + kindOfOut(out)
	}
	return ""
}

func run(c *common.Ctx) error {
	s := &common.Std{
		Rule: "fixed near-miss and notable literals; every string of ≤4 (thorough: ≤5) bytes over {0,1,9,_,+,-,.,/,e,x,b}; " +
			"float64 bit patterns (specials, the 'f'/'e' switch neighbourhood, random bits, subnormals, NaN payloads, short decimals); " +
			"int/big boundaries ±2^63±2 and random integers ≤300 bits; random and integral big rationals; literals generated from a grammar " +
			"of the documented syntaxes (value computed from the digits with math/big, not by the parser) with random case/underscores/prefixes; " +
			"the same for the complete grammars of round 2 (hex floats, .5, 5., legacy octal, exponent digits of any number); " +
			"hex floats, long mantissas, huge exponents; 1–2 byte mutations of valid literals. Non-trivial = everything but short rejected strings; distinct by op line",
		ExhaustiveNote: "all strings of ≤4 bytes (thorough ≤5) over an 11-letter number alphabet",
		Gen:            generate,
		NewState:       newState,
		Impl:           impl,
		Oracle:         oracle,
		Tag:            tag,
	}
	return s.Run(c)
}
