// Package c22: correspondence and oracle for C22 (a module is evaluated at
// most once per interpreter and shared; pkg/eval/builtin_special.go use /
// useFromFile / evalModule and the Evaler.modules cache).
//
// Every history starts with a `reset` op that describes a module graph; the
// implementation side writes it into a fresh temporary directory (removed at
// the next reset / at the end), makes a fresh eval.Evaler with LibDirs,
// BundledModules and pre-defined modules set, and registers observation
// builtins.  `run` ops evaluate top-level code (from a file or not) that
// imports modules.  Observation is by side effect only:
//
//	c22-enter <name>    first statement of every module body: a new evaluation
//	                    (token = global counter) of file <name> has started
//	c22-done <tok>      last statement of every module body
//	c22-saw <by> <spec> <ns>   right after every `use`: importer <by> received <ns>
//	c22-caught <by>     a `try { use … }` caught
package c22

import (
	"context"
	"errors"
	"fmt"
	"os"
	"path"
	"path/filepath"
	"sort"
	"strconv"
	"strings"
	"time"

	"src.elv.sh/pkg/eval"
	"src.elv.sh/pkg/eval/vars"
	"src.elv.sh/pkg/parse"
	"verifharness/common"
	"verifharness/evalutil"
)

func init() { common.Register("C22", run) }

const modelRoot = "/ROOT"
const depthCap = 48
const enterBudget = 20000 // module evaluations per top-level op

var errDepth = errors.New("c22: import recursion exceeded the depth cap")

// ---------------------------------------------------------------- world

type world struct {
	libDirs    []string
	predefined []string
	bundled    [][2]string // name, body
	files      [][2]string // model path (no .elv), body
}

func splitList(s, sep string) []string {
	if s == "-" {
		return nil
	}
	return strings.Split(s, sep)
}

func parseWorld(f []string) *world {
	w := &world{libDirs: splitList(f[1], ","), predefined: splitList(f[2], ",")}
	for _, e := range splitList(f[3], ";") {
		kv := strings.SplitN(e, "=", 2)
		w.bundled = append(w.bundled, [2]string{kv[0], kv[1]})
	}
	for _, e := range splitList(f[4], ";") {
		kv := strings.SplitN(e, "=", 2)
		w.files = append(w.files, [2]string{kv[0], kv[1]})
	}
	return w
}

// ---------------------------------------------------------------- state

type event struct {
	kind byte // 's' start, 'd' done, 'g' got, 'c' caught
	tok  int  // s, d: the evaluation; g: token of the received namespace (-1 unknown)
	name string
	by   string // g, c: importer ("T" or a token)
	spec string
	seen int
	ns   *eval.Ns
}

type frame struct {
	name string
	tok  int
}

type tokInfo struct {
	name   string
	status int // 0 in progress, 1 done, 2 failed
	ns     *eval.Ns
}

type hold struct {
	by     int // -1 = top level
	target int
	spec   string
}

type state struct {
	root    string // real directory standing for /ROOT
	home    string // where we chdir between ops
	w       *world
	ev      *eval.Evaler
	nextTok int
	cnt     map[string]int
	stack   []frame
	events  []event
	aborted bool           // depth cap hit during this op
	enters  int            // module evaluations started in this op
	codeFns map[string]int // body of a `run code` op -> number of the function that holds its compiled form

	// oracle's own bookkeeping
	toks    map[int]*tokInfo
	live    map[string]int
	nsTok   map[*eval.Ns]int
	holders []hold
	loaded  map[string]string // key -> spec spelling that first loaded it
	feats   map[string]bool   // features of the last op (for Tag)
	lastCls string
	lastDet string
	extra   map[string]int
}

var cur *state

func (st *state) cleanup() {
	if st.root != "" {
		os.Chdir(st.home)
		os.RemoveAll(st.root)
		st.root = ""
	}
}

func (st *state) real(p string) string {
	if p == modelRoot {
		return st.root
	}
	if strings.HasPrefix(p, modelRoot+"/") {
		return st.root + p[len(modelRoot):]
	}
	return p
}

// ---------------------------------------------------------------- code generation

func q(s string) string { return "'" + strings.ReplaceAll(s, "'", "''") + "'" }

func (st *state) actsCode(by string, acts string) string {
	var sb strings.Builder
	if acts == "_" {
		return ""
	}
	for i, a := range strings.Split(acts, ",") {
		switch a[0] {
		case 'u', 't':
			spec := a[1:]
			realSpec := spec
			if strings.HasPrefix(spec, modelRoot+"/") { // rooted spec: name the real directory
				realSpec = st.real(spec)
			}
			use := fmt.Sprintf("use %s m%d; c22-saw %s %s $m%d:", q(realSpec), i, by, q(spec), i)
			if a[0] == 'u' {
				sb.WriteString(use + "\n")
			} else {
				fmt.Fprintf(&sb, "try { %s } catch { c22-caught %s }\n", use, by)
			}
		case 'd':
			fmt.Fprintf(&sb, "var d%d = 1\n", i)
		case 'f':
			sb.WriteString("fail c22\n")
		case 'g':
			fmt.Fprintf(&sb, "if (<= $cnt %s) { fail c22 }\n", a[1:])
		default:
			panic("bad act " + a)
		}
	}
	return sb.String()
}

func (st *state) moduleCode(name, body string) string {
	return "var name = " + q(name) + "\nvar tok cnt = (c22-enter $name)\n" +
		st.actsCode("$tok", body) + "c22-done $tok\n"
}

// badFlavour: how a `bad` file is bad (all are errors before anything is installed).
func badFlavour(name string) int {
	h := 0
	for _, c := range []byte(name) {
		h = h*31 + int(c)
	}
	if h < 0 {
		h = -h
	}
	return h % 4
}

func (st *state) writeFiles() error {
	for _, d := range []string{"/w/sub", "/lib1/pkg", "/lib2"} {
		if err := os.MkdirAll(st.root+d, 0o755); err != nil {
			return err
		}
	}
	for _, l := range st.w.libDirs {
		os.MkdirAll(st.real(l), 0o755)
	}
	seen := map[string]bool{}
	for _, f := range st.w.files {
		name, body := f[0], f[1]
		if seen[name] { // first entry wins, as in the model
			continue
		}
		seen[name] = true
		p := st.real(name) + ".elv"
		if err := os.MkdirAll(filepath.Dir(p), 0o755); err != nil {
			return err
		}
		var data []byte
		if body == "bad" {
			switch badFlavour(name) {
			case 0:
				data = []byte("c22-enter x\nput {\n") // parse error
			case 1:
				data = []byte("c22-enter x\nput $c22-no-such-variable\n") // compilation error
			case 2:
				data = []byte("c22-enter x # \xff\xfe\n") // not UTF-8
			case 3:
				if err := os.MkdirAll(p, 0o755); err != nil { // a directory: read error other than ENOENT
					return err
				}
				continue
			}
		} else {
			data = []byte(st.moduleCode(name, body))
		}
		if err := os.WriteFile(p, data, 0o644); err != nil {
			return err
		}
	}
	return nil
}

// ---------------------------------------------------------------- observation builtins

func (st *state) builtins() map[string]any {
	return map[string]any{
		"c22-enter": func(fm *eval.Frame, name string) error {
			// Watchdog: unbounded import recursion (or an evaluation storm) must end as a
			// reported failure, not as a Go stack overflow or a hang.  Once tripped it stays
			// tripped for the rest of the op, so `try { use … }` bodies cannot keep retrying.
			st.enters++
			if st.aborted || len(st.stack) >= depthCap || st.enters > enterBudget {
				st.aborted = true
				return errDepth
			}
			tok := st.nextTok
			st.nextTok++
			st.cnt[name]++
			st.stack = append(st.stack, frame{name, tok})
			st.events = append(st.events, event{kind: 's', tok: tok, name: name})
			out := fm.ValueOutput()
			if err := out.Put(tok); err != nil {
				return err
			}
			return out.Put(st.cnt[name])
		},
		"c22-done": func(tok int) {
			if n := len(st.stack); n > 0 && st.stack[n-1].tok == tok {
				st.stack = st.stack[:n-1]
			}
			st.events = append(st.events, event{kind: 'd', tok: tok})
		},
		"c22-saw": func(by any, spec string, nsv any) {
			e := event{kind: 'g', by: fmt.Sprint(by), spec: spec, tok: -1, name: "?"}
			if ns, ok := nsv.(*eval.Ns); ok {
				e.ns = ns
				ns.IterateKeysString(func(k string) {
					v := ns.IndexString(k).Get()
					switch {
					case k == "tok":
						if n, ok := v.(int); ok {
							e.tok = n
						}
					case k == "name":
						if s, ok := v.(string); ok {
							e.name = s
						}
					case len(k) > 1 && k[0] == 'd' && k[1] >= '0' && k[1] <= '9':
						if v != nil {
							e.seen++
						}
					}
				})
			}
			st.events = append(st.events, e)
		},
		"c22-caught": func(by any) {
			// the evaluations nested inside the catching one have been abandoned
			for n := len(st.stack); n > 0 && fmt.Sprint(st.stack[n-1].tok) != fmt.Sprint(by); n = len(st.stack) {
				st.stack = st.stack[:n-1]
			}
			st.events = append(st.events, event{kind: 'c', by: fmt.Sprint(by)})
		},
	}
}

// ---------------------------------------------------------------- impl

func newState(c *common.Ctx) any {
	home := c.Dir
	if home == "" {
		home = os.TempDir()
	}
	st := &state{home: home, extra: map[string]int{}}
	c.Extra["features"] = st.extra
	cur = st
	return st
}

func implReset(st *state, f []string) string {
	st.cleanup()
	root, err := os.MkdirTemp(st.home, "c22-")
	if err != nil {
		return "harness-error " + err.Error()
	}
	if r, err := filepath.EvalSymlinks(root); err == nil {
		root = r
	}
	st.root = root
	st.w = parseWorld(f)
	st.cnt = map[string]int{}
	st.stack, st.events = nil, nil
	st.toks, st.live, st.nsTok = map[int]*tokInfo{}, map[string]int{}, map[*eval.Ns]int{}
	st.holders, st.loaded = nil, map[string]string{}
	if err := st.writeFiles(); err != nil {
		return "harness-error " + err.Error()
	}
	ev := eval.NewEvaler()
	ev.ExtendBuiltin(eval.BuildNs().AddGoFns(st.builtins()))
	for _, l := range st.w.libDirs {
		ev.LibDirs = append(ev.LibDirs, st.real(l))
	}
	for _, b := range st.w.bundled {
		if _, dup := ev.BundledModules[b[0]]; !dup { // first entry wins, as in the model
			ev.BundledModules[b[0]] = st.moduleCode(b[0], b[1])
		}
	}
	st.nextTok = 0
	for _, p := range st.w.predefined {
		if _, dup := st.live[p]; dup { // each name is installed once, as in the model
			continue
		}
		tok := st.nextTok
		st.nextTok++
		ns := eval.BuildNs().AddVar("name", vars.NewReadOnly(p)).AddVar("tok", vars.NewReadOnly(tok)).Ns()
		ev.AddModule(p, ns)
		st.toks[tok] = &tokInfo{name: p, status: 1, ns: ns}
		st.live[p] = tok
		st.nsTok[ns] = tok
		st.cnt[p]++
	}
	st.ev = ev
	st.codeFns = map[string]int{}
	return "ok"
}

func classify(err error, st *state) string {
	if err == nil {
		return "ok"
	}
	r := evalutil.Reason(err)
	if st.aborted || errors.Is(r, errDepth) {
		return "err:depth"
	}
	switch r.(type) {
	case eval.NoSuchModule:
		return "err:nosuch"
	case eval.FailError:
		return "err:fail"
	}
	if strings.Contains(r.Error(), "interrupted") {
		return "err:interrupted"
	}
	return "err:bad"
}

func implRun(st *state, f []string) string {
	if st.ev == nil {
		return "harness-error no reset"
	}
	origin, dir, cwd, body := f[1], f[2], f[3], f[4]
	st.events, st.aborted, st.enters = nil, false, 0
	st.stack = nil
	code := st.actsCode("T", body)
	// Code that is not from a file is kept as a function of the interpreter
	// and CALLED again when the same body comes back (possibly with another
	// working directory): the same compiled `use` forms run more than once,
	// as they do in a function or loop body of an interactive session.
	if origin != "file" {
		if n, ok := st.codeFns[body]; ok {
			code = fmt.Sprintf("c22-run-%d", n)
		} else {
			n = len(st.codeFns)
			st.codeFns[body] = n
			code = fmt.Sprintf("fn c22-run-%d {\n%s\n}\nc22-run-%d", n, code, n)
		}
	}
	src := parse.Source{Name: "[c22 code]", Code: code}
	if origin == "file" {
		src = parse.Source{Name: st.real(dir) + "/script.elv", Code: code, IsFile: true}
	}
	rc := st.real(cwd)
	os.MkdirAll(rc, 0o755)
	if err := os.Chdir(rc); err != nil {
		return "harness-error " + err.Error()
	}
	defer os.Chdir(st.home)
	ctx, cancel := context.WithTimeout(context.Background(), 8*time.Second)
	defer cancel()
	err := st.ev.Eval(src, eval.EvalCfg{
		Ports:      []*eval.Port{eval.DummyInputPort, eval.DummyOutputPort, eval.DummyOutputPort},
		Interrupts: ctx})
	var parts []string
	for _, e := range st.events {
		switch e.kind {
		case 's':
			parts = append(parts, fmt.Sprintf("s%d=%s", e.tok, e.name))
		case 'd':
			parts = append(parts, fmt.Sprintf("d%d", e.tok))
		case 'g':
			parts = append(parts, fmt.Sprintf("g%s:%s>%s#%d+%d", e.by, e.spec, e.name, e.tok, e.seen))
		case 'c':
			parts = append(parts, "c"+e.by)
		}
	}
	parts = append(parts, "|", classify(err, st))
	return strings.Join(parts, " ")
}

func impl(sta any, f []string) string {
	st := sta.(*state)
	switch f[0] {
	case "reset":
		return implReset(st, f)
	case "run":
		return implRun(st, f)
	case "resetc":
		return implResetC(st, f)
	case "cmd":
		return implCmd(st, f)
	}
	return "bad-op"
}

// ---------------------------------------------------------------- oracle

// The oracle evaluates C22's statement on the events the real interpreter
// produced, with its own bookkeeping (it never consults the model):
//
//	reevaluated-while-cached  a module body started although an evaluation of the same file
//	                          is in progress or completed and has not failed (at most once)
//	namespace-not-shared      a `use` handed out a namespace that is not the one of the file's
//	                          live evaluation, or tokens and *Ns pointers do not correspond
//	failed-module-remembered  a `use` handed out the namespace of an evaluation that failed
//	relative-resolution       a relative spec did not resolve against the importing file's
//	                          directory (code from a file) / the working directory (other code)
//	libdir-resolution         a non-relative spec resolved to something that is neither the
//	                          pre-defined/bundled module of that name nor <libdir>/<spec>
//	import-diverges           panic, timeout or unbounded import recursion
//	failed-namespace-retained the namespace of an evaluation that failed is still held by an
//	                          importer that completed and stays cached (cycle into a failing module)
func oracle(sta any, f []string, out string) (string, string) {
	st := sta.(*state)
	st.feats = map[string]bool{}
	if f[0] == "cmd" {
		return oracleCmd(st, f, out)
	}
	if f[0] != "run" || st.ev == nil {
		return "", ""
	}
	cls, det := "", ""
	fail := func(c, d string) {
		if cls == "" {
			cls, det = c, d
		}
	}
	if out == "PANIC" || out == "TIMEOUT" || strings.HasSuffix(out, "err:depth") || strings.HasSuffix(out, "err:interrupted") {
		fail("import-diverges", out[max(0, len(out)-60):])
	}
	origin, dir, cwd := f[1], f[2], f[3]
	var stack []int
	markFailed := func(tok int) {
		ti := st.toks[tok]
		ti.status = 2
		st.feats["failure"] = true
		if lt, ok := st.live[ti.name]; ok && lt == tok {
			delete(st.live, ti.name)
		}
		for _, h := range st.holders {
			if h.target != tok {
				continue
			}
			holder := "top-level code"
			if h.by >= 0 {
				if hi := st.toks[h.by]; hi == nil || hi.status != 1 {
					continue // the importer failed too (or is unknown): nobody is left holding it
				} else {
					holder = fmt.Sprintf("module %s (evaluation #%d, completed, still cached)", hi.name, h.by)
				}
			}
			st.feats["stale"] = true
			fail("failed-namespace-retained", fmt.Sprintf("evaluation #%d of %s failed and was unloaded, but %s imported it as %s while it was in progress and keeps that namespace",
				tok, ti.name, holder, h.spec))
		}
	}
	for _, e := range st.events {
		switch e.kind {
		case 's':
			if lt, ok := st.live[e.name]; ok {
				what := "in progress"
				if st.toks[lt].status == 1 {
					what = "completed"
				}
				fail("reevaluated-while-cached", fmt.Sprintf("%s evaluated again (#%d) although evaluation #%d is %s", e.name, e.tok, lt, what))
			}
			if st.cnt[e.name] > 1 {
				st.feats["retry-after-failure"] = true
			}
			if len(stack) > 0 {
				st.feats["nested"] = true
			}
			st.feats["fresh"] = true
			st.toks[e.tok] = &tokInfo{name: e.name}
			st.live[e.name] = e.tok
			stack = append(stack, e.tok)
		case 'd':
			if n := len(stack); n > 0 && stack[n-1] == e.tok {
				stack = stack[:n-1]
			}
			if ti := st.toks[e.tok]; ti != nil {
				ti.status = 1
			}
		case 'c':
			st.feats["caught"] = true
			by, _ := strconv.Atoi(e.by)
			for n := len(stack); n > 0 && (e.by == "T" || stack[n-1] != by); n = len(stack) {
				markFailed(stack[n-1])
				stack = stack[:n-1]
			}
		case 'g':
			ti := st.toks[e.tok]
			if ti == nil || e.ns == nil {
				fail("namespace-not-shared", fmt.Sprintf("use %s handed out an unknown namespace (%s #%d)", e.spec, e.name, e.tok))
				continue
			}
			if ti.ns == nil {
				ti.ns = e.ns
				if t0, dup := st.nsTok[e.ns]; dup && t0 != e.tok {
					fail("namespace-not-shared", fmt.Sprintf("evaluations #%d and #%d share one namespace object", t0, e.tok))
				}
				st.nsTok[e.ns] = e.tok
			} else if ti.ns != e.ns {
				fail("namespace-not-shared", fmt.Sprintf("evaluation #%d of %s seen as two different namespace objects", e.tok, e.name))
			}
			lt, ok := st.live[e.name]
			switch {
			case ti.status == 2:
				fail("failed-module-remembered", fmt.Sprintf("use %s handed out the namespace of evaluation #%d of %s, which failed", e.spec, e.tok, e.name))
			case !ok || lt != e.tok:
				fail("namespace-not-shared", fmt.Sprintf("use %s handed out #%d of %s but the live evaluation is #%d", e.spec, e.tok, e.name, lt))
			}
			if ti.status == 0 {
				st.feats["cycle"] = true
			}
			// resolution
			base := cwd
			byTok := -1
			if e.by == "T" {
				if origin == "file" {
					base = dir
				}
			} else {
				byTok, _ = strconv.Atoi(e.by)
				bn := st.toks[byTok].name
				if strings.HasPrefix(bn, "/") {
					base = path.Dir(bn + ".elv")
				} // a bundled module is not a file: working directory
			}
			if strings.HasPrefix(e.spec, "./") || strings.HasPrefix(e.spec, "../") {
				st.feats["relative"] = true
				if want := path.Join(base, e.spec); want != e.name {
					fail("relative-resolution", fmt.Sprintf("use %s from %s resolved to %s, want %s", e.spec, base, e.name, want))
				}
			} else if e.name != e.spec {
				okLib := false
				for i, l := range st.w.libDirs {
					if path.Join(l, e.spec) == e.name {
						okLib = true
						if i > 0 {
							st.feats["later-libdir"] = true
						}
					}
				}
				st.feats["libdir"] = true
				if !okLib {
					fail("libdir-resolution", fmt.Sprintf("use %s resolved to %s", e.spec, e.name))
				}
			} else {
				st.feats["predefined-or-bundled"] = true
			}
			if first, was := st.loaded[e.name]; was && first != e.spec {
				st.feats["other-spelling"] = true
			} else if !was {
				st.loaded[e.name] = e.spec
			}
			st.holders = append(st.holders, hold{byTok, e.tok, e.spec})
		}
	}
	if !strings.HasSuffix(out, "| ok") {
		for n := len(stack); n > 0; n = len(stack) {
			markFailed(stack[n-1])
			stack = stack[:n-1]
		}
		switch {
		case strings.HasSuffix(out, "err:nosuch"):
			st.feats["nosuch"] = true
		case strings.HasSuffix(out, "err:bad"):
			st.feats["bad-source"] = true
		}
	} else if len(stack) > 0 {
		fail("import-diverges", "evaluation still open after a successful import")
	}
	if !st.feats["fresh"] && strings.HasSuffix(out, "| ok") {
		st.feats["cache-hit-only"] = true
	}
	for k := range st.feats {
		st.extra[k]++
	}
	return cls, det
}

var tagOrder = []string{"stale", "retry-after-failure", "cycle", "other-spelling", "caught", "failure",
	"later-libdir", "predefined-or-bundled", "nested", "bad-source", "nosuch", "fresh", "cache-hit-only"}

func tag(f []string, out string) string {
	if f[0] == "cmd" && cur != nil {
		if cur.feats["cmd-cd-between-imports"] {
			return "cmd-cd-between-imports"
		}
		return "cmd"
	}
	if f[0] != "run" || cur == nil {
		return ""
	}
	for _, t := range tagOrder {
		if cur.feats[t] {
			return t
		}
	}
	return "other"
}

// ---------------------------------------------------------------- generator

type genFile struct {
	dir, name string
	bad       bool
}

func (g genFile) path() string { return g.dir + "/" + g.name }

var dirPool = []string{"/ROOT/w", "/ROOT/w/sub", "/ROOT/lib1", "/ROOT/lib1/pkg", "/ROOT/lib2", "/ROOT"}

// relSpec spells a relative spec for target (model path) as seen from dir, with noise.
func relSpec(r *common.Rand, dir, target string) string {
	d := strings.Split(strings.TrimPrefix(dir, "/"), "/")
	t := strings.Split(strings.TrimPrefix(target, "/"), "/")
	i := 0
	for i < len(d) && i < len(t)-1 && d[i] == t[i] {
		i++
	}
	var comps []string
	for k := i; k < len(d); k++ {
		comps = append(comps, "..")
	}
	if len(comps) == 0 {
		comps = append(comps, ".")
	}
	comps = append(comps, t[i:]...)
	return noise(r, comps, 1)
}

// noise inserts `.`, empty and `x/..` elements after position from.
func noise(r *common.Rand, comps []string, from int) string {
	var out []string
	for i, c := range comps {
		if i >= from && r.Chance(1, 4) {
			switch r.Intn(4) {
			case 0:
				out = append(out, ".")
			case 1:
				out = append(out, common.Pick(r, []string{"sub", "pkg", "nowhere"}), "..")
			case 2:
				out = append(out, "")
			case 3:
				out = append(out, "sub", ".", "..")
			}
		}
		out = append(out, c)
	}
	return strings.Join(out, "/")
}

func genSpec(r *common.Rand, files []genFile, libs []string, pre, bun []string, fromDir string) string {
	if len(files) > 0 && r.Chance(17, 20) {
		t := common.Pick(r, files)
		// through a lib dir if possible, half of the time
		var via []string
		for _, l := range libs {
			if strings.HasPrefix(t.path(), l+"/") {
				via = append(via, l)
			}
		}
		if len(via) > 0 && r.Bool() {
			l := common.Pick(r, via)
			comps := strings.Split(strings.TrimPrefix(t.path(), l+"/"), "/")
			return noise(r, comps, 1) // noise never in front: "./x" would be relative
		}
		if r.Chance(1, 25) {
			return t.path() // rooted spec naming the cleaned path
		}
		return relSpec(r, fromDir, t.path())
	}
	switch r.Intn(8) {
	case 0:
		return "./zz"
	case 1:
		return "zz"
	case 2:
		return "../../../../../zz"
	case 3, 4:
		if len(pre) > 0 {
			return common.Pick(r, pre)
		}
		return "pkg/zz"
	case 5, 6:
		if len(bun) > 0 {
			return common.Pick(r, bun)
		}
		return "./sub/../zz"
	}
	return common.Pick(r, []string{"a", "b", "pkg/a", "./a", "../a", "./sub/a", "../lib1/a", "./pkg/../a"})
}

func genBody(r *common.Rand, files []genFile, libs, pre, bun []string, fromDir string, failing bool) string {
	n := r.Range(0, 4)
	var acts []string
	for i := 0; i < n; i++ {
		switch k := r.Intn(20); {
		case k < 10:
			acts = append(acts, "u"+genSpec(r, files, libs, pre, bun, fromDir))
		case k < 14:
			acts = append(acts, "t"+genSpec(r, files, libs, pre, bun, fromDir))
		case k < 18:
			acts = append(acts, "d")
		case k < 19 && failing:
			acts = append(acts, "f")
		case failing:
			acts = append(acts, "g"+strconv.Itoa(r.Range(1, 2)))
		default:
			acts = append(acts, "d")
		}
	}
	if len(acts) == 0 {
		return "_"
	}
	return strings.Join(acts, ",")
}

func genHistory(c *common.Ctx, emit func(...string)) {
	r := c.Rand
	libChoices := [][]string{{"/ROOT/lib1"}, {"/ROOT/lib1", "/ROOT/lib2"}, {"/ROOT/lib2", "/ROOT/lib1"}, {}, {"/ROOT/w", "/ROOT/lib1"}}
	libs := common.Pick(r, libChoices)
	var pre, bun []string
	if r.Chance(1, 3) {
		pre = []string{"pre0"}
		if r.Chance(1, 3) {
			pre = append(pre, "pkg/pre1")
		}
	}
	if r.Chance(1, 3) {
		bun = []string{"bun0"}
	}
	names := []string{"a", "b", "c", "d", "e", "f"}
	if r.Chance(1, 6) {
		names = append(names, "pre0", "bun0")
	}
	nf := r.Range(1, 6)
	var files []genFile
	used := map[string]bool{}
	for len(files) < nf {
		g := genFile{dir: common.Pick(r, dirPool[:5]), name: common.Pick(r, names[:min(len(names), nf+2)])}
		if used[g.path()] {
			continue
		}
		used[g.path()] = true
		g.bad = r.Chance(1, 12)
		files = append(files, g)
	}
	failing := r.Chance(1, 2) // half of the graphs have no failing statement at all
	var fs []string
	for _, g := range files {
		body := "bad"
		if !g.bad {
			body = genBody(r, files, libs, pre, bun, g.dir, failing)
		}
		fs = append(fs, g.path()+"="+body)
	}
	var bs []string
	for _, b := range bun {
		bs = append(bs, b+"="+genBody(r, files, libs, pre, bun, "/ROOT/w", failing))
	}
	join := func(xs []string, sep string) string {
		if len(xs) == 0 {
			return "-"
		}
		return strings.Join(xs, sep)
	}
	emit("reset", join(libs, ","), join(pre, ","), join(bs, ";"), join(fs, ";"))
	for n := r.Range(3, 9); n > 0; n-- {
		origin := common.Pick(r, []string{"file", "code"})
		dir := common.Pick(r, dirPool)
		cwd := common.Pick(r, dirPool)
		from := cwd
		if origin == "file" {
			from = dir
		}
		var acts []string
		for k := r.Range(1, 2); k > 0; k-- {
			a := "u"
			if r.Chance(1, 4) {
				a = "t"
			}
			acts = append(acts, a+genSpec(r, files, libs, pre, bun, from))
		}
		emit("run", origin, dir, cwd, strings.Join(acts, ","))
		if origin == "code" && r.Chance(1, 2) {
			// the same code again from other working directories
			for k := r.Range(1, 2); k > 0; k-- {
				emit("run", origin, dir, common.Pick(r, dirPool), strings.Join(acts, ","))
			}
		}
	}
}

func run(c *common.Ctx) error {
	s := &common.Std{
		Rule: "random module graphs: 1..6 module files over 5 directories (2 of them candidate lib dirs, one nested), bodies of 0..4 statements " +
			"(use / try-use / var / fail / fail-on-first-n-evaluations) whose specs target the other files through relative spellings (./ ../ with ., empty and x/.. noise), " +
			"lib-dir spellings, rooted spellings, pre-defined and bundled names and missing modules; unreadable/unparsable files; each graph is written to a fresh temp dir and " +
			"imported 3..9 times by top-level code from files in / working directories of random directories on one in-process Evaler; plus, every 10th graph, a small graph imported through the real shell entry point (`elvish -c` with `cd` between relative imports, fresh interpreter per run); non-trivial = the op evaluated or shared at least one module; distinct by op line",
		Gen: func(c *common.Ctx, emit func(...string)) {
			for n := c.Scale(1500, 50000); n > 0; n-- {
				genHistory(c, emit)
				if n%10 == 0 {
					genCmdHistory(c, emit)
				}
			}
		},
		NewState: newState,
		Impl:     impl,
		Oracle:   oracle,
		Tag:      tag,
		Timeout:  30 * time.Second,
	}
	err := s.Run(c)
	if cur != nil {
		cur.cleanup()
		// histogram keys sorted for stable output
		keys := make([]string, 0, len(cur.extra))
		for k := range cur.extra {
			keys = append(keys, k)
		}
		sort.Strings(keys)
	}
	return err
}
