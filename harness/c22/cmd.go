package c22

// `cmd` stream: relative imports of code that is NOT from a file, through the
// real shell entry point (`elvish -c`, pkg/shell script()), with `cd` between
// the imports.  Each `cmd` op is one in-process run of the shell program on a
// fresh interpreter; module files announce their evaluation on stdout.

import (
	"fmt"
	"os"
	"path"
	"path/filepath"
	"strings"

	"src.elv.sh/pkg/prog"
	"src.elv.sh/pkg/shell"
	"verifharness/common"
)

func (st *state) cmdModuleCode(name, body string) string {
	var sb strings.Builder
	fmt.Fprintf(&sb, "echo %s\n", q("E:"+name))
	if body != "_" {
		for i, a := range strings.Split(body, ",") {
			switch a[0] {
			case 'u':
				fmt.Fprintf(&sb, "use %s m%d\n", q(a[1:]), i)
			case 't':
				fmt.Fprintf(&sb, "try { use %s m%d } catch { }\n", q(a[1:]), i)
			case 'd':
				fmt.Fprintf(&sb, "var d%d = 1\n", i)
			case 'f':
				sb.WriteString("fail c22\n")
			default:
				panic("bad act in cmd world " + a)
			}
		}
	}
	return sb.String()
}

func implResetC(st *state, f []string) string {
	st.cleanup()
	st.ev = nil
	root, err := os.MkdirTemp(st.home, "c22-")
	if err != nil {
		return "harness-error " + err.Error()
	}
	if r, err := filepath.EvalSymlinks(root); err == nil {
		root = r
	}
	st.root = root
	st.w = parseWorld([]string{"resetc", "-", "-", "-", f[1]})
	seen := map[string]bool{}
	for _, fl := range st.w.files {
		if seen[fl[0]] {
			continue
		}
		seen[fl[0]] = true
		p := st.real(fl[0]) + ".elv"
		if err := os.MkdirAll(filepath.Dir(p), 0o755); err != nil {
			return "harness-error " + err.Error()
		}
		data := "put {\n" // bad
		if fl[1] != "bad" {
			data = st.cmdModuleCode(fl[0], fl[1])
		}
		if err := os.WriteFile(p, []byte(data), 0o644); err != nil {
			return "harness-error " + err.Error()
		}
	}
	return "ok"
}

type cmdStep struct{ cwd, spec string }

func parseCmd(s string) []cmdStep {
	var out []cmdStep
	for _, e := range strings.Split(s, ";") {
		kv := strings.SplitN(e, ",", 2)
		out = append(out, cmdStep{kv[0], kv[1]})
	}
	return out
}

func implCmd(st *state, f []string) string {
	if st.root == "" || st.w == nil {
		return "harness-error no resetc"
	}
	var code strings.Builder
	for i, s := range parseCmd(f[1]) {
		os.MkdirAll(st.real(s.cwd), 0o755)
		fmt.Fprintf(&code, "cd %s; use %s m%d\n", q(st.real(s.cwd)), q(s.spec), i)
	}
	outF, err := os.CreateTemp(st.home, "c22-out-")
	if err != nil {
		return "harness-error " + err.Error()
	}
	defer os.Remove(outF.Name())
	defer outF.Close()
	devnull, _ := os.OpenFile(os.DevNull, os.O_RDWR, 0)
	defer devnull.Close()
	defer os.Chdir(st.home)
	exit := prog.Run([3]*os.File{devnull, outF, devnull}, []string{"elvish", "-c", code.String()}, &shell.Program{})
	data, _ := os.ReadFile(outF.Name())
	var parts []string
	for _, l := range strings.Split(string(data), "\n") {
		if strings.HasPrefix(l, "E:") {
			parts = append(parts, l)
		}
	}
	res := "ok"
	if exit != 0 {
		res = "err"
	}
	return strings.Join(append(parts, "|", res), " ")
}

// oracleCmd: code given with -c is not from a file, so each relative `use`
// must resolve against the working directory at that moment: the file there
// (if it is a module of the world) must have been evaluated by then; and on
// one interpreter no file is evaluated twice (cmd worlds have no failing module).
func oracleCmd(st *state, f []string, out string) (string, string) {
	if st.w == nil {
		return "", ""
	}
	st.feats = map[string]bool{"cmd": true}
	defer func() {
		for k := range st.feats {
			st.extra[k]++
		}
	}()
	if out == "PANIC" || out == "TIMEOUT" {
		return "import-diverges", out
	}
	isMod := map[string]bool{}
	for _, fl := range st.w.files {
		if fl[1] != "bad" {
			isMod[fl[0]] = true
		}
	}
	count := map[string]int{}
	for _, e := range strings.Fields(out) {
		if strings.HasPrefix(e, "E:") {
			count[e[2:]]++
			if count[e[2:]] > 1 {
				return "reevaluated-while-cached", e[2:] + " evaluated twice by one `elvish -c` run"
			}
		}
	}
	steps := parseCmd(f[1])
	dirs := map[string]bool{}
	for i, s := range steps {
		want := path.Join(s.cwd, s.spec)
		dirs[s.cwd] = true
		if !isMod[want] {
			break // the script stops here (missing or bad module)
		}
		if count[want] == 0 {
			return "cmd-relative-resolution", fmt.Sprintf("elvish -c: step %d `cd %s; use %s` did not load %s (code from -c is not from a file: relative to the working directory)", i+1, s.cwd, s.spec, want)
		}
	}
	if len(dirs) > 1 {
		st.feats["cmd-cd-between-imports"] = true
	}
	return "", ""
}

func genCmdHistory(c *common.Ctx, emit func(...string)) {
	r := c.Rand
	dirs := []string{"/ROOT/w", "/ROOT/w/sub", "/ROOT/lib1"}
	names := []string{"a", "b"}
	var files []genFile
	used := map[string]bool{}
	for n := r.Range(2, 4); len(files) < n; {
		g := genFile{dir: common.Pick(r, dirs), name: common.Pick(r, names)}
		if !used[g.path()] {
			used[g.path()] = true
			files = append(files, g)
		}
	}
	var fs []string
	for _, g := range files {
		var acts []string
		for k := r.Range(0, 2); k > 0; k-- {
			switch r.Intn(4) {
			case 0:
				acts = append(acts, "d")
			case 1:
				acts = append(acts, "t./zz")
			default:
				acts = append(acts, "u"+relSpec(r, g.dir, common.Pick(r, files).path()))
			}
		}
		body := "_"
		if len(acts) > 0 {
			body = strings.Join(acts, ",")
		}
		fs = append(fs, g.path()+"="+body)
	}
	emit("resetc", strings.Join(fs, ";"))
	for n := r.Range(1, 3); n > 0; n-- {
		var steps []string
		for k := r.Range(2, 4); k > 0; k-- {
			cwd := common.Pick(r, dirs)
			spec := "./" + common.Pick(r, names)
			if r.Chance(1, 3) {
				spec = relSpec(r, cwd, common.Pick(r, files).path())
			}
			steps = append(steps, cwd+","+spec)
		}
		emit("cmd", strings.Join(steps, ";"))
	}
}
