package c01

import (
	"strconv"
	"strings"

	"verifharness/common"
)

// ---- grammar-directed generator --------------------------------------------------

type g struct {
	r *common.Rand
}

func (g *g) pick(xs ...string) string { return xs[g.r.Intn(len(xs))] }

var words = []string{"a", "b", "echo", "put", "x", "foo", "a.b", "/usr/bin", "+", "%", "!", "@", "a=b", "1", "23", "-", "_x", "k:v", "é", "世界", "😀",
	"a~", "a,b", "\\", "a\\b", "\u00ad" /* not printable */, "\u0085" /* C1 control */, " ", "x\u200b", "<", ">", "*", "^", "a^", "<>"}

func (g *g) inlineWS() string {
	switch g.r.Intn(12) {
	case 0:
		return "\t"
	case 1:
		return "  "
	case 2:
		return " # cé "
	case 3:
		return " ^\n"
	case 4:
		return "^\r\n "
	case 5:
		return " ^\r"
	case 6:
		return " #"
	}
	return " "
}

func (g *g) optWS() string {
	if g.r.Chance(1, 2) {
		return ""
	}
	return g.inlineWS()
}

func (g *g) wsnl() string {
	switch g.r.Intn(8) {
	case 0:
		return "\n"
	case 1:
		return " \n "
	case 2:
		return "\r\n"
	case 3:
		return ""
	case 4:
		return "# x\n"
	}
	return g.inlineWS()
}

func (g *g) seps() string {
	var sb strings.Builder
	for k := g.r.Intn(3); k > 0; k-- {
		sb.WriteString(g.pick("\n", ";", "\r", " ", "\t", "# cmt\n", "\r\n", "; ", " ^\n"))
	}
	return sb.String()
}

func (g *g) chunk(d int) string {
	var sb strings.Builder
	sb.WriteString(g.seps())
	n := g.r.Intn(3)
	if d <= 0 {
		n = g.r.Intn(2)
	}
	for i := 0; i < n; i++ {
		sb.WriteString(g.pipeline(d))
		sb.WriteString(g.pick("\n", ";", "\r\n", " ;", "\n\n", " # c\n"))
		sb.WriteString(g.seps())
	}
	if g.r.Chance(1, 2) {
		sb.WriteString(g.pipeline(d))
		sb.WriteString(g.optWS())
	}
	return sb.String()
}

func (g *g) pipeline(d int) string {
	var sb strings.Builder
	sb.WriteString(g.form(d))
	for g.r.Chance(1, 4) {
		sb.WriteString("|")
		sb.WriteString(g.wsnl())
		sb.WriteString(g.form(d))
	}
	if g.r.Chance(1, 8) {
		sb.WriteString(g.optWS() + "&" + g.optWS())
	}
	return sb.String()
}

func (g *g) form(d int) string {
	var sb strings.Builder
	if g.r.Chance(1, 12) {
		sb.WriteString(g.inlineWS()) // leading space: empty head
	}
	sb.WriteString(g.compound(d, 1))
	for k := g.r.Intn(4); k > 0; k-- {
		sb.WriteString(g.inlineWS())
		switch g.r.Intn(8) {
		case 0:
			sb.WriteString("&" + g.compound(d-1, 2) + "=" + g.wsnlOpt() + g.compound(d-1, 0))
		case 1:
			sb.WriteString("&" + g.compound(d-1, 2))
		case 2, 3:
			sb.WriteString(g.redir(d))
		default:
			sb.WriteString(g.compound(d-1, 0))
		}
	}
	return sb.String()
}

func (g *g) wsnlOpt() string {
	if g.r.Chance(3, 4) {
		return ""
	}
	return g.wsnl()
}

func (g *g) redir(d int) string {
	left := ""
	if g.r.Chance(1, 2) {
		left = g.pick("2", "1", "0", "$fd", "'2'", "a", "~", "(x)")
	}
	sign := g.pick("<", ">", ">>", "<>", ">", "<", "><", "<<", ">>>")
	amp := ""
	if g.r.Chance(1, 3) {
		amp = "&"
	}
	right := g.compound(d-1, 0)
	if g.r.Chance(1, 10) {
		right = ""
	}
	if amp != "" && g.r.Chance(1, 2) {
		right = g.pick("-", "1", "2", "stderr")
	}
	return left + sign + g.optWS() + amp + right
}

func (g *g) compound(d, ctx int) string {
	var sb strings.Builder
	if g.r.Chance(1, 12) {
		sb.WriteString("~")
	}
	n := 1
	if g.r.Chance(1, 4) {
		n += g.r.Intn(3)
	}
	for i := 0; i < n; i++ {
		sb.WriteString(g.indexing(d, ctx))
	}
	return sb.String()
}

func (g *g) indexing(d, ctx int) string {
	s := g.primary(d, ctx)
	for d > 0 && g.r.Chance(1, 6) {
		s += "[" + g.array(d-1) + "]"
	}
	return s
}

func (g *g) array(d int) string {
	var sb strings.Builder
	sb.WriteString(g.wsnlOpt())
	for k := g.r.Intn(3); k > 0; k-- {
		sb.WriteString(g.compound(d, 0))
		sb.WriteString(g.wsnl())
	}
	return sb.String()
}

func (g *g) bare(ctx int) string {
	w := g.pick(words...)
	switch ctx {
	case 0, 2, 3: // <>*^ are not bareword characters outside command position
		if strings.ContainsAny(w, "<>*^") {
			return "w"
		}
	}
	if ctx == 2 && strings.Contains(w, "=") {
		return "k"
	}
	if ctx == 3 && strings.Contains(w, ",") {
		return "e"
	}
	return w
}

func (g *g) sq() string {
	return "'" + g.pick("", "a", "it''s", "é 世", "a\nb", "$x", "\\", "\"", "''") + "'"
}

func (g *g) dq() string {
	var sb strings.Builder
	sb.WriteString("\"")
	for k := g.r.Intn(4); k > 0; k-- {
		sb.WriteString(g.pick("a", "é", " ", "\\n", "\\t", "\\\\", "\\\"", "\\e", "\\a", "\\x41", "\\xff", "\\u00e9", "\\u4e16", "\\U0001F600", "\\U00110000",
			"\\UFFFFFFFF", "\\uD800", "\\c?", "\\cA", "\\^[", "\\c_", "\\101", "\\377", "\\000", "\\400", "\\777", "\\141", "'", "$", "\n", "世"))
	}
	sb.WriteString("\"")
	return sb.String()
}

func (g *g) primary(d, ctx int) string {
	k := g.r.Intn(20)
	if d <= 0 && k >= 12 {
		k = g.r.Intn(12)
	}
	switch k {
	case 0, 1, 2, 3, 4:
		return g.bare(ctx)
	case 5:
		return g.sq()
	case 6:
		return g.dq()
	case 7:
		return "$" + g.pick("x", "@args", "a:b", "é", "-", "_", "x~", "1", "世界", "pwd", "e:HOME", "@", "@é")
	case 8:
		return "$" + g.pick(g.sq(), g.dq())
	case 9:
		if ctx == 1 {
			return g.pick("?", "??")
		}
		return g.pick("*", "**", "?", "??", "***", "*?")
	case 10:
		return g.bare(ctx)
	case 11:
		return g.pick("[]", "[&]", "[ ]", "[& ]", "{}", "()", "?()")
	case 12:
		return "(" + g.chunk(d-1) + ")"
	case 13:
		return "?(" + g.chunk(d-1) + ")"
	case 14: // list
		var sb strings.Builder
		sb.WriteString("[" + g.wsnlOpt())
		for k := g.r.Intn(3); k > 0; k-- {
			sb.WriteString(g.compound(d-1, 0) + g.wsnl())
		}
		sb.WriteString("]")
		return sb.String()
	case 15: // map
		var sb strings.Builder
		sb.WriteString("[" + g.wsnlOpt())
		for k := 1 + g.r.Intn(2); k > 0; k-- {
			sb.WriteString("&" + g.compound(d-1, 2) + "=" + g.wsnlOpt() + g.compound(d-1, 0) + g.wsnl())
		}
		if g.r.Chance(1, 6) {
			sb.WriteString(g.compound(d-1, 0)) // both elements and pairs
		}
		sb.WriteString("]")
		return sb.String()
	case 16, 17: // lambda
		var sb strings.Builder
		sb.WriteString("{")
		if g.r.Chance(1, 2) {
			sb.WriteString(g.pick(" ", "\n", "", " \n"))
			sb.WriteString("|" + g.wsnlOpt())
			for k := g.r.Intn(3); k > 0; k-- {
				if g.r.Chance(1, 4) {
					sb.WriteString("&" + g.bare(2) + "=" + g.compound(d-1, 0) + " ")
				} else {
					sb.WriteString(g.pick("a", "x", "@rest", "é") + g.pick(" ", "", "\n"))
				}
			}
			sb.WriteString("|")
		} else {
			sb.WriteString(g.pick(" ", "\n", "\t", ";", "\r\n"))
		}
		sb.WriteString(g.chunk(d-1) + "}")
		return sb.String()
	case 18: // braced
		var sb strings.Builder
		sb.WriteString("{" + g.compound(d-1, 3))
		for k := g.r.Intn(3); k > 0; k-- {
			sb.WriteString(g.pick(",", " ", ", ", " ,", "\n", ",,", " , "))
			sb.WriteString(g.compound(d-1, 3))
		}
		sb.WriteString("}")
		return sb.String()
	}
	return g.pick("[&k=v]", "[a b]", "{a,b}", "{ }", "(a)", "a[0]", "$x[a][b]", "[&a=[&b=c]]")
}

// ---- mutations -------------------------------------------------------------------

var meta = []string{"'", "\"", "$", "*", "?", "(", ")", "[", "]", "{", "}", "|", "&", "<", ">", ";", "\n", "\r", " ", "\t", "#", "^", "~", "=", ",", "\\", "@", ":",
	"?(", "$'", "$\"", "\\c", "\\x", "\\u", "\\U", "\\1", "^\n", "^\r", "a", "0", "7", "8", "f", "é", "\u00ad"}

var badUTF8 = []string{"\xff", "\xc3", "\xe4\xb8", "\xed\xa0\x80", "\xf4\x90\x80\x80", "\xc0\xaf", "\x80", "\xbf", "\xf0\x9f\x98", "\xe0\x80\x80", "\xf8", "\xef\xbf\xbd", "\xc2\xad", "\xa9"}

func mutate(r *common.Rand, s string) string {
	n := 1 + r.Intn(3)
	for ; n > 0; n-- {
		pos := r.Intn(len(s) + 1)
		switch r.Intn(9) {
		case 0: // truncate (may split a UTF-8 sequence)
			s = s[:pos]
		case 1, 2: // insert a metacharacter
			s = s[:pos] + common.Pick(r, meta) + s[pos:]
		case 3: // splice invalid UTF-8
			s = s[:pos] + common.Pick(r, badUTF8) + s[pos:]
		case 4: // delete a byte
			if pos < len(s) {
				s = s[:pos] + s[pos+1:]
			}
		case 5: // replace a byte
			if pos < len(s) {
				s = s[:pos] + common.Pick(r, meta) + s[pos+1:]
			}
		case 6: // truncate and end on something that reads past EOF
			s = s[:pos] + common.Pick(r, []string{"^", "\\", "$", "\"\\", "\"\\c", "\"\\x4", "\"\\u00e", "\"\\1", "\"\\12", "'", "\"", "$'", "$\"", "&", "|", ">", ">&", "[", "{", "(", "?(", "{|", "[&", "[&a=", "a[", "~", "^\r", "#"})
		case 7: // invalid UTF-8 inside quotes / variable / escape
			s = s[:pos] + common.Pick(r, []string{"'", "\"", "$", "\"\\", "\"\\c", "\"\\x", "$'", "#"}) + common.Pick(r, badUTF8) + s[pos:]
		case 8: // drop the tail from a random point and keep a closing bracket
			s = s[:pos] + common.Pick(r, []string{")", "]", "}", "|", "'", "\""})
		}
	}
	return s
}

// ---- op emission -----------------------------------------------------------------

var kinds = []string{"Chunk", "Pipeline", "Form", "Redir", "Filter", "Compound", "Indexing", "Array", "Primary", "MapPair"}

func gen(c *common.Ctx, emit func(...string)) {
	seen := map[string]bool{}
	op := func(kind string, ctx int, src string) {
		key := kind + strconv.Itoa(ctx) + "\x00" + src
		if seen[key] {
			return
		}
		seen[key] = true
		emit("parse", kind, strconv.Itoa(ctx), common.Hex(src), Printable(src))
	}
	asOther := func(src string) {
		k := common.Pick(c.Rand, kinds[1:])
		op(k, c.Rand.Intn(5), src)
	}

	// witnesses of the defect (fixed by fixes/C01-redir-sourcetext.patch)
	for _, s := range []string{"echo 2>a", "a 1>&2", "x $fd>>b <c"} {
		op("Chunk", 0, s)
	}

	// 1. exhaustive small strings
	full := append([]string{}, meta...)
	full = append(full, badUTF8...)
	full = append(full, "b", "\"\\", "\\101", "$x", "世", "😀", "x y", "\u0085")
	for _, a := range full {
		op("Chunk", 0, a)
		for _, b := range full {
			op("Chunk", 0, a+b)
		}
	}
	core := []string{"'", "\"", "$", "*", "?", "(", ")", "[", "]", "{", "}", "|", "&", "<", ">", ";", "\n", "\r", " ", "#", "^", "~", "=", ",", "\\", "a", "\xff", "é"}
	if !c.Thorough() {
		core = core[:c.Scale(22, len(core))]
	}
	for _, a := range core {
		for _, b := range core {
			for _, d := range core {
				op("Chunk", 0, a+b+d)
			}
		}
	}
	// small strings through the other entry points
	for _, k := range kinds[1:] {
		for ctx := 0; ctx < 5; ctx++ {
			if ctx > 0 && k != "Compound" && k != "Indexing" && k != "Primary" {
				break
			}
			op(k, ctx, "")
			for _, a := range full {
				op(k, ctx, a)
				if ctx <= 1 {
					for _, b := range core[:16] {
						op(k, ctx, a+b)
					}
				}
			}
		}
	}

	gg := &g{c.Rand}
	// 2. grammar-directed programs and their mutations
	n := c.Scale(3000, 400000)
	maxLen := c.Scale(96, 256)
	for i := 0; i < n; i++ {
		d := c.Rand.Intn(5)
		if c.Rand.Chance(1, 10) {
			d = 6
		}
		src := gg.chunk(d)
		if len(src) > maxLen {
			src = src[:maxLen]
		}
		op("Chunk", 0, src)
		for k := c.Rand.Intn(4); k > 0; k-- {
			m := mutate(c.Rand, src)
			if len(m) > maxLen {
				m = m[:maxLen]
			}
			op("Chunk", 0, m)
			if c.Rand.Chance(1, 6) {
				asOther(m)
			}
		}
		if c.Rand.Chance(1, 5) {
			var piece string
			switch c.Rand.Intn(6) {
			case 0:
				piece = gg.pipeline(d)
			case 1:
				piece = gg.form(d)
			case 2:
				piece = gg.redir(d)
			case 3:
				piece = gg.compound(d, c.Rand.Intn(4))
			case 4:
				piece = gg.primary(d, c.Rand.Intn(4))
			case 5:
				piece = gg.array(d)
			}
			asOther(piece)
			asOther(mutate(c.Rand, piece))
		}
	}
	// deep nesting (fuel)
	for _, open := range []string{"(", "[", "{", "{ ", "?(", "a[", "[&a=", "{|x|", "~(", "$x["} {
		for _, depth := range []int{8, c.Scale(20, 60)} {
			s := strings.Repeat(open, depth)
			op("Chunk", 0, s)
			op("Chunk", 0, s+"a")
			closer := map[string]string{"(": ")", "[": "]", "{": "}", "{ ": "}", "?(": ")", "a[": "]", "[&a=": "]", "{|x|": "}", "~(": ")", "$x[": "]"}[open]
			op("Chunk", 0, s+"a"+strings.Repeat(closer, depth))
		}
	}
	// 3. random strings over a metacharacter-heavy alphabet
	n = c.Scale(4000, 500000)
	alpha := append(append([]string{}, meta...), badUTF8...)
	alpha = append(alpha, "a", "b", "x", " ", " ", "世", "😀", "1")
	for i := 0; i < n; i++ {
		var sb strings.Builder
		for k := c.Rand.Range(1, c.Scale(16, 40)); k > 0; k-- {
			sb.WriteString(common.Pick(c.Rand, alpha))
		}
		src := sb.String()
		if c.Rand.Chance(1, 8) {
			asOther(src)
		} else {
			op("Chunk", 0, src)
		}
	}
	// 4. uniformly random bytes
	n = c.Scale(500, 50000)
	for i := 0; i < n; i++ {
		b := make([]byte, c.Rand.Range(1, 24))
		for j := range b {
			b[j] = byte(c.Rand.Intn(256))
		}
		op("Chunk", 0, string(b))
	}
}
