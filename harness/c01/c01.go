// Package c01: correspondence and oracle for C01 (parse.Parse / parse.ParseAs
// is total and lossless).
//
// op: parse <Kind> <ctx> <hex src> <printable>
//
//	Kind       node type handed to ParseAs (Chunk = parse.Parse)
//	ctx        ExprCtx for Compound / Indexing / Primary
//	printable  the non-ASCII code points decodable at some byte offset of src
//	           for which unicode.IsPrint holds (comma separated, "-" if none):
//	           the value of the model's IsPrint parameter on everything the
//	           parser can ask about.
//
// result: OK <pre-order tree dump> E <errors> | PANIC | TIMEOUT
package c01

import (
	"fmt"
	"sort"
	"strconv"
	"strings"
	"unicode"
	"unicode/utf8"

	"src.elv.sh/pkg/parse"
	"verifharness/common"
)

func init() { common.Register("C01", run) }

// Printable computes the <printable> field for a source.
func Printable(src string) string {
	set := map[rune]bool{}
	for i := 0; i < len(src); i++ {
		r, _ := utf8.DecodeRuneInString(src[i:])
		if r >= 0x80 && unicode.IsPrint(r) {
			set[r] = true
		}
	}
	if len(set) == 0 {
		return "-"
	}
	var l []int
	for r := range set {
		l = append(l, int(r))
	}
	sort.Ints(l)
	ss := make([]string, len(l))
	for i, x := range l {
		ss[i] = strconv.Itoa(x)
	}
	return strings.Join(ss, ",")
}

func newNode(kind string, ctx int) parse.Node {
	switch kind {
	case "Chunk":
		return &parse.Chunk{}
	case "Pipeline":
		return &parse.Pipeline{}
	case "Form":
		return &parse.Form{}
	case "Redir":
		return &parse.Redir{}
	case "Filter":
		return &parse.Filter{}
	case "Compound":
		return &parse.Compound{ExprCtx: parse.ExprCtx(ctx)}
	case "Indexing":
		return &parse.Indexing{ExprCtx: parse.ExprCtx(ctx)}
	case "Array":
		return &parse.Array{}
	case "Primary":
		return &parse.Primary{ExprCtx: parse.ExprCtx(ctx)}
	case "MapPair":
		return &parse.MapPair{}
	}
	panic("bad kind " + kind)
}

// doParse runs the real parser.
func doParse(f []string) (src string, root parse.Node, errs []*parse.Error) {
	ctx, _ := strconv.Atoi(f[2])
	src = common.Unhex(f[3])
	if f[1] == "Chunk" {
		tree, err := parse.Parse(parse.Source{Name: "c01", Code: src}, parse.Config{})
		return src, tree.Root, parse.UnpackErrors(err)
	}
	root = newNode(f[1], ctx)
	err := parse.ParseAs(parse.Source{Name: "c01", Code: src}, root, parse.Config{})
	return src, root, parse.UnpackErrors(err)
}

func b2s(b bool) string {
	if b {
		return "1"
	}
	return "0"
}

func kindName(n parse.Node) string {
	switch n.(type) {
	case *parse.Chunk:
		return "Chunk"
	case *parse.Pipeline:
		return "Pipeline"
	case *parse.Form:
		return "Form"
	case *parse.Redir:
		return "Redir"
	case *parse.Filter:
		return "Filter"
	case *parse.Compound:
		return "Compound"
	case *parse.Indexing:
		return "Indexing"
	case *parse.Array:
		return "Array"
	case *parse.Primary:
		return "Primary"
	case *parse.MapPair:
		return "MapPair"
	case *parse.Sep:
		return "Sep"
	}
	return fmt.Sprintf("%T", n)
}

func sem(n parse.Node) string {
	switch n := n.(type) {
	case *parse.Chunk:
		return fmt.Sprintf("pipelines=%d", len(n.Pipelines))
	case *parse.Pipeline:
		return fmt.Sprintf("bg=%s,forms=%d", b2s(n.Background), len(n.Forms))
	case *parse.Form:
		return fmt.Sprintf("head=%s,args=%d,opts=%d,redirs=%d", b2s(n.Head != nil), len(n.Args), len(n.Opts), len(n.Redirs))
	case *parse.Redir:
		return fmt.Sprintf("mode=%d,fd=%s,left=%s,right=%s", int(n.Mode), b2s(n.RightIsFd), b2s(n.Left != nil), b2s(n.Right != nil))
	case *parse.Filter:
		return fmt.Sprintf("args=%d,opts=%d", len(n.Args), len(n.Opts))
	case *parse.Compound:
		return fmt.Sprintf("ctx=%d,idx=%d", int(n.ExprCtx), len(n.Indexings))
	case *parse.Indexing:
		return fmt.Sprintf("ctx=%d,head=%s,indices=%d", int(n.ExprCtx), b2s(n.Head != nil), len(n.Indices))
	case *parse.Array:
		return fmt.Sprintf("compounds=%d", len(n.Compounds))
	case *parse.Primary:
		return fmt.Sprintf("ctx=%d,type=%d,value=%s,elems=%d,pairs=%d,braced=%d,chunk=%s", int(n.ExprCtx), int(n.Type),
			common.Hex(n.Value), len(n.Elements), len(n.MapPairs), len(n.Braced), b2s(n.Chunk != nil))
	case *parse.MapPair:
		return fmt.Sprintf("key=%s,value=%s", b2s(n.Key != nil), b2s(n.Value != nil))
	case *parse.Sep:
		return "-"
	}
	return "?"
}

func dump(sb *strings.Builder, src string, n parse.Node) {
	r := n.Range()
	text := parse.SourceText(n)
	tcol := common.Hex(text)
	if 0 <= r.From && r.From <= r.To && r.To <= len(src) && src[r.From:r.To] == text {
		tcol = "="
	}
	fmt.Fprintf(sb, "(%s %d %d %s %s", kindName(n), r.From, r.To, tcol, sem(n))
	for _, ch := range parse.Children(n) {
		sb.WriteByte(' ')
		dump(sb, src, ch)
	}
	sb.WriteByte(')')
}

func msgID(m string) string {
	const p = "unexpected rune "
	if strings.HasPrefix(m, p) {
		s, err := strconv.Unquote(m[len(p):])
		if err == nil {
			r, _ := utf8.DecodeRuneInString(s)
			return "U" + strconv.Itoa(int(r))
		}
	}
	return common.Hex(m)
}

func impl(_ any, f []string) string {
	src, root, errs := doParse(f)
	var sb strings.Builder
	sb.WriteString("OK ")
	dump(&sb, src, root)
	sb.WriteString(" E")
	for _, e := range errs {
		fmt.Fprintf(&sb, " %d:%d:%s:%s", e.Context.From, e.Context.To, b2s(e.Partial), msgID(e.Message))
	}
	return sb.String()
}

// ---- oracle: the property evaluated on the real tree ---------------------------

type fail struct{ class, detail string }

func summary(n parse.Node) string {
	r := n.Range()
	return fmt.Sprintf("%s[%d,%d)", kindName(n), r.From, r.To)
}

// walk checks (b) and (d) below n and appends the leaf texts.
func walk(src string, n parse.Node, leaves *strings.Builder, out *[]fail) {
	r := n.Range()
	if !(0 <= r.From && r.From <= r.To && r.To <= len(src)) {
		*out = append(*out, fail{"node-range", summary(n) + " outside the source of length " + strconv.Itoa(len(src))})
		return
	}
	if parse.SourceText(n) != src[r.From:r.To] {
		cls := "node-text"
		if rd, ok := n.(*parse.Redir); ok && rd.Left != nil {
			cls = "node-text-redir-with-left"
		}
		*out = append(*out, fail{cls, fmt.Sprintf("%s has text %q, the source there is %q", summary(n), parse.SourceText(n), src[r.From:r.To])})
	}
	ch := parse.Children(n)
	if len(ch) == 0 {
		leaves.WriteString(parse.SourceText(n))
		return
	}
	for i, c := range ch {
		if parse.Parent(c) != n {
			*out = append(*out, fail{"parent-link", fmt.Sprintf("child %d of %s", i, summary(n))})
		}
	}
	if ch[0].Range().From != r.From {
		*out = append(*out, fail{"children-gap", "before first child of " + summary(n)})
	}
	if ch[len(ch)-1].Range().To != r.To {
		*out = append(*out, fail{"children-gap", "after last child of " + summary(n)})
	}
	for i := 0; i+1 < len(ch); i++ {
		if ch[i].Range().To != ch[i+1].Range().From {
			*out = append(*out, fail{"children-gap", fmt.Sprintf("between child %d and %d of %s", i, i+1, summary(n))})
		}
	}
	for _, c := range ch {
		walk(src, c, leaves, out)
	}
}

func oracle(_ any, f []string, out string) (string, string) {
	if out == "PANIC" || out == "TIMEOUT" {
		return "crash", out
	}
	src, root, errs := doParse(f)
	var fails []fail
	// (e) every error is positioned inside the source
	for _, e := range errs {
		if !(0 <= e.Context.From && e.Context.From <= e.Context.To && e.Context.To <= len(src)) {
			fails = append(fails, fail{"error-range", fmt.Sprintf("[%d,%d) %s", e.Context.From, e.Context.To, e.Message)})
		}
	}
	// (b), (d)
	var leaves strings.Builder
	walk(src, root, &leaves, &fails)
	// (c) the leaves give back the text; text after the root is not in the tree
	// only when parsing stopped there, and then it is reported (parser.done).
	rr := root.Range()
	if len(fails) == 0 {
		if rr.From != 0 {
			fails = append(fails, fail{"leaves-concat", "root starts at " + strconv.Itoa(rr.From)})
		} else if leaves.String() != src[:rr.To] {
			fails = append(fails, fail{"leaves-concat", fmt.Sprintf("leaves %q, source %q", leaves.String(), src[:rr.To])})
		}
		if rr.To != len(src) {
			reported := false
			for _, e := range errs {
				if e.Context.From == rr.To && e.Context.To > rr.To && strings.HasPrefix(e.Message, "unexpected rune ") {
					reported = true
				}
			}
			if !reported {
				fails = append(fails, fail{"unparsed-tail-unreported", fmt.Sprintf("tree ends at %d of %d and no error points there", rr.To, len(src))})
			}
		}
	}
	if len(fails) == 0 {
		return "", ""
	}
	return fails[0].class, fails[0].detail
}

// ---- tags ----------------------------------------------------------------------

func tag(f []string, out string) string {
	if !strings.HasPrefix(out, "OK ") {
		return "crash"
	}
	src := common.Unhex(f[3])
	var t []string
	if f[1] != "Chunk" {
		t = append(t, "as-"+f[1])
	}
	if !utf8.ValidString(src) {
		t = append(t, "invalid-utf8")
	}
	i := strings.LastIndex(out, " E")
	if out[i:] == " E" {
		t = append(t, "no-error")
	} else {
		t = append(t, "errors")
		if strings.Contains(out[i:], ":U") {
			t = append(t, "unparsed-tail")
		}
	}
	if len(t) == 1 && t[0] == "no-error" && len(src) == 0 {
		return ""
	}
	return strings.Join(t, "+")
}

// features counts node kinds / primary types / error messages over the run
// (reported under "extra" so dead branches of the generator are visible).
type features struct {
	counts map[string]int
}

func (ft *features) note(out string) {
	if !strings.HasPrefix(out, "OK ") {
		return
	}
	i := strings.LastIndex(out, " E")
	tree, errs := out[3:i], out[i+2:]
	for _, w := range strings.Split(tree, "(")[1:] {
		fs := strings.Fields(w)
		if len(fs) == 0 {
			continue
		}
		k := fs[0]
		ft.counts["node:"+k]++
		if len(fs) > 4 {
			semc := strings.TrimRight(fs[4], ")")
			switch k {
			case "Primary":
				for _, kv := range strings.Split(semc, ",") {
					if strings.HasPrefix(kv, "type=") || strings.HasPrefix(kv, "ctx=") {
						ft.counts["primary:"+kv]++
					}
				}
			case "Redir":
				ft.counts["redir:"+semc]++
			case "Pipeline":
				if strings.HasPrefix(semc, "bg=1") {
					ft.counts["pipeline:background"]++
				}
			}
			if fs[3] != "=" {
				ft.counts["text-differs:"+k]++
			}
		}
	}
	for _, e := range strings.Fields(errs) {
		p := strings.SplitN(e, ":", 4)
		if len(p) == 4 {
			m := p[3]
			if strings.HasPrefix(m, "U") {
				m = "unexpected rune"
			} else {
				m = common.Unhex(m)
			}
			ft.counts["error:"+m]++
			if p[2] == "1" {
				ft.counts["error-partial"]++
			}
		}
	}
}

func run(c *common.Ctx) error {
	ft := &features{counts: map[string]int{}}
	s := &common.Std{
		Rule: "sources: parse_test.go table + fuzz seeds (corpus); every string of ≤2 symbols over the full symbol alphabet and ≤3 over the core alphabet; " +
			"grammar-directed programs (all node kinds, nesting ≤ 6); byte mutations of them (truncate, insert/replace/delete, splice invalid UTF-8, ^ and \\ and $ before EOF/CR/LF); " +
			"random strings over a metacharacter-heavy alphabet; the same through ParseAs with every node type and ExprCtx. Non-trivial = non-empty source; distinct by op line",
		ExhaustiveNote: "all strings of ≤2 symbols over the full alphabet and ≤3 over the core alphabet, as Chunk",
		Gen:            gen,
		Impl: func(st any, f []string) string {
			out := impl(st, f)
			ft.note(out)
			return out
		},
		Oracle: oracle,
		Tag:    tag,
	}
	c.Extra = map[string]any{"feature_counts": ft.counts}
	return s.Run(c)
}
