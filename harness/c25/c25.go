// Package c25: fault enumeration, correspondence and oracle for C25 (the
// history store survives a process kill at any point).
//
// An EXPERIMENT is a sequence of lives of a child process (this binary,
// C25_CHILD=1, see child.go) on one database file plus a continuation:
//
//	reset
//	round <mode> <phase> <ops> <a> <acks> <dump>     (one per life)
//	cont  <ops> <results>
//
// <mode> says how the life ended: `none` (ran to completion), `sys:N:name:m`
// (SIGKILL injected by strace on entering the N-th write/pwrite64/fsync/
// fdatasync/ftruncate call of the child = the m-th call of syscall `name`),
// `time:µs` / `time0:µs` (SIGKILL sent by the parent that long after the child
// reported the store open / after starting the child).
// The rest of a `round` line is what was OBSERVED: how far the child got
// (<phase>: open/ops/done), the <a> acknowledgement lines that came out of
// its stdout with their results, and what store.NewStore + reading
// everything back found afterwards (<dump>).  The experiments are run by the
// generator; a replay runs them again.
//
//	Impl   replays the attempted operations on a second real store that is
//	       never killed and answers with the least prefix length j ≥ a whose
//	       state reads back as <dump> (and whether the acknowledged results
//	       and the results of the continuation are those of that store);
//	driver (Lean model, ElvModel/C25) answers with the `progress` of the first
//	       of ITS crash points that explains the observation;
//	Oracle evaluates the property with an independent Go reference of the
//	       sequential store: reopen succeeded, <dump> is the state after some
//	       prefix containing every acknowledged operation, and every number
//	       handed out later exceeds every acknowledged one.
package c25

import (
	"bufio"
	"bytes"
	"fmt"
	"os"
	"os/exec"
	"path/filepath"
	"runtime"
	"strconv"
	"strings"
	"sync"
	"syscall"
	"time"

	"src.elv.sh/pkg/store"
	"verifharness/common"
)

func init() { common.Register("C25", run) }

const traceSet = "write,pwrite64,fsync,fdatasync,ftruncate"

// ------------------------------------------------------------- experiments

type round struct {
	mode string   // none | sys:N:name:m | time:µs | time0:µs
	ops  []string // C24 line syntax with blanks instead of tabs
}

type experiment struct {
	rounds []round
	cont   []string
}

type env struct {
	root    string // scratch directory for database files
	self    string // this binary
	strace  string // "" when unavailable
	mu      sync.Mutex
	n       int
	runs    int
	straced int
	// timing of the last life (used once, for calibration, before anything runs in parallel)
	lastReady, lastTotal time.Duration
	readyUs, perOpUs     int // calibrated: start → store open, one operation
}

func (e *env) newDir() string {
	e.mu.Lock()
	e.n++
	d := filepath.Join(e.root, fmt.Sprintf("x%d", e.n))
	e.mu.Unlock()
	os.MkdirAll(d, 0o755)
	return d
}

func joinOps(ops []string) string {
	if len(ops) == 0 {
		return "~"
	}
	return strings.Join(ops, ";")
}

func splitOps(s string) []string {
	if s == "~" {
		return nil
	}
	return strings.Split(s, ";")
}

func joinRes(rs []string) string {
	if len(rs) == 0 {
		return "~"
	}
	return strings.Join(rs, "|")
}

func splitRes(s string) []string {
	if s == "~" {
		return nil
	}
	return strings.Split(s, "|")
}

type lifeObs struct {
	phase  string
	acks   []string
	stderr string
}

// childCmd builds the command for one life of the child.
func (e *env) childCmd(db, opsFile, mode, straceLog string) *exec.Cmd {
	var cmd *exec.Cmd
	switch {
	case strings.HasPrefix(mode, "sys:") && e.strace != "":
		p := strings.Split(mode, ":")
		cmd = exec.Command(e.strace, "-f", "-e", "signal=none", "-e", "trace="+traceSet,
			"-e", "inject="+p[2]+":signal=KILL:when="+p[3], "-o", "/dev/null", e.self)
	case mode == "trace":
		cmd = exec.Command(e.strace, "-f", "-e", "signal=none", "-e", "trace="+traceSet, "-o", straceLog, e.self)
	default:
		cmd = exec.Command(e.self)
	}
	cmd.Env = append(os.Environ(), "C25_CHILD=1", "C25_DB="+db, "C25_OPS="+opsFile, "GOMAXPROCS=1")
	// the child (and strace with it) dies with its own process group, never ours
	cmd.SysProcAttr = &syscall.SysProcAttr{Setpgid: true}
	return cmd
}

// live runs one life of the child on db and reports what came out of it.
func (e *env) live(db string, r round, mode, straceLog string) lifeObs {
	opsFile := db + ".ops"
	var sb strings.Builder
	for _, op := range r.ops {
		sb.WriteString(strings.ReplaceAll(op, " ", "\t") + "\n")
	}
	os.WriteFile(opsFile, []byte(sb.String()), 0o644)
	cmd := e.childCmd(db, opsFile, mode, straceLog)
	var out, errb bytes.Buffer
	cmd.Stderr = &errb
	stdout, err := cmd.StdoutPipe()
	if err != nil {
		return lifeObs{phase: "start-failed", stderr: err.Error()}
	}
	e.mu.Lock()
	e.runs++
	if cmd.Path == e.strace && e.strace != "" {
		e.straced++
	}
	e.mu.Unlock()
	t0 := time.Now()
	if err := cmd.Start(); err != nil {
		return lifeObs{phase: "start-failed", stderr: err.Error()}
	}
	done, ready, readDone := make(chan struct{}), make(chan struct{}), make(chan struct{})
	var tReady time.Duration
	go func() {
		defer close(readDone)
		buf := make([]byte, 1<<16)
		seen := false
		for {
			n, err := stdout.Read(buf)
			out.Write(buf[:n])
			if !seen && bytes.Contains(out.Bytes(), []byte("ready\n")) {
				seen = true
				tReady = time.Since(t0)
				close(ready)
			}
			if err != nil {
				return
			}
		}
	}()
	kill := func() { syscall.Kill(-cmd.Process.Pid, syscall.SIGKILL) }
	switch {
	case strings.HasPrefix(mode, "time0:"): // that long after starting the process
		us, _ := strconv.Atoi(mode[6:])
		go func() {
			select {
			case <-time.After(time.Duration(us) * time.Microsecond):
				kill()
			case <-done:
			}
		}()
	case strings.HasPrefix(mode, "time:"): // that long after the child has opened the store
		us, _ := strconv.Atoi(mode[5:])
		go func() {
			select {
			case <-ready:
				select {
				case <-time.After(time.Duration(us) * time.Microsecond):
					kill()
				case <-done:
				}
			case <-done:
			}
		}()
	}
	// a life never takes long; a hang is a failure of its own
	go func() {
		select {
		case <-time.After(120 * time.Second):
			kill()
		case <-done:
		}
	}()
	<-readDone
	cmd.Wait()
	close(done)
	// nothing of that process group may survive into the reopen
	kill()
	e.mu.Lock()
	e.lastReady, e.lastTotal = tReady, time.Since(t0)
	e.mu.Unlock()
	obs := lifeObs{phase: "open", stderr: errb.String()}
	sc := bufio.NewScanner(bytes.NewReader(out.Bytes()))
	sc.Buffer(make([]byte, 1<<20), 1<<26)
	complete := strings.HasSuffix(out.String(), "\n")
	var lines []string
	for sc.Scan() {
		lines = append(lines, sc.Text())
	}
	if !complete && len(lines) > 0 {
		lines = lines[:len(lines)-1] // a torn last line is no acknowledgement
	}
	for _, l := range lines {
		switch {
		case l == "ready":
			obs.phase = "ops"
		case l == "done":
			obs.phase = "done"
		case strings.HasPrefix(l, "openfail"):
			obs.phase = "openfail"
			obs.stderr += l
		case strings.HasPrefix(l, "ack "):
			p := strings.SplitN(l, " ", 3)
			if len(p) == 3 && p[1] == strconv.Itoa(len(obs.acks)) {
				obs.acks = append(obs.acks, p[2])
			}
		}
	}
	return obs
}

// reopen opens the database the way elvish does and reads everything back.
func reopen(db string) (store.DBStore, string) {
	var st store.DBStore
	var err error
	out, pmsg := common.Guard(30*time.Second, func() string {
		st, err = store.NewStore(db)
		if err != nil {
			return "REOPEN-FAILED " + strings.NewReplacer("\n", " ", "\t", " ", "|", "/").Replace(err.Error())
		}
		return dump(st)
	})
	if out == "PANIC" || out == "TIMEOUT" {
		return nil, "REOPEN-FAILED " + out + " " + strings.NewReplacer("\n", " ", "\t", " ", "|", "/").Replace(pmsg)
	}
	if err != nil {
		return nil, out
	}
	return st, out
}

// runExperiment executes all lives and the continuation; returns the op lines.
func (e *env) runExperiment(x experiment) []string {
	dir := e.newDir()
	defer os.RemoveAll(dir)
	db := filepath.Join(dir, "db")
	lines := []string{"reset"}
	var st store.DBStore
	for i, r := range x.rounds {
		obs := e.live(db, r, r.mode, "")
		var d string
		st, d = reopen(db)
		lines = append(lines, strings.Join([]string{"round", r.mode, obs.phase, joinOps(r.ops),
			strconv.Itoa(len(obs.acks)), joinRes(obs.acks), d}, "\t"))
		if st == nil {
			return lines
		}
		if i < len(x.rounds)-1 {
			st.Close()
		}
	}
	if st == nil {
		st, _ = reopen(db)
		if st == nil {
			return lines
		}
	}
	var res []string
	for _, op := range x.cont {
		op := op
		out, _ := common.Guard(30*time.Second, func() string { return execOp(st, strings.Split(op, " ")) })
		res = append(res, out)
	}
	st.Close()
	lines = append(lines, strings.Join([]string{"cont", joinOps(x.cont), joinRes(res)}, "\t"))
	return lines
}

type sysCall struct {
	name string
	m    int // ordinal among the calls of this name made by the thread
	ack  bool
}

// enumerate runs the lives before `upto` as specified and then traces life
// `upto` to the end: the write/sync system calls of that life, in order.
func (e *env) enumerate(x experiment, upto int) ([]sysCall, error) {
	dir := e.newDir()
	defer os.RemoveAll(dir)
	db := filepath.Join(dir, "db")
	for i := 0; i < upto; i++ {
		e.live(db, x.rounds[i], x.rounds[i].mode, "")
		st, d := reopen(db)
		if st == nil {
			return nil, fmt.Errorf("reopen failed while preparing the enumeration: %s", d)
		}
		st.Close()
	}
	log := filepath.Join(dir, "strace.log")
	obs := e.live(db, x.rounds[upto], "trace", log)
	if obs.phase != "done" {
		return nil, fmt.Errorf("traced child did not finish (phase %s): %s", obs.phase, obs.stderr)
	}
	data, err := os.ReadFile(log)
	if err != nil {
		return nil, err
	}
	var calls []sysCall
	count := map[string]int{}
	mainPid := ""
	others := 0
	for _, l := range strings.Split(string(data), "\n") {
		sp := strings.IndexByte(l, ' ')
		if sp < 0 {
			continue
		}
		pid, rest := l[:sp], strings.TrimLeft(l[sp:], " ")
		par := strings.IndexByte(rest, '(')
		if par < 0 {
			continue
		}
		name := rest[:par]
		if !strings.Contains(","+traceSet+",", ","+name+",") {
			continue
		}
		if mainPid == "" {
			mainPid = pid
		}
		if pid != mainPid {
			others++
			continue
		}
		count[name]++
		calls = append(calls, sysCall{name: name, m: count[name], ack: name == "write"})
	}
	if others > 0 {
		return nil, fmt.Errorf("%d write/sync calls were made by other threads than %s: numbering is not stable", others, mainPid)
	}
	return calls, nil
}

// --------------------------------------------------------------- generator

var texts = []string{"echo a", "ls", "cd /tmp", "e", "", "é", "put 1\nput 2", "\x00\xff", "git status"}
var dirPaths = []string{"/", "/a", "/tmp", "/usr/local/bin", "~", "é", "/a/b"}
var factors = []float64{1, 1, 0.5, 2, 3.7}
var rawScores = []float64{10, 5, 9.86, 123.456, 1e-3}

type histGen struct {
	r     *common.Rand
	last  int // numbers issued if every op so far took effect
	live  []int
	paths []string
}

func (g *histGen) op() string {
	r := g.r
	switch x := r.Intn(100); {
	case x < 34:
		g.last++
		g.live = append(g.live, g.last)
		return "add " + common.Hex(common.Pick(r, texts))
	case x < 46:
		n := g.last + 1 + r.Intn(3)
		if len(g.live) > 0 && r.Chance(4, 5) {
			k := r.Intn(len(g.live))
			n = g.live[k]
			g.live = append(g.live[:k], g.live[k+1:]...)
		} else if r.Chance(1, 4) {
			n = -1
		}
		return "del " + strconv.Itoa(n)
	case x < 66:
		p := common.Pick(r, dirPaths)
		if r.Chance(1, 25) {
			p = "" // ErrKeyRequired: the Update is rolled back
		}
		g.paths = append(g.paths, p)
		return "adddir " + common.Hex(p) + " " + bits(common.Pick(r, factors))
	case x < 74:
		p := common.Pick(r, dirPaths)
		g.paths = append(g.paths, p)
		return "addraw " + common.Hex(p) + " " + bits(common.Pick(r, rawScores))
	case x < 82:
		p := common.Pick(r, dirPaths)
		if len(g.paths) > 0 && r.Chance(3, 4) {
			p = common.Pick(r, g.paths)
		}
		return "deldir " + common.Hex(p)
	case x < 88:
		return "nseq"
	case x < 94:
		return "list 0 -1"
	}
	return "dirs"
}

func (g *histGen) ops(n int) []string {
	out := make([]string, n)
	for i := range out {
		out[i] = g.op()
	}
	return out
}

var closing = []string{"nseq", "list 0 -1", "dirs"}

func (g *histGen) cont() []string {
	out := []string{"add " + common.Hex("after reopen"), "nseq"}
	out = append(out, g.ops(g.r.Range(1, 4))...)
	out = append(out, "add "+common.Hex("last"))
	return append(out, closing...)
}

// the first history of every run: each mutator once, ≤ 60 kill points
var fixedHistory = []string{
	"add " + common.Hex("echo a"), "adddir " + common.Hex("/tmp") + " " + bits(1), "add " + common.Hex("ls"),
	"del 1", "addraw " + common.Hex("/a") + " " + bits(9.86), "deldir " + common.Hex("/tmp"),
	"adddir " + common.Hex("/a") + " " + bits(2), "nseq",
}
var fixedCont = append([]string{"add " + common.Hex("after reopen"), "del 2", "adddir " + common.Hex("/") + " " + bits(1),
	"add " + common.Hex("last")}, closing...)

func modeOf(i int, c sysCall) string { return fmt.Sprintf("sys:%d:%s:%d", i+1, c.name, c.m) }

type genStats struct {
	enumerated, sweptHistories, sysKills, timeKills, noKills int
	budgetExhausted                                          bool
	enumErrors                                               []string
}

// generate plans and runs the experiments, emitting their lines in a fixed order.
func generate(c *common.Ctx, e *env, emit func(...string)) *genStats {
	gs := &genStats{}
	start := time.Now()
	budget := time.Duration(c.Scale(40, 600)) * time.Second
	if s := os.Getenv("C25_BUDGET_S"); s != "" {
		if n, err := strconv.Atoi(s); err == nil {
			budget = time.Duration(n) * time.Second
		}
	}
	workers := runtime.NumCPU() / 2
	if workers < 2 {
		workers = 2
	}
	if workers > 8 {
		workers = 8
	}
	runAll := func(xs []experiment) {
		res := make([][]string, len(xs))
		var wg sync.WaitGroup
		sem := make(chan struct{}, workers)
		for i := range xs {
			wg.Add(1)
			sem <- struct{}{}
			go func(i int) {
				defer wg.Done()
				defer func() { <-sem }()
				res[i] = e.runExperiment(xs[i])
			}(i)
		}
		wg.Wait()
		for _, ls := range res {
			for _, l := range ls {
				emit(strings.Split(l, "\t")...)
			}
		}
	}
	// sweep: every kill point of life `which` of x (the lives before it as specified)
	sweep := func(x experiment, which int) {
		calls, err := e.enumerate(x, which)
		if err != nil {
			// no silent loss of coverage: the failed enumeration is an op of its own, judged by the oracle
			gs.enumErrors = append(gs.enumErrors, err.Error())
			emit("enum-error", strings.NewReplacer("\t", " ", "\n", " ").Replace(err.Error()))
			return
		}
		gs.enumerated += len(calls)
		var xs []experiment
		for i, sc := range calls {
			y := experiment{cont: x.cont}
			y.rounds = append(y.rounds, x.rounds...)
			y.rounds[which] = round{mode: modeOf(i, sc), ops: x.rounds[which].ops}
			xs = append(xs, y)
		}
		runAll(xs)
		gs.sysKills += len(xs)
		gs.sweptHistories++
	}
	r := c.Rand
	if e.strace != "" {
		// 1. the fixed short history, one life, every kill point
		sweep(experiment{rounds: []round{{mode: "none", ops: fixedHistory}}, cont: fixedCont}, 0)
	}
	// 2. kills at random times (no tracer): longer histories, one to three lives
	nTime := c.Scale(40, 1000)
	{
		// calibration: how long does the child take to open the store, and per operation?
		{
			g := &histGen{r: common.NewRand(c.Seed + 77)}
			dir := e.newDir()
			obs := e.live(filepath.Join(dir, "db"), round{mode: "none", ops: g.ops(200)}, "none", "")
			os.RemoveAll(dir)
			e.readyUs, e.perOpUs = 5000, 100
			if obs.phase == "done" && e.lastReady > 0 {
				e.readyUs = int(e.lastReady / time.Microsecond)
				e.perOpUs = int((e.lastTotal-e.lastReady)/time.Microsecond)/200 + 1
			}
		}
		var xs []experiment
		for i := 0; i < nTime; i++ {
			g := &histGen{r: r}
			var x experiment
			for k := r.Range(1, 3); k > 0; k-- {
				// the delay is spread over the life of the child: start-up, open, operations
				n := r.Range(20, 120)
				mode := fmt.Sprintf("time:%d", r.Range(0, n*e.perOpUs*23/20))
				if r.Chance(1, 6) {
					mode = fmt.Sprintf("time0:%d", r.Range(e.readyUs/2, e.readyUs*6/5))
				}
				x.rounds = append(x.rounds, round{mode: mode, ops: g.ops(n)})
			}
			x.cont = g.cont()
			xs = append(xs, x)
		}
		// runs without a kill: the whole history must be there
		for i := 0; i < c.Scale(2, 20); i++ {
			g := &histGen{r: r}
			x := experiment{rounds: []round{{mode: "none", ops: g.ops(r.Range(5, 40))}, {mode: "none", ops: g.ops(r.Range(1, 20))}}, cont: g.cont()}
			xs = append(xs, x)
			gs.noKills++
		}
		runAll(xs)
		gs.timeKills += nTime
	}
	// 3. more sweeps while the budget lasts: random histories, the swept life
	//    is the first or the second (the first then killed at a random point)
	maxSweeps := c.Scale(6, 400)
	start = time.Now() // the budget is for these sweeps alone
	for s := 0; s < maxSweeps && e.strace != ""; s++ {
		if time.Since(start) > budget {
			gs.budgetExhausted = true
			break
		}
		g := &histGen{r: r}
		if s%2 == 0 {
			first := round{mode: "none", ops: g.ops(r.Range(2, 5))}
			x := experiment{rounds: []round{first, {mode: "none", ops: g.ops(r.Range(2, 6))}}}
			x.cont = g.cont()
			// kill the first life at a random one of its points
			if calls, err := e.enumerate(x, 0); err == nil && len(calls) > 0 {
				gs.enumerated += len(calls)
				k := r.Intn(len(calls))
				x.rounds[0].mode = modeOf(k, calls[k])
			}
			sweep(x, 1)
		} else {
			x := experiment{rounds: []round{{mode: "none", ops: g.ops(r.Range(3, 9))}}, cont: g.cont()}
			sweep(x, 0)
		}
	}
	return gs
}

// -------------------------------------------------------------------- run

type state struct {
	env *env
	// implementation side: a real store that is never killed
	refPath   string
	ref       store.DBStore
	refBroken bool
	nref      int
	// oracle side
	or *oracleState
}

func (s *state) resetRef() {
	if s.ref != nil {
		s.ref.Close()
		os.Remove(s.refPath)
	}
	s.nref++
	s.refPath = filepath.Join(s.env.root, fmt.Sprintf("ref%d", s.nref))
	var err error
	s.ref, err = store.NewStore(s.refPath)
	if err != nil {
		panic("cannot open reference store: " + err.Error())
	}
	s.refBroken = false
}

func impl(sta any, f []string) string {
	s := sta.(*state)
	switch f[0] {
	case "reset":
		s.resetRef()
		return "ok"
	case "facts":
		return extractFacts().line()
	case "round":
		if len(f) != 7 {
			return "bad-op"
		}
		if s.refBroken {
			return "SKIP"
		}
		ops, a, ackd, d := splitOps(f[3]), atoi(f[4]), splitRes(f[5]), f[6]
		acksOK := "ok"
		for j := 0; j <= len(ops); j++ {
			if j >= a && dump(s.ref) == d {
				return fmt.Sprintf("j=%d acks=%s", j, acksOK)
			}
			if j == len(ops) {
				break
			}
			res := execOp(s.ref, strings.Split(ops[j], " "))
			if j < a && j < len(ackd) && res != ackd[j] && acksOK == "ok" {
				acksOK = fmt.Sprintf("bad@%d", j)
			}
		}
		s.refBroken = true
		return "j=NONE"
	case "cont":
		if len(f) != 3 {
			return "bad-op"
		}
		if s.refBroken {
			return "SKIP"
		}
		ops, obs := splitOps(f[1]), splitRes(f[2])
		var res []string
		for _, op := range ops {
			res = append(res, execOp(s.ref, strings.Split(op, " ")))
		}
		same := "same"
		for i := 0; i < len(res) || i < len(obs); i++ {
			if i >= len(res) || i >= len(obs) || res[i] != obs[i] {
				same = fmt.Sprintf("differ@%d", i)
				break
			}
		}
		return joinRes(res) + " obs=" + same
	}
	return "bad-op"
}

func tag(f []string, out string) string {
	switch f[0] {
	case "facts":
		return "structure-facts"
	case "cont":
		return "continue-after-reopen"
	case "round":
		if len(f) != 7 {
			return ""
		}
		kind := strings.SplitN(f[1], ":", 2)[0]
		if kind == "sys" {
			p := strings.Split(f[1], ":")
			kind = "kill@" + p[2]
		}
		a := atoi(f[4])
		outcome := "not-explained"
		var j int
		if _, err := fmt.Sscanf(out, "j=%d", &j); err == nil {
			switch {
			case f[2] == "done":
				outcome = "survived"
			case f[2] == "open":
				outcome = "during-open"
			case j == a+1:
				outcome = "committed-unacknowledged"
			case j == a:
				outcome = "between-commits"
			default:
				outcome = "beyond-next"
			}
		}
		return kind + "/" + outcome
	}
	return ""
}

func straceUsable() string {
	p, err := exec.LookPath("strace")
	if err != nil {
		return ""
	}
	cmd := exec.Command(p, "-f", "-e", "signal=none", "-e", "trace=write", "-e", "inject=write:signal=KILL:when=1",
		"-o", "/dev/null", "/bin/echo", "x")
	out, _ := cmd.Output()
	// the injected SIGKILL must have prevented (or at least followed) the write: the child must have died by signal
	if ee, ok := cmd.ProcessState.Sys().(syscall.WaitStatus); ok && (ee.Signaled() || ee.ExitStatus() == 137) {
		_ = out
		return p
	}
	return ""
}

func run(c *common.Ctx) error {
	base := ""
	if fi, err := os.Stat("/dev/shm"); err == nil && fi.IsDir() {
		base = "/dev/shm"
	}
	root, err := os.MkdirTemp(base, "verif-c25-db-")
	if err != nil {
		return err
	}
	defer os.RemoveAll(root)
	self, err := os.Executable()
	if err != nil {
		return err
	}
	e := &env{root: root, self: self, strace: straceUsable()}
	if os.Getenv("C25_NO_STRACE") != "" {
		e.strace = ""
	}
	st := &state{env: e, or: newOracleState()}
	defer func() {
		if st.ref != nil {
			st.ref.Close()
		}
	}()
	var gs *genStats
	if c.OpsIn != "" {
		// replay: run the recorded experiments AGAIN and judge the fresh observations
		fresh, err := rerun(e, c.OpsIn)
		if err != nil {
			return err
		}
		p := filepath.Join(c.Dir, "replay-fresh-ops.txt")
		if err := os.WriteFile(p, []byte(strings.Join(fresh, "\n")+"\n"), 0o644); err != nil {
			return err
		}
		c.OpsIn = p
	}
	s := &common.Std{
		Rule: "structure facts of pkg/store extracted from the source (go/ast); experiments = 1–3 lives of a child process on one " +
			"bbolt file (store.NewStore, /dev/shm) + continuation: (1) a fixed history using every mutator once, SIGKILL injected by " +
			"strace on entering EVERY write/pwrite64/fsync/fdatasync/ftruncate call of the child (open included); (2) kills at random " +
			"times, 20–120 ops per life; (3) further random histories swept completely (first or second life) while the budget lasts; " +
			"after every life: reopen, read everything back; non-trivial = every round/cont line; distinct by op line",
		ExhaustiveNote: "every write/sync system call of the swept life of each swept history (see kill_points_* in the evidence)",
		NewState:       func(c *common.Ctx) any { st.resetRef(); return st },
		Gen: func(c *common.Ctx, emit func(...string)) {
			emit("reset")
			emit("facts")
			gs = generate(c, e, emit)
			c.Extra["kill_points_enumerated"] = gs.enumerated
			c.Extra["kill_points_run_by_syscall_injection"] = gs.sysKills
			c.Extra["swept_lives"] = gs.sweptHistories
			c.Extra["random_time_kills"] = gs.timeKills
			c.Extra["experiments_without_kill"] = gs.noKills
			c.Extra["sweep_budget_exhausted"] = gs.budgetExhausted
			c.Extra["child_runs"] = e.runs
			c.Extra["child_runs_under_strace"] = e.straced
			if len(gs.enumErrors) > 0 {
				c.Extra["enumeration_errors"] = gs.enumErrors
			}
		},
		Impl:    impl,
		Oracle:  oracle,
		Tag:     tag,
		Timeout: 120 * time.Second,
	}
	c.Extra["strace"] = e.strace != ""
	err = s.Run(c)
	return err
}

// rerun parses recorded op lines into experiments, runs them again and
// returns fresh lines.  A kill at a random time is not reproducible exactly:
// it is repeated (same delay) until the oracle objects, at most 15 times.
func rerun(e *env, path string) ([]string, error) {
	data, err := os.ReadFile(path)
	if err != nil {
		return nil, err
	}
	var out []string
	var cur *experiment
	flush := func() {
		if cur == nil {
			return
		}
		if len(cur.rounds) == 0 {
			out = append(out, "reset")
			cur = nil
			return
		}
		tries := 1
		for _, r := range cur.rounds {
			if strings.HasPrefix(r.mode, "time") {
				tries = 15
			}
		}
		var lines []string
		for t := 0; t < tries; t++ {
			lines = e.runExperiment(*cur)
			if judge(lines) != "" {
				break
			}
		}
		out = append(out, lines...)
		cur = nil
	}
	for _, l := range strings.Split(string(data), "\n") {
		if l == "" {
			continue
		}
		f := strings.Split(l, "\t")
		switch f[0] {
		case "reset":
			flush()
			cur = &experiment{}
		case "round":
			if cur == nil {
				cur = &experiment{}
			}
			if len(f) >= 4 {
				cur.rounds = append(cur.rounds, round{mode: f[1], ops: splitOps(f[3])})
			}
		case "cont":
			if cur != nil && len(f) >= 2 {
				cur.cont = splitOps(f[1])
			}
		case "enum-error":
			// the recorded enumeration cannot be repeated (its experiment is not in the line):
			// probe the tracer again with the fixed history instead
			flush()
			x := experiment{rounds: []round{{mode: "none", ops: fixedHistory}}}
			if _, err := e.enumerate(x, 0); err != nil {
				out = append(out, "enum-error\t"+strings.NewReplacer("\t", " ", "\n", " ").Replace(err.Error()))
			}
		default: // facts
			flush()
			out = append(out, l)
		}
	}
	flush()
	return out, nil
}

// judge runs a fresh oracle over the lines of one experiment.
func judge(lines []string) string {
	st := &state{or: newOracleState()}
	for _, l := range lines {
		if cls, _ := oracle(st, strings.Split(l, "\t"), ""); cls != "" {
			return cls
		}
	}
	return ""
}
