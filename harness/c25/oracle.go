package c25

// The oracle: the property itself, evaluated on what the real code did, with
// the oracle's own sequential reference of the store (plain Go slices and
// maps, float64 arithmetic spelled out from the documented constants) —
// independent of the Lean model and of the second real store of `impl`.

import (
	"fmt"
	"sort"
	"strconv"
	"strings"

	"verifharness/common"
)

type refCmd struct {
	seq  int
	text string
}

type refState struct {
	counter int
	cmds    []refCmd
	dirs    map[string]float64
}

func newRefState() *refState { return &refState{dirs: map[string]float64{}} }

func (s *refState) clone() *refState {
	c := &refState{counter: s.counter, cmds: append([]refCmd(nil), s.cmds...), dirs: map[string]float64{}}
	for k, v := range s.dirs {
		c.dirs[k] = v
	}
	return c
}

// the stored form of a score: 7 significant digits
func stored(x float64) float64 {
	f, _ := strconv.ParseFloat(strconv.FormatFloat(x, 'E', 6, 64), 64)
	return f
}

func keyErr(k string) string {
	switch {
	case len(k) == 0:
		return "ERR keyrequired"
	case len(k) > 32768:
		return "ERR keytoolarge"
	}
	return ""
}

func (s *refState) listing(from, upto int) string {
	var out []string
	for _, c := range s.cmds {
		// a negative bound reads as "above every number" (uint64 conversion; documented: -1 = no upper bound)
		if from >= 0 && c.seq >= from && (upto < 0 || c.seq < upto) {
			out = append(out, strconv.Itoa(c.seq)+":"+common.Hex(c.text))
		}
	}
	if len(out) == 0 {
		return "-"
	}
	return strings.Join(out, ",")
}

func (s *refState) dirListing() string {
	type d struct {
		p string
		x float64
	}
	var ds []d
	for p, x := range s.dirs {
		ds = append(ds, d{p, x})
	}
	sort.Slice(ds, func(i, j int) bool {
		if ds[i].x != ds[j].x {
			return ds[i].x > ds[j].x
		}
		return ds[i].p < ds[j].p
	})
	if len(ds) == 0 {
		return "-"
	}
	out := make([]string, len(ds))
	for i, e := range ds {
		out[i] = common.Hex(e.p) + ":" + bits(e.x)
	}
	return strings.Join(out, ",")
}

// apply runs one operation on the reference and returns its result.
func (s *refState) apply(f []string) string {
	switch f[0] {
	case "add":
		s.counter++
		s.cmds = append(s.cmds, refCmd{s.counter, common.Unhex(f[1])})
		return strconv.Itoa(s.counter)
	case "del":
		n := atoi(f[1])
		for i, c := range s.cmds {
			if c.seq == n {
				s.cmds = append(s.cmds[:i:i], s.cmds[i+1:]...)
				break
			}
		}
		return "ok"
	case "get":
		n := atoi(f[1])
		for _, c := range s.cmds {
			if c.seq == n {
				return common.Hex(c.text)
			}
		}
		return "ERR nomatch"
	case "nseq":
		return strconv.Itoa(s.counter + 1)
	case "list":
		return s.listing(atoi(f[1]), atoi(f[2]))
	case "adddir":
		p := common.Unhex(f[1])
		if e := keyErr(p); e != "" {
			return e // the transaction is rolled back: no decay either
		}
		for k, x := range s.dirs {
			s.dirs[k] = stored(x * 0.986)
		}
		s.dirs[p] = stored(s.dirs[p] + 10*fbits(f[2]))
		return "ok"
	case "addraw":
		p := common.Unhex(f[1])
		if e := keyErr(p); e != "" {
			return e
		}
		s.dirs[p] = stored(fbits(f[2]))
		return "ok"
	case "deldir":
		delete(s.dirs, common.Unhex(f[1]))
		return "ok"
	case "dirs":
		return s.dirListing()
	}
	return "bad-op"
}

func (s *refState) dump() string {
	return strconv.Itoa(s.counter+1) + "|" + s.listing(0, -1) + "|" + s.dirListing()
}

type oracleState struct {
	cur      *refState // the state the current life started from
	broken   bool      // a failure was reported for this experiment already
	maxAcked int       // largest sequence number ever acknowledged in this experiment
}

func newOracleState() *oracleState { return &oracleState{cur: newRefState()} }

func oracle(sta any, f []string, _ string) (string, string) {
	o := sta.(*state).or
	switch f[0] {
	case "reset":
		*o = *newOracleState()
		return "", ""
	case "enum-error":
		return "kill-enumeration-failed", strings.Join(f[1:], " ")
	case "facts":
		if bad := extractFacts().violations(); len(bad) > 0 {
			return "store-structure", strings.Join(bad, "; ")
		}
		return "", ""
	case "round":
		if len(f) != 7 || o.broken {
			return "", ""
		}
		mode, phase, ops, a, ackd, d := f[1], f[2], splitOps(f[3]), atoi(f[4]), splitRes(f[5]), f[6]
		fail := func(class, detail string) (string, string) {
			o.broken = true
			return class, fmt.Sprintf("%s [life ended by %s in phase %s after %d acknowledgements of %d operations]", detail, mode, phase, a, len(ops))
		}
		if phase == "start-failed" {
			return fail("harness-child-start-failed", d)
		}
		if phase == "openfail" {
			return fail("reopen-failed", "store.NewStore failed in the next life of the process")
		}
		if strings.HasPrefix(d, "REOPEN-FAILED") {
			return fail("reopen-failed", d)
		}
		if strings.Contains(d, "ERR ") || strings.Contains(d, "PANIC") || strings.Contains(d, "TIMEOUT") {
			return fail("reopen-unreadable", "reading back after the reopen failed: "+d)
		}
		if mode == "none" && phase != "done" {
			return fail("harness-child-died", "a child that was not killed did not finish")
		}
		// the states after every prefix of the attempted operations
		s := o.cur.clone()
		states := []*refState{s.clone()}
		for _, op := range ops {
			s.apply(strings.Split(op, " "))
			states = append(states, s.clone())
		}
		best, lost := -1, -1
		for j, st := range states {
			if st.dump() == d {
				if j >= a && best < 0 {
					best = j
				}
				if j < a {
					lost = j
				}
			}
		}
		if best < 0 && lost >= 0 {
			return fail("acknowledged-op-lost", fmt.Sprintf("the reopened store is the state after %d operations, but %d were acknowledged (first lost: %q → %q)",
				lost, a, ops[lost], ackd[lost]))
		}
		if best < 0 {
			return fail("not-a-prefix", fmt.Sprintf("the reopened store %q is not the state after any prefix of the attempted operations (after the %d acknowledged: %q, after all %d: %q)",
				d, a, states[min(a, len(ops))].dump(), len(ops), states[len(ops)].dump()))
		}
		if phase == "done" && best != len(ops) {
			return fail("acknowledged-op-lost", "the child finished, yet the reopened store lacks operations")
		}
		// numbers acknowledged in this life against everything acknowledged in earlier lives
		prevMax := o.maxAcked
		for i := 0; i < a && i < len(ops); i++ {
			if strings.HasPrefix(ops[i], "add ") {
				n, err := strconv.Atoi(ackd[i])
				if err != nil {
					continue
				}
				if n <= prevMax {
					return fail("seq-not-above-acknowledged", fmt.Sprintf("AddCmd returned %d in a life after %d had been acknowledged", n, prevMax))
				}
				if n > o.maxAcked {
					o.maxAcked = n
				}
			}
		}
		o.cur = states[best]
		return "", ""
	case "cont":
		if len(f) != 3 || o.broken {
			return "", ""
		}
		ops, obs := splitOps(f[1]), splitRes(f[2])
		s := o.cur.clone()
		for i, op := range ops {
			want := s.apply(strings.Split(op, " "))
			if i >= len(obs) {
				o.broken = true
				return "continue-diverges", fmt.Sprintf("no result for continuation op %d %q", i, op)
			}
			if strings.HasPrefix(op, "add ") {
				if n, err := strconv.Atoi(obs[i]); err == nil && n <= o.maxAcked {
					o.broken = true
					return "seq-not-above-acknowledged", fmt.Sprintf("after reopening AddCmd returned %d, but %d had been acknowledged before the kill", n, o.maxAcked)
				}
			}
			if obs[i] != want {
				o.broken = true
				return "continue-diverges", fmt.Sprintf("continuation op %d %q returned %q, the sequential store says %q", i, op, obs[i], want)
			}
		}
		return "", ""
	}
	return "", ""
}
