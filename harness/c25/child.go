package c25

// The child: this same binary started with C25_CHILD=1.  It opens the
// database named by C25_DB through store.NewStore, runs the operations of the
// file C25_OPS (one per line, tab-separated fields, the op syntax of the C24
// harness) and ACKNOWLEDGES each completed operation with one line
// "ack <index> <result>\n" written to stdout by a single write(2).  The parent
// kills it somewhere on the way (SIGKILL injected by strace at the N-th
// write/pwrite64/fsync/fdatasync/ftruncate system call, or sent at a random
// time) and reads back what reached the database file.
//
// Everything runs on the main goroutine, which the Go runtime keeps locked to
// the main OS thread while package init functions run, so the system calls of
// the store are made by one thread in program order and their numbering is
// the same from run to run.

import (
	"fmt"
	"math"
	"os"
	"sort"
	"strconv"
	"strings"

	"src.elv.sh/pkg/store"
	"src.elv.sh/pkg/store/storedefs"
	"verifharness/common"
)

func init() {
	if os.Getenv("C25_CHILD") != "" {
		childMain()
		os.Exit(0)
	}
}

// rawAdder reaches (*dbStore).AddDirRaw (exported on the concrete type only).
type rawAdder interface {
	AddDirRaw(d string, score float64) error
}

func childMain() {
	data, err := os.ReadFile(os.Getenv("C25_OPS"))
	if err != nil {
		fmt.Fprintln(os.Stderr, "c25 child:", err)
		os.Exit(4)
	}
	var ops []string
	for _, l := range strings.Split(string(data), "\n") {
		if l != "" {
			ops = append(ops, l)
		}
	}
	st, err := store.NewStore(os.Getenv("C25_DB"))
	if err != nil {
		os.Stdout.WriteString("openfail " + strings.ReplaceAll(err.Error(), "\n", " ") + "\n")
		os.Exit(5)
	}
	os.Stdout.WriteString("ready\n")
	for i, op := range ops {
		res := execOp(st, strings.Split(op, "\t"))
		os.Stdout.WriteString("ack " + strconv.Itoa(i) + " " + res + "\n")
	}
	st.Close()
	os.Stdout.WriteString("done\n")
}

// ------------------------------------------------- one operation on a store

func showErr(err error) string {
	switch err.Error() {
	case storedefs.ErrNoMatchingCmd.Error():
		return "ERR nomatch"
	case "key required":
		return "ERR keyrequired"
	case "key too large":
		return "ERR keytoolarge"
	}
	return "ERR other " + strings.ReplaceAll(err.Error(), "\n", " ")
}

func showCmd(c storedefs.Cmd) string { return strconv.Itoa(c.Seq) + ":" + common.Hex(c.Text) }

func atoi(s string) int {
	n, err := strconv.Atoi(s)
	if err != nil {
		panic("bad int field " + s)
	}
	return n
}

func fbits(s string) float64 {
	n, err := strconv.ParseUint(s, 10, 64)
	if err != nil {
		panic("bad bits field " + s)
	}
	return math.Float64frombits(n)
}

func bits(f float64) string { return strconv.FormatUint(math.Float64bits(f), 10) }

// canonDirs prints a listing with runs of equal scores ordered by path
// (sort.Sort is unstable: the order inside a run is unspecified).
func canonDirs(ds []storedefs.Dir) string {
	ds = append([]storedefs.Dir(nil), ds...)
	for i := 0; i < len(ds); {
		j := i
		for j < len(ds) && ds[j].Score == ds[i].Score {
			j++
		}
		run := ds[i:j]
		sort.Slice(run, func(a, b int) bool { return run[a].Path < run[b].Path })
		i = j
	}
	if len(ds) == 0 {
		return "-"
	}
	out := make([]string, len(ds))
	for i, d := range ds {
		out[i] = common.Hex(d.Path) + ":" + bits(d.Score)
	}
	return strings.Join(out, ",")
}

// execOp runs one op (C24 line syntax) on the real store and prints its
// result canonically (the same canonical form as the C24 harness).
func execOp(st store.DBStore, f []string) string {
	switch f[0] {
	case "nseq":
		n, err := st.NextCmdSeq()
		if err != nil {
			return showErr(err)
		}
		return strconv.Itoa(n)
	case "add":
		n, err := st.AddCmd(common.Unhex(f[1]))
		if err != nil {
			return showErr(err)
		}
		return strconv.Itoa(n)
	case "del":
		if err := st.DelCmd(atoi(f[1])); err != nil {
			return showErr(err)
		}
		return "ok"
	case "get":
		t, err := st.Cmd(atoi(f[1]))
		if err != nil {
			return showErr(err)
		}
		return common.Hex(t)
	case "list":
		cmds, err := st.CmdsWithSeq(atoi(f[1]), atoi(f[2]))
		if err != nil {
			return showErr(err)
		}
		if len(cmds) == 0 {
			return "-"
		}
		out := make([]string, len(cmds))
		for i, c := range cmds {
			out[i] = showCmd(c)
		}
		return strings.Join(out, ",")
	case "adddir":
		if err := st.AddDir(common.Unhex(f[1]), fbits(f[2])); err != nil {
			return showErr(err)
		}
		return "ok"
	case "addraw":
		if err := st.(rawAdder).AddDirRaw(common.Unhex(f[1]), fbits(f[2])); err != nil {
			return showErr(err)
		}
		return "ok"
	case "deldir":
		if err := st.DelDir(common.Unhex(f[1])); err != nil {
			return showErr(err)
		}
		return "ok"
	case "dirs":
		ds, err := st.Dirs(storedefs.NoBlacklist)
		if err != nil {
			return showErr(err)
		}
		return canonDirs(ds)
	}
	return "bad-op"
}

// dump reads everything back: next sequence number, all commands, all
// directories.  This is the observation compared with the prefix states.
func dump(st store.DBStore) string {
	return execOp(st, []string{"nseq"}) + "|" + execOp(st, []string{"list", "0", "-1"}) + "|" + execOp(st, []string{"dirs"})
}
