package c25

// The structure facts the crash theorem depends on, REGENERATED from the
// source of pkg/store at check time (go/ast over $VERIF_REPO/pkg/store/*.go,
// test files excluded) and compared with what the Lean model states
// (`Api.txns`, `openCalls`, … printed by the driver's `facts` op).

import (
	"fmt"
	"go/ast"
	"go/parser"
	"go/token"
	"os"
	"path/filepath"
	"sort"
	"strings"
)

type fnInfo struct {
	name     string
	exported bool
	updates  int // direct Update/Batch/Begin calls
	views    int // direct View calls
	callees  []string
	opens    []string // one entry per bolt.Open call: the option summary
	async    int      // transaction calls inside a go statement
}

type storeFacts struct {
	fns            map[string]*fnInfo
	nosyncAssigns  int
	addCmdOneTxn   bool
	parseErr       error
	asyncTxnCalls  int
	filesParsed    int
	addCmdFound    bool
	addCmdSeqCalls int
	addCmdPutCalls int
}

var durabilityOpts = []string{"NoSync", "NoFreelistSync", "NoGrowSync"}

func repoRoot() string {
	if r := os.Getenv("VERIF_REPO"); r != "" {
		return r
	}
	return "/repo"
}

func selName(e ast.Expr) string {
	if s, ok := e.(*ast.SelectorExpr); ok {
		return s.Sel.Name
	}
	return ""
}

// optionSummary describes the options argument of a bolt.Open call.
func optionSummary(arg ast.Expr) string {
	val := map[string]string{"NoSync": "false", "NoFreelistSync": "false", "NoGrowSync": "false"}
	known := true
	switch a := arg.(type) {
	case *ast.Ident:
		if a.Name != "nil" {
			known = false
		}
	case *ast.UnaryExpr:
		cl, ok := a.X.(*ast.CompositeLit)
		if !ok {
			known = false
			break
		}
		for _, el := range cl.Elts {
			kv, ok := el.(*ast.KeyValueExpr)
			if !ok {
				known = false
				continue
			}
			k, _ := kv.Key.(*ast.Ident)
			if k == nil {
				continue
			}
			if _, isDur := val[k.Name]; isDur {
				v := "true" // anything that is not the literal false may be true
				if id, ok := kv.Value.(*ast.Ident); ok && id.Name == "false" {
					v = "false"
				}
				val[k.Name] = v
			}
		}
	default:
		known = false
	}
	if !known {
		return "NoSync=?,NoFreelistSync=?,NoGrowSync=?"
	}
	return fmt.Sprintf("NoSync=%s,NoFreelistSync=%s,NoGrowSync=%s", val["NoSync"], val["NoFreelistSync"], val["NoGrowSync"])
}

func extractFacts() *storeFacts {
	sf := &storeFacts{fns: map[string]*fnInfo{}}
	dir := filepath.Join(repoRoot(), "pkg", "store")
	files, _ := filepath.Glob(filepath.Join(dir, "*.go"))
	sort.Strings(files)
	fset := token.NewFileSet()
	for _, fn := range files {
		if strings.HasSuffix(fn, "_test.go") {
			continue
		}
		f, err := parser.ParseFile(fset, fn, nil, 0)
		if err != nil {
			sf.parseErr = err
			continue
		}
		sf.filesParsed++
		// any assignment to a durability option (db.NoSync = true, opts.NoSync = …)
		ast.Inspect(f, func(n ast.Node) bool {
			if as, ok := n.(*ast.AssignStmt); ok {
				for _, l := range as.Lhs {
					for _, o := range durabilityOpts {
						if selName(l) == o {
							sf.nosyncAssigns++
						}
					}
				}
			}
			return true
		})
		for _, d := range f.Decls {
			fd, ok := d.(*ast.FuncDecl)
			if !ok || fd.Body == nil {
				continue
			}
			fi := &fnInfo{name: fd.Name.Name, exported: fd.Name.IsExported()}
			if fd.Recv != nil && len(fd.Recv.List) == 1 {
				// of the methods, only those of the store itself are API calls
				t := fd.Recv.List[0].Type
				if st, ok := t.(*ast.StarExpr); ok {
					t = st.X
				}
				if id, ok := t.(*ast.Ident); !ok || id.Name != "dbStore" {
					fi.exported = false
				}
			}
			sf.fns[fi.name] = fi
			var walk func(n ast.Node, inGo bool)
			walk = func(n ast.Node, inGo bool) {
				ast.Inspect(n, func(m ast.Node) bool {
					switch x := m.(type) {
					case *ast.GoStmt:
						if m != n {
							walk(x.Call, true)
							return false
						}
					case *ast.CallExpr:
						switch fun := x.Fun.(type) {
						case *ast.SelectorExpr:
							switch fun.Sel.Name {
							case "Update", "Batch", "Begin":
								fi.updates++
								if inGo {
									fi.async++
								}
							case "View":
								fi.views++
								if inGo {
									fi.async++
								}
							case "Open":
								if id, ok := fun.X.(*ast.Ident); ok && (id.Name == "bolt" || id.Name == "bbolt") {
									if len(x.Args) >= 3 {
										fi.opens = append(fi.opens, optionSummary(x.Args[2]))
									} else {
										fi.opens = append(fi.opens, "NoSync=?,NoFreelistSync=?,NoGrowSync=?")
									}
								}
							default:
								// a method of the package called on some receiver (s.IterateCmds)
								fi.callees = append(fi.callees, fun.Sel.Name)
							}
						case *ast.Ident:
							fi.callees = append(fi.callees, fun.Name)
						}
					}
					return true
				})
			}
			walk(fd.Body, false)
			if fd.Name.Name == "AddCmd" && fd.Recv != nil {
				sf.addCmdFound = true
				// the function literal passed to Update must hold both NextSequence and Put
				inLit := map[string]int{}
				ast.Inspect(fd.Body, func(m ast.Node) bool {
					c, ok := m.(*ast.CallExpr)
					if !ok {
						return true
					}
					switch selName(c.Fun) {
					case "NextSequence":
						sf.addCmdSeqCalls++
					case "Put":
						sf.addCmdPutCalls++
					case "Update":
						for _, a := range c.Args {
							if fl, ok := a.(*ast.FuncLit); ok {
								ast.Inspect(fl, func(k ast.Node) bool {
									if cc, ok := k.(*ast.CallExpr); ok {
										inLit[selName(cc.Fun)]++
									}
									return true
								})
								if inLit["NextSequence"] == 1 && inLit["Put"] == 1 {
									sf.addCmdOneTxn = true
								}
								inLit = map[string]int{}
							}
						}
					}
					return true
				})
				if sf.addCmdSeqCalls != 1 || sf.addCmdPutCalls != 1 {
					sf.addCmdOneTxn = false
				}
			}
		}
	}
	for _, fi := range sf.fns {
		sf.asyncTxnCalls += fi.async
	}
	return sf
}

// total counts the transactions a function makes, callees in the package included.
func (sf *storeFacts) total(name string, seen map[string]bool) (u, v int) {
	fi := sf.fns[name]
	if fi == nil || seen[name] {
		return 0, 0
	}
	seen[name] = true
	defer delete(seen, name)
	u, v = fi.updates, fi.views
	for _, c := range fi.callees {
		cu, cv := sf.total(c, seen)
		u += cu
		v += cv
	}
	return
}

// opensReachable lists the functions holding a bolt.Open that name reaches.
func (sf *storeFacts) opensReachable(name string, seen map[string]bool, out map[string]bool) {
	fi := sf.fns[name]
	if fi == nil || seen[name] {
		return
	}
	seen[name] = true
	if len(fi.opens) > 0 {
		out[name] = true
	}
	for _, c := range fi.callees {
		sf.opensReachable(c, seen, out)
	}
}

// line prints the facts in the format of the Lean driver's `facts` op.
func (sf *storeFacts) line() string {
	if sf.parseErr != nil {
		return "PARSE-ERROR " + sf.parseErr.Error()
	}
	var names []string
	for n, fi := range sf.fns {
		if fi.exported {
			names = append(names, n)
		}
	}
	sort.Strings(names)
	var api []string
	for _, n := range names {
		u, v := sf.total(n, map[string]bool{})
		api = append(api, fmt.Sprintf("%s:%d:%d", n, u, v))
	}
	var fnames []string
	for n := range sf.fns {
		fnames = append(fnames, n)
	}
	sort.Strings(fnames)
	var opens []string
	for _, n := range fnames {
		for _, o := range sf.fns[n].opens {
			opens = append(opens, "open@"+n+":"+o)
		}
	}
	via := map[string]bool{}
	sf.opensReachable("NewStore", map[string]bool{}, via)
	var vias []string
	for n := range via {
		vias = append(vias, n)
	}
	sort.Strings(vias)
	viaS := strings.Join(vias, "+")
	if viaS == "" {
		viaS = "NONE"
	}
	s := fmt.Sprintf("api=%s %s newstore-via=%s nosync-assignments=%d addcmd-seq-and-put-in-one-update=%v",
		strings.Join(api, ","), strings.Join(opens, " "), viaS, sf.nosyncAssigns, sf.addCmdOneTxn)
	if sf.asyncTxnCalls > 0 {
		s += fmt.Sprintf(" async-transactions=%d", sf.asyncTxnCalls)
	}
	return s
}

// violations evaluates the facts the crash theorem needs, directly on the
// source (independently of what the Lean model lists).
func (sf *storeFacts) violations() []string {
	var bad []string
	if sf.parseErr != nil || sf.filesParsed == 0 {
		return []string{fmt.Sprintf("cannot parse pkg/store: %v (%d files)", sf.parseErr, sf.filesParsed)}
	}
	for n, fi := range sf.fns {
		if !fi.exported {
			continue
		}
		u, v := sf.total(n, map[string]bool{})
		if u > 1 {
			bad = append(bad, fmt.Sprintf("%s makes %d write transactions (must be one)", n, u))
		}
		if u >= 1 && v >= 1 {
			bad = append(bad, fmt.Sprintf("%s makes a View and an Update (%d/%d): not one atomic step", n, v, u))
		}
		if v > 1 {
			bad = append(bad, fmt.Sprintf("%s makes %d read transactions (must be one)", n, v))
		}
	}
	via := map[string]bool{}
	sf.opensReachable("NewStore", map[string]bool{}, via)
	if len(via) == 0 {
		bad = append(bad, "NewStore reaches no bolt.Open call")
	}
	for n := range via {
		for _, o := range sf.fns[n].opens {
			if strings.Contains(o, "=true") || strings.Contains(o, "=?") {
				bad = append(bad, fmt.Sprintf("bolt.Open in %s (reached from NewStore) weakens durability: %s", n, o))
			}
		}
	}
	if sf.nosyncAssigns > 0 {
		bad = append(bad, fmt.Sprintf("%d assignment(s) to NoSync/NoFreelistSync/NoGrowSync", sf.nosyncAssigns))
	}
	if !sf.addCmdFound {
		bad = append(bad, "method AddCmd not found")
	} else if !sf.addCmdOneTxn {
		bad = append(bad, "AddCmd does not take NextSequence and Put inside one Update callback")
	}
	if sf.asyncTxnCalls > 0 {
		bad = append(bad, fmt.Sprintf("%d transaction call(s) inside a go statement: the API call returns before its commit", sf.asyncTxnCalls))
	}
	sort.Strings(bad)
	return bad
}
