// Command child executes one dynamic C39 op (see ../child.go).  The parent
// harness builds it with the race detector: go build -race -tags verif.
package main

import "verifharness/c39"

func main() { c39.ChildMain() }
