package c39

// The second static obligation (round 2): CHECK-THEN-ACT on the module table.
//
// The lockset obligation (extract.go) is about single accesses: it cannot see
// an atomicity violation such as
//
//	if _, ok := ev.loadedModule(key); ok { … }   // critical section 1 (in the helper)
//	ev.AddModule(key, mod)                        // critical section 2 (in the helper)
//
// where every access holds the mutex and still two goroutines can both pass the
// check before either inserts.  This extractor lists every place where the map
// Evaler.modules is written by index (`modules[k] = v`, `delete(modules, k)`),
// directly or through a callee that stores blindly, together with the lookup
// `modules[k]` that guards it, and reports whether the two are inside ONE
// exclusive critical section of Evaler.mu.  The obligation (ctaCheck — Lean
// C39.ctaCheck and its Go twin here): every such place in a function reachable
// from `use` is a test-and-set: a direct write, in an exclusive section, guarded
// by a direct lookup of the same key in the same section.  Lean
// (C39_check_then_act_once) proves that this discipline gives at-most-once
// installation: an installed namespace is never overwritten.
//
// Approximations (trusted, like extract.go): statements are taken in source
// order; a critical section is the text between X.mu.Lock()/RLock() and the
// matching Unlock (a deferred unlock = to the end of the function); the guard
// of a write is the latest earlier lookup of the same key expression in the
// same function that occurs in the condition or init statement of an `if`
// (preferring one in the same section); calls are resolved by bare name inside
// pkg/eval (all functions and methods of that name); function literals run
// with no lock held.

import (
	"fmt"
	"go/ast"
	"go/printer"
	"go/token"
	"path/filepath"
	"sort"
	"strings"
)

// CtaEntry is one place where the module table is (or may be) written by key.
type CtaEntry struct {
	Name    string // file:func:line, or file:func:line(via callee)
	Del     bool   // delete rather than insert
	Direct  bool   // the write is in this function (false: in a callee that stores without looking)
	Excl    bool   // inside an exclusive critical section of Evaler.mu
	Sec     int    // number of the critical section within the function (0 = none)
	Guard   string // the guarding lookup ("-" = none)
	GDirect bool   // the lookup is in this function (false: in a callee)
	GSec    int    // its critical section
	Reach   bool   // the function is reachable from `use`
	Init    bool   // construction site (the Evaler is a fresh local)
	near    bool   // via entries: the callee itself contains the blind write
}

func b01(b bool) string {
	if b {
		return "1"
	}
	return "0"
}

// Encode renders the entry as a field of a cta op line.
func (e CtaEntry) Encode() string {
	k := "i"
	if e.Del {
		k = "d"
	}
	return strings.Join([]string{e.Name, k, b01(e.Direct), b01(e.Excl), fmt.Sprint(e.Sec), e.Guard,
		b01(e.GDirect), fmt.Sprint(e.GSec), b01(e.Reach), b01(e.Init)}, "|")
}

func (e CtaEntry) atomic() bool {
	return e.Direct && e.Excl && e.Sec != 0 && e.Guard != "-" && e.GDirect && e.GSec == e.Sec
}

// ctaCheck is the Go twin of C39.ctaCheck.
func ctaCheck(tbl []CtaEntry) string {
	for _, e := range tbl {
		if e.Reach && !e.Init && !e.atomic() {
			if e.Guard != "-" {
				return "split " + e.Name
			}
			return "blind " + e.Name
		}
	}
	for _, e := range tbl {
		if e.Reach && !e.Init && !e.Del {
			return "tas"
		}
	}
	return "no-insert"
}

type ctaEvent struct {
	kind   byte // R lookup, W insert, D delete, C call
	key    string
	sec    int
	excl   bool
	guard  bool // R: inside the condition / init of an if
	line   int
	callee string
	fresh  bool
}

type ctaFn struct {
	name, file string
	events     []ctaEvent
}

type ctaWalker struct {
	fset   *token.FileSet
	field  string
	types  map[string]string // identifier -> type string (receiver, parameters, fresh locals)
	fresh  map[string]bool
	sec    int // current section (0 = none)
	excl   bool
	nsec   int
	inLit  int
	events []ctaEvent
}

func (w *ctaWalker) exprString(e ast.Expr) string {
	var sb strings.Builder
	printer.Fprint(&sb, w.fset, e)
	return sb.String()
}

// isTable reports whether e denotes <Evaler>.modules, and whether the Evaler is a fresh local.
func (w *ctaWalker) isTable(e ast.Expr) (bool, bool) {
	sel, ok := e.(*ast.SelectorExpr)
	if !ok || sel.Sel.Name != w.field {
		return false, false
	}
	switch x := sel.X.(type) {
	case *ast.Ident:
		t, known := w.types[x.Name]
		if known && baseType(t) != "Evaler" {
			return false, false
		}
		return true, w.fresh[x.Name] && w.inLit == 0
	case *ast.SelectorExpr:
		if x.Sel.Name == "Evaler" || x.Sel.Name == "ev" {
			return true, false
		}
		return false, false
	}
	return false, false
}

func (w *ctaWalker) add(ev ctaEvent, n ast.Node) {
	ev.line = w.fset.Position(n.Pos()).Line
	if w.inLit > 0 {
		ev.sec, ev.excl = 0, false
	} else {
		ev.sec, ev.excl = w.sec, w.excl
	}
	w.events = append(w.events, ev)
}

func muCall(e ast.Expr) string {
	call, ok := e.(*ast.CallExpr)
	if !ok || len(call.Args) != 0 {
		return ""
	}
	sel, ok := call.Fun.(*ast.SelectorExpr)
	if !ok {
		return ""
	}
	inner, ok := sel.X.(*ast.SelectorExpr)
	if !ok || inner.Sel.Name != "mu" {
		return ""
	}
	switch sel.Sel.Name {
	case "Lock", "Unlock", "RLock", "RUnlock":
		return sel.Sel.Name
	}
	return ""
}

func (w *ctaWalker) expr(e ast.Expr, guard bool) {
	switch e := e.(type) {
	case nil:
	case *ast.IndexExpr:
		if ok, fresh := w.isTable(e.X); ok {
			w.expr(e.Index, guard)
			w.add(ctaEvent{kind: 'R', key: w.exprString(e.Index), guard: guard, fresh: fresh}, e)
			return
		}
		w.expr(e.X, guard)
		w.expr(e.Index, guard)
	case *ast.CallExpr:
		if id, ok := e.Fun.(*ast.Ident); ok && id.Name == "delete" && len(e.Args) == 2 {
			if ok, fresh := w.isTable(e.Args[0]); ok {
				w.expr(e.Args[1], guard)
				w.add(ctaEvent{kind: 'D', key: w.exprString(e.Args[1]), fresh: fresh}, e)
				return
			}
		}
		for _, a := range e.Args {
			w.expr(a, guard)
		}
		switch f := e.Fun.(type) {
		case *ast.Ident:
			w.add(ctaEvent{kind: 'C', callee: f.Name}, e)
		case *ast.SelectorExpr:
			w.expr(f.X, guard)
			w.add(ctaEvent{kind: 'C', callee: f.Sel.Name}, e)
		case *ast.FuncLit:
			w.funcLit(f)
		default:
			w.expr(e.Fun, guard)
		}
	case *ast.FuncLit:
		w.funcLit(e)
	case *ast.SelectorExpr:
		w.expr(e.X, guard)
	case *ast.UnaryExpr:
		w.expr(e.X, guard)
	case *ast.BinaryExpr:
		w.expr(e.X, guard)
		w.expr(e.Y, guard)
	case *ast.ParenExpr:
		w.expr(e.X, guard)
	case *ast.StarExpr:
		w.expr(e.X, guard)
	case *ast.SliceExpr:
		w.expr(e.X, guard)
		w.expr(e.Low, guard)
		w.expr(e.High, guard)
		w.expr(e.Max, guard)
	case *ast.TypeAssertExpr:
		w.expr(e.X, guard)
	case *ast.KeyValueExpr:
		w.expr(e.Key, guard)
		w.expr(e.Value, guard)
	case *ast.CompositeLit:
		for _, el := range e.Elts {
			w.expr(el, guard)
		}
	}
}

func (w *ctaWalker) funcLit(f *ast.FuncLit) {
	w.inLit++
	w.block(f.Body.List)
	w.inLit--
}

func (w *ctaWalker) block(list []ast.Stmt) {
	for _, s := range list {
		w.stmt(s, false)
	}
}

func (w *ctaWalker) stmt(s ast.Stmt, guard bool) {
	switch s := s.(type) {
	case nil:
	case *ast.ExprStmt:
		if m := muCall(s.X); m != "" && w.inLit == 0 {
			switch m {
			case "Lock":
				w.nsec++
				w.sec, w.excl = w.nsec, true
			case "RLock":
				w.nsec++
				w.sec, w.excl = w.nsec, false
			default:
				w.sec, w.excl = 0, false
			}
			return
		}
		w.expr(s.X, guard)
	case *ast.DeferStmt:
		if muCall(s.Call) != "" {
			return // unlock at function exit
		}
		w.expr(s.Call, false)
	case *ast.GoStmt:
		w.expr(s.Call, false)
	case *ast.AssignStmt:
		for _, r := range s.Rhs {
			w.expr(r, guard)
		}
		for i, l := range s.Lhs {
			if ix, ok := l.(*ast.IndexExpr); ok {
				if ok, fresh := w.isTable(ix.X); ok {
					w.expr(ix.Index, guard)
					w.add(ctaEvent{kind: 'W', key: w.exprString(ix.Index), fresh: fresh}, ix)
					continue
				}
			}
			if id, ok := l.(*ast.Ident); ok && s.Tok == token.DEFINE && len(s.Rhs) == len(s.Lhs) && w.inLit == 0 {
				if isFreshAlloc(s.Rhs[i]) {
					w.fresh[id.Name] = true
					if u, ok := s.Rhs[i].(*ast.UnaryExpr); ok {
						if cl, ok := u.X.(*ast.CompositeLit); ok && cl.Type != nil {
							w.types[id.Name] = "*" + typeString(cl.Type)
						}
					}
				}
				continue
			}
			w.expr(l, guard)
		}
	case *ast.IncDecStmt:
		w.expr(s.X, guard)
	case *ast.DeclStmt:
		if gd, ok := s.Decl.(*ast.GenDecl); ok {
			for _, sp := range gd.Specs {
				if vs, ok := sp.(*ast.ValueSpec); ok {
					for _, v := range vs.Values {
						w.expr(v, guard)
					}
				}
			}
		}
	case *ast.ReturnStmt:
		for _, r := range s.Results {
			w.expr(r, guard)
		}
	case *ast.BlockStmt:
		w.block(s.List)
	case *ast.IfStmt:
		w.stmt(s.Init, true)
		w.expr(s.Cond, true)
		w.block(s.Body.List)
		w.stmt(s.Else, false)
	case *ast.ForStmt:
		w.stmt(s.Init, false)
		w.expr(s.Cond, false)
		w.block(s.Body.List)
		w.stmt(s.Post, false)
	case *ast.RangeStmt:
		w.expr(s.X, false)
		w.block(s.Body.List)
	case *ast.SwitchStmt:
		w.stmt(s.Init, false)
		w.expr(s.Tag, false)
		for _, cc := range s.Body.List {
			if c, ok := cc.(*ast.CaseClause); ok {
				for _, e := range c.List {
					w.expr(e, false)
				}
				w.block(c.Body)
			}
		}
	case *ast.TypeSwitchStmt:
		w.stmt(s.Init, false)
		w.stmt(s.Assign, false)
		for _, cc := range s.Body.List {
			if c, ok := cc.(*ast.CaseClause); ok {
				w.block(c.Body)
			}
		}
	case *ast.SelectStmt:
		for _, cc := range s.Body.List {
			if c, ok := cc.(*ast.CommClause); ok {
				w.stmt(c.Comm, false)
				w.block(c.Body)
			}
		}
	case *ast.SendStmt:
		w.expr(s.Chan, false)
		w.expr(s.Value, false)
	case *ast.LabeledStmt:
		w.stmt(s.Stmt, guard)
	}
}

// ExtractCta builds the check-then-act table of Evaler.modules from pkg/eval.
func ExtractCta(repo string) ([]CtaEntry, error) {
	p, err := loadPkg(filepath.Join(repo, "pkg", "eval"))
	if err != nil {
		return nil, err
	}
	if t := p.structs["Evaler"]["modules"]; !strings.HasPrefix(t, "map[") {
		return nil, fmt.Errorf("Evaler.modules is not a map (%q)", t)
	}
	var fns []*ctaFn
	byName := map[string][]*ctaFn{}
	for _, f := range p.files {
		file := filepath.Base(p.fset.Position(f.Pos()).Filename)
		for _, d := range f.Decls {
			fd, ok := d.(*ast.FuncDecl)
			if !ok || fd.Body == nil {
				continue
			}
			w := &ctaWalker{fset: p.fset, field: "modules", types: map[string]string{}, fresh: map[string]bool{}}
			name := fd.Name.Name
			if fd.Recv != nil && len(fd.Recv.List) == 1 {
				rt := typeString(fd.Recv.List[0].Type)
				name = baseType(rt) + "." + name
				for _, n := range fd.Recv.List[0].Names {
					w.types[n.Name] = rt
				}
			}
			if fd.Type.Params != nil {
				for _, fl := range fd.Type.Params.List {
					for _, n := range fl.Names {
						w.types[n.Name] = typeString(fl.Type)
					}
				}
			}
			w.block(fd.Body.List)
			fn := &ctaFn{name: name, file: file, events: w.events}
			fns = append(fns, fn)
			byName[fd.Name.Name] = append(byName[fd.Name.Name], fn)
		}
	}
	// guard of a direct write: latest earlier guard lookup of the same key, preferring the same section
	guardOf := func(fn *ctaFn, i int) int {
		best := -1
		for j := 0; j < i; j++ {
			e := fn.events[j]
			if e.kind == 'R' && e.guard && e.key == fn.events[i].key {
				if best < 0 || e.sec == fn.events[i].sec || fn.events[best].sec != fn.events[i].sec {
					best = j
				}
			}
		}
		return best
	}
	atomicWrite := func(fn *ctaFn, i int) bool {
		e := fn.events[i]
		g := guardOf(fn, i)
		return e.excl && e.sec != 0 && g >= 0 && fn.events[g].sec == e.sec
	}
	// summaries
	blind := map[*ctaFn]bool{}
	looks := map[*ctaFn]bool{}
	for changed := true; changed; {
		changed = false
		for _, fn := range fns {
			b, l := blind[fn], looks[fn]
			for i, e := range fn.events {
				switch e.kind {
				case 'W', 'D':
					if !e.fresh && !atomicWrite(fn, i) {
						b = true
					}
				case 'R':
					l = true
				case 'C':
					for _, g := range byName[e.callee] {
						if blind[g] {
							b = true
						}
						if looks[g] {
							l = true
						}
					}
				}
			}
			if b != blind[fn] || l != looks[fn] {
				blind[fn], looks[fn] = b, l
				changed = true
			}
		}
	}
	// reachability from `use`
	reach := map[*ctaFn]bool{}
	var visit func(fn *ctaFn)
	visit = func(fn *ctaFn) {
		if reach[fn] {
			return
		}
		reach[fn] = true
		for _, e := range fn.events {
			if e.kind == 'C' {
				for _, g := range byName[e.callee] {
					visit(g)
				}
			}
		}
	}
	roots := byName["use"]
	if len(roots) == 0 {
		return nil, fmt.Errorf("function use not found in pkg/eval")
	}
	for _, r := range roots {
		visit(r)
	}
	var via, direct []CtaEntry
	for _, fn := range fns {
		site := func(e ctaEvent) string { return fmt.Sprintf("%s:%s:%d", fn.file, fn.name, e.line) }
		for i, e := range fn.events {
			switch e.kind {
			case 'W', 'D':
				ent := CtaEntry{Name: site(e), Del: e.kind == 'D', Direct: true, Excl: e.excl, Sec: e.sec,
					Guard: "-", Reach: reach[fn], Init: e.fresh}
				if g := guardOf(fn, i); g >= 0 {
					ent.Guard, ent.GDirect, ent.GSec = site(fn.events[g]), true, fn.events[g].sec
				}
				direct = append(direct, ent)
			case 'C':
				isBlind, near := false, false
				for _, g := range byName[e.callee] {
					if blind[g] {
						isBlind = true
					}
					for k, ge := range g.events {
						if (ge.kind == 'W' || ge.kind == 'D') && !ge.fresh && !atomicWrite(g, k) {
							near = true
						}
					}
				}
				if !isBlind {
					continue
				}
				// an earlier lookup in this function (direct or through a callee)?
				gi := -1
				for j := 0; j < i; j++ {
					pe := fn.events[j]
					if pe.kind == 'R' {
						gi = j
					}
					if pe.kind == 'C' {
						for _, g := range byName[pe.callee] {
							if looks[g] && !blind[g] {
								gi = j
							}
						}
					}
				}
				if gi < 0 {
					continue // no check in this function: the callee's own entry speaks for it
				}
				ge := fn.events[gi]
				gname := site(ge)
				if ge.kind == 'C' {
					gname += "(via " + ge.callee + ")"
				}
				via = append(via, CtaEntry{Name: site(e) + "(via " + e.callee + ")", Direct: false, Excl: e.excl, Sec: e.sec,
					Guard: gname, GDirect: ge.kind == 'R', GSec: ge.sec, Reach: reach[fn], near: near})
			}
		}
	}
	// the entries closest to the write first (their callee stores blindly itself)
	sort.SliceStable(via, func(i, j int) bool {
		if via[i].near != via[j].near {
			return via[i].near
		}
		return via[i].Name < via[j].Name
	})
	sort.SliceStable(direct, func(i, j int) bool { return direct[i].Name < direct[j].Name })
	return append(via, direct...), nil
}
