package c39

// The fact extractor: regenerates, from the Go source under $VERIF_REPO, the
// table of access sites of the state one Evaler shares between goroutines,
// each with the mutexes lexically held at that point.  Standard library only
// (go/parser, go/ast); run at check time, never cached.
//
// Shared variables covered
//   Evaler.<field>   every field of eval.Evaler: the ones declared after `mu`
//                    (documented "must be guarded by mutex") and the ones before
//                    it (documented "only set before the Evaler is used")
//   PtrVar.*ptr      what a vars.PtrVar points to (Get/Set of every variable)
//   Ns.slots         the variable slots of a namespace
//
// Approximations (the trusted part, see notes/C39.md)
//   * receivers are resolved by a small syntactic type inference (receiver,
//     parameters, fields of the package's structs, results of the package's
//     functions, `x := &T{…}`); an access whose receiver cannot be resolved is
//     reported as an unprotected site named "unresolved:…", never dropped;
//   * lock regions are lexical: X.mu.Lock()/RLock() … X.mu.Unlock()/RUnlock()
//     in statement order, `defer X.mu.Unlock()` = held to the end of the
//     function; after if/else the locks held on every non-returning branch;
//     a lock held on exactly the `if c` branch of a boolean variable c that is
//     assigned once is remembered as "held iff c" (the idiom of Evaler.Eval);
//     loops and switch bodies are assumed to leave the lock set unchanged;
//   * a function literal starts with no lock held (it may run later);
//   * a write is: assignment / op-assignment / ++ / -- to the field or to an
//     element of it, delete(field, …), taking its address, calling a method on
//     a struct-valued field; everything else is a read.  A map-valued field
//     copied into a local variable is followed: later uses of the local are
//     accesses to the field (the idiom `m := ev.modules` … `mapKeys(m)`);
//   * a site belongs to the construction phase when the object is reached
//     through a local variable that the same function initialised with a fresh
//     allocation (&T{…}, T{…}, new(T), x.clone()) and the site is not inside a
//     function literal; composite literals of the type are construction writes.

import (
	"fmt"
	"go/ast"
	"go/parser"
	"go/token"
	"os"
	"path/filepath"
	"sort"
	"strings"
)

// HeldLock is one lexically held mutex.
type HeldLock struct {
	Lock string
	Excl bool
}

// SiteFact is one access site.
type SiteFact struct {
	Var   string
	Name  string // file:func:line
	Write bool
	Held  []HeldLock
	Init  bool
	Why   string // justification when Init comes from the allow-list
}

// Encode renders the site as a field of a static op line.
func (s SiteFact) Encode() string {
	k := "r"
	if s.Write {
		k = "w"
	}
	var hs []string
	for _, h := range s.Held {
		m := "R"
		if h.Excl {
			m = "W"
		}
		hs = append(hs, h.Lock+":"+m)
	}
	sort.Strings(hs)
	held := strings.Join(hs, ",")
	if held == "" {
		held = "-"
	}
	ini := "0"
	if s.Init {
		ini = "1"
	}
	return s.Name + "|" + k + "|" + held + "|" + ini
}

// ---- package-level information -----------------------------------------------------

type pkgInfo struct {
	fset    *token.FileSet
	files   []*ast.File
	structs map[string]map[string]string // struct name -> field -> type string
	order   map[string][]string          // struct name -> fields in order
	results map[string]string            // func or Type.method -> first result type string
}

func typeString(e ast.Expr) string {
	switch t := e.(type) {
	case *ast.Ident:
		return t.Name
	case *ast.StarExpr:
		return "*" + typeString(t.X)
	case *ast.SelectorExpr:
		return typeString(t.X) + "." + t.Sel.Name
	case *ast.ArrayType:
		return "[]" + typeString(t.Elt)
	case *ast.MapType:
		return "map[" + typeString(t.Key) + "]" + typeString(t.Value)
	case *ast.FuncType:
		return "func"
	case *ast.InterfaceType:
		return "interface"
	case *ast.ChanType:
		return "chan"
	case *ast.Ellipsis:
		return "[]" + typeString(t.Elt)
	case *ast.ParenExpr:
		return typeString(t.X)
	case *ast.IndexExpr:
		return typeString(t.X)
	}
	return "?"
}

func baseType(t string) string { return strings.TrimPrefix(t, "*") }

func loadPkg(dir string) (*pkgInfo, error) {
	p := &pkgInfo{fset: token.NewFileSet(), structs: map[string]map[string]string{},
		order: map[string][]string{}, results: map[string]string{}}
	ents, err := os.ReadDir(dir)
	if err != nil {
		return nil, err
	}
	for _, e := range ents {
		n := e.Name()
		if e.IsDir() || !strings.HasSuffix(n, ".go") || strings.HasSuffix(n, "_test.go") ||
			strings.HasSuffix(n, "_windows.go") || strings.HasSuffix(n, "_plan9.go") || strings.HasSuffix(n, "_js.go") {
			continue
		}
		f, err := parser.ParseFile(p.fset, filepath.Join(dir, n), nil, parser.SkipObjectResolution)
		if err != nil {
			return nil, err
		}
		p.files = append(p.files, f)
	}
	for _, f := range p.files {
		for _, d := range f.Decls {
			switch d := d.(type) {
			case *ast.GenDecl:
				for _, sp := range d.Specs {
					ts, ok := sp.(*ast.TypeSpec)
					if !ok {
						continue
					}
					st, ok := ts.Type.(*ast.StructType)
					if !ok {
						continue
					}
					m := map[string]string{}
					for _, fl := range st.Fields.List {
						t := typeString(fl.Type)
						if len(fl.Names) == 0 { // embedded
							name := baseType(t)
							if i := strings.LastIndex(name, "."); i >= 0 {
								name = name[i+1:]
							}
							m[name] = t
							p.order[ts.Name.Name] = append(p.order[ts.Name.Name], name)
						}
						for _, nm := range fl.Names {
							m[nm.Name] = t
							p.order[ts.Name.Name] = append(p.order[ts.Name.Name], nm.Name)
						}
					}
					p.structs[ts.Name.Name] = m
				}
			case *ast.FuncDecl:
				if d.Type.Results == nil || len(d.Type.Results.List) == 0 {
					continue
				}
				rt := typeString(d.Type.Results.List[0].Type)
				name := d.Name.Name
				if d.Recv != nil && len(d.Recv.List) == 1 {
					name = baseType(typeString(d.Recv.List[0].Type)) + "." + name
				}
				p.results[name] = rt
			}
		}
	}
	return p, nil
}

// ---- the walker -------------------------------------------------------------------------

type heldEntry struct {
	excl bool
	cond string // "" = unconditionally held; otherwise held iff this boolean variable is true
}

type lockState map[string]heldEntry

func (s lockState) clone() lockState {
	c := lockState{}
	for k, v := range s {
		c[k] = v
	}
	return c
}

// target describes which fields of which type are shared variables.
type target struct {
	typ    string          // "Evaler", "PtrVar", "Ns"
	fields map[string]bool // field names that are shared variables
}

type walker struct {
	p       *pkgInfo
	targets []target
	sites   []SiteFact

	file, fn string
	env      map[string]string // local identifier -> type string
	fresh    map[string]bool   // identifiers initialised from a fresh allocation in this function
	alias    map[string]string // identifier -> shared variable it aliases (map-valued fields)
	once     map[string]int    // identifier -> number of assignments in the function
	inLit    int               // depth of function literals
}

func (w *walker) isTarget(typ, field string) bool {
	for _, t := range w.targets {
		if t.typ == typ && t.fields[field] {
			return true
		}
	}
	return false
}

func (w *walker) anyTargetField(field string) bool {
	for _, t := range w.targets {
		if t.fields[field] {
			return true
		}
	}
	return false
}

// typeOf infers the type string of an expression ("" = unknown).
func (w *walker) typeOf(e ast.Expr) string {
	switch e := e.(type) {
	case *ast.Ident:
		return w.env[e.Name]
	case *ast.ParenExpr:
		return w.typeOf(e.X)
	case *ast.StarExpr:
		return baseType(w.typeOf(e.X))
	case *ast.UnaryExpr:
		if e.Op == token.AND {
			t := w.typeOf(e.X)
			if t != "" {
				return "*" + t
			}
		}
	case *ast.SelectorExpr:
		xt := baseType(w.typeOf(e.X))
		if fs, ok := w.p.structs[xt]; ok {
			if t, ok := fs[e.Sel.Name]; ok {
				return t
			}
		}
	case *ast.CompositeLit:
		if e.Type != nil {
			return typeString(e.Type)
		}
	case *ast.CallExpr:
		switch f := e.Fun.(type) {
		case *ast.Ident:
			if f.Name == "new" && len(e.Args) == 1 {
				return "*" + typeString(e.Args[0])
			}
			if t, ok := w.p.results[f.Name]; ok {
				return t
			}
		case *ast.SelectorExpr:
			xt := baseType(w.typeOf(f.X))
			if xt != "" {
				if t, ok := w.p.results[xt+"."+f.Sel.Name]; ok {
					return t
				}
			}
		}
	case *ast.TypeAssertExpr:
		if e.Type != nil {
			return typeString(e.Type)
		}
	case *ast.IndexExpr:
		t := w.typeOf(e.X)
		if strings.HasPrefix(t, "[]") {
			return t[2:]
		}
		if strings.HasPrefix(t, "map[") {
			if i := strings.Index(t, "]"); i >= 0 {
				return t[i+1:]
			}
		}
	}
	return ""
}

func isFreshAlloc(e ast.Expr) bool {
	switch e := e.(type) {
	case *ast.UnaryExpr:
		if e.Op == token.AND {
			_, ok := e.X.(*ast.CompositeLit)
			return ok
		}
	case *ast.CompositeLit:
		return true
	case *ast.CallExpr:
		if id, ok := e.Fun.(*ast.Ident); ok && id.Name == "new" {
			return true
		}
		if sel, ok := e.Fun.(*ast.SelectorExpr); ok && sel.Sel.Name == "clone" {
			return true
		}
	}
	return false
}

func (w *walker) pos(n ast.Node) string {
	return fmt.Sprintf("%s:%s:%d", w.file, w.fn, w.p.fset.Position(n.Pos()).Line)
}

func heldList(st lockState) []HeldLock {
	var hs []HeldLock
	for l, h := range st {
		if h.cond == "" {
			hs = append(hs, HeldLock{l, h.excl})
		}
	}
	sort.Slice(hs, func(i, j int) bool { return hs[i].Lock < hs[j].Lock })
	return hs
}

func (w *walker) emit(v string, n ast.Node, write bool, st lockState, init bool, note string) {
	name := w.pos(n)
	if note != "" {
		name += "(" + note + ")"
	}
	w.sites = append(w.sites, SiteFact{Var: v, Name: name, Write: write, Held: heldList(st), Init: init})
}

// rootIdent returns the identifier an access path starts from.
func rootIdent(e ast.Expr) string {
	for {
		switch x := e.(type) {
		case *ast.Ident:
			return x.Name
		case *ast.SelectorExpr:
			e = x.X
		case *ast.ParenExpr:
			e = x.X
		case *ast.StarExpr:
			e = x.X
		case *ast.IndexExpr:
			e = x.X
		default:
			return ""
		}
	}
}

// sharedVar reports whether sel denotes a shared variable, and which.
func (w *walker) sharedVar(sel *ast.SelectorExpr) (string, bool) {
	if !w.anyTargetField(sel.Sel.Name) {
		return "", false
	}
	xt := baseType(w.typeOf(sel.X))
	if xt == "" {
		// receiver not resolved: could it be one of ours?  Only flag names that
		// belong to no other struct of the package.
		for name, fs := range w.p.structs {
			if _, ok := fs[sel.Sel.Name]; ok && !w.isTarget(name, sel.Sel.Name) {
				return "", false // ambiguous with a non-shared struct: cannot tell; see notes (trusted)
			}
		}
		return "unresolved." + sel.Sel.Name, true
	}
	if w.isTarget(xt, sel.Sel.Name) {
		return xt + "." + sel.Sel.Name, true
	}
	return "", false
}

func (w *walker) isInit(sel *ast.SelectorExpr) bool {
	if w.inLit > 0 {
		return false
	}
	if id, ok := sel.X.(*ast.Ident); ok {
		return w.fresh[id.Name]
	}
	return false
}

// access records sel (a shared variable) as read or written.
func (w *walker) access(sel *ast.SelectorExpr, write bool, st lockState, note string) {
	if v, ok := w.sharedVar(sel); ok {
		w.emit(v, sel, write, st, w.isInit(sel), note)
	}
}

// lhsBase strips index/star/paren from an assignment target.
func lhsBase(e ast.Expr) ast.Expr {
	for {
		switch x := e.(type) {
		case *ast.IndexExpr:
			e = x.X
		case *ast.ParenExpr:
			e = x.X
		case *ast.StarExpr:
			e = x.X
		default:
			return e
		}
	}
}

// lockCall recognises X.mu.Lock() etc. and returns (lock name, method).
func (w *walker) lockCall(e ast.Expr) (string, string, bool) {
	call, ok := e.(*ast.CallExpr)
	if !ok || len(call.Args) != 0 {
		return "", "", false
	}
	sel, ok := call.Fun.(*ast.SelectorExpr)
	if !ok {
		return "", "", false
	}
	switch sel.Sel.Name {
	case "Lock", "Unlock", "RLock", "RUnlock":
	default:
		return "", "", false
	}
	switch x := sel.X.(type) {
	case *ast.SelectorExpr:
		t := baseType(w.typeOf(x.X))
		if t == "" {
			t = "?"
		}
		return t + "." + x.Sel.Name, sel.Sel.Name, true
	case *ast.Ident:
		return "local." + x.Name, sel.Sel.Name, true
	}
	return "", "", false
}

// expr walks an expression in read context.
func (w *walker) expr(e ast.Expr, st lockState) {
	switch e := e.(type) {
	case nil:
	case *ast.Ident:
		if v, ok := w.alias[e.Name]; ok {
			w.emit(v, e, false, st, false, "alias "+e.Name)
		}
	case *ast.SelectorExpr:
		if _, ok := w.sharedVar(e); ok {
			w.access(e, false, st, "")
		}
		w.expr(e.X, st)
	case *ast.CallExpr:
		w.call(e, st)
	case *ast.UnaryExpr:
		if e.Op == token.AND {
			if sel, ok := lhsBase(e.X).(*ast.SelectorExpr); ok {
				if _, ok := w.sharedVar(sel); ok {
					// address taken outside a recognised guarded constructor: unknown future accesses
					w.emit(mustVar(w.sharedVar(sel)), sel, true, lockState{}, false, "address escapes")
					w.expr(sel.X, st)
					return
				}
			}
		}
		w.expr(e.X, st)
	case *ast.BinaryExpr:
		w.expr(e.X, st)
		w.expr(e.Y, st)
	case *ast.ParenExpr:
		w.expr(e.X, st)
	case *ast.StarExpr:
		w.expr(e.X, st)
	case *ast.IndexExpr:
		w.expr(e.X, st)
		w.expr(e.Index, st)
	case *ast.SliceExpr:
		w.expr(e.X, st)
		w.expr(e.Low, st)
		w.expr(e.High, st)
		w.expr(e.Max, st)
	case *ast.TypeAssertExpr:
		w.expr(e.X, st)
	case *ast.KeyValueExpr:
		w.expr(e.Key, st)
		w.expr(e.Value, st)
	case *ast.CompositeLit:
		w.composite(e, st)
	case *ast.FuncLit:
		w.funcLit(e)
	}
}

func mustVar(v string, _ bool) string { return v }

func (w *walker) composite(e *ast.CompositeLit, st lockState) {
	t := ""
	if e.Type != nil {
		t = baseType(typeString(e.Type))
	}
	fields := w.p.order[t]
	for i, el := range e.Elts {
		if kv, ok := el.(*ast.KeyValueExpr); ok {
			if id, ok := kv.Key.(*ast.Ident); ok && w.isTarget(t, id.Name) {
				w.emit(t+"."+id.Name, kv, true, st, true, "composite literal")
			}
			w.expr(kv.Value, st)
			continue
		}
		if i < len(fields) && w.isTarget(t, fields[i]) {
			w.emit(t+"."+fields[i], el, true, st, true, "composite literal")
		}
		w.expr(el, st)
	}
}

func (w *walker) call(c *ast.CallExpr, st lockState) {
	// delete(field, k)
	if id, ok := c.Fun.(*ast.Ident); ok && id.Name == "delete" && len(c.Args) == 2 {
		w.writeTarget(c.Args[0], st, "delete")
		w.expr(c.Args[1], st)
		return
	}
	// vars.FromPtrWithMutex(&X.f, &X.mu): the variable is accessed through a PtrVar under that mutex
	if sel, ok := c.Fun.(*ast.SelectorExpr); ok && sel.Sel.Name == "FromPtrWithMutex" && len(c.Args) == 2 {
		if a0, ok := c.Args[0].(*ast.UnaryExpr); ok && a0.Op == token.AND {
			if a1, ok := c.Args[1].(*ast.UnaryExpr); ok && a1.Op == token.AND {
				if f, ok := a0.X.(*ast.SelectorExpr); ok {
					if m, ok := a1.X.(*ast.SelectorExpr); ok {
						if v, ok := w.sharedVar(f); ok {
							lock := baseType(w.typeOf(m.X)) + "." + m.Sel.Name
							w.emit(v, f, true, lockState{lock: {excl: true}}, false, "via PtrVar guarded by "+lock)
							return
						}
					}
				}
			}
		}
	}
	// method call on a struct-valued shared field: may mutate it
	if sel, ok := c.Fun.(*ast.SelectorExpr); ok {
		if recv, ok := sel.X.(*ast.SelectorExpr); ok {
			if v, ok := w.sharedVar(recv); ok {
				ft := w.typeOf(recv)
				if _, isStruct := w.p.structs[ft]; isStruct && !strings.HasPrefix(ft, "*") {
					w.emit(v, recv, true, st, w.isInit(recv), "method "+sel.Sel.Name)
					w.expr(recv.X, st)
					for _, a := range c.Args {
						w.expr(a, st)
					}
					return
				}
			}
		}
		// passing PtrVar.ptr to a function: ScanToGo writes through it, reflect reads
		w.expr(sel.X, st)
	} else {
		w.expr(c.Fun, st)
	}
	fname := ""
	if sel, ok := c.Fun.(*ast.SelectorExpr); ok {
		fname = sel.Sel.Name
	}
	for _, a := range c.Args {
		if sel, ok := a.(*ast.SelectorExpr); ok {
			if v, ok := w.sharedVar(sel); ok && v == "PtrVar.ptr" {
				// the pointer itself never changes; what matters is the pointee
				write := !(fname == "ValueOf" || fname == "Indirect" || fname == "TypeOf")
				w.emit("PtrVar.*ptr", sel, write, st, false, "passed to "+fname)
				continue
			}
		}
		w.expr(a, st)
	}
}

// writeTarget handles an assignment target (or delete's map argument).
func (w *walker) writeTarget(lhs ast.Expr, st lockState, note string) {
	base := lhsBase(lhs)
	switch b := base.(type) {
	case *ast.SelectorExpr:
		if _, ok := w.sharedVar(b); ok {
			w.access(b, true, st, note)
			w.expr(b.X, st)
		} else {
			w.expr(b, st)
		}
	case *ast.Ident:
		if v, ok := w.alias[b.Name]; ok && base != lhs {
			w.emit(v, b, true, st, false, "alias "+b.Name)
		}
	default:
		w.expr(base, st)
	}
	// index expressions on the way are reads
	for e := lhs; ; {
		switch x := e.(type) {
		case *ast.IndexExpr:
			w.expr(x.Index, st)
			e = x.X
			continue
		case *ast.ParenExpr:
			e = x.X
			continue
		case *ast.StarExpr:
			e = x.X
			continue
		}
		break
	}
}

func (w *walker) funcLit(f *ast.FuncLit) {
	w.inLit++
	saved := w.env
	w.env = map[string]string{}
	for k, v := range saved {
		w.env[k] = v
	}
	w.params(f.Type)
	w.block(f.Body.List, lockState{})
	w.env = saved
	w.inLit--
}

func (w *walker) params(ft *ast.FuncType) {
	if ft.Params != nil {
		for _, fl := range ft.Params.List {
			for _, n := range fl.Names {
				w.env[n.Name] = typeString(fl.Type)
			}
		}
	}
	if ft.Results != nil {
		for _, fl := range ft.Results.List {
			for _, n := range fl.Names {
				w.env[n.Name] = typeString(fl.Type)
			}
		}
	}
}

func terminates(list []ast.Stmt) bool {
	if len(list) == 0 {
		return false
	}
	switch s := list[len(list)-1].(type) {
	case *ast.ReturnStmt:
		return true
	case *ast.BranchStmt:
		return true // break/continue/goto leave the block
	case *ast.ExprStmt:
		if c, ok := s.X.(*ast.CallExpr); ok {
			if id, ok := c.Fun.(*ast.Ident); ok && id.Name == "panic" {
				return true
			}
		}
	case *ast.BlockStmt:
		return terminates(s.List)
	}
	return false
}

func condIdent(e ast.Expr) string {
	if id, ok := e.(*ast.Ident); ok {
		return id.Name
	}
	return ""
}

// block walks statements in order and returns the lock state at the end.
func (w *walker) block(list []ast.Stmt, st lockState) lockState {
	for _, s := range list {
		st = w.stmt(s, st)
	}
	return st
}

func intersect(a, b lockState) lockState {
	out := lockState{}
	for k, va := range a {
		if vb, ok := b[k]; ok && va.cond == vb.cond {
			out[k] = heldEntry{excl: va.excl && vb.excl, cond: va.cond}
		}
	}
	return out
}

func (w *walker) stmt(s ast.Stmt, st lockState) lockState {
	switch s := s.(type) {
	case *ast.ExprStmt:
		if lock, m, ok := w.lockCall(s.X); ok {
			st = st.clone()
			switch m {
			case "Lock":
				st[lock] = heldEntry{excl: true}
			case "RLock":
				st[lock] = heldEntry{excl: false}
			default:
				delete(st, lock)
			}
			return st
		}
		w.expr(s.X, st)
	case *ast.DeferStmt:
		if _, _, ok := w.lockCall(s.Call); ok {
			return st // unlock at function exit: the lock stays held for the rest of the body
		}
		if fl, ok := s.Call.Fun.(*ast.FuncLit); ok {
			w.funcLit(fl)
		} else {
			w.expr(s.Call, lockState{})
		}
	case *ast.GoStmt:
		if fl, ok := s.Call.Fun.(*ast.FuncLit); ok {
			w.funcLit(fl)
			for _, a := range s.Call.Args {
				w.expr(a, st)
			}
		} else {
			w.expr(s.Call, lockState{})
		}
	case *ast.AssignStmt:
		for _, r := range s.Rhs {
			w.expr(r, st)
		}
		for i, l := range s.Lhs {
			if s.Tok != token.ASSIGN && s.Tok != token.DEFINE {
				// op-assignment reads and writes
				if sel, ok := lhsBase(l).(*ast.SelectorExpr); ok {
					if _, ok := w.sharedVar(sel); ok {
						w.access(sel, false, st, "")
					}
				}
			}
			if id, ok := l.(*ast.Ident); ok {
				if len(s.Rhs) == len(s.Lhs) {
					r := s.Rhs[i]
					if t := w.typeOf(r); t != "" {
						w.env[id.Name] = t
					} else if s.Tok == token.DEFINE {
						delete(w.env, id.Name)
					}
					delete(w.alias, id.Name)
					if w.inLit == 0 {
						if isFreshAlloc(r) && s.Tok == token.DEFINE {
							w.fresh[id.Name] = true
						} else {
							delete(w.fresh, id.Name)
						}
					}
					if sel, ok := r.(*ast.SelectorExpr); ok {
						if v, ok := w.sharedVar(sel); ok && strings.HasPrefix(w.typeOf(sel), "map[") {
							w.alias[id.Name] = v
						}
					}
				} else if len(s.Rhs) == 1 && i == 0 {
					if t := w.typeOf(s.Rhs[0]); t != "" {
						w.env[id.Name] = t
					}
				}
				continue
			}
			w.writeTarget(l, st, "")
		}
	case *ast.IncDecStmt:
		if sel, ok := lhsBase(s.X).(*ast.SelectorExpr); ok {
			if _, ok := w.sharedVar(sel); ok {
				w.access(sel, false, st, "")
			}
		}
		w.writeTarget(s.X, st, "")
	case *ast.DeclStmt:
		if gd, ok := s.Decl.(*ast.GenDecl); ok {
			for _, sp := range gd.Specs {
				if vs, ok := sp.(*ast.ValueSpec); ok {
					for i, n := range vs.Names {
						if vs.Type != nil {
							w.env[n.Name] = typeString(vs.Type)
						} else if i < len(vs.Values) {
							w.env[n.Name] = w.typeOf(vs.Values[i])
						}
					}
					for _, v := range vs.Values {
						w.expr(v, st)
					}
				}
			}
		}
	case *ast.ReturnStmt:
		for _, r := range s.Results {
			w.expr(r, st)
		}
	case *ast.BlockStmt:
		return w.block(s.List, st)
	case *ast.IfStmt:
		if s.Init != nil {
			st = w.stmt(s.Init, st)
		}
		w.expr(s.Cond, st)
		c := condIdent(s.Cond)
		thenIn, elseIn := st.clone(), st.clone()
		if c != "" {
			for k, v := range st {
				if v.cond == c {
					thenIn[k] = heldEntry{excl: v.excl}
					delete(elseIn, k)
				}
			}
		}
		thenOut := w.block(s.Body.List, thenIn)
		thenTerm := terminates(s.Body.List)
		elseOut, elseTerm := elseIn, false
		if s.Else != nil {
			elseOut = w.stmt(s.Else, elseIn)
			if b, ok := s.Else.(*ast.BlockStmt); ok {
				elseTerm = terminates(b.List)
			}
		}
		switch {
		case thenTerm && elseTerm:
			return st
		case thenTerm:
			return w.restoreCond(elseOut, st, c, false)
		case elseTerm:
			return thenOut
		}
		out := intersect(thenOut, elseOut)
		if c != "" && w.once[c] == 1 {
			for k, v := range thenOut {
				if _, ok := elseOut[k]; !ok && v.cond == "" {
					out[k] = heldEntry{excl: v.excl, cond: c}
				}
			}
		}
		return out
	case *ast.ForStmt:
		if s.Init != nil {
			st = w.stmt(s.Init, st)
		}
		w.expr(s.Cond, st)
		w.block(s.Body.List, st.clone())
		if s.Post != nil {
			w.stmt(s.Post, st.clone())
		}
	case *ast.RangeStmt:
		w.expr(s.X, st)
		if id, ok := s.Value.(*ast.Ident); ok {
			if t := w.typeOf(s.X); strings.HasPrefix(t, "[]") {
				w.env[id.Name] = t[2:]
			} else {
				delete(w.env, id.Name)
			}
		}
		w.block(s.Body.List, st.clone())
	case *ast.SwitchStmt:
		if s.Init != nil {
			st = w.stmt(s.Init, st)
		}
		w.expr(s.Tag, st)
		for _, cc := range s.Body.List {
			if c, ok := cc.(*ast.CaseClause); ok {
				for _, e := range c.List {
					w.expr(e, st)
				}
				w.block(c.Body, st.clone())
			}
		}
	case *ast.TypeSwitchStmt:
		if s.Init != nil {
			st = w.stmt(s.Init, st)
		}
		w.stmt(s.Assign, st)
		for _, cc := range s.Body.List {
			if c, ok := cc.(*ast.CaseClause); ok {
				w.block(c.Body, st.clone())
			}
		}
	case *ast.SelectStmt:
		for _, cc := range s.Body.List {
			if c, ok := cc.(*ast.CommClause); ok {
				if c.Comm != nil {
					w.stmt(c.Comm, st.clone())
				}
				w.block(c.Body, st.clone())
			}
		}
	case *ast.SendStmt:
		w.expr(s.Chan, st)
		w.expr(s.Value, st)
	case *ast.LabeledStmt:
		return w.stmt(s.Stmt, st)
	}
	return st
}

// restoreCond: the then-branch returned; the state afterwards is the else
// state, in which entries that were "held iff c" before stay so.
func (w *walker) restoreCond(elseOut, before lockState, c string, _ bool) lockState {
	out := elseOut.clone()
	for k, v := range before {
		if v.cond != "" {
			if _, ok := out[k]; !ok && v.cond != c {
				out[k] = v
			}
		}
	}
	return out
}

func countAssignments(body *ast.BlockStmt) map[string]int {
	n := map[string]int{}
	ast.Inspect(body, func(x ast.Node) bool {
		switch s := x.(type) {
		case *ast.AssignStmt:
			for _, l := range s.Lhs {
				if id, ok := l.(*ast.Ident); ok {
					n[id.Name]++
				}
			}
		case *ast.IncDecStmt:
			if id, ok := s.X.(*ast.Ident); ok {
				n[id.Name]++
			}
		case *ast.UnaryExpr:
			if s.Op == token.AND {
				if id, ok := s.X.(*ast.Ident); ok {
					n[id.Name] += 2 // address taken: may change behind our back
				}
			}
		}
		return true
	})
	return n
}

func (w *walker) walkPkg() {
	for _, f := range w.p.files {
		w.file = filepath.Base(w.p.fset.Position(f.Pos()).Filename)
		for _, d := range f.Decls {
			fd, ok := d.(*ast.FuncDecl)
			if !ok || fd.Body == nil {
				continue
			}
			w.fn = fd.Name.Name
			w.env = map[string]string{}
			w.fresh = map[string]bool{}
			w.alias = map[string]string{}
			w.once = countAssignments(fd.Body)
			w.inLit = 0
			if fd.Recv != nil && len(fd.Recv.List) == 1 {
				rt := typeString(fd.Recv.List[0].Type)
				w.fn = baseType(rt) + "." + fd.Name.Name
				for _, n := range fd.Recv.List[0].Names {
					w.env[n.Name] = rt
				}
			}
			w.params(fd.Type)
			w.block(fd.Body.List, lockState{})
		}
	}
}

// ---- entry point -------------------------------------------------------------------------

// Facts is the regenerated table.
type Facts struct {
	Vars  []string // in a fixed order
	Sites map[string][]SiteFact
	Locks []string // candidate mutexes
}

// ExtractFacts parses pkg/eval and pkg/eval/vars of the repository tree.
func ExtractFacts(repo string, allow []AllowEntry) (*Facts, error) {
	evalPkg, err := loadPkg(filepath.Join(repo, "pkg", "eval"))
	if err != nil {
		return nil, err
	}
	varsPkg, err := loadPkg(filepath.Join(repo, "pkg", "eval", "vars"))
	if err != nil {
		return nil, err
	}
	evFields := evalPkg.order["Evaler"]
	if len(evFields) == 0 {
		return nil, fmt.Errorf("type Evaler not found in pkg/eval")
	}
	hasMu := false
	fs := map[string]bool{}
	for _, f := range evFields {
		if f == "mu" {
			hasMu = true
			continue
		}
		fs[f] = true
	}
	if !hasMu {
		return nil, fmt.Errorf("Evaler has no field mu")
	}
	if _, ok := evalPkg.structs["Ns"]["slots"]; !ok {
		return nil, fmt.Errorf("Ns has no field slots")
	}
	if _, ok := varsPkg.structs["PtrVar"]["ptr"]; !ok {
		return nil, fmt.Errorf("PtrVar has no field ptr")
	}
	facts := &Facts{Sites: map[string][]SiteFact{}, Locks: []string{"Evaler.mu", "PtrVar.mutex"}}
	w1 := &walker{p: evalPkg, targets: []target{{"Evaler", fs}, {"Ns", map[string]bool{"slots": true}}}}
	w1.walkPkg()
	w2 := &walker{p: varsPkg, targets: []target{{"PtrVar", map[string]bool{"ptr": true}}}}
	w2.walkPkg()
	for _, f := range evFields {
		if f != "mu" {
			facts.Vars = append(facts.Vars, "Evaler."+f)
		}
	}
	facts.Vars = append(facts.Vars, "Ns.slots", "PtrVar.*ptr")
	known := map[string]bool{}
	for _, v := range facts.Vars {
		known[v] = true
	}
	for _, s := range append(w1.sites, w2.sites...) {
		if s.Var == "PtrVar.ptr" {
			// the pointer field itself: written by the constructor only
			s.Var = "PtrVar.*ptr"
		}
		if !known[s.Var] {
			known[s.Var] = true
			facts.Vars = append(facts.Vars, s.Var) // unresolved.*: shown, and they fail
		}
		for _, a := range allow {
			if a.Var == s.Var && a.matches(s.Name) {
				s.Init = true
				s.Why = a.Why
			}
		}
		facts.Sites[s.Var] = append(facts.Sites[s.Var], s)
	}
	return facts, nil
}

// AllowEntry: a committed justification that a site only runs during construction.
type AllowEntry struct {
	Var, Func, Why string
}

// matches compares the function part of a site name file:func:line.
func (a AllowEntry) matches(site string) bool {
	p := strings.Split(site, ":")
	return len(p) >= 3 && p[0]+":"+p[1] == a.Func
}

// LoadAllow reads the allow-list: `<var> <file:func> <reason…>` per line.
func LoadAllow(path string) ([]AllowEntry, error) {
	data, err := os.ReadFile(path)
	if err != nil {
		return nil, err
	}
	var out []AllowEntry
	for _, l := range strings.Split(string(data), "\n") {
		l = strings.TrimSpace(l)
		if l == "" || strings.HasPrefix(l, "#") {
			continue
		}
		f := strings.Fields(l)
		if len(f) < 3 {
			return nil, fmt.Errorf("allow-list: need `<var> <file:func> <reason>`: %q", l)
		}
		out = append(out, AllowEntry{f[0], f[1], strings.Join(f[2:], " ")})
	}
	return out, nil
}
