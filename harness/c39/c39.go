// Package c39: one interpreter can safely be used from many goroutines.
//
// Two kinds of ops:
//
//	static <var>            the regenerated table of access sites of one shared
//	                        variable (appended to the op line) with the lockset
//	                        obligation evaluated on it — by the Go function
//	                        checkVar here (impl line) and by C39.checkVar in Lean
//	                        (model line); the oracle fails when the obligation
//	                        does not hold for the variable.
//	cta <var>               the regenerated check-then-act table of the module
//	                        table (harness/c39/cta.go: every keyed write of
//	                        Evaler.modules with the lookup that guards it and the
//	                        critical sections of both) with the obligation
//	                        ctaCheck — test-and-set inside ONE critical section on
//	                        every path from `use` — evaluated by the Go twin and
//	                        by C39.ctaCheck in Lean; the oracle fails unless the
//	                        verdict is `tas`.
//	dyn <mode> <procs> <goroutine>…
//	                        2..8 goroutines run generated programs on ONE real
//	                        Evaler in a child process built with the race
//	                        detector; the impl line is the final shared state and
//	                        every evaluation's result, the model line is what a
//	                        sequential run gives (all sequential orders give the
//	                        same: C39_serial_order_irrelevant); the oracle fails
//	                        on race reports, fatal errors, panics, hangs,
//	                        results no sequential order produces, modules
//	                        evaluated twice and half-initialised modules.
package c39

import (
	"bufio"
	"encoding/json"
	"fmt"
	"io"
	"os"
	"os/exec"
	"path/filepath"
	"regexp"
	"strconv"
	"strings"
	"sync"
	"time"

	"verifharness/common"
)

// childEnv makes this very binary behave as the child (the variant without the
// race detector; the race variant is the separately built harness/c39/child).
const childEnv = "C39_PLAIN_CHILD"

func init() {
	if os.Getenv(childEnv) != "" {
		ChildMain()
		os.Exit(0)
	}
	common.Register("C39", run)
}

const rule = "static: one op per shared variable (every field of eval.Evaler, Ns.slots, the pointee of vars.PtrVar) carrying " +
	"ALL its access sites regenerated from $VERIF_REPO by harness/c39/extract.go (exhaustive over the source); " +
	"cta: one op carrying every keyed write of Evaler.modules with its guarding lookup and critical sections (harness/c39/cta.go); " +
	"dyn: fixed families (2..8 goroutines importing the same / different / nested / circular / bundled modules, del of globals, " +
	"Call, Check) plus random programs over the DSL of harness/c39/dsl.go (Eval on the shared and on private global namespaces, Call, Check; " +
	"peach, run-parallel and pipelines inside; counters, flags, private variables, module imports), each run in a child process " +
	"built with -race under GOMAXPROCS 1..8; non-trivial = more than one goroutine touches the same module or namespace; distinct by op line"

type opResult struct {
	Op, Impl, Class, Detail, Tag string
}

// ---- static ops ----------------------------------------------------------------------

// checkVar is the Go twin of C39.checkVar (Lockset.lean).
func checkVar(sites []SiteFact, cands []string) string {
	immutable := true
	for _, s := range sites {
		if s.Write && !s.Init {
			immutable = false
		}
	}
	if immutable {
		return "immutable"
	}
	guarded := func(s SiteFact, m string) bool {
		if s.Init {
			return true
		}
		for _, h := range s.Held {
			if h.Lock == m && (h.Excl || !s.Write) {
				return true
			}
		}
		return false
	}
	for _, m := range cands {
		all := true
		for _, s := range sites {
			if !guarded(s, m) {
				all = false
				break
			}
		}
		if all {
			return "lock " + m
		}
	}
	if len(cands) == 0 {
		return "unprotected no-mutex"
	}
	for _, s := range sites {
		if !guarded(s, cands[0]) {
			return "unprotected " + s.Name
		}
	}
	return "unprotected ?"
}

func staticClass(v, verdict string) string {
	if !strings.HasPrefix(verdict, "unprotected") {
		return ""
	}
	switch {
	case v == "Evaler.modules":
		return "modules-map-unlocked"
	case v == "Ns.slots" && strings.Contains(verdict, "delLocalVarOp"):
		return "ns-slot-del-unlocked"
	case strings.HasPrefix(v, "unresolved."):
		return "extractor-unresolved-receiver"
	}
	return "shared-field-unprotected"
}

func runStatic(repo string, allow []AllowEntry, v string) opResult {
	facts, err := ExtractFacts(repo, allow)
	if err != nil {
		return opResult{Op: "static\t" + v, Impl: "extract-error", Class: "extractor-error", Detail: err.Error(), Tag: "static-error"}
	}
	sites := facts.Sites[v]
	fields := []string{"static", v, strings.Join(facts.Locks, ",")}
	for _, s := range sites {
		fields = append(fields, s.Encode())
	}
	verdict := checkVar(sites, facts.Locks)
	res := opResult{Op: strings.Join(fields, "\t"), Impl: verdict}
	res.Tag = "static-" + strings.Fields(verdict)[0]
	if cls := staticClass(v, verdict); cls != "" {
		res.Class = cls
		var un []string
		for _, s := range sites {
			if !s.Init {
				ok := false
				for _, h := range s.Held {
					if h.Lock == facts.Locks[0] && (h.Excl || !s.Write) {
						ok = true
					}
				}
				if !ok {
					k := "read"
					if s.Write {
						k = "write"
					}
					un = append(un, s.Name+" ("+k+")")
				}
			}
		}
		res.Detail = fmt.Sprintf("%s: no mutex is held at every access and it is written after construction; sites without %s: %s",
			v, facts.Locks[0], strings.Join(un, ", "))
	}
	return res
}

// runCta evaluates the check-then-act obligation on the regenerated table.
func runCta(repo, v string) opResult {
	if v != "Evaler.modules" {
		return opResult{Op: "cta\t" + v, Impl: "bad-op", Class: "bad-op", Detail: "cta is defined for Evaler.modules only"}
	}
	tbl, err := ExtractCta(repo)
	if err != nil {
		return opResult{Op: "cta\t" + v, Impl: "extract-error", Class: "extractor-error", Detail: err.Error(), Tag: "cta-error"}
	}
	fields := []string{"cta", v}
	for _, e := range tbl {
		fields = append(fields, e.Encode())
	}
	verdict := ctaCheck(tbl)
	res := opResult{Op: strings.Join(fields, "\t"), Impl: verdict, Tag: "cta-" + strings.Fields(verdict)[0]}
	switch {
	case verdict == "tas":
	case verdict == "no-insert":
		res.Class = "extractor-error"
		res.Detail = "no insertion into Evaler.modules is reachable from `use`: the extractor has lost track of the code"
	default:
		res.Class = "modules-check-then-act"
		var bad []string
		for _, e := range tbl {
			if e.Reach && !e.Init && !e.atomic() {
				g := "no guarding lookup"
				if e.Guard != "-" {
					g = fmt.Sprintf("lookup %s in critical section %d", e.Guard, e.GSec)
				}
				bad = append(bad, fmt.Sprintf("%s (critical section %d; %s)", e.Name, e.Sec, g))
			}
		}
		res.Detail = "the module table is written on a path from `use` outside a test-and-set (lookup and dependent write are not in one exclusive critical section of Evaler.mu), so two goroutines can both install a module: " + strings.Join(bad, "; ")
	}
	return res
}

// ---- dynamic ops -----------------------------------------------------------------------

type childProc struct {
	cmd    *exec.Cmd
	stdin  io.WriteCloser
	stdout *bufio.Reader
	mu     sync.Mutex
	errBuf []byte
	n      int // ops sent
}

func (c *childProc) Write(p []byte) (int, error) {
	c.mu.Lock()
	c.errBuf = append(c.errBuf, p...)
	c.mu.Unlock()
	return len(p), nil
}

func (c *childProc) stderr() string {
	c.mu.Lock()
	defer c.mu.Unlock()
	return string(c.errBuf)
}

func startChild(bin string) (*childProc, error) {
	cmd := exec.Command(bin)
	cmd.Env = append(os.Environ(), "GORACE=halt_on_error=0 history_size=2", "GOTRACEBACK=all", childEnv+"=1")
	c := &childProc{cmd: cmd}
	var err error
	if c.stdin, err = cmd.StdinPipe(); err != nil {
		return nil, err
	}
	so, err := cmd.StdoutPipe()
	if err != nil {
		return nil, err
	}
	c.stdout = bufio.NewReaderSize(so, 1<<20)
	cmd.Stderr = c
	if err := cmd.Start(); err != nil {
		return nil, err
	}
	return c, nil
}

func (c *childProc) kill() {
	c.stdin.Close()
	c.cmd.Process.Kill()
	c.cmd.Wait()
}

var frameRe = regexp.MustCompile(`(?m)^\s+(src\.elv\.sh/[^\s(]+(?:\([^)]*\))?[^\s(]*)\(`)

// raceSummary extracts, from the first race report, the innermost elvish
// frames of the two conflicting accesses.
func raceSummary(stderr string) string {
	i := strings.Index(stderr, "WARNING: DATA RACE")
	if i < 0 {
		return ""
	}
	rep := stderr[i:]
	if j := strings.Index(rep, "Goroutine "); j > 0 {
		rep = rep[:j]
	}
	parts := strings.SplitN(rep, "\nPrevious ", 2)
	var tops []string
	for _, p := range parts {
		kind := strings.TrimSpace(strings.SplitN(strings.TrimPrefix(p, "WARNING: DATA RACE\n"), " at ", 2)[0])
		m := frameRe.FindAllStringSubmatch(p, 3)
		var fs []string
		for _, x := range m {
			fs = append(fs, strings.TrimPrefix(x[1], "src.elv.sh/pkg/"))
		}
		rt := ""
		for _, l := range strings.Split(p, "\n") {
			l = strings.TrimSpace(l)
			if strings.HasPrefix(l, "runtime.map") {
				rt = " [" + strings.TrimSuffix(l, "()") + "]"
				break
			}
		}
		tops = append(tops, strings.ToLower(kind)+" in "+strings.Join(fs, " < ")+rt)
	}
	return strings.Join(tops, "  <->  previous ")
}

func raceClass(summary string) string {
	moduleFns := []string{"eval.evalModule", "eval.useFromFile", "eval.use ", "eval.use<", "eval.(*Evaler).AddModule",
		"eval.(*Evaler).CheckTree", "eval.(*Evaler).loadedModule", "eval.(*Evaler).installModule", "eval.(*Evaler).uninstallModule"}
	s := summary + " "
	if strings.Contains(s, "runtime.map") {
		for _, f := range moduleFns {
			if strings.Contains(s, f) {
				return "modules-map-unlocked"
			}
		}
	}
	if strings.Contains(s, "eval.delLocalVarOp.exec") {
		return "ns-slot-del-unlocked"
	}
	return "data-race"
}

func fatalLine(stderr string) string {
	for _, l := range strings.Split(stderr, "\n") {
		if strings.HasPrefix(l, "fatal error: ") || strings.HasPrefix(l, "panic: ") {
			return l
		}
	}
	return ""
}

// implLine renders a child result like C39.showResult.
func implLine(r *ChildResult) string {
	var cs, es []string
	for _, c := range r.Counters {
		cs = append(cs, strconv.FormatInt(c, 10))
	}
	fl, ms := "", ""
	for _, f := range r.Flags {
		if f {
			fl += "1"
		} else {
			fl += "0"
		}
	}
	for _, l := range r.Loads {
		if l > 0 {
			ms += "1"
		} else {
			ms += "0"
		}
	}
	es = append(es, r.Evals...)
	return "c=" + strings.Join(cs, ",") + " f=" + fl + " m=" + ms + " e=" + strings.Join(es, "|")
}

type dynRunner struct {
	bins    map[string]string // mode -> binary
	timeout time.Duration
	expect  func(spec string) string // the sequential result, for the oracle (Go twin of the model)
}

// runDyn executes one dyn op on child ch (may be nil: started on demand);
// returns the result and the child to keep using (nil if it must be restarted).
func (d *dynRunner) runDyn(spec string, ch *childProc) (opResult, *childProc) {
	f := strings.Split(spec, "\t")
	res := opResult{Op: spec, Tag: dynTag(f)}
	if len(f) < 5 || f[0] != "dyn" {
		res.Impl, res.Class, res.Detail = "bad-op", "bad-op", "malformed dyn op"
		return res, ch
	}
	mode, procs, gs := f[1], f[2], f[3:]
	bin, ok := d.bins[mode]
	if !ok {
		bin, mode = d.bins["plain"], "plain"
	}
	if ch == nil {
		var err error
		if ch, err = startChild(bin); err != nil {
			res.Impl, res.Class, res.Detail = "child-error", "harness-child", err.Error()
			return res, nil
		}
	}
	before := len(ch.stderr())
	n := ch.n
	ch.n++
	type rd struct {
		line string
		err  error
	}
	rc := make(chan rd, 1)
	go func() {
		l, err := ch.stdout.ReadString('\n')
		rc <- rd{l, err}
	}()
	if _, err := io.WriteString(ch.stdin, procs+"\t"+strings.Join(gs, "\t")+"\n"); err != nil {
		ch.kill()
		res.Impl, res.Class, res.Detail = "child-error", "harness-child", err.Error()
		return res, nil
	}
	var r rd
	select {
	case r = <-rc:
	case <-time.After(d.timeout):
		ch.kill()
		res.Impl, res.Class = "TIMEOUT", "hang"
		res.Detail = fmt.Sprintf("no result within %s (deadlock?) programs: %s", d.timeout, describe(gs))
		return res, nil
	}
	var cr ChildResult
	if r.err != nil || json.Unmarshal([]byte(r.line), &cr) != nil {
		ch.cmd.Wait()
		se := ch.stderr()[before:]
		ch.kill()
		res.Impl = "FATAL"
		fl := fatalLine(se)
		res.Class = "fatal-error"
		if strings.Contains(fl, "concurrent map") {
			res.Class = "fatal-error"
			for _, fn := range []string{"eval.evalModule", "eval.useFromFile", "eval.use(", "AddModule", "CheckTree"} {
				if strings.Contains(se, fn) {
					res.Class = "modules-map-unlocked"
				}
			}
		} else if strings.HasPrefix(fl, "panic: ") {
			res.Class = "panic"
		}
		if fl == "" {
			fl = "child died: " + lastLines(se, 3)
		}
		res.Detail = fl + "; programs: " + describe(gs)
		return res, nil
	}
	// wait until the stderr reader has seen this op's marker
	marker := fmt.Sprintf("%s %d\n", DoneMarker, n)
	deadline := time.Now().Add(30 * time.Second)
	var se string
	for {
		se = ch.stderr()[before:]
		if strings.Contains(se, marker) || time.Now().After(deadline) {
			break
		}
		time.Sleep(time.Millisecond)
	}
	res.Impl = implLine(&cr)
	keep := ch
	want := d.expect(spec)
	switch {
	case strings.Contains(se, "WARNING: DATA RACE"):
		sum := raceSummary(se)
		res.Class = raceClass(sum)
		res.Detail = "race detector: " + sum + "; programs: " + describe(gs)
		ch.kill() // the detector reports each race once per process: start afresh
		keep = nil
	case len(cr.Problems) > 0:
		res.Class, res.Detail = "unexpected-output", strings.Join(cr.Problems, "; ")+"; programs: "+describe(gs)
	case multiLoad(&cr) != "":
		res.Class = "module-evaluated-twice"
		res.Detail = multiLoad(&cr) + " (a sequential order evaluates a module once); programs: " + describe(gs)
	case res.Impl != want:
		res.Class = "not-serialisable"
		res.Detail = fmt.Sprintf("concurrent run gave %q, every sequential order gives %q; programs: %s", res.Impl, want, describe(gs))
	case cr.Partial > 0:
		res.Class = "module-partial-visible"
		res.Detail = fmt.Sprintf("%d read(s) of $m:x returned $nil: `use` handed out the namespace of a module another goroutine was still evaluating; programs: %s",
			cr.Partial, describe(gs))
	}
	return res, keep
}

func multiLoad(cr *ChildResult) string {
	for i, l := range cr.Loads {
		if l > 1 {
			name := fmt.Sprintf("m%d", i)
			if i >= NFileMods {
				name = fmt.Sprintf("bm%d", i-NFileMods)
			}
			return fmt.Sprintf("module %s was evaluated %d times", name, l)
		}
	}
	return ""
}

func lastLines(s string, n int) string {
	ls := strings.Split(strings.TrimSpace(s), "\n")
	if len(ls) > n {
		ls = ls[len(ls)-n:]
	}
	return strings.Join(ls, " | ")
}

// describe renders the goroutines' programs as elvish for failure details.
func describe(gs []string) string {
	var out []string
	for g, s := range gs {
		var as []string
		func() {
			defer func() { recover() }()
			for _, a := range ParseGoroutine(s) {
				switch a.Kind {
				case 'E':
					as = append(as, "Eval{"+Render(a.Stmts, g)+"}")
				case 'Q':
					as = append(as, "Eval(private ns){"+Render(a.Stmts, g)+"}")
				case 'C':
					as = append(as, fmt.Sprintf("Call{bump %d %d}", a.A, a.B))
				case 'K':
					as = append(as, "Check{"+CheckSources[a.A]+"}")
				}
			}
		}()
		out = append(out, fmt.Sprintf("g%d: %s", g, strings.Join(as, "; ")))
	}
	s := strings.Join(out, " || ")
	if len(s) > 900 {
		s = s[:900] + "…"
	}
	return s
}

func dynTag(f []string) string {
	if len(f) < 4 {
		return ""
	}
	all := strings.Join(f[3:], " ")
	var tags []string
	has := func(s string) bool { return strings.Contains(all, s) }
	uses := 0
	for _, g := range f[3:] {
		if strings.ContainsAny(g, "ub") {
			uses++
		}
	}
	switch {
	case uses >= 2:
		tags = append(tags, "concurrent-use")
	case uses == 1:
		tags = append(tags, "use")
	}
	if has("P") || has("R[") || has("L") {
		tags = append(tags, "parallel-inside")
	}
	if has("d") {
		tags = append(tags, "del")
	}
	if has("C(") {
		tags = append(tags, "call")
	}
	if has("K(") {
		tags = append(tags, "check")
	}
	if has("Q(") {
		tags = append(tags, "private-ns")
	}
	if len(tags) == 0 {
		tags = append(tags, "plain-eval")
	}
	// the class of C39_serialisable_commutative (world of the harness: nothing
	// preloaded, so no read of $m:x)
	if !has("g") && !has("h") {
		tags = append(tags, "class")
	}
	return strings.Join(tags, "+")
}

// ---- building the child ------------------------------------------------------------------

func buildChild(c *common.Ctx) (string, string) {
	root := os.Getenv("VERIF_ROOT")
	if root == "" {
		return "", "VERIF_ROOT not set"
	}
	out := filepath.Join(c.Dir, "c39child-race")
	cmd := exec.Command("go", "build", "-race", "-tags", "verif", "-o", out, "./c39/child")
	cmd.Dir = filepath.Join(root, "harness")
	cmd.Env = append(os.Environ(), "GOFLAGS=-mod=mod", "GOPROXY=off", "GOSUMDB=off", "GOTOOLCHAIN=local", "CGO_ENABLED=1")
	b, err := cmd.CombinedOutput()
	if err != nil {
		return "", lastLines(string(b), 6)
	}
	return out, ""
}

// ---- the run --------------------------------------------------------------------------------

func run(c *common.Ctx) error {
	// the children's private directories go into the run's scratch directory, which the
	// check removes: a child that is killed cannot remove its own
	if c.Dir != "" {
		tmp := filepath.Join(c.Dir, "tmp")
		os.MkdirAll(tmp, 0o755)
		os.Setenv("TMPDIR", tmp)
	}
	repo := os.Getenv("VERIF_REPO")
	if repo == "" {
		repo = "/repo"
	}
	root := os.Getenv("VERIF_ROOT")
	allow, err := LoadAllow(filepath.Join(root, "harness", "c39", "allow.txt"))
	if err != nil {
		return err
	}
	// specs
	var specs []string
	addFile := func(path string) error {
		data, err := os.ReadFile(path)
		if err != nil {
			return err
		}
		for _, l := range strings.Split(string(data), "\n") {
			if l != "" && !strings.HasPrefix(l, "#") {
				f := strings.Split(l, "\t")
				if (f[0] == "static" || f[0] == "cta") && len(f) > 2 {
					l = f[0] + "\t" + f[1] // the table is regenerated
				}
				specs = append(specs, l)
			}
		}
		return nil
	}
	if c.OpsIn != "" {
		if err := addFile(c.OpsIn); err != nil {
			return err
		}
	} else {
		facts, err := ExtractFacts(repo, allow)
		if err != nil {
			return fmt.Errorf("fact extraction: %v", err)
		}
		for _, v := range facts.Vars {
			specs = append(specs, "static\t"+v)
		}
		specs = append(specs, "cta\tEvaler.modules")
		if c.Corpus != "" {
			if err := addFile(c.Corpus); err != nil {
				return err
			}
		}
		genDyn(c, func(fields ...string) { specs = append(specs, strings.Join(fields, "\t")) })
	}
	// children
	d := &dynRunner{bins: map[string]string{}, timeout: 120 * time.Second, expect: Expected}
	needDyn := false
	for _, s := range specs {
		if strings.HasPrefix(s, "dyn\t") {
			needDyn = true
		}
	}
	raceNote := "not needed"
	if needDyn {
		if bin, msg := buildChild(c); bin != "" {
			d.bins["race"] = bin
			raceNote = "child built with go build -race"
		} else {
			raceNote = "go build -race unavailable (" + msg + "): fatal errors and wrong results only"
		}
		d.bins["plain"] = os.Args[0] // this binary, re-executed with C39_PLAIN_CHILD=1
	}
	// run: static ops in-process, dyn ops on a small pool of children
	results := make([]opResult, len(specs))
	jobs := make(chan int)
	var wg sync.WaitGroup
	workers := 4
	for wk := 0; wk < workers; wk++ {
		wg.Add(1)
		go func() {
			defer wg.Done()
			var ch *childProc
			chKey := ""
			for i := range jobs {
				f := strings.Split(specs[i], "\t")
				key := ""
				if len(f) > 2 {
					key = f[1]
				}
				if ch != nil && key != chKey {
					ch.kill()
					ch = nil
				}
				chKey = key
				results[i], ch = d.runDyn(specs[i], ch)
			}
			if ch != nil {
				ch.kill()
			}
		}()
	}
	for i, s := range specs {
		f := strings.Split(s, "\t")
		switch f[0] {
		case "static":
			if len(f) < 2 {
				results[i] = opResult{Op: s, Impl: "bad-op", Class: "bad-op"}
			} else {
				results[i] = runStatic(repo, allow, f[1])
			}
		case "cta":
			if len(f) < 2 {
				results[i] = opResult{Op: s, Impl: "bad-op", Class: "bad-op"}
			} else {
				results[i] = runCta(repo, f[1])
			}
		case "dyn":
			jobs <- i
		default:
			results[i] = opResult{Op: s, Impl: "bad-op", Class: "bad-op", Detail: "unknown op"}
		}
	}
	close(jobs)
	wg.Wait()
	// write
	var ops, impl, ora strings.Builder
	stats := common.Stats{Rule: rule, Tags: map[string]int{}}
	distinct := map[string]bool{}
	races, nsites := 0, 0
	for i, r := range results {
		ops.WriteString(r.Op + "\n")
		impl.WriteString(strings.ReplaceAll(r.Impl, "\n", "\\n") + "\n")
		if r.Class != "" {
			fmt.Fprintf(&ora, "%d\t%s\t%s\n", i, r.Class, strings.ReplaceAll(r.Detail, "\n", "\\n"))
			stats.OracleFailures++
			if strings.HasPrefix(r.Detail, "race detector") {
				races++
			}
		}
		if strings.HasPrefix(r.Op, "static\t") {
			nsites += len(strings.Split(r.Op, "\t")) - 3
		}
		if r.Tag != "" {
			stats.Tags[r.Tag]++
			distinct[r.Op] = true
		} else {
			stats.Tags["(trivial)"]++
		}
		if len(stats.Samples) < 6 && i%11 == 0 {
			s := r.Op
			if len(s) > 200 {
				s = s[:200] + "…"
			}
			stats.Samples = append(stats.Samples, strings.ReplaceAll(s, "\t", " ")+"  =>  "+r.Impl)
		}
	}
	stats.Evaluations = len(results)
	stats.DistinctNontrivial = len(distinct)
	c.Extra["race_detector"] = raceNote
	c.Extra["race_reports"] = races
	c.Extra["static_sites_extracted"] = nsites
	c.Extra["allow_list_entries"] = len(allow)
	stats.Extra = c.Extra
	for name, data := range map[string]string{"ops.txt": ops.String(), "impl.out": impl.String(), "oracle.out": ora.String()} {
		if err := os.WriteFile(filepath.Join(c.Dir, name), []byte(data), 0o644); err != nil {
			return err
		}
	}
	return common.WriteStats(c, &stats)
}
