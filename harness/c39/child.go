package c39

// The child: executes dynamic ops against the real elvish code — per op one
// fresh Evaler and 2..8 goroutines — and prints one JSON line per op.  It is
// a separate program (harness/c39/child, built by the parent with
// `go build -race`) because what it looks for kills or taints the process:
// Go's "concurrent map writes" is a fatal error that cannot be recovered, and
// the race detector reports each race once per process (the parent restarts
// the child after a report).

import (
	"bufio"
	"encoding/json"
	"fmt"
	"os"
	"path/filepath"
	"runtime"
	"strconv"
	"strings"
	"sync"
	"sync/atomic"
	"time"

	"src.elv.sh/pkg/eval"
	"src.elv.sh/pkg/eval/vals"
	"src.elv.sh/pkg/eval/vars"
	"src.elv.sh/pkg/mods"
	"src.elv.sh/pkg/parse"
)

// ChildResult is what one dynamic op produced on the real code.
type ChildResult struct {
	Counters []int64  `json:"counters"`
	Flags    []bool   `json:"flags"`
	Loads    []int64  `json:"loads"`   // how often each module body ran (file modules, then bundled)
	Partial  int      `json:"partial"` // reads of $m:x that saw a namespace whose module had not finished loading
	Evals    []string `json:"evals"`   // per goroutine: results of its actions joined by ';'
	Problems []string `json:"problems"`
}

type world struct {
	ev       *eval.Evaler
	counters [NCounters]atomic.Int64
	loads    [NFileMods + NBundled]atomic.Int64
	partial  atomic.Int64
	bump     eval.Callable
	probMu   sync.Mutex
	problems []string
}

func (w *world) problem(format string, a ...any) {
	w.probMu.Lock()
	w.problems = append(w.problems, fmt.Sprintf(format, a...))
	w.probMu.Unlock()
}

func newWorld(dir string) (*world, error) {
	lib := filepath.Join(dir, "lib")
	if err := os.MkdirAll(lib, 0o755); err != nil {
		return nil, err
	}
	for k := 0; k < NFileMods; k++ {
		if err := os.WriteFile(filepath.Join(lib, fmt.Sprintf("m%d.elv", k)), []byte(FileModuleSource(k)), 0o644); err != nil {
			return nil, err
		}
	}
	w := &world{}
	ev := eval.NewEvaler()
	mods.AddTo(ev)
	ev.LibDirs = []string{lib}
	for k := 0; k < NBundled; k++ {
		ev.BundledModules[fmt.Sprintf("bm%d", k)] = BundledModuleSource(k)
	}
	ev.ExtendBuiltin(eval.BuildNs().AddGoFns(map[string]any{
		"c39inc": func(c, k int) error {
			if c < 0 || c >= NCounters {
				return fmt.Errorf("bad counter %d", c)
			}
			w.counters[c].Add(int64(k))
			return nil
		},
		"c39load": func(m int) error {
			if m < 0 || m >= len(w.loads) {
				return fmt.Errorf("bad module %d", m)
			}
			w.loads[m].Add(1)
			return nil
		},
		"c39yield": func() {
			runtime.Gosched()
			time.Sleep(20 * time.Microsecond)
		},
	}))
	w.ev = ev
	var setup strings.Builder
	for i := 0; i < NFlags; i++ {
		fmt.Fprintf(&setup, "var f%d = $false\n", i)
	}
	setup.WriteString("fn bump {|c k| c39inc $c $k }\n")
	if err := ev.Eval(parse.Source{Name: "[setup]", Code: setup.String()}, eval.EvalCfg{}); err != nil {
		return nil, fmt.Errorf("setup: %v", err)
	}
	v := ev.Global().IndexString("bump~")
	if v == nil {
		return nil, fmt.Errorf("setup: no bump~")
	}
	w.bump = v.Get().(eval.Callable)
	return w, nil
}

// errKind maps an error of Eval/Call to a small enum.
func errKind(err error) string {
	if err == nil {
		return "ok"
	}
	if parse.UnpackErrors(err) != nil {
		return "parse-error"
	}
	if eval.UnpackCompilationErrors(err) != nil {
		return "compile-error"
	}
	if exc, ok := err.(eval.Exception); ok {
		s := exc.Reason().Error()
		if len(s) > 60 {
			s = s[:60]
		}
		return "exception[" + strings.Map(func(r rune) rune {
			if r == ';' || r == '|' || r == '\t' || r == '\n' || r == ' ' {
				return '_'
			}
			return r
		}, s) + "]"
	}
	return "error"
}

// outputs canonicalises the value outputs of one evaluation.  Reads of a
// module variable are rendered by the programs as [tag value] pairs so that a
// value read from a not yet initialised module namespace can be recognised:
// it is counted in w.partial and replaced by the value the loaded module has.
func (w *world) outputs(vs []any) string {
	var xs []int
	for _, v := range vs {
		switch v := v.(type) {
		case string:
			n, err := strconv.Atoi(v)
			if err != nil {
				w.problem("unexpected output %q", v)
				continue
			}
			xs = append(xs, n)
		case int:
			xs = append(xs, v)
		case vals.List:
			if v.Len() != 2 {
				w.problem("unexpected list output %s", vals.ReprPlain(v))
				continue
			}
			tag, _ := v.Index(0)
			val, _ := v.Index(1)
			want, _ := strconv.Atoi(vals.ToString(tag))
			if s, ok := val.(string); ok && s == strconv.Itoa(want) {
				xs = append(xs, want)
			} else if val == nil {
				w.partial.Add(1)
				xs = append(xs, want)
			} else {
				w.problem("module variable read gave %s, want %d", vals.ReprPlain(val), want)
			}
		default:
			w.problem("unexpected output %s", vals.ReprPlain(v))
		}
	}
	return sortedInts(xs)
}

func (w *world) runAction(g int, a Action) string {
	switch a.Kind {
	case 'E', 'Q':
		port, collect, err := eval.ValueCapturePort()
		if err != nil {
			return "port-error"
		}
		cfg := eval.EvalCfg{Ports: []*eval.Port{nil, port, nil}}
		if a.Kind == 'Q' {
			cfg.Global = new(eval.Ns)
		}
		err = w.ev.Eval(parse.Source{Name: fmt.Sprintf("[g%d]", g), Code: Render(a.Stmts, g)}, cfg)
		outs := collect()
		return errKind(err) + ":" + w.outputs(outs)
	case 'C':
		err := w.ev.Call(w.bump, eval.CallCfg{Args: []any{strconv.Itoa(a.A), strconv.Itoa(a.B)}}, eval.EvalCfg{})
		return errKind(err) + ":-"
	case 'K':
		parseErr, fixes, compErr := w.ev.Check(parse.Source{Name: "[check]", Code: CheckSources[a.A]}, nil)
		r := "check"
		if parseErr != nil {
			r += "+parse"
		}
		if compErr != nil {
			r += "+compile"
		}
		for _, f := range fixes {
			r += "+fix=" + strings.ReplaceAll(f, " ", "_")
		}
		return r + ":-"
	}
	return "bad-action"
}

// RunDynamic executes the goroutine fields of a dyn op.
func RunDynamic(gs []string) (*ChildResult, error) {
	dir, err := os.MkdirTemp("", "c39-")
	if err != nil {
		return nil, err
	}
	defer os.RemoveAll(dir)
	w, err := newWorld(dir)
	if err != nil {
		return nil, err
	}
	progs := make([][]Action, len(gs))
	for i, g := range gs {
		progs[i] = ParseGoroutine(g)
	}
	res := &ChildResult{Evals: make([]string, len(gs))}
	var wg sync.WaitGroup
	start := make(chan struct{})
	for i := range progs {
		wg.Add(1)
		go func(i int) {
			defer wg.Done()
			<-start
			var rs []string
			for _, a := range progs[i] {
				rs = append(rs, w.runAction(i, a))
			}
			res.Evals[i] = strings.Join(rs, ";")
		}(i)
	}
	close(start)
	wg.Wait()
	for i := range w.counters {
		res.Counters = append(res.Counters, w.counters[i].Load())
	}
	for i := range w.loads {
		res.Loads = append(res.Loads, w.loads[i].Load())
	}
	g := w.ev.Global()
	for i := 0; i < NFlags; i++ {
		v := g.IndexString(fmt.Sprintf("f%d", i))
		res.Flags = append(res.Flags, v != nil && v.Get() == true)
	}
	res.Partial = int(w.partial.Load())
	res.Problems = w.problems
	return res, nil
}

// DoneMarker is written to stderr after every op, so that the parent can tell
// which race reports (also written to stderr, by the race detector, at the
// moment a race is observed) belong to which op.
const DoneMarker = "C39-OP-DONE"

// ChildMain is the main function of harness/c39/child: op lines on stdin
// (GOMAXPROCS, then the goroutine fields, tab separated), one JSON line on
// stdout per op.  Every op gets a fresh Evaler.
func ChildMain() {
	in := bufio.NewReaderSize(os.Stdin, 1<<20)
	for n := 0; ; n++ {
		line, err := in.ReadString('\n')
		line = strings.TrimRight(line, "\n")
		if line != "" {
			f := strings.Split(line, "\t")
			if procs, perr := strconv.Atoi(f[0]); perr == nil && procs > 0 {
				runtime.GOMAXPROCS(procs)
			}
			res, rerr := RunDynamic(f[1:])
			if rerr != nil {
				fmt.Fprintln(os.Stderr, "c39child:", rerr)
				os.Exit(2)
			}
			b, _ := json.Marshal(res)
			fmt.Fprintf(os.Stderr, "%s %d\n", DoneMarker, n)
			os.Stdout.Write(append(b, '\n'))
		}
		if err != nil {
			return
		}
	}
}

var _ = vars.FromInit
