package c39

// Generator of dynamic ops and the oracle's own sequential interpreter of the
// program language (written independently of the Lean model: it executes the
// goroutines one after the other on mutable state).

import (
	"fmt"
	"strconv"
	"strings"

	"verifharness/common"
)

// ---- sequential interpreter (oracle side) -----------------------------------------------

type seqState struct {
	counters [NCounters]int
	flags    [NFlags]bool
	loaded   [NFileMods + NBundled]bool
}

func (s *seqState) load(idx int) {
	if idx < 0 || idx >= len(s.loaded) || s.loaded[idx] {
		return
	}
	s.loaded[idx] = true // installed before the body runs: circular imports stop here
	for _, j := range Imports(idx) {
		s.load(j)
	}
}

// valid reports whether private variables are defined where they are used
// (otherwise compilation fails and nothing runs).
func valid(ss []Stmt, env map[int]bool) bool {
	for _, s := range ss {
		switch s.Op {
		case 'v':
			env[s.A] = true
		case 'r':
			if !env[s.A] {
				return false
			}
		case 'd':
			if !env[s.A] {
				return false
			}
			delete(env, s.A)
		case 'P', 'L', 'R':
			for _, b := range s.Body {
				inner := map[int]bool{}
				for k, v := range env {
					inner[k] = v
				}
				if !valid(b, inner) {
					return false
				}
			}
		}
	}
	return true
}

func (st *seqState) exec(ss []Stmt, env map[int]int, outs *[]int) {
	for _, s := range ss {
		switch s.Op {
		case 'i':
			if s.A < NCounters {
				st.counters[s.A] += s.B
			}
		case 'f':
			if s.A < NFlags {
				st.flags[s.A] = true
			}
		case 'o':
			*outs = append(*outs, s.A)
		case 'u':
			st.load(s.A)
		case 'b':
			st.load(NFileMods + s.A)
		case 'g':
			*outs = append(*outs, ModX(false, s.A))
		case 'h':
			*outs = append(*outs, ModX(true, s.A))
		case 'v':
			env[s.A] = s.B
		case 'r':
			*outs = append(*outs, env[s.A])
		case 'd':
			delete(env, s.A)
		case 'P', 'L':
			for k := 0; k < s.A; k++ {
				st.exec(s.Body[0], env, outs)
			}
		case 'R':
			st.exec(s.Body[0], env, outs)
			st.exec(s.Body[1], env, outs)
		}
	}
}

var checkAnswers = []string{"check", "check+compile", "check+parse", "check+fix=use_re", "check", "check", "check+fix=use_math"}

// Expected computes what running the goroutines one after the other gives.
func Expected(spec string) string {
	f := strings.Split(spec, "\t")
	if len(f) < 4 {
		return "bad-op"
	}
	st := &seqState{}
	var es []string
	for _, g := range f[3:] {
		var acts []Action
		ok := func() (ok bool) {
			defer func() {
				if recover() != nil {
					ok = false
				}
			}()
			acts = ParseGoroutine(g)
			return true
		}()
		if !ok {
			return "bad-op"
		}
		env := map[int]int{}
		var rs []string
		for _, a := range acts {
			switch a.Kind {
			case 'E', 'Q':
				e := env
				if a.Kind == 'Q' {
					e = map[int]int{}
				}
				defined := map[int]bool{}
				for k := range e {
					defined[k] = true
				}
				if !valid(a.Stmts, defined) {
					rs = append(rs, "compile-error:-")
					continue
				}
				var outs []int
				st.exec(a.Stmts, e, &outs)
				rs = append(rs, "ok:"+sortedInts(outs))
			case 'C':
				if a.A < NCounters {
					st.counters[a.A] += a.B
				}
				rs = append(rs, "ok:-")
			case 'K':
				ans := "check?"
				if a.A < len(checkAnswers) {
					ans = checkAnswers[a.A]
				}
				rs = append(rs, ans+":-")
			}
		}
		es = append(es, strings.Join(rs, ";"))
	}
	var cs []string
	for _, c := range st.counters {
		cs = append(cs, strconv.Itoa(c))
	}
	fl, ms := "", ""
	for _, b := range st.flags {
		if b {
			fl += "1"
		} else {
			fl += "0"
		}
	}
	for _, b := range st.loaded {
		if b {
			ms += "1"
		} else {
			ms += "0"
		}
	}
	return "c=" + strings.Join(cs, ",") + " f=" + fl + " m=" + ms + " e=" + strings.Join(es, "|")
}

// ---- generator ------------------------------------------------------------------------------

type gctx struct {
	r       *common.Rand
	g       int
	private bool         // inside Q(...): no flags
	noGet   bool         // imports without reading $m:x: the program stays in the class of C39_serialisable_commutative
	defined map[int]bool // private variables currently defined
	imports map[string]bool
}

func (x *gctx) simple(depth int) string {
	r := x.r
	for {
		switch r.Intn(9) {
		case 0, 1:
			return fmt.Sprintf("i%d.%d", r.Intn(NCounters), r.Range(1, 5))
		case 2:
			if x.private {
				continue
			}
			return fmt.Sprintf("f%d", r.Intn(NFlags))
		case 3:
			return fmt.Sprintf("o%d", r.Intn(50))
		case 4, 5:
			m := r.Intn(NFileMods)
			if x.noGet {
				return fmt.Sprintf("u%d", m)
			}
			return fmt.Sprintf("u%d,g%d", m, m)
		case 6:
			m := r.Intn(NBundled)
			if x.noGet {
				return fmt.Sprintf("b%d", m)
			}
			return fmt.Sprintf("b%d,h%d", m, m)
		case 7:
			return "s"
		case 8:
			if depth >= 2 {
				continue
			}
			return x.parallel(depth + 1)
		}
	}
}

func (x *gctx) body(depth int) string {
	n := x.r.Range(1, 3)
	var ss []string
	for i := 0; i < n; i++ {
		ss = append(ss, x.simple(depth))
	}
	return strings.Join(ss, ",")
}

func (x *gctx) parallel(depth int) string {
	switch x.r.Intn(3) {
	case 0:
		return fmt.Sprintf("P%d[%s]", x.r.Range(1, 4), x.body(depth))
	case 1:
		return fmt.Sprintf("L%d[%s]", x.r.Range(1, 3), x.body(depth))
	}
	return fmt.Sprintf("R[%s|%s]", x.body(depth), x.body(depth))
}

func (x *gctx) top() string {
	r := x.r
	switch r.Intn(10) {
	case 0, 1:
		n := r.Intn(4)
		x.defined[n] = true
		return fmt.Sprintf("v%d.%d", n, r.Intn(50))
	case 2:
		if n, ok := x.pickDefined(); ok {
			return fmt.Sprintf("r%d", n)
		}
	case 3:
		if n, ok := x.pickDefined(); ok {
			delete(x.defined, n)
			return fmt.Sprintf("d%d", n)
		}
	case 4, 5:
		return x.parallel(1)
	}
	return x.simple(0)
}

func (x *gctx) action() string {
	r := x.r
	switch r.Intn(10) {
	case 0:
		return fmt.Sprintf("C(%d.%d)", r.Intn(NCounters), r.Range(1, 5))
	case 1:
		return fmt.Sprintf("K(%d)", r.Intn(len(CheckSources)))
	case 2:
		saved := x.defined
		x.defined, x.private = map[int]bool{}, true
		n := r.Range(1, 4)
		var ss []string
		for i := 0; i < n; i++ {
			ss = append(ss, x.top())
		}
		x.defined, x.private = saved, false
		return "Q(" + strings.Join(ss, ",") + ")"
	}
	n := r.Range(1, 5)
	var ss []string
	for i := 0; i < n; i++ {
		ss = append(ss, x.top())
	}
	return "E(" + strings.Join(ss, ",") + ")"
}

// pickDefined chooses a defined private variable (deterministically from the PRNG).
func (x *gctx) pickDefined() (int, bool) {
	var ks []int
	for n := 0; n < 4; n++ {
		if x.defined[n] {
			ks = append(ks, n)
		}
	}
	if len(ks) == 0 {
		return 0, false
	}
	return common.Pick(x.r, ks), true
}

func genDyn(c *common.Ctx, emit func(fields ...string)) {
	r := c.Rand
	procs := []string{"1", "2", "4", "8"}
	mode := func() string {
		if r.Chance(1, 6) {
			return "plain"
		}
		return "race"
	}
	head := func() []string { return []string{"dyn", mode(), common.Pick(r, procs)} }
	rep := func(s string, n int) []string {
		out := make([]string, n)
		for i := range out {
			out[i] = s
		}
		return out
	}
	// family 1: every goroutine imports the same module (file, nested, circular, bundled)
	same := []string{"E(u0,g0)", "E(u1,g1)", "E(u2,g2)", "E(u3,g3)", "E(u4,g4)", "E(b0,h0)", "E(b1,h1)",
		"E(P3[u0,g0])", "E(R[u2,g2|u3,g3])", "Q(u1,g1)", "E(L2[b1,h1])"}
	for k, s := range same {
		sizes := []int{2, 8}
		if k%2 == 1 {
			sizes = []int{4}
		}
		if c.Thorough() {
			sizes = []int{2, 3, 4, 6, 8}
		}
		for _, n := range sizes {
			emit(append(head(), rep(s, n)...)...)
		}
	}
	// family 2: different modules, and import chains that meet (m1→m0, bm1→m0, m4→bm0, m2↔m3)
	diff := [][]string{
		{"E(u0,g0)", "E(u1,g1)", "E(b1,h1)", "E(u4,g4)"},
		{"E(u2,g2)", "E(u3,g3)"},
		{"E(u2,g2)", "E(u3,g3)", "E(u2,u3)", "E(u3,u2)"},
		{"E(u4,g4)", "E(b0,h0)", "E(b1,h1)", "E(u0,g0)", "E(u1,g1)", "E(u2,g2)", "E(u3,g3)", "E(s)"},
		{"E(u0,g0);K(3);K(6)", "K(3);K(6);K(0)", "E(u1,g1);K(4)", "K(1);K(2);K(5)"},
		{"E(u0);E(g0)", "E(u0);E(g0)", "E(u0);E(g0)"},
	}
	for _, gs := range diff {
		for k := 0; k < c.Scale(1, 6); k++ {
			emit(append(head(), gs...)...)
		}
	}
	// family 3: namespace traffic — private globals defined, read and deleted while others evaluate
	nsOps := [][]string{
		{"E(v0.1,r0);E(d0)", "E(v0.2,r0);E(d0)", "E(v1.3);E(r1)", "E(o1);E(o2)"},
		{"E(v0.1);E(v1.2);E(r0,r1);E(d0);E(d1)", "E(v0.3);E(v1.4);E(r0,r1);E(d0);E(d1)"},
		{"E(v0.7,d0)", "E(v0.8,d0)", "E(v0.9,d0)", "E(v1.1)", "E(v2.1)", "E(f0,f1)", "C(0.1);C(1.2)", "K(0)"},
		{"C(0.1);C(0.2);C(0.3)", "C(0.4);C(1.1)", "E(i0.5,P4[i1.1,f2])", "E(R[i2.1,f0|i2.2,f1])"},
	}
	for _, gs := range nsOps {
		for k := 0; k < c.Scale(2, 6); k++ {
			emit(append(head(), gs...)...)
		}
	}
	// family 4: programs of the class of C39_serialisable_commutative (imports — same, nested, circular,
	// bundled, inside peach / run-parallel — counters and flags, no read of $m:x): proved serialisable on
	// the concurrent model, judged here against the real interpreter
	class := [][]string{
		{"E(u2,i0.1)", "E(u3,i0.2)", "E(u2,u3,f0)", "E(u3,u2,f1)"},
		{"E(u1,P3[u0,i1.1])", "E(b1,u4,f0);C(0.2)", "E(R[u0,i2.1|u1,i2.2])", "Q(u4,b0,L2[i3.1])"},
		{"E(P4[u2,i0.1,o1])", "E(P4[u3,i0.1,o2])", "E(u0,u1,u2,u3,u4,b0,b1);K(3)", "E(b1,b0,u4,u3,u2,u1,u0);K(6)"},
	}
	for _, gs := range class {
		for k := 0; k < c.Scale(2, 6); k++ {
			emit(append(head(), gs...)...)
		}
	}
	// random programs (every third one stays in the class: imports without reading $m:x)
	n := c.Scale(30, 600)
	for i := 0; i < n; i++ {
		ng := r.Range(2, 8)
		fields := head()
		for g := 0; g < ng; g++ {
			x := &gctx{r: r, g: g, defined: map[int]bool{}, noGet: i%3 == 0}
			na := r.Range(1, 4)
			var as []string
			for a := 0; a < na; a++ {
				as = append(as, x.action())
			}
			fields = append(fields, strings.Join(as, ";"))
		}
		emit(fields...)
	}
}
