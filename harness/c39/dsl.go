package c39

// The little language of the dynamic ops.  An op describes what each of the
// 2..8 goroutines does with the ONE shared Evaler; every goroutine runs a list
// of API actions, every action is rendered to elvish source here.  The shared
// state the programs touch is restricted to commutative updates (atomic
// counters, set-only flags, variables private to one goroutine, module
// imports) so that every sequential order of the evaluations produces the same
// result — the Lean model (ElvModel/C39/Programs.lean) computes that result.
//
//   goroutine := action (';' action)*
//   action    := 'E' '(' stmts ')'          ev.Eval of the rendered statements (shared global namespace)
//              | 'Q' '(' stmts ')'          ev.Eval with a private Global namespace (EvalCfg.Global)
//              | 'C' '(' c '.' k ')'        ev.Call of the closure $bump~ with arguments c k  (= i<c>.<k>)
//              | 'K' '(' n ')'              ev.Check of check source number n
//   stmts     := stmt (',' stmt)*
//   stmt      := 'i' c '.' k                c39inc c k         atomic counter c += k
//              | 'f' n                      set f<n> = $true   set-only flag
//              | 'o' v                      put v
//              | 'u' m                      use m<m> g<G>m<m>      file module, under a name private to the goroutine
//              | 'b' m                      use bm<m> g<G>bm<m>    bundled module
//              | 's'                        use str g<G>str   (odd G: use builtin g<G>str)
//              | 'g' m                      put [<100+m> $g<G>m<m>:x]   (module must be imported in scope; tagged with the expected value)
//              | 'h' m                      put [<200+m> $g<G>bm<m>:x]
//              | 'v' n '.' k                var g<G>_<n> = k   (G = goroutine index: private name)
//              | 'r' n                      put $g<G>_<n>
//              | 'd' n                      del g<G>_<n>
//              | 'P' n '[' stmts ']'        range n | peach {|_| stmts }
//              | 'R' '[' stmts '|' stmts ']'  run-parallel { stmts } { stmts }
//              | 'L' n '[' stmts ']'        range n | each {|_| stmts }      (a pipeline)
//
// Every name a program defines in the shared global namespace is private to
// its goroutine (g<G>…): Eval publishes the declarations of a chunk before it
// runs it, so a program that referred to a global that another in-flight
// evaluation declares could see it uninitialised — shared variables with
// non-commutative updates are outside the class for which serialisability is
// checked (see notes/C39.md).

import (
	"fmt"
	"sort"
	"strconv"
	"strings"
)

// Stmt is one statement of the DSL.
type Stmt struct {
	Op   byte
	A, B int
	Body [][]Stmt // P, L: one body; R: two bodies
}

// Action is one API call made by a goroutine.
type Action struct {
	Kind  byte // E Q C K
	Stmts []Stmt
	A, B  int
}

type dslParser struct {
	s string
	i int
}

func (p *dslParser) peek() byte {
	if p.i < len(p.s) {
		return p.s[p.i]
	}
	return 0
}

func (p *dslParser) expect(c byte) {
	if p.peek() != c {
		panic(fmt.Sprintf("c39 dsl: expected %q at %d in %q", c, p.i, p.s))
	}
	p.i++
}

func (p *dslParser) num() int {
	j := p.i
	for p.i < len(p.s) && p.s[p.i] >= '0' && p.s[p.i] <= '9' {
		p.i++
	}
	if j == p.i {
		panic(fmt.Sprintf("c39 dsl: expected number at %d in %q", j, p.s))
	}
	n, _ := strconv.Atoi(p.s[j:p.i])
	return n
}

func (p *dslParser) stmts() []Stmt {
	var out []Stmt
	for {
		out = append(out, p.stmt())
		if p.peek() != ',' {
			return out
		}
		p.i++
	}
}

func (p *dslParser) stmt() Stmt {
	op := p.peek()
	p.i++
	switch op {
	case 'i', 'v':
		a := p.num()
		p.expect('.')
		return Stmt{Op: op, A: a, B: p.num()}
	case 'f', 'o', 'u', 'b', 'g', 'h', 'r', 'd':
		return Stmt{Op: op, A: p.num()}
	case 's':
		return Stmt{Op: op}
	case 'P', 'L':
		n := p.num()
		p.expect('[')
		b := p.stmts()
		p.expect(']')
		return Stmt{Op: op, A: n, Body: [][]Stmt{b}}
	case 'R':
		p.expect('[')
		b1 := p.stmts()
		p.expect('|')
		b2 := p.stmts()
		p.expect(']')
		return Stmt{Op: op, Body: [][]Stmt{b1, b2}}
	}
	panic(fmt.Sprintf("c39 dsl: bad statement %q at %d in %q", op, p.i-1, p.s))
}

// ParseGoroutine parses one goroutine field of a dyn op.
func ParseGoroutine(s string) []Action {
	p := &dslParser{s: s}
	var out []Action
	for {
		k := p.peek()
		p.i++
		p.expect('(')
		a := Action{Kind: k}
		switch k {
		case 'E', 'Q':
			a.Stmts = p.stmts()
		case 'C':
			a.A = p.num()
			p.expect('.')
			a.B = p.num()
		case 'K':
			a.A = p.num()
		default:
			panic(fmt.Sprintf("c39 dsl: bad action %q in %q", k, s))
		}
		p.expect(')')
		out = append(out, a)
		if p.peek() != ';' {
			break
		}
		p.i++
	}
	if p.i != len(p.s) {
		panic(fmt.Sprintf("c39 dsl: trailing input at %d in %q", p.i, s))
	}
	return out
}

// Render turns statements into elvish source; g is the goroutine index.
func Render(ss []Stmt, g int) string {
	var parts []string
	for _, s := range ss {
		switch s.Op {
		case 'i':
			parts = append(parts, fmt.Sprintf("c39inc %d %d", s.A, s.B))
		case 'f':
			parts = append(parts, fmt.Sprintf("set f%d = $true", s.A))
		case 'o':
			parts = append(parts, fmt.Sprintf("put %d", s.A))
		case 'u':
			parts = append(parts, fmt.Sprintf("use m%d g%dm%d", s.A, g, s.A))
		case 'b':
			parts = append(parts, fmt.Sprintf("use bm%d g%dbm%d", s.A, g, s.A))
		case 's':
			// odd goroutines import the pre-loaded module `builtin` instead: the
			// same effect on the namespace, another path through the module table
			if g%2 == 1 {
				parts = append(parts, fmt.Sprintf("use builtin g%dstr", g))
			} else {
				parts = append(parts, fmt.Sprintf("use str g%dstr", g))
			}
		case 'g':
			parts = append(parts, fmt.Sprintf("put [%d $g%dm%d:x]", ModX(false, s.A), g, s.A))
		case 'h':
			parts = append(parts, fmt.Sprintf("put [%d $g%dbm%d:x]", ModX(true, s.A), g, s.A))
		case 'v':
			parts = append(parts, fmt.Sprintf("var g%d_%d = %d", g, s.A, s.B))
		case 'r':
			parts = append(parts, fmt.Sprintf("put $g%d_%d", g, s.A))
		case 'd':
			parts = append(parts, fmt.Sprintf("del g%d_%d", g, s.A))
		case 'P':
			parts = append(parts, fmt.Sprintf("range %d | peach {|_| %s }", s.A, Render(s.Body[0], g)))
		case 'L':
			parts = append(parts, fmt.Sprintf("range %d | each {|_| %s }", s.A, Render(s.Body[0], g)))
		case 'R':
			parts = append(parts, fmt.Sprintf("run-parallel { %s } { %s }", Render(s.Body[0], g), Render(s.Body[1], g)))
		}
	}
	return strings.Join(parts, "; ")
}

// ---- the fixed world every dynamic op runs in ------------------------------------

// NCounters, NFlags, NFileMods, NBundled: sizes of the shared state.
const (
	NCounters = 4
	NFlags    = 4
	NFileMods = 5
	NBundled  = 2
)

// ModX is the value of $x in a module: file module k has 100+k, bundled k has 200+k.
func ModX(bundled bool, k int) int {
	if bundled {
		return 200 + k
	}
	return 100 + k
}

// FileModuleSource is the text of lib/m<k>.elv.  m1 imports m0; m2 and m3
// import each other (a circular import, which `use` supports by installing the
// namespace before running the module); m4 imports the bundled bm0.
func FileModuleSource(k int) string {
	head := fmt.Sprintf("c39load %d\nc39yield\n", k)
	tail := fmt.Sprintf("c39yield\nvar x = %d\nfn get { put $x }\n", ModX(false, k))
	switch k {
	case 1:
		return head + "use m0\n" + tail
	case 2:
		return head + "use m3\n" + tail
	case 3:
		return head + "use m2\n" + tail
	case 4:
		return head + "use bm0\n" + tail
	}
	return head + tail
}

// BundledModuleSource is the code of bundled module bm<k>; bm1 imports file module m0.
func BundledModuleSource(k int) string {
	head := fmt.Sprintf("c39load %d\nc39yield\n", NFileMods+k)
	tail := fmt.Sprintf("c39yield\nvar x = %d\n", ModX(true, k))
	if k == 1 {
		return head + "use m0\n" + tail
	}
	return head + tail
}

// Imports gives the modules (load-counter indices) module idx imports directly.
func Imports(idx int) []int {
	switch idx {
	case 1:
		return []int{0}
	case 2:
		return []int{3}
	case 3:
		return []int{2}
	case 4:
		return []int{NFileMods + 0}
	case NFileMods + 1:
		return []int{0}
	}
	return nil
}

// CheckSources are the sources given to ev.Check; the expected answers only
// depend on builtins and the modules installed before any goroutine starts.
var CheckSources = []string{
	"put 1",                     // fine
	"put $nonexistent-variable", // compilation error
	"put [",                     // parse error
	"re:quote a",                // autofix `use re` (reads the module table; the programs never import re)
	"use str; str:to-upper a",   // fine
	"fn f {|a| put $a }; f 1",   // fine
	"math:abs 1",                // autofix `use math`
}

// sortedInts renders a multiset of outputs canonically.
func sortedInts(xs []int) string {
	sort.Ints(xs)
	var sb strings.Builder
	for i, x := range xs {
		if i > 0 {
			sb.WriteByte(' ')
		}
		sb.WriteString(strconv.Itoa(x))
	}
	if len(xs) == 0 {
		return "-"
	}
	return sb.String()
}
